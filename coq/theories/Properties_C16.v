(* C16  Several hosts act as the sum of single hosts, weighted by competency.
   Statements only (copied from the lemmas they restate by tools/mkprops.py); proofs in
   MultiHostProps.v, PestProps.v and ActionProps.v.  All statements hold for every number
   of hosts, every landscape and every tape of random outcomes.  `column w i cs` says cs are
   the cells at index i of all hosts; `established_in g w w' k i` says exactly host k's cell i
   was replaced by the result of add_disperser with one establishment.
   PARTIAL: 'wrapped around a single host it behaves exactly like that host' holds as an
   equation of the two programs whenever the suitability is positive; with suitability 0 the
   multi-host pool returns 0 without drawing while the single host may consume one
   establishment outcome that is forced to fail (C16_single_host_zero): same result, one
   random number fewer.  Tie: bin/check C16. *)
From Coq Require Import ZArith QArith List.
From Pops Require Import Err Rounding CellDefs CellProps LandDefs MonadProps LandProps LandProps2 ActionProps PestProps MultiHostProps.
Import ListNotations.
Local Open Scope Z_scope.

(* a multi-host pool reports as infected and total hosts the sums over its hosts *)
Theorem C16_infected_is_sum : forall i w t x w' t',
  multi_infected_at i w t = Ok (x, w', t') ->
  w' = w /\ t' = t /\ exists cs, column w i cs /\ x = sumZ (map cI cs).
Proof. exact multi_sums. Qed.
Print Assumptions C16_infected_is_sum.

Theorem C16_total_hosts_is_sum : forall i w t x w' t',
  multi_total_hosts_at i w t = Ok (x, w', t') ->
  w' = w /\ t' = t /\ exists cs, column w i cs /\ x = sumZ (map (fun c => cS c + cI c) cs).
Proof. exact multi_sums_total. Qed.
Print Assumptions C16_total_hosts_is_sum.

(* a landing disperser is handed to at most one host, which must have a susceptible individual (both arrival behaviours) *)
Theorem C16_disperser_at_most_one_host : forall g i w t est w' t',
  multi_disperser_to g i w t = Ok (est, w', t') ->
  (est = 0 /\ w' = w) \/ (est = 1 /\ exists k, established_in g w w' k i).
Proof. exact disperser_at_most_one_host. Qed.
Print Assumptions C16_disperser_at_most_one_host.

(* pests leaving are split among hosts without exceeding the request or any host's infected *)
Theorem C16_pests_from_split : forall i count w t x w' t',
  0 <= count ->
  multi_pests_from i count w t = Ok (x, w', t') ->
  exists cs ds labels,
    t = EvDraw labels :: t' /\ ds = counts_of labels (length (w_hosts w)) /\
    column w i cs /\ Forall2 (fun d c => 0 <= d <= cI c) ds cs /\
    sumZ ds = x /\ x = Z.min count (sumZ (map cI cs)) /\ 0 <= x <= count /\ x <= sumZ (map cI cs) /\
    column w' i (map2 (fun c d => fst (pests_from c d)) cs ds) /\ same_but_column w w' i.
Proof. exact pests_split_bounds. Qed.
Print Assumptions C16_pests_from_split.

(* pests arriving are split among hosts without exceeding the request or any host's susceptibles *)
Theorem C16_pests_to_split : forall i count w t x w' t',
  0 <= count ->
  multi_pests_to i count w t = Ok (x, w', t') ->
  exists cs ds labels,
    t = EvDraw labels :: t' /\ ds = counts_of labels (length (w_hosts w)) /\
    column w i cs /\ Forall2 (fun d c => 0 <= d <= cS c) ds cs /\
    sumZ ds = x /\ x = Z.min count (sumZ (map cS cs)) /\ 0 <= x <= count /\ x <= sumZ (map cS cs) /\
    column w' i (map2 (fun c d => fst (pests_to c d)) cs ds) /\ same_but_column w w' i.
Proof. exact pests_to_split_bounds. Qed.
Print Assumptions C16_pests_to_split.

(* wrapped around a single host the pool is that host: arrival behaviour 'infect' *)
Theorem C16_single_host_infect : forall g i w t s w1 t1,
  length (w_hosts w) = 1%nat -> g_arrival_land g = false ->
  suitability_at g 0 i w t = Ok (s, w1, t1) -> (0 < s)%Q ->
  multi_disperser_to g i w t = host_disperser_to g 0 i w t.
Proof. exact single_host_infect. Qed.
Print Assumptions C16_single_host_infect.

(* ... and arrival behaviour 'land' *)
Theorem C16_single_host_land : forall g i w t s w1 t1 hc,
  length (w_hosts w) = 1%nat -> g_arrival_land g = true ->
  nth_error (g_hosts g) 0 = Some hc -> h_est_stoch hc = g_est_stoch g -> h_est_prob hc = g_est_prob g ->
  suitability_at g 0 i w t = Ok (s, w1, t1) -> (0 < s)%Q ->
  multi_disperser_to g i w t = host_disperser_to g 0 i w t.
Proof. exact single_host_land. Qed.
Print Assumptions C16_single_host_land.

(* ... with suitability 0 both return 0 and leave the world unchanged *)
Theorem C16_single_host_zero : forall g i w t s w1 t1,
  length (w_hosts w) = 1%nat -> suitability_at g 0 i w t = Ok (s, w1, t1) -> (s <= 0)%Q ->
  multi_disperser_to g i w t = Ok (0, w, t) /\
  forall est w' t', host_disperser_to g 0 i w t = Ok (est, w', t') ->
    (est = 0 /\ w' = w /\ (t' = t \/ exists tester p, t = EvEstablish tester p false :: t')) \/
    (exists tester p t'', t = EvEstablish tester p true :: t'' /\ (tester < 1 # 1099511627776)%Q).
Proof. exact single_host_zero. Qed.
Print Assumptions C16_single_host_zero.

(* complete table: the row matching the hosts present *)
Theorem C16_competency_complete : forall rows pres q,
  complete_lookup rows pres None = Ok q <->
  exists pre key post, rows = pre ++ (key, q) :: post /\ beq_list key pres = true /\ no_match pres post.
Proof. exact competency_complete. Qed.
Print Assumptions C16_competency_complete.

(* partial table: the highest score among rows whose required hosts are all present and include the producing host *)
Theorem C16_competency_partial : forall rows pres k q,
  find_competency rows pres k 0%Q = Ok q ->
  (0 <= q)%Q /\
  (forall row, In row rows -> eligible pres k row -> (snd row <= q)%Q) /\
  (q = 0%Q \/ exists row, In row rows /\ eligible pres k row /\ snd row = q).
Proof. exact competency_partial. Qed.
Print Assumptions C16_competency_partial.

(* dispersers produced by a host are scaled by that competency *)
Theorem C16_dispersers_scaled_by_competency : forall g k i w t d w' t',
  host_dispersers_from g k i w t = Ok (d, w', t') ->
  w' = w /\
  exists c hc wc comp row col lam,
    cell_at w k i = Some c /\ nth_error (g_hosts g) k = Some hc /\ 0 < cI c /\
    t = EvGenerate row col lam d :: t' /\
    (g_weather g = true -> weather_at i w t' = Ok (wc, w, t')) /\
    competency_at g k i w t' = Ok (comp, w, t') /\
    (h_disp_stoch hc = false -> d = qlround (gen_lambda g hc wc comp * zq (cI c))) /\
    (h_disp_stoch hc = true -> 0 <= d).
Proof. exact gen_det. Qed.
Print Assumptions C16_dispersers_scaled_by_competency.

(* establishment in a host is scaled by that host's susceptibility *)
Theorem C16_susceptibility_scales : forall g k i w t s w' t' hc sus mrate lag,
  suitability_at g k i w t = Ok (s, w', t') ->
  nth_error (g_hosts g) k = Some hc -> h_pht hc = Some (sus, mrate, lag) ->
  w' = w /\ t' = t /\
  exists c n, cell_at w k i = Some c /\ total_population_at i w t = Ok (n, w, t) /\ n <> 0 /\
    ((g_weather g = false /\ s = (zq (cS c) / zq n * sus)%Q) \/
     (g_weather g = true /\ exists wc, weather_at i w t = Ok (wc, w, t) /\ s = (zq (cS c) / zq n * sus * wc)%Q)).
Proof. exact susceptibility_scales. Qed.
Print Assumptions C16_susceptibility_scales.

(* input for which the combined suitability of a cell would exceed one is rejected *)
Theorem C16_oversuitable_rejected : forall g i w t ws,
  suits g i w t 0 (length (w_hosts w)) ws -> (1 < qsum ws)%Q ->
  multi_disperser_to g i w t = Err InvalidArgument.
Proof. exact oversuitable_rejected. Qed.
Print Assumptions C16_oversuitable_rejected.

Example C16_nonvacuous :
  multi_disperser_to Examples.gx 0 Examples.wx [EvPick 1; EvEstablish (1 # 10) (1 # 5) true] =
  Ok (1, with_hosts Examples.wx [mkhp [Examples.cA] [(0, 0)]; mkhp [mkcell 1 [] 3 0 0 [1] 0 4] [(0, 0)]], []).
Proof. exact Examples.two_hosts_establish. Qed.
Print Assumptions C16_nonvacuous.
