(* C15  Network trips start at nodes, stay on the network, honour cost, snap and clip.
   Statements only; each is closed by `exact` of a lemma proved in NetworkProps.v.
   The model is NetworkDefs.v (tied to network.hpp, network_kernel.hpp and the
   network branch of anthropogenic_kernel.hpp by the correspondence check of
   bin/check C15).  Every theorem is for ANY network value (any topology: dead
   ends, cycles, several nodes per cell, edges partly outside) or for any
   network produced by `load` from any list of records, any start cell, any
   distance, any fuel and any sequence of random picks (`tape`).

   Notions: on_network net c = c is a cell of a stored segment; view_of = a
   stored segment seen forwards or backwards; chain = consecutive nodes of the
   path are neighbours joined by the views; fresh_pref = a node with an
   unvisited neighbour is left towards an unvisited one; sum_costs = sum of the
   costs of views; loaded net = net is the result of load on some input. *)
From Coq Require Import ZArith QArith Qround Qreduction List Bool String.
From Pops Require Import Err NetworkDefs NetworkProps.
Import ListNotations.
Local Open Scope Z_scope.

(* ---- a trip starts only from a cell holding a node ---- *)
Theorem C15_walk_needs_node : forall net fuel start d jump tp,
  nodes_at net start = [] -> walk net fuel start d jump tp = Err InvalidArgument.
Proof. exact walk_needs_node. Qed.
Print Assumptions C15_walk_needs_node.

Theorem C15_teleport_needs_node : forall net start k tp,
  nodes_at net start = [] -> teleport net start k tp = Err InvalidArgument.
Proof. exact teleport_needs_node. Qed.
Print Assumptions C15_teleport_needs_node.

(* ---- and ends on the start cell or a cell of a loaded segment ---- *)
Theorem C15_walk_on_network : forall net fuel start d jump tp c,
  walk net fuel start d jump tp = Ok c -> c = start \/ on_network net c.
Proof. exact walk_on_network. Qed.
Print Assumptions C15_walk_on_network.

(* ---- next_node: a neighbour (the node itself only when it has none), an
        unvisited one whenever one exists ---- *)
Theorem C15_next_node_prefers_unvisited : forall net n ignore tp m tp',
  next_node net n ignore tp = Ok (m, tp') ->
  exists all, connected net n = Ok all /\
    (all = [] -> m = n) /\ (all <> [] -> In m all) /\
    ((exists u, In u all /\ ~ In u ignore) -> ~ In m ignore).
Proof. exact next_node_spec. Qed.
Print Assumptions C15_next_node_prefers_unvisited.

(* ---- the walk starts at a node of the start cell, follows connected segments
        from node to node, and leaves every node towards an unvisited neighbour
        while one exists ---- *)
Theorem C15_walk_follows_segments_preferring_unvisited : forall net fuel start d jump tp r,
  walk_tr net fuel start d jump tp = Ok r ->
  (exists n0 t, In n0 (nodes_at net start) /\ w_path r = n0 :: t) /\
  chain net (w_path r) (w_views r) /\ fresh_pref net [] (w_path r).
Proof. exact walk_tr_path. Qed.
Print Assumptions C15_walk_follows_segments_preferring_unvisited.

(* ---- cost accounting: every segment passed costs less than what was left
        when it was entered; the walk stops on the first segment whose cost is
        at least the remaining distance rem = d - (sum of the earlier costs),
        at the cell stop_cell gives for rem (w_on_segment), or returns the start
        cell when the next node is the node itself ---- *)
Theorem C15_cost_accounting : forall net fuel start d jump tp r,
  walk_tr net fuel start d jump tp = Ok r ->
  if w_on_segment r then
    exists pre last rem, w_views r = pre ++ [last] /\
      (forall i v, nth_error pre i = Some v -> (v_cost v < d - sum_costs (firstn i pre))%Q) /\
      (rem == d - sum_costs pre)%Q /\ (0 <= rem)%Q /\ (rem <= v_cost last)%Q /\
      stop_cell last rem jump = Ok (w_cell r)
  else
    w_cell r = start /\
    (forall i v, nth_error (w_views r) i = Some v -> (v_cost v < d - sum_costs (firstn i (w_views r)))%Q).
Proof. exact walk_tr_accounting. Qed.
Print Assumptions C15_cost_accounting.

(* without snapping the stop is the cell at index lround(rem / cost per cell)
   of the segment in the direction of travel *)
Theorem C15_stop_is_cell_by_cost : forall v rem c, stop_cell v rem false = Ok c ->
  exists i, index_from_cost (v_seg v) rem = Ok i /\ nth_cell (v_cells v) i = Ok c.
Proof. exact no_jump_stops_by_cost. Qed.
Print Assumptions C15_stop_is_cell_by_cost.

(* ---- the index is in bounds for every remaining distance within a segment
        of two or more cells and positive cost ---- *)
Theorem C15_index_in_bounds : forall s rem, wf_seg s -> (0 < seg_cost s)%Q ->
  (0 <= rem)%Q -> (rem <= seg_cost s)%Q ->
  exists i, index_from_cost s rem = Ok i /\ 0 <= i <= sg_n1 s.
Proof. exact index_in_bounds. Qed.
Print Assumptions C15_index_in_bounds.

(* ---- snapping: less than half the segment -> its start node's end, otherwise
        the end node's end; on a loaded network that cell holds a node of the
        path ---- *)
Theorem C15_jump_snaps : forall v rem c, stop_cell v rem true = Ok c ->
  ((rem < v_cost v / 2)%Q -> view_front v = Ok c) /\
  ((v_cost v / 2 <= rem)%Q -> view_back v = Ok c).
Proof. exact jump_snaps. Qed.
Print Assumptions C15_jump_snaps.

Theorem C15_segment_ends_hold_its_nodes : forall net (a b : node) v, loaded net ->
  get_segment net a b = Ok v ->
  (forall c, view_front v = Ok c -> In a (nodes_at net c)) /\
  (forall c, view_back v = Ok c -> In b (nodes_at net c)).
Proof. exact view_ends_hold_nodes. Qed.
Print Assumptions C15_segment_ends_hold_its_nodes.

Theorem C15_jump_ends_on_node : forall net fuel start d tp r, loaded net ->
  walk_tr net fuel start d true tp = Ok r -> w_on_segment r = true ->
  exists n, In n (w_path r) /\ In n (nodes_at net (w_cell r)).
Proof. exact jump_ends_on_node. Qed.
Print Assumptions C15_jump_ends_on_node.

(* ---- teleport (one step, what the kernel does): ends at the cell of a
        neighbour of a node of the start cell; where the node has two or more
        neighbours and probabilities are given, over an entry of positive
        probability; on a loaded network over a stored edge of positive
        probability ---- *)
Theorem C15_teleport_adjacent : forall net start tp m c,
  teleport_tr net start 1 tp = Ok (m, c) ->
  exists n0 ps ms, In n0 (nodes_at net start) /\ adj_at net n0 = Ok (ps, ms) /\
    ((ms = [] /\ m = n0) \/ In m ms) /\
    (forall a b t, ms = a :: b :: t -> ps <> [] ->
       exists i p, nth_error ps i = Some p /\ (0 < p)%Q /\ nth_error ms i = Some m) /\
    (exists ns, In (c, ns) (nw_nodes net) /\ In m ns).
Proof. exact teleport_adjacent. Qed.
Print Assumptions C15_teleport_adjacent.

Theorem C15_teleport_loaded : forall net start tp m c, loaded net ->
  teleport_tr net start 1 tp = Ok (m, c) ->
  exists n0, In n0 (nodes_at net start) /\
    (exists s, In ((n0, m), s) (nw_segs net) \/ In ((m, n0), s) (nw_segs net)) /\
    (forall ps a b t, adj_at net n0 = Ok (ps, a :: b :: t) -> ps <> [] ->
       exists s, (0 < sg_prob s)%Q /\ (In ((n0, m), s) (nw_segs net) \/ In ((m, n0), s) (nw_segs net))) /\
    (exists ns, In (c, ns) (nw_nodes net) /\ In m ns).
Proof. exact teleport_loaded. Qed.
Print Assumptions C15_teleport_loaded.

(* ---- loading.  A record is accepted exactly when its fields convert, both
        ids are >= 1, the probability is >= 0 and there are two or more
        coordinate pairs; it is kept iff the cells of its first and last pair
        are inside; the stored cells are the points' cells with repetitions
        merged ---- *)
Theorem C15_record_kept_iff_end_nodes_inside : forall g hc hp r o,
  record_segment g hc hp r = Ok o ->
  exists n1 n2 cost prob xs,
    rr_n1 r = Ok n1 /\ rr_n2 r = Ok n2 /\ 1 <= n1 /\ 1 <= n2 /\
    (hp = true -> rr_prob r = Ok prob /\ (0 <= prob)%Q) /\
    (hc = true -> rr_cost r = Ok cost) /\
    sequence (rr_pts r) = Ok xs /\ (2 <= List.length xs)%nat /\
    o = if cell_out_of_bbox g (pt_cell g (hd (0, 0)%Q xs)) || cell_out_of_bbox g (pt_cell g (last xs (0, 0)%Q))
        then None else Some ((n1, n2), record_seg g hc hp cost prob xs).
Proof. exact record_segment_ok. Qed.
Print Assumptions C15_record_kept_iff_end_nodes_inside.

Theorem C15_merges_repeated_cells : forall g xs,
  let m := dedup None (map (pt_cell g) xs) in
  stutter m (map (pt_cell g) xs) /\ no_adj_dup m /\
  merged_cells g xs = (match m with [c] => [c; c] | _ => m end).
Proof. exact merged_cells_spec. Qed.
Print Assumptions C15_merges_repeated_cells.

Theorem C15_cost_stated_or_length_derived : forall g hp cost prob xs,
  (seg_cost (record_seg g true hp cost prob xs) == cost)%Q /\
  seg_cost (record_seg g false hp cost prob xs) =
    (inject_Z (Z.of_nat (List.length (merged_cells g xs)) - 1) * distance_per_cell g)%Q.
Proof. exact record_seg_cost. Qed.
Print Assumptions C15_cost_stated_or_length_derived.

Theorem C15_malformed_record_rejected : forall g hc hp r,
  (forall e, rr_n1 r = Err e -> record_segment g hc hp r = Err e) /\
  (forall n1 e, rr_n1 r = Ok n1 -> rr_n2 r = Err e -> record_segment g hc hp r = Err e) /\
  (forall n1 n2, rr_n1 r = Ok n1 -> rr_n2 r = Ok n2 -> (n1 < 1 \/ n2 < 1) ->
     record_segment g hc hp r = Err RuntimeError) /\
  (forall n1 n2, rr_n1 r = Ok n1 -> rr_n2 r = Ok n2 -> 1 <= n1 -> 1 <= n2 ->
     (hp = true -> forall e, rr_prob r = Err e -> record_segment g hc hp r = Err e) /\
     (hp = true -> forall p, rr_prob r = Ok p -> (p < 0)%Q -> record_segment g hc hp r = Err InvalidArgument) /\
     ((hp = true -> exists p, rr_prob r = Ok p /\ (0 <= p)%Q) ->
        (hc = true -> forall e, rr_cost r = Err e -> record_segment g hc hp r = Err e) /\
        ((hc = true -> exists c, rr_cost r = Ok c) ->
           (forall e, sequence (rr_pts r) = Err e -> record_segment g hc hp r = Err e) /\
           (forall xs, sequence (rr_pts r) = Ok xs -> (List.length xs < 2)%nat ->
              record_segment g hc hp r = Err RuntimeError)))).
Proof. exact record_segment_rejects. Qed.
Print Assumptions C15_malformed_record_rejected.

(* load succeeds only when the header and every record are accepted; the
   segment table is then the kept records with the first record of a node pair
   winning, and nodes / adjacency are the index of that table *)
Theorem C15_load_characterised : forall g fl lines ae net, load g fl lines ae = Ok net ->
  exists hc hp consumed outs,
    stream_has_columns fl = Ok (hc, hp, consumed) /\
    sequence (map (record_segment g hc hp) (if consumed then tl lines else lines)) = Ok outs /\
    nw_grid net = g /\
    nw_segs net = emplace_all (kept outs) [] /\
    (nw_nodes net, nw_adj net) = index_segments hp (nw_segs net) [] [] /\
    (ae = false -> nw_segs net <> []).
Proof. exact load_spec. Qed.
Print Assumptions C15_load_characterised.

Theorem C15_load_rejects : forall g fl lines ae,
  (forall e, stream_has_columns fl = Err e -> load g fl lines ae = Err e) /\
  (forall hc hp consumed, stream_has_columns fl = Ok (hc, hp, consumed) ->
     (forall e, sequence (map (record_segment g hc hp) (if consumed then tl lines else lines)) = Err e ->
        load g fl lines ae = Err e) /\
     (forall outs, sequence (map (record_segment g hc hp) (if consumed then tl lines else lines)) = Ok outs ->
        kept outs = [] -> ae = false -> load g fl lines ae = Err RuntimeError)).
Proof. exact load_rejects. Qed.
Print Assumptions C15_load_rejects.

Theorem C15_load_first_record_of_pair : forall g fl lines ae net hc hp consumed outs,
  load g fl lines ae = Ok net ->
  stream_has_columns fl = Ok (hc, hp, consumed) ->
  sequence (map (record_segment g hc hp) (if consumed then tl lines else lines)) = Ok outs ->
  forall k, m_find cell_cmp k (nw_segs net) = m_find cell_cmp k (kept outs).
Proof. exact load_first_record_of_pair. Qed.
Print Assumptions C15_load_first_record_of_pair.

(* exactly the kept records are in the network when no node pair is repeated
   among them ... *)
Theorem C15_load_keeps_exactly_inside_edges_when_pairs_distinct :
  forall g fl lines ae net hc hp consumed outs,
  load g fl lines ae = Ok net ->
  stream_has_columns fl = Ok (hc, hp, consumed) ->
  sequence (map (record_segment g hc hp) (if consumed then tl lines else lines)) = Ok outs ->
  NoDup (map fst (kept outs)) ->
  forall k s, In (k, s) (kept outs) <-> m_find cell_cmp k (nw_segs net) = Some s.
Proof. exact load_keeps_all_when_distinct. Qed.
Print Assumptions C15_load_keeps_exactly_inside_edges_when_pairs_distinct.

(* ... and not otherwise: a second record of the same node pair with both end
   nodes inside is silently dropped (finding C15.load.parallel_edges) *)
Theorem C15_load_keeps_inside_edges_refuted : exists g lines net k s,
  load g [L_other; L_other; L_other] lines false = Ok net /\
  (exists r, In r lines /\ record_segment g false false r = Ok (Some (k, s))) /\
  ~ In (k, s) (nw_segs net).
Proof. exact parallel_edge_dropped. Qed.
Print Assumptions C15_load_keeps_inside_edges_refuted.

(* both directions: a stored segment is found from its start node forwards and
   (unless the opposite pair is stored too) from its end node reversed - the
   same segment, hence the same cost; each end node lists the other as a
   neighbour; its end cells hold its end nodes *)
Theorem C15_both_directions : forall net (a b : node) s, loaded net ->
  m_find cell_cmp (a, b) (nw_segs net) = Some s ->
  get_segment net a b = Ok (mkview (sg_cells s) s) /\
  (m_find cell_cmp (b, a) (nw_segs net) = None -> get_segment net b a = Ok (mkview (rev (sg_cells s)) s)) /\
  (exists la lb, connected net a = Ok la /\ In b la /\ connected net b = Ok lb /\ In a lb) /\
  In a (nodes_at net (seg_hd s)) /\ In b (nodes_at net (seg_last s)).
Proof. exact both_directions. Qed.
Print Assumptions C15_both_directions.

(* every neighbour listed for a node of a loaded network is joined to it by a
   stored segment that get_segment finds, and has neighbours itself *)
Theorem C15_loaded_neighbour_has_segment : forall net, loaded net -> forall n l m,
  connected net n = Ok l -> In m l ->
  (exists s, In ((n, m), s) (nw_segs net) \/ In ((m, n), s) (nw_segs net)) /\
  (exists v, get_segment net n m = Ok v) /\ good_node net m.
Proof. exact loaded_neighbour. Qed.
Print Assumptions C15_loaded_neighbour_has_segment.

(* ---- the kernel forwards its configured mode (repaired call, see
        notes/findings/C15_kernel_jump_not_forwarded.md) ---- *)
Theorem C15_kernel_forwards_mode : forall net movement d fuel start tp,
  kernel_call net (kernel_of_movement movement d d) fuel d start tp =
  if String.eqb movement "teleport" then teleport net start 1 tp
  else walk net fuel start d (String.eqb movement "jump") tp.
Proof. exact kernel_forwards_mode. Qed.
Print Assumptions C15_kernel_forwards_mode.

Theorem C15_kernel_walk_forwards_jump : forall net k fuel dist start tp,
  k_teleport k = false ->
  (k_min k <= dist)%Q -> ((dist < k_max k)%Q \/ (k_min k == k_max k)%Q) ->
  kernel_call net k fuel dist start tp = walk net fuel start dist (k_jump k) tp.
Proof. exact kernel_walk_forwards. Qed.
Print Assumptions C15_kernel_walk_forwards_jump.

Theorem C15_kernel_teleport_forwards : forall net k fuel dist start tp,
  k_teleport k = true -> kernel_call net k fuel dist start tp = teleport net start 1 tp.
Proof. exact kernel_teleport_forwards. Qed.
Print Assumptions C15_kernel_teleport_forwards.

(* ---- termination: fuel ceil(d / min cost) + 1 suffices when every segment
        cost is positive ... ---- *)
Theorem C15_walk_terminates : forall net fuel start d jump tp,
  costs_positive net = true -> (walk_fuel net d <= fuel)%nat ->
  walk net fuel start d jump tp <> Err OutOfFuel.
Proof. exact walk_terminates. Qed.
Print Assumptions C15_walk_terminates.

(* ... and not otherwise: load accepts a stated cost of 0, and on that network
   walk(0, 0, 1.0) does not terminate whatever the fuel (finding
   C15.termination.nonpositive_cost); with distance 0 the index is 0/0 *)
Theorem C15_walk_terminates_refuted : exists g hdr lines net,
  load g hdr lines false = Ok net /\
  forall fuel, walk net fuel (0, 0) 1 false [] = Err OutOfFuel.
Proof. exact walk_nontermination. Qed.
Print Assumptions C15_walk_terminates_refuted.

Theorem C15_zero_cost_index_undefined :
  walk zero_cost_net 5 (0, 0) 0 false [] = Err UB_OutOfBounds.
Proof. exact zero_cost_index_undefined. Qed.
Print Assumptions C15_zero_cost_index_undefined.

(* ---- on a loaded network with positive costs a walk fails only for the
        documented reasons (no node at the start, negative distance), for an
        invalid tape, or for lack of fuel: never an index out of a segment, a
        missing segment or a missing adjacency entry ---- *)
Theorem C15_walk_loaded_errors : forall net fuel start d jump tp e,
  loaded net -> costs_positive net = true ->
  walk net fuel start d jump tp = Err e ->
  (e = InvalidArgument /\ (nodes_at net start = [] \/ (d < 0)%Q)) \/ e = TapeMismatch \/ e = OutOfFuel.
Proof. exact walk_loaded_errors. Qed.
Print Assumptions C15_walk_loaded_errors.

(* ---- the enumeration used by the correspondence check is exactly the set of
        results over all tapes ---- *)
Theorem C15_walk_all_complete : forall net fuel start d jump tp,
  walk net fuel start d jump tp <> Err TapeMismatch ->
  In (walk net fuel start d jump tp) (walk_all net fuel start d jump).
Proof. exact walk_all_complete. Qed.
Print Assumptions C15_walk_all_complete.

Theorem C15_walk_all_sound : forall net fuel start d jump r,
  In r (walk_all net fuel start d jump) -> exists tp, walk net fuel start d jump tp = r.
Proof. exact walk_all_sound. Qed.
Print Assumptions C15_walk_all_sound.

(* Non-vacuity: a network with a cycle, a dead end, two nodes in one cell and an
   edge with an end node outside (dropped), loaded from records; a walk over
   three segments with a random pick, a snapped walk and a teleport. *)
Definition ex_grid : grid := mkgrid 10 0 10 0 1 1.
Definition ex_pt (x y : Z) : result (Q * Q) := Ok (inject_Z x + (1 # 2), inject_Z y + (1 # 2))%Q.
Definition ex_rec (a b : Z) (pts : list (result (Q * Q))) : rawrec :=
  mkraw (Ok a) (Ok b) (Err InvalidArgument) (Err InvalidArgument) pts.
Definition ex_lines : list rawrec :=
  [ ex_rec 1 2 [ex_pt 0 9; ex_pt 1 9; ex_pt 1 9; ex_pt 2 9];
    ex_rec 2 3 [ex_pt 2 9; ex_pt 2 8; ex_pt 2 7];
    ex_rec 3 1 [ex_pt 2 7; ex_pt 1 8; ex_pt 0 9];
    ex_rec 3 4 [ex_pt 2 7; ex_pt 3 7; ex_pt 4 7; ex_pt 5 7];
    ex_rec 5 4 [ex_pt 5 7; ex_pt 5 7];
    ex_rec 4 6 [ex_pt 5 7; ex_pt 9 7; ex_pt 12 7] ].

Example C15_nonvacuous : exists net,
  load ex_grid [L_other; L_other; L_other] ex_lines false = Ok net /\
  loaded net /\ costs_positive net = true /\
  List.length (nw_segs net) = 5%nat /\ nodes_at net (2, 5) = [4; 5] /\
  walk net (walk_fuel net (9 # 2)) (0, 0) (9 # 2) false [0%nat] = Ok (2, 3) /\
  walk net (walk_fuel net (9 # 2)) (0, 0) (9 # 2) true [0%nat] = Ok (2, 2) /\
  teleport net (2, 2) 1 [2%nat] = Ok (2, 5).
Proof.
  eexists. split; [vm_compute; reflexivity|].
  split; [exists ex_grid, [L_other; L_other; L_other], ex_lines, false; vm_compute; reflexivity|].
  vm_compute. repeat split.
Qed.
Print Assumptions C15_nonvacuous.
