(* Property C20: no undefined behaviour inside the documented domain.

   In the model every raster / vector access is bounds-checked and returns
   [Err UB_OutOfBounds] exactly where the C++ would index outside a buffer
   (or divide by a zero total).  This file proves that for worlds, inputs and
   schedules inside the documented domain this never happens: for every
   action, every step and every run, for EVERY tape of random outcomes.

   Contents
     1. the judgement [safe P m Q] ("never UB, and Q on success") and its rules;
     2. [ncells], [in_grid], the well-formedness predicate [WF] of a world;
     3. the leaf operations (rget / rset / idx_of / add_last / get_host /
        set_host / get_cell / set_cell) and the per-cell operations;
     4. every action of LandDefs.v, bottom-up (section Actions);
     5. [inputs_wf], [sched_wf], the plan, run_action / run_plan / run_step /
        run_many;
     6. [counts_bounded] and a concrete inhabitant of the domain.

   Other error kinds (InvalidArgument, LogicError, RuntimeError, OutOfRange,
   TapeMismatch) are allowed: they are the documented exceptions or an invalid
   tape. *)
From Coq Require Import ZArith QArith List Bool Lia.
From Pops Require Import Err Rounding RoundingProps CellDefs CellProps MoveProps LandDefs MonadProps
     LandProps ShapeProps LandProps2 SchedDefs SchedProps ModelDefs ModelProps RunProps.
Import ListNotations.
Local Open Scope Z_scope.

Definition no_ub {A} (r : result A) : Prop := r <> Err UB_OutOfBounds.

(* ---------- the judgement ---------- *)
Section Safe.
Context {S : Type}.

Definition safe {A} (P : S -> Prop) (m : M S A) (Q : A -> S -> Prop) : Prop :=
  forall s t, P s ->
    match m s t with Ok (a, s', _) => Q a s' | Err e => e <> UB_OutOfBounds end.

Lemma safe_ret {A} (a : A) (P : S -> Prop) : safe P (ret a) (fun x s => x = a /\ P s).
Proof. intros s t H. cbn. auto. Qed.

Lemma safe_bind {A B} (m : M S A) (f : A -> M S B) P Q R :
  safe P m Q -> (forall a, safe (Q a) (f a) R) -> safe P (mbind m f) R.
Proof.
  intros Hm Hf s t HP. unfold mbind. specialize (Hm s t HP).
  destruct (m s t) as [[[a s1] t1]|e]; [|exact Hm]. apply Hf. exact Hm.
Qed.

Lemma safe_conseq {A} (m : M S A) (P P' : S -> Prop) (Q Q' : A -> S -> Prop) :
  safe P' m Q' -> (forall s, P s -> P' s) -> (forall a s, Q' a s -> Q a s) -> safe P m Q.
Proof.
  intros H HP HQ s t Hs. specialize (H s t (HP _ Hs)).
  destruct (m s t) as [[[a s1] t1]|e]; [apply HQ; exact H|exact H].
Qed.

Lemma safe_pre {A} (m : M S A) (P P' : S -> Prop) (Q : A -> S -> Prop) :
  safe P' m Q -> (forall s, P s -> P' s) -> safe P m Q.
Proof. intros H HP. eapply safe_conseq; [exact H|exact HP|auto]. Qed.

Lemma safe_post {A} (m : M S A) (P : S -> Prop) (Q Q' : A -> S -> Prop) :
  safe P m Q' -> (forall a s, Q' a s -> Q a s) -> safe P m Q.
Proof. intros H HQ. eapply safe_conseq; [exact H|auto|exact HQ]. Qed.

Lemma safe_fail {A} (e : err) P (Q : A -> S -> Prop) : e <> UB_OutOfBounds -> safe P (fail e) Q.
Proof. intros He s t _. exact He. Qed.

Lemma safe_lift {A} (r : result A) (P : S -> Prop) :
  no_ub r -> safe P (lift r) (fun a s => r = Ok a /\ P s).
Proof.
  intros Hr s t HP. unfold lift. destruct r as [a|e]; [auto|]. intros ->. apply Hr. reflexivity.
Qed.

Lemma safe_get (P : S -> Prop) : safe P get (fun a s => a = s /\ P s).
Proof. intros s t HP. cbn. auto. Qed.

Lemma safe_put (s0 : S) (P : S -> Prop) : safe P (put s0) (fun _ s => s = s0).
Proof. intros s t HP. cbn. reflexivity. Qed.

Lemma safe_pop (P : S -> Prop) : safe P pop (fun _ s => P s).
Proof. intros s t HP. unfold pop. destruct t; [discriminate|exact HP]. Qed.

Lemma safe_mfold {A} (f : A -> M S unit) (I : S -> Prop) (l : list A) :
  (forall a, In a l -> safe I (f a) (fun _ s => I s)) -> safe I (mfold f l) (fun _ s => I s).
Proof.
  induction l as [|a r IH]; intros Hf; cbn [mfold].
  - intros s t H. exact H.
  - eapply safe_bind; [apply Hf; left; reflexivity|]. intros ?u. apply IH.
    intros b Hb. apply Hf. right; assumption.
Qed.

Lemma safe_mrepeat (m : M S unit) (I : S -> Prop) (n : nat) :
  safe I m (fun _ s => I s) -> safe I (mrepeat n m) (fun _ s => I s).
Proof.
  intros Hm. induction n as [|n IH]; cbn [mrepeat].
  - intros s t H. exact H.
  - eapply safe_bind; [exact Hm|]. intros ?u. exact IH.
Qed.

Lemma safe_if {A} (b : bool) (m1 m2 : M S A) P Q :
  (b = true -> safe P m1 Q) -> (b = false -> safe P m2 Q) -> safe P (if b then m1 else m2) Q.
Proof. destruct b; auto. Qed.

(* a state-independent assertion can be moved out of the precondition *)
Lemma safe_pure {A} (m : M S A) (phi : Prop) (P : S -> Prop) Q :
  (phi -> safe P m Q) -> safe (fun s => phi /\ P s) m Q.
Proof. intros H s t [Hphi HP]. apply H; assumption. Qed.

Lemma safe_pure_r {A} (m : M S A) (phi : Prop) (P : S -> Prop) Q :
  (phi -> safe P m Q) -> safe (fun s => P s /\ phi) m Q.
Proof. intros H s t [HP Hphi]. apply H; assumption. Qed.

(* a fact that follows from the precondition in every state *)
Lemma safe_fact {A} (m : M S A) (phi : Prop) (P : S -> Prop) Q :
  (forall s, P s -> phi) -> (phi -> safe P m Q) -> safe P m Q.
Proof. intros Hf H s t HP. apply H; [eapply Hf; exact HP|exact HP]. Qed.

(* read the state and keep it as a Coq variable *)
Lemma safe_get_k {B} (f : S -> M S B) (P : S -> Prop) R :
  (forall s0, P s0 -> safe (fun s => s = s0 /\ P s) (f s0) R) -> safe P (mbind get f) R.
Proof. intros H s t HP. unfold mbind, get. apply (H s HP). auto. Qed.

(* a partial-correctness triple strengthens the postcondition *)
Lemma safe_hoare {A} (m : M S A) (P : S -> Prop) (Q Q' : A -> S -> Prop) :
  safe P m Q -> hoare P m Q' -> safe P m (fun a s => Q a s /\ Q' a s).
Proof.
  intros Hs Hh s t HP. specialize (Hs s t HP).
  destruct (m s t) as [[[a s1] t1]|e] eqn:E; [|exact Hs]. split; [exact Hs|]. eapply Hh; eauto.
Qed.

Lemma safe_hoare2 {A} (m : M S A) (P P' : S -> Prop) (Q Q' : A -> S -> Prop) :
  safe P m Q -> hoare P' m Q' -> safe (fun s => P s /\ P' s) m (fun a s => Q a s /\ Q' a s).
Proof.
  intros Hs Hh s t [HP HP']. specialize (Hs s t HP).
  destruct (m s t) as [[[a s1] t1]|e] eqn:E; [|exact Hs]. split; [exact Hs|]. eapply Hh; eauto.
Qed.

Lemma safe_false {A} (m : M S A) (Q : A -> S -> Prop) : safe (fun _ => False) m Q.
Proof. intros s t []. Qed.
End Safe.

(* a read-only computation keeps any other assertion about the state *)
Lemma safe_frame_ro {A} (m : W A) (P R : world -> Prop) (Q : A -> world -> Prop) :
  read_only m -> safe P m Q -> safe (fun w => P w /\ R w) m (fun a w => Q a w /\ R w).
Proof.
  intros Hro Hs w t [HP HR]. specialize (Hs w t HP).
  destruct (m w t) as [[[a w1] t1]|e] eqn:E; [|exact Hs]. apply Hro in E. subst w1. auto.
Qed.

Lemma safe_for_hosts (f : nat -> W unit) (I : world -> Prop) (n k : nat) :
  (forall j, (k <= j < k + n)%nat -> safe I (f j) (fun _ s => I s)) ->
  safe I (for_hosts k n f) (fun _ s => I s).
Proof.
  revert k. induction n as [|n IH]; intros k Hf; cbn [for_hosts].
  - intros s t H. exact H.
  - eapply safe_bind; [apply Hf; lia|]. intros ?u. apply IH. intros j Hj. apply Hf. lia.
Qed.

(* ---------- pure leaf operations ---------- *)
Lemma no_ub_bind {A B} (r : result A) (f : A -> result B) :
  no_ub r -> (forall a, r = Ok a -> no_ub (f a)) -> no_ub (bind r f).
Proof.
  intros Hr Hf. destruct r as [a|e]; cbn [bind]; [apply Hf; reflexivity|].
  intros H. apply Hr. injection H as ->. reflexivity.
Qed.

Lemma rget_lt {A} (l : list A) i : (i < length l)%nat -> exists a, rget l i = Ok a.
Proof.
  intros H. unfold rget. destruct (nth_error l i) as [a|] eqn:E; [eauto|].
  apply nth_error_None in E. lia.
Qed.

Lemma rget_noub {A} (l : list A) i : (i < length l)%nat -> no_ub (rget l i).
Proof. intros H. destruct (rget_lt l i H) as [a ->]. discriminate. Qed.

Lemma rget_In {A} (l : list A) i a : rget l i = Ok a -> In a l.
Proof. intros H. apply rget_Some in H. eapply nth_error_In; eauto. Qed.

Lemma rget_Ok_lt {A} (l : list A) i a : rget l i = Ok a -> (i < length l)%nat.
Proof. intros H. apply rget_Some in H. apply nth_error_Some. congruence. Qed.

Lemma rset_lt {A} (l : list A) : forall i a, (i < length l)%nat -> exists l', rset l i a = Ok l'.
Proof.
  induction l as [|x r IH]; intros i a H; cbn [length] in H; [lia|]. cbn [rset].
  destruct i as [|i]; [eauto|]. destruct (IH i a ltac:(lia)) as [r' ->]. cbn [bind]. eauto.
Qed.

Lemma rset_noub {A} (l : list A) i a : (i < length l)%nat -> no_ub (rset l i a).
Proof. intros H. destruct (rset_lt l i a H) as [l' ->]. discriminate. Qed.

Lemma rset_same_length {A} (l : list A) i a l' : rset l i a = Ok l' -> length l' = length l.
Proof.
  intros H. destruct (rset_spec _ _ _ _ H) as (pre & old & post & -> & -> & _).
  rewrite !app_length. reflexivity.
Qed.

Lemma add_last_ok l v : l <> [] -> exists l', add_last l v = Ok l'.
Proof.
  induction l as [|x r IH]; intros H; [congruence|]. cbn [add_last].
  destruct r as [|y r']; [eauto|]. destruct IH as [r2 E]; [discriminate|]. rewrite E. cbn [bind]. eauto.
Qed.

Lemma add_last_noub l v : l <> [] -> no_ub (add_last l v).
Proof. intros H. destruct (add_last_ok l v H) as [l' ->]. discriminate. Qed.

Lemma length_pos_ne {A} (l : list A) : (1 <= length l)%nat -> l <> [].
Proof. destruct l; cbn [length]; [lia|discriminate]. Qed.

Lemma add_last_ne l v l' : add_last l v = Ok l' -> l' <> [].
Proof.
  intros H. pose proof (add_last_length _ _ _ H) as L. destruct l as [|x r]; [discriminate H|].
  destruct l'; [discriminate L|discriminate].
Qed.

(* ---------- grid ---------- *)
Definition ncells (g : config) : nat := Z.to_nat (g_rows g * g_cols g).
Definition in_grid (g : config) (rc : Z * Z) : Prop :=
  0 <= fst rc < g_rows g /\ 0 <= snd rc < g_cols g.

Lemma idx_of_in_grid g r c : in_grid g (r, c) -> exists i, idx_of g r c = Ok i /\ (i < ncells g)%nat.
Proof.
  intros [[H1 H2] [H3 H4]]. cbn [fst snd] in *. unfold idx_of.
  destruct (Z.ltb_spec r 0); [lia|]. destruct (Z.geb_spec r (g_rows g)); [lia|].
  destruct (Z.ltb_spec c 0); [lia|]. destruct (Z.geb_spec c (g_cols g)); [lia|]. cbn [orb].
  eexists; split; [reflexivity|]. unfold ncells. apply Z2Nat.inj_lt; nia.
Qed.

Lemma idx_of_noub g r c : in_grid g (r, c) -> no_ub (idx_of g r c).
Proof. intros H. destruct (idx_of_in_grid g r c H) as (i & -> & _). discriminate. Qed.

Lemma idx_of_lt g r c i : in_grid g (r, c) -> idx_of g r c = Ok i -> (i < ncells g)%nat.
Proof. intros H E. destruct (idx_of_in_grid g r c H) as (j & E' & L). congruence. Qed.

Lemma not_outside_in_grid g r c : is_outside g r c = false -> in_grid g (r, c).
Proof.
  unfold is_outside, in_grid. cbn [fst snd]. intros H.
  destruct (Z.ltb_spec r 0); [discriminate|]. destruct (Z.geb_spec r (g_rows g)); [discriminate|].
  destruct (Z.ltb_spec c 0); [discriminate|]. destruct (Z.geb_spec c (g_cols g)); [discriminate|]. lia.
Qed.

(* ---------- per-cell operations never index outside a vector ---------- *)
Lemma add_disperser_noub ne nm mt c : shape ne nm c -> (1 <= nm)%nat -> (mt = SEI -> (1 <= ne)%nat) ->
  no_ub (add_disperser mt c).
Proof.
  intros [He Hm] Hnm Hne. unfold add_disperser. destruct (cS c <=? 0); [discriminate|].
  destruct mt.
  - destruct (add_last_ok (cM c) 1) as [m' ->]; [apply length_pos_ne; lia|]. discriminate.
  - destruct (add_last_ok (cE c) 1) as [m' ->]; [apply length_pos_ne; specialize (Hne eq_refl); lia|].
    discriminate.
Qed.

Lemma remove_infected_noub c count d : no_ub (remove_infected c count d).
Proof. unfold remove_infected. destruct (count >? 0); [destruct (valid_draw _ _ _)|]; discriminate. Qed.

Lemma remove_exposed_noub c count d : no_ub (remove_exposed c count d).
Proof. unfold remove_exposed. destruct (count >? 0); [destruct (valid_draw _ _ _)|]; discriminate. Qed.

Lemma completely_remove_noub c s e i m : no_ub (completely_remove c s e i m).
Proof.
  unfold completely_remove. destruct (negb _); [discriminate|]. destruct (i <=? 0); [discriminate|].
  destruct (negb _); [discriminate|]. destruct (negb _); discriminate.
Qed.

Lemma make_resistant_noub c s e i m : no_ub (make_resistant c s e i m).
Proof.
  unfold make_resistant. destruct (cS c <? s); [discriminate|]. destruct (negb _); [discriminate|].
  destruct (negb _); discriminate.
Qed.

Lemma mortality_loop_noub rate : forall k index m i th d, no_ub (mortality_loop k index rate m i th d).
Proof.
  induction k as [|k IH]; intros index m i th d; cbn [mortality_loop]; [discriminate|].
  destruct m as [|x r]; [discriminate|].
  destruct (x >? 0).
  - destruct (_ >? i); [discriminate|]. destruct (_ >? th); [discriminate|].
    match goal with |- no_ub (bind ?e _) => pose proof (IH (index + 1) r
        (if i >? 0 then i - (if index =? 0 then x else qfloor (rate * zq x)) else i)
        (if th >? 0 then th - (if index =? 0 then x else qfloor (rate * zq x)) else th)
        (d + (if index =? 0 then x else qfloor (rate * zq x)))) as N;
      destruct e as [[[[r2 i2] th2] d2]|e'] end; cbn [bind]; [discriminate|exact N].
  - match goal with |- no_ub (bind ?e _) => pose proof (IH (index + 1) r i th d) as N;
      destruct e as [[[[r2 i2] th2] d2]|e'] end; cbn [bind]; [discriminate|exact N].
Qed.

Lemma apply_mortality_noub c rate lag : 0 <= lag -> no_ub (apply_mortality c rate lag).
Proof.
  intros Hl. unfold apply_mortality. destruct (Qle_bool rate 0); [discriminate|].
  destruct (Z.ltb_spec lag 0); [lia|].
  apply no_ub_bind; [apply mortality_loop_noub|]. intros [[[r2 i2] th2] d2] _. discriminate.
Qed.

Lemma step_forward_noub ne nm mt latency step c : shape ne nm c -> (1 <= nm)%nat ->
  (mt = SEI -> (1 <= ne)%nat) -> no_ub (step_forward mt latency step c).
Proof.
  intros [He Hm] Hnm Hne. unfold step_forward. destruct mt; [discriminate|].
  specialize (Hne eq_refl). destruct (cE c) as [|oldest rest]; [cbn [length] in He; lia|].
  destruct (step >=? latency); [|discriminate].
  destruct (add_last_ok (cM c) oldest) as [m' ->]; [apply length_pos_ne; lia|]. discriminate.
Qed.

Lemma treat_cell_noub t coef c : no_ub (treat_cell t coef c).
Proof.
  unfold treat_cell, treat_pesticide, treat_removal.
  destruct (t_pesticide t); [apply make_resistant_noub|apply completely_remove_noub].
Qed.

Lemma complete_lookup_noub rows pres : forall found, no_ub (complete_lookup rows pres found).
Proof.
  induction rows as [|[key comp] r IH]; intros found; cbn [complete_lookup].
  - destruct found; discriminate.
  - apply IH.
Qed.

Lemma find_competency_noub rows pres k : (k < length pres)%nat ->
  forall best, no_ub (find_competency rows pres k best).
Proof.
  intros Hk. induction rows as [|[req comp] r IH]; intros best; cbn [find_competency]; [discriminate|].
  destruct (Nat.eqb (length pres) (length req)) eqn:E; cbn [negb]; [|discriminate].
  apply Nat.eqb_eq in E.
  destruct (nth_error req k) as [[|]|] eqn:N.
  - destruct (Qle_bool comp best); [apply IH|]. destruct (row_subset req pres); apply IH.
  - apply IH.
  - apply nth_error_None in N. lia.
Qed.

(* ---------- well-formed worlds ---------- *)
Definition opt_len {A} (o : option (list A)) (n : nat) : Prop :=
  match o with Some r => length r = n | None => True end.

(* one host pool: as many cells as the grid, suitable cells inside the grid,
   uniform cohort-list lengths *)
Definition host_wf (g : config) (ne nm : nat) (h : hostpool) : Prop :=
  length (hp_cells h) = ncells g /\ Forall (in_grid g) (hp_suitable h) /\
  Forall (shape ne nm) (hp_cells h).

(* the part that only depends on the configuration *)
Definition static_wf (g : config) (ne nm : nat) : Prop :=
  0 <= g_rows g /\ 0 <= g_cols g /\ (1 <= length (g_hosts g))%nat /\ (1 <= nm)%nat /\
  ((exists hc, In hc (g_hosts g) /\ h_mt hc = SEI) -> (1 <= ne)%nat).

Definition hosts_wf (g : config) (ne nm : nat) (hs : list hostpool) : Prop :=
  length hs = length (g_hosts g) /\ Forall (host_wf g ne nm) hs.

Definition soil_wf (g : config) (o : option (list (list Z))) : Prop :=
  match o with
  | Some s => length s = ncells g /\ Forall (fun cs => cs <> []) s
  | None => True
  end.

(* everything but the hosts *)
Definition rest_wf (g : config) (w : world) : Prop :=
  length (w_disp w) = ncells g /\ length (w_estab w) = ncells g /\
  soil_wf g (w_soil w) /\
  opt_len (w_weather w) (ncells g) /\ opt_len (w_totpop w) (ncells g) /\
  opt_len (w_other w) (ncells g) /\ opt_len (w_temp w) (ncells g) /\
  0 <= w_last_index w.

Definition WF (g : config) (ne nm : nat) (w : world) : Prop :=
  static_wf g ne nm /\ hosts_wf g ne nm (w_hosts w) /\ rest_wf g w.

Lemma WF_WS g ne nm w : WF g ne nm w -> WS ne nm w.
Proof.
  intros (_ & (_ & Hh) & _). unfold WS, winv, hosts_inv.
  eapply Forall_impl; [|exact Hh]. intros h (_ & _ & H). exact H.
Qed.

(* the readable form of WF asked for by the specification *)
Lemma WF_unfold g ne nm w : WF g ne nm w <->
  (0 <= g_rows g /\ 0 <= g_cols g /\
   length (w_hosts w) = length (g_hosts g) /\ (1 <= length (w_hosts w))%nat /\
   Forall (fun h => length (hp_cells h) = ncells g /\ Forall (in_grid g) (hp_suitable h)) (w_hosts w) /\
   WS ne nm w /\ (1 <= nm)%nat /\
   ((exists hc, In hc (g_hosts g) /\ h_mt hc = SEI) -> (1 <= ne)%nat) /\
   length (w_disp w) = ncells g /\ length (w_estab w) = ncells g /\
   (forall s, w_soil w = Some s -> length s = ncells g /\ Forall (fun cs => cs <> []) s) /\
   (forall r, w_weather w = Some r -> length r = ncells g) /\
   (forall r, w_totpop w = Some r -> length r = ncells g) /\
   (forall r, w_other w = Some r -> length r = ncells g) /\
   (forall r, w_temp w = Some r -> length r = ncells g) /\
   0 <= w_last_index w).
Proof.
  unfold WF, static_wf, hosts_wf, rest_wf, host_wf, soil_wf, opt_len, WS, winv, hosts_inv. split.
  - intros ((A1 & A2 & A3 & A4 & A5) & (B1 & B2) & (C1 & C2 & C3 & C4 & C5 & C6 & C7 & C8)).
    repeat match goal with |- _ /\ _ => split end; try assumption.
    + lia.
    + eapply Forall_impl; [|exact B2]. intros h (X & Y & _). auto.
    + eapply Forall_impl; [|exact B2]. intros h (_ & _ & Z0). exact Z0.
    + intros s E. rewrite E in C3. exact C3.
    + intros r E. rewrite E in C4. exact C4.
    + intros r E. rewrite E in C5. exact C5.
    + intros r E. rewrite E in C6. exact C6.
    + intros r E. rewrite E in C7. exact C7.
  - intros (A1 & A2 & B1 & B0 & B2 & B3 & A4 & A5 & C1 & C2 & C3 & C4 & C5 & C6 & C7 & C8).
    split; [|split; [split|]].
    + repeat match goal with |- _ /\ _ => split end; try assumption. lia.
    + exact B1.
    + rewrite Forall_forall in *. intros h Hh. destruct (B2 h Hh) as (X & Y). auto.
    + repeat match goal with |- _ /\ _ => split end; try assumption.
      * destruct (w_soil w); [apply C3; reflexivity|exact I].
      * destruct (w_weather w); [apply C4; reflexivity|exact I].
      * destruct (w_totpop w); [apply C5; reflexivity|exact I].
      * destruct (w_other w); [apply C6; reflexivity|exact I].
      * destruct (w_temp w); [apply C7; reflexivity|exact I].
Qed.

(* the total population of a cell as a pure function of the world *)
Definition sum_SI (hs : list hostpool) (i : nat) : result Z :=
  fold_right (fun h acc => do a <- acc; do c <- rget (hp_cells h) i; Ok (a + cS c + cI c)) (Ok 0) hs.
Definition tpop (w : world) (i : nat) : result Z :=
  match w_totpop w with
  | Some r => rget r i
  | None =>
    do o <- match w_other w with Some r => rget r i | None => Ok 0 end;
    do s <- sum_SI (w_hosts w) i;
    Ok (o + s)
  end.

Lemma total_population_at_tpop i w t :
  total_population_at i w t =
  match tpop w i with Ok n => Ok (n, w, t) | Err e => Err e end.
Proof.
  unfold total_population_at, tpop, sum_SI, mbind, get, lift, ret.
  destruct (w_totpop w) as [r|]; [destruct (rget r i); reflexivity|].
  destruct (w_other w) as [r|]; [destruct (rget r i); cbn [bind]; [|reflexivity]|cbn [bind]];
    destruct (fold_right _ _ (w_hosts w)); reflexivity.
Qed.

(* folds over the hosts that read cell i of each *)
Lemma fold_hosts_ok {B} (F : B -> cell -> B) (z : B) i n hs :
  Forall (fun h => length (hp_cells h) = n) hs -> (i < n)%nat ->
  exists b, fold_right (fun h acc => do a <- acc; do c <- rget (hp_cells h) i; Ok (F a c)) (Ok z) hs = Ok b.
Proof.
  intros Hh Hi. induction Hh as [|h r Hl _ IH]; cbn [fold_right]; [eauto|].
  destruct IH as [b ->]. cbn [bind]. destruct (rget_lt (hp_cells h) i ltac:(lia)) as [c ->]. cbn [bind]. eauto.
Qed.

Lemma fold_hosts_list_len {B} (F : cell -> B) i hs l :
  fold_right (fun h acc => do a <- acc; do c <- rget (hp_cells h) i; Ok (F c :: a)) (Ok []) hs = Ok l ->
  length l = length hs.
Proof.
  revert l. induction hs as [|h r IH]; intros l H; cbn [fold_right] in H; [injection H as <-; reflexivity|].
  destruct (fold_right _ _ r) as [a|]; [|discriminate]. cbn [bind] in H.
  destruct (rget (hp_cells h) i) as [c|]; [|discriminate]. cbn [bind] in H. injection H as <-.
  cbn [length]. f_equal. apply IH. reflexivity.
Qed.

Section Leaves.
Variables (g : config) (ne nm : nat).
Hypothesis Hst : static_wf g ne nm.

Definition nh : nat := length (g_hosts g).

(* the running invariant: the dynamic part of WF plus the presence of a soil pool *)
Definition SI_ (b : bool) (w : world) : Prop :=
  hosts_wf g ne nm (w_hosts w) /\ rest_wf g w /\ has_soil w = b.

Lemma SI_with_hosts b w hs : SI_ b w -> hosts_wf g ne nm hs -> SI_ b (with_hosts w hs).
Proof. intros (_ & Hr & Hb) Hh. split; [exact Hh|]. split; [exact Hr|exact Hb]. Qed.

Lemma hosts_wf_cells_len hs : hosts_wf g ne nm hs -> Forall (fun h => length (hp_cells h) = ncells g) hs.
Proof. intros [_ H]. eapply Forall_impl; [|exact H]. intros h (X & _). exact X. Qed.

Lemma hosts_wf_nth hs k h : hosts_wf g ne nm hs -> nth_error hs k = Some h -> host_wf g ne nm h.
Proof. intros [_ H] E. rewrite Forall_forall in H. apply H. eapply nth_error_In; eauto. Qed.

Lemma get_host_safe b k : (k < nh)%nat ->
  safe (SI_ b) (get_host k) (fun h w => host_wf g ne nm h /\ SI_ b w).
Proof.
  intros Hk w t HI. unfold get_host, mbind, get, lift.
  destruct HI as (Hh & Hr). destruct (rget_lt (w_hosts w) k) as [h E]; [destruct Hh as [-> _]; exact Hk|].
  rewrite E. split; [|split; assumption]. apply rget_Some in E. eapply hosts_wf_nth; eauto.
Qed.

Lemma set_host_safe b k h' : (k < nh)%nat -> host_wf g ne nm h' ->
  safe (SI_ b) (set_host k h') (fun _ w => SI_ b w).
Proof.
  intros Hk Hh' w t HI. unfold set_host, mbind, get, lift, put.
  pose proof HI as (Hh & Hr).
  destruct (rset_lt (w_hosts w) k h') as [hs E]; [destruct Hh as [-> _]; exact Hk|]. rewrite E.
  apply (SI_with_hosts b w hs HI). destruct Hh as [L F]. split.
  - rewrite (rset_same_length _ _ _ _ E). exact L.
  - eapply rset_Forall; eauto.
Qed.

Lemma get_cell_safe b k i : (k < nh)%nat -> (i < ncells g)%nat ->
  safe (SI_ b) (get_cell k i) (fun c w => shape ne nm c /\ SI_ b w).
Proof.
  intros Hk Hi. unfold get_cell. eapply safe_bind; [apply get_host_safe; exact Hk|]. intros h.
  apply safe_pure. intros (L & _ & F).
  eapply safe_post; [apply safe_lift, rget_noub; lia|]. cbv beta. intros c w [E HI]. split; [|exact HI].
  apply rget_In in E. rewrite Forall_forall in F. apply F. exact E.
Qed.

Lemma set_cell_safe b k i c : (k < nh)%nat -> (i < ncells g)%nat -> shape ne nm c ->
  safe (SI_ b) (set_cell k i c) (fun _ w => SI_ b w).
Proof.
  intros Hk Hi Hc. unfold set_cell. eapply safe_bind; [apply get_host_safe; exact Hk|]. intros h.
  apply safe_pure. intros (L & Su & F).
  eapply safe_bind; [apply safe_lift, rset_noub; lia|]. intros cs. apply safe_pure. intros E.
  apply set_host_safe; [exact Hk|]. split; [|split]; cbn [hp_cells hp_suitable].
  - rewrite (rset_same_length _ _ _ _ E). exact L.
  - exact Su.
  - eapply rset_Forall; eauto.
Qed.

Lemma host_cfg_safe (P : world -> Prop) k : (k < nh)%nat ->
  safe P (host_cfg g k) (fun hc w => In hc (g_hosts g) /\ P w).
Proof.
  intros Hk. unfold host_cfg. eapply safe_post; [apply safe_lift, rget_noub; exact Hk|].
  cbv beta. intros hc w [E HP]. split; [eapply rget_In; eauto|exact HP].
Qed.

Lemma num_hosts_safe b : safe (SI_ b) num_hosts (fun n w => n = nh /\ SI_ b w).
Proof. intros w t HI. unfold num_hosts, mbind, get, ret. split; [apply HI|exact HI]. Qed.

Lemma nh_pos : (1 <= nh)%nat.
Proof. destruct Hst as (_ & _ & H & _). exact H. Qed.

Lemma nm_pos : (1 <= nm)%nat.
Proof. destruct Hst as (_ & _ & _ & H & _). exact H. Qed.

Lemma ne_pos hc : In hc (g_hosts g) -> h_mt hc = SEI -> (1 <= ne)%nat.
Proof. intros Hin E. destruct Hst as (_ & _ & _ & _ & H). apply H. eauto. Qed.

(* loops *)
Lemma all_hosts_safe b (f : nat -> W unit) :
  (forall k, (k < nh)%nat -> safe (SI_ b) (f k) (fun _ w => SI_ b w)) ->
  safe (SI_ b) (all_hosts f) (fun _ w => SI_ b w).
Proof.
  intros Hf. unfold all_hosts. eapply safe_bind; [apply num_hosts_safe|]. intros n.
  apply safe_pure. intros ->. apply safe_for_hosts. intros j Hj. apply Hf. lia.
Qed.

Lemma mfold_suitable_safe (I : world -> Prop) (f : Z -> Z -> nat -> W unit) cells :
  Forall (in_grid g) cells ->
  (forall r c i, (i < ncells g)%nat -> safe I (f r c i) (fun _ w => I w)) ->
  safe I (mfold (fun rc => let* i := lift (idx_of g (fst rc) (snd rc)) in f (fst rc) (snd rc) i) cells)
       (fun _ w => I w).
Proof.
  intros Hc Hf. apply safe_mfold. intros [r c] Hin. cbn [fst snd].
  rewrite Forall_forall in Hc. specialize (Hc _ Hin).
  eapply safe_bind; [apply safe_lift, idx_of_noub; exact Hc|]. intros i. apply safe_pure. intros E.
  apply Hf. eapply idx_of_lt; eauto.
Qed.

Lemma for_suitable_safe b (f : Z -> Z -> nat -> W unit) :
  (forall r c i, (i < ncells g)%nat -> safe (SI_ b) (f r c i) (fun _ w => SI_ b w)) ->
  safe (SI_ b) (for_suitable g f) (fun _ w => SI_ b w).
Proof.
  intros Hf. unfold for_suitable, suitable_cells.
  eapply (safe_bind _ _ _ (fun cells w => Forall (in_grid g) cells /\ SI_ b w)).
  { eapply safe_bind; [apply get_host_safe; apply nh_pos|]. intros h. apply safe_pure. intros (_ & Su & _).
    eapply safe_post; [apply safe_ret|]. cbv beta. intros x w [-> HI]. exact (conj Su HI). }
  intros cells. apply safe_pure. intros Su. apply mfold_suitable_safe; assumption.
Qed.
End Leaves.

(* ====================================================================== *)
(* the actions *)
Ltac sfail := apply safe_fail; discriminate.

Lemma safe_ret_inv {S A} (a : A) (P : S -> Prop) : safe P (ret a) (fun _ s => P s).
Proof. intros s t H. exact H. Qed.

Lemma pop_draw_safe {P : world -> Prop} k : safe P (pop_draw k) (fun _ w => P w).
Proof.
  unfold pop_draw. eapply safe_bind; [apply safe_pop|]. intros e. destruct e; try sfail.
  destruct (labels_below _ _ _); [apply safe_ret_inv|sfail].
Qed.

Lemma can_establish_safe {P : world -> Prop} p s d : safe P (can_establish p s d) (fun _ w => P w).
Proof.
  unfold can_establish. eapply safe_bind; [apply safe_pop|]. intros e. destruct e; try sfail.
  destruct (_ && _); [sfail|]. destruct (_ || _); [sfail|].
  destruct (Bool.eqb _ _); [apply safe_ret_inv|]. destruct (qabs_small _ _); [apply safe_ret_inv|sfail].
Qed.

Lemma pick_host_safe {P : world -> Prop} ws :
  safe P (pick_host ws) (fun k w => P w /\ (k < length ws)%nat).
Proof.
  unfold pick_host.
  assert (G : safe P
    (let* e := pop in
     match e with
     | EvPick idx =>
       if (idx <? 0) || (idx >=? Z.of_nat (length ws)) then fail TapeMismatch
       else match nth_error ws (Z.to_nat idx) with
            | Some wgt => if Qle_bool wgt 0 then fail TapeMismatch else ret (Z.to_nat idx)
            | None => fail TapeMismatch
            end
     | _ => fail TapeMismatch
     end) (fun k w => P w /\ (k < length ws)%nat)).
  { eapply safe_bind; [apply safe_pop|]. intros e. destruct e; try sfail.
    destruct (Z.ltb_spec idx 0); cbn [orb]; [sfail|].
    destruct (Z.geb_spec idx (Z.of_nat (length ws))); [sfail|].
    destruct (nth_error ws (Z.to_nat idx)); [|sfail]. destruct (Qle_bool _ _); [sfail|].
    eapply safe_post; [apply safe_ret|]. cbv beta. intros k w [-> HP]. split; [exact HP|lia]. }
  destruct ws as [|x [|y r]]; try exact G.
  eapply safe_post; [apply safe_ret|]. cbv beta. intros k w [-> HP]. split; [exact HP|cbn; lia].
Qed.

Lemma WI_to_winv {A} (m : W A) :
  (forall q, hoare (WI Basic q) m (fun _ w => WI Basic q w)) ->
  hoare (winv (cinv Basic)) m (fun _ w => winv (cinv Basic) w).
Proof. intros H w t a w' t' Hw E. exact (proj1 (H (whq w) w t a w' t' (conj Hw eq_refl) E)). Qed.

Section Actions.
Variables (g : config) (ne nm : nat).
Hypothesis Hst : static_wf g ne nm.

Notation I := (SI_ g ne nm).
Notation nhosts := (nh g).
Notation nc := (ncells g).

Ltac rest_destruct H :=
  let Hh := fresh "Hh" in let D1 := fresh "Dd" in let D2 := fresh "De" in let D3 := fresh "Ds" in
  let D4 := fresh "Dw" in let D5 := fresh "Dp" in let D6 := fresh "Do" in let D7 := fresh "Dt" in
  let D8 := fresh "Dl" in let Hb := fresh "Hb" in
  pose proof H as (Hh & (D1 & D2 & D3 & D4 & D5 & D6 & D7 & D8) & Hb).

(* ---------- environment reads ---------- *)
Lemma temperature_at_safe b i : (i < nc)%nat -> safe (I b) (temperature_at i) (fun _ w => I b w).
Proof.
  intros Hi w t HI. rest_destruct HI. unfold temperature_at, mbind, get.
  destruct (w_temp w) as [r|]; [|cbn; discriminate]. cbn [opt_len] in Dt.
  unfold lift. destruct (rget_lt r i ltac:(lia)) as [x ->]. exact HI.
Qed.

Lemma weather_at_safe b i : (i < nc)%nat -> safe (I b) (weather_at i) (fun _ w => I b w).
Proof.
  intros Hi w t HI. rest_destruct HI. unfold weather_at, mbind, get.
  destruct (w_weather w) as [r|]; [|cbn; discriminate]. cbn [opt_len] in Dw.
  unfold lift. destruct (rget_lt r i ltac:(lia)) as [x ->]. exact HI.
Qed.

Lemma opt_weather_safe b i {A} (f : Q -> A) (d : A) : (i < nc)%nat ->
  safe (I b) (if g_weather g then let* wc := weather_at i in ret (f wc) else ret d) (fun _ w => I b w).
Proof.
  intros Hi. destruct (g_weather g); [|apply safe_ret_inv].
  eapply safe_bind; [apply weather_at_safe; exact Hi|]. intros wc. apply safe_ret_inv.
Qed.

Lemma sum_SI_ok hs i : hosts_wf g ne nm hs -> (i < nc)%nat -> exists n, sum_SI hs i = Ok n.
Proof.
  intros Hh Hi. unfold sum_SI.
  apply (fold_hosts_ok (fun a c => a + cS c + cI c) 0 i nc); [|exact Hi].
  apply (hosts_wf_cells_len g ne nm). exact Hh.
Qed.

Lemma tpop_ok b w i : I b w -> (i < nc)%nat -> exists n, tpop w i = Ok n.
Proof.
  intros HI Hi. rest_destruct HI. unfold tpop.
  destruct (w_totpop w) as [r|]; [cbn [opt_len] in Dp; apply rget_lt; lia|].
  destruct (sum_SI_ok _ i Hh Hi) as [s Es].
  destruct (w_other w) as [r|].
  - cbn [opt_len] in Do. destruct (rget_lt r i ltac:(lia)) as [o ->]. cbn [bind]. rewrite Es. cbn [bind]. eauto.
  - cbn [bind]. rewrite Es. cbn [bind]. eauto.
Qed.

Definition TP (i : nat) (n : Z) (w : world) : Prop := tpop w i = Ok n.

Lemma total_population_at_safe b i : (i < nc)%nat ->
  safe (I b) (total_population_at i) (fun n w => I b w /\ TP i n w).
Proof.
  intros Hi w t HI. rewrite total_population_at_tpop.
  destruct (tpop_ok b w i HI Hi) as [n E]. rewrite E. split; [exact HI|exact E].
Qed.

(* ---------- removal of infection / exposure ---------- *)
Lemma host_remove_infected_safe b k i count : (k < nhosts)%nat -> (i < nc)%nat ->
  safe (I b) (host_remove_infected k i count) (fun _ w => I b w).
Proof.
  intros Hk Hi. unfold host_remove_infected.
  eapply safe_bind; [apply get_cell_safe; assumption|]. intros c. apply safe_pure. intros Pc.
  eapply safe_bind. { destruct (count >? 0); [apply pop_draw_safe|apply safe_ret_inv]. } intros d.
  eapply safe_bind; [apply safe_lift, remove_infected_noub|]. intros c'. apply safe_pure. intros Hc.
  apply set_cell_safe; try assumption. eapply remove_infected_shape; eauto.
Qed.

Lemma host_remove_exposed_safe b k i count : (k < nhosts)%nat -> (i < nc)%nat ->
  safe (I b) (host_remove_exposed k i count) (fun _ w => I b w).
Proof.
  intros Hk Hi. unfold host_remove_exposed.
  eapply safe_bind; [apply get_cell_safe; assumption|]. intros c. apply safe_pure. intros Pc.
  eapply safe_bind. { destruct (count >? 0); [apply pop_draw_safe|apply safe_ret_inv]. } intros d.
  eapply safe_bind; [apply safe_lift, remove_exposed_noub|]. intros c'. apply safe_pure. intros Hc.
  apply set_cell_safe; try assumption. eapply remove_exposed_shape; eauto.
Qed.

Theorem act_lethal_I b : safe (I b) (act_lethal g) (fun _ w => I b w).
Proof.
  unfold act_lethal. apply for_suitable_safe; [exact Hst|]. intros r c i Hi.
  eapply safe_bind; [apply temperature_at_safe; exact Hi|]. intros temp.
  apply safe_if; intros _; [|apply safe_ret_inv].
  apply all_hosts_safe. intros k Hk.
  eapply safe_bind; [apply get_cell_safe; assumption|]. intros c0. apply safe_pure. intros _.
  apply host_remove_infected_safe; assumption.
Qed.

Theorem act_survival_I b rates : length rates = nc ->
  safe (I b) (act_survival g rates) (fun _ w => I b w).
Proof.
  intros Hr. unfold act_survival. apply for_suitable_safe; [exact Hst|]. intros r c i Hi.
  eapply safe_bind; [apply safe_lift, rget_noub; lia|]. intros x. apply safe_pure. intros _.
  apply safe_if; intros _; [|apply safe_ret_inv].
  apply all_hosts_safe. intros k Hk. unfold host_remove_by_ratio.
  eapply safe_bind; [apply get_cell_safe; assumption|]. intros c0. apply safe_pure. intros _.
  eapply safe_bind; [apply host_remove_infected_safe; assumption|]. intros ?u.
  eapply safe_bind; [apply get_cell_safe; assumption|]. intros c1. apply safe_pure. intros _.
  apply host_remove_exposed_safe; assumption.
Qed.

(* ---------- dispersal chain ---------- *)
Lemma host_add_disperser_safe b k i : (k < nhosts)%nat -> (i < nc)%nat ->
  safe (I b) (host_add_disperser g k i) (fun _ w => I b w).
Proof.
  intros Hk Hi. unfold host_add_disperser.
  eapply safe_bind; [apply get_cell_safe; assumption|]. intros c. apply safe_pure. intros Pc.
  eapply safe_bind; [apply host_cfg_safe; exact Hk|]. intros hc. apply safe_pure. intros Hin.
  eapply safe_bind.
  { apply safe_lift. eapply add_disperser_noub; [exact Pc|apply (nm_pos g ne nm Hst)|].
    intros E. eapply ne_pos; eauto. }
  intros r. apply safe_pure. intros Hr.
  eapply safe_bind; [apply set_cell_safe; try assumption; eapply add_disperser_shape; eauto|].
  intros ?u. apply safe_ret_inv.
Qed.

(* suitability_at divides by the total population: safe when it is not zero *)
Lemma suitability_at_safe b k i n : (k < nhosts)%nat -> (i < nc)%nat -> n <> 0 ->
  safe (fun w => I b w /\ TP i n w) (suitability_at g k i) (fun _ w => I b w /\ TP i n w).
Proof.
  intros Hk Hi Hn w t [HI HT]. unfold suitability_at.
  unfold mbind at 1. pose proof (get_cell_safe g ne nm b k i Hk Hi w t HI) as G.
  destruct (get_cell k i w t) as [[[c w1] t1]|e] eqn:E; [|exact G]. apply ro_get_cell in E. subst w1.
  unfold mbind at 1. pose proof (host_cfg_safe g (fun _ => True) k Hk w t1 Logic.I) as G2.
  destruct (host_cfg g k w t1) as [[[hc w1] t2]|e] eqn:E; [|exact G2]. apply ro_host_cfg in E. subst w1.
  unfold mbind at 1. rewrite total_population_at_tpop. unfold TP in HT. rewrite HT.
  destruct (Z.eqb_spec n 0) as [|_]; [contradiction|].
  unfold mbind at 1.
  match goal with |- match match ?m w t2 with _ => _ end with _ => _ end =>
    assert (G3 : safe (I b) m (fun _ w => I b w)) by (apply opt_weather_safe; exact Hi);
    assert (R3 : read_only m) by (ro; apply ro_weather_at);
    specialize (G3 w t2 HI); destruct (m w t2) as [[[s2 w1] t3]|e] eqn:E; [|exact G3];
    apply R3 in E; subst w1 end.
  destruct (_ || _); cbn; [discriminate|]. split; assumption.
Qed.

Lemma suitabilities_safe b i n : (i < nc)%nat -> n <> 0 -> forall m k, (k + m <= nhosts)%nat ->
  safe (fun w => I b w /\ TP i n w) (suitabilities g i k m)
       (fun ws w => length ws = m /\ (I b w /\ TP i n w)).
Proof.
  intros Hi Hn. induction m as [|m IH]; intros k Hk; cbn [suitabilities].
  - eapply safe_post; [apply safe_ret|]. cbv beta. intros ws w [-> H]. split; [reflexivity|exact H].
  - eapply safe_bind; [apply suitability_at_safe; [lia|exact Hi|exact Hn]|]. intros s.
    eapply safe_bind; [apply IH; lia|]. intros r. apply safe_pure. intros Hr.
    eapply safe_post; [apply safe_ret|]. cbv beta. intros ws w [-> H]. split; [cbn [length]; lia|exact H].
Qed.

Lemma host_disperser_to_safe b k i n : (k < nhosts)%nat -> (i < nc)%nat -> n <> 0 ->
  safe (fun w => I b w /\ TP i n w) (host_disperser_to g k i) (fun _ w => I b w).
Proof.
  intros Hk Hi Hn. unfold host_disperser_to.
  eapply safe_bind; [apply safe_frame_ro; [apply ro_get_cell|apply get_cell_safe; assumption]|].
  intros c. destruct (cS c <=? 0).
  { eapply safe_post; [apply safe_ret_inv|]. cbv beta. intros _ w [[_ H] _]. exact H. }
  eapply safe_bind; [apply host_cfg_safe; exact Hk|]. intros hc.
  eapply safe_bind.
  { eapply safe_pre; [apply (suitability_at_safe b k i n); assumption|]. cbv beta.
    intros w [_ [[_ H1] H2]]. split; assumption. }
  intros p. eapply safe_bind; [apply can_establish_safe|]. intros est.
  destruct est.
  - eapply safe_pre; [apply host_add_disperser_safe; assumption|]. cbv beta. intros w [H _]. exact H.
  - eapply safe_post; [apply safe_ret_inv|]. cbv beta. intros _ w [H _]. exact H.
Qed.

Theorem multi_disperser_to_safe b i : (i < nc)%nat ->
  safe (I b) (multi_disperser_to g i) (fun _ w => I b w).
Proof.
  intros Hi. unfold multi_disperser_to.
  eapply safe_bind; [apply num_hosts_safe|]. intros n. apply safe_pure. intros ->.
  pose proof (nh_pos g ne nm Hst) as Hpos.
  destruct (Nat.eqb_spec nhosts 0) as [E0|_]; [lia|].
  eapply safe_bind; [apply total_population_at_safe; exact Hi|]. intros npop.
  destruct (Z.eqb_spec npop 0) as [Ez|Hnz].
  - (* no population at all: InvalidArgument or nothing *)
    eapply safe_pre with (P' := I b); [|intros w [H _]; exact H].
    eapply safe_bind; [apply (opt_weather_safe b i (fun wc => Qeq_bool wc 0) false Hi)|]. intros wz.
    eapply safe_bind; [|intros ?u; apply safe_ret_inv].
    apply safe_for_hosts. intros k Hk.
    eapply safe_bind; [apply get_cell_safe; [lia|exact Hi]|]. intros c. apply safe_pure. intros _.
    eapply safe_bind; [apply host_cfg_safe; lia|]. intros hc. apply safe_pure. intros _.
    destruct (cS c =? 0); [apply safe_ret_inv|]. destruct (_ && _); [apply safe_ret_inv|sfail].
  - eapply safe_bind; [apply (suitabilities_safe b i npop Hi Hnz nhosts 0%nat); lia|]. intros ws.
    apply safe_pure. intros Hws.
    destruct (Qle_bool (qsum ws) 0).
    { eapply safe_post; [apply safe_ret_inv|]. cbv beta. intros _ w [H _]. exact H. }
    destruct (qltb 1 (qsum ws)); [sfail|].
    eapply safe_bind; [apply pick_host_safe|]. intros k. apply safe_pure_r. rewrite Hws. intros Hk.
    destruct (g_arrival_land g).
    + eapply safe_pre with (P' := I b); [|intros w [H _]; exact H].
      eapply safe_bind; [apply get_cell_safe; assumption|]. intros c. apply safe_pure. intros _.
      destruct (cS c <=? 0); [apply safe_ret_inv|].
      eapply safe_bind; [apply can_establish_safe|]. intros est.
      destruct est; [apply host_add_disperser_safe; assumption|apply safe_ret_inv].
    + apply host_disperser_to_safe; assumption.
Qed.
(* ---------- rasters of the pest pool ---------- *)
Lemma I_upd_disp b w r : I b w -> length r = nc -> I b (upd_disp w r).
Proof.
  intros HI Hr. rest_destruct HI. split; [exact Hh|]. split; [|exact Hb].
  unfold rest_wf, upd_disp; cbn [w_disp w_estab w_soil w_weather w_totpop w_other w_temp w_last_index].
  repeat split; assumption.
Qed.
Lemma I_upd_estab b w r : I b w -> length r = nc -> I b (upd_estab w r).
Proof.
  intros HI Hr. rest_destruct HI. split; [exact Hh|]. split; [|exact Hb].
  unfold rest_wf, upd_estab; cbn [w_disp w_estab w_soil w_weather w_totpop w_other w_temp w_last_index].
  repeat split; assumption.
Qed.
Lemma I_upd_outside b w o : I b w -> I b (upd_outside w o).
Proof. intros HI. exact HI. Qed.
Lemma I_upd_soil w s : I true w -> soil_wf g (Some s) -> I true (upd_soil w (Some s)).
Proof.
  intros HI Hs. rest_destruct HI. split; [exact Hh|]. split; [|reflexivity].
  unfold rest_wf, upd_soil; cbn [w_disp w_estab w_soil w_weather w_totpop w_other w_temp w_last_index].
  repeat split; try assumption; apply Hs.
Qed.

Lemma set_disp_safe b i v : (i < nc)%nat ->
  safe (I b) (set_raster_at w_disp upd_disp i v) (fun _ w => I b w).
Proof.
  intros Hi w t HI. rest_destruct HI. unfold set_raster_at, mbind, get, lift, put.
  destruct (rset_lt (w_disp w) i v ltac:(lia)) as [r E]. rewrite E.
  apply I_upd_disp; [exact HI|]. rewrite (rset_same_length _ _ _ _ E). exact Dd.
Qed.
Lemma set_estab_safe b i v : (i < nc)%nat ->
  safe (I b) (set_raster_at w_estab upd_estab i v) (fun _ w => I b w).
Proof.
  intros Hi w t HI. rest_destruct HI. unfold set_raster_at, mbind, get, lift, put.
  destruct (rset_lt (w_estab w) i v ltac:(lia)) as [r E]. rewrite E.
  apply I_upd_estab; [exact HI|]. rewrite (rset_same_length _ _ _ _ E). exact De.
Qed.

Lemma I_soil_some w : I true w -> exists s, w_soil w = Some s /\ length s = nc /\ Forall (fun cs => cs <> []) s.
Proof.
  intros HI. rest_destruct HI. unfold has_soil in Hb. destruct (w_soil w) as [s|]; [|discriminate].
  exists s. destruct Ds. auto.
Qed.

Lemma I_soil_flag b w s : I b w -> w_soil w = Some s -> b = true.
Proof. intros (_ & _ & <-) E. unfold has_soil. rewrite E. reflexivity. Qed.

(* ---------- soil pool ---------- *)
Lemma soil_disperser_to_safe i : (i < nc)%nat ->
  safe (I true) (soil_disperser_to g i) (fun _ w => I true w).
Proof.
  intros Hi. unfold soil_disperser_to.
  eapply safe_bind; [apply weather_at_safe; exact Hi|]. intros wc.
  eapply safe_bind; [apply safe_pop|]. intros e. destruct e; try sfail.
  destruct (_ && _); [sfail|]. destruct (_ && _); [sfail|]. destruct res; [|apply safe_ret_inv].
  intros w t HI. unfold mbind at 1, get.
  destruct (I_soil_some w HI) as (s & Es & Ls & Fs). rewrite Es.
  unfold mbind, lift, put.
  destruct (rget_lt s i ltac:(lia)) as [cs Ec]. rewrite Ec.
  pose proof (rget_In _ _ _ Ec) as Hin. rewrite Forall_forall in Fs.
  destruct (add_last_ok cs 1 (Fs _ Hin)) as [cs' Ea]. rewrite Ea.
  destruct (rset_lt s i cs' ltac:(lia)) as [s' Er]. rewrite Er.
  apply I_upd_soil; [exact HI|]. split; [rewrite (rset_same_length _ _ _ _ Er); exact Ls|].
  eapply rset_Forall; [|eapply add_last_ne; exact Ea|exact Er]. apply Forall_forall. exact Fs.
Qed.

Lemma sub_list_ne a b : a <> [] -> sub_list a b <> [].
Proof. intros H E. apply H. apply length_zero_iff_nil. rewrite <- (sub_list_length a b), E. reflexivity. Qed.

Lemma soil_dispersers_from_safe i : (i < nc)%nat ->
  safe (I true) (soil_dispersers_from g i) (fun _ w => I true w).
Proof.
  intros Hi. unfold soil_dispersers_from. apply safe_get_k. intros w0 H0.
  destruct (I_soil_some w0 H0) as (s & Es & Ls & Fs). rewrite Es.
  eapply safe_pre with (P' := I true); [|intros w [_ H]; exact H].
  eapply safe_bind; [apply safe_lift, rget_noub; lia|]. intros cs. apply safe_pure. intros Ec.
  eapply safe_bind; [apply weather_at_safe; exact Hi|]. intros wc.
  eapply safe_bind; [apply safe_pop|]. intros e. destruct e; try sfail.
  destruct (_ && _); [sfail|]. destruct (count <? 0); [sfail|].
  eapply safe_bind; [apply pop_draw_safe|]. intros d.
  destruct (valid_draw cs d count); [|sfail].
  eapply safe_bind; [apply safe_lift, rset_noub; lia|]. intros s'. apply safe_pure. intros Er.
  eapply safe_bind; [apply safe_put|]. intros ?u.
  eapply safe_post; [apply safe_ret_inv|]. cbv beta. intros _ w ->.
  apply I_upd_soil; [exact H0|]. split; [rewrite (rset_same_length _ _ _ _ Er); exact Ls|].
  eapply rset_Forall; [exact Fs| |exact Er]. apply sub_list_ne.
  rewrite Forall_forall in Fs. apply Fs. eapply rget_In; eauto.
Qed.

(* ---------- generate ---------- *)
Lemma host_presence_at_safe b i : (i < nc)%nat ->
  safe (I b) (host_presence_at i) (fun pres w => length pres = nhosts /\ I b w).
Proof.
  intros Hi w t HI. rest_destruct HI. unfold host_presence_at, mbind, get, lift.
  destruct (fold_hosts_ok (fun a c => negb (cS c + cI c =? 0) :: a) [] i nc (w_hosts w)
              (hosts_wf_cells_len g ne nm _ Hh) Hi) as [pres E].
  rewrite E. split; [|exact HI].
  rewrite (fold_hosts_list_len (fun c => negb (cS c + cI c =? 0)) i _ _ E). apply Hh.
Qed.

Lemma competency_at_safe b k i : (k < nhosts)%nat -> (i < nc)%nat ->
  safe (I b) (competency_at g k i) (fun _ w => I b w).
Proof.
  intros Hk Hi. unfold competency_at. destruct (g_competency g) as [rows|]; [|apply safe_ret_inv].
  eapply safe_bind; [apply host_presence_at_safe; exact Hi|]. intros pres. apply safe_pure. intros Hp.
  destruct (table_is_complete rows).
  - eapply safe_post; [apply safe_lift, complete_lookup_noub|]. cbv beta. intros _ w [_ H]. exact H.
  - eapply safe_post; [apply safe_lift, find_competency_noub; lia|]. cbv beta. intros _ w [_ H]. exact H.
Qed.

Lemma host_dispersers_from_safe b k i : (k < nhosts)%nat -> (i < nc)%nat ->
  safe (I b) (host_dispersers_from g k i) (fun _ w => I b w).
Proof.
  intros Hk Hi. unfold host_dispersers_from.
  eapply safe_bind; [apply get_cell_safe; assumption|]. intros c. apply safe_pure. intros _.
  eapply safe_bind; [apply safe_pop|]. intros e. destruct e; try sfail.
  destruct (cI c <=? 0); [sfail|].
  eapply safe_bind; [apply host_cfg_safe; exact Hk|]. intros hc. apply safe_pure. intros _.
  eapply safe_bind; [apply (opt_weather_safe b i (fun wc => (h_rr hc * wc)%Q) (h_rr hc) Hi)|]. intros lam0.
  eapply safe_bind; [apply competency_at_safe; assumption|]. intros comp.
  destruct (h_disp_stoch hc).
  - destruct (count <? 0); [sfail|apply safe_ret_inv].
  - destruct (count =? _); [apply safe_ret_inv|sfail].
Qed.

Lemma multi_dispersers_from_safe b i : (i < nc)%nat ->
  safe (I b) (multi_dispersers_from g i) (fun _ w => I b w).
Proof.
  intros Hi. unfold multi_dispersers_from.
  eapply safe_bind; [apply num_hosts_safe|]. intros n. apply safe_pure. intros ->.
  match goal with |- safe _ (?F 0%nat ?n 0) _ =>
    assert (HF : forall m k acc, (k + m <= nhosts)%nat -> safe (I b) (F k m acc) (fun _ w => I b w));
      [|apply HF; lia] end.
  induction m as [|m IH]; intros k acc Hk; [apply safe_ret_inv|].
  eapply safe_bind; [apply get_cell_safe; [lia|exact Hi]|]. intros c. apply safe_pure. intros _.
  eapply safe_bind.
  { destruct (cI c <=? 0); [apply safe_ret_inv|apply host_dispersers_from_safe; [lia|exact Hi]]. }
  intros d. apply IH. lia.
Qed.

Theorem act_generate_I b : safe (I b) (act_generate g) (fun _ w => I b w).
Proof.
  unfold act_generate. apply for_suitable_safe; [exact Hst|]. intros r c i Hi.
  eapply safe_bind; [apply multi_dispersers_from_safe; exact Hi|]. intros d.
  destruct (d >? 0).
  - apply safe_get_k. intros w0 H0.
    eapply safe_pre with (P' := I b); [|intros w [_ H]; exact H].
    eapply safe_bind.
    { destruct (w_soil w0) as [s|] eqn:Es; [|apply safe_ret_inv].
      pose proof (I_soil_flag b w0 s H0 Es) as ->.
      eapply safe_bind; [apply safe_mrepeat, soil_disperser_to_safe; exact Hi|]. intros ?u.
      apply safe_ret_inv. }
    intros d'. eapply safe_bind; [apply set_disp_safe; exact Hi|]. intros ?u.
    apply set_estab_safe; exact Hi.
  - eapply safe_bind; [apply set_disp_safe; exact Hi|]. intros ?u. apply set_estab_safe; exact Hi.
Qed.

(* ---------- disperse ---------- *)
Lemma one_disperser_safe b ri ci i : (i < nc)%nat ->
  safe (I b) (one_disperser g ri ci i) (fun _ w => I b w).
Proof.
  intros Hi. unfold one_disperser.
  eapply safe_bind; [apply safe_pop|]. intros e. destruct e; try sfail.
  destruct (negb _); [sfail|].
  destruct (is_outside g row col) eqn:Eo.
  - apply safe_get_k. intros w0 H0. eapply safe_post; [apply safe_put|]. cbv beta. intros _ w ->.
    apply I_upd_outside. exact H0.
  - apply not_outside_in_grid in Eo.
    eapply safe_bind; [apply safe_lift, idx_of_noub; exact Eo|]. intros tgt. apply safe_pure. intros Et.
    eapply safe_bind; [apply multi_disperser_to_safe; eapply idx_of_lt; eauto|]. intros est.
    destruct (est =? 0); [apply safe_ret_inv|].
    apply safe_get_k. intros w0 H0. rest_destruct H0.
    eapply safe_pre with (P' := I b); [|intros w [_ H]; exact H].
    eapply safe_bind; [apply safe_lift, rget_noub; lia|]. intros cur. apply safe_pure. intros _.
    apply set_estab_safe; exact Hi.
Qed.

Theorem act_disperse_I b : safe (I b) (act_disperse g) (fun _ w => I b w).
Proof.
  unfold act_disperse. apply for_suitable_safe; [exact Hst|]. intros r c i Hi.
  apply safe_get_k. intros w0 H0. rest_destruct H0.
  eapply safe_pre with (P' := I b); [|intros w [_ H]; exact H].
  eapply safe_bind; [apply safe_lift, rget_noub; lia|]. intros d. apply safe_pure. intros _.
  eapply safe_bind; [apply safe_mrepeat, one_disperser_safe; exact Hi|]. intros ?u.
  destruct (w_soil w0) as [s|] eqn:Es; [|apply safe_ret_inv].
  pose proof (I_soil_flag b w0 s H0 Es) as ->.
  eapply safe_bind; [apply soil_dispersers_from_safe; exact Hi|]. intros n.
  apply safe_mrepeat. eapply safe_bind; [apply multi_disperser_to_safe; exact Hi|].
  intros ?u. apply safe_ret_inv.
Qed.

(* ---------- step_forward ---------- *)
Lemma step_fold_noub mt lat step cells : Forall (shape ne nm) cells -> (mt = SEI -> (1 <= ne)%nat) ->
  no_ub (fold_right (fun c acc => do a <- acc; do c' <- step_forward mt lat step c; Ok (c' :: a))
                    (Ok []) cells).
Proof.
  intros Hc Hne. induction Hc as [|c r Pc _ IH]; cbn [fold_right]; [discriminate|].
  apply no_ub_bind; [exact IH|]. intros a _.
  apply no_ub_bind; [eapply step_forward_noub; [exact Pc|apply (nm_pos g ne nm Hst)|exact Hne]|].
  intros c' _. discriminate.
Qed.

Lemma Forall2_len {A B} (R : A -> B -> Prop) l l' : Forall2 R l l' -> length l = length l'.
Proof. induction 1; cbn [length]; congruence. Qed.

Theorem act_step_forward_I b step : safe (I b) (act_step_forward g step) (fun _ w => I b w).
Proof.
  unfold act_step_forward. apply all_hosts_safe. intros k Hk.
  eapply safe_bind; [apply get_host_safe; exact Hk|]. intros h. apply safe_pure. intros (L & Su & F).
  eapply safe_bind; [apply host_cfg_safe; exact Hk|]. intros hc. apply safe_pure. intros Hin.
  eapply safe_bind.
  { apply safe_lift. apply step_fold_noub; [exact F|]. intros E. eapply ne_pos; eauto. }
  intros cs. apply safe_pure. intros Hcs.
  apply set_host_safe; [exact Hk|]. apply map_result_spec in Hcs.
  split; [|split]; cbn [hp_cells hp_suitable].
  - rewrite <- (Forall2_len _ _ _ Hcs). exact L.
  - exact Su.
  - clear - Hcs F. induction Hcs as [|c c' r r' Hc Hr IH]; [constructor|].
    inversion F; subst. constructor; [eapply step_forward_shape; eauto|auto].
Qed.

(* ---------- soil ageing ---------- *)
Lemma act_soil_next_I b w : I b w -> I b (act_soil_next w).
Proof.
  intros HI. unfold act_soil_next. destruct (w_soil w) as [s|] eqn:Es; [|exact HI].
  pose proof (I_soil_flag b w s HI Es) as ->.
  destruct (I_soil_some w HI) as (s0 & Es0 & Ls & Fs). rewrite Es in Es0. injection Es0 as <-.
  apply I_upd_soil; [exact HI|]. split; [rewrite map_length; exact Ls|].
  apply Forall_forall. intros cs Hin. apply in_map_iff in Hin as (cs0 & <- & Hin0).
  rewrite Forall_forall in Fs. specialize (Fs _ Hin0). destruct cs0 as [|x r]; [congruence|].
  destruct r; discriminate.
Qed.

(* ---------- overpopulation ---------- *)
Definition sum_I (hs : list hostpool) (i : nat) : result Z :=
  fold_right (fun h acc => do a <- acc; do c <- rget (hp_cells h) i; Ok (a + cI c)) (Ok 0) hs.

Lemma multi_infected_at_eq i w t :
  multi_infected_at i w t = match sum_I (w_hosts w) i with Ok n => Ok (n, w, t) | Err e => Err e end.
Proof. unfold multi_infected_at, sum_I, mbind, get, lift. destruct (fold_right _ _ _); reflexivity. Qed.
Lemma multi_total_hosts_at_eq i w t :
  multi_total_hosts_at i w t = match sum_SI (w_hosts w) i with Ok n => Ok (n, w, t) | Err e => Err e end.
Proof. unfold multi_total_hosts_at, sum_SI, mbind, get, lift. destruct (fold_right _ _ _); reflexivity. Qed.

Lemma sum_I_cons h r i :
  sum_I (h :: r) i = (do a <- sum_I r i; do c <- rget (hp_cells h) i; Ok (a + cI c)).
Proof. reflexivity. Qed.
Lemma sum_SI_cons h r i :
  sum_SI (h :: r) i = (do a <- sum_SI r i; do c <- rget (hp_cells h) i; Ok (a + cS c + cI c)).
Proof. reflexivity. Qed.

(* with non-negative counts the infected never exceed susceptible + infected *)
Lemma sums_le hs i : hosts_inv (cinv Basic) hs ->
  forall a b, sum_I hs i = Ok a -> sum_SI hs i = Ok b -> a <= b.
Proof.
  intros HI. induction HI as [|h r Ph _ IH]; intros a b Ha Hb.
  - cbn in Ha, Hb. injection Ha as <-. injection Hb as <-. lia.
  - rewrite sum_I_cons in Ha. rewrite sum_SI_cons in Hb.
    destruct (sum_I r i) as [a0|]; [|discriminate]. destruct (sum_SI r i) as [b0|]; [|discriminate].
    cbn [bind] in Ha, Hb. destruct (rget (hp_cells h) i) as [c|] eqn:Ec; [|discriminate].
    cbn [bind] in Ha, Hb. injection Ha as <-. injection Hb as <-.
    specialize (IH _ _ eq_refl eq_refl). apply rget_In in Ec. rewrite Forall_forall in Ph.
    destruct (Ph _ Ec) as [(HS & _) _]. lia.
Qed.

Definition IB (b : bool) (w : world) : Prop := I b w /\ winv (cinv Basic) w.

Lemma multi_infected_at_safe b i : (i < nc)%nat ->
  safe (IB b) (multi_infected_at i) (fun orig w => IB b w /\ sum_I (w_hosts w) i = Ok orig).
Proof.
  intros Hi w t HB. pose proof HB as [HI _]. rest_destruct HI. rewrite multi_infected_at_eq.
  destruct (fold_hosts_ok (fun a c => a + cI c) 0 i nc (w_hosts w)
              (hosts_wf_cells_len g ne nm _ Hh) Hi) as [n E].
  unfold sum_I. rewrite E. split; [exact HB|exact E].
Qed.

Lemma multi_total_hosts_at_safe b i : (i < nc)%nat ->
  safe (IB b) (multi_total_hosts_at i) (fun th w => IB b w /\ sum_SI (w_hosts w) i = Ok th).
Proof.
  intros Hi w t HB. pose proof HB as [HI _]. rest_destruct HI. rewrite multi_total_hosts_at_eq.
  destruct (sum_SI_ok _ i Hh Hi) as [n E]. rewrite E. split; [exact HB|exact E].
Qed.

Lemma host_field_at_safe b f i : (i < nc)%nat ->
  safe (I b) (host_field_at f i) (fun _ w => I b w).
Proof.
  intros Hi w t HI. rest_destruct HI. unfold host_field_at, mbind, get, lift.
  destruct (fold_hosts_ok (fun a c => f c :: a) [] i nc (w_hosts w)
              (hosts_wf_cells_len g ne nm _ Hh) Hi) as [l E].
  rewrite E. exact HI.
Qed.

Lemma multi_pests_from_safe b i count : (i < nc)%nat ->
  safe (I b) (multi_pests_from i count) (fun _ w => I b w).
Proof.
  intros Hi. unfold multi_pests_from.
  eapply safe_bind; [apply num_hosts_safe|]. intros n. apply safe_pure. intros ->.
  eapply safe_bind; [apply pop_draw_safe|]. intros d.
  eapply safe_bind; [apply host_field_at_safe; exact Hi|]. intros pops.
  eapply safe_bind. { destruct (valid_draw pops d count); [apply safe_ret_inv|sfail]. } intros ?u.
  match goal with |- safe _ (?F 0%nat ?n d 0) _ =>
    assert (HF : forall m k ds acc, (k + m <= nhosts)%nat -> safe (I b) (F k m ds acc) (fun _ w => I b w));
      [|apply HF; lia] end.
  induction m as [|m IH]; intros k ds acc Hk; [apply safe_ret_inv|].
  destruct ds as [|x r]; [apply safe_ret_inv|].
  eapply safe_bind; [apply get_cell_safe; [lia|exact Hi]|]. intros c. apply safe_pure. intros Pc.
  eapply safe_bind; [apply set_cell_safe; [lia|exact Hi|apply pests_from_shape, Pc]|]. intros ?u.
  apply IH. lia.
Qed.

Lemma multi_pests_to_safe b i count : (i < nc)%nat ->
  safe (I b) (multi_pests_to i count) (fun _ w => I b w).
Proof.
  intros Hi. unfold multi_pests_to.
  eapply safe_bind; [apply num_hosts_safe|]. intros n. apply safe_pure. intros ->.
  eapply safe_bind; [apply pop_draw_safe|]. intros d.
  eapply safe_bind; [apply host_field_at_safe; exact Hi|]. intros pops.
  eapply safe_bind. { destruct (valid_draw pops d count); [apply safe_ret_inv|sfail]. } intros ?u.
  match goal with |- safe _ (?F 0%nat ?n d 0) _ =>
    assert (HF : forall m k ds acc, (k + m <= nhosts)%nat -> safe (I b) (F k m ds acc) (fun _ w => I b w));
      [|apply HF; lia] end.
  induction m as [|m IH]; intros k ds acc Hk; [apply safe_ret_inv|].
  destruct ds as [|x r]; [apply safe_ret_inv|].
  eapply safe_bind; [apply get_cell_safe; [lia|exact Hi]|]. intros c. apply safe_pure. intros Pc.
  eapply safe_bind; [apply set_cell_safe; [lia|exact Hi|apply pests_to_shape, Pc]|]. intros ?u.
  apply IH. lia.
Qed.

Lemma multi_pests_from_IB b i count : (i < nc)%nat ->
  safe (IB b) (multi_pests_from i count) (fun _ w => IB b w).
Proof.
  intros Hi. apply safe_hoare2; [apply multi_pests_from_safe; exact Hi|].
  apply WI_to_winv. intros q. apply multi_pests_from_WI.
Qed.

Lemma multi_pests_to_IB b i count : (i < nc)%nat ->
  safe (IB b) (multi_pests_to i count) (fun _ w => IB b w).
Proof.
  intros Hi. apply safe_hoare2; [apply multi_pests_to_safe; exact Hi|].
  apply WI_to_winv. intros q. apply multi_pests_to_WI.
Qed.

Lemma suitable_cells_safe b (R : world -> Prop) :
  safe (fun w => I b w /\ R w) suitable_cells
       (fun cells w => Forall (in_grid g) cells /\ (I b w /\ R w)).
Proof.
  unfold suitable_cells.
  eapply safe_bind; [apply safe_frame_ro; [apply ro_get_host|apply get_host_safe, (nh_pos g ne nm Hst)]|].
  intros h. eapply safe_post; [apply safe_ret|]. cbv beta.
  intros x w [-> [[(_ & Su & _) HI] HR]]. auto.
Qed.

Definition move_ok (mv : nat * Z) : Prop := (fst mv < nc)%nat.

Lemma overpop_departures_safe b :
  safe (IB b) (overpop_departures g) (fun moves w => Forall move_ok moves /\ IB b w).
Proof.
  unfold overpop_departures.
  eapply safe_bind; [apply (suitable_cells_safe b (winv (cinv Basic)))|]. intros cells.
  apply safe_pure. intros Hcells. fold (IB b).
  match goal with |- safe _ (?F cells []) _ =>
    assert (HF : forall l moves, Forall (in_grid g) l -> Forall move_ok moves ->
              safe (IB b) (F l moves) (fun mv w => Forall move_ok mv /\ IB b w));
      [|apply HF; [exact Hcells|constructor]] end.
  clear cells Hcells.
  induction l as [|[ri ci] r IH]; intros moves Hl Hm.
  { eapply safe_post; [apply safe_ret|]. cbv beta. intros x w [-> H]. auto. }
  inversion Hl as [|? ? Hrc Hr]; subst.
  eapply safe_bind; [apply safe_lift, idx_of_noub; exact Hrc|]. intros i. apply safe_pure. intros Ei.
  assert (Hi : (i < nc)%nat) by (eapply idx_of_lt; eauto).
  eapply safe_bind; [apply multi_infected_at_safe; exact Hi|]. intros orig.
  destruct (Z.leb_spec orig 1) as [_|Ho].
  { eapply safe_pre; [apply IH; assumption|]. intros w [H _]. exact H. }
  eapply safe_bind;
    [apply safe_frame_ro; [apply ro_multi_total_hosts_at|apply multi_total_hosts_at_safe; exact Hi]|].
  intros th. apply safe_fact with (phi := th <> 0).
  { intros w [[[_ HB] H2] H1]. pose proof (sums_le _ i HB _ _ H1 H2). lia. }
  intros Hth. destruct (Z.eqb_spec th 0) as [|_]; [contradiction|].
  eapply safe_pre with (P' := IB b); [|intros w [[H _] _]; exact H].
  destruct (Qle_bool _ _); [|apply IH; assumption].
  eapply safe_bind; [apply safe_pop|]. intros e. destruct e; try sfail.
  destruct (negb _); [sfail|].
  eapply safe_bind; [apply multi_pests_from_IB; exact Hi|]. intros leaving.
  destruct (is_outside g row col) eqn:Eo.
  - apply safe_get_k. intros w0 H0. eapply safe_bind; [apply safe_put|]. intros ?u.
    eapply safe_pre; [apply IH; assumption|]. cbv beta. intros w ->.
    destruct H0 as [A B]. split; [exact A|exact B].
  - apply not_outside_in_grid in Eo.
    eapply safe_bind; [apply safe_lift, idx_of_noub; exact Eo|]. intros tgt. apply safe_pure. intros Et.
    apply IH; [assumption|]. apply Forall_app. split; [assumption|].
    constructor; [|constructor]. unfold move_ok. cbn [fst]. eapply idx_of_lt; eauto.
Qed.

Theorem act_overpopulation_IB b : safe (IB b) (act_overpopulation g) (fun _ w => IB b w).
Proof.
  unfold act_overpopulation.
  eapply safe_bind; [apply overpop_departures_safe|]. intros moves. apply safe_pure. intros Hm.
  apply safe_mfold. intros mv Hin. rewrite Forall_forall in Hm. specialize (Hm _ Hin).
  eapply safe_bind; [apply multi_pests_to_IB; exact Hm|]. intros ?u. apply safe_ret_inv.
Qed.

(* ---------- host movement ---------- *)
Lemma I_upd_last_index b w k : I b w -> 0 <= k -> I b (upd_last_index w k).
Proof.
  intros HI Hk. rest_destruct HI. split; [exact Hh|]. split; [|exact Hb].
  unfold rest_wf, upd_last_index; cbn [w_disp w_estab w_soil w_weather w_totpop w_other w_temp w_last_index].
  repeat split; assumption.
Qed.

Lemma move_hosts_safe b rf cf rt ct count : in_grid g (rf, cf) -> in_grid g (rt, ct) ->
  safe (I b) (move_hosts g rf cf rt ct count) (fun _ w => I b w).
Proof.
  intros Gf Gt. pose proof (nh_pos g ne nm Hst) as H0. unfold move_hosts.
  eapply safe_bind; [apply safe_lift, idx_of_noub; exact Gf|]. intros ifrom. apply safe_pure. intros Ef.
  eapply safe_bind; [apply safe_lift, idx_of_noub; exact Gt|]. intros ito. apply safe_pure. intros Et.
  assert (Hf : (ifrom < nc)%nat) by exact (idx_of_lt g _ _ _ Gf Ef).
  assert (Ht : (ito < nc)%nat) by exact (idx_of_lt g _ _ _ Gt Et).
  eapply safe_bind; [apply get_cell_safe; [exact H0|exact Hf]|]. intros c. apply safe_pure. intros Pc.
  eapply safe_bind; [apply safe_pop|]. intros e. destruct e; try sfail.
  destruct (negb _); [sfail|]. destruct (negb _); [sfail|].
  eapply safe_bind. { destruct (_ >? 0); [apply pop_draw_safe|apply safe_ret_inv]. } intros ed.
  eapply safe_bind. { destruct (_ && _); [sfail|apply safe_ret_inv]. } intros ?u.
  eapply safe_bind. { destruct (_ >? 0); [apply pop_draw_safe|apply safe_ret_inv]. } intros md.
  eapply safe_bind. { destruct (_ && _); [sfail|apply safe_ret_inv]. } intros ?u.
  eapply safe_bind; [apply get_cell_safe; [exact H0|exact Ht]|]. intros cto0. apply safe_pure. intros _.
  eapply safe_bind.
  { destruct (cTH cto0 =? 0); [|apply safe_ret_inv].
    eapply safe_bind; [apply get_host_safe; exact H0|]. intros h. apply safe_pure. intros (L & Su & F).
    destruct (existsb _ _); [apply safe_ret_inv|]. apply set_host_safe; [exact H0|].
    split; [|split]; cbn [hp_cells hp_suitable]; [exact L| |exact F].
    apply Forall_app. split; [exact Su|]. constructor; [exact Gt|constructor]. }
  intros ?u.
  eapply safe_bind; [apply get_cell_safe; [exact H0|exact Hf]|]. intros c1. apply safe_pure. intros P1.
  eapply safe_bind;
    [apply set_cell_safe; [exact H0|exact Hf|exact (move_out_shape _ _ c1 _ _ _ _ _ _ _ P1)]|]. intros ?u.
  eapply safe_bind; [apply get_cell_safe; [exact H0|exact Ht]|]. intros c2. apply safe_pure. intros P2.
  eapply safe_bind;
    [apply set_cell_safe; [exact H0|exact Ht|exact (move_in_shape _ _ c2 _ _ _ _ _ _ _ P2)]|]. intros ?u.
  apply safe_ret_inv.
Qed.

(* a movement row: five numbers, both cells inside the grid *)
Definition move_row_wf (r : list Z * Z) : Prop :=
  match fst r with
  | [rf; cf; rt; ct; _] => in_grid g (rf, cf) /\ in_grid g (rt, ct)
  | _ => False
  end.

Lemma movement_loop_safe b step : forall rows i, Forall move_row_wf rows ->
  safe (I b) (movement_loop g step rows i) (fun k w => i <= k /\ I b w).
Proof.
  induction rows as [|[mv sched] r IH]; intros i Hr; cbn [movement_loop].
  { eapply safe_post; [apply safe_ret|]. cbv beta. intros k w [-> H]. split; [lia|exact H]. }
  inversion Hr as [|? ? Hrow Hr']; subst.
  destruct (negb _).
  { eapply safe_post; [apply safe_ret|]. cbv beta. intros k w [-> H]. split; [lia|exact H]. }
  unfold move_row_wf in Hrow. cbn [fst] in Hrow.
  destruct mv as [|rf [|cf [|rt [|ct [|count [|x mv]]]]]]; try contradiction.
  destruct Hrow as [Gf Gt].
  eapply safe_bind; [apply move_hosts_safe; assumption|]. intros ?u.
  eapply safe_post; [apply IH; exact Hr'|]. cbv beta. intros k w [Hk H]. split; [lia|exact H].
Qed.

Theorem act_movement_I b step moves : Forall move_row_wf moves ->
  safe (I b) (act_movement g step moves) (fun _ w => I b w).
Proof.
  intros Hm. unfold act_movement. apply safe_get_k. intros w0 H0. rest_destruct H0.
  eapply safe_pre with (P' := I b); [|intros w [_ H]; exact H].
  eapply safe_bind; [apply movement_loop_safe, Forall_skipn_; exact Hm|]. intros k.
  apply safe_pure. intros Hk. apply safe_get_k. intros w1 H1.
  eapply safe_post; [apply safe_put|]. cbv beta. intros _ w ->. apply I_upd_last_index; [exact H1|lia].
Qed.

(* ---------- treatments ---------- *)
Lemma apply_treatment_safe b k t : (k < nhosts)%nat -> length (t_map t) = nc ->
  safe (I b) (apply_treatment g k t) (fun _ w => I b w).
Proof.
  intros Hk Ht. unfold apply_treatment.
  eapply safe_bind; [apply get_host_safe; exact Hk|]. intros h. apply safe_pure. intros (_ & Su & _).
  apply safe_mfold. intros [r c] Hin. cbn [fst snd]. rewrite Forall_forall in Su. specialize (Su _ Hin).
  eapply safe_bind; [apply safe_lift, idx_of_noub; exact Su|]. intros i. apply safe_pure. intros Ei.
  assert (Hi : (i < nc)%nat) by (eapply idx_of_lt; eauto).
  eapply safe_bind; [apply safe_lift, rget_noub; lia|]. intros coef. apply safe_pure. intros _.
  eapply safe_bind; [apply get_cell_safe; assumption|]. intros c0. apply safe_pure. intros Pc.
  eapply safe_bind; [apply safe_lift, (treat_cell_noub t coef c0)|]. intros c'. apply safe_pure. intros Hc.
  apply set_cell_safe; try assumption.
  destruct (t_pesticide t); [eapply treat_pesticide_shape|eapply treat_removal_shape]; eauto.
Qed.

Lemma end_treatment_safe b k t : (k < nhosts)%nat -> length (t_map t) = nc ->
  safe (I b) (end_treatment g k t) (fun _ w => I b w).
Proof.
  intros Hk Ht. unfold end_treatment. destruct (t_pesticide t); [|apply safe_ret_inv].
  eapply safe_bind; [apply get_host_safe; exact Hk|]. intros h. apply safe_pure. intros (_ & Su & _).
  apply safe_mfold. intros [r c] Hin. cbn [fst snd]. rewrite Forall_forall in Su. specialize (Su _ Hin).
  eapply safe_bind; [apply safe_lift, idx_of_noub; exact Su|]. intros i. apply safe_pure. intros Ei.
  assert (Hi : (i < nc)%nat) by (eapply idx_of_lt; eauto).
  eapply safe_bind; [apply safe_lift, rget_noub; lia|]. intros coef. apply safe_pure. intros _.
  eapply safe_bind; [apply get_cell_safe; assumption|]. intros c0. apply safe_pure. intros Pc.
  apply set_cell_safe; try assumption. apply treat_pesticide_end_shape, Pc.
Qed.

Theorem act_treatments_I b ts step : Forall (fun t => length (t_map t) = nc) ts ->
  safe (I b) (act_treatments g ts step) (fun _ w => I b w).
Proof.
  intros Hts. unfold act_treatments. apply all_hosts_safe. intros k Hk. unfold manage.
  apply safe_mfold. intros t Hin. rewrite Forall_forall in Hts. specialize (Hts _ Hin).
  destruct (t_start t =? step); [apply apply_treatment_safe; assumption|].
  destruct (_ && _); [apply end_treatment_safe; assumption|apply safe_ret_inv].
Qed.

(* ---------- mortality ---------- *)
Theorem act_mortality_I b : cfg_ok g -> safe (I b) (act_mortality g) (fun _ w => I b w).
Proof.
  intros [Hg _]. unfold act_mortality. eapply safe_bind.
  - apply for_suitable_safe; [exact Hst|]. intros r c i Hi. apply all_hosts_safe. intros k Hk.
    eapply safe_bind; [apply host_cfg_safe; exact Hk|]. intros hc. apply safe_pure. intros Hin.
    rewrite Forall_forall in Hg. specialize (Hg _ Hin). unfold pht_ok in Hg.
    destruct (h_pht hc) as [[[sus rate] lag]|]; [|sfail]. destruct Hg as [_ Hlag].
    eapply safe_bind; [apply get_cell_safe; assumption|]. intros c0. apply safe_pure. intros Pc.
    eapply safe_bind; [apply safe_lift, apply_mortality_noub; exact Hlag|]. intros c'.
    apply safe_pure. intros Hc.
    apply set_cell_safe; try assumption. eapply apply_mortality_shape; eauto.
  - intros ?u. apply all_hosts_safe. intros k Hk.
    eapply safe_bind; [apply get_host_safe; exact Hk|]. intros h. apply safe_pure. intros (L & Su & F).
    apply set_host_safe; [exact Hk|]. split; [|split]; cbn [hp_cells hp_suitable].
    + rewrite map_length. exact L.
    + exact Su.
    + clear - F. induction F as [|c r Pc _ IH]; cbn [map]; constructor;
        [apply rotate_mortality_shape, Pc|exact IH].
Qed.
End Actions.

(* ====================================================================== *)
(* the running invariant and WF *)
Lemma SI_WF g ne nm b w : static_wf g ne nm -> SI_ g ne nm b w -> WF g ne nm w.
Proof. intros Hst (Hh & Hr & _). split; [exact Hst|split; assumption]. Qed.

Lemma WF_SI g ne nm w : WF g ne nm w -> SI_ g ne nm (has_soil w) w.
Proof. intros (_ & Hh & Hr). split; [exact Hh|split; [exact Hr|reflexivity]]. Qed.

Lemma SI_WS g ne nm b w : SI_ g ne nm b w -> WS ne nm w.
Proof.
  intros ((_ & Hh) & _). unfold WS, winv, hosts_inv.
  eapply Forall_impl; [|exact Hh]. intros h (_ & _ & H). exact H.
Qed.

(* from the judgement to the explicit statement *)
Lemma safe_elim {A} (P : world -> Prop) (m : W A) (Q : A -> world -> Prop) :
  safe P m Q -> forall w t, P w ->
  no_ub (m w t) /\ (forall a w' t', m w t = Ok (a, w', t') -> Q a w').
Proof.
  intros H w t HP. specialize (H w t HP). destruct (m w t) as [[[a w1] t1]|e].
  - split; [discriminate|]. intros a' w' t' [= <- <- <-]. exact H.
  - split; [intros [= ->]; apply H; reflexivity|]. intros a' w' t' E. discriminate.
Qed.

Lemma safe_WF {A} g ne nm (m : W A) :
  (static_wf g ne nm -> forall b, safe (SI_ g ne nm b) m (fun _ w => SI_ g ne nm b w)) ->
  forall w t, WF g ne nm w ->
  no_ub (m w t) /\ (forall a w' t', m w t = Ok (a, w', t') -> WF g ne nm w').
Proof.
  intros H w t HW. pose proof HW as (Hst & _).
  destruct (safe_elim _ _ _ (H Hst (has_soil w)) w t (WF_SI _ _ _ _ HW)) as [A1 A2].
  split; [exact A1|]. intros a w' t' E. eapply SI_WF; [exact Hst|]. eapply A2. exact E.
Qed.

(* ---------- Theorem 1: every action, for every tape ---------- *)
Definition rasters_wf {A} (g : config) (l : list (list A)) : Prop :=
  Forall (fun r => length r = ncells g) l.

Theorem act_lethal_safe g ne nm w t : WF g ne nm w ->
  no_ub (act_lethal g w t) /\ (forall u w' t', act_lethal g w t = Ok (u, w', t') -> WF g ne nm w').
Proof. apply safe_WF. intros Hst b. apply act_lethal_I. exact Hst. Qed.

Theorem act_survival_safe g ne nm rates w t : WF g ne nm w -> length rates = ncells g ->
  no_ub (act_survival g rates w t) /\
  (forall u w' t', act_survival g rates w t = Ok (u, w', t') -> WF g ne nm w').
Proof. intros HW Hr. revert w t HW. apply safe_WF. intros Hst b. apply act_survival_I; assumption. Qed.

Theorem act_generate_safe g ne nm w t : WF g ne nm w ->
  no_ub (act_generate g w t) /\ (forall u w' t', act_generate g w t = Ok (u, w', t') -> WF g ne nm w').
Proof. apply safe_WF. intros Hst b. apply act_generate_I. exact Hst. Qed.

Theorem act_disperse_safe g ne nm w t : WF g ne nm w ->
  no_ub (act_disperse g w t) /\ (forall u w' t', act_disperse g w t = Ok (u, w', t') -> WF g ne nm w').
Proof. apply safe_WF. intros Hst b. apply act_disperse_I. exact Hst. Qed.

Theorem act_step_forward_safe g ne nm step w t : WF g ne nm w ->
  no_ub (act_step_forward g step w t) /\
  (forall u w' t', act_step_forward g step w t = Ok (u, w', t') -> WF g ne nm w').
Proof. apply safe_WF. intros Hst b. apply act_step_forward_I. exact Hst. Qed.

(* overpopulation divides by the total hosts of a cell holding at least two
   infected: it needs the counts to be non-negative (winv (cinv Basic)), which
   the action preserves *)
Theorem act_overpopulation_safe g ne nm w t : WF g ne nm w -> winv (cinv Basic) w ->
  no_ub (act_overpopulation g w t) /\
  (forall u w' t', act_overpopulation g w t = Ok (u, w', t') ->
     WF g ne nm w' /\ winv (cinv Basic) w').
Proof.
  intros HW HB. pose proof HW as (Hst & _).
  destruct (safe_elim _ _ _ (act_overpopulation_IB g ne nm Hst (has_soil w)) w t
              (conj (WF_SI _ _ _ _ HW) HB)) as [A1 A2].
  split; [exact A1|]. intros u w' t' E. destruct (A2 _ _ _ E) as [B1 B2].
  split; [eapply SI_WF; eauto|exact B2].
Qed.

Theorem act_movement_safe g ne nm step moves w t : WF g ne nm w -> Forall (move_row_wf g) moves ->
  no_ub (act_movement g step moves w t) /\
  (forall u w' t', act_movement g step moves w t = Ok (u, w', t') -> WF g ne nm w').
Proof. intros HW Hm. revert w t HW. apply safe_WF. intros Hst b. apply act_movement_I; assumption. Qed.

Theorem act_treatments_safe g ne nm ts step w t : WF g ne nm w ->
  Forall (fun t => length (t_map t) = ncells g) ts ->
  no_ub (act_treatments g ts step w t) /\
  (forall u w' t', act_treatments g ts step w t = Ok (u, w', t') -> WF g ne nm w').
Proof. intros HW Hm. revert w t HW. apply safe_WF. intros Hst b. apply act_treatments_I; assumption. Qed.

(* CHANGED (added hypothesis): apply_mortality_at indexes the tracker from the
   time lag, so a negative lag is outside the domain: cfg_ok g (LandProps)
   supplies 0 <= lag for every pest-host table row. *)
Theorem act_mortality_safe g ne nm w t : WF g ne nm w -> cfg_ok g ->
  no_ub (act_mortality g w t) /\ (forall u w' t', act_mortality g w t = Ok (u, w', t') -> WF g ne nm w').
Proof. intros HW Hg. revert w t HW. apply safe_WF. intros Hst b. apply act_mortality_I; assumption. Qed.

(* act_soil_next is a total function: nothing to fail *)
Theorem act_soil_next_safe g ne nm w : WF g ne nm w -> WF g ne nm (act_soil_next w).
Proof.
  intros HW. pose proof HW as (Hst & _). eapply SI_WF; [exact Hst|].
  apply act_soil_next_I. apply WF_SI. exact HW.
Qed.

(* ---------- the documented domain of a step ---------- *)
Definition inputs_wf (g : config) (inp : inputs) : Prop :=
  rasters_wf g (in_temperatures inp) /\ rasters_wf g (in_survival inp) /\
  Forall (fun t => length (t_map t) = ncells g) (in_treatments inp) /\
  length (in_totpop inp) = ncells g /\
  Forall (move_row_wf g) (in_movements inp).

Definition in_sched (l : list bool) (step : Z) : Prop := (Z.to_nat step < length l)%nat.

Definition sched_wf (m : model_cfg) (step : Z) (inp : inputs) : Prop :=
  0 <= step /\
  in_sched (m_spread_schedule m) step /\
  (m_use_lethal m = true -> in_sched (m_lethal_schedule m) step) /\
  (m_use_survival m = true -> in_sched (m_survival_schedule m) step) /\
  (m_use_mortality m = true -> in_sched (m_mortality_schedule m) step) /\
  (m_use_spreadrates m = true -> in_sched (m_spread_rate_schedule m) step) /\
  (m_use_quarantine m = true -> in_sched (m_quarantine_schedule m) step) /\
  (fires (m_use_lethal m) (m_lethal_schedule m) step = true ->
     firings_before (m_lethal_schedule m) step < Z.of_nat (length (in_temperatures inp))) /\
  (fires (m_use_survival m) (m_survival_schedule m) step = true ->
     firings_before (m_survival_schedule m) step < Z.of_nat (length (in_survival inp))).

Lemma sched_at_ok l step : 0 <= step -> in_sched l step -> exists b, sched_at l step = Ok b.
Proof.
  intros H0 Hl. unfold sched_at. destruct (Z.ltb_spec step 0); [lia|].
  destruct (nth_error l (Z.to_nat step)) eqn:E; [eauto|]. apply nth_error_None in E. unfold in_sched in Hl. lia.
Qed.

Lemma guarded_noub use l step : 0 <= step -> (use = true -> in_sched l step) -> no_ub (guarded use l step).
Proof.
  intros H0 Hl. unfold guarded. destruct use; [|discriminate].
  destruct (sched_at_ok l step H0 (Hl eq_refl)) as [b ->]. discriminate.
Qed.

Lemma sstas_noub l s : no_ub (simulation_step_to_action_step l s).
Proof.
  unfold simulation_step_to_action_step. destruct (s <? 0); [discriminate|].
  destruct (nth_error _ _); discriminate.
Qed.

Lemma index_part_noub (b : bool) l s (tag : action_tag) :
  no_ub (if b then do k <- simulation_step_to_action_step l s; Ok [(tag, k)] else Ok []).
Proof.
  destruct b; [|discriminate]. apply no_ub_bind; [apply sstas_noub|]. intros k _. discriminate.
Qed.

(* the plan itself reads the schedules inside their bounds *)
Theorem plan_no_ub m hs step inp : sched_wf m step inp -> no_ub (plan m hs step).
Proof.
  intros (H0 & Hsp & Hl & Hsv & Hmo & Hsr & Hq & _). unfold plan.
  apply no_ub_bind; [apply guarded_noub; assumption|]. intros b1 _.
  apply no_ub_bind; [apply index_part_noub|]. intros p1 _.
  apply no_ub_bind; [apply guarded_noub; assumption|]. intros b2 _.
  apply no_ub_bind; [apply index_part_noub|]. intros p2 _.
  apply no_ub_bind; [destruct (sched_at_ok _ _ H0 Hsp) as [x ->]; discriminate|]. intros b3 _.
  apply no_ub_bind; [apply guarded_noub; assumption|]. intros b4 _.
  apply no_ub_bind; [apply guarded_noub; assumption|]. intros b5 _.
  apply no_ub_bind; [apply index_part_noub|]. intros p5 _.
  apply no_ub_bind; [apply guarded_noub; assumption|]. intros b6 _.
  apply no_ub_bind; [apply index_part_noub|]. intros p6 _.
  discriminate.
Qed.

Lemma count_true_nonneg l : 0 <= count_true l.
Proof. induction l as [|b r IH]; cbn [count_true]; [lia|]. destruct b; lia. Qed.

Lemma input_at_noub {A} (l : list A) k : 0 <= k < Z.of_nat (length l) -> no_ub (input_at l k).
Proof.
  intros Hk. unfold input_at. destruct (Z.ltb_spec k 0); [lia|].
  destruct (nth_error l (Z.to_nat k)) eqn:E; [discriminate|]. apply nth_error_None in E. lia.
Qed.

(* ---------- Theorem 2: one action of the plan, the plan, the step ---------- *)
Section Run.
Variables (m : model_cfg) (inp : inputs) (step : Z) (ne nm : nat).
Notation g := (m_g m).
Hypothesis Hst : static_wf g ne nm.
Hypothesis Hg : cfg_ok g.
Hypothesis Hio : inputs_ok inp.
Hypothesis Hiw : inputs_wf g inp.
Hypothesis Hsw : sched_wf m step inp.

Notation I := (SI_ g ne nm).
Notation RB := (IB g ne nm).

Lemma I_set_temperature b r : length r = ncells g ->
  safe (I b) (set_temperature r) (fun _ w => I b w).
Proof.
  intros Hr w t (Hh & (D1 & D2 & D3 & D4 & D5 & D6 & D7 & D8) & Hb).
  unfold set_temperature, mbind, get, put.
  split; [exact Hh|]. split; [|exact Hb]. repeat split; assumption.
Qed.

Lemma I_set_totpop b r : length r = ncells g ->
  safe (I b) (set_totpop r) (fun _ w => I b w).
Proof.
  intros Hr w t (Hh & (D1 & D2 & D3 & D4 & D5 & D6 & D7 & D8) & Hb).
  unfold set_totpop, mbind, get, put.
  split; [exact Hh|]. split; [|exact Hb]. repeat split; assumption.
Qed.

Lemma RB_I b w : RB b w -> I b w.
Proof. intros [H _]. exact H. Qed.

(* non-negative counts are kept by every action (RunProps, level Basic) *)
Lemma run_action_cinv b a :
  hoare (RB b) (run_action m inp step a) (fun _ w => winv (cinv Basic) w).
Proof.
  intros w t x w' t' [HI HB] E.
  assert (HJ : J Basic (whq w) ne nm w).
  { split; [split; [exact HB|lia]|eapply SI_WS; exact HI]. }
  assert (Htag : tag_ok Basic (fst a)) by (destruct a as [[] k]; cbn; try exact Logic.I; congruence).
  destruct (run_action_J Basic (whq w) ne nm m inp step a Hg Hio Logic.I Htag w t x w' t' HJ E)
    as [[A _] _]. exact A.
Qed.

Lemma run_action_I b hs p a : plan m hs step = Ok p -> In a p ->
  safe (RB b) (run_action m inp step a) (fun _ w => I b w).
Proof.
  intros Hp Hin. destruct Hiw as (Wt & Ws & Wtr & Wp & Wm).
  destruct Hsw as (S0 & _ & _ & _ & _ & _ & _ & Slt & Ssv).
  pose proof (runs_iff m hs step p Hp) as R. cbv zeta in R.
  destruct R as (_ & RL & RS & _). destruct a as [tag k]. unfold run_action. cbn [fst snd].
  destruct tag.
  - apply safe_get_k. intros w0 H0. eapply safe_post; [apply safe_put|]. cbv beta. intros _ w ->.
    apply act_soil_next_I. apply H0.
  - apply RL in Hin. destruct Hin as [F ->]. specialize (Slt F).
    eapply safe_pre; [|apply RB_I].
    eapply safe_bind.
    { apply safe_lift, input_at_noub. split; [apply count_true_nonneg|exact Slt]. }
    intros temp. apply safe_pure. intros Et. apply input_at_In in Et.
    unfold rasters_wf in Wt. rewrite Forall_forall in Wt. specialize (Wt _ Et).
    eapply safe_bind; [apply I_set_temperature; exact Wt|]. intros ?u. apply act_lethal_I. exact Hst.
  - apply RS in Hin. destruct Hin as [F ->]. specialize (Ssv F).
    eapply safe_pre; [|apply RB_I].
    eapply safe_bind.
    { apply safe_lift, input_at_noub. split; [apply count_true_nonneg|exact Ssv]. }
    intros r. apply safe_pure. intros Er. apply input_at_In in Er.
    unfold rasters_wf in Ws. rewrite Forall_forall in Ws. specialize (Ws _ Er).
    apply act_survival_I; assumption.
  - eapply safe_pre; [|apply RB_I].
    eapply safe_bind; [apply I_set_totpop; exact Wp|]. intros ?u. apply act_generate_I. exact Hst.
  - eapply safe_pre; [|apply RB_I]. apply act_disperse_I. exact Hst.
  - eapply safe_pre; [|apply RB_I]. apply act_step_forward_I. exact Hst.
  - eapply safe_post; [apply act_overpopulation_IB; exact Hst|]. cbv beta. intros _ w [H _]. exact H.
  - eapply safe_pre; [|apply RB_I]. apply act_movement_I; assumption.
  - eapply safe_pre; [|apply RB_I]. apply act_treatments_I; assumption.
  - eapply safe_pre; [|apply RB_I]. apply act_mortality_I; assumption.
  - eapply safe_pre; [|apply RB_I]. destruct (k >=? m_rate_capacity m); [sfail|apply safe_ret_inv].
  - eapply safe_pre; [|apply RB_I]. apply safe_ret_inv.
Qed.

Lemma run_action_RB b hs p a : plan m hs step = Ok p -> In a p ->
  safe (RB b) (run_action m inp step a) (fun _ w => RB b w).
Proof.
  intros Hp Hin. apply safe_hoare; [eapply run_action_I; eauto|apply run_action_cinv].
Qed.

Definition good (w : world) : Prop := WF g ne nm w /\ winv (cinv Basic) w.

Lemma RB_good b w : RB b w -> good w.
Proof. intros [HI HB]. split; [eapply SI_WF; eauto|exact HB]. Qed.
Lemma good_RB w : good w -> RB (has_soil w) w.
Proof. intros [HW HB]. split; [apply WF_SI; exact HW|exact HB]. Qed.

Theorem run_action_good hs p a w t : plan m hs step = Ok p -> In a p -> good w ->
  no_ub (run_action m inp step a w t) /\
  (forall u w' t', run_action m inp step a w t = Ok (u, w', t') -> good w').
Proof.
  intros Hp Hin HG.
  destruct (safe_elim _ _ _ (run_action_RB (has_soil w) hs p a Hp Hin) w t (good_RB _ HG)) as [A1 A2].
  split; [exact A1|]. intros u w' t' E. eapply RB_good. eapply A2. exact E.
Qed.

Lemma run_plan_RB b hs p : plan m hs step = Ok p ->
  forall p', incl p' p -> forall w t acc, RB b w -> Forall (fun x => good (snd x)) acc ->
    no_ub (fst (run_plan m inp step p' w t acc)) /\
    (forall tr w' t', fst (run_plan m inp step p' w t acc) = Ok (tr, w', t') -> RB b w') /\
    Forall (fun x => good (snd x)) (snd (run_plan m inp step p' w t acc)).
Proof.
  intros Hp. induction p' as [|a r IH]; intros Hincl w t acc HR Hacc; cbn [run_plan].
  - cbn [fst snd]. split; [discriminate|]. split; [|exact Hacc]. intros tr w' t' [= _ <- _]. exact HR.
  - pose proof (run_action_RB b hs p a Hp (Hincl a (or_introl eq_refl)) w t HR) as HA.
    destruct (run_action m inp step a w t) as [[[u w1] t1]|e]; cbn [fst snd].
    + apply IH; [intros x Hx; apply Hincl; right; exact Hx|exact HA|].
      apply Forall_app. split; [exact Hacc|]. constructor; [|constructor]. cbn [snd]. eapply RB_good. exact HA.
    + split; [intros [= ->]; apply HA; reflexivity|]. split; [|exact Hacc]. intros tr w' t' E. discriminate.
Qed.

Theorem run_plan_good hs p w t : plan m hs step = Ok p -> good w ->
  no_ub (fst (run_plan m inp step p w t [])) /\
  (forall tr w' t', fst (run_plan m inp step p w t []) = Ok (tr, w', t') -> good w') /\
  Forall (fun x => good (snd x)) (snd (run_plan m inp step p w t [])).
Proof.
  intros Hp HG.
  destruct (run_plan_RB (has_soil w) hs p Hp p (incl_refl p) w t [] (good_RB _ HG) (Forall_nil _))
    as (A1 & A2 & A3).
  split; [exact A1|]. split; [|exact A3]. intros tr w' t' E. eapply RB_good. eapply A2. exact E.
Qed.

Theorem run_step_good w t : good w ->
  no_ub (fst (run_step m inp step w t)) /\
  (forall tr w' t', fst (run_step m inp step w t) = Ok (tr, w', t') -> good w') /\
  Forall (fun x => good (snd x)) (snd (run_step m inp step w t)).
Proof.
  intros HG. unfold run_step. pose proof (plan_no_ub m (has_soil w) step inp Hsw) as Hp.
  destruct (plan m (has_soil w) step) as [p|e] eqn:Ep; cbn [fst snd].
  - eapply run_plan_good; eauto.
  - split; [intros [= ->]; apply Hp; reflexivity|]. split; [|constructor]. intros tr w' t' E. discriminate.
Qed.
End Run.

(* the same three theorems with every hypothesis spelled out *)
Theorem run_action_safe m inp step ne nm hs p a w t :
  WF (m_g m) ne nm w -> winv (cinv Basic) w -> inputs_wf (m_g m) inp -> sched_wf m step inp ->
  cfg_ok (m_g m) -> inputs_ok inp -> plan m hs step = Ok p -> In a p ->
  no_ub (run_action m inp step a w t) /\
  (forall u w' t', run_action m inp step a w t = Ok (u, w', t') ->
     WF (m_g m) ne nm w' /\ winv (cinv Basic) w').
Proof.
  intros HW HB Hiw Hsw Hg Hio Hp Hin. pose proof HW as (Hst & _).
  exact (run_action_good m inp step ne nm Hst Hg Hio Hiw Hsw hs p a w t Hp Hin (conj HW HB)).
Qed.

Theorem run_plan_safe m inp step ne nm hs p w t :
  WF (m_g m) ne nm w -> winv (cinv Basic) w -> inputs_wf (m_g m) inp -> sched_wf m step inp ->
  cfg_ok (m_g m) -> inputs_ok inp -> plan m hs step = Ok p ->
  no_ub (fst (run_plan m inp step p w t [])) /\
  (forall tr w' t', fst (run_plan m inp step p w t []) = Ok (tr, w', t') ->
     WF (m_g m) ne nm w' /\ winv (cinv Basic) w') /\
  Forall (fun x => WF (m_g m) ne nm (snd x) /\ winv (cinv Basic) (snd x))
         (snd (run_plan m inp step p w t [])).
Proof.
  intros HW HB Hiw Hsw Hg Hio Hp. pose proof HW as (Hst & _).
  exact (run_plan_good m inp step ne nm Hst Hg Hio Hiw Hsw hs p w t Hp (conj HW HB)).
Qed.

(* no undefined behaviour in a step; the world stays well-formed; every
   snapshot of the trace (the world after each individual action) is
   well-formed *)
Theorem run_step_safe m inp step ne nm w t :
  WF (m_g m) ne nm w -> winv (cinv Basic) w -> inputs_wf (m_g m) inp -> sched_wf m step inp ->
  cfg_ok (m_g m) -> inputs_ok inp ->
  no_ub (fst (run_step m inp step w t)) /\
  (forall tr w' t', fst (run_step m inp step w t) = Ok (tr, w', t') ->
     WF (m_g m) ne nm w' /\ winv (cinv Basic) w') /\
  Forall (fun x => WF (m_g m) ne nm (snd x) /\ winv (cinv Basic) (snd x))
         (snd (run_step m inp step w t)).
Proof.
  intros HW HB Hiw Hsw Hg Hio. pose proof HW as (Hst & _).
  exact (run_step_good m inp step ne nm Hst Hg Hio Hiw Hsw w t (conj HW HB)).
Qed.

(* ---------- Theorem 3: any number of steps ---------- *)
(* CHANGED (added hypothesis): run_many installs the caller's weather raster
   before every step, so those rasters must have one entry per cell too. *)
Lemma good_with_weather m ne nm w wc : opt_len wc (ncells (m_g m)) ->
  good m ne nm w -> good m ne nm (with_weather w wc).
Proof.
  intros Hwc [(Hst & Hh & (D1 & D2 & D3 & D4 & D5 & D6 & D7 & D8)) HB].
  split; [|exact HB]. split; [exact Hst|]. split; [exact Hh|].
  unfold rest_wf, with_weather; cbn [w_disp w_estab w_soil w_weather w_totpop w_other w_temp w_last_index].
  repeat split; assumption.
Qed.

Lemma run_many_good m inp weather ne nm :
  cfg_ok (m_g m) -> (forall s, inputs_ok (inp s)) -> (forall s, inputs_wf (m_g m) (inp s)) ->
  (forall s, opt_len (weather s) (ncells (m_g m))) ->
  forall tapes step w,
    (forall s, step <= s < step + Z.of_nat (length tapes) -> sched_wf m s (inp s)) ->
    good m ne nm w ->
    no_ub (run_many m inp weather tapes step w) /\
    (forall w', run_many m inp weather tapes step w = Ok w' -> good m ne nm w').
Proof.
  intros Hg Hio Hiw Hwe. induction tapes as [|t r IH]; intros step w Hs HG; cbn [run_many].
  - split; [discriminate|]. intros w' [= <-]. exact HG.
  - pose proof HG as [(Hst & _) _].
    assert (Hsw : sched_wf m step (inp step)) by (apply Hs; cbn [length]; lia).
    destruct (run_step_good m (inp step) step ne nm Hst Hg (Hio step) (Hiw step) Hsw
                (with_weather w (weather step)) t (good_with_weather _ _ _ _ _ (Hwe step) HG))
      as (A1 & A2 & _).
    destruct (fst (run_step m (inp step) step (with_weather w (weather step)) t))
      as [[[tr w1] t1]|e] eqn:E.
    + apply IH; [|eapply A2; reflexivity]. intros s Hs'. apply Hs. cbn [length]. lia.
    + split; [intros [= ->]; apply A1; reflexivity|]. intros w' H. discriminate.
Qed.

Theorem run_many_safe m inp weather ne nm tapes step w :
  WF (m_g m) ne nm w -> winv (cinv Basic) w ->
  cfg_ok (m_g m) -> (forall s, inputs_ok (inp s)) -> (forall s, inputs_wf (m_g m) (inp s)) ->
  (forall s, opt_len (weather s) (ncells (m_g m))) ->
  (forall s, step <= s < step + Z.of_nat (length tapes) -> sched_wf m s (inp s)) ->
  no_ub (run_many m inp weather tapes step w) /\
  (forall w', run_many m inp weather tapes step w = Ok w' ->
     WF (m_g m) ne nm w' /\ winv (cinv Basic) w').
Proof.
  intros HW HB Hg Hio Hiw Hwe Hs.
  exact (run_many_good m inp weather ne nm Hg Hio Hiw Hwe tapes step w Hs (conj HW HB)).
Qed.

(* ---------- Theorem 4: counts stay between 0 and the conserved total ---------- *)
Lemma hq_nonneg c : Inv0 c -> 0 <= hq c.
Proof. intros H. unfold Inv0 in H. inv0_destruct H. apply sumZ_nonneg in HE. unfold hq, hosts. lia. Qed.

Lemma sum_hq_ge cs : Forall Inv0 cs -> 0 <= sum_hq cs /\ forall c, In c cs -> hq c <= sum_hq cs.
Proof.
  induction 1 as [|x r Hx _ [IH0 IH]]; cbn [sum_hq]; [split; [lia|intros c []]|].
  pose proof (hq_nonneg x Hx). split; [lia|]. intros c [<-|Hc]; [lia|]. specialize (IH c Hc). lia.
Qed.

Lemma hosts_hq_ge hs : hosts_inv Inv0 hs ->
  0 <= hosts_hq hs /\ forall h, In h hs -> sum_hq (hp_cells h) <= hosts_hq hs.
Proof.
  induction 1 as [|x r Hx _ [IH0 IH]]; cbn [hosts_hq]; [split; [lia|intros h []]|].
  destruct (sum_hq_ge _ Hx) as [S0 _]. split; [lia|]. intros h [<-|Hh]; [lia|]. specialize (IH h Hh). lia.
Qed.

Lemma nonneg_le_sum l : nonneg l -> forall x, In x l -> 0 <= x <= sumZ l.
Proof.
  induction 1 as [|y r Hy Hr IH]; intros x Hin; [destruct Hin|]. cbn [sumZ].
  pose proof (sumZ_nonneg r Hr). destruct Hin as [<-|Hin]; [lia|]. specialize (IH x Hin). lia.
Qed.

(* CHANGED: at level Basic the mortality-tracker cohorts M_k have no upper bound
   (Inv0 only says they are non-negative; the bound sum M_k <= I is the level
   Le / Eq invariant), so M_k <= q is stated for lv <> Basic only; see
   counts_bounded_M_needs_Le below.  With q < 2^31 no int addition or
   subtraction on these counts performed by the modelled operations can
   overflow: every operand and every result is one of the bounded counts. *)
Theorem counts_bounded lv q ne nm w k i c : J lv q ne nm w -> cell_at w k i = Some c ->
  0 <= cS c <= q /\ Forall (fun x => 0 <= x <= q) (cE c) /\ 0 <= cI c <= q /\ 0 <= cR c <= q /\
  Forall (fun x => 0 <= x) (cM c) /\ (lv <> Basic -> Forall (fun x => x <= q) (cM c)) /\
  0 <= cD c <= q /\ 0 <= cTH c <= q /\ 0 <= cTE c <= q.
Proof.
  intros [[HW Hq] _] Hc. apply cell_at_inv in Hc as (h & Hk & Hi).
  pose proof (winv_cell _ _ _ _ _ _ HW Hk Hi) as Pc. pose proof (cinv_Inv0 _ _ Pc) as I0.
  assert (H0 : hosts_inv Inv0 (w_hosts w)).
  { unfold winv, hosts_inv in *. eapply Forall_impl; [|exact HW]. intros h0 Hh0.
    eapply Forall_impl; [|exact Hh0]. intros c0. apply cinv_Inv0. }
  destruct (hosts_hq_ge _ H0) as [_ G1]. specialize (G1 h (nth_error_In _ _ Hk)).
  assert (H1 : Forall Inv0 (hp_cells h)).
  { unfold hosts_inv in H0. rewrite Forall_forall in H0. apply H0. eapply nth_error_In; eauto. }
  destruct (sum_hq_ge _ H1) as [_ G2]. specialize (G2 c (nth_error_In _ _ Hi)).
  assert (Hle : hq c <= q) by (unfold whq in Hq; lia).
  unfold Inv0 in I0. inv0_destruct I0. pose proof (sumZ_nonneg _ HE) as SE.
  unfold hq, hosts in Hle.
  repeat match goal with |- _ /\ _ => split end; try lia.
  - apply Forall_forall. intros x Hx. pose proof (nonneg_le_sum _ HE x Hx). lia.
  - exact HM.
  - intros Hlv. assert (IL : InvLe c).
    { destruct Pc as [_ Pl]. destruct lv; [congruence|exact Pl|apply InvM_InvLe; exact Pl]. }
    unfold InvLe in IL. apply Forall_forall. intros x Hx. pose proof (nonneg_le_sum _ HM x Hx). lia.
Qed.

Corollary counts_bounded_basic q ne nm w k i c : J Basic q ne nm w -> cell_at w k i = Some c ->
  0 <= cS c <= q /\ Forall (fun x => 0 <= x <= q) (cE c) /\ 0 <= cI c <= q /\ 0 <= cR c <= q /\
  Forall (fun x => 0 <= x) (cM c) /\ 0 <= cD c <= q /\ cTH c <= q.
Proof.
  intros HJ Hc. destruct (counts_bounded Basic q ne nm w k i c HJ Hc)
    as (A & B & C & D & E & _ & F & G & _).
  repeat split; try assumption; lia.
Qed.

(* the bound on M_k really needs the level Le invariant *)
Example counts_bounded_M_needs_Le :
  exists w c, J Basic 0 0 1 w /\ cell_at w 0 0 = Some c /\ cM c = [5].
Proof.
  exists (mkworld [mkhp [mkcell 0 [] 0 0 0 [5] 0 0] []] [] [] [] None None None None None 0).
  eexists. split; [|split; reflexivity].
  unfold J, WL, WS, winv, hosts_inv, whq; cbn [w_hosts hosts_hq hp_cells sum_hq].
  split; [split|].
  - repeat constructor; unfold nonneg; cbn; try lia; repeat constructor; lia.
  - unfold hq, hosts; cbn. lia.
  - repeat constructor.
Qed.

(* ---------- Theorem 5: the domain is inhabited ---------- *)
(* a 1 x 2 landscape, one SI host whose exposed-cohort list is EMPTY *)
Definition si_host : hostcfg := mkhostcfg SI 0 false 1 false 1 None.
Definition si_cfg : config :=
  mkconfig 1 2 [si_host] false false 1 None false 0 false false 0 0 0 0.
Definition si_world : world :=
  mkworld [mkhp [mkcell 5 [] 4 0 0 [4; 0] 0 9; mkcell 3 [] 0 0 0 [0; 0] 0 3] [(0, 0); (0, 1)]]
          [0; 0] [0; 0] [] None None None None None 0.

Example si_world_WF : WF si_cfg 0 2 si_world.
Proof.
  unfold WF, static_wf, hosts_wf, rest_wf, host_wf, soil_wf, opt_len, si_cfg, si_world, si_host, ncells, in_grid.
  cbn [g_rows g_cols g_hosts w_hosts w_disp w_estab w_soil w_weather w_totpop w_other w_temp
       w_last_index hp_cells hp_suitable length].
  split; [|split].
  - repeat split; try lia. intros (hc & [<-|[]] & E). discriminate E.
  - split; [reflexivity|]. constructor; [|constructor]. split; [reflexivity|]. split.
    + repeat constructor; cbn; lia.
    + repeat constructor.
  - repeat split; try reflexivity; try exact Logic.I; try lia.
Qed.

Example si_world_nonneg : winv (cinv Basic) si_world.
Proof.
  unfold winv, hosts_inv, si_world; cbn [w_hosts]. repeat constructor; unfold nonneg; cbn; try lia;
    repeat constructor; lia.
Qed.

(* a model configuration, inputs and step for which every hypothesis of
   run_step_safe holds on that world *)
Definition si_model : model_cfg :=
  mkmodelcfg si_cfg false [] false [] [true] true true true false [] false [] false [] 0.
Definition si_inputs : inputs := mkinputs [] [] [12; 3] [([0; 0; 0; 1; 2], 0)] [].

Example si_domain :
  good si_model 0 2 si_world /\ cfg_ok si_cfg /\ inputs_ok si_inputs /\
  inputs_wf si_cfg si_inputs /\ sched_wf si_model 0 si_inputs.
Proof.
  split; [split; [exact si_world_WF|exact si_world_nonneg]|]. split; [|split; [|split]].
  - split; [repeat constructor|]. cbn. split; discriminate.
  - split; [constructor|]. split; [constructor|]. repeat constructor. cbn. lia.
  - unfold inputs_wf, rasters_wf, si_inputs; cbn [in_temperatures in_survival in_treatments in_totpop in_movements].
    split; [constructor|]. split; [constructor|]. split; [constructor|]. split; [reflexivity|].
    constructor; [|constructor]. unfold move_row_wf, in_grid; cbn. lia.
  - unfold sched_wf, in_sched, si_model; cbn. repeat split; try lia; intros; discriminate.
Qed.

Example si_step_never_ub t : no_ub (fst (run_step si_model si_inputs 0 si_world t)).
Proof.
  destruct si_domain as (HG & Hg & Hio & Hiw & Hsw). pose proof HG as [(Hst & _) _].
  exact (proj1 (run_step_good si_model si_inputs 0 0 2 Hst Hg Hio Hiw Hsw si_world t HG)).
Qed.

Print Assumptions act_lethal_safe.
Print Assumptions act_survival_safe.
Print Assumptions act_generate_safe.
Print Assumptions act_disperse_safe.
Print Assumptions act_step_forward_safe.
Print Assumptions act_overpopulation_safe.
Print Assumptions act_movement_safe.
Print Assumptions act_treatments_safe.
Print Assumptions act_mortality_safe.
Print Assumptions act_soil_next_safe.
Print Assumptions plan_no_ub.
Print Assumptions run_action_safe.
Print Assumptions run_plan_safe.
Print Assumptions run_step_safe.
Print Assumptions run_many_safe.
Print Assumptions counts_bounded.
Print Assumptions si_world_WF.
Print Assumptions si_step_never_ub.
