(* Property C05, last sentence: "With L = 0 the SEI model produces exactly the
   same trajectory as the SI model for the same seed" - for whole steps and
   whole runs of the model, for every tape of random outcomes (the tape is the
   model's stand-in for the seed: both runs consume the same outcomes).

   Two runs are compared: one with a configuration whose hosts all have
   h_mt = SI, one with the same configuration except that every host has
   h_mt = SEI and h_latency = 0.  Both start from the same world, in which
   every cell has exactly one, empty, exposed cohort (zeroE) and at least one
   mortality cohort (mort_cohorts).  The two worlds are equal after every action
   except directly after ADisperse, where they are related by [midw]: the SEI
   run holds the newly established hosts in its exposed cohort, the SI run has
   already counted them as infected; the AStepForward that follows in the same
   step makes the worlds equal again.

   Main statements (section 8): L0_step_agrees_strong / L0_step_agrees (final
   world, remaining tape and error kind of one run_step), L0_step_snapshots
   (the per-action trace), L0_run_agrees (run_many), L0_step_rasters_agrees /
   L0_run_rasters_agrees (raster entry point).  The hypothesis mort_cohorts
   cannot be dropped: mort_cohorts_needed (section 9) is a world without
   mortality cohorts on which the SI step completes and the SEI step is
   undefined behaviour in step_forward. *)
From Coq Require Import ZArith QArith List Bool Lia ZifyBool.
From Pops Require Import Err Rounding RoundingProps CellDefs CellProps MoveProps LandDefs MonadProps
     LandProps ShapeProps LandProps2 SchedDefs SchedProps ModelDefs ModelProps RunProps PestProps.
Import ListNotations.
Local Open Scope Z_scope.

(* ================================================================== *)
(* 1. the two configurations, the worlds                               *)
(* ================================================================== *)
Definition hc_pair (h_si h_sei : hostcfg) : Prop :=
  h_mt h_si = SI /\ h_mt h_sei = SEI /\ h_latency h_sei = 0 /\
  h_disp_stoch h_sei = h_disp_stoch h_si /\ h_rr h_sei = h_rr h_si /\
  h_est_stoch h_sei = h_est_stoch h_si /\ h_est_prob h_sei = h_est_prob h_si /\
  h_pht h_sei = h_pht h_si.

(* g with another list of host configurations *)
Definition with_ghosts (g : config) (hs : list hostcfg) : config :=
  mkconfig (g_rows g) (g_cols g) hs (g_arrival_land g) (g_est_stoch g) (g_est_prob g)
           (g_competency g) (g_weather g) (g_soil_pct g) (g_soil_gen_stoch g) (g_soil_est_stoch g)
           (g_soil_est_prob g) (g_overpop_pct g) (g_leaving_pct g) (g_lethal_temp g).

Definition mt_pair (g_si g_sei : config) : Prop :=
  Forall2 hc_pair (g_hosts g_si) (g_hosts g_sei) /\ g_sei = with_ghosts g_si (g_hosts g_sei).

(* the same, field by field *)
Lemma mt_pair_fields g_si g_sei : mt_pair g_si g_sei <->
  Forall2 hc_pair (g_hosts g_si) (g_hosts g_sei) /\
  g_rows g_sei = g_rows g_si /\ g_cols g_sei = g_cols g_si /\
  g_arrival_land g_sei = g_arrival_land g_si /\ g_est_stoch g_sei = g_est_stoch g_si /\
  g_est_prob g_sei = g_est_prob g_si /\ g_competency g_sei = g_competency g_si /\
  g_weather g_sei = g_weather g_si /\ g_soil_pct g_sei = g_soil_pct g_si /\
  g_soil_gen_stoch g_sei = g_soil_gen_stoch g_si /\ g_soil_est_stoch g_sei = g_soil_est_stoch g_si /\
  g_soil_est_prob g_sei = g_soil_est_prob g_si /\ g_overpop_pct g_sei = g_overpop_pct g_si /\
  g_leaving_pct g_sei = g_leaving_pct g_si /\ g_lethal_temp g_sei = g_lethal_temp g_si.
Proof.
  unfold mt_pair, with_ghosts. split.
  - intros [HF E]. split; [exact HF|]. rewrite E. cbn. repeat split; reflexivity.
  - intros (HF & E1 & E2 & E3 & E4 & E5 & E6 & E7 & E8 & E9 & E10 & E11 & E12 & E13 & E14).
    split; [exact HF|]. destruct g_sei. cbn in *. subst. reflexivity.
Qed.

(* m with another landscape configuration *)
Definition with_mg (m : model_cfg) (g : config) : model_cfg :=
  mkmodelcfg g (m_use_lethal m) (m_lethal_schedule m) (m_use_survival m) (m_survival_schedule m)
    (m_spread_schedule m) (m_use_overpop m) (m_use_movements m) (m_use_treatments m)
    (m_use_mortality m) (m_mortality_schedule m) (m_use_spreadrates m)
    (m_spread_rate_schedule m) (m_use_quarantine m) (m_quarantine_schedule m) (m_rate_capacity m).

Definition m_pair (m_si m_sei : model_cfg) : Prop :=
  mt_pair (m_g m_si) (m_g m_sei) /\ m_sei = with_mg m_si (m_g m_sei).

Lemma m_pair_fields m_si m_sei : m_pair m_si m_sei <->
  mt_pair (m_g m_si) (m_g m_sei) /\
  m_use_lethal m_sei = m_use_lethal m_si /\ m_lethal_schedule m_sei = m_lethal_schedule m_si /\
  m_use_survival m_sei = m_use_survival m_si /\ m_survival_schedule m_sei = m_survival_schedule m_si /\
  m_spread_schedule m_sei = m_spread_schedule m_si /\ m_use_overpop m_sei = m_use_overpop m_si /\
  m_use_movements m_sei = m_use_movements m_si /\ m_use_treatments m_sei = m_use_treatments m_si /\
  m_use_mortality m_sei = m_use_mortality m_si /\ m_mortality_schedule m_sei = m_mortality_schedule m_si /\
  m_use_spreadrates m_sei = m_use_spreadrates m_si /\
  m_spread_rate_schedule m_sei = m_spread_rate_schedule m_si /\
  m_use_quarantine m_sei = m_use_quarantine m_si /\
  m_quarantine_schedule m_sei = m_quarantine_schedule m_si /\
  m_rate_capacity m_sei = m_rate_capacity m_si.
Proof.
  unfold m_pair, with_mg. split.
  - intros [HF E]. split; [exact HF|]. rewrite E. cbn. repeat split; reflexivity.
  - intros (HF & E1 & E2 & E3 & E4 & E5 & E6 & E7 & E8 & E9 & E10 & E11 & E12 & E13 & E14 & E15).
    split; [exact HF|]. destruct m_sei. cbn in *. subst. reflexivity.
Qed.

(* one exposed cohort, empty: the shape the C++ requires for SEI with latency 0
   (latency + 1 cohorts); the SI run carries it along untouched *)
Definition zc (c : cell) : Prop := cE c = [0] /\ cTE c = 0.
Definition zeroE (w : world) : Prop := winv zc w.
(* n + 1 mortality cohorts in every cell (the tracker is a vector of rasters) *)
Definition mort_cohorts (n : nat) (w : world) : Prop := winv (fun c => length (cM c) = S n) w.

(* the invariant of the SI run *)
Definition G (nm : nat) (w : world) : Prop := zeroE w /\ WS 1 (S nm) w.

Lemma G_intro nm w : zeroE w -> mort_cohorts nm w -> G nm w.
Proof.
  intros HZ HM. split; [exact HZ|]. unfold zeroE, mort_cohorts, WS, winv, hosts_inv in *.
  rewrite Forall_forall in *. intros h Hh. specialize (HZ h Hh). specialize (HM h Hh).
  rewrite Forall_forall in *. intros c Hc. destruct (HZ c Hc) as [E _]. split; [rewrite E; reflexivity|].
  exact (HM c Hc).
Qed.

Lemma G_hosts_only nm : hosts_only (G nm).
Proof. intros w w' E [A B]. split; [exact (winv_hosts_only _ _ _ E A)|exact (winv_hosts_only _ _ _ E B)]. Qed.

(* the relation between the SEI world (first) and the SI world (second) between
   ADisperse and AStepForward *)
Definition cell_mid (c_sei c_si : cell) : Prop :=
  cS c_sei = cS c_si /\ cR c_sei = cR c_si /\ cD c_sei = cD c_si /\ cTH c_sei = cTH c_si /\
  cE c_si = [0] /\ cTE c_si = 0 /\
  exists x, cE c_sei = [x] /\ cTE c_sei = x /\ cI c_si = cI c_sei + x /\
            add_last (cM c_sei) x = Ok (cM c_si).
Definition hp_mid (h_sei h_si : hostpool) : Prop :=
  hp_suitable h_sei = hp_suitable h_si /\ Forall2 cell_mid (hp_cells h_sei) (hp_cells h_si).
Definition fields_eq (w1 w2 : world) : Prop :=
  w_disp w1 = w_disp w2 /\ w_estab w1 = w_estab w2 /\ w_outside w1 = w_outside w2 /\
  w_soil w1 = w_soil w2 /\ w_weather w1 = w_weather w2 /\ w_totpop w1 = w_totpop w2 /\
  w_other w1 = w_other w2 /\ w_temp w1 = w_temp w2 /\ w_last_index w1 = w_last_index w2.
Definition midw (w_sei w_si : world) : Prop :=
  Forall2 hp_mid (w_hosts w_sei) (w_hosts w_si) /\ fields_eq w_sei w_si.
(* ... with a total-population raster in place (AGenerate has just set it) *)
Definition midt (w_sei w_si : world) : Prop := midw w_sei w_si /\ w_totpop w_si <> None.

(* ================================================================== *)
(* 2. relational triples over the state-and-tape monad                 *)
(* ================================================================== *)
(* Both programs are run on R-related worlds and THE SAME tape: either both
   fail with the same error, or both succeed with Qr-related results, the same
   remaining tape and R-related worlds. *)
Definition rres {A} (Qr : A -> A -> Prop) (r1 r2 : result A) : Prop :=
  match r1, r2 with
  | Ok a, Ok b => Qr a b
  | Err e1, Err e2 => e1 = e2
  | _, _ => False
  end.

Definition rel2 {A} (R : world -> world -> Prop) (m1 m2 : W A) (Qr : A -> A -> Prop) : Prop :=
  forall w1 w2 t, R w1 w2 ->
    match m1 w1 t, m2 w2 t with
    | Ok (a1, w1', t1), Ok (a2, w2', t2) => Qr a1 a2 /\ t1 = t2 /\ R w1' w2'
    | Err e1, Err e2 => e1 = e2
    | _, _ => False
    end.

Section Rel2.
Variable R : world -> world -> Prop.

Lemma rel2_ret {A} (a b : A) (Qr : A -> A -> Prop) : Qr a b -> rel2 R (ret a) (ret b) Qr.
Proof. intros H w1 w2 t HR. cbn. auto. Qed.

Lemma rel2_fail {A} e (Qr : A -> A -> Prop) : rel2 R (fail e) (fail e) Qr.
Proof. intros w1 w2 t HR. reflexivity. Qed.

Lemma rel2_bind {A B} (m1 m2 : W A) (f1 f2 : A -> W B) Q1 Qr :
  rel2 R m1 m2 Q1 -> (forall a b, Q1 a b -> rel2 R (f1 a) (f2 b) Qr) ->
  rel2 R (mbind m1 f1) (mbind m2 f2) Qr.
Proof.
  intros Hm Hf w1 w2 t HR. unfold mbind. specialize (Hm w1 w2 t HR).
  destruct (m1 w1 t) as [[[a1 w1'] t1]|e1], (m2 w2 t) as [[[a2 w2'] t2]|e2]; try contradiction; [|exact Hm].
  destruct Hm as (HQ & <- & HR'). exact (Hf a1 a2 HQ w1' w2' t1 HR').
Qed.

Lemma rel2_conseq {A} (m1 m2 : W A) (Q1 Q2 : A -> A -> Prop) :
  rel2 R m1 m2 Q1 -> (forall a b, Q1 a b -> Q2 a b) -> rel2 R m1 m2 Q2.
Proof.
  intros Hm HQ w1 w2 t HR. specialize (Hm w1 w2 t HR).
  destruct (m1 w1 t) as [[[a1 w1'] t1]|e1], (m2 w2 t) as [[[a2 w2'] t2]|e2]; try contradiction; [|exact Hm].
  destruct Hm as (H1 & H2 & H3). auto.
Qed.

Lemma rel2_lift {A} (r1 r2 : result A) Qr : rres Qr r1 r2 -> rel2 R (lift r1) (lift r2) Qr.
Proof. intros H w1 w2 t HR. unfold lift. destruct r1, r2; cbn in *; try contradiction; auto. Qed.

Lemma rel2_lift_eq {A} (r : result A) : rel2 R (lift r) (lift r) eq.
Proof. apply rel2_lift. destruct r; cbn; reflexivity. Qed.

Lemma rel2_pop : rel2 R pop pop eq.
Proof. intros w1 w2 t HR. unfold pop. destruct t; auto. Qed.

Lemma rel2_get : rel2 R get get R.
Proof. intros w1 w2 t HR. cbn. auto. Qed.

Lemma rel2_put a b : R a b -> rel2 R (put a) (put b) eq.
Proof. intros H w1 w2 t HR. cbn. auto. Qed.

Lemma rel2_mfold {A} (f1 f2 : A -> W unit) l :
  (forall a, rel2 R (f1 a) (f2 a) eq) -> rel2 R (mfold f1 l) (mfold f2 l) eq.
Proof.
  intros Hf. induction l as [|a r IH]; cbn [mfold]; [apply rel2_ret; reflexivity|].
  eapply rel2_bind; [apply Hf|]. intros ? ? _. exact IH.
Qed.

Lemma rel2_mrepeat (m1 m2 : W unit) n : rel2 R m1 m2 eq -> rel2 R (mrepeat n m1) (mrepeat n m2) eq.
Proof.
  intros Hm. induction n as [|n IH]; cbn [mrepeat]; [apply rel2_ret; reflexivity|].
  eapply rel2_bind; [exact Hm|]. intros ? ? _. exact IH.
Qed.

Lemma rel2_for_hosts (f1 f2 : nat -> W unit) :
  (forall j, rel2 R (f1 j) (f2 j) eq) -> forall n k, rel2 R (for_hosts k n f1) (for_hosts k n f2) eq.
Proof.
  intros Hf n. induction n as [|n IH]; intros k; cbn [for_hosts]; [apply rel2_ret; reflexivity|].
  eapply rel2_bind; [apply Hf|]. intros ? ? _. apply IH.
Qed.

Lemma rel2_all_hosts (f1 f2 : nat -> W unit) :
  rel2 R num_hosts num_hosts eq -> (forall j, rel2 R (f1 j) (f2 j) eq) ->
  rel2 R (all_hosts f1) (all_hosts f2) eq.
Proof.
  intros Hn Hf. unfold all_hosts. eapply rel2_bind; [exact Hn|]. intros n ? <-.
  apply rel2_for_hosts. exact Hf.
Qed.

(* the index computation only reads rows and columns *)
Lemma rel2_for_suitable g1 g2 (f1 f2 : Z -> Z -> nat -> W unit) :
  (forall r c, idx_of g1 r c = idx_of g2 r c) ->
  rel2 R suitable_cells suitable_cells eq ->
  (forall r c i, rel2 R (f1 r c i) (f2 r c i) eq) ->
  rel2 R (for_suitable g1 f1) (for_suitable g2 f2) eq.
Proof.
  intros Hidx Hs Hf. unfold for_suitable. eapply rel2_bind; [exact Hs|]. intros cells ? <-.
  apply rel2_mfold. intros rc. rewrite Hidx.
  eapply rel2_bind; [apply rel2_lift_eq|]. intros i ? <-. apply Hf.
Qed.

(* the host configurations are read by index; the world plays no role *)
Lemma rel2_host_cfg g_sei g_si k : Forall2 hc_pair (g_hosts g_si) (g_hosts g_sei) ->
  rel2 R (host_cfg g_sei k) (host_cfg g_si k) (fun a b => hc_pair b a).
Proof.
  intros HF. unfold host_cfg. apply rel2_lift. unfold rget.
  revert k. induction HF as [|x y l1 l2 Hxy _ IH]; intros [|k]; cbn; try reflexivity.
  - exact Hxy.
  - apply IH.
Qed.
End Rel2.

(* equal worlds: every program is related to itself *)
Lemma rel2_eq_refl {A} (m : W A) : rel2 eq m m eq.
Proof. intros w1 w2 t <-. destruct (m w1 t) as [[[a w'] t']|e]; auto. Qed.

(* list facts for the related-worlds leaves *)
Lemma F2_rget {A} (P : A -> A -> Prop) l1 l2 : Forall2 P l1 l2 -> forall i, rres P (rget l1 i) (rget l2 i).
Proof.
  intros HF. unfold rget. induction HF as [|x y r1 r2 Hxy _ IH]; intros [|i]; cbn [nth_error rres]; auto.
Qed.

Lemma F2_rset {A} (P : A -> A -> Prop) l1 l2 : Forall2 P l1 l2 -> forall i a b, P a b ->
  rres (Forall2 P) (rset l1 i a) (rset l2 i b).
Proof.
  intros HF. induction HF as [|x y r1 r2 Hxy HF IH]; intros i a b Hab; cbn [rset rres]; [reflexivity|].
  destruct i as [|i]; cbn [rres]; [constructor; assumption|].
  specialize (IH i a b Hab). destruct (rset r1 i a), (rset r2 i b); cbn [bind rres] in *; try contradiction.
  - constructor; assumption.
  - exact IH.
Qed.

(* ================================================================== *)
(* 3. actions that never look at the model type: equal worlds, equal     *)
(*    results                                                           *)
(* ================================================================== *)
Lemma rel2_eq_out {A} (m1 m2 : W A) : rel2 eq m1 m2 eq -> forall w t, m1 w t = m2 w t.
Proof.
  intros H w t. specialize (H w w t eq_refl).
  destruct (m1 w t) as [[[a1 w1] t1]|e1], (m2 w t) as [[[a2 w2] t2]|e2]; try contradiction.
  - destruct H as (-> & -> & ->). reflexivity.
  - rewrite H. reflexivity.
Qed.

Ltac hc_use H :=
  let E1 := fresh "E" in let E2 := fresh "E" in let E3 := fresh "E" in let E4 := fresh "E" in
  let E5 := fresh "E" in let M1 := fresh "Hmt" in let M2 := fresh "Hmt" in let L := fresh "Hlat" in
  cbv beta in H; destruct H as (M1 & M2 & L & E1 & E2 & E3 & E4 & E5);
  rewrite ?E1, ?E2, ?E3, ?E4, ?E5.

Section EqualWorlds.
Variable g : config.
Variable hs : list hostcfg.
Hypothesis Hhs : Forall2 hc_pair (g_hosts g) hs.
Notation g' := (with_ghosts g hs).

Lemma host_dispersers_from_agrees k i :
  rel2 eq (host_dispersers_from g' k i) (host_dispersers_from g k i) eq.
Proof.
  unfold host_dispersers_from.
  eapply rel2_bind; [apply rel2_eq_refl|]. intros c ? <-.
  eapply rel2_bind; [apply rel2_eq_refl|]. intros e ? <-.
  destruct e; try apply rel2_fail.
  destruct (cI c <=? 0); [apply rel2_fail|].
  eapply rel2_bind; [apply rel2_host_cfg; exact Hhs|]. intros hc2 hc1 H. hc_use H.
  apply rel2_eq_refl.
Qed.

Lemma multi_dispersers_from_agrees i :
  rel2 eq (multi_dispersers_from g' i) (multi_dispersers_from g i) eq.
Proof.
  unfold multi_dispersers_from.
  eapply rel2_bind; [apply rel2_eq_refl|]. intros n ? <-.
  match goal with |- rel2 _ (?F1 0%nat n 0) (?F2 0%nat n 0) _ =>
    assert (HF : forall m k acc, rel2 eq (F1 k m acc) (F2 k m acc) eq); [|apply HF] end.
  induction m as [|m IH]; intros k acc; [apply rel2_eq_refl|].
  eapply rel2_bind; [apply rel2_eq_refl|]. intros c ? <-.
  eapply rel2_bind; [|intros d ? <-; apply IH].
  destruct (cI c <=? 0); [apply rel2_eq_refl|apply host_dispersers_from_agrees].
Qed.

Theorem act_generate_agrees : rel2 eq (act_generate g') (act_generate g) eq.
Proof.
  unfold act_generate. apply rel2_for_suitable; [reflexivity|apply rel2_eq_refl|]. intros r c i.
  eapply rel2_bind; [apply multi_dispersers_from_agrees|]. intros d ? <-.
  apply rel2_eq_refl.
Qed.

Theorem act_mortality_agrees : rel2 eq (act_mortality g') (act_mortality g) eq.
Proof.
  unfold act_mortality. eapply rel2_bind; [|intros ? ? _; apply rel2_eq_refl].
  apply rel2_for_suitable; [reflexivity|apply rel2_eq_refl|]. intros r c i.
  apply rel2_all_hosts; [apply rel2_eq_refl|]. intros k.
  eapply rel2_bind; [apply rel2_host_cfg; exact Hhs|]. intros hc2 hc1 H. hc_use H.
  apply rel2_eq_refl.
Qed.

(* the remaining actions do not read the host configurations at all: the two
   programs are convertible *)
Lemma act_lethal_same : act_lethal g' = act_lethal g. Proof. reflexivity. Qed.
Lemma act_survival_same r : act_survival g' r = act_survival g r. Proof. reflexivity. Qed.
Lemma act_overpopulation_same : act_overpopulation g' = act_overpopulation g. Proof. reflexivity. Qed.
Lemma movement_loop_same step : forall rows i, movement_loop g' step rows i = movement_loop g step rows i.
Proof.
  induction rows as [|[mv sched] r IH]; intros i; cbn [movement_loop]; [reflexivity|].
  destruct (negb _); [reflexivity|].
  destruct mv as [|rf [|cf [|rt [|ct [|count [|x mv]]]]]]; try reflexivity.
  rewrite IH. reflexivity.
Qed.
Lemma act_movement_same step mv w t : act_movement g' step mv w t = act_movement g step mv w t.
Proof. unfold act_movement, mbind, get. rewrite movement_loop_same. reflexivity. Qed.
Lemma act_treatments_same ts step : act_treatments g' ts step = act_treatments g ts step. Proof. reflexivity. Qed.
End EqualWorlds.

(* ================================================================== *)
(* 4. ADisperse: the SEI run and the SI run stay [midt]-related          *)
(* ================================================================== *)
(* ---- cells ---- *)
Lemma cell_mid_refl nm c : zc c -> shape 1 (S nm) c -> cell_mid c c.
Proof.
  intros [HE HT] [_ HM]. unfold cell_mid. repeat (split; [reflexivity|]).
  split; [exact HE|]. split; [exact HT|]. exists 0.
  split; [exact HE|]. split; [exact HT|]. split; [lia|].
  assert (Hne : cM c <> []) by (intros E; rewrite E in HM; discriminate).
  destruct (add_last_ok (cM c) 0 Hne) as [l' Hl]. rewrite Hl.
  destruct (add_last_inv _ _ _ Hl) as (init & y & E1 & E2). rewrite E1, E2, Z.add_0_r. reflexivity.
Qed.

(* one landing disperser: exposed in the SEI cell, infected in the SI cell *)
Lemma add_disperser_mid c1 c2 : cell_mid c1 c2 ->
  rres (fun r1 r2 => cell_mid (fst r1) (fst r2) /\ snd r1 = snd r2)
       (add_disperser SEI c1) (add_disperser SI c2).
Proof.
  intros (HS & HR & HD & HTH & HE2 & HT2 & x & HE1 & HT1 & HI & HM).
  unfold add_disperser. rewrite HS. destruct (cS c2 <=? 0); cbn [rres fst snd].
  - split; [|reflexivity]. unfold cell_mid. repeat (split; [assumption|]). exists x. auto.
  - rewrite HE1. cbn [add_last bind].
    destruct (add_last_inv _ _ _ HM) as (init & y & E1 & E2). rewrite E2, add_last_app. cbn [bind rres fst snd].
    split; [|reflexivity]. unfold cell_mid. cbn [cS cE cI cTE cR cM cD cTH].
    split; [congruence|]. repeat (split; [assumption|]). exists (x + 1).
    split; [reflexivity|]. split; [lia|]. split; [lia|].
    rewrite E1, add_last_app. do 3 f_equal. lia.
Qed.

(* the latency-0 shift turns the SEI cell into the SI cell *)
Lemma step_forward_mid step c1 c2 : 0 <= step -> cell_mid c1 c2 -> step_forward SEI 0 step c1 = Ok c2.
Proof.
  intros Hs (HS & HR & HD & HTH & HE2 & HT2 & x & HE1 & HT1 & HI & HM).
  unfold step_forward. rewrite HE1.
  destruct (Z.geb_spec step 0) as [_|Hlt]; [|lia]. rewrite HM. cbn [bind app].
  destruct c2 as [s2 e2 i2 te2 r2 m2 d2 th2]. cbn [cS cE cI cTE cR cM cD cTH] in *. subst.
  f_equal. f_equal; lia.
Qed.

(* ---- worlds ---- *)
Lemma midt_refl nm w : G nm w -> w_totpop w <> None -> midt w w.
Proof.
  intros [HZ HW] Ht. split; [|exact Ht]. split; [|unfold fields_eq; repeat split; reflexivity].
  unfold zeroE, WS, winv, hosts_inv in *. induction (w_hosts w) as [|h r IH]; [constructor|].
  inversion HZ as [|? ? Z1 Z2]; inversion HW as [|? ? W1 W2]; subst. constructor; [|apply IH; assumption].
  split; [reflexivity|]. clear - Z1 W1. induction (hp_cells h) as [|c cs IHc]; [constructor|].
  inversion Z1; inversion W1; subst. constructor; [eapply cell_mid_refl; eassumption|apply IHc; assumption].
Qed.

Lemma midt_fields w1 w2 : midt w1 w2 -> fields_eq w1 w2.
Proof. intros [[_ H] _]. exact H. Qed.

Ltac mid_use H :=
  let F1 := fresh "F" in let F2 := fresh "F" in let F3 := fresh "F" in let F4 := fresh "F" in
  let F5 := fresh "F" in let F6 := fresh "F" in let F7 := fresh "F" in let F8 := fresh "F" in
  let F9 := fresh "F" in
  destruct (midt_fields _ _ H) as (F1 & F2 & F3 & F4 & F5 & F6 & F7 & F8 & F9);
  rewrite ?F1, ?F2, ?F3, ?F4, ?F5, ?F6, ?F7, ?F8, ?F9.

Lemma midt_upd_outside a b x : midt a b -> midt (upd_outside a x) (upd_outside b x).
Proof.
  intros [[Hh (F1 & F2 & F3 & F4 & F5 & F6 & F7 & F8 & F9)] Ht].
  split; [split; [exact Hh|]|exact Ht]. unfold fields_eq; cbn. repeat split; assumption.
Qed.
Lemma midt_upd_estab a b x : midt a b -> midt (upd_estab a x) (upd_estab b x).
Proof.
  intros [[Hh (F1 & F2 & F3 & F4 & F5 & F6 & F7 & F8 & F9)] Ht].
  split; [split; [exact Hh|]|exact Ht]. unfold fields_eq; cbn. repeat split; assumption.
Qed.
Lemma midt_upd_soil a b x : midt a b -> midt (upd_soil a x) (upd_soil b x).
Proof.
  intros [[Hh (F1 & F2 & F3 & F4 & F5 & F6 & F7 & F8 & F9)] Ht].
  split; [split; [exact Hh|]|exact Ht]. unfold fields_eq; cbn. repeat split; assumption.
Qed.
Lemma midt_with_hosts a b h1 h2 : midt a b -> Forall2 hp_mid h1 h2 -> midt (with_hosts a h1) (with_hosts b h2).
Proof.
  intros [[Hh (F1 & F2 & F3 & F4 & F5 & F6 & F7 & F8 & F9)] Ht] HF.
  split; [split; [exact HF|]|exact Ht]. unfold fields_eq; cbn. repeat split; assumption.
Qed.

(* ---- leaves ---- *)
Lemma num_hosts_mid : rel2 midt num_hosts num_hosts eq.
Proof.
  intros w1 w2 t H. cbn. split; [|split; [reflexivity|exact H]].
  destruct H as [[Hh _] _]. induction Hh as [|x y l1 l2 _ _ IH]; cbn [length]; [reflexivity|f_equal; exact IH].
Qed.

Lemma get_host_mid k : rel2 midt (get_host k) (get_host k) hp_mid.
Proof.
  unfold get_host. eapply rel2_bind; [apply rel2_get|]. intros a b H.
  apply rel2_lift, F2_rget. destruct H as [[Hh _] _]. exact Hh.
Qed.

Lemma suitable_cells_mid : rel2 midt suitable_cells suitable_cells eq.
Proof.
  unfold suitable_cells. eapply rel2_bind; [apply get_host_mid|]. intros h1 h2 [Hs _].
  apply rel2_ret. exact Hs.
Qed.

Lemma get_cell_mid k i : rel2 midt (get_cell k i) (get_cell k i) cell_mid.
Proof.
  unfold get_cell. eapply rel2_bind; [apply get_host_mid|]. intros h1 h2 [_ Hc].
  apply rel2_lift, F2_rget. exact Hc.
Qed.

Lemma set_host_mid k h1 h2 : hp_mid h1 h2 -> rel2 midt (set_host k h1) (set_host k h2) eq.
Proof.
  intros Hh. unfold set_host. eapply rel2_bind; [apply rel2_get|]. intros a b H.
  eapply rel2_bind; [apply rel2_lift, F2_rset; [destruct H as [[H0 _] _]; exact H0|exact Hh]|].
  intros l1 l2 HF. apply rel2_put. exact (midt_with_hosts _ _ _ _ H HF).
Qed.

Lemma set_cell_mid k i c1 c2 : cell_mid c1 c2 -> rel2 midt (set_cell k i c1) (set_cell k i c2) eq.
Proof.
  intros Hc. unfold set_cell. eapply rel2_bind; [apply get_host_mid|]. intros h1 h2 [Hs Hcs].
  eapply rel2_bind; [apply rel2_lift, F2_rset; [exact Hcs|exact Hc]|]. intros l1 l2 HF.
  apply set_host_mid. split; [exact Hs|exact HF].
Qed.

Lemma weather_at_mid i : rel2 midt (weather_at i) (weather_at i) eq.
Proof.
  unfold weather_at. eapply rel2_bind; [apply rel2_get|]. intros a b H. mid_use H.
  destruct (w_weather b); [apply rel2_lift_eq|apply rel2_fail].
Qed.

Lemma total_population_at_mid i : rel2 midt (total_population_at i) (total_population_at i) eq.
Proof.
  unfold total_population_at. eapply rel2_bind; [apply rel2_get|]. intros a b H. mid_use H.
  destruct (w_totpop b) eqn:E; [apply rel2_lift_eq|]. destruct H as [_ Ht]. congruence.
Qed.

Lemma set_estab_mid i v : rel2 midt (set_raster_at w_estab upd_estab i v) (set_raster_at w_estab upd_estab i v) eq.
Proof.
  unfold set_raster_at. eapply rel2_bind; [apply rel2_get|]. intros a b H. mid_use H.
  eapply rel2_bind; [apply rel2_lift_eq|]. intros r ? <-. apply rel2_put, midt_upd_estab, H.
Qed.

Lemma cm_S c1 c2 : cell_mid c1 c2 -> cS c1 = cS c2.
Proof. intros H. apply H. Qed.

(* ---- walking through two programs of the same shape ---- *)
Ltac r2_more := fail.
Ltac r2_leaf :=
  lazymatch goal with
  | |- rel2 _ pop pop _ => apply rel2_pop
  | |- rel2 _ get get _ => apply rel2_get
  | |- rel2 _ (lift ?r) (lift ?r) _ => apply rel2_lift_eq
  | |- rel2 _ (fail _) (fail _) _ => apply rel2_fail
  | |- rel2 _ (ret ?a) (ret ?a) _ => apply rel2_ret; reflexivity
  | |- rel2 _ num_hosts num_hosts _ => apply num_hosts_mid
  | |- rel2 _ (get_cell _ _) (get_cell _ _) _ => apply get_cell_mid
  | |- rel2 _ (weather_at _) (weather_at _) _ => apply weather_at_mid
  | |- rel2 _ (total_population_at _) (total_population_at _) _ => apply total_population_at_mid
  | |- rel2 _ (set_raster_at w_estab upd_estab _ _) (set_raster_at w_estab upd_estab _ _) _ => apply set_estab_mid
  | |- rel2 _ suitable_cells suitable_cells _ => apply suitable_cells_mid
  | |- rel2 _ (host_cfg _ _) (host_cfg _ _) _ => apply rel2_host_cfg; eassumption
  | |- _ => r2_more
  end.
Ltac r2_intro :=
  let a := fresh "a" in let b := fresh "b" in let H := fresh "H" in
  intros a b H;
  lazymatch type of H with
  | _ = _ => subst b
  | cell_mid _ _ => rewrite ?(cm_S _ _ H)
  | midt _ _ => mid_use H
  | _ => try hc_use H
  end.
Ltac r2 :=
  lazymatch goal with
  | |- rel2 _ (mbind _ _) (mbind _ _) _ =>
    first [ eapply rel2_bind; [ solve [r2_leaf] | r2_intro; r2 ]
          | eapply (rel2_bind _ _ _ _ _ eq); [ r2 | r2_intro; r2 ] ]
  | |- rel2 _ (match ?x with _ => _ end) (match ?x with _ => _ end) _ => destruct x; r2
  | |- rel2 _ (ret _) (ret _) _ => apply rel2_ret; try reflexivity
  | |- rel2 _ (fail _) (fail _) _ => apply rel2_fail
  | |- rel2 _ (for_hosts _ _ _) (for_hosts _ _ _) _ => apply rel2_for_hosts; intros ?; r2
  | |- rel2 _ (mrepeat _ _) (mrepeat _ _) _ => apply rel2_mrepeat; r2
  | |- rel2 _ (mfold _ _) (mfold _ _) _ => apply rel2_mfold; intros ?; r2
  | |- rel2 _ (put _) (put _) _ =>
    apply rel2_put; first [apply midt_upd_soil | apply midt_upd_outside | apply midt_upd_estab]; assumption
  | |- rel2 _ _ _ _ => try solve [r2_leaf]
  | |- _ => idtac
  end.

Lemma can_establish_mid p s d : rel2 midt (can_establish p s d) (can_establish p s d) eq.
Proof. unfold can_establish. r2. Qed.

Lemma pick_host_mid ws : rel2 midt (pick_host ws) (pick_host ws) eq.
Proof. unfold pick_host. r2. Qed.

Lemma pop_draw_mid k : rel2 midt (pop_draw k) (pop_draw k) eq.
Proof. unfold pop_draw. r2. Qed.

Ltac r2_more ::=
  lazymatch goal with
  | |- rel2 _ (can_establish _ _ _) (can_establish _ _ _) _ => apply can_establish_mid
  | |- rel2 _ (pick_host _) (pick_host _) _ => apply pick_host_mid
  | |- rel2 _ (pop_draw _) (pop_draw _) _ => apply pop_draw_mid
  end.

Section Disperse.
Variable g : config.
Variable hs : list hostcfg.
Hypothesis Hhs : Forall2 hc_pair (g_hosts g) hs.
Notation g' := (with_ghosts g hs).

Ltac gnorm :=
  try change (g_weather g') with (g_weather g);
  try change (g_arrival_land g') with (g_arrival_land g);
  try change (g_est_stoch g') with (g_est_stoch g);
  try change (g_est_prob g') with (g_est_prob g);
  try change (g_soil_gen_stoch g') with (g_soil_gen_stoch g);
  try change (is_outside g') with (is_outside g);
  try change (idx_of g') with (idx_of g).

Lemma suitability_at_mid k i : rel2 midt (suitability_at g' k i) (suitability_at g k i) eq.
Proof. unfold suitability_at. gnorm. r2. Qed.

Lemma suitabilities_mid i : forall n k, rel2 midt (suitabilities g' i k n) (suitabilities g i k n) eq.
Proof.
  induction n as [|n IH]; intros k; cbn [suitabilities]; [apply rel2_ret; reflexivity|].
  eapply rel2_bind; [apply suitability_at_mid|]. intros s ? <-.
  eapply rel2_bind; [apply IH|]. intros r ? <-. apply rel2_ret. reflexivity.
Qed.

Lemma host_add_disperser_mid k i : rel2 midt (host_add_disperser g' k i) (host_add_disperser g k i) eq.
Proof.
  unfold host_add_disperser.
  eapply rel2_bind; [apply get_cell_mid|]. intros c1 c2 Hc.
  eapply rel2_bind; [apply rel2_host_cfg; exact Hhs|]. intros hc2 hc1 (M1 & M2 & _). rewrite M1, M2.
  eapply rel2_bind; [apply rel2_lift, add_disperser_mid, Hc|]. intros r1 r2 [Hc' Hn].
  eapply rel2_bind; [apply set_cell_mid, Hc'|]. intros ? ? _. apply rel2_ret. exact Hn.
Qed.

Ltac r2_more ::=
  lazymatch goal with
  | |- rel2 _ (can_establish _ _ _) (can_establish _ _ _) _ => apply can_establish_mid
  | |- rel2 _ (pick_host _) (pick_host _) _ => apply pick_host_mid
  | |- rel2 _ (pop_draw _) (pop_draw _) _ => apply pop_draw_mid
  | |- rel2 _ (suitability_at _ _ _) (suitability_at _ _ _) _ => apply suitability_at_mid
  | |- rel2 _ (suitabilities _ _ _ _) (suitabilities _ _ _ _) _ => apply suitabilities_mid
  | |- rel2 _ (host_add_disperser _ _ _) (host_add_disperser _ _ _) _ => apply host_add_disperser_mid
  end.

Lemma host_disperser_to_mid k i : rel2 midt (host_disperser_to g' k i) (host_disperser_to g k i) eq.
Proof. unfold host_disperser_to. gnorm. r2. Qed.

Lemma multi_disperser_to_mid i : rel2 midt (multi_disperser_to g' i) (multi_disperser_to g i) eq.
Proof.
  unfold multi_disperser_to. gnorm. r2. apply host_disperser_to_mid.
Qed.

Ltac r2_more ::=
  lazymatch goal with
  | |- rel2 _ (can_establish _ _ _) (can_establish _ _ _) _ => apply can_establish_mid
  | |- rel2 _ (pick_host _) (pick_host _) _ => apply pick_host_mid
  | |- rel2 _ (pop_draw _) (pop_draw _) _ => apply pop_draw_mid
  | |- rel2 _ (multi_disperser_to _ _) (multi_disperser_to _ _) _ => apply multi_disperser_to_mid
  end.

Lemma soil_dispersers_from_mid i : rel2 midt (soil_dispersers_from g' i) (soil_dispersers_from g i) eq.
Proof. unfold soil_dispersers_from. gnorm. r2. Qed.

Lemma one_disperser_mid ri ci i : rel2 midt (one_disperser g' ri ci i) (one_disperser g ri ci i) eq.
Proof. unfold one_disperser. gnorm. r2. Qed.

Ltac r2_more ::=
  lazymatch goal with
  | |- rel2 _ (multi_disperser_to _ _) (multi_disperser_to _ _) _ => apply multi_disperser_to_mid
  | |- rel2 _ (one_disperser _ _ _ _) (one_disperser _ _ _ _) _ => apply one_disperser_mid
  | |- rel2 _ (soil_dispersers_from _ _) (soil_dispersers_from _ _) _ => apply soil_dispersers_from_mid
  end.

(* SpreadAction::disperse: same decisions, same tape consumption, same errors *)
Theorem act_disperse_mid : rel2 midt (act_disperse g') (act_disperse g) eq.
Proof.
  unfold act_disperse. apply rel2_for_suitable; [reflexivity|apply suitable_cells_mid|]. intros r c i.
  r2.
Qed.
End Disperse.

(* ================================================================== *)
(* 5. AStepForward with latency 0: [midw]-related worlds become equal    *)
(* ================================================================== *)
Lemma rget_mid {A} (pre : list A) x post : rget (pre ++ x :: post) (length pre) = Ok x.
Proof. unfold rget. rewrite nth_error_mid. reflexivity. Qed.

Lemma rset_mid {A} (pre : list A) x post y : rset (pre ++ x :: post) (length pre) y = Ok (pre ++ y :: post).
Proof. induction pre as [|a r IH]; cbn [app length rset]; [reflexivity|]. rewrite IH. reflexivity. Qed.

Lemma cells_step_si lat step cells :
  fold_right (fun c acc => do a <- acc; do c' <- step_forward SI lat step c; Ok (c' :: a)) (Ok []) cells
  = Ok cells.
Proof. induction cells as [|c r IH]; cbn [fold_right]; [reflexivity|]. rewrite IH. reflexivity. Qed.

Lemma cells_step_sei step cs1 cs2 : 0 <= step -> Forall2 cell_mid cs1 cs2 ->
  fold_right (fun c acc => do a <- acc; do c' <- step_forward SEI 0 step c; Ok (c' :: a)) (Ok []) cs1
  = Ok cs2.
Proof.
  intros Hs HF. induction HF as [|c1 c2 r1 r2 Hc _ IH]; cbn [fold_right]; [reflexivity|].
  rewrite IH. cbn [bind]. rewrite (step_forward_mid step c1 c2 Hs Hc). reflexivity.
Qed.

Lemma with_hosts_id w : with_hosts w (w_hosts w) = w.
Proof. destruct w. reflexivity. Qed.

Section StepForward.
Variable g : config.
Variable hs : list hostcfg.
Hypothesis Hhs : Forall2 hc_pair (g_hosts g) hs.
Variable step : Z.
Hypothesis Hstep : 0 <= step.
Notation g' := (with_ghosts g hs).

Definition sf_body (g0 : config) (k : nat) : W unit :=
  let* h := get_host k in
  let* hc := host_cfg g0 k in
  let* cs := lift (fold_right (fun c acc =>
                do a <- acc; do c' <- step_forward (h_mt hc) (h_latency hc) step c; Ok (c' :: a))
                (Ok []) (hp_cells h)) in
  set_host k (mkhp cs (hp_suitable h)).

(* host number [length pre]: the SI program leaves its world alone, the SEI
   program replaces its host by the SI host *)
Lemma sf_step pre h1 h2 r1 r2 wb t : hp_mid h1 h2 -> w_hosts wb = pre ++ h2 :: r2 ->
  match sf_body g' (length pre) (with_hosts wb (pre ++ h1 :: r1)) t, sf_body g (length pre) wb t with
  | Ok (_, wa', t1), Ok (_, wb', t2) =>
    wa' = with_hosts wb (pre ++ h2 :: r1) /\ wb' = wb /\ t1 = t /\ t2 = t
  | Err e1, Err e2 => e1 = e2
  | _, _ => False
  end.
Proof.
  intros [Hsu Hcs] Hw. unfold sf_body, mbind, get_host, mbind, get, host_cfg, set_host, mbind, get, put.
  cbn [with_hosts w_hosts]. rewrite Hw, !rget_mid.
  pose proof (F2_rget hc_pair _ _ Hhs (length pre)) as Hc.
  change (g_hosts g') with hs.
  destruct (rget (g_hosts g) (length pre)) as [hc1|e1], (rget hs (length pre)) as [hc2|e2];
    cbn [rres] in Hc; try contradiction; unfold lift; cbv beta iota; [|congruence].
  destruct Hc as (M1 & M2 & L & _). rewrite M1, M2, L.
  rewrite cells_step_si, (cells_step_sei step _ _ Hstep Hcs). cbv beta iota.
  cbn [with_hosts w_hosts]. rewrite Hw, !rset_mid. cbv beta iota.
  cbn [w_disp w_estab w_outside w_soil w_weather w_totpop w_other w_temp w_last_index].
  rewrite Hsu. destruct h2 as [c2 s2]. cbn [hp_cells hp_suitable].
  split; [reflexivity|]. split; [|auto]. rewrite <- Hw. apply with_hosts_id.
Qed.

Lemma sf_loop : forall post1 post2, Forall2 hp_mid post1 post2 -> forall pre wb t,
  w_hosts wb = pre ++ post2 ->
  match for_hosts (length pre) (length post1) (sf_body g') (with_hosts wb (pre ++ post1)) t,
        for_hosts (length pre) (length post1) (sf_body g) wb t with
  | Ok (_, wa', t1), Ok (_, wb', t2) => wa' = wb /\ wb' = wb /\ t1 = t /\ t2 = t
  | Err e1, Err e2 => e1 = e2
  | _, _ => False
  end.
Proof.
  intros post1 post2 HF. induction HF as [|h1 h2 r1 r2 Hh HF IH]; intros pre wb t Hw.
  - cbn [length for_hosts]. unfold ret. rewrite !app_nil_r in *. rewrite <- Hw, with_hosts_id. auto.
  - cbn [length for_hosts]. unfold mbind.
    pose proof (sf_step pre h1 h2 r1 r2 wb t Hh Hw) as S1.
    destruct (sf_body g' (length pre) (with_hosts wb (pre ++ h1 :: r1)) t) as [[[u1 wa1] t1]|e1],
             (sf_body g (length pre) wb t) as [[[u2 wb1] t2]|e2]; try contradiction; [|exact S1].
    destruct S1 as (-> & -> & -> & ->).
    specialize (IH (pre ++ [h2]) wb t). rewrite <- !app_assoc in IH. cbn [app] in IH.
    rewrite app_length in IH. cbn [length] in IH. rewrite Nat.add_1_r in IH. exact (IH Hw).
Qed.

Lemma midw_with_hosts wa wb : midw wa wb -> wa = with_hosts wb (w_hosts wa).
Proof.
  intros [_ (F1 & F2 & F3 & F4 & F5 & F6 & F7 & F8 & F9)]. destruct wa, wb. cbn in *. subst. reflexivity.
Qed.

(* host_pool.step_forward(step) for every host *)
Theorem act_step_forward_mid wa wb t : midw wa wb ->
  match act_step_forward g' step wa t, act_step_forward g step wb t with
  | Ok (_, wa', t1), Ok (_, wb', t2) => wa' = wb /\ wb' = wb /\ t1 = t /\ t2 = t
  | Err e1, Err e2 => e1 = e2
  | _, _ => False
  end.
Proof.
  intros H. pose proof (midw_with_hosts _ _ H) as E. destruct H as [HF _].
  change (act_step_forward g' step) with (all_hosts (sf_body g')).
  change (act_step_forward g step) with (all_hosts (sf_body g)).
  unfold all_hosts, mbind, num_hosts, mbind, get, ret.
  assert (Hlen : length (w_hosts wb) = length (w_hosts wa)).
  { clear E. induction HF as [|x y l1 l2 _ _ IHl]; cbn [length]; [reflexivity|f_equal; exact IHl]. }
  rewrite Hlen. remember (w_hosts wa) as ha eqn:Eha. clear Eha Hlen. subst wa.
  exact (sf_loop _ _ HF [] wb t eq_refl).
Qed.
End StepForward.

(* ================================================================== *)
(* 6. the SI run keeps the exposed cohort empty (zeroE)                 *)
(* ================================================================== *)
(* ---- cells ---- *)
Lemma zq0_mul r : (zq 0 * r == zq 0)%Q.
Proof. unfold zq. rewrite Qmult_0_l. reflexivity. Qed.

Lemma ratio_removed_0 r : ratio_removed 0 r = 0.
Proof. unfold ratio_removed. rewrite (qlround_comp _ _ (zq0_mul r)), qlround_zq. reflexivity. Qed.

Lemma get_treated_0 app coef : (get_treated app coef 0 == zq 0)%Q.
Proof.
  unfold get_treated. destruct app; [apply zq0_mul|]. destruct (Qeq_bool coef 0); reflexivity.
Qed.

Lemma remove_infected_zc c count d c' : zc c -> remove_infected c count d = Ok c' -> zc c'.
Proof.
  intros [HE HT] H. unfold remove_infected in H.
  destruct (count >? 0); [destruct (valid_draw (cM c) d count); [|discriminate]|];
    injection H as <-; split; assumption.
Qed.

Lemma remove_exposed_zc c d c' : zc c -> remove_exposed c 0 d = Ok c' -> zc c'.
Proof.
  intros [HE HT] H. unfold remove_exposed in H. change (0 >? 0) with false in H. cbv iota in H.
  injection H as <-. split; cbn [cE cTE]; [assumption|lia].
Qed.

Lemma add_disperser_zc c r : zc c -> add_disperser SI c = Ok r -> zc (fst r).
Proof.
  intros [HE HT] H. unfold add_disperser in H. destruct (cS c <=? 0).
  - injection H as <-. split; assumption.
  - destruct (add_last (cM c) 1) as [m'|]; [|discriminate]. cbn [bind] in H. injection H as <-.
    split; assumption.
Qed.

Lemma completely_remove_zc c s i m c' : zc c -> completely_remove c s [0] i m = Ok c' -> zc c'.
Proof.
  intros [HE HT] H. unfold completely_remove in H. rewrite HE, HT in H.
  destruct (negb _); [discriminate|].
  destruct (i <=? 0); [injection H as <-; split; reflexivity|].
  destruct (negb _); [discriminate|]. destruct (negb _); [discriminate|].
  injection H as <-; split; reflexivity.
Qed.

Lemma make_resistant_zc c s i m c' : zc c -> make_resistant c s [0] i m = Ok c' -> zc c'.
Proof.
  intros [HE HT] H. unfold make_resistant in H. rewrite HE, HT in H.
  destruct (cS c <? s); [discriminate|].
  destruct (negb _); [discriminate|]. destruct (negb _); [discriminate|].
  injection H as <-; split; reflexivity.
Qed.

Lemma treat_removal_zc app coef c c' : zc c -> treat_removal app coef c = Ok c' -> zc c'.
Proof.
  intros Hz H. unfold treat_removal in H. rewrite (proj1 Hz) in H at 1. cbn [map] in H.
  rewrite (qceil_comp _ _ (get_treated_0 app coef)), qceil_zq in H.
  exact (completely_remove_zc _ _ _ _ _ Hz H).
Qed.

Lemma treat_pesticide_zc app coef c c' : zc c -> treat_pesticide app coef c = Ok c' -> zc c'.
Proof.
  intros Hz H. unfold treat_pesticide in H. rewrite (proj1 Hz) in H at 1. cbn [map] in H.
  rewrite (qfloor_comp _ _ (get_treated_0 app coef)), qfloor_zq in H.
  exact (make_resistant_zc _ _ _ _ _ Hz H).
Qed.

Lemma treat_pesticide_end_zc coef c : zc c -> zc (treat_pesticide_end coef c).
Proof. intros H. unfold treat_pesticide_end. destruct (qltb 0 coef); exact H. Qed.

Lemma apply_mortality_zc c rate lag c' : zc c -> apply_mortality c rate lag = Ok c' -> zc c'.
Proof.
  intros Hz H. unfold apply_mortality in H.
  destruct (Qle_bool rate 0); [injection H as <-; exact Hz|].
  destruct (lag <? 0); [discriminate|].
  match type of H with bind ?e _ = _ => destruct e as [[[[r2 i2] th2] d2]|]; [|discriminate] end.
  cbn [bind] in H. injection H as <-. exact Hz.
Qed.

Lemma step_forward_SI_id lat step c c' : step_forward SI lat step c = Ok c' -> c' = c.
Proof. cbn. intros [= <-]. reflexivity. Qed.

(* ---- worlds ---- *)
Notation keepsZ m := (hoare zeroE m (fun _ w => zeroE w)).

Lemma zeroE_hosts_only : hosts_only zeroE.
Proof. apply winv_hosts_only. Qed.

Lemma host_remove_infected_Z k i count : keepsZ (host_remove_infected k i count).
Proof.
  unfold host_remove_infected.
  eapply hoare_bind; [apply get_cell_winv|]. intros c. apply hoare_pure. intros Pc.
  eapply hoare_bind; [apply hoare_ro; ro; apply ro_pop_draw|]. intros d.
  eapply hoare_bind; [apply hoare_lift|]. intros c'. apply hoare_pure. intros Hc.
  apply set_cell_winv. eapply remove_infected_zc; eauto.
Qed.

Lemma host_remove_exposed_Z k i : keepsZ (host_remove_exposed k i 0).
Proof.
  unfold host_remove_exposed.
  eapply hoare_bind; [apply get_cell_winv|]. intros c. apply hoare_pure. intros Pc.
  eapply hoare_bind; [apply hoare_ro; ro; apply ro_pop_draw|]. intros d.
  eapply hoare_bind; [apply hoare_lift|]. intros c'. apply hoare_pure. intros Hc.
  apply set_cell_winv. eapply remove_exposed_zc; eauto.
Qed.

Theorem act_lethal_Z g : keepsZ (act_lethal g).
Proof.
  unfold act_lethal. apply for_suitable_inv. intros r c i.
  eapply hoare_bind; [apply hoare_ro, ro_temperature_at|]. intros temp.
  apply hoare_if; intros _.
  - apply all_hosts_inv. intros k. eapply hoare_bind; [apply hoare_ro, ro_get_cell|]. intros c0.
    apply host_remove_infected_Z.
  - apply hoare_ro, ro_ret.
Qed.

Theorem act_survival_Z g rates : keepsZ (act_survival g rates).
Proof.
  unfold act_survival. apply for_suitable_inv. intros r c i.
  eapply hoare_bind; [apply hoare_ro, ro_lift|]. intros x.
  apply hoare_if; intros _; [|apply hoare_ro, ro_ret].
  apply all_hosts_inv. intros k. unfold host_remove_by_ratio.
  eapply hoare_bind; [apply hoare_ro, ro_get_cell|]. intros c0.
  eapply hoare_bind; [apply host_remove_infected_Z|]. intros ?u.
  eapply hoare_bind; [apply get_cell_winv|]. intros c1. apply hoare_pure. intros [_ HT].
  rewrite HT, ratio_removed_0. apply host_remove_exposed_Z.
Qed.

Theorem act_generate_Z g : keepsZ (act_generate g).
Proof. apply hoare_hs_inv; [apply zeroE_hosts_only|apply act_generate_hosts_same]. Qed.

Definition all_si (g : config) : Prop := Forall (fun hc => h_mt hc = SI) (g_hosts g).

Lemma host_cfg_si g k : all_si g -> hoare zeroE (host_cfg g k) (fun hc w => h_mt hc = SI /\ zeroE w).
Proof.
  intros Hg w t hc w' t' HZ H. unfold host_cfg in H. apply lift_inv in H as (R & -> & ->).
  split; [|exact HZ]. apply rget_Some in R. apply nth_error_In in R.
  unfold all_si in Hg. rewrite Forall_forall in Hg. exact (Hg _ R).
Qed.

Lemma host_add_disperser_Z g k i : all_si g -> keepsZ (host_add_disperser g k i).
Proof.
  intros Hg. unfold host_add_disperser.
  eapply hoare_bind; [apply get_cell_winv|]. intros c. apply hoare_pure. intros Pc.
  eapply hoare_bind; [apply host_cfg_si, Hg|]. intros hc. apply hoare_pure. intros Hmt. rewrite Hmt.
  eapply hoare_bind; [apply hoare_lift|]. intros r. apply hoare_pure. intros Hr.
  eapply hoare_bind; [apply set_cell_winv; eapply add_disperser_zc; eauto|]. intros ?u.
  apply hoare_ro, ro_ret.
Qed.

Theorem act_disperse_Z g : all_si g -> keepsZ (act_disperse g).
Proof. intros Hg. apply act_disperse_inv; [apply zeroE_hosts_only|]. intros k j. apply host_add_disperser_Z, Hg. Qed.

Theorem act_step_forward_Z g step : all_si g -> keepsZ (act_step_forward g step).
Proof.
  intros Hg. unfold act_step_forward. apply all_hosts_inv. intros k.
  eapply hoare_bind; [apply get_host_winv|]. intros h. apply hoare_pure. intros Ph.
  eapply hoare_bind; [apply host_cfg_si, Hg|]. intros hc. apply hoare_pure. intros Hmt. rewrite Hmt.
  eapply hoare_bind; [apply hoare_lift|]. intros cs. apply hoare_pure. intros Hcs.
  apply set_host_winv. cbn [hp_cells]. rewrite cells_step_si in Hcs. injection Hcs as <-. exact Ph.
Qed.

Lemma act_soil_next_Z w : zeroE w -> zeroE (act_soil_next w).
Proof. unfold act_soil_next. destruct (w_soil w); auto. Qed.

Lemma multi_pests_from_Z i count : keepsZ (multi_pests_from i count).
Proof.
  unfold multi_pests_from.
  eapply hoare_bind; [apply hoare_ro, ro_num_hosts|]. intros n.
  eapply hoare_bind; [apply hoare_ro, ro_pop_draw|]. intros d.
  eapply hoare_bind; [apply hoare_ro, ro_host_field_at|]. intros pops.
  eapply hoare_bind; [apply hoare_ro; ro|]. intros ?u.
  match goal with |- hoare _ (?F 0%nat n d 0) _ =>
    assert (HF : forall m k ds acc, keepsZ (F k m ds acc)); [|apply HF] end.
  induction m as [|m IH]; intros k ds acc; [apply hoare_ro, ro_ret|].
  destruct ds as [|x r]; [apply hoare_ro, ro_ret|].
  eapply hoare_bind; [apply get_cell_winv|]. intros c. apply hoare_pure. intros Pc.
  eapply hoare_bind; [apply set_cell_winv; exact Pc|]. intros ?u. apply IH.
Qed.

Lemma multi_pests_to_Z i count : keepsZ (multi_pests_to i count).
Proof.
  unfold multi_pests_to.
  eapply hoare_bind; [apply hoare_ro, ro_num_hosts|]. intros n.
  eapply hoare_bind; [apply hoare_ro, ro_pop_draw|]. intros d.
  eapply hoare_bind; [apply hoare_ro, ro_host_field_at|]. intros pops.
  eapply hoare_bind; [apply hoare_ro; ro|]. intros ?u.
  match goal with |- hoare _ (?F 0%nat n d 0) _ =>
    assert (HF : forall m k ds acc, keepsZ (F k m ds acc)); [|apply HF] end.
  induction m as [|m IH]; intros k ds acc; [apply hoare_ro, ro_ret|].
  destruct ds as [|x r]; [apply hoare_ro, ro_ret|].
  eapply hoare_bind; [apply get_cell_winv|]. intros c. apply hoare_pure. intros Pc.
  eapply hoare_bind; [apply set_cell_winv; exact Pc|]. intros ?u. apply IH.
Qed.

Theorem act_overpopulation_Z g : keepsZ (act_overpopulation g).
Proof.
  unfold act_overpopulation.
  eapply hoare_bind; [apply overpop_departures_inv; [apply zeroE_hosts_only|apply multi_pests_from_Z]|].
  intros moves. apply hoare_mfold. intros mv _.
  eapply hoare_bind; [apply multi_pests_to_Z|]. intros ?u. apply hoare_ro, ro_ret.
Qed.

(* host movement: nobody can be drawn from an empty exposed class *)
Lemma move_hosts_Z g rf cf rt ct count : keepsZ (move_hosts g rf cf rt ct count).
Proof.
  unfold move_hosts.
  eapply hoare_bind; [apply hoare_ro, ro_lift|]. intros ifrom.
  eapply hoare_bind; [apply hoare_ro, ro_lift|]. intros ito.
  eapply hoare_bind; [apply get_cell_winv|]. intros c. apply hoare_pure. intros [HE HT].
  eapply hoare_bind; [apply hoare_ro, ro_pop|]. intros e.
  destruct e; try apply hoare_fail.
  destruct (negb _); [apply hoare_fail|]. destruct (negb _) eqn:Hv; [apply hoare_fail|].
  assert (Hem : count_label labels 3 = 0).
  { apply negb_false_iff in Hv. unfold valid_draw in Hv. cbn [map draw_within] in Hv.
    rewrite HT in Hv. lia. }
  cbv zeta. rewrite Hem, HE. change (0 >? 0) with false. cbv iota. cbn [map andb].
  eapply hoare_bind; [apply hoare_ret|]. intros ed. apply hoare_pure. intros ->.
  eapply hoare_bind; [apply hoare_ro, ro_ret|]. intros ?u.
  eapply hoare_bind; [apply hoare_ro; ro; apply ro_pop_draw|]. intros md.
  eapply hoare_bind; [apply hoare_ro; ro|]. intros ?u.
  eapply hoare_bind; [apply hoare_ro, ro_get_cell|]. intros cto0.
  eapply hoare_bind.
  { destruct (cTH cto0 =? 0); [|apply hoare_ro, ro_ret].
    eapply hoare_bind; [apply get_host_winv|]. intros h. apply hoare_pure. intros Ph.
    destruct (existsb _ _); [apply hoare_ro, ro_ret|]. apply set_host_winv. exact Ph. }
  intros ?u.
  eapply hoare_bind; [apply get_cell_winv|]. intros c1. apply hoare_pure. intros [HE1 HT1].
  eapply hoare_bind; [apply set_cell_winv; split; cbn [cE cTE]; [rewrite HE1; reflexivity|lia]|]. intros ?u.
  eapply hoare_bind; [apply get_cell_winv|]. intros c2. apply hoare_pure. intros [HE2 HT2].
  eapply hoare_bind; [apply set_cell_winv; split; cbn [cE cTE]; [rewrite HE2; reflexivity|lia]|]. intros ?u.
  apply hoare_ro, ro_ret.
Qed.

Lemma movement_loop_Z g step : forall rows i, keepsZ (movement_loop g step rows i).
Proof.
  induction rows as [|[mv sched] r IH]; intros i; cbn [movement_loop]; [apply hoare_ro, ro_ret|].
  destruct (negb _); [apply hoare_ro, ro_ret|].
  destruct mv as [|rf [|cf [|rt [|ct [|count [|x mv]]]]]]; try apply hoare_fail.
  eapply hoare_bind; [apply move_hosts_Z|]. intros ?u. apply IH.
Qed.

Theorem act_movement_Z g step moves : keepsZ (act_movement g step moves).
Proof.
  unfold act_movement.
  eapply hoare_bind; [apply hoare_ro, ro_get|]. intros w0.
  eapply hoare_bind; [apply movement_loop_Z|]. intros k.
  eapply hoare_bind; [apply hoare_get|]. intros w1.
  intros w t a w' t' [-> HW] H. apply put_inv in H as (-> & _). exact HW.
Qed.

(* treatments: a share of nobody is nobody *)
Lemma apply_treatment_Z g k t : keepsZ (apply_treatment g k t).
Proof.
  unfold apply_treatment. eapply hoare_bind; [apply hoare_ro, ro_get_host|]. intros h.
  apply hoare_mfold. intros rc _.
  eapply hoare_bind; [apply hoare_ro, ro_lift|]. intros i.
  eapply hoare_bind; [apply hoare_ro, ro_lift|]. intros coef.
  apply (lift_cell_winv zc k i
           (fun c => if t_pesticide t then treat_pesticide (t_app t) coef c else treat_removal (t_app t) coef c)).
  intros c c' Pc H. destruct (t_pesticide t);
    [eapply treat_pesticide_zc|eapply treat_removal_zc]; eauto.
Qed.

Lemma end_treatment_Z g k t : keepsZ (end_treatment g k t).
Proof.
  unfold end_treatment. destruct (t_pesticide t); [|apply hoare_ro, ro_ret].
  eapply hoare_bind; [apply hoare_ro, ro_get_host|]. intros h.
  apply hoare_mfold. intros rc _.
  eapply hoare_bind; [apply hoare_ro, ro_lift|]. intros i.
  eapply hoare_bind; [apply hoare_ro, ro_lift|]. intros coef.
  eapply hoare_bind; [apply get_cell_winv|]. intros c. apply hoare_pure. intros Pc.
  apply set_cell_winv, treat_pesticide_end_zc, Pc.
Qed.

Theorem act_treatments_Z g ts step : keepsZ (act_treatments g ts step).
Proof.
  unfold act_treatments. apply all_hosts_inv. intros k. unfold manage.
  apply hoare_mfold. intros t _.
  destruct (t_start t =? step); [apply apply_treatment_Z|].
  destruct (_ && _); [apply end_treatment_Z|apply hoare_ro, ro_ret].
Qed.

Theorem act_mortality_Z g : keepsZ (act_mortality g).
Proof.
  unfold act_mortality. eapply hoare_bind.
  - apply for_suitable_inv. intros r c i. apply all_hosts_inv. intros k.
    eapply hoare_bind; [apply hoare_ro, ro_host_cfg|]. intros hc.
    destruct (h_pht hc) as [[[sus rate] lag]|]; [|apply hoare_fail].
    apply (lift_cell_winv zc k i (fun c => apply_mortality c rate lag)).
    intros c0 c' Pc H. eapply apply_mortality_zc; eauto.
  - intros ?u. apply all_hosts_inv. intros k.
    eapply hoare_bind; [apply get_host_winv|]. intros h. apply hoare_pure. intros Ph.
    apply set_host_winv. cbn [hp_cells].
    induction Ph as [|c r Pc _ IH]; cbn [map]; constructor; [exact Pc|exact IH].
Qed.

(* ---- every action of a step of the SI run keeps G ---- *)
Lemma hoare_G {A} (mm : W A) nm :
  hoare zeroE mm (fun _ w => zeroE w) -> hoare (WS 1 (S nm)) mm (fun _ w => WS 1 (S nm) w) ->
  hoare (G nm) mm (fun _ w => G nm w).
Proof. intros HZ HS w t a w' t' [A1 A2] E. split; [exact (HZ w t a w' t' A1 E)|exact (HS w t a w' t' A2 E)]. Qed.

Lemma hoare_G_hs {A} (mm : W A) nm : hosts_same mm -> hoare (G nm) mm (fun _ w => G nm w).
Proof. intros H. apply hoare_hs_inv; [apply G_hosts_only|exact H]. Qed.

Theorem run_action_G nm m inp step a : all_si (m_g m) ->
  hoare (G nm) (run_action m inp step a) (fun _ w => G nm w).
Proof.
  intros Hg. unfold run_action. destruct a as [tag k]; cbn [fst snd] in *. destruct tag.
  - intros w t a w' t' HJ H. binv. eapply G_hosts_only; [|exact HJ].
    unfold act_soil_next. destruct (w_soil w); reflexivity.
  - eapply hoare_bind; [apply hoare_ro, ro_lift|]. intros temp.
    eapply hoare_bind; [apply hoare_G_hs, hs_set_temperature|]. intros u.
    apply hoare_G; [apply act_lethal_Z|apply act_lethal_WS].
  - eapply hoare_bind; [apply hoare_ro, ro_lift|]. intros r.
    apply hoare_G; [apply act_survival_Z|apply act_survival_WS].
  - eapply hoare_bind; [apply hoare_G_hs, hs_set_totpop|]. intros u.
    apply hoare_G_hs, act_generate_hosts_same.
  - apply hoare_G; [apply act_disperse_Z, Hg|apply act_disperse_WS].
  - apply hoare_G; [apply act_step_forward_Z, Hg|apply act_step_forward_WS].
  - apply hoare_G; [apply act_overpopulation_Z|apply act_overpopulation_WS].
  - apply hoare_G; [apply act_movement_Z|apply act_movement_WS].
  - apply hoare_G; [apply act_treatments_Z|apply act_treatments_WS].
  - apply hoare_G; [apply act_mortality_Z|apply act_mortality_WS].
  - destruct (k >=? m_rate_capacity m); [apply hoare_fail|apply hoare_ro, ro_ret].
  - apply hoare_ro, ro_ret.
Qed.

(* ================================================================== *)
(* 7. one action, the plan, the step                                    *)
(* ================================================================== *)
(* SpreadAction::generate leaves the total-population raster in place *)
Definition tp_same (w w' : world) : Prop := w_totpop w' = w_totpop w.
Lemma tp_same_refl : rrefl tp_same. Proof. intros w. reflexivity. Qed.
Lemma tp_same_trans : rtrans tp_same. Proof. intros a b c H1 H2. unfold tp_same in *. congruence. Qed.

Lemma soil_disperser_to_tp g i : wrel tp_same (soil_disperser_to g i).
Proof. intros w t a w' t' H. unfold soil_disperser_to in H. binv'; reflexivity. Qed.

Lemma set_raster_tp_disp i v : wrel tp_same (set_raster_at w_disp upd_disp i v).
Proof. intros w t a w' t' H. unfold set_raster_at in H. binv. reflexivity. Qed.
Lemma set_raster_tp_estab i v : wrel tp_same (set_raster_at w_estab upd_estab i v).
Proof. intros w t a w' t' H. unfold set_raster_at in H. binv. reflexivity. Qed.

Lemma act_generate_tp g : wrel tp_same (act_generate g).
Proof.
  rewrite act_generate_body. apply wrel_for_suitable; [exact tp_same_refl|exact tp_same_trans|].
  intros r c i. unfold generate_body.
  apply wrel_bind; [exact tp_same_trans|apply wrel_ro; [exact tp_same_refl|apply ro_multi_dispersers_from]|].
  intros d. destruct (d >? 0).
  - apply wrel_bind; [exact tp_same_trans|apply wrel_ro; [exact tp_same_refl|apply ro_get]|]. intros w0.
    apply wrel_bind; [exact tp_same_trans| |].
    + destruct (w_soil w0); [|apply wrel_ro; [exact tp_same_refl|apply ro_ret]].
      apply wrel_bind; [exact tp_same_trans| |intros ?u; apply wrel_ro; [exact tp_same_refl|apply ro_ret]].
      apply wrel_mrepeat; [exact tp_same_refl|exact tp_same_trans|apply soil_disperser_to_tp].
    + intros d'. apply wrel_bind; [exact tp_same_trans|apply set_raster_tp_disp|]. intros ?u.
      apply set_raster_tp_estab.
  - apply wrel_bind; [exact tp_same_trans|apply set_raster_tp_disp|]. intros ?u.
    apply set_raster_tp_estab.
Qed.

Lemma midw_refl nm w : G nm w -> midw w w.
Proof.
  intros [HZ HW]. split; [|unfold fields_eq; repeat split; reflexivity].
  unfold zeroE, WS, winv, hosts_inv in *. induction (w_hosts w) as [|h r IH]; [constructor|].
  inversion HZ as [|? ? Z1 Z2]; inversion HW as [|? ? W1 W2]; subst. constructor; [|apply IH; assumption].
  split; [reflexivity|]. clear - Z1 W1. induction (hp_cells h) as [|c cs IHc]; [constructor|].
  inversion Z1; inversion W1; subst. constructor; [eapply cell_mid_refl; eassumption|apply IHc; assumption].
Qed.

Lemma hc_pair_all_si g hs : Forall2 hc_pair (g_hosts g) hs -> all_si g.
Proof. unfold all_si. intros H. induction H as [|x y l1 l2 Hxy _ IH]; constructor; [apply Hxy|exact IH]. Qed.

Inductive phase : Set := PE | PT | PM.

(* what relates the two worlds in each phase of a step; the second world is
   the SI world *)
Definition prel (nm : nat) (ph : phase) (w1 w2 : world) : Prop :=
  G nm w2 /\
  match ph with
  | PE => w1 = w2
  | PT => w1 = w2 /\ w_totpop w2 <> None
  | PM => midw w1 w2
  end.

Definition next (ph : phase) (tag : action_tag) : option phase :=
  match tag, ph with
  | AStepForward, _ => Some PE
  | _, PM => None
  | ADisperse, PT => Some PM
  | ADisperse, _ => None
  | AGenerate, _ => Some PT
  | _, _ => Some PE
  end.

Fixpoint wfp (ph : phase) (p : list (action_tag * Z)) : bool :=
  match p with
  | [] => match ph with PM => false | _ => true end
  | a :: r => match next ph (fst a) with Some ph' => wfp ph' r | None => false end
  end.

(* the snapshots: equal worlds, except after ADisperse *)
Definition snap_rel (tag : action_tag) (w_sei w_si : world) : Prop :=
  match tag with ADisperse => midw w_sei w_si | _ => w_sei = w_si end.
Definition snap (x_sei x_si : action_tag * Z * world) : Prop :=
  fst x_sei = fst x_si /\ snap_rel (fst (fst x_si)) (snd x_sei) (snd x_si).

Lemma prel_midw nm ph w1 w2 : prel nm ph w1 w2 -> midw w1 w2.
Proof. intros [HG H]. destruct ph; [subst; eapply midw_refl; eauto|destruct H; subst; eapply midw_refl; eauto|exact H]. Qed.

Lemma prel_snap nm ph tag ph' w1 w2 : next ph tag = Some ph' -> prel nm ph' w1 w2 -> snap_rel tag w1 w2.
Proof.
  intros Hn [_ H]. destruct tag, ph; cbn in Hn; try discriminate; injection Hn as <-; cbn [snap_rel]; try exact H.
  all: apply H.
Qed.

Lemma action_tag_eq_dec_sf (tag : action_tag) : {tag = AStepForward} + {tag <> AStepForward}.
Proof. destruct tag; first [left; reflexivity|right; discriminate]. Qed.
Lemma action_tag_eq_dec_d (tag : action_tag) : {tag = ADisperse} + {tag <> ADisperse}.
Proof. destruct tag; first [left; reflexivity|right; discriminate]. Qed.

Section Step.
Variable m : model_cfg.                (* the SI model *)
Variable hs : list hostcfg.            (* the host configurations of the SEI model *)
Hypothesis Hhs : Forall2 hc_pair (g_hosts (m_g m)) hs.
Variable inp : inputs.
Variable step : Z.
Notation m' := (with_mg m (with_ghosts (m_g m) hs)).

Lemma plan_same has step0 : plan m' has step0 = plan m has step0.
Proof. reflexivity. Qed.

(* actions other than ADisperse and AStepForward: equal worlds give equal results *)
Lemma run_action_plain a w t : fst a <> ADisperse -> fst a <> AStepForward ->
  run_action m' inp step a w t = run_action m inp step a w t.
Proof.
  destruct a as [tag k]. cbn [fst]. intros H1 H2. unfold run_action. cbn [fst snd m_g with_mg].
  destruct tag; try congruence; try reflexivity.
  - unfold mbind. destruct (set_totpop (in_totpop inp) w t) as [[[u w1] t1]|e]; [|reflexivity].
    apply rel2_eq_out, act_generate_agrees, Hhs.
  - apply act_movement_same.
  - apply rel2_eq_out, act_mortality_agrees, Hhs.
Qed.

Lemma generate_sets_totpop k w t u w' t' :
  run_action m inp step (AGenerate, k) w t = Ok (u, w', t') -> w_totpop w' <> None.
Proof.
  unfold run_action. cbn [fst snd]. intros H. apply bind_inv in H as (u0 & w1 & t1 & E & H).
  apply act_generate_tp in H. unfold set_totpop in E. binv. rewrite H. cbn. discriminate.
Qed.

Lemma action_step nm ph a ph' w1 w2 t : 0 <= step -> next ph (fst a) = Some ph' -> prel nm ph w1 w2 ->
  match run_action m' inp step a w1 t, run_action m inp step a w2 t with
  | Ok (_, w1', t1), Ok (_, w2', t2) => t1 = t2 /\ prel nm ph' w1' w2'
  | Err e1, Err e2 => e1 = e2
  | _, _ => False
  end.
Proof.
  intros Hstep Hn HP. pose proof (hc_pair_all_si _ _ Hhs) as Hsi.
  pose proof (run_action_G nm m inp step a Hsi w2 t) as HG.
  destruct (action_tag_eq_dec_sf (fst a)) as [Esf|Nsf].
  - (* AStepForward *)
    destruct a as [tag k]. cbn [fst] in *. subst tag. cbn in Hn. injection Hn as <-.
    pose proof (act_step_forward_mid (m_g m) hs Hhs step Hstep w1 w2 t (prel_midw _ _ _ _ HP)) as S.
    unfold run_action. cbn [fst snd m_g with_mg]. unfold run_action in HG. cbn [fst snd] in HG.
    destruct (act_step_forward (with_ghosts (m_g m) hs) step w1 t) as [[[u1 w1'] t1]|e1],
             (act_step_forward (m_g m) step w2 t) as [[[u2 w2'] t2]|e2]; try contradiction; [|exact S].
    destruct S as (-> & -> & -> & ->). split; [reflexivity|]. split; [apply HP|reflexivity].
  - destruct (action_tag_eq_dec_d (fst a)) as [Ed|Nd].
    + (* ADisperse *)
      destruct a as [tag k]. cbn [fst] in *. subst tag. destruct ph; cbn in Hn; try discriminate.
      injection Hn as <-. destruct HP as (HGw & -> & Ht).
      pose proof (act_disperse_mid (m_g m) hs Hhs w2 w2 t (midt_refl nm w2 HGw Ht)) as S.
      unfold run_action. cbn [fst snd m_g with_mg]. unfold run_action in HG. cbn [fst snd] in HG.
      destruct (act_disperse (with_ghosts (m_g m) hs) w2 t) as [[[u1 w1'] t1]|e1],
               (act_disperse (m_g m) w2 t) as [[[u2 w2'] t2]|e2] eqn:E2; try contradiction; [|exact S].
      destruct S as (_ & -> & [HM _]). split; [reflexivity|]. split; [|exact HM].
      exact (HG _ _ _ HGw eq_refl).
    + (* everything else: equal worlds *)
      assert (Ew : w1 = w2 /\ G nm w2).
      { destruct HP as [HGw H]. destruct ph; [auto|destruct H; auto|].
        destruct a as [tag k]; cbn [fst] in *; destruct tag; cbn in Hn; congruence. }
      destruct Ew as [-> HGw]. rewrite (run_action_plain a w2 t Nd Nsf).
      destruct (run_action m inp step a w2 t) as [[[u w'] t']|e] eqn:E; [|reflexivity].
      split; [reflexivity|]. specialize (HG _ _ _ HGw eq_refl). split; [exact HG|].
      destruct a as [tag k]. cbn [fst] in *.
      destruct tag, ph; cbn in Hn; try discriminate; injection Hn as <-; try reflexivity; try congruence.
      all: split; [reflexivity|eapply generate_sets_totpop; exact E].
Qed.
End Step.

Lemma plan_nonneg m has step p : plan m has step = Ok p -> 0 <= step.
Proof.
  intros H. destruct (Z.ltb_spec step 0) as [Hneg|Hge]; [|exact Hge]. exfalso.
  assert (E : sched_at (m_spread_schedule m) step = Err UB_OutOfBounds).
  { unfold sched_at. destruct (Z.ltb_spec step 0); [reflexivity|lia]. }
  unfold plan in H. rewrite E in H.
  repeat match type of H with bind ?e _ = _ => destruct e; cbn [bind] in H; try discriminate end.
Qed.

(* the plan of a step: ADisperse only directly after AGenerate, and never the last
   action before something other than AStepForward *)
Lemma plan_wfp m has step p : plan m has step = Ok p -> wfp PE p = true.
Proof.
  intros H. rewrite (plan_is_documented _ _ _ _ H). unfold build, documented. cbn [map concat fst snd].
  destruct has; destruct (fires (m_use_lethal m) _ step); destruct (fires (m_use_survival m) _ step);
    destruct (marks (m_spread_schedule m) step); destruct (m_use_overpop m); destruct (m_use_movements m);
    destruct (m_use_treatments m); destruct (fires (m_use_mortality m) _ step);
    destruct (fires (m_use_spreadrates m) _ step); destruct (fires (m_use_quarantine m) _ step);
    reflexivity.
Qed.

Lemma G_elim nm w : G nm w -> zeroE w /\ mort_cohorts nm w.
Proof.
  intros [HZ HW]. split; [exact HZ|]. unfold mort_cohorts, WS, winv, hosts_inv in *.
  rewrite Forall_forall in *. intros h Hh. specialize (HW h Hh).
  rewrite Forall_forall in *. intros c Hc. apply (HW c Hc).
Qed.

Section Run.
Variable m : model_cfg.                (* the SI model *)
Variable hs : list hostcfg.            (* the host configurations of the SEI model *)
Hypothesis Hhs : Forall2 hc_pair (g_hosts (m_g m)) hs.
Notation m' := (with_mg m (with_ghosts (m_g m) hs)).

Lemma run_plan_agrees nm inp step : 0 <= step -> forall p ph w1 w2 t acc1 acc2,
  wfp ph p = true -> prel nm ph w1 w2 -> Forall2 snap acc1 acc2 ->
  Forall2 snap (snd (run_plan m' inp step p w1 t acc1)) (snd (run_plan m inp step p w2 t acc2)) /\
  match fst (run_plan m' inp step p w1 t acc1), fst (run_plan m inp step p w2 t acc2) with
  | Ok (tr1, w1', t1), Ok (tr2, w2', t2) => w1' = w2' /\ t1 = t2 /\ G nm w2' /\ Forall2 snap tr1 tr2
  | Err e1, Err e2 => e1 = e2
  | _, _ => False
  end.
Proof.
  intros Hstep p. induction p as [|a r IH]; intros ph w1 w2 t acc1 acc2 Hwf HP Hacc; cbn [run_plan].
  - cbn [fst snd]. split; [exact Hacc|]. destruct HP as [HG H]. destruct ph; cbn in Hwf; try discriminate.
    + subst. auto.
    + destruct H; subst; auto.
  - cbn [wfp] in Hwf. destruct (next ph (fst a)) as [ph'|] eqn:Hn; [|discriminate].
    pose proof (action_step m hs Hhs inp step nm ph a ph' w1 w2 t Hstep Hn HP) as S.
    destruct (run_action m' inp step a w1 t) as [[[u1 w1'] t1]|e1],
             (run_action m inp step a w2 t) as [[[u2 w2'] t2]|e2]; try contradiction.
    + destruct S as [<- HP']. apply (IH ph'); [exact Hwf|exact HP'|].
      apply Forall2_app; [exact Hacc|]. constructor; [|constructor]. split; [reflexivity|].
      cbn [fst snd]. exact (prel_snap nm ph (fst a) ph' w1' w2' Hn HP').
    + cbn [fst snd]. split; [exact Hacc|exact S].
Qed.

Theorem step_agrees nm inp step w t : G nm w ->
  Forall2 snap (snd (run_step m' inp step w t)) (snd (run_step m inp step w t)) /\
  match fst (run_step m' inp step w t), fst (run_step m inp step w t) with
  | Ok (tr1, w1, t1), Ok (tr2, w2, t2) => w1 = w2 /\ t1 = t2 /\ G nm w2 /\ Forall2 snap tr1 tr2
  | Err e1, Err e2 => e1 = e2
  | _, _ => False
  end.
Proof.
  intros HG. unfold run_step. rewrite plan_same.
  destruct (plan m (has_soil w) step) as [p|e] eqn:Hp; [|cbn [fst snd]; split; [constructor|reflexivity]].
  apply (run_plan_agrees nm inp step (plan_nonneg _ _ _ _ Hp) p PE w w t [] []);
    [exact (plan_wfp _ _ _ _ Hp)|split; [exact HG|reflexivity]|constructor].
Qed.

Theorem run_agrees nm inp weather : forall tapes step w, G nm w ->
  run_many m' inp weather tapes step w = run_many m inp weather tapes step w /\
  (forall w', run_many m inp weather tapes step w = Ok w' -> G nm w').
Proof.
  induction tapes as [|t r IH]; intros step w HG; cbn [run_many].
  - split; [reflexivity|]. intros w' [= <-]. exact HG.
  - assert (HGw : G nm (with_weather w (weather step))) by (eapply G_hosts_only; [|exact HG]; reflexivity).
    destruct (step_agrees nm (inp step) step _ t HGw) as [_ S].
    destruct (fst (run_step m' (inp step) step (with_weather w (weather step)) t)) as [[[tr1 w1] t1]|e1],
             (fst (run_step m (inp step) step (with_weather w (weather step)) t)) as [[[tr2 w2] t2]|e2];
      try contradiction.
    + destruct S as (-> & _ & HG2 & _). apply IH. exact HG2.
    + subst. split; [reflexivity|]. intros w' H. discriminate.
Qed.
End Run.

(* ================================================================== *)
(* 8. the statements in terms of [m_pair]                               *)
(* ================================================================== *)
Lemma m_pair_elim m_si m_sei : m_pair m_si m_sei ->
  exists hs, Forall2 hc_pair (g_hosts (m_g m_si)) hs /\
             m_sei = with_mg m_si (with_ghosts (m_g m_si) hs).
Proof.
  intros [[HF Eg] Em]. exists (g_hosts (m_g m_sei)). split; [exact HF|].
  rewrite <- Eg. exact Em.
Qed.

(* One step.  No hypothesis on [step]: a negative step makes both plans fail
   in the same way. *)
Theorem L0_step_agrees_strong nm m_si m_sei inp step w t :
  m_pair m_si m_sei -> zeroE w -> mort_cohorts nm w ->
  match fst (run_step m_sei inp step w t), fst (run_step m_si inp step w t) with
  | Ok (_, w1, t1), Ok (_, w2, t2) => w1 = w2 /\ t1 = t2 /\ zeroE w1 /\ mort_cohorts nm w1
  | Err e1, Err e2 => e1 = e2
  | _, _ => False
  end.
Proof.
  intros HP HZ HM. destruct (m_pair_elim _ _ HP) as (hs & HF & ->).
  destruct (step_agrees m_si hs HF nm inp step w t (G_intro nm w HZ HM)) as [_ S].
  destruct (fst (run_step (with_mg m_si (with_ghosts (m_g m_si) hs)) inp step w t)) as [[[tr1 w1] t1]|e1],
           (fst (run_step m_si inp step w t)) as [[[tr2 w2] t2]|e2]; try contradiction; [|exact S].
  destruct S as (-> & -> & HG & _). destruct (G_elim _ _ HG). auto.
Qed.

(* the statement as asked for (with the additional hypothesis [mort_cohorts]) *)
Theorem L0_step_agrees nm m_si m_sei inp step w t :
  m_pair m_si m_sei -> zeroE w -> mort_cohorts nm w -> 0 <= step ->
  match fst (run_step m_sei inp step w t), fst (run_step m_si inp step w t) with
  | Ok (_, w1, t1), Ok (_, w2, t2) => w1 = w2 /\ t1 = t2 /\ zeroE w1
  | Err e1, Err e2 => e1 = e2
  | _, _ => False
  end.
Proof.
  intros HP HZ HM _. pose proof (L0_step_agrees_strong nm m_si m_sei inp step w t HP HZ HM) as S.
  destruct (fst (run_step m_sei inp step w t)) as [[[tr1 w1] t1]|e1],
           (fst (run_step m_si inp step w t)) as [[[tr2 w2] t2]|e2]; try contradiction; [|exact S].
  destruct S as (A & B & C & _). auto.
Qed.

(* the snapshots after every action: same actions, same indices, equal worlds
   except after ADisperse where the worlds are [midw]-related; if the step fails,
   both traces stop at the same action *)
Theorem L0_step_snapshots nm m_si m_sei inp step w t :
  m_pair m_si m_sei -> zeroE w -> mort_cohorts nm w ->
  Forall2 snap (snd (run_step m_sei inp step w t)) (snd (run_step m_si inp step w t)).
Proof.
  intros HP HZ HM. destruct (m_pair_elim _ _ HP) as (hs & HF & ->).
  apply (step_agrees m_si hs HF nm inp step w t (G_intro nm w HZ HM)).
Qed.

(* whole runs *)
Theorem L0_run_agrees nm m_si m_sei inp weather tapes step w :
  m_pair m_si m_sei -> zeroE w -> mort_cohorts nm w ->
  run_many m_sei inp weather tapes step w = run_many m_si inp weather tapes step w /\
  (forall w', run_many m_si inp weather tapes step w = Ok w' -> zeroE w' /\ mort_cohorts nm w').
Proof.
  intros HP HZ HM. destruct (m_pair_elim _ _ HP) as (hs & HF & ->).
  destruct (run_agrees m_si hs HF nm inp weather tapes step w (G_intro nm w HZ HM)) as [A B].
  split; [exact A|]. intros w' H. apply G_elim, B, H.
Qed.

(* ---- the raster entry point ---- *)
Lemma strip_pht_pair h1 h2 : hc_pair h1 h2 -> hc_pair (strip_pht h1) (strip_pht h2).
Proof. intros (A & B & C & D & E & F & G0 & H). unfold hc_pair, strip_pht. cbn. auto 10. Qed.

Lemma m_pair_raster_entry m_si m_sei : m_pair m_si m_sei ->
  m_pair (raster_entry_cfg m_si) (raster_entry_cfg m_sei).
Proof.
  intros HP. destruct (m_pair_elim _ _ HP) as (hs & HF & ->).
  split; [split|]; cbn; [|reflexivity|reflexivity].
  clear HP. induction HF as [|x y l1 l2 Hxy _ IH]; cbn [map]; [constructor|].
  constructor; [apply strip_pht_pair, Hxy|exact IH].
Qed.

Theorem L0_step_rasters_agrees nm m_si m_sei inp step w t :
  m_pair m_si m_sei -> zeroE w -> mort_cohorts nm w ->
  match fst (run_step_rasters m_sei inp step w t), fst (run_step_rasters m_si inp step w t) with
  | Ok (_, w1, t1), Ok (_, w2, t2) => w1 = w2 /\ t1 = t2 /\ zeroE w1 /\ mort_cohorts nm w1
  | Err e1, Err e2 => e1 = e2
  | _, _ => False
  end.
Proof.
  intros HP. unfold run_step_rasters. apply L0_step_agrees_strong. apply m_pair_raster_entry, HP.
Qed.

Theorem L0_run_rasters_agrees nm m_si m_sei inp weather tapes step w :
  m_pair m_si m_sei -> zeroE w -> mort_cohorts nm w ->
  run_many (raster_entry_cfg m_sei) inp weather tapes step w =
  run_many (raster_entry_cfg m_si) inp weather tapes step w.
Proof. intros HP HZ HM. apply (L0_run_agrees nm); [apply m_pair_raster_entry, HP|exact HZ|exact HM]. Qed.

(* ================================================================== *)
(* 9. non-vacuity, and why [mort_cohorts] is needed                      *)
(* ================================================================== *)
Definition demo_host (mt : model_type) : hostcfg := mkhostcfg mt 0 false 1 false 1 None.
Definition demo_cfg (mt : model_type) : config :=
  mkconfig 1 2 [demo_host mt] false false 1 None false 0 false false 0 0 0 0.
Definition demo_model (mt : model_type) : model_cfg :=
  mkmodelcfg (demo_cfg mt) false [] false [] [true; true] false false false false [] false [] false [] 0.
(* two cells, two infected hosts in the first one *)
Definition demo_w : world :=
  mkworld [mkhp [mkcell 5 [0] 2 0 0 [2] 0 7; mkcell 4 [0] 0 0 0 [0] 0 4] [(0, 0); (0, 1)]]
          [0; 0] [0; 0] [] None None None None None 0.
Definition demo_inp : inputs := mkinputs [] [] [7; 4] [] [].
(* two dispersers leave cell (0,0): one lands in (0,1), one stays; both establish *)
Definition demo_tape : tape :=
  [EvGenerate 0 0 1 2; EvKernel 0 0 0 1; EvEstablish 0 1 true; EvKernel 0 0 0 0; EvEstablish 0 (5 # 7) true].

Example demo_hypotheses :
  m_pair (demo_model SI) (demo_model SEI) /\ zeroE demo_w /\ mort_cohorts 0 demo_w.
Proof.
  split; [|split].
  - split; [split|]; [|reflexivity|reflexivity]. repeat constructor.
  - repeat constructor.
  - repeat constructor.
Qed.

(* the step runs to the end in both models, consumes the whole tape and infects
   one host in each cell *)
Example demo_step :
  exists tr1 tr2 w',
    fst (run_step (demo_model SEI) demo_inp 0 demo_w demo_tape) = Ok (tr1, w', []) /\
    fst (run_step (demo_model SI) demo_inp 0 demo_w demo_tape) = Ok (tr2, w', []) /\
    map (fun h => map (fun c => (cS c, cE c, cI c, cM c)) (hp_cells h)) (w_hosts w') =
      [[(4, [0], 3, [3]); (3, [0], 1, [1])]].
Proof. do 3 eexists. split; [vm_compute; reflexivity|]. split; vm_compute; reflexivity. Qed.

(* the snapshot after ADisperse differs: exposed in the SEI run, infected in the SI run *)
Example demo_mid :
  map (fun x => (fst (fst x), map (fun c => (cE c, cI c, cM c)) (concat (map hp_cells (w_hosts (snd x))))))
      (snd (run_step (demo_model SEI) demo_inp 0 demo_w demo_tape)) =
    [(AGenerate, [([0], 2, [2]); ([0], 0, [0])]);
     (ADisperse, [([1], 2, [2]); ([1], 0, [0])]);
     (AStepForward, [([0], 3, [3]); ([0], 1, [1])])] /\
  map (fun x => (fst (fst x), map (fun c => (cE c, cI c, cM c)) (concat (map hp_cells (w_hosts (snd x))))))
      (snd (run_step (demo_model SI) demo_inp 0 demo_w demo_tape)) =
    [(AGenerate, [([0], 2, [2]); ([0], 0, [0])]);
     (ADisperse, [([0], 3, [3]); ([0], 1, [1])]);
     (AStepForward, [([0], 3, [3]); ([0], 1, [1])])].
Proof. split; vm_compute; reflexivity. Qed.

Example demo_run :
  run_many (demo_model SEI) (fun _ => demo_inp) (fun _ => None) [demo_tape; []] 0 demo_w =
  run_many (demo_model SI) (fun _ => demo_inp) (fun _ => None) [demo_tape; []] 0 demo_w.
Proof. apply (L0_run_agrees 0); apply demo_hypotheses. Qed.

(* Without a mortality cohort the two models do NOT agree: host_pool.hpp's
   step_forward does mortality_tracker_vector.back() += exposed.front() for SEI
   only, so an empty tracker is undefined behaviour in the SEI run while the SI
   run (which would only touch the tracker when a disperser establishes)
   completes.  Hence the hypothesis [mort_cohorts]. *)
Definition bad_w : world :=
  mkworld [mkhp [mkcell 5 [0] 0 0 0 [] 0 5; mkcell 4 [0] 0 0 0 [] 0 4] [(0, 0); (0, 1)]]
          [0; 0] [0; 0] [] None None None None None 0.

Example mort_cohorts_needed :
  m_pair (demo_model SI) (demo_model SEI) /\ zeroE bad_w /\
  fst (run_step (demo_model SEI) demo_inp 0 bad_w []) = Err UB_OutOfBounds /\
  exists tr w', fst (run_step (demo_model SI) demo_inp 0 bad_w []) = Ok (tr, w', []).
Proof.
  split; [apply demo_hypotheses|]. split; [repeat constructor|].
  split; [vm_compute; reflexivity|]. do 2 eexists. vm_compute. reflexivity.
Qed.

Print Assumptions L0_step_agrees_strong.
Print Assumptions L0_step_agrees.
Print Assumptions L0_step_snapshots.
Print Assumptions L0_run_agrees.
Print Assumptions L0_step_rasters_agrees.
Print Assumptions L0_run_rasters_agrees.
Print Assumptions demo_step.
Print Assumptions mort_cohorts_needed.
