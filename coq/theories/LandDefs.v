(* Landscape-level model: host pools (lists of cells with a list of suitable
   cells), the multi-host pool, pest pool, soil pool, environment, and the
   actions of include/pops/actions.hpp and treatments.hpp as folds over the
   suitable cells.  Random outcomes come from an explicit tape of events logged
   by the implementation's hooks (DESIGN.md 3.3).  Definitions only. *)
From Coq Require Import ZArith QArith Qabs List Bool.
From Pops Require Import Err Rounding CellDefs.
Import ListNotations.
Local Open Scope Z_scope.

(* ---------------- tape ---------------- *)
Inductive event : Set :=
| EvDraw (labels : list Z)                       (* draw_n_from_v result *)
| EvEstablish (tester prob : Q) (res : bool)     (* can_disperser_establish *)
| EvGenerate (row col : Z) (lambda : Q) (count : Z)  (* dispersers_from *)
| EvKernel (i j row col : Z)                     (* kernel result in disperse *)
| EvOKernel (i j row col : Z)                    (* kernel result in overpopulation *)
| EvPick (idx : Z)                               (* pick_host_by_weight *)
| EvSoilFrom (row col : Z) (lambda : Q) (count : Z)
| EvSoilTo (tester prob : Q) (res : bool)
| EvWeather (i j : Z) (v : Q).

Definition tape := list event.

(* state-and-tape monad *)
Definition M (S A : Type) : Type := S -> tape -> result (A * S * tape).
Definition ret {S A} (a : A) : M S A := fun s t => Ok (a, s, t).
Definition mbind {S A B} (m : M S A) (f : A -> M S B) : M S B :=
  fun s t => match m s t with
             | Ok (a, s', t') => f a s' t'
             | Err e => Err e
             end.
Definition fail {S A} (e : err) : M S A := fun _ _ => Err e.
Definition lift {S A} (r : result A) : M S A :=
  fun s t => match r with Ok a => Ok (a, s, t) | Err e => Err e end.
Definition get {S} : M S S := fun s t => Ok (s, s, t).
Definition put {S} (s : S) : M S unit := fun _ t => Ok (tt, s, t).
Definition pop {S} : M S event :=
  fun s t => match t with [] => Err TapeMismatch | e :: r => Ok (e, s, r) end.
Notation "'let*' x := m 'in' k" := (mbind m (fun x => k))
  (at level 200, x name, m at level 100, k at level 200).
Notation "m ;; k" := (mbind m (fun _ => k)) (at level 199, right associativity).

Fixpoint mfold {S A} (f : A -> M S unit) (l : list A) : M S unit :=
  match l with
  | [] => ret tt
  | a :: r => f a ;; mfold f r
  end.
Fixpoint mrepeat {S} (n : nat) (m : M S unit) : M S unit :=
  match n with O => ret tt | S k => m ;; mrepeat k m end.

(* counts of each label 0..k-1 in a drawn label list *)
Definition count_label (labels : list Z) (k : Z) : Z :=
  Z.of_nat (length (filter (Z.eqb k) labels)).
Definition counts_of (labels : list Z) (k : nat) : list Z :=
  map (fun i => count_label labels (Z.of_nat i)) (seq 0 k).
Definition labels_below (labels : list Z) (lo hi : Z) : bool :=
  forallb (fun x => (lo <=? x) && (x <? hi)) labels.

(* ---------------- static configuration ---------------- *)
Record hostcfg : Set := mkhostcfg
  { h_mt : model_type; h_latency : Z;
    h_disp_stoch : bool; h_rr : Q;
    h_est_stoch : bool; h_est_prob : Q;
    (* pest-host table row: susceptibility, mortality rate, mortality time lag *)
    h_pht : option (Q * Q * Z) }.

Record config : Set := mkconfig
  { g_rows : Z; g_cols : Z;
    g_hosts : list hostcfg;
    g_arrival_land : bool;              (* arrival behaviour: land (true) / infect *)
    g_est_stoch : bool; g_est_prob : Q; (* Config's values, used by the multi-host pool *)
    g_competency : option (list (list bool * Q));   (* competency table rows *)
    g_weather : bool;                   (* Environment::weather_ *)
    g_soil_pct : Q;                     (* dispersers_to_soils_percentage *)
    g_soil_gen_stoch : bool; g_soil_est_stoch : bool; g_soil_est_prob : Q;
    g_overpop_pct : Q; g_leaving_pct : Q;
    g_lethal_temp : Q }.

(* ---------------- dynamic state ---------------- *)
Record hostpool : Set := mkhp { hp_cells : list cell; hp_suitable : list (Z * Z) }.

Record world : Set := mkworld
  { w_hosts : list hostpool;
    w_disp : list Z;                     (* dispersers raster *)
    w_estab : list Z;                    (* established dispersers raster *)
    w_outside : list (Z * Z);            (* outside dispersers, in order *)
    w_soil : option (list (list Z));     (* per cell: soil cohorts, oldest first *)
    w_weather : option (list Q);         (* current weather coefficient raster *)
    w_totpop : option (list Z);          (* total population raster, once set *)
    w_other : option (list Z);           (* other individuals *)
    w_temp : option (list Q);            (* current temperature raster *)
    w_last_index : Z }.                  (* Model::last_index (host movements) *)

Definition W := M world.

(* ---------------- raster access (bounds checked) ---------------- *)
Definition idx_of (g : config) (row col : Z) : result nat :=
  if (row <? 0) || (row >=? g_rows g) || (col <? 0) || (col >=? g_cols g)
  then Err UB_OutOfBounds else Ok (Z.to_nat (row * g_cols g + col)).

Definition rget {A} (l : list A) (i : nat) : result A :=
  match nth_error l i with Some a => Ok a | None => Err UB_OutOfBounds end.

Fixpoint rset {A} (l : list A) (i : nat) (a : A) : result (list A) :=
  match l, i with
  | [], _ => Err UB_OutOfBounds
  | _ :: r, O => Ok (a :: r)
  | x :: r, S k => do r' <- rset r k a; Ok (x :: r')
  end.

Definition is_outside (g : config) (row col : Z) : bool :=
  (row <? 0) || (row >=? g_rows g) || (col <? 0) || (col >=? g_cols g).

(* host k *)
Definition get_host (k : nat) : W hostpool :=
  let* w := get in lift (rget (w_hosts w) k).
Definition set_host (k : nat) (h : hostpool) : W unit :=
  let* w := get in
  let* hs := lift (rset (w_hosts w) k h) in
  put (mkworld hs (w_disp w) (w_estab w) (w_outside w) (w_soil w) (w_weather w)
               (w_totpop w) (w_other w) (w_temp w) (w_last_index w)).
Definition get_cell (k i : nat) : W cell :=
  let* h := get_host k in lift (rget (hp_cells h) i).
Definition set_cell (k i : nat) (c : cell) : W unit :=
  let* h := get_host k in
  let* cs := lift (rset (hp_cells h) i c) in
  set_host k (mkhp cs (hp_suitable h)).
Definition host_cfg (g : config) (k : nat) : W hostcfg := lift (rget (g_hosts g) k).

Definition num_hosts : W nat := let* w := get in ret (length (w_hosts w)).

(* ---------------- environment ---------------- *)
Definition weather_at (i : nat) : W Q :=
  let* w := get in
  match w_weather w with
  | None => fail LogicError            (* "Weather coefficient used, but not provided" *)
  | Some r => lift (rget r i)
  end.

(* Environment::total_population_at; HostPool::total_hosts_at = S + I *)
Definition total_population_at (i : nat) : W Z :=
  let* w := get in
  match w_totpop w with
  | Some r => lift (rget r i)
  | None =>
    let* o := match w_other w with Some r => lift (rget r i) | None => ret 0 end in
    let* s := lift (fold_right (fun h acc =>
                  do a <- acc; do c <- rget (hp_cells h) i; Ok (a + cS c + cI c))
                  (Ok 0) (w_hosts w)) in
    ret (o + s)
  end.

Definition temperature_at (i : nat) : W Q :=
  let* w := get in
  match w_temp w with
  | None => fail LogicError
  | Some r => lift (rget r i)
  end.

(* ---------------- competency table (competency_table.hpp) ---------------- *)
(* presence of each host at the cell: total_hosts_at > 0 *)
Definition host_presence_at (i : nat) : W (list bool) :=
  let* w := get in
  lift (fold_right (fun h acc =>
          do a <- acc; do c <- rget (hp_cells h) i; Ok ((negb (cS c + cI c =? 0)) :: a))
          (Ok []) (w_hosts w)).

Fixpoint beq_list (a b : list bool) : bool :=
  match a, b with
  | [], [] => true
  | x :: ra, y :: rb => Bool.eqb x y && beq_list ra rb
  | _, _ => false
  end.
(* row is usable when every host it requires is present *)
Fixpoint row_subset (row presence : list bool) : bool :=
  match row, presence with
  | [], [] => true
  | r :: rr, p :: rp => (implb r p) && row_subset rr rp
  | _, _ => false
  end.

(* ---------------- HostPool operations on the world ---------------- *)

(* iterate an operation over all hosts, in order *)
Fixpoint for_hosts (k n : nat) (f : nat -> W unit) : W unit :=
  match n with O => ret tt | S n' => f k ;; for_hosts (S k) n' f end.
Definition all_hosts (f : nat -> W unit) : W unit :=
  let* n := num_hosts in for_hosts 0 n f.

(* suitability_at of host k at cell i *)
Definition suitability_at (g : config) (k i : nat) : W Q :=
  let* c := get_cell k i in
  let* hc := host_cfg g k in
  let* n := total_population_at i in
  if n =? 0 then fail UB_OutOfBounds   (* division by zero of doubles: inf/nan, outside the domain *)
  else
    let s0 := (zq (cS c) / zq n)%Q in
    let s1 := match h_pht hc with Some (sus, _, _) => (s0 * sus)%Q | None => s0 end in
    let* s2 := (if g_weather g then let* wc := weather_at i in ret (s1 * wc)%Q else ret s1) in
    if qltb s2 0 || qltb 1 s2 then fail InvalidArgument else ret s2.

(* can_disperser_establish: the outcome is read from the tape and validated
   against the model's own probability (an exact tie may go either way in
   floating point; the implementation's answer is followed within 2^-40) *)
Definition qabs_small (a b : Q) : bool :=
  qltb (Qabs (a - b)) (1 # 1099511627776).
Definition can_establish (prob : Q) (stoch : bool) (det_prob : Q) : W bool :=
  let* e := pop in
  match e with
  | EvEstablish tester _ res =>
    if negb stoch && negb (Qeq_bool tester (1 - det_prob)) then fail TapeMismatch
    else if qltb tester 0 || negb (qltb tester 1) && stoch then fail TapeMismatch
    else if Bool.eqb res (qltb tester prob) then ret res
    else if qabs_small tester prob then ret res
    else fail TapeMismatch
  | _ => fail TapeMismatch
  end.

Definition host_add_disperser (g : config) (k i : nat) : W Z :=
  let* c := get_cell k i in
  let* hc := host_cfg g k in
  let* r := lift (add_disperser (h_mt hc) c) in
  set_cell k i (fst r) ;; ret (snd r).

(* HostPool::disperser_to *)
Definition host_disperser_to (g : config) (k i : nat) : W Z :=
  let* c := get_cell k i in
  if cS c <=? 0 then ret 0
  else
    let* hc := host_cfg g k in
    let* p := suitability_at g k i in
    let* est := can_establish p (h_est_stoch hc) (h_est_prob hc) in
    if est then host_add_disperser g k i else ret 0.

(* MultiHostPool::pick_host_by_weight *)
Definition pick_host (weights : list Q) : W nat :=
  match weights with
  | [_] => ret O
  | _ =>
    let* e := pop in
    match e with
    | EvPick idx =>
      if (idx <? 0) || (idx >=? Z.of_nat (length weights)) then fail TapeMismatch
      else match nth_error weights (Z.to_nat idx) with
           | Some wgt => if Qle_bool wgt 0 then fail TapeMismatch else ret (Z.to_nat idx)
           | None => fail TapeMismatch
           end
    | _ => fail TapeMismatch
    end
  end.

Fixpoint suitabilities (g : config) (i : nat) (k n : nat) : W (list Q) :=
  match n with
  | O => ret []
  | S n' => let* s := suitability_at g k i in
            let* r := suitabilities g i (S k) n' in ret (s :: r)
  end.
Definition qsum (l : list Q) : Q := fold_right Qplus 0%Q l.

Definition host_field_at (f : cell -> Z) (i : nat) : W (list Z) :=
  let* w := get in
  lift (fold_right (fun h acc => do a <- acc; do c <- rget (hp_cells h) i; Ok (f c :: a))
                   (Ok []) (w_hosts w)).

(* MultiHostPool::disperser_to *)
Definition multi_disperser_to (g : config) (i : nat) : W Z :=
  let* n := num_hosts in
  if Nat.eqb n 0 then fail UB_OutOfBounds else
  let* npop := total_population_at i in
  if npop =? 0 then
    (* no population at all: a host without susceptibles has suitability
       0/0 = NaN; one with susceptibles has +infinity, which suitability_at
       rejects unless a zero susceptibility or weather coefficient turns it
       into NaN as well.  A NaN total is not greater than zero: nothing
       establishes. *)
    let* wz := (if g_weather g then let* wc := weather_at i in ret (Qeq_bool wc 0) else ret false) in
    for_hosts 0 n (fun k =>
      let* c := get_cell k i in
      let* hc := host_cfg g k in
      let sus_zero := match h_pht hc with Some (sus, _, _) => Qeq_bool sus 0 | None => false end in
      if cS c =? 0 then ret tt
      else if (cS c >? 0) && (sus_zero || wz) then ret tt
      else fail InvalidArgument) ;;
    ret 0
  else
  let* ws := suitabilities g i 0 n in
  let total := qsum ws in
  if Qle_bool total 0 then ret 0
  else if qltb 1 total then fail InvalidArgument
  else
    let* k := pick_host ws in
    if g_arrival_land g then
      let* c := get_cell k i in
      if cS c <=? 0 then ret 0
      else
        let* est := can_establish total (g_est_stoch g) (g_est_prob g) in
        if est then host_add_disperser g k i else ret 0
    else host_disperser_to g k i.

(* a draw from the tape, as counts for labels 0..k-1 *)
Definition pop_draw (k : nat) : W (list Z) :=
  let* e := pop in
  match e with
  | EvDraw labels =>
    if labels_below labels 0 (Z.of_nat k) then ret (counts_of labels k) else fail TapeMismatch
  | _ => fail TapeMismatch
  end.

(* HostPool::remove_infected_at *)
Definition host_remove_infected (k i : nat) (count : Z) : W unit :=
  let* c := get_cell k i in
  let* d := (if count >? 0 then pop_draw (length (cM c)) else ret []) in
  let* c' := lift (remove_infected c count d) in
  set_cell k i c'.
Definition host_remove_exposed (k i : nat) (count : Z) : W unit :=
  let* c := get_cell k i in
  let* d := (if count >? 0 then pop_draw (length (cE c)) else ret []) in
  let* c' := lift (remove_exposed c count d) in
  set_cell k i c'.
(* HostPool::remove_infection_by_ratio_at *)
Definition host_remove_by_ratio (k i : nat) (ratio : Q) : W unit :=
  let* c := get_cell k i in
  host_remove_infected k i (ratio_removed (cI c) ratio) ;;
  let* c1 := get_cell k i in
  host_remove_exposed k i (ratio_removed (cTE c1) ratio).

Definition suitable_cells : W (list (Z * Z)) :=
  let* h := get_host 0 in ret (hp_suitable h).

(* for (auto indices : host_pool.suitable_cells()) with bounds-checked index *)
Definition for_suitable (g : config) (f : Z -> Z -> nat -> W unit) : W unit :=
  let* cells := suitable_cells in
  mfold (fun rc => let* i := lift (idx_of g (fst rc) (snd rc)) in f (fst rc) (snd rc) i) cells.

(* ---------------- actions ---------------- *)

(* RemoveByTemperature::action *)
Definition act_lethal (g : config) : W unit :=
  for_suitable g (fun _ _ i =>
    let* t := temperature_at i in
    if qltb t (g_lethal_temp g) then
      all_hosts (fun k => let* c := get_cell k i in host_remove_infected k i (cI c))
    else ret tt).

(* SurvivalRateAction::action with the survival raster *)
Definition act_survival (g : config) (rates : list Q) : W unit :=
  for_suitable g (fun _ _ i =>
    let* r := lift (rget rates i) in
    if qltb r 1 then all_hosts (fun k => host_remove_by_ratio k i r) else ret tt).

(* HostPool::dispersers_from *)
(* CompetencyTable::find_competency (partial table) *)
Fixpoint find_competency (rows : list (list bool * Q)) (pres : list bool) (k : nat) (best : Q)
  : result Q :=
  match rows with
  | [] => Ok best
  | (req, comp) :: r =>
    if negb (Nat.eqb (length pres) (length req)) then Err InvalidArgument
    else
    match nth_error req k with
    | None => Err UB_OutOfBounds            (* host index beyond the environment's hosts *)
    | Some false => find_competency r pres k best
    | Some true =>
      if Qle_bool comp best then find_competency r pres k best
      else if row_subset req pres then find_competency r pres k comp
      else find_competency r pres k best
    end
  end.

(* std::map::at on the complete table: later rows overwrite earlier equal keys *)
Fixpoint complete_lookup (rows : list (list bool * Q)) (pres : list bool) (found : option Q)
  : result Q :=
  match rows with
  | [] => match found with Some q => Ok q | None => Err OutOfRange end
  | (key, comp) :: r =>
    complete_lookup r pres (if beq_list key pres then Some comp else found)
  end.

(* Config::competency_table_is_complete: 2^N rows for N presence columns *)
Definition table_is_complete (rows : list (list bool * Q)) : bool :=
  match rows with
  | [] => false
  | (key, _) :: _ => Nat.eqb (length rows) (2 ^ length key)
  end.

Definition competency_at (g : config) (k i : nat) : W Q :=
  match g_competency g with
  | None => ret 1%Q
  | Some rows =>
    let* pres := host_presence_at i in
    if table_is_complete rows then lift (complete_lookup rows pres None)
    else lift (find_competency rows pres k 0%Q)
  end.

Definition host_dispersers_from (g : config) (k i : nat) : W Z :=
  let* c := get_cell k i in
  let* e := pop in
  match e with
  | EvGenerate _ _ _ count =>
    if cI c <=? 0 then fail TapeMismatch   (* no event is logged for such a cell *)
    else
      let* hc := host_cfg g k in
      let* lam0 := (if g_weather g then let* wc := weather_at i in ret (h_rr hc * wc)%Q
                    else ret (h_rr hc)) in
      let* comp := competency_at g k i in
      let lam := match g_competency g with Some _ => (lam0 * comp)%Q | None => lam0 end in
      if h_disp_stoch hc then
        (if count <? 0 then fail TapeMismatch else ret count)
      else
        let expected := qlround (lam * zq (cI c)) in
        if count =? expected then ret count else fail TapeMismatch
  | _ => fail TapeMismatch
  end.

Definition set_raster_at (sel : world -> list Z) (upd : world -> list Z -> world)
           (i : nat) (v : Z) : W unit :=
  let* w := get in let* r := lift (rset (sel w) i v) in put (upd w r).
Definition upd_disp (w : world) (r : list Z) : world :=
  mkworld (w_hosts w) r (w_estab w) (w_outside w) (w_soil w) (w_weather w)
          (w_totpop w) (w_other w) (w_temp w) (w_last_index w).
Definition upd_estab (w : world) (r : list Z) : world :=
  mkworld (w_hosts w) (w_disp w) r (w_outside w) (w_soil w) (w_weather w)
          (w_totpop w) (w_other w) (w_temp w) (w_last_index w).
Definition upd_outside (w : world) (o : list (Z * Z)) : world :=
  mkworld (w_hosts w) (w_disp w) (w_estab w) o (w_soil w) (w_weather w)
          (w_totpop w) (w_other w) (w_temp w) (w_last_index w).
Definition upd_soil (w : world) (s : option (list (list Z))) : world :=
  mkworld (w_hosts w) (w_disp w) (w_estab w) (w_outside w) s (w_weather w)
          (w_totpop w) (w_other w) (w_temp w) (w_last_index w).
Definition upd_last_index (w : world) (k : Z) : world :=
  mkworld (w_hosts w) (w_disp w) (w_estab w) (w_outside w) (w_soil w) (w_weather w)
          (w_totpop w) (w_other w) (w_temp w) k.

(* SoilPool::disperser_to : one disperser into the youngest soil cohort *)
Definition soil_disperser_to (g : config) (i : nat) : W unit :=
  let* wc := weather_at i in
  let* e := pop in
  match e with
  | EvSoilTo tester _ res =>
    if negb (g_soil_est_stoch g) && negb (Qeq_bool tester (1 - g_soil_est_prob g))
    then fail TapeMismatch
    else if negb (Bool.eqb res (qltb tester wc)) && negb (qabs_small tester wc)
    then fail TapeMismatch
    else if res then
      let* w := get in
      match w_soil w with
      | None => fail UB_OutOfBounds
      | Some s =>
        let* cs := lift (rget s i) in
        let* cs' := lift (add_last cs 1) in
        let* s' := lift (rset s i cs') in
        put (upd_soil w (Some s'))
      end
    else ret tt
  | _ => fail TapeMismatch
  end.

(* SoilPool::dispersers_from *)
Definition soil_dispersers_from (g : config) (i : nat) : W Z :=
  let* w := get in
  match w_soil w with
  | None => fail UB_OutOfBounds
  | Some s =>
    let* cs := lift (rget s i) in
    let* wc := weather_at i in
    let* e := pop in
    match e with
    | EvSoilFrom _ _ _ count =>
      let total := sumZ cs in
      if negb (g_soil_gen_stoch g) && negb (count =? qfloor (wc * zq total))
      then fail TapeMismatch
      else if count <? 0 then fail TapeMismatch
      else
        let* d := pop_draw (length cs) in
        if valid_draw cs d count then
          let* s' := lift (rset s i (sub_list cs d)) in
          put (upd_soil w (Some s')) ;; ret count
        else fail TapeMismatch
    | _ => fail TapeMismatch
    end
  end.

(* SpreadAction::generate *)
Definition multi_dispersers_from (g : config) (i : nat) : W Z :=
  let* n := num_hosts in
  (fix go (k m : nat) (acc : Z) : W Z :=
     match m with
     | O => ret acc
     | S m' =>
       let* c := get_cell k i in
       let* d := (if cI c <=? 0 then ret 0 else host_dispersers_from g k i) in
       go (S k) m' (acc + d)
     end) 0%nat n 0.

Definition act_generate (g : config) : W unit :=
  for_suitable g (fun _ _ i =>
    let* d := multi_dispersers_from g i in
    if d >? 0 then
      let* w := get in
      let* d' := match w_soil w with
                 | Some _ =>
                   let to_soil := qlround (g_soil_pct g * zq d) in
                   mrepeat (Z.to_nat to_soil) (soil_disperser_to g i) ;; ret (d - to_soil)
                 | None => ret d
                 end in
      set_raster_at w_disp upd_disp i d' ;; set_raster_at w_estab upd_estab i 0
    else
      set_raster_at w_disp upd_disp i 0 ;; set_raster_at w_estab upd_estab i 0).

(* SpreadAction::disperse *)
Definition one_disperser (g : config) (ri ci : Z) (i : nat) : W unit :=
  let* e := pop in
  match e with
  | EvKernel i0 j0 row col =>
    if negb ((i0 =? ri) && (j0 =? ci)) then fail TapeMismatch
    else if is_outside g row col then
      let* w := get in put (upd_outside w (w_outside w ++ [(row, col)]))
    else
      let* t := lift (idx_of g row col) in
      let* est := multi_disperser_to g t in
      if est =? 0 then ret tt
      else
        let* w := get in
        let* cur := lift (rget (w_estab w) i) in
        set_raster_at w_estab upd_estab i (cur + 1)
  | _ => fail TapeMismatch
  end.

Definition act_disperse (g : config) : W unit :=
  for_suitable g (fun ri ci i =>
    let* w := get in
    let* d := lift (rget (w_disp w) i) in
    mrepeat (Z.to_nat d) (one_disperser g ri ci i) ;;
    match w_soil w with
    | Some _ =>
      let* n := soil_dispersers_from g i in
      mrepeat (Z.to_nat n) (let* _ := multi_disperser_to g i in ret tt)
    | None => ret tt
    end).

(* host_pool.step_forward(step) for every host and every cell *)
Definition act_step_forward (g : config) (step : Z) : W unit :=
  all_hosts (fun k =>
    let* h := get_host k in
    let* hc := host_cfg g k in
    let* cs := lift (fold_right (fun c acc =>
                  do a <- acc; do c' <- step_forward (h_mt hc) (h_latency hc) step c; Ok (c' :: a))
                  (Ok []) (hp_cells h)) in
    set_host k (mkhp cs (hp_suitable h))).

(* SoilPool::next_step: rotate and clear the youngest cohort, every cell *)
Definition act_soil_next (w : world) : world :=
  match w_soil w with
  | None => w
  | Some s => upd_soil w (Some (map (fun cs => match cs with [] => [] | _ :: r => r ++ [0] end) s))
  end.

(* MultiHostPool::pests_from / pests_to *)
Definition multi_pests_from (i : nat) (count : Z) : W Z :=
  let* n := num_hosts in
  let* d := pop_draw n in
  let* pops := host_field_at cI i in
  (if valid_draw pops d count then ret tt else fail TapeMismatch) ;;
  (fix go (k m : nat) (ds : list Z) (acc : Z) : W Z :=
     match m, ds with
     | S m', x :: r =>
       let* c := get_cell k i in
       let res := pests_from c x in
       set_cell k i (fst res) ;; go (S k) m' r (acc + snd res)
     | _, _ => ret acc
     end) 0%nat n d 0.
Definition multi_pests_to (i : nat) (count : Z) : W Z :=
  let* n := num_hosts in
  let* d := pop_draw n in
  let* pops := host_field_at cS i in
  (if valid_draw pops d count then ret tt else fail TapeMismatch) ;;
  (fix go (k m : nat) (ds : list Z) (acc : Z) : W Z :=
     match m, ds with
     | S m', x :: r =>
       let* c := get_cell k i in
       let res := pests_to c x in
       set_cell k i (fst res) ;; go (S k) m' r (acc + snd res)
     | _, _ => ret acc
     end) 0%nat n d 0.

Definition multi_infected_at (i : nat) : W Z :=
  let* w := get in
  lift (fold_right (fun h acc => do a <- acc; do c <- rget (hp_cells h) i; Ok (a + cI c))
                   (Ok 0) (w_hosts w)).
Definition multi_total_hosts_at (i : nat) : W Z :=
  let* w := get in
  lift (fold_right (fun h acc => do a <- acc; do c <- rget (hp_cells h) i; Ok (a + cS c + cI c))
                   (Ok 0) (w_hosts w)).

(* MoveOverpopulatedPests::action: departures first, then arrivals *)
Fixpoint repeat_pair (n : nat) (p : Z * Z) : list (Z * Z) :=
  match n with O => [] | S k => p :: repeat_pair k p end.

Definition overpop_departures (g : config) : W (list (nat * Z)) :=
  let* cells := suitable_cells in
  (fix go (l : list (Z * Z)) (moves : list (nat * Z)) : W (list (nat * Z)) :=
     match l with
     | [] => ret moves
     | (ri, ci) :: r =>
       let* i := lift (idx_of g ri ci) in
       let* orig := multi_infected_at i in
       if orig <=? 1 then go r moves
       else
         let* th := multi_total_hosts_at i in
         (* ratio = original_count / double(total_hosts) >= overpopulation_percentage *)
         if th =? 0 then fail UB_OutOfBounds else
         if Qle_bool (g_overpop_pct g) (zq orig / zq th)%Q then
           let* e := pop in
           match e with
           | EvOKernel i0 j0 row col =>
             if negb ((i0 =? ri) && (j0 =? ci)) then fail TapeMismatch else
             let leaving0 := qlround (zq orig * g_leaving_pct g) in
             let* leaving := multi_pests_from i leaving0 in
             if is_outside g row col then
               let* w := get in
               put (upd_outside w (w_outside w ++ repeat_pair (Z.to_nat leaving) (row, col))) ;;
               go r moves
             else
               let* t := lift (idx_of g row col) in
               go r (moves ++ [(t, leaving)])
           | _ => fail TapeMismatch
           end
         else go r moves
     end) cells [].

Definition act_overpopulation (g : config) : W unit :=
  let* moves := overpop_departures g in
  mfold (fun mv => let* _ := multi_pests_to (fst mv) (snd mv) in ret tt) moves.

(* HostPool::move_hosts_from_to on host 0 *)
Definition move_hosts (g : config) (rf cf rt ct count : Z) : W Z :=
  let* ifrom := lift (idx_of g rf cf) in
  let* ito := lift (idx_of g rt ct) in
  let* c := get_cell 0 ifrom in
  let moved := if count >? cTH c then cTH c else count in
  (* categories: infected 1, susceptible 2, exposed 3 (by total_exposed), resistant 4 *)
  let pop4 := [cI c; cS c; cTE c; cR c] in
  let* e := pop in
  match e with
  | EvDraw labels =>
    if negb (labels_below labels 1 5) then fail TapeMismatch else
    let d4 := map (fun k => count_label labels k) [1; 2; 3; 4] in
    if negb (valid_draw pop4 d4 moved) then fail TapeMismatch else
    let im := count_label labels 1 in let sm := count_label labels 2 in
    let em := count_label labels 3 in let rm := count_label labels 4 in
    let* ed := (if em >? 0 then pop_draw (length (cE c)) else ret (map (fun _ => 0) (cE c))) in
    (if (em >? 0) && negb (valid_draw (cE c) ed em) then fail TapeMismatch else ret tt) ;;
    let* md := (if im >? 0 then pop_draw (length (cM c)) else ret (map (fun _ => 0) (cM c))) in
    (if (im >? 0) && negb (valid_draw (cM c) md im) then fail TapeMismatch else ret tt) ;;
    (* destination becomes suitable when it held no hosts *)
    let* cto0 := get_cell 0 ito in
    (if cTH cto0 =? 0 then
       let* h := get_host 0 in
       if existsb (fun rc => (fst rc =? rt) && (snd rc =? ct)) (hp_suitable h) then ret tt
       else set_host 0 (mkhp (hp_cells h) (hp_suitable h ++ [(rt, ct)]))
     else ret tt) ;;
    (* subtract at the source, then add at the destination (they may coincide) *)
    let* c1 := get_cell 0 ifrom in
    set_cell 0 ifrom (mkcell (cS c1 - sm) (sub_list (cE c1) ed) (cI c1 - im) (cTE c1 - em)
                             (cR c1 - rm) (sub_list (cM c1) md) (cD c1) (cTH c1 - moved)) ;;
    let* c2 := get_cell 0 ito in
    set_cell 0 ito (mkcell (cS c2 + sm) (add_list (cE c2) ed) (cI c2 + im) (cTE c2 + em)
                           (cR c2 + rm) (add_list (cM c2) md) (cD c2) (cTH c2 + moved)) ;;
    ret moved
  | _ => fail TapeMismatch
  end.

(* HostMovement::action: rows from last_index while their schedule equals step *)
Fixpoint movement_loop (g : config) (step : Z) (rows : list (list Z * Z)) (i : Z) : W Z :=
  match rows with
  | [] => ret i
  | (mv, sched) :: r =>
    if negb (sched =? step) then ret i
    else
      match mv with
      | [rf; cf; rt; ct; count] =>
        let* _ := move_hosts g rf cf rt ct count in movement_loop g step r (i + 1)
      | _ => fail UB_OutOfBounds
      end
  end.

Definition act_movement (g : config) (step : Z) (moves : list (list Z * Z)) : W unit :=
  let* w := get in
  let* k := movement_loop g step (skipn (Z.to_nat (w_last_index w)) moves) (w_last_index w) in
  let* w' := get in put (upd_last_index w' k).

(* Mortality::action through the multi-host pool (per-host table rows) *)
Definition act_mortality (g : config) : W unit :=
  for_suitable g (fun _ _ i =>
    all_hosts (fun k =>
      let* hc := host_cfg g k in
      match h_pht hc with
      | None => fail InvalidArgument    (* "Set pest-host table before calling apply_mortality_at" *)
      | Some (_, rate, lag) =>
        let* c := get_cell k i in
        let* c' := lift (apply_mortality c rate lag) in
        set_cell k i c'
      end)) ;;
  all_hosts (fun k =>
    let* h := get_host k in
    set_host k (mkhp (map rotate_mortality (hp_cells h)) (hp_suitable h))).

(* ---------------- treatments ---------------- *)
Record treatment : Set := mktreatment
  { t_pesticide : bool; t_start : Z; t_end : Z; t_map : list Q; t_app : treatment_app }.

Definition apply_treatment (g : config) (k : nat) (t : treatment) : W unit :=
  let* h := get_host k in
  mfold (fun rc =>
    let* i := lift (idx_of g (fst rc) (snd rc)) in
    let* coef := lift (rget (t_map t) i) in
    let* c := get_cell k i in
    let* c' := lift (if t_pesticide t then treat_pesticide (t_app t) coef c
                     else treat_removal (t_app t) coef c) in
    set_cell k i c') (hp_suitable h).

Definition end_treatment (g : config) (k : nat) (t : treatment) : W unit :=
  if t_pesticide t then
    let* h := get_host k in
    mfold (fun rc =>
      let* i := lift (idx_of g (fst rc) (snd rc)) in
      let* coef := lift (rget (t_map t) i) in
      let* c := get_cell k i in
      set_cell k i (treat_pesticide_end coef c)) (hp_suitable h)
  else ret tt.

(* Treatments::manage(current, host) *)
Definition manage (g : config) (ts : list treatment) (current : Z) (k : nat) : W unit :=
  mfold (fun t =>
    if t_start t =? current then apply_treatment g k t
    else if t_pesticide t && (t_end t =? current) then end_treatment g k t
    else ret tt) ts.

Definition act_treatments (g : config) (ts : list treatment) (step : Z) : W unit :=
  all_hosts (fun k => manage g ts step k).

(* Treatments::clear_after_step *)
Definition clear_after_step (ts : list treatment) (step : Z) : list treatment :=
  filter (fun t => negb (t_start t >? step)) ts.
