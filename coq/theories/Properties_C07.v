(* C07  Steps tile the calendar without gaps or overlaps; day/week steps respect years.
   Statements only; each is closed by `exact` of a lemma proved in DateProps.v /
   SchedProps.v.  The model is DateDefs.v / SchedDefs.v (tied to date.hpp and
   scheduling.hpp by the correspondence check of bin/check C07). *)
From Coq Require Import ZArith List.
From Pops Require Import Err DateDefs DateProps SchedDefs SchedProps.
Import ListNotations.
Local Open Scope Z_scope.

(* Successors produce valid dates at the documented distance, for every year. *)
Theorem C07_add_day : forall d, valid d -> valid (add_day d) /\ dn (add_day d) = dn d + 1.
Proof. exact add_day_spec. Qed.
Print Assumptions C07_add_day.

Theorem C07_subtract_day : forall d, valid d -> valid (subtract_day d) /\ dn (subtract_day d) = dn d - 1.
Proof. exact subtract_day_spec. Qed.
Print Assumptions C07_subtract_day.

(* The comparison operators are the order of day numbers (a total order). *)
Theorem C07_order : forall a b, valid a -> valid b ->
  (dlt a b = true <-> dn a < dn b) /\ (dgt a b = true <-> dn a > dn b) /\
  (dle a b = true <-> dn a <= dn b) /\ (dge a b = true <-> dn a >= dn b) /\
  (deq a b = true <-> a = b) /\ (dn a = dn b -> a = b).
Proof.
  intros a b Va Vb.
  exact (conj (dlt_spec a b Va Vb) (conj (dgt_spec a b Va Vb) (conj (dle_spec a b Va Vb)
        (conj (dge_spec a b Va Vb) (conj (deq_spec a b) (dn_inj a b Va Vb)))))).
Qed.
Print Assumptions C07_order.

(* n-day successor (1 <= n <= 28): n days later, or 1 January of the next year
   when that day would lie in the last n days of the year (n+1 in leap years). *)
Theorem C07_day_successor : forall n d, valid d -> 1 <= n <= 28 -> merged_next n d (inc_days n d).
Proof. exact inc_days_spec. Qed.
Print Assumptions C07_day_successor.

Theorem C07_week_successor : forall d, valid d -> merged_next 7 d (inc_week d).
Proof. exact inc_week_spec. Qed.
Print Assumptions C07_week_successor.

Theorem C07_month_successor : forall d, valid d -> dy d = 1 ->
  let r := inc_month d in
  valid r /\ dy r = 1 /\ dn r = dn d + dim (is_leap (yr d)) (mo d) /\
  (mo d < 12 -> yr r = yr d /\ mo r = mo d + 1) /\
  (mo d = 12 -> yr r = yr d + 1 /\ mo r = 1).
Proof. exact inc_month_spec. Qed.
Print Assumptions C07_month_successor.

(* The constructor rejects exactly the documented inputs and otherwise (never
   running out of fuel) yields steps that tile [start, ...]: the first step
   starts at the start date, each further step starts the day after the previous
   one ends, every step starts on or before the end date and ends the day before
   the successor of its start, and the step after the last would start after the
   end date. *)
Theorem C07_steps_tile : forall start end_ u nz,
  valid start -> valid end_ -> (u = Day -> nz <= 28) ->
  (rejected start end_ u nz /\ mk_scheduler start end_ u nz = Err InvalidArgument)
  \/
  (~ rejected start end_ u nz /\
   exists n l, nz = Zpos n /\ mk_scheduler start end_ u nz = Ok (mksched u n l) /\
     tiles_from (dn start) l /\
     Forall (fun st => dn (s_start st) <= dn end_ /\ step_rule u n st) l /\
     after (dn start) l > dn end_ /\ l <> [] /\
     (forall st, hd_error l = Some st -> s_start st = start)).
Proof. exact mk_scheduler_spec. Qed.
Print Assumptions C07_steps_tile.

(* Each date from the start to the end of the last step belongs to exactly one
   step - the one the lookup returns; dates outside are rejected. *)
Theorem C07_lookup : forall start u n l d,
  tiles_from (dn start) l -> valid d ->
  let sc := mksched u n l in
  (dn start <= dn d < after (dn start) l ->
     exists k st, schedule_action_date sc d = Ok (Z.of_nat k) /\ nth_error l k = Some st /\ owns d st /\
       forall k' st', nth_error l k' = Some st' -> owns d st' -> k' = k) /\
  (dn d < dn start \/ after (dn start) l <= dn d ->
     schedule_action_date sc d = Err InvalidArgument /\ forall st, In st l -> ~ owns d st).
Proof. exact lookup_spec. Qed.
Print Assumptions C07_lookup.

(* Day steps (n <= 28) and one-week steps: every step lies within one year and
   is N days long unless it ends on 31 December with a merged tail; only the
   first step can begin inside a year's tail; every covered year starts a step
   on 1 January. *)
Theorem C07_day_week_steps_in_year : forall start end_ u n N l,
  valid start -> step_days u n = Some N -> (u = Day -> N <= 28) ->
  tiles_from (dn start) l ->
  Forall (fun st => dn (s_start st) <= dn end_ /\ step_rule u n st) l ->
  Forall (fun st =>
     let y := yr (s_start st) in
     let len := dn (s_end st) - dn (s_start st) + 1 in
     yr (s_end st) = y /\
     (len = N \/ (mo (s_end st) = 12 /\ dy (s_end st) = 31 /\ len <= 2 * N + leap1 y /\
                  (not_in_tail N (s_start st) -> N < len)))) l /\
  (forall k st, nth_error l (S k) = Some st -> not_in_tail N (s_start st)) /\
  (forall y, yr start < y -> dby y + 1 < after (dn start) l ->
     exists st, In st l /\ s_start st = mkdate y 1 1).
Proof. exact day_week_steps_in_year. Qed.
Print Assumptions C07_day_week_steps_in_year.

(* Non-vacuity: a concrete scheduler in the domain, crossing a leap-year end
   with a merged tail, satisfies the hypotheses (computed by the kernel). *)
Example C07_nonvacuous :
  exists l, mk_scheduler (mkdate 2020 11 2) (mkdate 2021 3 1) Day 27 = Ok (mksched Day 27 l)
            /\ length l = 5%nat
            /\ nth_error l 1 = Some (mkstep (mkdate 2020 11 29) (mkdate 2020 12 31)).
Proof. eexists. vm_compute. repeat split. Qed.
Print Assumptions C07_nonvacuous.
