(* C13  Stochastic kernels draw the configured distance law in the configured
   direction.

   Statements only; each is closed by `exact` of a lemma of KernelGeomProps.v,
   KernelPlumbProps.v, KernelTableProps.v or KernelSwitchProps.v.  Every
   definition named radial_*, vm_*, *_pdf, *_icdf, *_dist, *_random,
   neighbor_offset, uniform_*, mix_*, factory_*, *_name_table, direction_value,
   gen_switch_*, class_eligible, class_supports, wrapper_eligible,
   switch_stored_stochasticity, dynamic_kernel_args comes from
   GeneratedKernelTables.v, which translate/kernel_tables.py rewrites from the
   headers on every check: the theorems are re-proved about what the code says
   now.  Hand-written, specification side: compass, compass_degrees,
   compass_cos_sin, iso_density (the densities of ISO C++ [rand.dist]),
   logistic_cdf, hyperbolic_secant_cdf, power_law_cdf, canonical names.

   What is proved is what pops-core is responsible for (DESIGN.md 3.3): how a
   drawn distance and angle become a cell offset, how configuration values are
   handed to the std distributions, how a uniform variate is turned into a
   distance by icdf, which table entry / branch is taken.

   PARTIAL (modelled, not proved):
   - that libstdc++'s std::*_distribution, bernoulli_distribution and
     uniform_int_distribution sample the densities ISO C++ prescribes
     (iso_density is the specification; validated by goodness-of-fit runs in the
     harness, never used as a theorem);
   - the law of the angle returned by the von Mises rejection sampler for
     kappa > 1e-6 (only: acos is applied to a value in [-1,1], the result is
     mu +/- acos f modulo a full turn, symmetric about mu);
   - the exponential-power sampler (icdf = Newton iteration on the gamma cdf);
   - binary64 rounding (statements are over R).
   G stands for the gamma function: statements mentioning it hold for every G. *)
From Coq Require Import ZArith Reals String List Bool.
From Coquelicot Require Import Coquelicot.
From Pops Require Import Err KernelTypesDefs GeneratedKernelTables
  KernelGeomDefs KernelGeomProps KernelPlumbDefs KernelPlumbProps KernelTableDefs KernelTableProps
  KernelSwitchDefs KernelSwitchProps.
Import ListNotations.
Local Open Scope R_scope.

(* ====================== (a) geometry ====================== *)

(* lround as used in the offsets: nearest integer, odd, fixes integers. *)
Theorem C13_lround_nearest : forall x, Rabs (IZR (Rlround x) - x) <= / 2.
Proof. exact Rlround_err. Qed.
Print Assumptions C13_lround_nearest.

Theorem C13_lround_odd : forall x, Rlround (- x) = (- Rlround x)%Z.
Proof. exact Rlround_opp. Qed.
Print Assumptions C13_lround_odd.

(* The offset of RadialDispersalKernel::operator() for distance d and angle
   theta, constructed with (ew_res, ns_res): north-south resolution divides the
   row displacement d*cos(theta) (subtracted), east-west the column
   displacement d*sin(theta) (added). *)
Theorem C13_offset_formula : forall ew ns row col d theta,
  radial_offset ew ns row col d theta =
  ((row - Rlround (d * cos theta / ns))%Z, (col + Rlround (d * sin theta / ew))%Z).
Proof. exact offset_formula. Qed.
Print Assumptions C13_offset_formula.

(* Map distance is converted to cells with the north-south resolution for rows
   and the east-west resolution for columns, up to half a cell. *)
Theorem C13_offset_resolution : forall ew ns row col d theta, 0 < ns -> 0 < ew ->
  let p := radial_offset ew ns row col d theta in
  Rabs (IZR (row - fst p) * ns - d * cos theta) <= ns / 2 /\
  Rabs (IZR (snd p - col) * ew - d * sin theta) <= ew / 2.
Proof. exact offset_resolution. Qed.
Print Assumptions C13_offset_resolution.

(* North (cos >= 0) never increases the row, south never decreases it; east
   (sin >= 0) never decreases the column, west never increases it. *)
Theorem C13_offset_signs : forall ew ns row col d theta, 0 <= d -> 0 < ns -> 0 < ew ->
  let p := radial_offset ew ns row col d theta in
  (0 <= cos theta -> (fst p <= row)%Z) /\ (cos theta <= 0 -> (row <= fst p)%Z) /\
  (0 <= sin theta -> (col <= snd p)%Z) /\ (sin theta <= 0 -> (snd p <= col)%Z).
Proof. exact offset_signs. Qed.
Print Assumptions C13_offset_signs.

(* The Direction table: degrees clockwise from north, mu = deg*pi/180, and the
   cosine / sine of each of the eight angles. *)
Theorem C13_direction_degrees : forall d deg, compass_degrees d = Some deg ->
  direction_value d = deg /\ radial_vm_mu d = IZR deg * PI / 180.
Proof. exact direction_degrees_mu. Qed.
Print Assumptions C13_direction_degrees.

Theorem C13_direction_cos_sin : forall d, d <> DirNone ->
  cos (radial_vm_mu d) = fst (compass_cos_sin d) /\ sin (radial_vm_mu d) = snd (compass_cos_sin d).
Proof. exact direction_cos_sin. Qed.
Print Assumptions C13_direction_cos_sin.

(* Along the four cardinal directions: north decreases the row by lround(d/ns)
   and leaves the column, east increases the column by lround(d/ew), ... *)
Theorem C13_offset_cardinal : forall ew ns row col d,
  radial_offset ew ns row col d (radial_vm_mu DirN) = ((row - Rlround (d / ns))%Z, col) /\
  radial_offset ew ns row col d (radial_vm_mu DirE) = (row, (col + Rlround (d / ew))%Z) /\
  radial_offset ew ns row col d (radial_vm_mu DirS) = ((row + Rlround (d / ns))%Z, col) /\
  radial_offset ew ns row col d (radial_vm_mu DirW) = (row, (col - Rlround (d / ew))%Z).
Proof. exact offset_cardinal. Qed.
Print Assumptions C13_offset_cardinal.

(* ... and along the diagonals both components move by d/sqrt 2, each over its
   own resolution, with the compass signs. *)
Theorem C13_offset_diagonal : forall ew ns row col d,
  let a := Rlround (d / sqrt 2 / ns) in let b := Rlround (d / sqrt 2 / ew) in
  radial_offset ew ns row col d (radial_vm_mu DirNE) = ((row - a)%Z, (col + b)%Z) /\
  radial_offset ew ns row col d (radial_vm_mu DirSE) = ((row + a)%Z, (col + b)%Z) /\
  radial_offset ew ns row col d (radial_vm_mu DirSW) = ((row + a)%Z, (col - b)%Z) /\
  radial_offset ew ns row col d (radial_vm_mu DirNW) = ((row - a)%Z, (col - b)%Z).
Proof. exact offset_diagonal. Qed.
Print Assumptions C13_offset_diagonal.

(* No direction: the concentration handed to the von Mises sampler is 0 whatever
   was configured, and the angle is 2*pi*u (uniform) for the uniform variate u. *)
Theorem C13_kappa_of_direction : forall d k,
  (d = DirNone -> radial_vm_kappa d k = 0) /\ (d <> DirNone -> radial_vm_kappa d k = k).
Proof. exact kappa_of_direction. Qed.
Print Assumptions C13_kappa_of_direction.

Theorem C13_no_direction_uniform_angle : forall kappa_cfg u0 u1 u3,
  radial_angle DirNone kappa_cfg u0 u1 u3 = 2 * PI * u0 /\
  (0 <= u0 < 1 -> 0 <= radial_angle DirNone kappa_cfg u0 u1 u3 < 2 * PI).
Proof. exact radial_angle_no_direction. Qed.
Print Assumptions C13_no_direction_uniform_angle.

Theorem C13_small_kappa_uniform_angle : forall mu kappa u0 u1 u3, kappa <= 1 / 1000000 ->
  vm_angle mu kappa u0 u1 u3 = 2 * PI * u0.
Proof. exact vm_angle_uniform. Qed.
Print Assumptions C13_small_kappa_uniform_angle.

(* von Mises acceptance step (kappa > 1e-6): acos is applied to a value of
   absolute value <= 1, the acceptance constant is non-negative, the angle is
   one of mu + acos f, mu - acos f (modulo a full turn) and its cosine relative
   to mu is f on either side. *)
Theorem C13_von_mises_acos_defined : forall kappa u1, 0 < kappa ->
  -1 <= vm_f_of kappa u1 <= 1 /\ 0 <= vm_c_of kappa u1.
Proof. exact vm_acos_argument_bounded. Qed.
Print Assumptions C13_von_mises_acos_defined.

Theorem C13_von_mises_symmetric : forall mu f, -1 <= f <= 1 ->
  let up := vm_theta_upper mu f in let lo := vm_theta_lower mu f in
  cos up = cos (mu + acos f) /\ sin up = sin (mu + acos f) /\
  cos lo = cos (mu - acos f) /\ sin lo = sin (mu - acos f) /\
  cos (up - mu) = f /\ cos (lo - mu) = f /\
  sin (up - mu) = sqrt (1 - f²) /\ sin (lo - mu) = - sqrt (1 - f²).
Proof. exact vm_result_symmetric. Qed.
Print Assumptions C13_von_mises_symmetric.

Theorem C13_von_mises_angle_partial : forall mu kappa u0 u1 u3, vm_is_uniform kappa = false ->
  let f := vm_f_of kappa u1 in
  -1 <= f <= 1 /\
  (vm_angle mu kappa u0 u1 u3 = vm_theta_upper mu f \/ vm_angle mu kappa u0 u1 u3 = vm_theta_lower mu f) /\
  cos (vm_angle mu kappa u0 u1 u3 - mu) = f.
Proof. exact vm_angle_concentrated. Qed.
Print Assumptions C13_von_mises_angle_partial.

(* ====================== (b) parameter plumbing ====================== *)
(* For a RadialDispersalKernel of the given type constructed with
   (distance_scale, shape): which std distribution its member kernel samples
   (folded by std::abs), and that the ISO density of that distribution equals
   the kernel's own pdf. *)
Theorem C13_plumbing_cauchy : forall G scale shape x, 0 < scale ->
  radial_distance KCauchy scale shape = Ok (DrawStd (StdCauchy 0 scale) true, true) /\
  iso_density G (StdCauchy 0 scale) x = cauchy_pdf scale x /\
  cauchy_pdf scale (- x) = cauchy_pdf scale x.
Proof. exact cauchy_plumbing. Qed.
Print Assumptions C13_plumbing_cauchy.

Theorem C13_plumbing_exponential : forall G scale shape x, 0 < scale ->
  radial_distance KExponential scale shape = Ok (DrawStd (StdExponential (1 / scale)) true, true) /\
  iso_density G (StdExponential (1 / scale)) x = exponential_pdf scale x.
Proof. exact exponential_plumbing. Qed.
Print Assumptions C13_plumbing_exponential.

Theorem C13_plumbing_weibull : forall G scale shape x,
  radial_distance KWeibull scale shape = Ok (DrawStd (StdWeibull shape scale) true, true) /\
  iso_density G (StdWeibull shape scale) x = weibull_pdf scale shape x.
Proof. exact weibull_plumbing. Qed.
Print Assumptions C13_plumbing_weibull.

Theorem C13_plumbing_normal : forall G scale shape x, 0 < scale ->
  radial_distance KNormal scale shape = Ok (DrawStd (StdNormal 0 scale) true, true) /\
  iso_density G (StdNormal 0 scale) x = normal_pdf scale x /\
  normal_pdf scale (- x) = normal_pdf scale x.
Proof. exact normal_plumbing. Qed.
Print Assumptions C13_plumbing_normal.

Theorem C13_plumbing_lognormal : forall G scale shape x, 0 < scale -> 0 < x ->
  radial_distance KLogNormal scale shape = Ok (DrawStd (StdLognormal 0 scale) true, true) /\
  iso_density G (StdLognormal 0 scale) x = lognormal_pdf scale x.
Proof. exact lognormal_plumbing. Qed.
Print Assumptions C13_plumbing_lognormal.

(* Gamma: alpha := distance_scale, theta := shape; the second argument of
   std::gamma_distribution is a SCALE and the pdf uses scale theta.  (Holds for
   the repaired constructor, notes/findings/C13_gamma_scale.md; with
   gamma_distribution(alpha, 1.0 / theta) this obligation fails.) *)
Theorem C13_plumbing_gamma : forall G scale shape x,
  radial_distance KGamma scale shape = Ok (DrawStd (StdGamma scale shape) true, true) /\
  iso_density G (StdGamma scale shape) x = gamma_pdf G scale shape x.
Proof. exact gamma_plumbing. Qed.
Print Assumptions C13_plumbing_gamma.

(* Kernels drawn as icdf(U), U ~ uniform(0,1): the kernel's pdf is the
   derivative of a cdf F with F (icdf u) = u on (0,1), so {icdf U <= x} is the
   event {U <= F x}: inverse-transform sampling of the kernel's own density.
   The two-sided value is folded by std::abs in operator(); the pdf is even. *)
Theorem C13_inverse_transform_logistic : forall scale shape, 0 < scale ->
  radial_distance KLogistic scale shape = Ok (DrawIcdf (StdUniformReal 0 1) false, true) /\
  (forall x, is_derive (logistic_cdf scale) x (logistic_pdf scale x)) /\
  (forall u, 0 < u < 1 -> logistic_cdf scale (logistic_icdf scale u) = u) /\
  inverse_transform (logistic_cdf scale) (logistic_icdf scale) /\
  (forall x, logistic_pdf scale (- x) = logistic_pdf scale x).
Proof. exact logistic_plumbing. Qed.
Print Assumptions C13_inverse_transform_logistic.

Theorem C13_inverse_transform_hyperbolic_secant : forall scale shape, 0 < scale ->
  radial_distance KHyperbolicSecant scale shape = Ok (DrawIcdf (StdUniformReal 0 1) false, true) /\
  (forall x, is_derive (hyperbolic_secant_cdf scale) x (hyperbolic_secant_pdf scale x)) /\
  (forall u, 0 < u < 1 -> hyperbolic_secant_cdf scale (hyperbolic_secant_icdf scale u) = u) /\
  inverse_transform (hyperbolic_secant_cdf scale) (hyperbolic_secant_icdf scale) /\
  (forall x, hyperbolic_secant_pdf scale (- x) = hyperbolic_secant_pdf scale x).
Proof. exact hyperbolic_secant_plumbing. Qed.
Print Assumptions C13_inverse_transform_hyperbolic_secant.

(* Power law (alpha := distance_scale, xmin := shape): the sampler is icdf(U),
   but icdf is NOT the inverse of the cdf of the kernel's pdf (known finding
   C13.quantile.power_law).  True restriction: the pdf does have the cdf
   1 - ((x+xmin)/xmin)^(1-alpha) on x >= 0, and the quantile that inverts it is
   xmin*((1-u)^(1/(1-alpha)) - 1). *)
Theorem C13_power_law_quantile_refuted :
  exists a xm u, 1 < a /\ 0 < xm /\ 0 < u < 1 /\
    power_law_cdf a xm (power_law_icdf a xm u) <> u.
Proof. exact power_law_icdf_refuted. Qed.
Print Assumptions C13_power_law_quantile_refuted.

Theorem C13_power_law_partial : forall scale shape,
  radial_distance KPowerLaw scale shape = Ok (DrawIcdf (StdUniformReal 0 1) false, true) /\
  (0 < shape -> forall x, 0 <= x -> is_derive (power_law_cdf scale shape) x (power_law_pdf scale shape x)) /\
  (0 < shape -> power_law_cdf scale shape 0 = 0) /\
  (1 < scale -> 0 < shape -> forall u, 0 < u < 1 ->
     power_law_cdf scale shape (power_law_quantile scale shape u) = u).
Proof. exact power_law_plumbing_partial. Qed.
Print Assumptions C13_power_law_partial.

(* Exponential power: only the form of the draw (icdf of a uniform variate,
   folded by std::abs); its icdf is a numerical iteration - not proved. *)
Theorem C13_exponential_power_partial : forall scale shape,
  radial_distance KExponentialPower scale shape = Ok (DrawIcdf (StdUniformReal 0 1) false, true).
Proof. exact exponential_power_plumbing_partial. Qed.
Print Assumptions C13_exponential_power_partial.

Theorem C13_radial_unsupported_types : forall k scale shape,
  In k [KUniform; KDeterministicNeighbor; KNetwork; KNone] ->
  radial_distance k scale shape = Err InvalidArgument.
Proof. exact radial_unsupported. Qed.
Print Assumptions C13_radial_unsupported_types.

(* ====================== (c) neighbour and uniform kernels ====================== *)
Theorem C13_neighbor_is_compass : forall d,
  match compass d with
  | Some off => neighbor_offset d = Ok off
  | None => neighbor_offset d = Err InvalidArgument
  end.
Proof. exact neighbor_table_is_compass. Qed.
Print Assumptions C13_neighbor_is_compass.

Theorem C13_neighbor_one_cell : forall d row col r c, neighbor_call d row col = Ok (r, c) ->
  (Z.abs (r - row) <= 1 /\ Z.abs (c - col) <= 1 /\ (r, c) <> (row, col))%Z.
Proof. exact neighbor_one_cell. Qed.
Print Assumptions C13_neighbor_one_cell.

(* The compass offsets have the signs of the radial geometry of the same
   direction (ties the neighbour table to the degrees table). *)
Theorem C13_neighbor_matches_radial : forall dir dr dc, compass dir = Some (dr, dc) ->
  (0 < cos (radial_vm_mu dir) <-> (dr < 0)%Z) /\ (cos (radial_vm_mu dir) < 0 <-> (0 < dr)%Z) /\
  (0 < sin (radial_vm_mu dir) <-> (0 < dc)%Z) /\ (sin (radial_vm_mu dir) < 0 <-> (dc < 0)%Z).
Proof. exact neighbor_matches_radial_signs. Qed.
Print Assumptions C13_neighbor_matches_radial.

(* Uniform kernel: the position is the pair of integers drawn from the two
   uniform_int_distributions (independent of the source cell); "lands anywhere
   in the landscape" holds iff their ranges are [0,rows-1] x [0,cols-1]; and
   that is what the library constructs from a rows x cols landscape at its three
   call sites.  (Holds for the repaired constructor,
   notes/findings/C13_uniform_upper_bound.md; with (0, row_max) the last
   obligation fails.) *)
Theorem C13_uniform_result : forall k_row k_col row col,
  uniform_result k_row k_col row col = (k_row, k_col).
Proof. exact uniform_result_is_draw. Qed.
Print Assumptions C13_uniform_result.

Theorem C13_uniform_landscape_iff : forall b rows cols, (1 <= rows)%Z -> (1 <= cols)%Z ->
  (covers_landscape b rows cols <-> covers_landscape_b b rows cols = true).
Proof. exact covers_landscape_iff. Qed.
Print Assumptions C13_uniform_landscape_iff.

Theorem C13_uniform_lands_in_landscape : forall rows cols, (1 <= rows)%Z -> (1 <= cols)%Z ->
  covers_landscape (uniform_bounds (uniform_args_model rows cols)) rows cols /\
  covers_landscape (uniform_bounds (uniform_args_natural rows cols)) rows cols /\
  covers_landscape (uniform_bounds (uniform_args_anthropogenic rows cols)) rows cols.
Proof. exact uniform_covers_landscape. Qed.
Print Assumptions C13_uniform_lands_in_landscape.

(* ====================== (d) natural / anthropogenic mix ====================== *)
(* bern is the outcome of bernoulli_distribution(percent_natural_dispersal):
   true (probability percent_natural by ISO) means natural. *)
Theorem C13_mix_decision_table : forall use_anthro eligible bern,
  (mix_choice_of use_anthro eligible bern = MixAnthropogenic <->
     use_anthro = true /\ eligible = true /\ bern = false) /\
  (mix_choice_of use_anthro eligible bern = MixNatural <->
     use_anthro = false \/ eligible = false \/ bern = true) /\
  (mix_draws_bernoulli use_anthro eligible = true <-> use_anthro = true /\ eligible = true).
Proof. exact mix_decision_table. Qed.
Print Assumptions C13_mix_decision_table.

Theorem C13_mix_bernoulli_is_percent_natural : forall p, mix_bernoulli_p p = p.
Proof. exact (fun p => eq_refl). Qed.
Print Assumptions C13_mix_bernoulli_is_percent_natural.

Theorem C13_mix_streams :
  mix_bernoulli_stream = StreamAnthropogenic /\
  mix_kernel_stream MixNatural = StreamNatural /\
  mix_kernel_stream MixAnthropogenic = StreamAnthropogenic.
Proof. exact mix_streams. Qed.
Print Assumptions C13_mix_streams.

(* ====================== (e) names ====================== *)
Theorem C13_kernel_names_sound : forall s k, kernel_type_from_string s = Ok k ->
  (s = ""%string /\ k = KNone) \/ normalize s = canonical_kernel_name k.
Proof. exact kernel_names_sound. Qed.
Print Assumptions C13_kernel_names_sound.

Theorem C13_kernel_names_complete : forall k,
  kernel_type_from_string (canonical_kernel_name k) = Ok k.
Proof. exact kernel_names_complete. Qed.
Print Assumptions C13_kernel_names_complete.

Theorem C13_kernel_names_unknown_rejected : forall s,
  (exists k, kernel_type_from_string s = Ok k) \/ kernel_type_from_string s = Err InvalidArgument.
Proof. exact kernel_names_unknown. Qed.
Print Assumptions C13_kernel_names_unknown_rejected.

Theorem C13_direction_names_sound : forall s d, direction_from_string s = Ok d ->
  (d = DirNone /\ (s = ""%string \/ normalize s = "none"%string)) \/
  (d <> DirNone /\ s = direction_name d).
Proof. exact direction_names_sound. Qed.
Print Assumptions C13_direction_names_sound.

Theorem C13_direction_names_complete : forall d, direction_from_string (direction_name d) = Ok d.
Proof. exact direction_names_complete. Qed.
Print Assumptions C13_direction_names_complete.

Theorem C13_direction_names_unknown_rejected : forall s,
  (exists d, direction_from_string s = Ok d) \/ direction_from_string s = Err InvalidArgument.
Proof. exact direction_names_unknown. Qed.
Print Assumptions C13_direction_names_unknown_rejected.

(* The factories choose the kernel class the kernel type names, and pass the
   configuration values to RadialDispersalKernel in the order of its parameters. *)
Theorem C13_factories : forall k stochastic,
  factory_natural k stochastic = factory_natural_spec k stochastic /\
  factory_anthropogenic k stochastic = factory_anthropogenic_spec k stochastic.
Proof. exact factories_spec. Qed.
Print Assumptions C13_factories.

Theorem C13_factories_radial_arguments :
  factory_natural_radial_args = radial_args_spec "natural" "natural_kernel" /\
  factory_anthropogenic_radial_args = radial_args_spec "anthro" "anthro_kernel".
Proof. exact factories_radial_args. Qed.
Print Assumptions C13_factories_radial_arguments.

(* ====================== (f) SwitchDispersalKernel and the eligibility of real kernels ====================== *)
(* gen_switch_dispatch / gen_switch_eligible / gen_switch_supports are the
   if-chains of SwitchDispersalKernel::operator(), is_cell_eligible and
   supports_kernel in source order; class_eligible / class_supports the bodies of
   is_cell_eligible / supports_kernel of the five kernel classes; wrapper_eligible
   that of DynamicWrapperKernel; all regenerated from the headers on every check.
   node_at: the network has a node at the source cell.  The statements hold for
   EVERY kernel type, flag value and node_at (finite case analysis over the
   translated tables). *)

(* The constructor stores the stochasticity flag as given; its default is true. *)
Theorem C13_switch_stochasticity_stored :
  (forall s, switch_stored_stochasticity s = s) /\ switch_default_stochasticity = true.
Proof. exact switch_stochasticity_stored. Qed.
Print Assumptions C13_switch_stochasticity_stored.

(* operator() calls the kernel the type names: Uniform -> uniform kernel,
   DeterministicNeighbor -> neighbour kernel, Network -> network kernel, every
   other type -> radial kernel when stochastic, deterministic kernel when not. *)
Theorem C13_switch_dispatch : forall ty stoch,
  switch_target ty stoch = switch_target_spec ty stoch /\
  (ty = KUniform -> switch_target ty stoch = CUniform) /\
  (ty = KDeterministicNeighbor -> switch_target ty stoch = CNeighbor) /\
  (ty = KNetwork -> switch_target ty stoch = CNetwork) /\
  (ty <> KUniform -> ty <> KDeterministicNeighbor -> ty <> KNetwork ->
     switch_target ty stoch = if stoch then CRadial else CDeterministic).
Proof. exact switch_dispatch_full. Qed.
Print Assumptions C13_switch_dispatch.

(* Eligibility of the real kernel classes: radial, deterministic, uniform and
   neighbour kernels are eligible everywhere, the network kernel iff the network
   has a node at the cell; DynamicWrapperKernel forwards its kernel's answer. *)
Theorem C13_kernel_eligibility : forall c node_at,
  elig_eval (class_eligible c) node_at = (match c with CNetwork => node_at | _ => true end) /\
  wrapper_eligible (elig_eval (class_eligible c) node_at) = elig_eval (class_eligible c) node_at.
Proof. exact kernel_eligibility. Qed.
Print Assumptions C13_kernel_eligibility.

(* is_cell_eligible of the switch kernel is consistent with operator(): it is the
   eligibility of the member kernel operator() calls, i.e. node_at exactly when
   that is the network kernel (ty = Network) and true otherwise; and where it is
   true the call does not throw for lack of a node. *)
Theorem C13_switch_eligible_consistent : forall ty stoch node_at,
  switch_eligible ty stoch node_at = elig_eval (class_eligible (switch_target ty stoch)) node_at /\
  switch_eligible ty stoch node_at = (match switch_target ty stoch with CNetwork => node_at | _ => true end) /\
  (switch_eligible ty stoch node_at = true <-> (ty = KNetwork -> node_at = true)) /\
  (switch_eligible ty stoch node_at = true -> class_call_throws (switch_target ty stoch) node_at = false).
Proof. exact switch_eligible_full. Qed.
Print Assumptions C13_switch_eligible_consistent.

(* supports_kernel as the code has it: the five classes list the types they
   name, the switch kernel lists Uniform, DeterministicNeighbor and the ten
   radial types - it dispatches Network but does not list it (observation). *)
Theorem C13_switch_supports : forall ty,
  (forall c, class_supports c ty = kernel_type_in ty (class_supports_spec c)) /\
  switch_supports ty = kernel_type_in ty (KUniform :: KDeterministicNeighbor :: radial_kernel_types) /\
  switch_supports KNetwork = false.
Proof. exact switch_supports_full. Qed.
Print Assumptions C13_switch_supports.

(* Kernels built by create_natural_kernel / create_anthro_kernel: the natural one
   is eligible everywhere, the anthropogenic one iff it is not the network kernel
   or the cell has a node; the hand-built switch kernel and the factory agree on
   class and eligibility for every type and flag; create_dynamic_kernel hands
   (natural kernel, anthropogenic kernel, use_anthropogenic_kernel,
   percent_natural_dispersal) to the mix in this order, builds the anthropogenic
   kernel whenever it is enabled (it may pass a null pointer otherwise), and the
   mix asks the anthropogenic kernel for eligibility only when it is enabled
   (|| short-circuits), so a kernel that was left out is never dereferenced. *)
Theorem C13_factory_eligibility : forall k stoch node_at,
  factory_natural_eligible k stoch node_at = true /\
  factory_anthropogenic_eligible k stoch node_at =
    (match factory_anthropogenic k stoch with CNetwork => node_at | _ => true end) /\
  (factory_anthropogenic_eligible k stoch node_at = true <-> (k = KNetwork -> node_at = true)).
Proof. exact factory_eligibility. Qed.
Print Assumptions C13_factory_eligibility.

Theorem C13_construction_routes_agree : forall ty stoch node_at,
  switch_target ty stoch = factory_anthropogenic ty stoch /\
  switch_eligible ty stoch node_at = factory_anthropogenic_eligible ty stoch node_at.
Proof. exact routes_agree. Qed.
Print Assumptions C13_construction_routes_agree.

Theorem C13_dynamic_kernel_arguments :
  dynamic_kernel_args = dynamic_kernel_args_spec /\
  dynamic_kernel_anthro_built true = true /\
  (forall use, mix_queries_eligibility use = use) /\
  (forall use, dynamic_mix_null_dereference use = false).
Proof. exact dynamic_kernel_arguments. Qed.
Print Assumptions C13_dynamic_kernel_arguments.

(* The mix built from REAL kernels (translated decision expression composed with
   the translated eligibility), for both construction routes: the anthropogenic
   kernel is used only if it is enabled and eligible at the source cell - for the
   network kernel: the cell has a node - and the Bernoulli draw says so; the
   Bernoulli is drawn iff enabled and eligible; the kernel that is called never
   throws for lack of a node. *)
Theorem C13_mix_real_kernels_switch : forall use ty stoch node_at bern,
  (mix_switch_choice use ty stoch node_at bern = MixAnthropogenic <->
     use = true /\ (ty = KNetwork -> node_at = true) /\ bern = false) /\
  (mix_switch_choice use ty stoch node_at bern = MixNatural <->
     use = false \/ (ty = KNetwork /\ node_at = false) \/ bern = true) /\
  (mix_switch_draws use ty stoch node_at = true <-> use = true /\ (ty = KNetwork -> node_at = true)).
Proof. exact mix_switch_decision. Qed.
Print Assumptions C13_mix_real_kernels_switch.

Theorem C13_mix_real_kernels_factory : forall use ty stoch node_at bern,
  (mix_factory_choice use ty stoch node_at bern = MixAnthropogenic <->
     use = true /\ (ty = KNetwork -> node_at = true) /\ bern = false) /\
  (mix_factory_choice use ty stoch node_at bern = MixNatural <->
     use = false \/ (ty = KNetwork /\ node_at = false) \/ bern = true) /\
  (mix_factory_draws use ty stoch node_at = true <-> use = true /\ (ty = KNetwork -> node_at = true)).
Proof. exact mix_factory_decision. Qed.
Print Assumptions C13_mix_real_kernels_factory.

Theorem C13_mix_never_calls_ineligible : forall use ty stoch node_at bern,
  (mix_switch_choice use ty stoch node_at bern = MixAnthropogenic ->
     class_call_throws (switch_target ty stoch) node_at = false) /\
  (mix_factory_choice use ty stoch node_at bern = MixAnthropogenic ->
     class_call_throws (factory_anthropogenic ty stoch) node_at = false).
Proof. exact mix_never_calls_ineligible. Qed.
Print Assumptions C13_mix_never_calls_ineligible.

Example C13_nonvacuous_switch :
  switch_target KNetwork false = CNetwork /\ switch_target KGamma false = CDeterministic /\
  switch_target KGamma true = CRadial /\ switch_target KUniform false = CUniform /\
  switch_eligible KNetwork true false = false /\ switch_eligible KNetwork true true = true /\
  switch_eligible KCauchy false false = true /\
  mix_switch_choice true KNetwork true false false = MixNatural /\
  mix_switch_draws true KNetwork true false = false /\
  mix_switch_choice true KNetwork true true false = MixAnthropogenic /\
  mix_factory_choice true KNetwork false false false = MixNatural /\
  mix_factory_choice true KCauchy false false false = MixAnthropogenic.
Proof. vm_compute. repeat split. Qed.
Print Assumptions C13_nonvacuous_switch.

(* Non-vacuity: concrete instances computed by the kernel of Coq. *)
Example C13_nonvacuous_tables :
  kernel_type_from_string "Power-Law" = Ok KPowerLaw /\
  kernel_type_from_string "powerlaw" = Err InvalidArgument /\
  direction_from_string "SW" = Ok DirSW /\ direction_from_string "sw" = Err InvalidArgument /\
  neighbor_call DirSW 5 7 = Ok (6, 6)%Z /\
  mix_choice_of true true false = MixAnthropogenic /\ mix_choice_of true false false = MixNatural /\
  uniform_bounds (uniform_args_model 3 5) = ((0, 2), (0, 4))%Z.
Proof. vm_compute. repeat split. Qed.
Print Assumptions C13_nonvacuous_tables.

(* East at 90 m with 30 m (ns) x 10 m (ew) cells: nine columns east, same row. *)
Example C13_nonvacuous_geometry :
  radial_offset 10 30 4 4 90 (radial_vm_mu DirE) = (4, 13)%Z.
Proof. exact east_example. Qed.
Print Assumptions C13_nonvacuous_geometry.
