(* C03  Derived totals always equal the sum of their parts.
   Statements only.  Inv0 holds the identities total hosts = S + sum E + I + R
   and total exposed = sum E; InvM is infected = sum of the mortality cohorts,
   InvLe the weaker sum of mortality cohorts <= infected.  Levels (RunProps.v):
     Basic - every configuration: Inv0 in every cell after every action;
     Le    - no overpopulation movement, no pesticide treatment: also InvLe,
             hence mortality never fails (C03_mortality_never_fails);
     Eq    - no overpopulation movement, no treatments: also InvM.
   The clause "infected = sum of mortality cohorts" is REFUTED for fractional
   treatments (known findings of C03): the ..._refuted theorems below.  Tie: bin/check C03. *)
From Coq Require Import ZArith QArith List.
From Pops Require Import Err Rounding CellDefs CellProps LandDefs MonadProps LandProps ShapeProps LandProps2
     ModelDefs ModelProps RunProps ActionProps.
Import ListNotations.
Local Open Scope Z_scope.

Theorem C03_after_each_action : forall lv q ne nm m inp step w t,
  cfg_ok (m_g m) -> inputs_ok inp -> level_ok lv m inp -> J lv q ne nm w ->
  Forall (fun x => J lv q ne nm (snd x)) (snd (run_step m inp step w t)) /\
  (forall tr w' t', fst (run_step m inp step w t) = Ok (tr, w', t') -> J lv q ne nm w').
Proof. exact run_step_J. Qed.
Print Assumptions C03_after_each_action.

Theorem C03_every_step_of_every_run : forall lv q ne nm m inp weather,
  cfg_ok (m_g m) -> (forall s, inputs_ok (inp s)) -> (forall s, level_ok lv m (inp s)) ->
  forall tapes step w w', J lv q ne nm w -> run_many m inp weather tapes step w = Ok w' -> J lv q ne nm w'.
Proof. exact run_many_J. Qed.
Print Assumptions C03_every_step_of_every_run.

(* under InvLe mortality accounts for every cohort and never fails *)
Theorem C03_mortality_never_fails : forall c rate lag, Inv0 c -> InvLe c -> (0 <= rate <= 1)%Q -> 0 <= lag ->
  exists c', apply_mortality c rate lag = Ok c'.
Proof. exact apply_mortality_ok. Qed.
Print Assumptions C03_mortality_never_fails.

(* a removal treatment keeps InvLe (and everything in Inv0) ... *)
Theorem C03_removal_keeps_cohorts_le : forall app coef c c', Inv0 c -> (0 <= coef <= 1)%Q ->
  treat_removal app coef c = Ok c' -> InvLe c -> InvLe c'.
Proof. exact treat_removal_InvLe. Qed.
Print Assumptions C03_removal_keeps_cohorts_le.

(* ... but not InvM: refuted by a consistent cell (I = 2, M = [1;1], coefficient 1/2) *)
Theorem C03_infected_eq_cohorts_refuted_removal :
  let c := mkcell 0 [] 2 0 0 [1; 1] 0 2 in
  exists c', treat_removal Ratio (1 # 2) c = Ok c' /\ Inv0 c /\ InvM c /\
             sumZ (cM c') = 0 /\ cI c' = 1.
Proof. exact treat_removal_breaks_InvM. Qed.
Print Assumptions C03_infected_eq_cohorts_refuted_removal.

(* a pesticide treatment breaks even InvLe, and a mortality step then fails *)
Theorem C03_infected_eq_cohorts_refuted_pesticide :
  let c := mkcell 0 [] 2 0 0 [1; 1] 0 2 in
  exists c', treat_pesticide Ratio (1 # 2) c = Ok c' /\ Inv0 c /\ InvM c /\
             sumZ (cM c') = 2 /\ cI c' = 1.
Proof. exact treat_pesticide_breaks_InvLe. Qed.
Print Assumptions C03_infected_eq_cohorts_refuted_pesticide.

Theorem C03_mortality_never_fails_refuted :
  treat_pesticide Ratio (1 # 2) (mkcell 0 [] 2 0 0 [1; 1] 0 2) = Ok (mkcell 0 [] 1 0 1 [1; 1] 0 2) /\
  apply_mortality (mkcell 0 [] 1 0 1 [1; 1] 0 2) 1 0 = Err RuntimeError.
Proof. exact pesticide_then_mortality_refuted. Qed.
Print Assumptions C03_mortality_never_fails_refuted.

Example C03_nonvacuous : J Eq 17 2 2 demo_world.
Proof. exact demo_world_J. Qed.
Print Assumptions C03_nonvacuous.
