(* Proofs about the provider model: seeding order, rejections, and which
   streams a step can touch.  The facts about the generated tables are
   re-checked against the headers on every run. *)
From Coq Require Import ZArith List String Bool Lia.
From Pops Require Import Err GeneratedRng SchedDefs ModelDefs ModelProps RngDefs.
Import ListNotations.
Local Open Scope string_scope.
Local Open Scope Z_scope.

(* a single seed s seeds the streams with s, s+1, ... in the documented order *)
Lemma seed_order s :
  seed_multi s = combine documented_streams (map (fun k => s + Z.of_nat k) (seq 0 10)).
Proof. unfold seed_multi. cbn. repeat f_equal; lia. Qed.

Lemma config_names_documented : gen_config_seed_names = documented_streams.
Proof. reflexivity. Qed.

Lemma named_keys_documented :
  map fst gen_named_seed_keys = documented_streams /\ map snd gen_named_seed_keys = documented_streams.
Proof. split; reflexivity. Qed.

Lemma multi_accessors_distinct :
  map fst gen_multi_accessors = documented_streams /\ NoDup (map snd gen_multi_accessors).
Proof.
  split; [reflexivity|]. cbn.
  repeat (constructor; [cbn; intros H; repeat (destruct H as [H|H]; [discriminate H|]); exact H|]).
  constructor.
Qed.

Lemma single_accessors_alias :
  map fst gen_single_accessors = documented_streams /\
  Forall (fun p => snd p = "general") gen_single_accessors.
Proof. split; [reflexivity|repeat constructor]. Qed.

(* named seeding: succeeds iff every documented key is present, and then each
   stream gets the seed given under its own name *)
Lemma lookup_in k m : lookup k m <> None <-> In k (map fst m).
Proof.
  induction m as [|[k' v] r IH]; cbn [lookup map fst In]; [tauto|].
  destruct (String.eqb_spec k k') as [->|N]; [split; [auto|discriminate]|].
  rewrite IH. split; [auto|intros [E|H]; [congruence|assumption]].
Qed.

Lemma seed_named_loop_spec seeds : forall keys,
  (Forall (fun p => lookup (fst p) seeds <> None) keys ->
     exists m, seed_named_loop keys seeds = Ok m /\
       map fst m = map snd keys /\
       Forall2 (fun p kv => lookup (fst p) seeds = Some (snd kv)) keys m) /\
  (Exists (fun p => lookup (fst p) seeds = None) keys -> seed_named_loop keys seeds = Err InvalidArgument).
Proof.
  induction keys as [|[key acc] r [IH1 IH2]]; cbn [seed_named_loop].
  - split; [intros _; exists []; repeat split; constructor|intros H; inversion H].
  - split.
    + intros H. inversion H as [|? ? Hk Hr]; subst. cbn [fst] in Hk.
      destruct (lookup key seeds) as [v|] eqn:E; [|congruence].
      destruct (IH1 Hr) as (m & -> & A & B). cbn [bind]. exists ((acc, v) :: m).
      repeat split; cbn [map fst snd]; [congruence|]. constructor; assumption.
    + intros H. destruct (lookup key seeds) as [v|] eqn:E; [|reflexivity].
      inversion H as [? ? Hk|? ? Hr]; subst; cbn [fst] in *; [congruence|].
      rewrite (IH2 Hr). reflexivity.
Qed.

Theorem missing_seed_rejected seeds key :
  In key documented_streams -> ~ In key (map fst seeds) -> seed_named seeds = Err InvalidArgument.
Proof.
  intros Hk Hn. unfold seed_named. apply seed_named_loop_spec.
  apply Exists_exists. destruct named_keys_documented as [Kf _].
  rewrite <- Kf in Hk. apply in_map_iff in Hk as (p & <- & Hp). exists p. split; [assumption|].
  destruct (lookup (fst p) seeds) eqn:E; [|reflexivity].
  exfalso. apply Hn. apply lookup_in. congruence.
Qed.

Theorem named_seeds_accepted seeds :
  (forall key, In key documented_streams -> In key (map fst seeds)) ->
  exists m, seed_named seeds = Ok m /\ map fst m = documented_streams /\
    forall name, In name documented_streams -> lookup name m = lookup name seeds.
Proof.
  intros Hall. unfold seed_named.
  destruct (seed_named_loop_spec seeds gen_named_seed_keys) as [H _].
  destruct H as (m & E & A & B).
  { apply Forall_forall. intros p Hp. apply lookup_in. apply Hall.
    destruct named_keys_documented as [Kf _]. rewrite <- Kf. apply in_map. exact Hp. }
  exists m. split; [exact E|]. destruct named_keys_documented as [_ Ks]. split; [congruence|].
  (* every key equals its accessor in the generated table *)
  assert (Hsame : Forall (fun p => fst p = snd p) gen_named_seed_keys) by (repeat constructor).
  intros name Hn. destruct named_keys_documented as [Kf _]. rewrite <- Kf in Hn.
  clear E Hall Ks Kf.
  revert m A B Hsame Hn. generalize gen_named_seed_keys as keys.
  induction keys as [|[key acc] r IH]; intros m A B Hs Hn; [destruct Hn|].
  inversion B as [|? y ? m' Hy Hr']; subst. inversion Hs as [|? ? Hk Hr]; subst.
  cbn [fst snd] in *. subst acc. destruct y as [a v]. cbn [map fst snd] in A. injection A as -> A'.
  cbn [lookup snd] in *.
  destruct (String.eqb_spec name key) as [->|N]; [symmetry; assumption|].
  cbn [map fst In] in Hn. destruct Hn as [E|Hn]; [exfalso; apply N; symmetry; exact E|]. apply IH; assumption.
Qed.

(* using a multi-stream provider as one generator is rejected *)
Theorem single_use_rejected seeds : use_as_generator (Multi seeds) = Err RuntimeError /\
  discard_on (Multi seeds) = Err RuntimeError /\
  forall s, use_as_generator (Single s) = Ok tt.
Proof. repeat split. Qed.

(* with one seed every stream accessor returns the one generator; with several
   each returns its own *)
Theorem stream_identity :
  (forall s a, In a documented_streams -> stream_generator (Single s) a = Some ("general", s)) /\
  (forall m a v, lookup a m = Some v -> stream_generator (Multi m) a = Some (a, v)).
Proof.
  split.
  - intros s a H. cbn in H. repeat (destruct H as [<-|H]; [reflexivity|]). destruct H.
  - intros m a v H. cbn. rewrite H. reflexivity.
Qed.

Theorem make_provider_spec multiple seed named :
  (multiple = false -> make_provider multiple seed named = Ok (Single seed)) /\
  (multiple = true -> named = [] -> make_provider multiple seed named = Ok (Multi (seed_multi seed))) /\
  (multiple = true -> named <> [] -> make_provider multiple seed named = (do m <- seed_named named; Ok (Multi m))).
Proof.
  repeat split; intros; subst; cbn; try reflexivity. destruct named; [contradiction|reflexivity].
Qed.

(* ---- which streams a step can touch ---- *)
Definition stream_enabled (m : model_cfg) (step : Z) (s : string) : bool :=
  let spread := marks (m_spread_schedule m) step in
  if String.eqb s "lethal_temperature" then fires (m_use_lethal m) (m_lethal_schedule m) step
  else if String.eqb s "survival_rate" then fires (m_use_survival m) (m_survival_schedule m) step
  else if String.eqb s "overpopulation" then spread && m_use_overpop m
  else if String.eqb s "movement" then spread && m_use_movements m
  else if String.eqb s "weather" then false
  else spread.   (* disperser generation, dispersal kernels, establishment, soil *)

Lemma action_streams_table :
  action_streams ALethal = ["lethal_temperature"] /\ action_streams ASurvival = ["survival_rate"] /\
  action_streams AGenerate = ["disperser_generation"; "soil"] /\
  action_streams ADisperse = ["establishment"; "soil"; "natural_dispersal"; "anthropogenic_dispersal"] /\
  action_streams AOverpop = ["overpopulation"] /\ action_streams AMovement = ["movement"] /\
  action_streams AMortality = [] /\ action_streams ATreatments = [] /\ action_streams AStepForward = [] /\
  action_streams ASoil = [] /\ action_streams ASpreadRate = [] /\ action_streams AQuarantine = [].
Proof. repeat split. Qed.

(* A step draws only from the streams of its enabled, scheduled processes: a
   stream whose process is disabled or not scheduled is never touched, so its
   seed cannot influence the step. *)
Theorem stream_use_sound m hs step p s : plan m hs step = Ok p ->
  In s (plan_streams p) -> stream_enabled m step s = true.
Proof.
  intros Hp Hin. unfold plan_streams in Hin. apply in_flat_map in Hin as ([tag k] & Ha & Hs).
  cbn [fst] in Hs. pose proof (runs_iff m hs step p Hp) as R. cbv zeta in R.
  destruct R as (_ & RL & RSv & RG & RD & _ & RO & RM & _).
  destruct action_streams_table as (TL & TS & TG & TD & TO & TM & TMo & TT & TF & TSo & TR & TQ).
  destruct tag.
  - rewrite TSo in Hs. destruct Hs.
  - rewrite TL in Hs. destruct Hs as [<-|[]]. apply RL in Ha. apply Ha.
  - rewrite TS in Hs. destruct Hs as [<-|[]]. apply RSv in Ha. apply Ha.
  - rewrite TG in Hs. apply RG in Ha. destruct Ha as [E _]. destruct Hs as [<-|[<-|[]]]; exact E.
  - rewrite TD in Hs. apply RD in Ha. destruct Ha as [E _].
    destruct Hs as [<-|[<-|[<-|[<-|[]]]]]; exact E.
  - rewrite TF in Hs. destruct Hs.
  - rewrite TO in Hs. destruct Hs as [<-|[]]. apply RO in Ha. apply Ha.
  - rewrite TM in Hs. destruct Hs as [<-|[]]. apply RM in Ha. apply Ha.
  - rewrite TT in Hs. destruct Hs.
  - rewrite TMo in Hs. destruct Hs.
  - rewrite TR in Hs. destruct Hs.
  - rewrite TQ in Hs. destruct Hs.
Qed.

Corollary disabled_stream_untouched m hs step p s : plan m hs step = Ok p ->
  stream_enabled m step s = false -> ~ In s (plan_streams p).
Proof. intros Hp Hd Hin. rewrite (stream_use_sound _ _ _ _ _ Hp Hin) in Hd. discriminate. Qed.

(* each action class hands the soil pool the soil stream, and the environment
   draws weather from the weather stream only *)
Lemma soil_and_weather_streams :
  gen_soil_pool_gets_soil_stream = true /\ gen_environment_streams = ["weather"].
Proof. split; reflexivity. Qed.
