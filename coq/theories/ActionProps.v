(* Functional facts about single actions used by C10, C11, C12: when a
   treatment acts, what the establishment test decides, what the removal rules
   leave behind. *)
From Coq Require Import ZArith QArith Qabs List Bool Lia Lqa.
From Pops Require Import Err Rounding RoundingProps CellDefs CellProps LandDefs MonadProps LandProps EnvDefs.
Import ListNotations.
Local Open Scope Z_scope.

(* ---- Treatments::manage: a treatment acts only in its start step (and, for a
   pesticide, its end step) ---- *)
Definition idle_at (cur : Z) (t : treatment) : Prop :=
  t_start t <> cur /\ (t_pesticide t = false \/ t_end t <> cur).

Lemma manage_idle g ts cur k w tp : Forall (idle_at cur) ts ->
  manage g ts cur k w tp = Ok (tt, w, tp).
Proof.
  unfold manage. induction ts as [|t r IH]; intros H; cbn [mfold]; [reflexivity|].
  inversion H as [|? ? (Hs & He) Hr]; subst. unfold mbind at 1.
  destruct (Z.eqb_spec (t_start t) cur) as [E|_]; [contradiction|].
  destruct (t_pesticide t) eqn:P; cbn [andb].
  - destruct (Z.eqb_spec (t_end t) cur) as [E|_]; [destruct He; [discriminate|contradiction]|].
    cbn [ret]. apply IH. assumption.
  - cbn [ret]. apply IH. assumption.
Qed.

(* in its start step a treatment is applied (once: the list is traversed once) *)
Lemma manage_cons_start g t r cur k :
  t_start t = cur -> manage g (t :: r) cur k = (apply_treatment g k t ;; manage g r cur k).
Proof. intros E. unfold manage. cbn [mfold]. rewrite E, Z.eqb_refl. reflexivity. Qed.

Lemma manage_cons_end g t r cur k :
  t_start t <> cur -> t_pesticide t = true -> t_end t = cur ->
  manage g (t :: r) cur k = (end_treatment g k t ;; manage g r cur k).
Proof.
  intros Hs Hp He. unfold manage. cbn [mfold].
  destruct (Z.eqb_spec (t_start t) cur); [contradiction|]. rewrite Hp, He, Z.eqb_refl. reflexivity.
Qed.

Lemma manage_cons_idle g t r cur k :
  idle_at cur t -> manage g (t :: r) cur k = (ret tt ;; manage g r cur k).
Proof.
  intros (Hs & He). unfold manage. cbn [mfold].
  destruct (Z.eqb_spec (t_start t) cur); [contradiction|].
  destruct (t_pesticide t); cbn [andb]; [|reflexivity].
  destruct (Z.eqb_spec (t_end t) cur); [destruct He; [discriminate|contradiction]|reflexivity].
Qed.

(* Treatments::clear_after_step: treatments dated after the step never run *)
Lemma clear_after_step_spec ts step t :
  In t (clear_after_step ts step) <-> In t ts /\ t_start t <= step.
Proof.
  unfold clear_after_step. rewrite filter_In. destruct (Z.gtb_spec (t_start t) step); cbn [negb]; intuition (try lia; try discriminate).
Qed.

(* ---- establishment ---- *)
(* The establishment decision read from the tape is "tester < probability"
   unless the two are closer than 2^-40 (where floating point may differ). *)
Lemma can_establish_spec prob stoch det w t res w' t' :
  can_establish prob stoch det w t = Ok (res, w', t') ->
  w' = w /\ exists tester p0, t = EvEstablish tester p0 res :: t' /\
    (stoch = false -> tester == 1 - det)%Q /\
    (stoch = true -> 0 <= tester /\ tester < 1)%Q /\
    (res = qltb tester prob \/ (Qabs (tester - prob) < 1 # 1099511627776)%Q).
Proof.
  unfold can_establish. intros H. apply bind_inv in H as (e & s1 & t1 & P & H).
  apply pop_inv in P as (-> & ->). destruct e; try discriminate.
  destruct (negb stoch && negb (Qeq_bool tester (1 - det))) eqn:E1; [discriminate|].
  destruct (qltb tester 0 || negb (qltb tester 1) && stoch) eqn:E2; [discriminate|].
  assert (Hres : res0 = res /\ w' = w /\ t1 = t' /\
                 (Bool.eqb res0 (qltb tester prob) = true \/ qabs_small tester prob = true)).
  { destruct (Bool.eqb res0 (qltb tester prob)) eqn:E3.
    - apply ret_inv in H as (<- & -> & ->). auto.
    - destruct (qabs_small tester prob) eqn:E4; [|discriminate].
      apply ret_inv in H as (<- & -> & ->). auto. }
  destruct Hres as (-> & -> & -> & Hd). split; [reflexivity|].
  exists tester, prob0. split; [reflexivity|].
  split; [|split].
  - intros ->. cbn [negb andb] in E1. apply negb_false_iff in E1. apply Qeq_bool_iff in E1. exact E1.
  - intros ->. rewrite andb_true_r in E2. apply orb_false_iff in E2 as (A & B).
    apply negb_false_iff in B. unfold qltb in A, B. apply negb_false_iff in A. apply negb_true_iff in B.
    apply Qle_bool_iff in A. split; [exact A|]. apply Qnot_le_lt. intros C. apply Qle_bool_iff in C. congruence.
  - destruct Hd as [E3|E4]; [left; apply Bool.eqb_prop; exact E3|].
    right. unfold qabs_small, qltb in E4. apply negb_true_iff in E4.
    apply Qnot_le_lt. intros C. apply Qle_bool_iff in C. congruence.
Qed.

(* a disperser never establishes in a host without susceptible individuals *)
Lemma add_disperser_needs_susceptible mt c c' n : add_disperser mt c = Ok (c', n) ->
  cS c <= 0 -> n = 0 /\ c' = c.
Proof. unfold add_disperser. intros H Hs. destruct (Z.leb_spec (cS c) 0); [injection H as <- <-; auto|exfalso; lia]. Qed.

(* ---- pest removal rules, per cell ---- *)
(* lethal temperature: every infected host returns to susceptible, exposed untouched *)
Lemma lethal_cell c d c' : Inv0 c -> remove_infected c (cI c) d = Ok c' ->
  cI c' = 0 /\ cS c' = cS c + cI c /\ cE c' = cE c /\ cTE c' = cTE c /\ cR c' = cR c /\ cD c' = cD c /\ cTH c' = cTH c.
Proof.
  intros I0 H. pose proof (Inv0_I_nonneg _ I0) as Hn.
  assert (Hc : 0 <= cI c <= cI c) by lia.
  destruct (remove_infected_spec _ _ _ _ I0 Hc H) as (I0' & _ & _ & _ & A & B & C & D & E).
  destruct I0 as (_ & _ & _ & _ & _ & _ & TH & TE). destruct I0' as (_ & _ & _ & _ & _ & _ & TH' & TE').
  repeat split; try assumption; try lia.
  - rewrite TE', TE, C. reflexivity.
  - rewrite TH', TH, A, B, C, D. lia.
Qed.

(* survival rate r: round(r x count) of the infected and of the exposed stay *)
Lemma survival_counts n r : n - ratio_removed n r = qlround (zq n * r).
Proof. unfold ratio_removed. lia. Qed.

(* ---- suitability ---- *)
Definition suit_value (g : config) (hc : hostcfg) (c : cell) (n : Z) (wc : Q) : Q :=
  let s0 := (zq (cS c) / zq n)%Q in
  let s1 := match h_pht hc with Some (sus, _, _) => (s0 * sus)%Q | None => s0 end in
  if g_weather g then (s1 * wc)%Q else s1.

(* susceptible / total population x susceptibility x weather coefficient,
   rejected with invalid_argument outside [0, 1] *)
Lemma suitability_at_spec g k i w t s w' t' : suitability_at g k i w t = Ok (s, w', t') ->
  w' = w /\ t' = t /\
  exists c hc n, get_cell k i w t = Ok (c, w, t) /\ host_cfg g k w t = Ok (hc, w, t) /\
    total_population_at i w t = Ok (n, w, t) /\ n <> 0 /\
    (0 <= s <= 1)%Q /\
    ((g_weather g = false /\ s = suit_value g hc c n 0) \/
     (g_weather g = true /\ exists wc, weather_at i w t = Ok (wc, w, t) /\ s = suit_value g hc c n wc)).
Proof.
  unfold suitability_at. intros H.
  apply bind_inv in H as (c & s1 & t1 & E1 & H). pose proof E1 as E1'. apply get_cell_inv in E1' as (-> & -> & _).
  apply bind_inv in H as (hc & s2 & t2 & E2 & H). pose proof E2 as E2'. apply ro_host_cfg in E2'. subst s2.
  assert (t2 = t) as -> by (unfold host_cfg in E2; apply lift_inv in E2; tauto).
  apply bind_inv in H as (n & s3 & t3 & E3 & H). pose proof E3 as E3'. apply ro_total_population_at in E3'. subst s3.
  assert (t3 = t) as ->.
  { clear - E3. unfold total_population_at in E3. binv'; reflexivity. }
  destruct (Z.eqb_spec n 0) as [|Hn]; [discriminate|].
  assert (Hrange : forall sv : Q, (if qltb sv 0 || qltb 1 sv then fail InvalidArgument else ret sv) w t = Ok (s, w', t') ->
                      s = sv /\ w' = w /\ t' = t /\ (0 <= sv <= 1)%Q).
  { intros sv Hs. destruct (qltb sv 0 || qltb 1 sv) eqn:Eb; [discriminate|].
    apply ret_inv in Hs as (-> & -> & ->). apply orb_false_iff in Eb as (A & B). unfold qltb in A, B.
    apply negb_false_iff in A, B. apply Qle_bool_iff in A, B. auto. }
  destruct (g_weather g) eqn:Gw.
  - apply bind_inv in H as (s2v & s4 & t4 & E4 & H).
    apply bind_inv in E4 as (wc & s5 & t5 & E5 & E6). pose proof E5 as E5'. apply ro_weather_at in E5'. subst s5.
    assert (t5 = t) as -> by (clear - E5; unfold weather_at in E5; binv'; reflexivity).
    apply ret_inv in E6 as (-> & -> & ->).
    apply Hrange in H as (-> & -> & -> & Hr). split; [reflexivity|]. split; [reflexivity|].
    exists c, hc, n. repeat split; try assumption; try apply Hr.
    right. split; [reflexivity|]. exists wc. split; [assumption|]. unfold suit_value. rewrite Gw. reflexivity.
  - apply bind_inv in H as (s2v & s4 & t4 & E4 & H). apply ret_inv in E4 as (-> & -> & ->).
    apply Hrange in H as (-> & -> & -> & Hr). split; [reflexivity|]. split; [reflexivity|].
    exists c, hc, n. repeat split; try assumption; try apply Hr.
    left. split; [reflexivity|]. unfold suit_value. rewrite Gw. reflexivity.
Qed.

Lemma weather_draw_in_range normal uniform : (0 <= uniform <= 1)%Q ->
  (0 <= weather_draw normal uniform <= 1)%Q.
Proof.
  intros Hu. unfold weather_draw. destruct (qltb normal 0 || qltb 1 normal) eqn:E; [exact Hu|].
  apply orb_false_iff in E as (A & B). unfold qltb in A, B. apply negb_false_iff in A, B.
  apply Qle_bool_iff in A, B. auto.
Qed.

(* a pesticide treatment can leave more hosts in the mortality cohorts than are
   infected; mortality then raises a run-time error (known finding) *)
Lemma pesticide_then_mortality_refuted :
  treat_pesticide Ratio (1 # 2) (mkcell 0 [] 2 0 0 [1; 1] 0 2) = Ok (mkcell 0 [] 1 0 1 [1; 1] 0 2) /\
  apply_mortality (mkcell 0 [] 1 0 1 [1; 1] 0 2) 1 0 = Err RuntimeError.
Proof. vm_compute. split; reflexivity. Qed.

(* every value produced by update_weather_from_distribution lies in [0, 1],
   whatever the normal variates, for uniform variates in [0, 1]; a mean outside
   [0, 1] or mismatching shapes are rejected *)
Lemma weather_cells_in_range means : forall draws vals,
  Forall (fun d => (0 <= snd d <= 1)%Q) draws -> weather_cells means draws = Ok vals ->
  Forall (fun v => (0 <= v <= 1)%Q) vals /\ length vals = length means /\
  Forall (fun m => (0 <= m <= 1)%Q) means.
Proof.
  induction means as [|m rm IH]; intros draws vals Hd H; cbn [weather_cells] in H.
  - injection H as <-. repeat split; constructor.
  - destruct (qltb m 0 || qltb 1 m) eqn:E; [discriminate|].
    destruct draws as [|[nv uv] rd]; [discriminate|].
    destruct (weather_cells rm rd) as [rest|] eqn:Er; [|discriminate]. cbn [bind] in H. injection H as <-.
    inversion Hd as [|? ? Hu Hr]; subst. destruct (IH _ _ Hr Er) as (A & B & C).
    apply orb_false_iff in E as (E1 & E2). unfold qltb in E1, E2. apply negb_false_iff in E1, E2.
    apply Qle_bool_iff in E1, E2.
    repeat split; [constructor; [apply weather_draw_in_range; exact Hu|exact A]|cbn [length]; lia|constructor; auto].
Qed.

Lemma weather_mean_out_of_range_rejected pre m post draws :
  Forall (fun x => (0 <= x <= 1)%Q) pre -> (length pre <= length draws)%nat ->
  (m < 0 \/ 1 < m)%Q -> weather_cells (pre ++ m :: post) draws = Err InvalidArgument.
Proof.
  revert draws. induction pre as [|x r IH]; intros draws Hp Hl Hm; cbn [app weather_cells].
  - assert (E : qltb m 0 || qltb 1 m = true).
    { unfold qltb. apply orb_true_iff. destruct Hm as [H|H]; [left|right]; apply negb_true_iff;
        destruct (Qle_bool _ _) eqn:Eb; try reflexivity; apply Qle_bool_iff in Eb; exfalso; eapply Qlt_not_le; eauto. }
    rewrite E. reflexivity.
  - inversion Hp as [|? ? Hx Hr]; subst.
    assert (E : qltb x 0 || qltb 1 x = false).
    { unfold qltb. apply orb_false_iff. split; apply negb_false_iff; apply Qle_bool_iff; apply Hx. }
    rewrite E. destruct draws as [|[nv uv] rd]; [cbn in Hl; lia|].
    rewrite IH; [reflexivity|assumption|cbn in Hl; lia|assumption].
Qed.

Lemma weather_shape_mismatch_rejected mr mc sr sc means draws : (mr <> sr \/ mc <> sc) ->
  update_weather_from_distribution mr mc sr sc means draws = Err InvalidArgument.
Proof.
  intros H. unfold update_weather_from_distribution.
  destruct (Z.eqb_spec mr sr); cbn [negb]; [|reflexivity].
  destruct (Z.eqb_spec mc sc); cbn [negb]; [|reflexivity]. destruct H; contradiction.
Qed.

(* ---- documented errors of the environment and of mortality ---- *)
Lemma weather_missing_is_logic_error i w t : w_weather w = None -> weather_at i w t = Err LogicError.
Proof. intros H. unfold weather_at, mbind, get. rewrite H. reflexivity. Qed.

Lemma temperature_missing_is_logic_error i w t : w_temp w = None -> temperature_at i w t = Err LogicError.
Proof. intros H. unfold temperature_at, mbind, get. rewrite H. reflexivity. Qed.

(* a suitability outside [0, 1] (total population smaller than the susceptible
   count) is rejected with invalid_argument *)
Lemma suitability_out_of_range_rejected g k i w t c hc n :
  get_cell k i w t = Ok (c, w, t) -> host_cfg g k w t = Ok (hc, w, t) ->
  total_population_at i w t = Ok (n, w, t) -> n <> 0 -> g_weather g = false -> h_pht hc = None ->
  (zq (cS c) / zq n < 0 \/ 1 < zq (cS c) / zq n)%Q ->
  suitability_at g k i w t = Err InvalidArgument.
Proof.
  intros Hc Hh Hn Hz Hw Hp Hr. unfold suitability_at, mbind. rewrite Hc, Hh, Hn.
  destruct (Z.eqb_spec n 0); [contradiction|]. rewrite Hp, Hw. cbn [ret].
  assert (E : qltb (zq (cS c) / zq n) 0 || qltb 1 (zq (cS c) / zq n) = true).
  { unfold qltb. apply orb_true_iff. destruct Hr as [H|H]; [left|right]; apply negb_true_iff;
      destruct (Qle_bool _ _) eqn:Eb; try reflexivity; apply Qle_bool_iff in Eb; exfalso; eapply Qlt_not_le; eauto. }
  rewrite E. reflexivity.
Qed.
