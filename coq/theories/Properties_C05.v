(* C05  Exposed hosts become infectious exactly after the latency period.
   Statements only; proofs in LatencyProps.v and CellProps.v.  A cell of the
   SEI model has L+1 exposed cohorts (oldest first); `expose a` is what the a
   establishing dispersers of one spread step do (a-fold add_disperser,
   C05_exposure_is_add_disperser), `step_forward SEI L s` is the latency
   progression with the SIMULATION step index s; spread steps are any
   increasing subsequence of simulation steps (seasonal gaps).
   Tie: bin/check C05 (cohort rasters after every action against the extracted
   model; SEI with L = 0 against SI with the same seed, implementation against
   implementation). *)
From Coq Require Import ZArith QArith List.
From Pops Require Import Err Rounding CellDefs CellProps LatencyProps.
Import ListNotations.
Local Open Scope Z_scope.

(* what a spread step does to a cell is the k-fold single-disperser operation *)
Theorem C05_exposure_is_add_disperser : forall k c init y, cE c = init ++ [y] ->
  Z.of_nat k <= cS c -> add_disperser_iter SEI k c = expose (Z.of_nat k) c.
Proof. exact add_disperser_iter_expose. Qed.
Print Assumptions C05_exposure_is_add_disperser.

(* After n spread steps exactly the hosts exposed in the first n - L spread
   steps are infected (and entered the mortality tracker), and the hosts exposed
   in the last L spread steps are still exposed, each in the position its age
   dictates: cohorts age by exactly one position per spread step. *)
Theorem C05_latency_exact : forall L steps c c', 0 <= L ->
  cE c = repeat 0 (Z.to_nat L + 1) -> cM c <> [] ->
  increasing_from 0 steps -> run_sei L steps c = Ok c' ->
  let adds := map snd steps in
  let n := length steps in
  cE c' = lastn_padded (Z.to_nat L) adds ++ [0] /\
  cI c' = cI c + sumZ (firstn (n - Z.to_nat L) adds) /\
  sumZ (cM c') = sumZ (cM c) + sumZ (firstn (n - Z.to_nat L) adds).
Proof. exact latency_exact. Qed.
Print Assumptions C05_latency_exact.

(* the hosts becoming infected at a spread step are exactly those exposed L
   spread steps earlier (none during the first L spread steps) *)
Theorem C05_transition_exactly_at_L : forall L steps s a c c', 0 <= L ->
  cE c = repeat 0 (Z.to_nat L + 1) -> cM c <> [] ->
  increasing_from 0 (steps ++ [(s, a)]) -> run_sei L (steps ++ [(s, a)]) c = Ok c' ->
  exists cm, run_sei L steps c = Ok cm /\
    cI c' - cI cm =
      (if (Z.to_nat L <=? length steps)%nat
       then nth (length steps - Z.to_nat L) (map snd steps ++ [a]) 0 else 0) /\
    sumZ (cM c') - sumZ (cM cm) = cI c' - cI cm.
Proof. exact latency_step. Qed.
Print Assumptions C05_transition_exactly_at_L.

Theorem C05_no_transition_before_L : forall L steps c c', 0 <= L ->
  cE c = repeat 0 (Z.to_nat L + 1) -> cM c <> [] ->
  increasing_from 0 steps -> run_sei L steps c = Ok c' ->
  (length steps <= Z.to_nat L)%nat -> cI c' = cI c /\ sumZ (cM c') = sumZ (cM c).
Proof. exact no_transition_before_L. Qed.
Print Assumptions C05_no_transition_before_L.

(* while the simulation step index is below L the oldest cohort is still
   empty: the `step >= latency` guard never strands or duplicates hosts, even
   with seasonal gaps in the spread schedule *)
Theorem C05_guard_never_blocks : forall L steps s a c c' c1, 0 <= L ->
  cE c = repeat 0 (Z.to_nat L + 1) -> cM c <> [] ->
  increasing_from 0 (steps ++ [(s, a)]) -> run_sei L steps c = Ok c' ->
  expose a c' = Ok c1 -> s < L -> hd 0 (cE c1) = 0.
Proof. exact guard_never_blocks. Qed.
Print Assumptions C05_guard_never_blocks.

(* removals acting on exposed cohorts in between can only decrease what becomes
   infected, never make anybody infectious earlier *)
Theorem C05_removals_only_decrease : forall L steps c1 c2 c1' c2', cohorts_le c1 c2 ->
  run_sei L steps c1 = Ok c1' -> run_sei L steps c2 = Ok c2' ->
  cohorts_le c1' c2' /\ cI c1' - cI c1 <= cI c2' - cI c2.
Proof. exact run_sei_monotone. Qed.
Print Assumptions C05_removals_only_decrease.

(* the shift itself, for any cell: Inv0 and hosts preserved, cohort count kept *)
Theorem C05_shift_preserves : forall mt latency step c c', Inv0 c -> step_forward mt latency step c = Ok c' ->
  Inv0 c' /\ hq c' = hq c /\ (InvM c -> InvM c') /\ (InvLe c -> InvLe c') /\
  cS c' = cS c /\ cR c' = cR c /\ cD c' = cD c /\ length (cE c') = length (cE c).
Proof. exact step_forward_spec. Qed.
Print Assumptions C05_shift_preserves.

(* With L = 0 one spread step of SEI yields the very same cell as one of SI *)
Theorem C05_L0_equals_SI : forall k s c init y, 0 <= s -> cE c = [0] -> cM c = init ++ [y] ->
  Z.of_nat k <= cS c ->
  exists c_sei c_si,
    (do c1 <- expose (Z.of_nat k) c; step_forward SEI 0 s c1) = Ok c_sei /\
    add_disperser_iter SI k c = Ok c_si /\
    cS c_sei = cS c - Z.of_nat k /\ cE c_sei = [0] /\ cI c_sei = cI c + Z.of_nat k /\
    cTE c_sei = cTE c /\ cM c_sei = init ++ [y + Z.of_nat k] /\
    cS c_si = cS c_sei /\ cI c_si = cI c_sei /\ cM c_si = cM c_sei /\
    cR c_si = cR c_sei /\ cD c_si = cD c_sei /\ cTH c_si = cTH c_sei /\
    cE c_si = cE c /\ cTE c_si = cTE c /\ c_si = c_sei.
Proof. exact sei_L0_is_si. Qed.
Print Assumptions C05_L0_equals_SI.

Example C05_nonvacuous :
  let c := mkcell 50 [0; 0; 0] 1 0 0 [0] 0 51 in
  run_sei 2 [(0, 3); (1, 0); (4, 2); (5, 1); (9, 4)] c =
  Ok (mkcell 40 [1; 4; 0] 6 5 0 [5] 0 51) /\
  lastn_padded 2 [3; 0; 2; 1; 4] = [1; 4] /\ sumZ (firstn (5 - 2) [3; 0; 2; 1; 4]) = 5 /\
  increasing_from 0 [(0, 3); (1, 0); (4, 2); (5, 1); (9, 4)].
Proof. exact latency_example. Qed.
Print Assumptions C05_nonvacuous.
