(* C05  Exposed hosts become infectious exactly after the latency period.
   Statements only; proofs in LatencyProps.v and CellProps.v.  A cell of the
   SEI model has L+1 exposed cohorts (oldest first); `expose a` is what the a
   establishing dispersers of one spread step do (a-fold add_disperser,
   C05_exposure_is_add_disperser), `step_forward SEI L s` is the latency
   progression with the SIMULATION step index s; spread steps are any
   increasing subsequence of simulation steps (seasonal gaps).
   The last clause - SEI with L = 0 follows exactly the SI trajectory for the same
   seed - is also proved for whole model steps and runs of any length
   (C05_L0_step, C05_L0_snapshots, C05_L0_run; L0SimProps.v): a two-run simulation
   proof over the state-and-tape monad, for every configuration, landscape, set of
   enabled features and tape (the tape is the model's "same seed": both runs consume
   the same random outcomes), both entry points.
   Tie: bin/check C05 (cohort rasters after every action against the extracted
   model; SEI with L = 0 against SI with the same seed, implementation against
   implementation). *)
From Coq Require Import ZArith QArith List.
From Pops Require Import Err Rounding CellDefs CellProps LatencyProps LandDefs ModelDefs L0SimProps.
Import ListNotations.
Local Open Scope Z_scope.

(* what a spread step does to a cell is the k-fold single-disperser operation *)
Theorem C05_exposure_is_add_disperser : forall k c init y, cE c = init ++ [y] ->
  Z.of_nat k <= cS c -> add_disperser_iter SEI k c = expose (Z.of_nat k) c.
Proof. exact add_disperser_iter_expose. Qed.
Print Assumptions C05_exposure_is_add_disperser.

(* After n spread steps exactly the hosts exposed in the first n - L spread
   steps are infected (and entered the mortality tracker), and the hosts exposed
   in the last L spread steps are still exposed, each in the position its age
   dictates: cohorts age by exactly one position per spread step. *)
Theorem C05_latency_exact : forall L steps c c', 0 <= L ->
  cE c = repeat 0 (Z.to_nat L + 1) -> cM c <> [] ->
  increasing_from 0 steps -> run_sei L steps c = Ok c' ->
  let adds := map snd steps in
  let n := length steps in
  cE c' = lastn_padded (Z.to_nat L) adds ++ [0] /\
  cI c' = cI c + sumZ (firstn (n - Z.to_nat L) adds) /\
  sumZ (cM c') = sumZ (cM c) + sumZ (firstn (n - Z.to_nat L) adds).
Proof. exact latency_exact. Qed.
Print Assumptions C05_latency_exact.

(* the hosts becoming infected at a spread step are exactly those exposed L
   spread steps earlier (none during the first L spread steps) *)
Theorem C05_transition_exactly_at_L : forall L steps s a c c', 0 <= L ->
  cE c = repeat 0 (Z.to_nat L + 1) -> cM c <> [] ->
  increasing_from 0 (steps ++ [(s, a)]) -> run_sei L (steps ++ [(s, a)]) c = Ok c' ->
  exists cm, run_sei L steps c = Ok cm /\
    cI c' - cI cm =
      (if (Z.to_nat L <=? length steps)%nat
       then nth (length steps - Z.to_nat L) (map snd steps ++ [a]) 0 else 0) /\
    sumZ (cM c') - sumZ (cM cm) = cI c' - cI cm.
Proof. exact latency_step. Qed.
Print Assumptions C05_transition_exactly_at_L.

Theorem C05_no_transition_before_L : forall L steps c c', 0 <= L ->
  cE c = repeat 0 (Z.to_nat L + 1) -> cM c <> [] ->
  increasing_from 0 steps -> run_sei L steps c = Ok c' ->
  (length steps <= Z.to_nat L)%nat -> cI c' = cI c /\ sumZ (cM c') = sumZ (cM c).
Proof. exact no_transition_before_L. Qed.
Print Assumptions C05_no_transition_before_L.

(* while the simulation step index is below L the oldest cohort is still
   empty: the `step >= latency` guard never strands or duplicates hosts, even
   with seasonal gaps in the spread schedule *)
Theorem C05_guard_never_blocks : forall L steps s a c c' c1, 0 <= L ->
  cE c = repeat 0 (Z.to_nat L + 1) -> cM c <> [] ->
  increasing_from 0 (steps ++ [(s, a)]) -> run_sei L steps c = Ok c' ->
  expose a c' = Ok c1 -> s < L -> hd 0 (cE c1) = 0.
Proof. exact guard_never_blocks. Qed.
Print Assumptions C05_guard_never_blocks.

(* removals acting on exposed cohorts in between can only decrease what becomes
   infected, never make anybody infectious earlier *)
Theorem C05_removals_only_decrease : forall L steps c1 c2 c1' c2', cohorts_le c1 c2 ->
  run_sei L steps c1 = Ok c1' -> run_sei L steps c2 = Ok c2' ->
  cohorts_le c1' c2' /\ cI c1' - cI c1 <= cI c2' - cI c2.
Proof. exact run_sei_monotone. Qed.
Print Assumptions C05_removals_only_decrease.

(* the shift itself, for any cell: Inv0 and hosts preserved, cohort count kept *)
Theorem C05_shift_preserves : forall mt latency step c c', Inv0 c -> step_forward mt latency step c = Ok c' ->
  Inv0 c' /\ hq c' = hq c /\ (InvM c -> InvM c') /\ (InvLe c -> InvLe c') /\
  cS c' = cS c /\ cR c' = cR c /\ cD c' = cD c /\ length (cE c') = length (cE c).
Proof. exact step_forward_spec. Qed.
Print Assumptions C05_shift_preserves.

(* With L = 0 one spread step of SEI yields the very same cell as one of SI *)
Theorem C05_L0_equals_SI : forall k s c init y, 0 <= s -> cE c = [0] -> cM c = init ++ [y] ->
  Z.of_nat k <= cS c ->
  exists c_sei c_si,
    (do c1 <- expose (Z.of_nat k) c; step_forward SEI 0 s c1) = Ok c_sei /\
    add_disperser_iter SI k c = Ok c_si /\
    cS c_sei = cS c - Z.of_nat k /\ cE c_sei = [0] /\ cI c_sei = cI c + Z.of_nat k /\
    cTE c_sei = cTE c /\ cM c_sei = init ++ [y + Z.of_nat k] /\
    cS c_si = cS c_sei /\ cI c_si = cI c_sei /\ cM c_si = cM c_sei /\
    cR c_si = cR c_sei /\ cD c_si = cD c_sei /\ cTH c_si = cTH c_sei /\
    cE c_si = cE c /\ cTE c_si = cTE c /\ c_si = c_sei.
Proof. exact sei_L0_is_si. Qed.
Print Assumptions C05_L0_equals_SI.

(* ... and a whole model step of SEI with latency 0 ends in exactly the world the SI
   step ends in, with the same remaining tape, or fails with the same error;
   m_pair: the two configurations differ only in the model type (and latency 0);
   zeroE: one empty exposed cohort per cell; mort_cohorts: a non-empty mortality
   tracker of uniform length (without it the SEI step is undefined behaviour while
   the SI step is not: C05_L0_needs_mortality_cohort) *)
Theorem C05_L0_step : forall nm m_si m_sei inp step w t,
  m_pair m_si m_sei -> zeroE w -> mort_cohorts nm w ->
  match fst (run_step m_sei inp step w t), fst (run_step m_si inp step w t) with
  | Ok (_, w1, t1), Ok (_, w2, t2) => w1 = w2 /\ t1 = t2 /\ zeroE w1 /\ mort_cohorts nm w1
  | Err e1, Err e2 => e1 = e2
  | _, _ => False
  end.
Proof. exact L0_step_agrees_strong. Qed.
Print Assumptions C05_L0_step.

(* the states after every individual action agree too, except directly after
   dispersal, where the SEI cells hold as exposed what the SI cells hold as infected *)
Theorem C05_L0_snapshots : forall nm m_si m_sei inp step w t,
  m_pair m_si m_sei -> zeroE w -> mort_cohorts nm w ->
  Forall2 snap (snd (run_step m_sei inp step w t)) (snd (run_step m_si inp step w t)).
Proof. exact L0_step_snapshots. Qed.
Print Assumptions C05_L0_snapshots.

Theorem C05_L0_run : forall nm m_si m_sei inp weather tapes step w,
  m_pair m_si m_sei -> zeroE w -> mort_cohorts nm w ->
  run_many m_sei inp weather tapes step w = run_many m_si inp weather tapes step w /\
  (forall w', run_many m_si inp weather tapes step w = Ok w' -> zeroE w' /\ mort_cohorts nm w').
Proof. exact L0_run_agrees. Qed.
Print Assumptions C05_L0_run.

Theorem C05_L0_step_raster_entry : forall nm m_si m_sei inp step w t,
  m_pair m_si m_sei -> zeroE w -> mort_cohorts nm w ->
  match fst (run_step_rasters m_sei inp step w t), fst (run_step_rasters m_si inp step w t) with
  | Ok (_, w1, t1), Ok (_, w2, t2) => w1 = w2 /\ t1 = t2 /\ zeroE w1 /\ mort_cohorts nm w1
  | Err e1, Err e2 => e1 = e2
  | _, _ => False
  end.
Proof. exact L0_step_rasters_agrees. Qed.
Print Assumptions C05_L0_step_raster_entry.

Theorem C05_L0_needs_mortality_cohort :
  m_pair (demo_model SI) (demo_model SEI) /\ zeroE bad_w /\
  fst (run_step (demo_model SEI) demo_inp 0 bad_w []) = Err UB_OutOfBounds /\
  exists tr w', fst (run_step (demo_model SI) demo_inp 0 bad_w []) = Ok (tr, w', []).
Proof. exact mort_cohorts_needed. Qed.
Print Assumptions C05_L0_needs_mortality_cohort.

Example C05_L0_nonvacuous :
  m_pair (demo_model SI) (demo_model SEI) /\ zeroE demo_w /\ mort_cohorts 0 demo_w.
Proof. exact demo_hypotheses. Qed.
Print Assumptions C05_L0_nonvacuous.

Example C05_nonvacuous :
  let c := mkcell 50 [0; 0; 0] 1 0 0 [0] 0 51 in
  run_sei 2 [(0, 3); (1, 0); (4, 2); (5, 1); (9, 4)] c =
  Ok (mkcell 40 [1; 4; 0] 6 5 0 [5] 0 51) /\
  lastn_padded 2 [3; 0; 2; 1; 4] = [1; 4] /\ sumZ (firstn (5 - 2) [3; 0; 2; 1; 4]) = 5 /\
  increasing_from 0 [(0, 3); (1, 0); (4, 2); (5, 1); (9, 4)].
Proof. exact latency_example. Qed.
Print Assumptions C05_nonvacuous.
