(* C10  Treatments act once, where and when scheduled, by the stated share.
   Statements only; proofs in CellProps.v (per-cell shares, for cells with any
   number of cohorts) and ActionProps.v (when a treatment acts).  The date ->
   step lookup a treatment uses is C07_lookup.  Tie: bin/check C10. *)
From Coq Require Import ZArith QArith List.
From Pops Require Import Err Rounding CellDefs CellProps LandDefs ActionProps.
Import ListNotations.
Local Open Scope Z_scope.

(* Host removal: susceptible, every exposed cohort, infected and every mortality
   cohort lose the coefficient's share rounded up (the whole class under the
   all-infected-in-cell option); totals stay consistent; nothing else changes. *)
Theorem C10_removal_shares : forall app coef c c', Inv0 c -> (0 <= coef <= 1)%Q ->
  treat_removal app coef c = Ok c' ->
  Inv0 c' /\
  hq c' = hq c - (qceil (get_treated Ratio coef (cS c))
                  + sumZ (map (fun x => qceil (get_treated app coef x)) (cE c))
                  + qceil (get_treated app coef (cI c))) /\
  cD c' = cD c /\ cR c' = cR c /\
  cS c' = cS c - qceil (zq (cS c) * coef) /\
  cE c' = map (fun x => x - qceil (get_treated app coef x)) (cE c) /\
  cI c' = cI c - qceil (get_treated app coef (cI c)) /\
  (0 < qceil (get_treated app coef (cI c)) ->
     cM c' = map (fun x => x - qceil (get_treated app coef x)) (cM c)) /\
  (qceil (get_treated app coef (cI c)) = 0 -> cM c' = cM c).
Proof. exact treat_removal_spec. Qed.
Print Assumptions C10_removal_shares.

Theorem C10_removal_never_fails : forall app coef c, Inv0 c -> (0 <= coef <= 1)%Q ->
  exists c', treat_removal app coef c = Ok c'.
Proof. exact treat_removal_ok. Qed.
Print Assumptions C10_removal_never_fails.

(* coefficient 1 empties the treated classes, coefficient 0 changes nothing *)
Theorem C10_removal_coef1 : forall app coef c c', Inv0 c -> (coef == 1)%Q ->
  treat_removal app coef c = Ok c' ->
  cS c' = 0 /\ cI c' = 0 /\ Forall (fun x => x = 0) (cE c') /\
  (0 < cI c -> Forall (fun x => x = 0) (cM c')).
Proof. exact treat_removal_coef1. Qed.
Print Assumptions C10_removal_coef1.

Theorem C10_removal_coef0 : forall app coef c c', Inv0 c -> (coef == 0)%Q ->
  treat_removal app coef c = Ok c' -> c' = c.
Proof. exact treat_removal_coef0. Qed.
Print Assumptions C10_removal_coef0.

(* Pesticide: the share rounded down moves into the resistant class *)
Theorem C10_pesticide_shares : forall app coef c c', Inv0 c -> (0 <= coef <= 1)%Q ->
  treat_pesticide app coef c = Ok c' ->
  Inv0 c' /\ hq c' = hq c /\ hosts c' = hosts c /\
  cR c' = cR c + qfloor (get_treated Ratio coef (cS c))
               + sumZ (map (fun x => qfloor (get_treated app coef x)) (cE c))
               + qfloor (get_treated app coef (cI c)) /\
  cS c' = cS c - qfloor (zq (cS c) * coef) /\
  cE c' = map (fun x => x - qfloor (get_treated app coef x)) (cE c) /\
  cI c' = cI c - qfloor (get_treated app coef (cI c)) /\
  cM c' = map (fun x => x - qfloor (get_treated app coef x)) (cM c) /\
  cD c' = cD c.
Proof. exact treat_pesticide_spec. Qed.
Print Assumptions C10_pesticide_shares.

Theorem C10_pesticide_coef0 : forall app coef c c', Inv0 c -> (coef == 0)%Q ->
  treat_pesticide app coef c = Ok c' -> c' = c.
Proof. exact treat_pesticide_coef0. Qed.
Print Assumptions C10_pesticide_coef0.

(* resistant hosts cannot be infected: infection consumes susceptible hosts only *)
Theorem C10_resistant_not_infectable : forall mt c c' n, Inv0 c -> add_disperser mt c = Ok (c', n) ->
  Inv0 c' /\ hq c' = hq c /\ (InvM c -> InvM c') /\ (InvLe c -> InvLe c') /\
  (n = if 0 <? cS c then 1 else 0) /\ cS c' = cS c - n /\
  (mt = SI -> cI c' = cI c + n /\ cE c' = cE c /\ cTE c' = cTE c) /\
  (mt = SEI -> cI c' = cI c /\ sumZ (cE c') = sumZ (cE c) + n /\ cM c' = cM c) /\
  cR c' = cR c /\ cD c' = cD c.
Proof. exact add_disperser_spec. Qed.
Print Assumptions C10_resistant_not_infectable.

(* at the end step every resistant host of a cell with coefficient > 0 returns to susceptible *)
Theorem C10_pesticide_end : forall coef c, Inv0 c ->
  Inv0 (treat_pesticide_end coef c) /\ hq (treat_pesticide_end coef c) = hq c /\
  ((0 < coef)%Q -> cR (treat_pesticide_end coef c) = 0 /\
                   cS (treat_pesticide_end coef c) = cS c + cR c) /\
  ((coef <= 0)%Q -> treat_pesticide_end coef c = c).
Proof. exact treat_pesticide_end_spec. Qed.
Print Assumptions C10_pesticide_end.

(* A treatment takes effect only in its start step (and its end step, for a
   pesticide): in every other step the whole treatment list leaves the world
   and the tape untouched; in its start step it is applied exactly once. *)
Theorem C10_idle_in_other_steps : forall g ts cur k w tp, Forall (idle_at cur) ts ->
  manage g ts cur k w tp = Ok (tt, w, tp).
Proof. exact manage_idle. Qed.
Print Assumptions C10_idle_in_other_steps.

Theorem C10_applied_in_start_step : forall g t r cur k,
  t_start t = cur -> manage g (t :: r) cur k = (apply_treatment g k t ;; manage g r cur k).
Proof. exact manage_cons_start. Qed.
Print Assumptions C10_applied_in_start_step.

Theorem C10_ended_in_end_step : forall g t r cur k,
  t_start t <> cur -> t_pesticide t = true -> t_end t = cur ->
  manage g (t :: r) cur k = (end_treatment g k t ;; manage g r cur k).
Proof. exact manage_cons_end. Qed.
Print Assumptions C10_ended_in_end_step.

(* treatments dated after a cleared step never run *)
Theorem C10_cleared_never_run : forall ts step t,
  In t (clear_after_step ts step) <-> In t ts /\ t_start t <= step.
Proof. exact clear_after_step_spec. Qed.
Print Assumptions C10_cleared_never_run.

(* Non-vacuity and the known finding: a fractional pesticide treatment on
   several mortality cohorts leaves infected <> sum of the cohorts. *)
Example C10_nonvacuous :
  treat_pesticide Ratio (1 # 2) (mkcell 5 [2; 3] 3 5 0 [1; 1; 1] 0 13)
  = Ok (mkcell 3 [1; 2] 2 3 5 [1; 1; 1] 0 13).
Proof. vm_compute. reflexivity. Qed.
Print Assumptions C10_nonvacuous.
