(* Property C16: several hosts in one multi-host pool (MultiHostPool).
   1. multi_sums                   the pool's infected / total hosts are sums over the hosts
   2. disperser_at_most_one_host   one disperser establishes in at most one host
   3. pests_split_bounds           pests leaving / arriving are split over the hosts within
                                   what each host holds
   4. single_host_infect/_land/_zero   with one host the pool behaves as that host
   5. competency_complete/_partial the competency-table lookups
   6. oversuitable_rejected        total suitability above one is an invalid argument
   7. susceptibility_scales        the pest-host table's susceptibility scales the suitability
   All statements hold for every tape of random outcomes. *)
From Coq Require Import ZArith QArith Qabs List Bool Lia Lqa ZifyBool.
From Pops Require Import Err Rounding RoundingProps CellDefs CellProps LandDefs MonadProps LandProps
  ShapeProps LandProps2 ActionProps.
Import ListNotations.
Local Open Scope Z_scope.

(* ---------- the cells of all hosts at one raster index ---------- *)
Definition col (hs : list hostpool) (i : nat) (cs : list cell) : Prop :=
  Forall2 (fun h c => nth_error (hp_cells h) i = Some c) hs cs.
Definition column (w : world) (i : nat) (cs : list cell) : Prop := col (w_hosts w) i cs.

Lemma col_length hs i cs : col hs i cs -> length cs = length hs.
Proof. intros H. induction H; cbn [length]; congruence. Qed.

Lemma col_fun hs i : forall cs cs', col hs i cs -> col hs i cs' -> cs' = cs.
Proof.
  induction hs as [|h r IH]; intros cs cs' H H'; inversion H; inversion H'; subst; [reflexivity|].
  f_equal; [congruence|]. apply IH; assumption.
Qed.

Lemma col_cell_at w i cs : column w i cs ->
  forall k, nth_error cs k = cell_at w k i.
Proof.
  unfold column, cell_at. generalize (w_hosts w). intros hs H.
  induction H as [|h c r rc Hc _ IH]; intros k; destruct k as [|k]; cbn [nth_error]; auto.
Qed.

Lemma fold_col {A} (op : A -> cell -> A) (a0 : A) i : forall hs x,
  fold_right (fun h acc => do a <- acc; do c <- rget (hp_cells h) i; Ok (op a c)) (Ok a0) hs = Ok x <->
  exists cs, col hs i cs /\ x = fold_right (fun c a => op a c) a0 cs.
Proof.
  induction hs as [|h r IH]; intros x; cbn [fold_right].
  - split.
    + intros [= <-]. exists []. split; [constructor|reflexivity].
    + intros (cs & H & ->). inversion H. reflexivity.
  - split.
    + intros H. destruct (fold_right _ _ r) as [a|] eqn:E; [|discriminate]. cbn [bind] in H.
      destruct (rget (hp_cells h) i) as [c|] eqn:Ec; [|discriminate]. cbn [bind] in H. injection H as <-.
      destruct (proj1 (IH a) eq_refl) as (cs & Hcs & ->).
      exists (c :: cs). split; [constructor; [apply rget_Some; exact Ec|exact Hcs]|reflexivity].
    + intros (cs & H & ->). inversion H as [|? c ? rc Hc Hr]; subst.
      rewrite (proj2 (IH _) (ex_intro _ rc (conj Hr eq_refl))). cbn [bind].
      apply rget_Some in Hc. rewrite Hc. reflexivity.
Qed.

Lemma fold_sum_I cs : fold_right (fun c a => a + cI c) 0 cs = sumZ (map cI cs).
Proof. induction cs as [|c r IH]; cbn [fold_right map sumZ]; lia. Qed.
Lemma fold_sum_SI cs : fold_right (fun c a => a + cS c + cI c) 0 cs = sumZ (map (fun c => cS c + cI c) cs).
Proof. induction cs as [|c r IH]; cbn [fold_right map sumZ]; lia. Qed.

(* ---------- 1. totals ---------- *)
(* the multi-host pool's totals are the sums over the hosts *)
Theorem multi_sums i w t x w' t' : multi_infected_at i w t = Ok (x, w', t') ->
  w' = w /\ t' = t /\ exists cs, column w i cs /\ x = sumZ (map cI cs).
Proof.
  unfold multi_infected_at. intros H. binv.
  match goal with E : fold_right _ _ _ = Ok _ |- _ => apply (fold_col (fun a c => a + cI c)) in E as (cs & Hc & ->) end.
  repeat split; try reflexivity. exists cs. split; [exact Hc|apply fold_sum_I].
Qed.

Theorem multi_sums_total i w t x w' t' : multi_total_hosts_at i w t = Ok (x, w', t') ->
  w' = w /\ t' = t /\ exists cs, column w i cs /\ x = sumZ (map (fun c => cS c + cI c) cs).
Proof.
  unfold multi_total_hosts_at. intros H. binv.
  match goal with E : fold_right _ _ _ = Ok _ |- _ => apply (fold_col (fun a c => a + cS c + cI c)) in E as (cs & Hc & ->) end.
  repeat split; try reflexivity. exists cs. split; [exact Hc|apply fold_sum_SI].
Qed.

(* conversely both succeed whenever every host has a cell i *)
Theorem multi_sums_ok i w t cs : column w i cs ->
  multi_infected_at i w t = Ok (sumZ (map cI cs), w, t) /\
  multi_total_hosts_at i w t = Ok (sumZ (map (fun c => cS c + cI c) cs), w, t).
Proof.
  intros Hc. unfold multi_infected_at, multi_total_hosts_at, mbind, get, lift. split.
  - rewrite (proj2 (fold_col (fun a c => a + cI c) 0 i (w_hosts w) _) (ex_intro _ cs (conj Hc eq_refl))).
    rewrite fold_sum_I. reflexivity.
  - rewrite (proj2 (fold_col (fun a c => a + cS c + cI c) 0 i (w_hosts w) _) (ex_intro _ cs (conj Hc eq_refl))).
    rewrite fold_sum_SI. reflexivity.
Qed.

(* ---------- replacing one cell of one host ---------- *)
(* [replaced w w' k i c']: w' is w with cell i of host k set to c'; every
   other cell of every host, the hosts' suitable-cell lists and all fields
   other than the hosts are the same *)
Definition replaced (w w' : world) (k i : nat) (c' : cell) : Prop :=
  exists h cs' hs', nth_error (w_hosts w) k = Some h /\ rset (hp_cells h) i c' = Ok cs' /\
    rset (w_hosts w) k (mkhp cs' (hp_suitable h)) = Ok hs' /\ w' = with_hosts w hs'.

Lemma set_cell_spec k i c' w t u w' t' : set_cell k i c' w t = Ok (u, w', t') ->
  t' = t /\ replaced w w' k i c'.
Proof.
  intros H. unfold set_cell in H.
  apply bind_inv in H as (h & s1 & t1 & G & H). apply get_host_inv in G as (-> & -> & Hk).
  apply bind_inv in H as (cs & s2 & t2 & L & H). apply lift_inv in L as (R1 & -> & ->).
  apply set_host_inv in H as (-> & hs & R2 & ->). split; [reflexivity|]. exists h, cs, hs. auto.
Qed.

Lemma rset_length {A} (l : list A) i a l' : rset l i a = Ok l' -> length l' = length l.
Proof.
  intros R. destruct (rset_spec _ _ _ _ R) as (pre & old & post & -> & -> & _).
  rewrite !app_length. reflexivity.
Qed.

Lemma rset_map_same {A B} (f : A -> B) (l : list A) i a l' old :
  rset l i a = Ok l' -> nth_error l i = Some old -> f a = f old -> map f l' = map f l.
Proof.
  intros R Hn E. destruct (rset_spec _ _ _ _ R) as (pre & old' & post & -> & -> & L).
  rewrite <- L, nth_error_mid in Hn. injection Hn as ->.
  rewrite !map_app. cbn [map]. rewrite E. reflexivity.
Qed.

Lemma replaced_facts w w' k i c' : replaced w w' k i c' ->
  (forall k' j, cell_at w' k' j = if Nat.eqb k' k && Nat.eqb j i then Some c' else cell_at w k' j) /\
  (forall k', k' <> k -> nth_error (w_hosts w') k' = nth_error (w_hosts w) k') /\
  length (w_hosts w') = length (w_hosts w) /\
  map hp_suitable (w_hosts w') = map hp_suitable (w_hosts w) /\
  map (fun h => length (hp_cells h)) (w_hosts w') = map (fun h => length (hp_cells h)) (w_hosts w) /\
  w_disp w' = w_disp w /\ w_estab w' = w_estab w /\ w_outside w' = w_outside w /\ w_soil w' = w_soil w /\
  w_weather w' = w_weather w /\ w_totpop w' = w_totpop w /\ w_other w' = w_other w /\
  w_temp w' = w_temp w /\ w_last_index w' = w_last_index w.
Proof.
  intros (h & cs' & hs' & Hk & R1 & R2 & ->). cbn [with_hosts w_hosts w_disp w_estab w_outside w_soil
    w_weather w_totpop w_other w_temp w_last_index].
  split; [|split; [|split; [|split; [|split; [|repeat split]]]]].
  - intros k' j. unfold cell_at. cbn [with_hosts w_hosts]. rewrite (rset_nth _ _ _ _ R2 k').
    destruct (Nat.eqb k' k) eqn:Ek; cbn [andb]; [|reflexivity].
    apply Nat.eqb_eq in Ek. subst k'. rewrite Hk. cbn [hp_cells]. apply (rset_nth _ _ _ _ R1).
  - intros k' Hne. rewrite (rset_nth _ _ _ _ R2 k'). apply Nat.eqb_neq in Hne. rewrite Hne. reflexivity.
  - exact (rset_length _ _ _ _ R2).
  - exact (rset_map_same hp_suitable _ _ _ _ _ R2 Hk eq_refl).
  - apply (rset_map_same (fun h => length (hp_cells h)) _ _ _ _ _ R2 Hk). cbn [hp_cells].
    exact (rset_length _ _ _ _ R1).
Qed.

(* ---------- add_disperser through the world ---------- *)
Lemma add_disperser_pos mt c c' n : 0 < cS c -> add_disperser mt c = Ok (c', n) ->
  n = 1 /\ cS c' = cS c - 1.
Proof.
  intros Hs H. unfold add_disperser in H. destruct (Z.leb_spec (cS c) 0); [lia|].
  destruct mt.
  - destruct (add_last (cM c) 1); [|discriminate]. cbn [bind] in H. injection H as <- <-. auto.
  - destruct (add_last (cE c) 1); [|discriminate]. cbn [bind] in H. injection H as <- <-. auto.
Qed.

Lemma host_add_disperser_spec g k i w t est w' t' : host_add_disperser g k i w t = Ok (est, w', t') ->
  t' = t /\ exists hc c c', nth_error (g_hosts g) k = Some hc /\ cell_at w k i = Some c /\
    add_disperser (h_mt hc) c = Ok (c', est) /\ replaced w w' k i c'.
Proof.
  intros H. unfold host_add_disperser in H.
  apply bind_inv in H as (c & s0 & t0 & E & H). apply get_cell_at in E as (-> & -> & Hc).
  apply bind_inv in H as (hc & s0 & t0 & E & H). unfold host_cfg in E. apply lift_inv in E as (Eh & -> & ->).
  apply rget_Some in Eh.
  apply bind_inv in H as ([c' n] & s0 & t0 & E & H). apply lift_inv in E as (Ea & -> & ->). cbn [fst snd] in H.
  apply bind_inv in H as (u & w1 & t1 & Es & H). apply set_cell_spec in Es as (-> & Hr).
  apply ret_inv in H as (-> & -> & ->). split; [reflexivity|]. exists hc, c, c'. auto.
Qed.

(* what "one disperser established in host k at cell i" means *)
Definition established_in (g : config) (w w' : world) (k i : nat) : Prop :=
  exists hc c c', nth_error (g_hosts g) k = Some hc /\ cell_at w k i = Some c /\ 0 < cS c /\
    add_disperser (h_mt hc) c = Ok (c', 1) /\ replaced w w' k i c'.

Lemma host_add_disperser_est g k i w t est w' t' c :
  cell_at w k i = Some c -> 0 < cS c -> host_add_disperser g k i w t = Ok (est, w', t') ->
  est = 1 /\ t' = t /\ established_in g w w' k i.
Proof.
  intros Hc Hs H. apply host_add_disperser_spec in H as (-> & hc & c0 & c' & Hh & Hc0 & Ha & Hr).
  rewrite Hc in Hc0. injection Hc0 as <-.
  destruct (add_disperser_pos _ _ _ _ Hs Ha) as (-> & _).
  split; [reflexivity|]. split; [reflexivity|]. exists hc, c, c'. auto.
Qed.

Lemma host_disperser_to_spec g k i w t est w' t' : host_disperser_to g k i w t = Ok (est, w', t') ->
  (est = 0 /\ w' = w) \/ (est = 1 /\ established_in g w w' k i).
Proof.
  intros H. unfold host_disperser_to in H.
  apply bind_inv in H as (c & s0 & t0 & E & H). apply get_cell_at in E as (-> & -> & Hc).
  destruct (Z.leb_spec (cS c) 0) as [|Hs]; [apply ret_inv in H as (-> & -> & _); left; auto|].
  apply bind_inv in H as (hc & s0 & t0 & E & H). apply ro_host_cfg in E. subst s0.
  apply bind_inv in H as (p & s0 & t1 & E & H). apply ro_suitability_at in E. subst s0.
  apply bind_inv in H as (res & s0 & t2 & E & H). apply ro_can_establish in E. subst s0.
  destruct res; [|apply ret_inv in H as (-> & -> & _); left; auto].
  right. destruct (host_add_disperser_est _ _ _ _ _ _ _ _ _ Hc Hs H) as (-> & _ & He). auto.
Qed.

(* ---------- 2. one disperser reaches at most one host ---------- *)
Theorem disperser_at_most_one_host g i w t est w' t' :
  multi_disperser_to g i w t = Ok (est, w', t') ->
  (est = 0 /\ w' = w) \/ (est = 1 /\ exists k, established_in g w w' k i).
Proof.
  intros H. unfold multi_disperser_to in H.
  apply bind_inv in H as (n & s0 & t0 & E & H). apply ro_num_hosts in E. subst s0.
  destruct (Nat.eqb n 0); [discriminate H|].
  apply bind_inv in H as (npop & s0 & t1 & E & H). apply ro_total_population_at in E. subst s0.
  destruct (npop =? 0).
  { apply bind_inv in H as (wz & s0 & t2 & E & H).
    assert (s0 = w) as ->.
    { destruct (g_weather g); [|apply ret_inv in E; tauto].
      apply bind_inv in E as (wc & s1 & t3 & E1 & E2). apply ro_weather_at in E1. subst s1.
      apply ret_inv in E2. tauto. }
    apply bind_inv in H as (u & s0 & t3 & E1 & H).
    match type of E1 with for_hosts ?k0 ?n0 ?f0 _ _ = Ok _ =>
      assert (RO : read_only (for_hosts k0 n0 f0))
        by (apply for_hosts_ro; intros j; ro; try apply ro_get_cell; try apply ro_host_cfg) end.
    apply RO in E1. subst s0. apply ret_inv in H as (-> & -> & _). left. auto. }
  apply bind_inv in H as (ws & s0 & t2 & E & H). apply ro_suitabilities in E. subst s0.
  destruct (Qle_bool (qsum ws) 0); [apply ret_inv in H as (-> & -> & _); left; auto|].
  destruct (qltb 1 (qsum ws)); [discriminate H|].
  apply bind_inv in H as (k & s0 & t3 & E & H). apply ro_pick_host in E. subst s0.
  destruct (g_arrival_land g).
  - apply bind_inv in H as (c & s0 & t4 & E & H). apply get_cell_at in E as (-> & -> & Hc).
    destruct (Z.leb_spec (cS c) 0) as [|Hs]; [apply ret_inv in H as (-> & -> & _); left; auto|].
    apply bind_inv in H as (res & s0 & t5 & E & H). apply ro_can_establish in E. subst s0.
    destruct res; [|apply ret_inv in H as (-> & -> & _); left; auto].
    right. destruct (host_add_disperser_est _ _ _ _ _ _ _ _ _ Hc Hs H) as (-> & _ & He). eauto.
  - apply host_disperser_to_spec in H as [H|(-> & He)]; [left; exact H|right; eauto].
Qed.

(* the same, spelled out cell by cell and field by field *)
Corollary disperser_at_most_one_host_cells g i w t est w' t' :
  multi_disperser_to g i w t = Ok (est, w', t') ->
  (est = 0 /\ w' = w) \/
  (est = 1 /\ exists k hc c c',
     nth_error (g_hosts g) k = Some hc /\ cell_at w k i = Some c /\ 0 < cS c /\
     add_disperser (h_mt hc) c = Ok (c', 1) /\ cS c' = cS c - 1 /\
     (forall k' j, cell_at w' k' j = if Nat.eqb k' k && Nat.eqb j i then Some c' else cell_at w k' j) /\
     (forall k', cell_at w' k' i <> cell_at w k' i <-> k' = k) /\
     map hp_suitable (w_hosts w') = map hp_suitable (w_hosts w) /\
     w' = with_hosts w (w_hosts w')).
Proof.
  intros H. apply disperser_at_most_one_host in H as [H|(-> & k & hc & c & c' & Hh & Hc & Hs & Ha & Hr)]; [left; exact H|].
  right. split; [reflexivity|]. exists k, hc, c, c'.
  destruct (add_disperser_pos _ _ _ _ Hs Ha) as (_ & Hs').
  destruct (replaced_facts _ _ _ _ _ Hr) as (Hcells & _ & _ & Hsu & _).
  repeat (split; [assumption|]). split; [|split; [exact Hsu|]].
  - intros k'. rewrite Hcells, Nat.eqb_refl, andb_true_r. destruct (Nat.eqb_spec k' k) as [->|Hne].
    + rewrite Hc. split; [reflexivity|]. intros _ [= E]. rewrite E in Hs'. lia.
    + split; [intros C; contradiction C; reflexivity|intros C; contradiction].
  - destruct Hr as (h & cs' & hs' & _ & _ & _ & ->). reflexivity.
Qed.

(* ---------- 3. splitting pests over the hosts ---------- *)
(* everything but the hosts *)
Definition rest_of (w : world) :=
  (w_disp w, w_estab w, w_outside w, w_soil w, w_weather w, w_totpop w, w_other w, w_temp w, w_last_index w).

Lemma rest_of_with_hosts w w' : rest_of w' = rest_of w <-> w' = with_hosts w (w_hosts w').
Proof.
  destruct w, w'. unfold rest_of, with_hosts. cbn. split; intros H; injection H; intros; subst; reflexivity.
Qed.

(* only cells at raster index i differ *)
Definition same_but_column (w w' : world) (i : nat) : Prop :=
  rest_of w' = rest_of w /\ map hp_suitable (w_hosts w') = map hp_suitable (w_hosts w) /\
  forall k j, j <> i -> cell_at w' k j = cell_at w k j.

Lemma sbc_refl w i : same_but_column w w i.
Proof. repeat split. Qed.
Lemma sbc_trans w1 w2 w3 i : same_but_column w1 w2 i -> same_but_column w2 w3 i -> same_but_column w1 w3 i.
Proof.
  intros (A1 & B1 & C1) (A2 & B2 & C2). split; [congruence|]. split; [congruence|].
  intros k j Hj. rewrite C2, C1; auto.
Qed.
Lemma sbc_replaced w w' k i c' : replaced w w' k i c' -> same_but_column w w' i.
Proof.
  intros Hr. pose proof (replaced_facts _ _ _ _ _ Hr) as (Hc & _ & _ & Hs & _ & F1 & F2 & F3 & F4 & F5 & F6 & F7 & F8 & F9).
  split; [unfold rest_of; congruence|]. split; [exact Hs|].
  intros k' j Hj. rewrite Hc. apply Nat.eqb_neq in Hj. rewrite Hj, andb_false_r. reflexivity.
Qed.

Fixpoint map2 {A B C} (f : A -> B -> C) (la : list A) (lb : list B) : list C :=
  match la, lb with a :: ra, b :: rb => f a b :: map2 f ra rb | _, _ => [] end.

Lemma map2_nth {A B C} (f : A -> B -> C) : forall la lb k,
  nth_error (map2 f la lb) k =
  match nth_error la k, nth_error lb k with Some a, Some b => Some (f a b) | _, _ => None end.
Proof.
  induction la as [|a ra IH]; intros lb k; cbn [map2].
  - destruct k; reflexivity.
  - destruct lb as [|b rb]; [destruct k; cbn [nth_error]; [reflexivity|destruct (nth_error ra k); reflexivity]|].
    destruct k; cbn [nth_error]; [reflexivity|apply IH].
Qed.

Definition split_loop (F : cell -> Z -> cell * Z) (i : nat) :=
  fix go (k m : nat) (ds : list Z) (acc : Z) : W Z :=
    match m, ds with
    | S m', x :: r =>
      let* c := get_cell k i in
      let res := F c x in
      set_cell k i (fst res) ;; go (S k) m' r (acc + snd res)
    | _, _ => ret acc
    end.

Lemma skipn_cons_inv {A} : forall k (l : list A) h r, skipn k l = h :: r ->
  nth_error l k = Some h /\ skipn (S k) l = r.
Proof.
  induction k as [|k IH]; intros l h r H; destruct l as [|x l]; cbn [skipn] in H; try discriminate.
  - injection H as -> ->. auto.
  - apply IH in H. exact H.
Qed.

Lemma rset_firstn {A} (l : list A) : forall k a l', rset l k a = Ok l' -> firstn k l' = firstn k l.
Proof.
  induction l as [|x r IH]; intros k a l' H; cbn [rset] in H; [discriminate|].
  destruct k as [|k]; [reflexivity|].
  destruct (rset r k a) as [r'|] eqn:E; [|discriminate]. cbn [bind] in H. injection H as <-.
  cbn [firstn]. f_equal. apply (IH _ _ _ E).
Qed.

Lemma nth_error_firstn_lt {A} : forall n (l : list A) k, (k < n)%nat -> nth_error (firstn n l) k = nth_error l k.
Proof.
  induction n as [|n IH]; intros l k Hk; [lia|]. destruct l as [|x l]; [destruct k; reflexivity|].
  destruct k as [|k]; [reflexivity|]. cbn [firstn nth_error]. apply IH. lia.
Qed.

Lemma split_loop_spec F i : forall m w t ds k acc x w' t' cs,
  split_loop F i k m ds acc w t = Ok (x, w', t') ->
  col (skipn k (w_hosts w)) i cs -> length ds = length cs -> m = length cs ->
  t' = t /\ x = acc + sumZ (map2 (fun c d => snd (F c d)) cs ds) /\
  col (skipn k (w_hosts w')) i (map2 (fun c d => fst (F c d)) cs ds) /\
  firstn k (w_hosts w') = firstn k (w_hosts w) /\ same_but_column w w' i.
Proof.
  induction m as [|m IH]; intros w t ds k acc x w' t' cs H Hcol Hl Hm.
  - destruct cs; [|discriminate]. destruct ds; [|discriminate].
    cbn in H. apply ret_inv in H as (-> & -> & ->). cbn [map2 sumZ].
    split; [reflexivity|]. split; [lia|]. split; [exact Hcol|]. split; [reflexivity|apply sbc_refl].
  - destruct cs as [|c0 cs1]; [discriminate|]. destruct ds as [|d r]; [discriminate|].
    cbn [length] in Hl, Hm. apply Nat.succ_inj in Hl. apply Nat.succ_inj in Hm.
    cbn [split_loop] in H. cbv zeta in H.
    apply bind_inv in H as (c & s0 & t0 & E & H). apply get_cell_at in E as (-> & -> & Hc).
    apply bind_inv in H as (u & w1 & t1 & Es & H). apply set_cell_spec in Es as (-> & Hr).
    inversion Hcol as [|h ? rest ? Hc0 Hrest Eh]; subst. symmetry in Eh.
    apply skipn_cons_inv in Eh as (Hk & Hsk).
    assert (c = c0) as -> by (unfold cell_at in Hc; rewrite Hk in Hc; congruence).
    pose proof Hr as (h0 & cs' & hs' & Hk0 & R1 & R2 & Ew1).
    rewrite Hk in Hk0. injection Hk0 as <-.
    assert (Hsk1 : skipn (S k) (w_hosts w1) = rest).
    { rewrite Ew1. cbn [with_hosts w_hosts]. rewrite (rset_skipn _ _ _ _ R2). exact Hsk. }
    assert (Hcol1 : col (skipn (S k) (w_hosts w1)) i cs1) by (rewrite Hsk1; exact Hrest).
    destruct (IH _ _ _ _ _ _ _ _ _ H Hcol1 Hl eq_refl) as (-> & -> & Hcol' & Hfirst & Hsbc).
    split; [reflexivity|]. cbn [map2 sumZ]. split; [lia|].
    assert (Hk1 : nth_error (w_hosts w1) k = Some (mkhp cs' (hp_suitable h))).
    { rewrite Ew1. cbn [with_hosts w_hosts]. rewrite (rset_nth _ _ _ _ R2), Nat.eqb_refl. reflexivity. }
    assert (Hk' : nth_error (w_hosts w') k = Some (mkhp cs' (hp_suitable h))).
    { rewrite <- (nth_error_firstn_lt (S k)) by lia. rewrite Hfirst. rewrite nth_error_firstn_lt by lia. exact Hk1. }
    split; [|split].
    + rewrite (skipn_nth _ _ _ Hk'). constructor; [|exact Hcol'].
      cbn [hp_cells]. rewrite (rset_nth _ _ _ _ R1), Nat.eqb_refl. reflexivity.
    + assert (Hff : forall l : list hostpool, firstn k l = firstn k (firstn (S k) l)).
      { intros l. rewrite firstn_firstn. f_equal. lia. }
      rewrite (Hff (w_hosts w')), Hfirst, <- Hff. rewrite Ew1. cbn [with_hosts w_hosts].
      apply (rset_firstn _ _ _ _ R2).
    + eapply sbc_trans; [apply (sbc_replaced _ _ _ _ _ Hr)|exact Hsbc].
Qed.

Lemma host_field_at_col (f : cell -> Z) i w t pops w' t' :
  host_field_at f i w t = Ok (pops, w', t') ->
  w' = w /\ t' = t /\ exists cs, column w i cs /\ pops = map f cs.
Proof.
  intros H. unfold host_field_at in H. binv.
  match goal with E : fold_right _ _ _ = Ok _ |- _ =>
    apply (fold_col (fun a c => f c :: a)) in E as (cs & Hc & ->) end.
  split; [reflexivity|]. split; [reflexivity|]. exists cs. split; [exact Hc|].
  clear. induction cs as [|c r IH]; cbn [fold_right map]; congruence.
Qed.

Lemma pop_draw_spec n w t d w' t' : pop_draw n w t = Ok (d, w', t') ->
  w' = w /\ exists labels, t = EvDraw labels :: t' /\ d = counts_of labels n.
Proof.
  intros H. unfold pop_draw in H. apply bind_inv in H as (e & s0 & t0 & E & H).
  apply pop_inv in E as (-> & ->). destruct e; try discriminate H.
  destruct (labels_below labels 0 (Z.of_nat n)); [|discriminate H].
  apply ret_inv in H as (-> & -> & ->). split; [reflexivity|]. eauto.
Qed.

Lemma Forall2_map_r {A B C} (P : A -> C -> Prop) (f : B -> C) la lb :
  Forall2 P la (map f lb) -> Forall2 (fun a b => P a (f b)) la lb.
Proof.
  revert la. induction lb as [|b r IH]; intros la H; inversion H; subst; constructor; auto.
Qed.

Lemma sum_map2_snd (F : cell -> Z -> cell * Z) : forall ds cs,
  Forall2 (fun d c => snd (F c d) = d) ds cs -> sumZ (map2 (fun c d => snd (F c d)) cs ds) = sumZ ds.
Proof. induction 1 as [|d c ds cs E _ IH]; cbn [map2 sumZ]; [reflexivity|]. rewrite E, IH. reflexivity. Qed.

(* the common part of pests_from and pests_to *)
Lemma multi_split_spec (f : cell -> Z) (F : cell -> Z -> cell * Z) i count w t x w' t' :
  0 <= count ->
  (let* n := num_hosts in
   let* d := pop_draw n in
   let* pops := host_field_at f i in
   (if valid_draw pops d count then ret tt else fail TapeMismatch) ;;
   split_loop F i 0%nat n d 0) w t = Ok (x, w', t') ->
  (forall c d, 0 <= d <= f c -> snd (F c d) = d) ->
  exists cs ds labels,
    t = EvDraw labels :: t' /\ ds = counts_of labels (length (w_hosts w)) /\
    column w i cs /\ Forall2 (fun d c => 0 <= d <= f c) ds cs /\
    sumZ ds = x /\ x = Z.min count (sumZ (map f cs)) /\ 0 <= x <= count /\ x <= sumZ (map f cs) /\
    column w' i (map2 (fun c d => fst (F c d)) cs ds) /\ same_but_column w w' i.
Proof.
  intros Hcount H HF.
  apply bind_inv in H as (n & s0 & t0 & E & H). unfold num_hosts in E.
  apply bind_inv in E as (w0 & s1 & t1 & E1 & E2). apply get_inv in E1 as (-> & -> & ->).
  apply ret_inv in E2 as (-> & -> & ->).
  apply bind_inv in H as (d & s0 & t1 & E & H). apply pop_draw_spec in E as (-> & labels & -> & Ed).
  apply bind_inv in H as (pops & s0 & t2 & E & H). apply host_field_at_col in E as (-> & -> & cs & Hcol & ->).
  apply bind_inv in H as (u & s0 & t2 & E & H).
  destruct (valid_draw (map f cs) d count) eqn:V; [|discriminate E].
  apply ret_inv in E as (_ & -> & ->).
  apply valid_draw_spec in V as (Hpw & Hsum & Hlen).
  assert (Hb : Forall2 (fun d c => 0 <= d <= f c) d cs) by (apply (Forall2_map_r (fun x y : Z => 0 <= x <= y) f); exact Hpw).
  rewrite map_length in Hlen.
  destruct (split_loop_spec F i _ _ _ _ _ _ _ _ _ cs H Hcol Hlen (eq_sym (col_length _ _ _ Hcol)))
    as (-> & Hx & Hcol' & _ & Hsbc).
  rewrite sum_map2_snd in Hx by (eapply Forall2_weaken; [|exact Hb]; intros a b Hab; apply HF; exact Hab).
  pose proof (pointwise_le_sum _ _ Hpw) as Hs.
  assert (Hdt : draw_total count (map f cs) = Z.min count (sumZ (map f cs))).
  { unfold draw_total. destruct (Z.ltb_spec count 0); [lia|reflexivity]. }
  exists cs, d, labels. split; [reflexivity|]. split; [exact Ed|]. split; [exact Hcol|]. split; [exact Hb|].
  split; [lia|]. split; [lia|]. split; [lia|]. split; [lia|]. split; [exact Hcol'|exact Hsbc].
Qed.

Theorem pests_split_bounds i count w t x w' t' : 0 <= count ->
  multi_pests_from i count w t = Ok (x, w', t') ->
  exists cs ds labels,
    t = EvDraw labels :: t' /\ ds = counts_of labels (length (w_hosts w)) /\
    column w i cs /\ Forall2 (fun d c => 0 <= d <= cI c) ds cs /\
    sumZ ds = x /\ x = Z.min count (sumZ (map cI cs)) /\ 0 <= x <= count /\ x <= sumZ (map cI cs) /\
    column w' i (map2 (fun c d => fst (pests_from c d)) cs ds) /\ same_but_column w w' i.
Proof.
  intros Hc H. apply (multi_split_spec cI pests_from i count w t x w' t' Hc H). intros c d _. reflexivity.
Qed.

Theorem pests_to_split_bounds i count w t x w' t' : 0 <= count ->
  multi_pests_to i count w t = Ok (x, w', t') ->
  exists cs ds labels,
    t = EvDraw labels :: t' /\ ds = counts_of labels (length (w_hosts w)) /\
    column w i cs /\ Forall2 (fun d c => 0 <= d <= cS c) ds cs /\
    sumZ ds = x /\ x = Z.min count (sumZ (map cS cs)) /\ 0 <= x <= count /\ x <= sumZ (map cS cs) /\
    column w' i (map2 (fun c d => fst (pests_to c d)) cs ds) /\ same_but_column w w' i.
Proof.
  intros Hc H. apply (multi_split_spec cS pests_to i count w t x w' t' Hc H). intros c d Hd.
  unfold pests_to. cbn [snd]. destruct (Z.geb_spec (cS c) d); lia.
Qed.

(* host by host: host k gives up d_k of its infected, which become susceptible *)
Corollary pests_split_host i count w t x w' t' : 0 <= count ->
  multi_pests_from i count w t = Ok (x, w', t') ->
  exists ds, sumZ ds = x /\ length ds = length (w_hosts w) /\
    forall k c, cell_at w k i = Some c ->
      exists d, nth_error ds k = Some d /\ 0 <= d <= cI c /\
        cell_at w' k i = Some (mkcell (cS c + d) (cE c) (cI c - d) (cTE c) (cR c) (cM c) (cD c) (cTH c)).
Proof.
  intros Hc H. apply (pests_split_bounds _ _ _ _ _ _ _ Hc) in H
    as (cs & ds & labels & _ & _ & Hcol & Hb & Hs & _ & _ & _ & Hcol' & _).
  exists ds. split; [exact Hs|]. split.
  { rewrite <- (col_length _ _ _ Hcol). clear - Hb. induction Hb; cbn [length]; congruence. }
  intros k c Hk. rewrite <- (col_cell_at _ _ _ Hcol) in Hk. rewrite <- (col_cell_at _ _ _ Hcol'), map2_nth, Hk.
  assert (Hd : exists d, nth_error ds k = Some d /\ 0 <= d <= cI c).
  { clear - Hb Hk. revert k Hk. induction Hb as [|d c0 ds cs Hd _ IH]; intros [|k] Hk; cbn [nth_error] in *; try discriminate.
    - injection Hk as ->. eauto.
    - apply IH. exact Hk. }
  destruct Hd as (d & Hd & Hr). exists d. rewrite Hd. auto.
Qed.

Corollary pests_to_split_host i count w t x w' t' : 0 <= count ->
  multi_pests_to i count w t = Ok (x, w', t') ->
  exists ds, sumZ ds = x /\ length ds = length (w_hosts w) /\
    forall k c, cell_at w k i = Some c ->
      exists d, nth_error ds k = Some d /\ 0 <= d <= cS c /\
        cell_at w' k i = Some (mkcell (cS c - d) (cE c) (cI c + d) (cTE c) (cR c) (cM c) (cD c) (cTH c)).
Proof.
  intros Hc H. apply (pests_to_split_bounds _ _ _ _ _ _ _ Hc) in H
    as (cs & ds & labels & _ & _ & Hcol & Hb & Hs & _ & _ & _ & Hcol' & _).
  exists ds. split; [exact Hs|]. split.
  { rewrite <- (col_length _ _ _ Hcol). clear - Hb. induction Hb; cbn [length]; congruence. }
  intros k c Hk. rewrite <- (col_cell_at _ _ _ Hcol) in Hk. rewrite <- (col_cell_at _ _ _ Hcol'), map2_nth, Hk.
  assert (Hd : exists d, nth_error ds k = Some d /\ 0 <= d <= cS c).
  { clear - Hb Hk. revert k Hk. induction Hb as [|d c0 ds cs Hd _ IH]; intros [|k] Hk; cbn [nth_error] in *; try discriminate.
    - injection Hk as ->. eauto.
    - apply IH. exact Hk. }
  destruct Hd as (d & Hd & Hr). exists d. rewrite Hd. split; [reflexivity|]. split; [exact Hr|].
  unfold pests_to. cbn [fst]. destruct (Z.geb_spec (cS c) d); [reflexivity|lia].
Qed.

(* ---------- running a bind forwards ---------- *)
Lemma mbind_ok {S A B} (m : M S A) (f : A -> M S B) s t a s1 t1 :
  m s t = Ok (a, s1, t1) -> mbind m f s t = f a s1 t1.
Proof. intros E. unfold mbind. rewrite E. reflexivity. Qed.
Lemma mbind_err {S A B} (m : M S A) (f : A -> M S B) s t e :
  m s t = Err e -> mbind m f s t = Err e.
Proof. intros E. unfold mbind. rewrite E. reflexivity. Qed.

(* ---------- suitabilities of all hosts ---------- *)
Definition suits (g : config) (i : nat) (w : world) (t : tape) (k n : nat) (ws : list Q) : Prop :=
  Forall2 (fun j s => suitability_at g j i w t = Ok (s, w, t)) (seq k n) ws.

Lemma suitabilities_spec g i : forall n k w t ws w' t',
  suitabilities g i k n w t = Ok (ws, w', t') -> w' = w /\ t' = t /\ suits g i w t k n ws.
Proof.
  induction n as [|n IH]; intros k w t ws w' t' H; cbn [suitabilities] in H.
  - apply ret_inv in H as (-> & -> & ->). repeat split. constructor.
  - apply bind_inv in H as (s & w1 & t1 & E & H). pose proof E as E'.
    apply suitability_at_spec in E' as (-> & -> & _).
    apply bind_inv in H as (r & w2 & t2 & Er & H). apply IH in Er as (-> & -> & Hr).
    apply ret_inv in H as (-> & -> & ->). repeat split. constructor; assumption.
Qed.

Lemma suitabilities_ok g i w t : forall n k ws, suits g i w t k n ws ->
  suitabilities g i k n w t = Ok (ws, w, t).
Proof.
  induction n as [|n IH]; intros k ws H; inversion H as [|? s ? r Hs Hr]; subst; cbn [suitabilities]; [reflexivity|].
  rewrite (mbind_ok _ _ _ _ _ _ _ Hs). rewrite (mbind_ok _ _ _ _ _ _ _ (IH _ _ Hr)). reflexivity.
Qed.

Lemma qsum_nonneg ws : Forall (fun s => (0 <= s)%Q) ws -> (0 <= qsum ws)%Q.
Proof.
  induction 1 as [|s r Hs _ IH]; cbn [qsum fold_right]; [apply Qle_refl|].
  change (0 <= s + qsum r)%Q. lra.
Qed.

(* ---------- 6. total suitability above one ---------- *)
Theorem oversuitable_rejected g i w t ws :
  suits g i w t 0 (length (w_hosts w)) ws -> (1 < qsum ws)%Q ->
  multi_disperser_to g i w t = Err InvalidArgument.
Proof.
  intros Hs Hgt. unfold multi_disperser_to.
  rewrite (mbind_ok num_hosts _ w t (length (w_hosts w)) w t eq_refl).
  destruct (length (w_hosts w)) as [|n] eqn:En.
  { inversion Hs; subst. cbn in Hgt. lra. }
  cbn [Nat.eqb].
  inversion Hs as [|? s ? r Hs0 Hr]; subst.
  pose proof Hs0 as Hs0'. apply suitability_at_spec in Hs0' as (_ & _ & c & hc & npop & _ & _ & Ep & Hn & _).
  rewrite (mbind_ok _ _ _ _ _ _ _ Ep). destruct (Z.eqb_spec npop 0) as [|_]; [contradiction|].
  rewrite (mbind_ok _ _ _ _ _ _ _ (suitabilities_ok _ _ _ _ _ _ _ Hs)).
  destruct (Qle_bool (qsum (s :: r)) 0) eqn:E0; [apply Qle_bool_iff in E0; lra|].
  unfold qltb. destruct (Qle_bool (qsum (s :: r)) 1) eqn:E1; [apply Qle_bool_iff in E1; lra|].
  reflexivity.
Qed.

(* the same with the model's own computation of the suitabilities *)
Corollary oversuitable_rejected' g i w t ws w1 t1 :
  suitabilities g i 0 (length (w_hosts w)) w t = Ok (ws, w1, t1) -> (1 < qsum ws)%Q ->
  multi_disperser_to g i w t = Err InvalidArgument.
Proof. intros H. apply suitabilities_spec in H as (_ & _ & H). apply oversuitable_rejected. exact H. Qed.


(* ---------- computations that neither change the world nor read the tape ---------- *)
Definition quiet {A} (m : W A) : Prop :=
  forall w t a w' t', m w t = Ok (a, w', t') -> w' = w /\ t' = t.

Lemma q_ret {A} (a : A) : quiet (ret a).
Proof. intros w t x w' t' H. apply ret_inv in H. tauto. Qed.
Lemma q_fail {A} e : quiet (@fail world A e).
Proof. intros w t x w' t' H. discriminate. Qed.
Lemma q_get : quiet (@get world).
Proof. intros w t x w' t' H. apply get_inv in H. tauto. Qed.
Lemma q_lift {A} (r : result A) : quiet (lift r).
Proof. intros w t x w' t' H. apply lift_inv in H. tauto. Qed.
Lemma q_bind {A B} (m : W A) (f : A -> W B) : quiet m -> (forall a, quiet (f a)) -> quiet (mbind m f).
Proof.
  intros Hm Hf w t x w' t' H. apply bind_inv in H as (a & s1 & t1 & E1 & E2).
  apply Hm in E1 as (-> & ->). eapply Hf; eauto.
Qed.
Ltac q_step :=
  match goal with
  | |- quiet (mbind _ _) => apply q_bind; [|intros ?]
  | |- quiet (ret _) => apply q_ret
  | |- quiet (fail _) => apply q_fail
  | |- quiet get => apply q_get
  | |- quiet (lift _) => apply q_lift
  | |- quiet (if ?b then _ else _) => destruct b
  | |- quiet (match ?x with _ => _ end) => destruct x
  end.
Ltac qt := repeat q_step.

Lemma q_get_cell k i : quiet (get_cell k i).
Proof. unfold get_cell, get_host. qt. Qed.
Lemma q_host_cfg g k : quiet (host_cfg g k).
Proof. unfold host_cfg. qt. Qed.
Lemma q_num_hosts : quiet num_hosts.
Proof. unfold num_hosts. qt. Qed.
Lemma q_weather_at i : quiet (weather_at i).
Proof. unfold weather_at. qt. Qed.
Lemma q_total_population_at i : quiet (total_population_at i).
Proof. unfold total_population_at. qt. Qed.
Lemma q_for_hosts (f : nat -> W unit) : (forall j, quiet (f j)) -> forall n k, quiet (for_hosts k n f).
Proof.
  intros Hf n. induction n as [|n IH]; intros k; cbn [for_hosts]; [apply q_ret|].
  apply q_bind; [apply Hf|intros ?u; apply IH].
Qed.

(* no population at all at the cell: nothing establishes, in the pool and in any single host *)
Theorem zero_population_no_establishment g i w t w1 t1 :
  total_population_at i w t = Ok (0, w1, t1) ->
  (forall est w' t', multi_disperser_to g i w t = Ok (est, w', t') -> est = 0 /\ w' = w /\ t' = t) /\
  (forall k est w' t', host_disperser_to g k i w t = Ok (est, w', t') -> est = 0 /\ w' = w /\ t' = t).
Proof.
  intros Hp. pose proof Hp as Hq. apply q_total_population_at in Hq as (-> & ->). split.
  - intros est w' t' H. unfold multi_disperser_to in H.
    apply bind_inv in H as (n & s0 & t0 & E & H). apply q_num_hosts in E as (-> & ->).
    destruct (Nat.eqb n 0); [discriminate H|].
    apply bind_inv in H as (npop & s0 & t0 & E & H). rewrite Hp in E. injection E as <- <- <-.
    cbn [Z.eqb] in H.
    apply bind_inv in H as (wz & s0 & t0 & E & H).
    assert (Q1 : quiet (if g_weather g then let* wc := weather_at i in ret (Qeq_bool wc 0) else ret false))
      by (qt; apply q_weather_at).
    apply Q1 in E as (-> & ->).
    apply bind_inv in H as (u & s0 & t0 & E & H).
    match type of E with for_hosts ?k0 ?n0 ?f0 _ _ = Ok _ =>
      assert (Q2 : quiet (for_hosts k0 n0 f0))
        by (apply q_for_hosts; intros j; qt; try apply q_get_cell; try apply q_host_cfg) end.
    apply Q2 in E as (-> & ->). apply ret_inv in H as (-> & -> & ->). auto.
  - intros k est w' t' H. unfold host_disperser_to in H.
    apply bind_inv in H as (c & s0 & t0 & E & H). apply q_get_cell in E as (-> & ->).
    destruct (cS c <=? 0); [apply ret_inv in H as (-> & -> & ->); auto|].
    apply bind_inv in H as (hc & s0 & t0 & E & H). apply q_host_cfg in E as (-> & ->).
    apply bind_inv in H as (p & s0 & t0 & E & H). exfalso. unfold suitability_at in E.
    apply bind_inv in E as (c1 & s1 & t2 & E1 & E). apply q_get_cell in E1 as (-> & ->).
    apply bind_inv in E as (hc1 & s1 & t2 & E1 & E). apply q_host_cfg in E1 as (-> & ->).
    apply bind_inv in E as (n & s1 & t2 & E1 & E). rewrite Hp in E1. injection E1 as <- <- <-.
    discriminate E.
Qed.

(* ---------- 4. a single host ---------- *)
Lemma Qle_bool_comp_l p p' x : (p == p')%Q -> Qle_bool p x = Qle_bool p' x.
Proof.
  intros E. destruct (Qle_bool p x) eqn:A, (Qle_bool p' x) eqn:B; try reflexivity.
  - apply Qle_bool_iff in A. rewrite E in A. apply Qle_bool_iff in A. congruence.
  - apply Qle_bool_iff in B. rewrite <- E in B. apply Qle_bool_iff in B. congruence.
Qed.
Lemma Qle_bool_comp_r p p' x : (p == p')%Q -> Qle_bool x p = Qle_bool x p'.
Proof.
  intros E. destruct (Qle_bool x p) eqn:A, (Qle_bool x p') eqn:B; try reflexivity.
  - apply Qle_bool_iff in A. rewrite E in A. apply Qle_bool_iff in A. congruence.
  - apply Qle_bool_iff in B. rewrite <- E in B. apply Qle_bool_iff in B. congruence.
Qed.

Lemma can_establish_comp p p' st d w t : (p == p')%Q ->
  can_establish p st d w t = can_establish p' st d w t.
Proof.
  intros E. unfold can_establish, mbind, pop. destruct t as [|e r]; [reflexivity|].
  destruct e; try reflexivity.
  assert (E1 : qltb tester p = qltb tester p') by (unfold qltb; f_equal; apply Qle_bool_comp_l; exact E).
  assert (E2 : qabs_small tester p = qabs_small tester p').
  { unfold qabs_small, qltb. f_equal. apply Qle_bool_comp_r. rewrite E. reflexivity. }
  rewrite E1, E2. reflexivity.
Qed.

Lemma qsum_single s : (qsum [s] == s)%Q.
Proof. cbn [qsum fold_right]. ring. Qed.


Lemma single_host_prefix g i w t s w1 t1 :
  length (w_hosts w) = 1%nat -> suitability_at g 0 i w t = Ok (s, w1, t1) ->
  w1 = w /\ t1 = t /\ (0 <= s <= 1)%Q /\
  multi_disperser_to g i w t =
    (let total := qsum [s] in
     if Qle_bool total 0 then ret 0
     else if qltb 1 total then fail InvalidArgument
     else
       let* k := pick_host [s] in
       if g_arrival_land g then
         let* c := get_cell k i in
         if cS c <=? 0 then ret 0
         else
           let* est := can_establish total (g_est_stoch g) (g_est_prob g) in
           if est then host_add_disperser g k i else ret 0
       else host_disperser_to g k i) w t.
Proof.
  intros Hone Hsuit.
  pose proof Hsuit as H. apply suitability_at_spec in H as (-> & -> & c & hc & npop & _ & _ & Ep & Hn & Hr & _).
  split; [reflexivity|]. split; [reflexivity|]. split; [exact Hr|]. unfold multi_disperser_to.
  rewrite (mbind_ok num_hosts _ w t (length (w_hosts w)) w t eq_refl). rewrite Hone. cbn [Nat.eqb].
  rewrite (mbind_ok _ _ _ _ _ _ _ Ep). destruct (Z.eqb_spec npop 0) as [|_]; [contradiction|].
  assert (Hs : suits g i w t 0 1 [s]) by (constructor; [exact Hsuit|constructor]).
  rewrite (mbind_ok _ _ _ _ _ _ _ (suitabilities_ok _ _ _ _ _ _ _ Hs)). reflexivity.
Qed.

(* arrival behaviour "infect", positive suitability: the pool behaves exactly
   as its only host *)
Theorem single_host_infect g i w t s w1 t1 :
  length (w_hosts w) = 1%nat -> g_arrival_land g = false ->
  suitability_at g 0 i w t = Ok (s, w1, t1) -> (0 < s)%Q ->
  multi_disperser_to g i w t = host_disperser_to g 0 i w t.
Proof.
  intros Hone Hl Hsuit Hpos. destruct (single_host_prefix _ _ _ _ _ _ _ Hone Hsuit) as (_ & _ & Hr & ->). cbv zeta.
  pose proof (qsum_single s) as Hq.
  destruct (Qle_bool (qsum [s]) 0) eqn:E0; [apply Qle_bool_iff in E0; lra|].
  unfold qltb at 1. destruct (Qle_bool (qsum [s]) 1) eqn:E1; [|exfalso; apply not_true_iff_false in E1; apply E1, Qle_bool_iff; lra].
  cbn [negb]. rewrite Hl. reflexivity.
Qed.

(* arrival behaviour "land" with the host's establishment settings equal to
   the configuration's *)
Theorem single_host_land g i w t s w1 t1 hc :
  length (w_hosts w) = 1%nat -> g_arrival_land g = true ->
  nth_error (g_hosts g) 0 = Some hc -> h_est_stoch hc = g_est_stoch g -> h_est_prob hc = g_est_prob g ->
  suitability_at g 0 i w t = Ok (s, w1, t1) -> (0 < s)%Q ->
  multi_disperser_to g i w t = host_disperser_to g 0 i w t.
Proof.
  intros Hone Hl Hhc Hst Hpr Hsuit Hpos.
  destruct (single_host_prefix _ _ _ _ _ _ _ Hone Hsuit) as (-> & -> & Hr & ->). cbv zeta.
  pose proof (qsum_single s) as Hq.
  destruct (Qle_bool (qsum [s]) 0) eqn:E0; [apply Qle_bool_iff in E0; lra|].
  unfold qltb at 1. destruct (Qle_bool (qsum [s]) 1) eqn:E1; [|exfalso; apply not_true_iff_false in E1; apply E1, Qle_bool_iff; lra].
  cbn [negb]. rewrite Hl. unfold host_disperser_to.
  change (mbind (pick_host [s]) ?f w t) with (f 0%nat w t). cbv beta.
  unfold mbind at 1 3. destruct (get_cell 0 i w t) as [[[c w2] t2]|e] eqn:Ec; [|reflexivity].
  apply get_cell_inv in Ec as (-> & -> & _).
  destruct (cS c <=? 0); [reflexivity|].
  assert (Eh : host_cfg g 0 w t = Ok (hc, w, t)).
  { unfold host_cfg, lift, rget. rewrite Hhc. reflexivity. }
  rewrite (mbind_ok _ _ _ _ _ _ _ Eh). rewrite (mbind_ok _ _ _ _ _ _ _ Hsuit).
  rewrite Hst, Hpr. unfold mbind. rewrite (can_establish_comp _ _ _ _ _ _ Hq). reflexivity.
Qed.

(* suitability zero (either arrival behaviour): the pool returns 0 without
   consuming anything; the host alone also returns 0 and changes nothing but
   may consume one establishment event.
   CHANGED: "whose outcome is forced to false" needs a proviso.  The logged
   outcome is false unless the logged tester is below 2^-40: a stochastic
   tester (>= 0) is then within the tolerance of the probability 0 and the
   implementation's answer is followed; a deterministic tester
   1 - h_est_prob is that small only for h_est_prob > 1 - 2^-40. *)
Theorem single_host_zero g i w t s w1 t1 :
  length (w_hosts w) = 1%nat -> suitability_at g 0 i w t = Ok (s, w1, t1) -> (s <= 0)%Q ->
  multi_disperser_to g i w t = Ok (0, w, t) /\
  forall est w' t', host_disperser_to g 0 i w t = Ok (est, w', t') ->
    (est = 0 /\ w' = w /\ (t' = t \/ exists tester p, t = EvEstablish tester p false :: t')) \/
    (exists tester p t'', t = EvEstablish tester p true :: t'' /\ (tester < 1 # 1099511627776)%Q).
Proof.
  intros Hone Hsuit Hle. destruct (single_host_prefix _ _ _ _ _ _ _ Hone Hsuit) as (-> & -> & Hr & Hm).
  pose proof (qsum_single s) as Hq.
  assert (Hs0 : (s == 0)%Q) by lra. split.
  - rewrite Hm. cbv zeta.
    destruct (Qle_bool (qsum [s]) 0) eqn:E0; [reflexivity|].
    exfalso. apply not_true_iff_false in E0. apply E0, Qle_bool_iff. lra.
  - intros est w' t' H. unfold host_disperser_to in H.
    apply bind_inv in H as (c & w2 & t2 & Ec & H). apply get_cell_inv in Ec as (-> & -> & _).
    destruct (cS c <=? 0); [apply ret_inv in H as (-> & -> & ->); left; auto|].
    apply bind_inv in H as (hc & w2 & t2 & Eh & H). unfold host_cfg in Eh. apply lift_inv in Eh as (_ & -> & ->).
    apply bind_inv in H as (p & w2 & t2 & Ep & H). rewrite Hsuit in Ep. injection Ep as <- <- <-.
    apply bind_inv in H as (res & w2 & t2 & Ee & H).
    apply can_establish_spec in Ee as (-> & tester & p0 & -> & Hdet & Hst & Hres).
    destruct res.
    + right. exists tester, p0, t2. split; [reflexivity|].
      destruct Hres as [Hres|Hres].
      * symmetry in Hres. unfold qltb in Hres. apply negb_true_iff in Hres.
        assert (tester < s)%Q.
        { apply Qnot_le_lt. intros C. apply Qle_bool_iff in C. congruence. }
        lra.
      * pose proof (Qle_Qabs (tester - s)) as Ha. lra.
    + apply ret_inv in H as (-> & -> & ->). left. split; [reflexivity|]. split; [reflexivity|]. right. eauto.
Qed.

(* with deterministic establishment and a probability that is not within
   2^-40 of one (or above) nothing can establish at suitability zero *)
Corollary single_host_zero_det g i w t s w1 t1 hc est w' t' :
  length (w_hosts w) = 1%nat -> suitability_at g 0 i w t = Ok (s, w1, t1) -> (s <= 0)%Q ->
  nth_error (g_hosts g) 0 = Some hc -> h_est_stoch hc = false ->
  (h_est_prob hc <= 1 - (1 # 1099511627776))%Q ->
  host_disperser_to g 0 i w t = Ok (est, w', t') -> est = 0 /\ w' = w.
Proof.
  intros Hone Hsuit Hle Hhc Hst Hpr H.
  destruct (single_host_prefix _ _ _ _ _ _ _ Hone Hsuit) as (-> & -> & Hr & _).
  unfold host_disperser_to in H.
  apply bind_inv in H as (c & w2 & t2 & Ec & H). apply get_cell_inv in Ec as (-> & -> & _).
  destruct (cS c <=? 0); [apply ret_inv in H as (-> & -> & ->); auto|].
  apply bind_inv in H as (hc0 & w2 & t2 & Eh & H). unfold host_cfg in Eh. apply lift_inv in Eh as (Eh & -> & ->).
  apply rget_Some in Eh. rewrite Hhc in Eh. injection Eh as <-.
  apply bind_inv in H as (p & w2 & t2 & Ep & H). rewrite Hsuit in Ep. injection Ep as <- <- <-.
  apply bind_inv in H as (res & w2 & t2 & Ee & H).
  apply can_establish_spec in Ee as (-> & tester & p0 & -> & Hdet & _ & Hres).
  specialize (Hdet Hst).
  destruct res; [|apply ret_inv in H as (-> & -> & ->); auto].
  exfalso. destruct Hres as [Hres|Hres].
  - symmetry in Hres. unfold qltb in Hres. apply negb_true_iff in Hres.
    assert (tester < s)%Q by (apply Qnot_le_lt; intros C; apply Qle_bool_iff in C; congruence).
    lra.
  - pose proof (Qle_Qabs (tester - s)) as Ha. lra.
Qed.

(* ---------- 5. competency table ---------- *)
Definition no_match (pres : list bool) (rows : list (list bool * Q)) : Prop :=
  Forall (fun r => beq_list (fst r) pres = false) rows.

Lemma complete_lookup_gen rows pres : forall found,
  (forall q, complete_lookup rows pres found = Ok q <->
     ((exists pre key post, rows = pre ++ (key, q) :: post /\ beq_list key pres = true /\ no_match pres post) \/
      (found = Some q /\ no_match pres rows))) /\
  (forall e, complete_lookup rows pres found = Err e <-> (e = OutOfRange /\ found = None /\ no_match pres rows)).
Proof.
  induction rows as [|[key comp] r IH]; intros found; cbn [complete_lookup].
  - split.
    + intros q. split.
      * destruct found as [q0|]; [|discriminate]. intros [= ->]. right. split; [reflexivity|constructor].
      * intros [(pre & key & post & E & _)|(-> & _)]; [destruct pre; discriminate|reflexivity].
    + intros e. split.
      * destruct found; [discriminate|]. intros [= <-]. repeat split. constructor.
      * intros (-> & -> & _). reflexivity.
  - destruct (IH (if beq_list key pres then Some comp else found)) as (IH1 & IH2). split.
    + intros q. rewrite IH1. split.
      * intros [(pre & k2 & post & -> & Hk & Hn)|(Hf & Hn)].
        -- left. exists ((key, comp) :: pre), k2, post. auto.
        -- destruct (beq_list key pres) eqn:Eb.
           ++ injection Hf as ->. left. exists [], key, r. auto.
           ++ right. split; [exact Hf|]. constructor; [exact Eb|exact Hn].
      * intros [(pre & k2 & post & E & Hk & Hn)|(-> & Hn)].
        -- destruct pre as [|p pre]; cbn [app] in E.
           ++ injection E as E1 E2 E3. subst. right. rewrite Hk. auto.
           ++ injection E as E1 E2. subst. left. exists pre, k2, post. auto.
        -- inversion Hn as [|? ? Hb Hr]; subst. cbn [fst] in Hb. rewrite Hb. right. auto.
    + intros e. rewrite IH2. split.
      * intros (-> & Hf & Hn). destruct (beq_list key pres) eqn:Eb; [discriminate|].
        repeat split; [exact Hf|]. constructor; [exact Eb|exact Hn].
      * intros (-> & -> & Hn). inversion Hn as [|? ? Hb Hr]; subst. cbn [fst] in Hb. rewrite Hb. auto.
Qed.

(* complete table: the competency of the LAST row whose key equals the presence vector *)
Theorem competency_complete rows pres q :
  complete_lookup rows pres None = Ok q <->
  exists pre key post, rows = pre ++ (key, q) :: post /\ beq_list key pres = true /\ no_match pres post.
Proof.
  rewrite (proj1 (complete_lookup_gen rows pres None) q). split; [|auto].
  intros [H|(H & _)]; [exact H|discriminate].
Qed.

Theorem competency_complete_err rows pres e :
  complete_lookup rows pres None = Err e <-> (e = OutOfRange /\ no_match pres rows).
Proof. rewrite (proj2 (complete_lookup_gen rows pres None) e). tauto. Qed.

Corollary competency_complete_out_of_range rows pres :
  complete_lookup rows pres None = Err OutOfRange <-> no_match pres rows.
Proof. rewrite competency_complete_err. tauto. Qed.

Lemma beq_list_eq a : forall b, beq_list a b = true <-> a = b.
Proof.
  induction a as [|x r IH]; intros [|y rb]; cbn [beq_list]; split; try discriminate; try reflexivity.
  - intros H. apply andb_true_iff in H as [H1 H2]. apply eqb_prop in H1. apply IH in H2. congruence.
  - intros [= -> ->]. rewrite eqb_reflx. apply IH. reflexivity.
Qed.

(* partial table *)
Definition eligible (pres : list bool) (k : nat) (row : list bool * Q) : Prop :=
  nth k (fst row) false = true /\ row_subset (fst row) pres = true.

Lemma find_competency_gen pres k : forall rows best q,
  find_competency rows pres k best = Ok q ->
  (best <= q)%Q /\
  (forall row, In row rows -> eligible pres k row -> (snd row <= q)%Q) /\
  (q = best \/ exists row, In row rows /\ eligible pres k row /\ snd row = q).
Proof.
  induction rows as [|[req comp] r IH]; intros best q H; cbn [find_competency] in H.
  - injection H as <-. split; [apply Qle_refl|]. split; [intros row []|left; reflexivity].
  - assert (Hskip : forall b', find_competency r pres k b' = Ok q -> (best <= b')%Q ->
              (eligible pres k (req, comp) -> (comp <= b')%Q) ->
              (b' = best \/ (eligible pres k (req, comp) /\ comp = b')) ->
              (best <= q)%Q /\
              (forall row, In row ((req, comp) :: r) -> eligible pres k row -> (snd row <= q)%Q) /\
              (q = best \/ exists row, In row ((req, comp) :: r) /\ eligible pres k row /\ snd row = q)).
    { intros b' Hb' Hle Hel Hor. destruct (IH _ _ Hb') as (A & B & C). split; [eapply Qle_trans; eassumption|]. split.
      - intros row [<-|Hin] He; [cbn [snd]; eapply Qle_trans; [apply Hel; exact He|exact A]|apply B; assumption].
      - destruct C as [->|(row & Hin & He & Hs)].
        + destruct Hor as [->|(He & Hc)]; [left; reflexivity|].
          right. exists (req, comp). split; [left; reflexivity|]. split; [exact He|exact Hc].
        + right. exists row. split; [right; exact Hin|]. auto. }
    destruct (negb (Nat.eqb (length pres) (length req))); [discriminate|].
    destruct (nth_error req k) as [[|]|] eqn:En; [| |discriminate].
    + destruct (Qle_bool comp best) eqn:El.
      * apply Qle_bool_iff in El. apply (Hskip best H); [apply Qle_refl|intros _; exact El|left; reflexivity].
      * assert (Hlt : (best < comp)%Q).
        { apply Qnot_le_lt. intros C. apply Qle_bool_iff in C. congruence. }
        destruct (row_subset req pres) eqn:Es.
        -- apply (Hskip comp H); [apply Qlt_le_weak; exact Hlt|intros _; apply Qle_refl|].
           right. split; [|reflexivity]. split; [|exact Es]. cbn [fst]. apply nth_error_nth. exact En.
        -- apply (Hskip best H); [apply Qle_refl| |left; reflexivity].
           intros [_ He]. cbn [fst] in He. congruence.
    + apply (Hskip best H); [apply Qle_refl| |left; reflexivity].
      intros [He _]. cbn [fst] in He. rewrite (nth_error_nth _ _ _ En) in He. discriminate.
Qed.

(* the best competency among the rows whose required hosts are all present and
   that include host k; 0 when there is none *)
Theorem competency_partial rows pres k q :
  find_competency rows pres k 0%Q = Ok q ->
  (0 <= q)%Q /\
  (forall row, In row rows -> eligible pres k row -> (snd row <= q)%Q) /\
  (q = 0%Q \/ exists row, In row rows /\ eligible pres k row /\ snd row = q).
Proof. apply find_competency_gen. Qed.

(* a successful lookup has checked the width of every row, and (on a
   non-empty table) that the host index is within the rows *)
Definition width_ok (pres : list bool) (row : list bool * Q) : Prop := length (fst row) = length pres.

Theorem competency_partial_widths rows pres k best q :
  find_competency rows pres k best = Ok q ->
  Forall (width_ok pres) rows /\ (rows <> [] -> (k < length pres)%nat).
Proof.
  revert best. induction rows as [|[req comp] r IH]; intros best H; cbn [find_competency] in H.
  - split; [constructor|]. intros C. contradiction C. reflexivity.
  - destruct (Nat.eqb_spec (length pres) (length req)) as [El|]; [|discriminate]. cbn [negb] in H.
    assert (Hk : (k < length pres)%nat).
    { rewrite El. apply nth_error_Some. intros C. rewrite C in H. discriminate. }
    assert (Hr : exists b', find_competency r pres k b' = Ok q).
    { destruct (nth_error req k) as [[|]|]; [|eauto|discriminate].
      destruct (Qle_bool comp best); [eauto|]. destruct (row_subset req pres); eauto. }
    destruct Hr as (b' & Hr). split; [|intros _; exact Hk].
    constructor; [unfold width_ok; cbn [fst]; congruence|exact (proj1 (IH _ Hr))].
Qed.

(* it fails only on malformed tables: never out of bounds (nor any other
   error) when every row has one entry per host and k is a host index *)
Theorem competency_partial_no_ub rows pres k best :
  Forall (fun r => length (fst r) = length pres) rows -> (k < length pres)%nat ->
  exists q, find_competency rows pres k best = Ok q.
Proof.
  intros Hr Hk. revert best. induction Hr as [|[req comp] r Hl _ IH]; intros best; cbn [find_competency]; [eauto|].
  cbn [fst] in Hl. rewrite Hl, Nat.eqb_refl. cbn [negb].
  destruct (nth_error req k) as [[|]|] eqn:En.
  - destruct (Qle_bool comp best); [apply IH|]. destruct (row_subset req pres); apply IH.
  - apply IH.
  - apply nth_error_None in En. lia.
Qed.

Theorem competency_partial_ok rows pres k best :
  Forall (fun row => length (fst row) = length pres) rows -> (k < length pres)%nat ->
  exists q, find_competency rows pres k best = Ok q.
Proof. apply competency_partial_no_ub. Qed.

(* the first row of the wrong width is rejected with invalid_argument before it
   is indexed.
   CHANGED: "independent of k" holds when the malformed row is the first one;
   behind well-formed rows it needs k to be a host index, because those rows
   are indexed first (k >= length pres is then Err UB_OutOfBounds at the
   first row: competency_partial_index_rejected).  Whatever k is, the lookup
   never succeeds (competency_partial_width_never_ok). *)
Theorem competency_partial_width_rejected pre req comp post pres k best :
  Forall (fun r => length (fst r) = length pres) pre -> length req <> length pres ->
  (pre = [] \/ (k < length pres)%nat) ->
  find_competency (pre ++ (req, comp) :: post) pres k best = Err InvalidArgument.
Proof.
  intros Hpre Hne Hk. revert best.
  induction Hpre as [|[req0 comp0] r Hl _ IH]; intros best; cbn [app find_competency].
  - destruct (Nat.eqb_spec (length pres) (length req)) as [E|_]; [congruence|reflexivity].
  - destruct Hk as [Hk|Hk]; [discriminate Hk|]. specialize (IH (or_intror Hk)).
    cbn [fst] in Hl. rewrite Hl, Nat.eqb_refl. cbn [negb].
    destruct (nth_error req0 k) as [[|]|] eqn:En.
    + destruct (Qle_bool comp0 best); [apply IH|]. destruct (row_subset req0 pres); apply IH.
    + apply IH.
    + apply nth_error_None in En. lia.
Qed.

Corollary competency_partial_first_width_rejected req comp post pres k best :
  length req <> length pres ->
  find_competency ((req, comp) :: post) pres k best = Err InvalidArgument.
Proof.
  intros Hne. apply (competency_partial_width_rejected [] req comp post pres k best); [constructor|exact Hne|left; reflexivity].
Qed.

Theorem competency_partial_index_rejected req comp post pres k best :
  length req = length pres -> (length pres <= k)%nat ->
  find_competency ((req, comp) :: post) pres k best = Err UB_OutOfBounds.
Proof.
  intros Hl Hk. cbn [find_competency]. rewrite Hl, Nat.eqb_refl. cbn [negb].
  assert (En : nth_error req k = None) by (apply nth_error_None; lia). rewrite En. reflexivity.
Qed.

Corollary competency_partial_width_never_ok rows pres k best row :
  In row rows -> length (fst row) <> length pres -> forall q, find_competency rows pres k best <> Ok q.
Proof.
  intros Hin Hne q H. apply competency_partial_widths in H as (Hw & _).
  rewrite Forall_forall in Hw. exact (Hne (Hw _ Hin)).
Qed.


(* ---------- 7. susceptibility ---------- *)
Theorem susceptibility_scales g k i w t s w' t' hc sus mrate lag :
  suitability_at g k i w t = Ok (s, w', t') ->
  nth_error (g_hosts g) k = Some hc -> h_pht hc = Some (sus, mrate, lag) ->
  w' = w /\ t' = t /\
  exists c n, cell_at w k i = Some c /\ total_population_at i w t = Ok (n, w, t) /\ n <> 0 /\
    ((g_weather g = false /\ s = (zq (cS c) / zq n * sus)%Q) \/
     (g_weather g = true /\ exists wc, weather_at i w t = Ok (wc, w, t) /\ s = (zq (cS c) / zq n * sus * wc)%Q)).
Proof.
  intros H Hk Hp. apply suitability_at_spec in H as (-> & -> & c & hc0 & n & Ec & Eh & En & Hn & _ & Hs).
  split; [reflexivity|]. split; [reflexivity|].
  apply get_cell_at in Ec as (_ & _ & Ec).
  unfold host_cfg in Eh. apply lift_inv in Eh as (Eh & _). apply rget_Some in Eh. rewrite Hk in Eh. injection Eh as <-.
  exists c, n. split; [exact Ec|]. split; [exact En|]. split; [exact Hn|].
  unfold suit_value in Hs. rewrite Hp in Hs.
  destruct Hs as [(Gw & ->)|(Gw & wc & Ew & ->)]; rewrite Gw; [left|right]; split; try reflexivity.
  exists wc. split; [exact Ew|reflexivity].
Qed.

Corollary susceptibility_zero g k i w t s w' t' hc sus mrate lag :
  suitability_at g k i w t = Ok (s, w', t') ->
  nth_error (g_hosts g) k = Some hc -> h_pht hc = Some (sus, mrate, lag) -> (sus == 0)%Q -> (s == 0)%Q.
Proof.
  intros H Hk Hp Hz.
  destruct (susceptibility_scales _ _ _ _ _ _ _ _ _ _ _ _ H Hk Hp) as (_ & _ & c & n & _ & _ & _ & Hs).
  destruct Hs as [(_ & ->)|(_ & wc & _ & ->)]; rewrite Hz; ring.
Qed.

(* ---------- the hypotheses are satisfiable ---------- *)
Module Examples.
Definition hcA := mkhostcfg SI 0 true (1 # 1) true (1 # 1) None.
Definition cA := mkcell 5 [] 1 0 0 [0] 0 6.
Definition cB := mkcell 2 [] 2 0 0 [0] 0 4.
Definition gx := mkconfig 1 1 [hcA; hcA] false true (1 # 1) None false 0 false false 0 0 0 0.
Definition wx := mkworld [mkhp [cA] [(0, 0)]; mkhp [cB] [(0, 0)]] [0] [0] [] None None None None None 0.

(* two hosts, suitabilities 5/10 and 2/10; the second host is picked and the disperser establishes there *)
Example two_hosts_establish :
  multi_disperser_to gx 0 wx [EvPick 1; EvEstablish (1 # 10) (1 # 5) true] =
  Ok (1, with_hosts wx [mkhp [cA] [(0, 0)]; mkhp [mkcell 1 [] 3 0 0 [1] 0 4] [(0, 0)]], []).
Proof. vm_compute. reflexivity. Qed.

(* three pests leave: one from the first host, two from the second *)
Example two_hosts_pests_from :
  multi_pests_from 0 5 wx [EvDraw [0; 1; 1]] =
  Ok (3, with_hosts wx [mkhp [mkcell 6 [] 0 0 0 [0] 0 6] [(0, 0)]; mkhp [mkcell 4 [] 0 0 0 [0] 0 4] [(0, 0)]], []).
Proof. vm_compute. reflexivity. Qed.

(* suitabilities 5/6 and 2/3 add up to more than one *)
Example oversuitable :
  multi_disperser_to gx 0 (mkworld (w_hosts wx) [0] [0] [] None None (Some [6]) None None 0) [] = Err InvalidArgument.
Proof. vm_compute. reflexivity. Qed.
End Examples.

Print Assumptions multi_sums.
Print Assumptions multi_sums_total.
Print Assumptions multi_sums_ok.
Print Assumptions disperser_at_most_one_host.
Print Assumptions disperser_at_most_one_host_cells.
Print Assumptions pests_split_bounds.
Print Assumptions pests_to_split_bounds.
Print Assumptions pests_split_host.
Print Assumptions pests_to_split_host.
Print Assumptions oversuitable_rejected.
Print Assumptions zero_population_no_establishment.
Print Assumptions single_host_infect.
Print Assumptions single_host_land.
Print Assumptions single_host_zero.
Print Assumptions single_host_zero_det.
Print Assumptions competency_complete.
Print Assumptions competency_complete_err.
Print Assumptions competency_complete_out_of_range.
Print Assumptions competency_partial.
Print Assumptions competency_partial_ok.
Print Assumptions competency_partial_no_ub.
Print Assumptions competency_partial_widths.
Print Assumptions competency_partial_width_rejected.
Print Assumptions competency_partial_index_rejected.
Print Assumptions competency_partial_width_never_ok.
Print Assumptions susceptibility_scales.
Print Assumptions susceptibility_zero.
