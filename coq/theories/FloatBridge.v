(* FloatBridge: what binary64 rounding can and cannot change in the count
   arithmetic "count x real in [0,1], then lround / ceil / floor / cast".

   The Gallina model (Rounding.v, CellDefs.v) computes `zq n * ratio` exactly in Q.
   pops-core computes it in binary64.  Here binary64 is Flocq's FLT format
   (radix 2, precision 53, minimal exponent -1074) with round-to-nearest-even,
   overflow ignored (the products considered are bounded by the count n < 2^53).

   Integer-valued roundings used: Flocq's `Zfloor`, `Zceil`, `Ztrunc` (cast) and
   `lround := ZnearestA` (round half away from zero = std::lround).  They are tied
   to the project's `qfloor`, `qceil`, `qlround` by `Zfloor_Q2R`, `Zceil_Q2R`,
   `lround_Q2R` below, so the statements can be read with either family.

   Contents
   1. `fl`, representability of integers up to 2^53 and of dyadic numbers.
   2. Bounds that hold for ARBITRARY real ratios in [0,1] (no dyadic restriction).
   3. Integer consequences (floor / ceil / lround / cast of the rounded product).
   4. Tie Flocq's integer roundings <-> Rounding.v's functions on Q.
   5. Exactness for dyadic ratios: double and Q agree exactly.
   6. Refutations: for non-dyadic ratios the exact results may differ (7/100, 7/10).
*)
From Coq Require Import ZArith Reals Lia Lra QArith Qround Qreals.
From Flocq Require Import Core.
From Pops Require Import Err Rounding CellDefs.
Local Open Scope R_scope.

(* ------------------------------------------------------------------ *)
(* 1. binary64 rounding                                                *)
(* ------------------------------------------------------------------ *)

Definition fexp64 : Z -> Z := FLT_exp (-1074) 53.

Definition fl (x : R) : R := round radix2 (FLT_exp (-1074) 53) ZnearestE x.

Definition format64 (x : R) : Prop := generic_format radix2 (FLT_exp (-1074) 53) x.

Global Instance prec53_gt_0 : Prec_gt_0 53.
Proof. unfold Prec_gt_0. lia. Qed.

Lemma fl_le x y : x <= y -> fl x <= fl y.
Proof. intros H. unfold fl. apply round_le; auto with typeclass_instances. Qed.

Lemma fl_format x : format64 x -> fl x = x.
Proof. intros H. unfold fl. apply round_generic; auto with typeclass_instances. Qed.

Lemma format_fl x : format64 (fl x).
Proof. unfold format64, fl. apply generic_format_round; auto with typeclass_instances. Qed.

Lemma fl_idem x : fl (fl x) = fl x.
Proof. apply fl_format. apply format_fl. Qed.

Lemma fl_0 : fl 0 = 0.
Proof. unfold fl. apply round_0; auto with typeclass_instances. Qed.

Lemma fl_mult_comm a b : fl (a * b) = fl (b * a).
Proof. f_equal. ring. Qed.

(* m * 2^e with |m| < 2^53 and e >= -1074 is a binary64 number *)
Lemma format_dyadic m e : (Z.abs m < 2^53)%Z -> (-1074 <= e)%Z ->
  format64 (IZR m * bpow radix2 e).
Proof.
  intros Hm He. unfold format64. apply generic_format_FLT.
  apply (FLT_spec radix2 (-1074) 53 _ (Float radix2 m e)).
  - reflexivity.
  - exact Hm.
  - exact He.
Qed.

Lemma format_IZR n : (Z.abs n <= 2^53)%Z -> format64 (IZR n).
Proof.
  intros Hn. destruct (Z_lt_le_dec (Z.abs n) (2^53)) as [Hlt|Hge].
  - replace (IZR n) with (IZR n * bpow radix2 0) by (simpl; ring).
    apply format_dyadic; [exact Hlt | lia].
  - assert (E : n = (2^52 * 2)%Z \/ n = (- 2^52 * 2)%Z) by lia.
    assert (B : bpow radix2 1 = IZR 2) by reflexivity.
    destruct E as [E|E]; rewrite E, mult_IZR, <- B; apply format_dyadic; lia.
Qed.

Theorem fl_IZR n : (Z.abs n <= 2^53)%Z -> fl (IZR n) = IZR n.
Proof. intros Hn. apply fl_format. apply format_IZR. exact Hn. Qed.

Lemma fl_1 : fl 1 = 1.
Proof. apply (fl_IZR 1). lia. Qed.

(* ------------------------------------------------------------------ *)
(* 2. bounds for arbitrary real ratios                                 *)
(* ------------------------------------------------------------------ *)

(* a ratio stored in a double raster is still in [0,1] *)
Theorem fl_unit_bounds r : 0 <= r <= 1 -> 0 <= fl r <= 1.
Proof.
  intros [H0 H1]. split.
  - rewrite <- fl_0. apply fl_le. exact H0.
  - rewrite <- fl_1. apply fl_le. exact H1.
Qed.

Lemma fl_scale_bounds n x : (0 <= n < 2^53)%Z -> 0 <= x <= IZR n -> 0 <= fl x <= IZR n.
Proof.
  intros Hn [H0 H1]. split.
  - rewrite <- fl_0. apply fl_le. exact H0.
  - rewrite <- (fl_IZR n) by lia. apply fl_le. exact H1.
Qed.

Lemma scale_bounds_R n r : (0 <= n)%Z -> 0 <= r <= 1 -> 0 <= IZR n * r <= IZR n.
Proof.
  intros Hn [H0 H1]. assert (N : 0 <= IZR n) by (apply IZR_le; exact Hn).
  split.
  - apply Rmult_le_pos; assumption.
  - rewrite <- (Rmult_1_r (IZR n)) at 2. apply Rmult_le_compat_l; assumption.
Qed.

Theorem fl_count_ratio_bounds : forall (n : Z) (r : R),
  (0 <= n < 2^53)%Z -> 0 <= r <= 1 -> 0 <= fl (IZR n * r) <= IZR n.
Proof.
  intros n r Hn Hr. apply fl_scale_bounds; [exact Hn|].
  apply scale_bounds_R; [lia | exact Hr].
Qed.

Theorem fl_count_flratio_bounds : forall (n : Z) (r : R),
  (0 <= n < 2^53)%Z -> 0 <= r <= 1 -> 0 <= fl (IZR n * fl r) <= IZR n.
Proof.
  intros n r Hn Hr. apply fl_count_ratio_bounds; [exact Hn|].
  apply fl_unit_bounds. exact Hr.
Qed.

(* the rounded product is monotone in the ratio and in the count *)
Theorem fl_count_ratio_mono_ratio n r1 r2 : (0 <= n)%Z -> r1 <= r2 ->
  fl (IZR n * fl r1) <= fl (IZR n * fl r2).
Proof.
  intros Hn Hr. apply fl_le. apply Rmult_le_compat_l.
  - apply IZR_le. exact Hn.
  - apply fl_le. exact Hr.
Qed.

Theorem fl_count_ratio_mono_count n1 n2 r : (n1 <= n2)%Z -> 0 <= r ->
  fl (IZR n1 * fl r) <= fl (IZR n2 * fl r).
Proof.
  intros Hn Hr. apply fl_le. apply Rmult_le_compat_r.
  - rewrite <- fl_0. apply fl_le. exact Hr.
  - apply IZR_le. exact Hn.
Qed.

(* ------------------------------------------------------------------ *)
(* 3. integer consequences                                             *)
(* ------------------------------------------------------------------ *)

(* std::lround: nearest integer, halfway cases away from zero *)
Definition lround (x : R) : Z := ZnearestA x.

Lemma rnd_bounds (rnd : R -> Z) {V : Valid_rnd rnd} x n :
  0 <= x <= IZR n -> (0 <= rnd x <= n)%Z.
Proof.
  intros [H0 H1]. split.
  - rewrite <- (Zrnd_IZR rnd 0). apply Zrnd_le; assumption.
  - rewrite <- (Zrnd_IZR rnd n). apply Zrnd_le; assumption.
Qed.

Definition int_results_within (x : R) (n : Z) : Prop :=
  (0 <= Zfloor x <= n)%Z /\ (0 <= Zceil x <= n)%Z /\
  (0 <= lround x <= n)%Z /\ (0 <= Ztrunc x <= n)%Z.

Lemma int_results_bounds x n : 0 <= x <= IZR n -> int_results_within x n.
Proof.
  intros H. unfold int_results_within, lround.
  repeat split; apply (rnd_bounds _ x n H).
Qed.

(* hosts removed by a treatment (ceil), made resistant by a pesticide / killed
   by mortality (floor), kept by a survival rate (lround), any cast: computed in
   binary64 from a class of n hosts and ANY real ratio in [0,1] they are in [0,n] *)
Theorem fl_count_ratio_int_bounds : forall (n : Z) (r : R),
  (0 <= n < 2^53)%Z -> 0 <= r <= 1 -> int_results_within (fl (IZR n * r)) n.
Proof.
  intros n r Hn Hr. apply int_results_bounds. apply fl_count_ratio_bounds; assumption.
Qed.

Theorem fl_count_flratio_int_bounds : forall (n : Z) (r : R),
  (0 <= n < 2^53)%Z -> 0 <= r <= 1 -> int_results_within (fl (IZR n * fl r)) n.
Proof.
  intros n r Hn Hr. apply int_results_bounds. apply fl_count_flratio_bounds; assumption.
Qed.

(* mortality_loop multiplies in the other order (rate * count): same number *)
Theorem fl_flratio_count_int_bounds : forall (n : Z) (r : R),
  (0 <= n < 2^53)%Z -> 0 <= r <= 1 -> int_results_within (fl (fl r * IZR n)) n.
Proof.
  intros n r Hn Hr. rewrite fl_mult_comm. apply fl_count_flratio_int_bounds; assumption.
Qed.

(* ratio 0 removes nothing, ratio 1 removes everything, also in binary64 *)
Theorem fl_count_ratio_zero n : fl (IZR n * fl 0) = 0.
Proof. rewrite fl_0, Rmult_0_r. apply fl_0. Qed.

Theorem fl_count_ratio_one n : (Z.abs n <= 2^53)%Z -> fl (IZR n * fl 1) = IZR n.
Proof. intros Hn. rewrite fl_1, Rmult_1_r. apply fl_IZR. exact Hn. Qed.

(* the binary64 counterpart of RoundingProps.ratio_removed_bounds *)
Theorem fl_ratio_removed_bounds : forall (n : Z) (r : R),
  (0 <= n < 2^53)%Z -> 0 <= r <= 1 ->
  (0 <= n - lround (fl (IZR n * fl r)) <= n)%Z.
Proof.
  intros n r Hn Hr.
  destruct (fl_count_flratio_int_bounds n r Hn Hr) as (_ & _ & H & _). lia.
Qed.

(* ------------------------------------------------------------------ *)
(* 4. Flocq's integer roundings = Rounding.v's functions on Q          *)
(* ------------------------------------------------------------------ *)

Lemma Q2R_zq z : Q2R (zq z) = IZR z.
Proof. unfold zq, Q2R, inject_Z. simpl. field. Qed.

Lemma Q2R_zero : Q2R 0 = 0.
Proof. unfold Q2R. simpl. lra. Qed.

Lemma Q2R_qhalf : Q2R qhalf = /2.
Proof. unfold Q2R, qhalf. simpl. lra. Qed.

Theorem Zfloor_Q2R q : Zfloor (Q2R q) = qfloor q.
Proof.
  apply Zfloor_imp. unfold qfloor. split.
  - rewrite <- Q2R_zq. apply Qle_Rle. unfold zq. apply Qfloor_le.
  - rewrite <- Q2R_zq. apply Qlt_Rlt. unfold zq. apply Qlt_floor.
Qed.

Theorem Zceil_Q2R q : Zceil (Q2R q) = qceil q.
Proof.
  unfold Zceil, qceil, Qceiling. rewrite <- Q2R_opp.
  rewrite Zfloor_Q2R. reflexivity.
Qed.

Lemma Znearest_half_up choice x : 0 <= x ->
  (forall t, (0 <= t)%Z -> choice t = true) ->
  Znearest choice x = Zfloor (x + /2).
Proof.
  intros Hx Hc. unfold Znearest.
  pose proof (Zfloor_lb x) as Hl. pose proof (Zfloor_ub x) as Hu.
  assert (Hf : (0 <= Zfloor x)%Z).
  { rewrite <- (Zfloor_IZR 0). apply Zfloor_le. exact Hx. }
  destruct (Rcompare_spec (x - IZR (Zfloor x)) (/2)) as [H|H|H].
  - symmetry. apply Zfloor_imp. rewrite plus_IZR. lra.
  - rewrite (Hc _ Hf). rewrite Zceil_floor_neq by (intro E; lra).
    symmetry. apply Zfloor_imp. rewrite !plus_IZR. lra.
  - rewrite Zceil_floor_neq by (intro E; lra).
    symmetry. apply Zfloor_imp. rewrite !plus_IZR. lra.
Qed.

Lemma lround_nonneg_eq x : 0 <= x -> lround x = Zfloor (x + /2).
Proof.
  intros Hx. unfold lround. apply Znearest_half_up; [exact Hx|].
  intros t Ht. apply Z.leb_le. exact Ht.
Qed.

Lemma lround_neg_eq x : x < 0 -> lround x = (- Zfloor (- x + /2))%Z.
Proof.
  intros Hx. unfold lround. replace x with (- - x) at 1 by ring.
  rewrite Znearest_opp. f_equal. apply Znearest_half_up; [lra|].
  intros t Ht. apply Bool.negb_true_iff. apply Z.leb_gt. lia.
Qed.

Theorem lround_Q2R q : lround (Q2R q) = qlround q.
Proof.
  unfold qlround. destruct (Qle_bool 0 q) eqn:E.
  - apply Qle_bool_iff in E. apply Qle_Rle in E. rewrite Q2R_zero in E.
    rewrite lround_nonneg_eq by exact E.
    rewrite <- Q2R_qhalf, <- Q2R_plus. apply Zfloor_Q2R.
  - assert (L : (q < 0)%Q).
    { apply Qnot_le_lt. intro H. apply Qle_bool_iff in H. congruence. }
    apply Qlt_Rlt in L. rewrite Q2R_zero in L.
    rewrite lround_neg_eq by exact L.
    rewrite <- Q2R_qhalf, <- Q2R_opp, <- Q2R_plus. f_equal. apply Zfloor_Q2R.
Qed.

(* ------------------------------------------------------------------ *)
(* 5. exactness for dyadic ratios                                      *)
(* ------------------------------------------------------------------ *)

Theorem fl_dyadic_exact m e : (Z.abs m < 2^53)%Z -> (-1074 <= e)%Z ->
  fl (IZR m * bpow radix2 e) = IZR m * bpow radix2 e.
Proof. intros Hm He. apply fl_format. apply format_dyadic; assumption. Qed.

Lemma dyadic_as_bpow k e : (0 <= e)%Z -> IZR k / IZR (2^e) = IZR k * bpow radix2 (- e).
Proof.
  intros He. rewrite bpow_opp. rewrite <- (IZR_Zpower radix2 e) by exact He. reflexivity.
Qed.

(* a dyadic ratio k / 2^e is a double *)
Theorem fl_ratio_dyadic_exact k e : (0 <= e <= 1074)%Z -> (Z.abs k < 2^53)%Z ->
  fl (IZR k / IZR (2^e)) = IZR k / IZR (2^e).
Proof.
  intros He Hk. rewrite dyadic_as_bpow by lia. apply fl_dyadic_exact; lia.
Qed.

(* count x dyadic ratio is computed exactly when |n k| < 2^53 *)
Theorem fl_count_dyadic_exact n k e : (0 <= e <= 1074)%Z -> (Z.abs (n * k) < 2^53)%Z ->
  fl (IZR n * (IZR k / IZR (2^e))) = IZR n * (IZR k / IZR (2^e)).
Proof.
  intros He H. rewrite dyadic_as_bpow by lia.
  rewrite <- Rmult_assoc, <- mult_IZR. apply fl_dyadic_exact; lia.
Qed.

Theorem fl_count_flratio_dyadic_exact n k e :
  (0 <= e <= 1074)%Z -> (Z.abs (n * k) < 2^53)%Z ->
  fl (IZR n * fl (IZR k / IZR (2^e))) = IZR n * (IZR k / IZR (2^e)).
Proof.
  intros He H. destruct (Z.eq_dec n 0) as [N|N].
  - subst n. rewrite !Rmult_0_l. apply fl_0.
  - rewrite fl_ratio_dyadic_exact; [apply fl_count_dyadic_exact; assumption | exact He |].
    rewrite Z.abs_mul in H. nia.
Qed.

(* a convenient sufficient condition: count below 2^a, ratio k/2^e in [0,1], a + e <= 53 *)
Lemma dyadic_product_small n k a e : (0 <= a)%Z -> (0 <= e)%Z -> (a + e <= 53)%Z ->
  (0 <= n < 2^a)%Z -> (0 <= k <= 2^e)%Z -> (Z.abs (n * k) < 2^53)%Z.
Proof.
  intros Ha He Hae Hn Hk.
  assert (P : (2^a * 2^e <= 2^53)%Z).
  { rewrite <- Z.pow_add_r by assumption. apply Z.pow_le_mono_r; lia. }
  assert (E0 : (0 < 2^e)%Z) by (apply Z.pow_pos_nonneg; lia).
  rewrite Z.abs_eq by nia. nia.
Qed.

(* Q model and binary64 agree exactly on a ratio whose denominator is 2^e *)
Theorem double_agrees_with_Q_on_dyadic : forall (n : Z) (q : Q) (e : Z),
  (0 <= e <= 1074)%Z -> Z.pos (Qden q) = (2^e)%Z -> (Z.abs (n * Qnum q) < 2^53)%Z ->
  let x := fl (IZR n * fl (Q2R q)) in
  x = Q2R (zq n * q) /\
  Zceil x = qceil (zq n * q) /\
  Zfloor x = qfloor (zq n * q) /\
  lround x = qlround (zq n * q) /\
  (n - lround x)%Z = ratio_removed n q /\
  Zceil x = qceil (get_treated Ratio q n) /\
  Zfloor x = qfloor (get_treated Ratio q n).
Proof.
  intros n q e He Hd Hs x.
  assert (X : x = Q2R (zq n * q)).
  { unfold x. rewrite Q2R_mult, Q2R_zq. unfold Q2R. rewrite Hd.
    apply fl_count_flratio_dyadic_exact; assumption. }
  unfold ratio_removed, get_treated. rewrite X.
  rewrite Zceil_Q2R, Zfloor_Q2R, lround_Q2R. repeat split; reflexivity.
Qed.

(* the hypotheses are satisfiable: 1000 hosts, ratio 3/8 *)
Example agree_1000_x_3_8 :
  Zceil (fl (IZR 1000 * fl (Q2R (3 # 8)))) = 375%Z /\
  lround (fl (IZR 1001 * fl (Q2R (3 # 8)))) = 375%Z.
Proof.
  split.
  - destruct (double_agrees_with_Q_on_dyadic 1000 (3 # 8) 3) as (_ & H & _);
      [lia | reflexivity | simpl; lia |]. rewrite H. reflexivity.
  - destruct (double_agrees_with_Q_on_dyadic 1001 (3 # 8) 3) as (_ & _ & _ & H & _);
      [lia | reflexivity | simpl; lia |]. rewrite H. reflexivity.
Qed.

(* ------------------------------------------------------------------ *)
(* 6. non-dyadic ratios: exact agreement can fail (bounds still hold)  *)
(* ------------------------------------------------------------------ *)

(* rounding a real whose binade and nearest scaled integer are known *)
Lemma fl_compute x e m :
  bpow radix2 (e - 1) <= Rabs x < bpow radix2 e ->
  Rabs (x * bpow radix2 (- fexp64 e) - IZR m) < /2 ->
  fl x = IZR m * bpow radix2 (fexp64 e).
Proof.
  intros Hm Hn. unfold fl, round, scaled_mantissa, cexp.
  rewrite (mag_unique radix2 x e Hm). fold fexp64.
  rewrite (Znearest_imp _ _ m Hn). reflexivity.
Qed.

Ltac bpow_num :=
  repeat match goal with
  | |- context [bpow radix2 ?e] =>
    let e' := eval vm_compute in e in
    match e' with
    | Zneg ?p => let v := eval vm_compute in (Z.pow_pos 2 p) in
                 change (bpow radix2 e) with (/ IZR v)
    | Zpos ?p => let v := eval vm_compute in (Z.pow_pos 2 p) in
                 change (bpow radix2 e) with (IZR v)
    | Z0 => change (bpow radix2 e) with 1
    end
  end.

Ltac fl_by_compute e m :=
  match goal with
  | |- fl ?x = _ =>
    rewrite (fl_compute x e m);
    [ bpow_num; reflexivity
    | rewrite Rabs_pos_eq by lra; bpow_num; lra
    | bpow_num; apply Rabs_def1; lra ]
  end.

(* the double nearest to 7/100 and to 7/10 *)
Lemma fl_7_100 : fl (7/100) = 5044031582654956 / 72057594037927936.
Proof. fl_by_compute (-3)%Z 5044031582654956%Z. Qed.

Lemma fl_7_10 : fl (7/10) = 6305039478318694 / 9007199254740992.
Proof. fl_by_compute 0%Z 6305039478318694%Z. Qed.

(* 100 * 0.07 = 7.000000000000001 in binary64 *)
Lemma fl_100_x_7_100 : fl (100 * fl (7/100)) = 7881299347898369 / 1125899906842624.
Proof. rewrite fl_7_100. fl_by_compute 3%Z 7881299347898369%Z. Qed.

(* 45 * 0.7 = 31.499999999999996 in binary64 *)
Lemma fl_45_x_7_10 : fl (45 * fl (7/10)) = 8866461766385663 / 281474976710656.
Proof. rewrite fl_7_10. fl_by_compute 5%Z 8866461766385663%Z. Qed.

(* 90 * 0.7 = 62.99999999999999 in binary64 *)
Lemma fl_90_x_7_10 : fl (90 * fl (7/10)) = 8866461766385663 / 140737488355328.
Proof. rewrite fl_7_10. fl_by_compute 6%Z 8866461766385663%Z. Qed.

(* SimpleTreatment (ceil): 100 hosts, ratio 0.07: binary64 removes 8, exact 7 *)
Theorem ceil_differs_7_100 :
  Zceil (fl (100 * fl (7/100))) = 8%Z /\ Zceil (100 * (7/100)) = 7%Z.
Proof.
  split.
  - rewrite fl_100_x_7_100. apply Zceil_imp. change (8 - 1)%Z with 7%Z. lra.
  - replace (100 * (7/100)) with (IZR 7) by lra. apply Zceil_IZR.
Qed.

(* remove_infection_by_ratio (lround): 45 hosts, ratio 0.7: binary64 31, exact 32 *)
Theorem lround_differs_7_10 :
  lround (fl (45 * fl (7/10))) = 31%Z /\ lround (45 * (7/10)) = 32%Z.
Proof.
  split.
  - rewrite fl_45_x_7_10. rewrite lround_nonneg_eq by lra.
    apply Zfloor_imp. change (31 + 1)%Z with 32%Z. lra.
  - rewrite lround_nonneg_eq by lra.
    apply Zfloor_imp. change (32 + 1)%Z with 33%Z. lra.
Qed.

(* mortality / pesticide (floor): 90 hosts, rate 0.7: binary64 62, exact 63 *)
Theorem floor_differs_7_10 :
  Zfloor (fl (90 * fl (7/10))) = 62%Z /\ Zfloor (90 * (7/10)) = 63%Z.
Proof.
  split.
  - rewrite fl_90_x_7_10. apply Zfloor_imp. change (62 + 1)%Z with 63%Z. lra.
  - replace (90 * (7/10)) with (IZR 63) by lra. apply Zfloor_IZR.
Qed.

(* the same against the project's Q functions *)
Theorem double_differs_from_Q_refuted :
  (exists n q, (0 <= n < 2^53)%Z /\ (0 <= q <= 1)%Q /\
     Zceil (fl (IZR n * fl (Q2R q))) <> qceil (zq n * q)) /\
  (exists n q, (0 <= n < 2^53)%Z /\ (0 <= q <= 1)%Q /\
     lround (fl (IZR n * fl (Q2R q))) <> qlround (zq n * q)) /\
  (exists n q, (0 <= n < 2^53)%Z /\ (0 <= q <= 1)%Q /\
     Zfloor (fl (IZR n * fl (Q2R q))) <> qfloor (zq n * q)).
Proof.
  assert (A : Q2R (7 # 100) = 7/100) by (unfold Q2R; simpl; lra).
  assert (B : Q2R (7 # 10) = 7/10) by (unfold Q2R; simpl; lra).
  split; [|split].
  - exists 100%Z, (7 # 100)%Q. split; [lia|]. split; [split; discriminate|].
    rewrite A. rewrite (proj1 ceil_differs_7_100). vm_compute. discriminate.
  - exists 45%Z, (7 # 10)%Q. split; [lia|]. split; [split; discriminate|].
    rewrite B. rewrite (proj1 lround_differs_7_10). vm_compute. discriminate.
  - exists 90%Z, (7 # 10)%Q. split; [lia|]. split; [split; discriminate|].
    rewrite B. rewrite (proj1 floor_differs_7_10). vm_compute. discriminate.
Qed.

Print Assumptions fl_IZR.
Print Assumptions fl_unit_bounds.
Print Assumptions fl_count_ratio_bounds.
Print Assumptions fl_count_flratio_bounds.
Print Assumptions fl_count_ratio_int_bounds.
Print Assumptions fl_count_flratio_int_bounds.
Print Assumptions fl_flratio_count_int_bounds.
Print Assumptions fl_count_ratio_zero.
Print Assumptions fl_count_ratio_one.
Print Assumptions fl_ratio_removed_bounds.
Print Assumptions Zfloor_Q2R.
Print Assumptions Zceil_Q2R.
Print Assumptions lround_Q2R.
Print Assumptions fl_count_dyadic_exact.
Print Assumptions fl_count_flratio_dyadic_exact.
Print Assumptions double_agrees_with_Q_on_dyadic.
Print Assumptions ceil_differs_7_100.
Print Assumptions lround_differs_7_10.
Print Assumptions floor_differs_7_10.
Print Assumptions double_differs_from_Q_refuted.
