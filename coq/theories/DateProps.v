(* Proofs about the calendar model (DateDefs.v): every successor function is
   characterised through the linear day number dn, for every year in Z. *)
From Coq Require Import ZArith List Bool Lia ZifyBool.
From Pops Require Import DateDefs.
Import ListNotations.
Local Open Scope Z_scope.
Ltac Zify.zify_post_hook ::= Z.div_mod_to_equations.

Lemma dby_succ y : dby (y + 1) - dby y = year_len y.
Proof.
  unfold dby, year_len, is_leap. replace (y + 1 - 1) with y by lia.
  destruct (y mod 4 =? 0) eqn:E4; destruct (y mod 100 =? 0) eqn:E100;
    destruct (y mod 400 =? 0) eqn:E400; cbn [andb orb negb]; lia.
Qed.

Lemma year_len_pos y : 365 <= year_len y <= 366.
Proof. unfold year_len; destruct (is_leap y); lia. Qed.

Lemma dby_mono y1 y2 : y1 < y2 -> dby (y1 + 1) <= dby y2.
Proof. unfold dby. intros H. replace (y1 + 1 - 1) with y1 by lia. lia. Qed.

Lemma month_cases m : 1 <= m <= 12 ->
  m=1\/m=2\/m=3\/m=4\/m=5\/m=6\/m=7\/m=8\/m=9\/m=10\/m=11\/m=12.
Proof. lia. Qed.

Ltac months Hm :=
  destruct (month_cases _ Hm) as [->|[->|[->|[->|[->|[->|[->|[->|[->|[->|[->| ->]]]]]]]]]]].

Lemma cum_dim l m : 1 <= m <= 11 -> cum l (m + 1) = cum l m + dim l m.
Proof. intros Hm. assert (H : 1 <= m <= 12) by lia. months H; destruct l; cbn; lia. Qed.

Lemma cum_12 l : cum l 12 + dim l 12 = if l then 366 else 365.
Proof. destruct l; reflexivity. Qed.

Lemma cum_bounds l m : 1 <= m <= 12 -> 0 <= cum l m /\ cum l m + dim l m <= (if l then 366 else 365).
Proof. intros Hm. months Hm; destruct l; cbn; lia. Qed.

Lemma dim_bounds l m : 1 <= m <= 12 -> 28 <= dim l m <= 31.
Proof. intros Hm. months Hm; destruct l; cbn; lia. Qed.

(* a valid date lies inside its year *)
Lemma dn_in_year d : valid d -> dby (yr d) < dn d <= dby (yr d + 1).
Proof.
  destruct d as [y m dd]; unfold valid, dn; cbn [yr mo dy]; intros [Hm Hd].
  pose proof (dby_succ y) as Hy. unfold year_len in Hy.
  pose proof (cum_bounds (is_leap y) m Hm). destruct (is_leap y); lia.
Qed.

Lemma validb_iff d : validb d = true <-> valid d.
Proof. unfold validb, valid. lia. Qed.

(* day-number order is the lexicographic order the C++ operators implement *)
Lemma dn_lt_same_year a b : valid a -> valid b -> yr a = yr b ->
  (dn a < dn b <-> (mo a < mo b \/ (mo a = mo b /\ dy a < dy b))).
Proof.
  destruct a as [y m d], b as [y' m' d']; unfold valid, dn; cbn [yr mo dy].
  intros [Hm Hd] [Hm' Hd'] <-.
  months Hm; months Hm'; destruct (is_leap y); cbn [dim cum] in *; lia.
Qed.

Lemma dn_lt_years a b : valid a -> valid b -> yr a < yr b -> dn a < dn b.
Proof.
  intros Ha Hb Hy. pose proof (dn_in_year a Ha). pose proof (dn_in_year b Hb).
  pose proof (dby_mono (yr a) (yr b) Hy). lia.
Qed.

Lemma dlt_spec a b : valid a -> valid b -> (dlt a b = true <-> dn a < dn b).
Proof.
  intros Ha Hb. unfold dlt.
  destruct (Z.lt_trichotomy (yr a) (yr b)) as [H|[H|H]].
  - pose proof (dn_lt_years a b Ha Hb H). destruct (yr a >? yr b) eqn:E1; [lia|].
    destruct (yr a <? yr b) eqn:E2; [tauto|lia].
  - pose proof (dn_lt_same_year a b Ha Hb H).
    destruct (yr a >? yr b) eqn:E1; [lia|]. destruct (yr a <? yr b) eqn:E2; [lia|].
    destruct (mo a >? mo b) eqn:E3; [split; [discriminate|lia]|].
    destruct (mo a <? mo b) eqn:E4; [split; [lia|reflexivity]|].
    destruct (dy a >=? dy b) eqn:E5; cbn [negb]; split; try discriminate; try lia; reflexivity.
  - pose proof (dn_lt_years b a Hb Ha H). destruct (yr a >? yr b) eqn:E1; [split; [discriminate|lia]|lia].
Qed.

Lemma dgt_spec a b : valid a -> valid b -> (dgt a b = true <-> dn a > dn b).
Proof.
  intros Ha Hb. unfold dgt.
  destruct (Z.lt_trichotomy (yr a) (yr b)) as [H|[H|H]].
  - pose proof (dn_lt_years a b Ha Hb H). destruct (yr a <? yr b) eqn:E1; [split; [discriminate|lia]|lia].
  - pose proof (dn_lt_same_year b a Hb Ha (eq_sym H)).
    destruct (yr a <? yr b) eqn:E1; [lia|]. destruct (yr a >? yr b) eqn:E2; [lia|].
    destruct (mo a <? mo b) eqn:E3; [split; [discriminate|lia]|].
    destruct (mo a >? mo b) eqn:E4; [split; [lia|reflexivity]|].
    destruct (dy a <=? dy b) eqn:E5; cbn [negb]; split; try discriminate; try lia; reflexivity.
  - pose proof (dn_lt_years b a Hb Ha H). destruct (yr a <? yr b) eqn:E1; [lia|].
    destruct (yr a >? yr b) eqn:E2; [split; [lia|reflexivity]|lia].
Qed.

Lemma dle_spec a b : valid a -> valid b -> (dle a b = true <-> dn a <= dn b).
Proof.
  intros Ha Hb. unfold dle. pose proof (dgt_spec a b Ha Hb) as [H1 H2].
  destruct (dgt a b); cbn [negb]; split; intros H; try discriminate; try reflexivity.
  - specialize (H1 eq_refl). lia.
  - destruct (Z_le_gt_dec (dn a) (dn b)); [assumption|]. specialize (H2 g). discriminate.
Qed.

Lemma dge_spec a b : valid a -> valid b -> (dge a b = true <-> dn a >= dn b).
Proof.
  intros Ha Hb. unfold dge. pose proof (dlt_spec a b Ha Hb) as [H1 H2].
  destruct (dlt a b); cbn [negb]; split; intros H; try discriminate; try reflexivity.
  - specialize (H1 eq_refl). lia.
  - destruct (Z_lt_ge_dec (dn a) (dn b)); [|assumption]. specialize (H2 l). discriminate.
Qed.

Lemma dn_inj a b : valid a -> valid b -> dn a = dn b -> a = b.
Proof.
  intros Ha Hb H.
  destruct (Z.lt_trichotomy (yr a) (yr b)) as [Hy|[Hy|Hy]].
  - pose proof (dn_lt_years a b Ha Hb Hy); lia.
  - pose proof (dn_lt_same_year a b Ha Hb Hy). pose proof (dn_lt_same_year b a Hb Ha (eq_sym Hy)).
    destruct a as [y m d], b as [y2 m2 d2]; cbn [yr mo dy] in *. f_equal; lia.
  - pose proof (dn_lt_years b a Hb Ha Hy); lia.
Qed.

Lemma deq_spec a b : deq a b = true <-> a = b.
Proof. unfold deq. destruct a as [y m d], b as [y2 m2 d2]; cbn [yr mo dy]. split; [intros H; f_equal; lia | intros [= -> -> ->]; lia]. Qed.

Lemma add_day_spec d : valid d -> valid (add_day d) /\ dn (add_day d) = dn d + 1.
Proof.
  destruct d as [y m dd]. unfold valid, add_day, dn; cbn [yr mo dy]. intros [Hm Hd].
  pose proof (dby_succ y) as Hy. unfold year_len in Hy.
  months Hm; destruct (is_leap y) eqn:L; cbn [dim cum] in *;
  match goal with |- context [ ?a >? ?b ] => destruct (Z.gtb_spec a b) end;
  cbn [yr mo dy dim cum Z.gtb Z.add Z.compare Pos.compare Pos.compare_cont Pos.add Pos.succ];
  try (rewrite L); cbn [dim cum]; try lia.
  all: destruct (is_leap (y+1)); cbn [dim cum]; lia.
Qed.

Lemma subtract_day_spec d : valid d -> valid (subtract_day d) /\ dn (subtract_day d) = dn d - 1.
Proof.
  destruct d as [y m dd]. unfold valid, subtract_day, dn; cbn [yr mo dy]. intros [Hm Hd].
  pose proof (dby_succ (y - 1)) as Hy. unfold year_len in Hy. replace (y - 1 + 1) with y in Hy by lia.
  destruct (Z.eqb_spec (dd - 1) 0) as [E|E].
  - months Hm; cbn [Z.sub Z.eqb Z.add Z.opp Pos.pred_double Z.pos_sub Z.pred_double Z.succ_double Z.double]; cbn [yr mo dy];
    destruct (is_leap y) eqn:L; cbn [dim cum] in *; try lia.
    all: destruct (is_leap (y - 1)) eqn:L1; cbn [dim cum] in *; lia.
  - cbn [yr mo dy]. lia.
Qed.

(* ---- the day / week successor with its year-end merge ---- *)

(* Documented successor: [n] days later, unless that day would fall into the
   last [n] days of the year ([n]+1 in leap years) or beyond it, in which case
   the next start is 1 January of the following year. *)
Definition merged_next (n : Z) (d r : date) : Prop :=
  let y := yr d in
  let tail := n + (if is_leap y then 1 else 0) in
  valid r /\
  ((dn d + n <= dby (y + 1) - tail /\ dn r = dn d + n /\ yr r = y)
   \/ (dn d + n > dby (y + 1) - tail /\ yr r = y + 1 /\ mo r = 1 /\ dy r = 1)).

Ltac split_gtb :=
  repeat match goal with
         | |- context [ ?a >? ?b ] => destruct (Z.gtb_spec a b)
         end.

Lemma inc_days_spec n d : valid d -> 1 <= n <= 28 -> merged_next n d (inc_days n d).
Proof.
  destruct d as [y m dd]. unfold merged_next, valid, inc_days, inc_with_merge, dn; cbn [yr mo dy].
  intros [Hm Hd] Hn.
  pose proof (dby_succ y) as Hy. unfold year_len in Hy.
  months Hm; destruct (is_leap y) eqn:L; cbn [dim cum] in *;
    cbn [Z.eqb Pos.eqb andb Z.add Pos.add Pos.succ Z.gtb Z.compare Pos.compare Pos.compare_cont];
    split_gtb; cbn [yr mo dy andb Z.eqb Pos.eqb Z.add Pos.add Pos.succ dim cum] in *;
    try rewrite L; cbn [dim cum] in *; try lia.
Qed.

Lemma inc_week_spec d : valid d -> merged_next 7 d (inc_week d).
Proof.
  destruct d as [y m dd]. unfold merged_next, valid, inc_week, inc_with_merge, dn; cbn [yr mo dy].
  intros [Hm Hd].
  pose proof (dby_succ y) as Hy. unfold year_len in Hy.
  months Hm; destruct (is_leap y) eqn:L; cbn [dim cum] in *;
    cbn [Z.eqb Pos.eqb andb Z.add Pos.add Pos.succ Z.gtb Z.compare Pos.compare Pos.compare_cont];
    split_gtb; cbn [yr mo dy andb Z.eqb Pos.eqb Z.add Pos.add Pos.succ dim cum] in *;
    try rewrite L; cbn [dim cum] in *; try lia.
Qed.

(* ---- month successor: from a first of a month to the first of the next ---- *)
Lemma inc_month_spec d : valid d -> dy d = 1 ->
  let r := inc_month d in
  valid r /\ dy r = 1 /\ dn r = dn d + dim (is_leap (yr d)) (mo d) /\
  (mo d < 12 -> yr r = yr d /\ mo r = mo d + 1) /\
  (mo d = 12 -> yr r = yr d + 1 /\ mo r = 1).
Proof.
  destruct d as [y m dd]. unfold valid, inc_month, dn; cbn [yr mo dy]. intros [Hm Hd] ->.
  pose proof (dby_succ y) as Hy. unfold year_len in Hy.
  months Hm; cbn [Z.add Pos.add Pos.succ Z.gtb Z.compare Pos.compare Pos.compare_cont];
    cbn [yr mo dy]; destruct (is_leap y) eqn:L; cbn [dim cum] in *;
    cbn [yr mo dy dim cum]; try rewrite L; cbn [dim cum Z.gtb Z.compare Pos.compare Pos.compare_cont]; try lia.
  all: destruct (is_leap (y + 1)); cbn [dim cum Z.gtb Z.compare Pos.compare Pos.compare_cont yr mo dy]; lia.
Qed.

(* general day: stays valid and strictly later (used for the constructor's
   first test only; month schedules start on the first) *)
Lemma inc_month_valid d : valid d -> valid (inc_month d) /\ dn d < dn (inc_month d).
Proof.
  destruct d as [y m dd]. unfold valid, inc_month, dn; cbn [yr mo dy]. intros [Hm Hd].
  pose proof (dby_succ y) as Hy. unfold year_len in Hy.
  months Hm; cbn [Z.add Pos.add Pos.succ Z.gtb Z.compare Pos.compare Pos.compare_cont];
    cbn [yr mo dy]; destruct (is_leap y) eqn:L; cbn [dim cum] in *;
    split_gtb; cbn [yr mo dy dim cum] in *; try rewrite L; cbn [dim cum] in *; try lia.
  all: destruct (is_leap (y + 1)); cbn [dim cum Z.gtb Z.compare yr mo dy] in *; lia.
Qed.
