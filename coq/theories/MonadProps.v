(* Hoare-style reasoning for the state-and-tape monad of LandDefs.v.
   A triple speaks about every tape: whatever the random source returns,
   a successful run establishes the postcondition. *)
From Coq Require Import ZArith QArith List Bool Lia.
From Pops Require Import Err Rounding CellDefs LandDefs.
Import ListNotations.
Local Open Scope Z_scope.

Section Hoare.
Context {S : Type}.

Definition hoare {A} (Pre : S -> Prop) (m : M S A) (Post : A -> S -> Prop) : Prop :=
  forall s t a s' t', Pre s -> m s t = Ok (a, s', t') -> Post a s'.

Lemma hoare_ret {A} (a : A) (P : S -> Prop) : hoare P (ret a) (fun x s => x = a /\ P s).
Proof. intros s t x s' t' H [= <- <- <-]. auto. Qed.

Lemma hoare_bind {A B} (m : M S A) (f : A -> M S B) P Q R :
  hoare P m Q -> (forall a, hoare (Q a) (f a) R) -> hoare P (mbind m f) R.
Proof.
  intros Hm Hf s t b s' t' HP E. unfold mbind in E.
  destruct (m s t) as [[[a s1] t1]|e] eqn:Em; [|discriminate].
  eapply Hf; [eapply Hm; eauto|eauto].
Qed.

Lemma hoare_conseq {A} (m : M S A) (P P' : S -> Prop) (Q Q' : A -> S -> Prop) :
  hoare P' m Q' -> (forall s, P s -> P' s) -> (forall a s, Q' a s -> Q a s) -> hoare P m Q.
Proof. intros H HP HQ s t a s' t' Hs E. apply HQ. eapply H; eauto. Qed.

Lemma hoare_fail {A} (e : err) P (Q : A -> S -> Prop) : hoare P (fail e) Q.
Proof. intros s t a s' t' _ E. discriminate. Qed.

Lemma hoare_lift {A} (r : result A) (P : S -> Prop) :
  hoare P (lift r) (fun a s => r = Ok a /\ P s).
Proof. intros s t a s' t' H E. unfold lift in E. destruct r; [|discriminate]. injection E as <- <- <-. auto. Qed.

Lemma hoare_get (P : S -> Prop) : hoare P get (fun a s => a = s /\ P s).
Proof. intros s t a s' t' H [= <- <- <-]. auto. Qed.

Lemma hoare_put (s0 : S) (P : S -> Prop) : hoare P (put s0) (fun _ s => s = s0).
Proof. intros s t a s' t' H E. unfold put in E. injection E as _ E2 _. symmetry. exact E2. Qed.

Lemma hoare_pop (P : S -> Prop) : hoare P pop (fun _ s => P s).
Proof. intros s t a s' t' H E. unfold pop in E. destruct t; [discriminate|]. injection E as <- <- <-. auto. Qed.

(* a loop over a list preserves an invariant each iteration preserves *)
Lemma hoare_mfold {A} (f : A -> M S unit) (I : S -> Prop) (l : list A) :
  (forall a, In a l -> hoare I (f a) (fun _ s => I s)) -> hoare I (mfold f l) (fun _ s => I s).
Proof.
  induction l as [|a r IH]; intros Hf; cbn [mfold].
  - intros s t x s' t' H [= <- <- <-]. assumption.
  - eapply hoare_bind; [apply Hf; left; reflexivity|]. intros u. apply IH. intros b Hb. apply Hf. right; assumption.
Qed.

Lemma hoare_mrepeat (m : M S unit) (I : S -> Prop) (n : nat) :
  hoare I m (fun _ s => I s) -> hoare I (mrepeat n m) (fun _ s => I s).
Proof.
  intros Hm. induction n as [|n IH]; cbn [mrepeat].
  - intros s t x s' t' H [= <- <- <-]. assumption.
  - eapply hoare_bind; [exact Hm|]. intros u. exact IH.
Qed.

(* case analysis helpers *)
Lemma hoare_if {A} (b : bool) (m1 m2 : M S A) P Q :
  (b = true -> hoare P m1 Q) -> (b = false -> hoare P m2 Q) -> hoare P (if b then m1 else m2) Q.
Proof. destruct b; auto. Qed.

Lemma hoare_pre_false {A} (m : M S A) (Q : A -> S -> Prop) : hoare (fun _ => False) m Q.
Proof. intros s t a s' t' []. Qed.

(* an assertion that does not depend on the state can be moved out *)
Lemma hoare_pure {A} (m : M S A) (phi : Prop) (P : S -> Prop) Q :
  (phi -> hoare P m Q) -> hoare (fun s => phi /\ P s) m Q.
Proof. intros H s t a s' t' [Hphi HP] E. eapply H; eauto. Qed.

End Hoare.

(* [for_hosts] with an invariant *)
Lemma hoare_for_hosts (f : nat -> W unit) (I : world -> Prop) (n k : nat) :
  (forall j, hoare I (f j) (fun _ s => I s)) -> hoare I (for_hosts k n f) (fun _ s => I s).
Proof.
  intros Hf. revert k. induction n as [|n IH]; intros k; cbn [for_hosts].
  - intros s t x s' t' H [= <- <- <-]. assumption.
  - eapply hoare_bind; [apply Hf|]. intros u. apply IH.
Qed.
