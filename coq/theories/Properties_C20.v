(* C20  No undefined behaviour inside the documented domain; documented errors throw.
   Statements only (copied from the lemmas they restate by tools/mkprops.py).
   PARTIAL by nature (DESIGN.md C20): what a theorem can carry is (1) the model never
   reaches its UB_OutOfBounds error - returned exactly where the C++ would index outside a
   buffer, take back() of an empty vector or divide by a zero count - for inputs in the
   documented domain (SafetyProps.v), (2) every count is bounded by the initial host total,
   so int arithmetic on counts cannot overflow below 2^31 hosts, (3) each documented invalid
   input gives exactly the documented error kind.  Object lifetimes, aliasing, uninitialised
   reads and everything else of the C++ abstract machine that the Gallina model does not
   represent are covered by sanitizer runs only (bin/check C20: every harness built with
   ASan+UBSan on in-domain inputs, every documented invalid input injected one at a time). *)
From Coq Require Import ZArith QArith List String.
From Pops Require Import Err Rounding CellDefs CellProps DateDefs SchedDefs SchedProps LandDefs MonadProps LandProps LandProps2 ShapeProps EnvDefs ActionProps ModelDefs ModelProps RunProps MultiHostProps RngDefs RngProps SafetyDefs SafetyNames SafetyProps.
Local Open Scope string_scope.
Import ListNotations.
Local Open Scope Z_scope.

(* (1) inside the documented domain a model step never indexes outside a buffer: not for non-square or single-cell rasters, an empty exposed-cohort list in SI, dispersers thrown far outside, cells without hosts, zero dispersers, or any set of features switched off - for every tape of random outcomes; well-formedness is preserved, also for every snapshot after an individual action *)
Theorem C20_no_ub_in_a_step : forall m inp step ne nm w t,
  WF (m_g m) ne nm w -> winv (cinv Basic) w -> inputs_wf (m_g m) inp -> sched_wf m step inp ->
  cfg_ok (m_g m) -> inputs_ok inp ->
  no_ub (fst (run_step m inp step w t)) /\
  (forall tr w' t', fst (run_step m inp step w t) = Ok (tr, w', t') ->
     WF (m_g m) ne nm w' /\ winv (cinv Basic) w') /\
  Forall (fun x => WF (m_g m) ne nm (snd x) /\ winv (cinv Basic) (snd x))
         (snd (run_step m inp step w t)).
Proof. exact run_step_safe. Qed.
Print Assumptions C20_no_ub_in_a_step.

(* ... over runs of any length *)
Theorem C20_no_ub_in_a_run : forall m inp weather ne nm tapes step w,
  WF (m_g m) ne nm w -> winv (cinv Basic) w ->
  cfg_ok (m_g m) -> (forall s, inputs_ok (inp s)) -> (forall s, inputs_wf (m_g m) (inp s)) ->
  (forall s, opt_len (weather s) (ncells (m_g m))) ->
  (forall s, step <= s < step + Z.of_nat (List.length tapes) -> sched_wf m s (inp s)) ->
  no_ub (run_many m inp weather tapes step w) /\
  (forall w', run_many m inp weather tapes step w = Ok w' ->
     WF (m_g m) ne nm w' /\ winv (cinv Basic) w').
Proof. exact run_many_safe. Qed.
Print Assumptions C20_no_ub_in_a_run.

(* building the step's plan (schedule look-ups, input indices) never reads outside a schedule inside the domain *)
Theorem C20_plan_no_ub : forall m hs step inp,
  sched_wf m step inp -> no_ub (plan m hs step).
Proof. exact plan_no_ub. Qed.
Print Assumptions C20_plan_no_ub.

(* (2) every count of every cell stays between 0 and the initial total: no signed overflow on counts below 2^31 hosts *)
Theorem C20_counts_bounded : forall lv q ne nm w k i c,
  J lv q ne nm w -> cell_at w k i = Some c ->
  0 <= cS c <= q /\ Forall (fun x => 0 <= x <= q) (cE c) /\ 0 <= cI c <= q /\ 0 <= cR c <= q /\
  Forall (fun x => 0 <= x) (cM c) /\ (lv <> Basic -> Forall (fun x => x <= q) (cM c)) /\
  0 <= cD c <= q /\ 0 <= cTH c <= q /\ 0 <= cTE c <= q.
Proof. exact counts_bounded. Qed.
Print Assumptions C20_counts_bounded.

(* (3) documented errors.  Unknown model-type names *)
Theorem C20_model_type_names : forall s,
  (In s ["SI"; "SusceptibleInfected"; "susceptible-infected"; "susceptible_infected"] -> model_type_from_string s = Ok SI) /\
  (In s ["SEI"; "SusceptibleExposedInfected"; "susceptible-exposed-infected"; "susceptible_exposed_infected"] ->
     model_type_from_string s = Ok SEI) /\
  (~ In s ["SI"; "SusceptibleInfected"; "susceptible-infected"; "susceptible_infected";
           "SEI"; "SusceptibleExposedInfected"; "susceptible-exposed-infected"; "susceptible_exposed_infected"] ->
     model_type_from_string s = Err InvalidArgument).
Proof. exact model_type_names. Qed.
Print Assumptions C20_model_type_names.

(* unknown weather-type names *)
Theorem C20_weather_type_unknown_rejected : forall s,
  ~ In s ["deterministic"; "Deterministic"; "probabilistic"; "Probabilistic"; ""; "none"; "None"; "NONE"] ->
  weather_type_from_string s = Err InvalidArgument.
Proof. exact weather_type_unknown_rejected. Qed.
Print Assumptions C20_weather_type_unknown_rejected.

(* unknown treatment application names *)
Theorem C20_treatment_app_unknown_rejected : forall s,
  ~ In s ["ratio_to_all"; "ratio"; "all_infected_in_cell"; "all infected"] ->
  treatment_app_from_string s = Err InvalidArgument.
Proof. exact treatment_app_unknown_rejected. Qed.
Print Assumptions C20_treatment_app_unknown_rejected.

(* unknown arrival behaviour *)
Theorem C20_arrival_behavior_unknown_rejected : forall s,
  s <> "infect" -> s <> "land" ->
  set_arrival_behavior s = Err InvalidArgument.
Proof. exact arrival_behavior_unknown_rejected. Qed.
Print Assumptions C20_arrival_behavior_unknown_rejected.

(* unknown quarantine directions *)
Theorem C20_quarantine_direction_unknown_rejected : forall l,
  (exists s, In s l /\ ~ In s ["N"; "S"; "E"; "W"]) ->
  directions_from_list l = Err InvalidArgument.
Proof. exact quarantine_direction_unknown_rejected. Qed.
Print Assumptions C20_quarantine_direction_unknown_rejected.

(* unknown frequency names (kernel and direction names: C13_kernel_names_unknown_rejected, C13_direction_names_unknown_rejected) *)
Theorem C20_frequency_unknown_rejected : forall sc f n,
  ~ In f known_frequencies ->
  schedule_from_string sc f n = Err InvalidArgument.
Proof. exact from_string_unknown. Qed.
Print Assumptions C20_frequency_unknown_rejected.

(* dates outside the schedule *)
Theorem C20_date_outside_schedule_rejected : forall start u n l d,
  tiles_from (dn start) l -> valid d ->
  let sc := mksched u n l in
  (dn start <= dn d < after (dn start) l ->
     exists k st, schedule_action_date sc d = Ok (Z.of_nat k) /\ nth_error l k = Some st /\ owns d st /\
       forall k' st', nth_error l k' = Some st' -> owns d st' -> k' = k) /\
  (dn d < dn start \/ after (dn start) l <= dn d ->
     schedule_action_date sc d = Err InvalidArgument /\ forall st, In st l -> ~ owns d st).
Proof. exact lookup_spec. Qed.
Print Assumptions C20_date_outside_schedule_rejected.

(* invalid calendars *)
Theorem C20_scheduler_rejections : forall start end_ u nz,
  valid start -> valid end_ -> (u = Day -> nz <= 28) ->
  (rejected start end_ u nz /\ mk_scheduler start end_ u nz = Err InvalidArgument)
  \/
  (~ rejected start end_ u nz /\
   exists n l, nz = Zpos n /\ mk_scheduler start end_ u nz = Ok (mksched u n l) /\
     tiles_from (dn start) l /\
     Forall (fun st => dn (s_start st) <= dn end_ /\ step_rule u n st) l /\
     after (dn start) l > dn end_ /\ l <> [] /\
     (forall st, hd_error l = Some st -> s_start st = start)).
Proof. exact mk_scheduler_spec. Qed.
Print Assumptions C20_scheduler_rejections.

(* empty weather series *)
Theorem C20_weather_size_rejected : forall sc size,
  size <= 0 -> schedule_weather sc size = Err InvalidArgument.
Proof. exact weather_size_rejected. Qed.
Print Assumptions C20_weather_size_rejected.

(* cohort lists of the wrong length *)
Theorem C20_exposed_list_wrong_length_rejected : forall c s e i m,
  List.length e <> List.length (cE c) ->
  completely_remove c s e i m = Err InvalidArgument.
Proof. exact completely_remove_err_exposed. Qed.
Print Assumptions C20_exposed_list_wrong_length_rejected.

Theorem C20_too_many_resistant_rejected : forall c s e i m,
  cS c < s ->
  make_resistant c s e i m = Err InvalidArgument.
Proof. exact make_resistant_err_susceptible. Qed.
Print Assumptions C20_too_many_resistant_rejected.

(* missing weather or temperature data *)
Theorem C20_weather_missing : forall i w t,
  w_weather w = None -> weather_at i w t = Err LogicError.
Proof. exact weather_missing_is_logic_error. Qed.
Print Assumptions C20_weather_missing.

Theorem C20_temperature_missing : forall i w t,
  w_temp w = None -> temperature_at i w t = Err LogicError.
Proof. exact temperature_missing_is_logic_error. Qed.
Print Assumptions C20_temperature_missing.

(* probabilities or suitabilities outside [0,1] *)
Theorem C20_weather_mean_out_of_range_rejected : forall pre m post draws,
  Forall (fun x => (0 <= x <= 1)%Q) pre -> (List.length pre <= List.length draws)%nat ->
  (m < 0 \/ 1 < m)%Q -> weather_cells (pre ++ m :: post) draws = Err InvalidArgument.
Proof. exact weather_mean_out_of_range_rejected. Qed.
Print Assumptions C20_weather_mean_out_of_range_rejected.

Theorem C20_suitability_out_of_range_rejected : forall g k i w t c hc n,
  get_cell k i w t = Ok (c, w, t) -> host_cfg g k w t = Ok (hc, w, t) ->
  total_population_at i w t = Ok (n, w, t) -> n <> 0 -> g_weather g = false -> h_pht hc = None ->
  (zq (cS c) / zq n < 0 \/ 1 < zq (cS c) / zq n)%Q ->
  suitability_at g k i w t = Err InvalidArgument.
Proof. exact suitability_out_of_range_rejected. Qed.
Print Assumptions C20_suitability_out_of_range_rejected.

Theorem C20_total_suitability_rejected : forall g i w t ws,
  suits g i w t 0 (List.length (w_hosts w)) ws -> (1 < qsum ws)%Q ->
  multi_disperser_to g i w t = Err InvalidArgument.
Proof. exact oversuitable_rejected. Qed.
Print Assumptions C20_total_suitability_rejected.

(* a competency table whose width is not the number of hosts (fixed defect 246adb4: was read out of bounds) *)
Theorem C20_competency_width_rejected : forall req comp post pres k best,
  List.length req <> List.length pres ->
  find_competency ((req, comp) :: post) pres k best = Err InvalidArgument.
Proof. exact competency_partial_first_width_rejected. Qed.
Print Assumptions C20_competency_width_rejected.

(* missing named seeds *)
Theorem C20_missing_seed_rejected : forall seeds key,
  In key documented_streams -> ~ In key (map fst seeds) -> seed_named seeds = Err InvalidArgument.
Proof. exact missing_seed_rejected. Qed.
Print Assumptions C20_missing_seed_rejected.

Theorem C20_single_use_rejected : forall seeds,
  use_as_generator (Multi seeds) = Err RuntimeError /\
  discard_on (Multi seeds) = Err RuntimeError /\
  forall s, use_as_generator (Single s) = Ok tt.
Proof. exact single_use_rejected. Qed.
Print Assumptions C20_single_use_rejected.

Example C20_nonvacuous : model_type_from_string "SIR" = Err InvalidArgument /\ weather_type_from_string "none" = Ok WNone.
Proof. vm_compute. split; reflexivity. Qed.
Print Assumptions C20_nonvacuous.
(* the domain of C20_no_ub_in_a_step is inhabited by a 1x2 world with one SI host and an EMPTY exposed-cohort list *)
Example C20_domain_inhabited : WF si_cfg 0 2 si_world.
Proof. exact si_world_WF. Qed.
Print Assumptions C20_domain_inhabited.
Example C20_si_step_never_ub : forall t, no_ub (fst (run_step si_model si_inputs 0 si_world t)).
Proof. exact si_step_never_ub. Qed.
Print Assumptions C20_si_step_never_ub.
