(* Kernels engine (C13): lemmas about the translated tables (names, neighbour
   offsets, uniform bounds, mix decision, factories). *)
From Coq Require Import ZArith NArith String Ascii List Bool Lia ZifyBool.
From Pops Require Import Err KernelTypesDefs GeneratedKernelTables KernelGeomDefs KernelTableDefs.
Import ListNotations.
Local Open Scope string_scope.

(* ---------- lookups ---------- *)
Lemma assoc_string_in {A} s (l : list (string * A)) v :
  assoc_string s l = Some v -> In (s, v) l.
Proof.
  induction l as [|[k w] tl IH]; simpl; [discriminate|].
  destruct (String.eqb s k) eqn:E.
  - intros H. inversion H. subst. apply String.eqb_eq in E. subst. left. reflexivity.
  - intros H. right. apply IH. exact H.
Qed.

Lemma assoc_string_none {A} s (l : list (string * A)) :
  assoc_string s l = None <-> forall v, ~ In (s, v) l.
Proof.
  induction l as [|[k w] tl IH]; simpl.
  - split; [intros _ v []|reflexivity].
  - destruct (String.eqb s k) eqn:E.
    + apply String.eqb_eq in E. subst. split; [discriminate|]. intros H. exfalso. apply (H w). left. reflexivity.
    + apply String.eqb_neq in E. rewrite IH. split.
      * intros H v [H1|H1]; [inversion H1; congruence|exact (H v H1)].
      * intros H v H1. apply (H v). right. exact H1.
Qed.

Lemma lookup_name_ok {A} tbl unknown s (v : A) :
  lookup_name tbl unknown s = Ok v -> In (s, v) tbl.
Proof.
  unfold lookup_name. destruct (assoc_string s tbl) eqn:E; [|discriminate].
  intros H. inversion H. subst. apply assoc_string_in. exact E.
Qed.

Lemma lookup_name_unknown {A} (tbl : list (string * A)) unknown s :
  (forall v, ~ In (s, v) tbl) -> lookup_name tbl unknown s = Err unknown.
Proof.
  intros H. unfold lookup_name. apply assoc_string_none in H. rewrite H. reflexivity.
Qed.

Lemma lookup_name_total {A} (tbl : list (string * A)) unknown s :
  (exists v, lookup_name tbl unknown s = Ok v) \/ lookup_name tbl unknown s = Err unknown.
Proof. unfold lookup_name. destruct (assoc_string s tbl); [left; eexists; reflexivity|right; reflexivity]. Qed.

(* ---------- kernel names ---------- *)
Lemma kernel_table_entries_ok : forallb kernel_entry_ok kernel_name_table = true.
Proof. vm_compute. reflexivity. Qed.

Lemma kernel_names_sound s k : kernel_type_from_string s = Ok k ->
  (s = "" /\ k = KNone) \/ normalize s = canonical_kernel_name k.
Proof.
  intros H. apply lookup_name_ok in H.
  pose proof kernel_table_entries_ok as Hall. rewrite forallb_forall in Hall.
  specialize (Hall _ H). unfold kernel_entry_ok in Hall. simpl fst in Hall. simpl snd in Hall.
  apply orb_true_iff in Hall. destruct Hall as [Ha|Ha].
  - apply andb_true_iff in Ha. destruct Ha as [H1 H2]. apply String.eqb_eq in H1.
    left. split; [exact H1|]. destruct k; vm_compute in H2; try discriminate. reflexivity.
  - right. apply String.eqb_eq. exact Ha.
Qed.

Lemma kernel_names_complete k :
  kernel_type_from_string (canonical_kernel_name k) = Ok k.
Proof. destruct k; vm_compute; reflexivity. Qed.

Lemma kernel_names_unknown s :
  (exists k, kernel_type_from_string s = Ok k) \/ kernel_type_from_string s = Err InvalidArgument.
Proof. apply (lookup_name_total kernel_name_table kernel_name_unknown). Qed.

Lemma kernel_names_rejected s : (forall k, ~ In (s, k) kernel_name_table) ->
  kernel_type_from_string s = Err InvalidArgument.
Proof. apply (lookup_name_unknown kernel_name_table kernel_name_unknown). Qed.

(* ---------- direction names ---------- *)
Lemma direction_table_entries_ok : forallb direction_entry_ok direction_name_table = true.
Proof. vm_compute. reflexivity. Qed.

Lemma direction_names_sound s d : direction_from_string s = Ok d ->
  (d = DirNone /\ (s = "" \/ normalize s = "none")) \/ (d <> DirNone /\ s = direction_name d).
Proof.
  intros H. apply lookup_name_ok in H.
  pose proof direction_table_entries_ok as Hall. rewrite forallb_forall in Hall.
  specialize (Hall _ H). unfold direction_entry_ok in Hall. simpl fst in Hall. simpl snd in Hall.
  destruct d; try (right; split; [discriminate|apply String.eqb_eq; exact Hall]).
  left. split; [reflexivity|]. apply orb_true_iff in Hall.
  destruct Hall as [Ha|Ha]; apply String.eqb_eq in Ha; auto.
Qed.

Lemma direction_names_complete d : direction_from_string (direction_name d) = Ok d.
Proof. destruct d; vm_compute; reflexivity. Qed.

Lemma direction_names_unknown s :
  (exists d, direction_from_string s = Ok d) \/ direction_from_string s = Err InvalidArgument.
Proof. apply (lookup_name_total direction_name_table direction_name_unknown). Qed.

Lemma direction_degrees_table d deg : compass_degrees d = Some deg -> direction_value d = deg.
Proof. destruct d; simpl; intros H; inversion H; reflexivity. Qed.

(* ---------- neighbour kernel ---------- *)
Lemma neighbor_table_is_compass d :
  match compass d with
  | Some off => neighbor_offset d = Ok off
  | None => neighbor_offset d = Err InvalidArgument
  end.
Proof. destruct d; reflexivity. Qed.

Lemma neighbor_call_spec d row col :
  match compass d with
  | Some (dr, dc) => neighbor_call d row col = Ok (row + dr, col + dc)%Z
  | None => neighbor_call d row col = Err InvalidArgument
  end.
Proof. destruct d; reflexivity. Qed.

Lemma neighbor_one_cell d row col r c : neighbor_call d row col = Ok (r, c) ->
  (Z.abs (r - row) <= 1 /\ Z.abs (c - col) <= 1 /\ (r, c) <> (row, col))%Z.
Proof.
  destruct d; simpl; intros H; inversion H; subst; (repeat split; try lia);
    intros E; inversion E; lia.
Qed.

(* ---------- uniform kernel ---------- *)
Lemma covers_landscape_iff b rows cols : (1 <= rows)%Z -> (1 <= cols)%Z ->
  (covers_landscape b rows cols <-> covers_landscape_b b rows cols = true).
Proof.
  intros Hr Hc. destruct b as [[rl rh] [cl ch]].
  unfold covers_landscape, covers_landscape_b, in_range. simpl fst. simpl snd. split.
  - intros [H1 H2].
    assert (rl = 0 /\ rh = rows - 1 /\ cl = 0 /\ ch = cols - 1)%Z as (-> & -> & -> & ->).
    { pose proof (H1 0%Z) as A0. pose proof (H1 (rows - 1)%Z) as A1.
      pose proof (H1 (rl - 1)%Z) as A2. pose proof (H1 rows) as A3.
      pose proof (H1 rl) as A4. pose proof (H1 rh) as A5.
      pose proof (H2 0%Z) as B0. pose proof (H2 (cols - 1)%Z) as B1.
      pose proof (H2 cl) as B4. pose proof (H2 ch) as B5.
      lia. }
    rewrite !Z.eqb_refl. reflexivity.
  - intros H. rewrite !andb_true_iff in H. destruct H as [[[H1 H2] H3] H4].
    apply Z.eqb_eq in H1, H2, H3, H4. subst. split; intros k; lia.
Qed.

Lemma uniform_covers_landscape rows cols : (1 <= rows)%Z -> (1 <= cols)%Z ->
  covers_landscape (uniform_bounds (uniform_args_model rows cols)) rows cols /\
  covers_landscape (uniform_bounds (uniform_args_natural rows cols)) rows cols /\
  covers_landscape (uniform_bounds (uniform_args_anthropogenic rows cols)) rows cols.
Proof.
  intros Hr Hc.
  unfold covers_landscape, in_range, uniform_bounds, uniform_args_model, uniform_args_natural,
    uniform_args_anthropogenic, uniform_row_lo, uniform_row_hi, uniform_col_lo, uniform_col_hi.
  simpl fst. simpl snd.
  repeat match goal with |- context [if ?b then _ else _] => destruct b eqn:? end;
  repeat split; intros; lia.
Qed.

Lemma uniform_result_is_draw k_row k_col row col :
  uniform_result k_row k_col row col = (k_row, k_col).
Proof. reflexivity. Qed.

(* ---------- natural / anthropogenic mix ---------- *)
Lemma mix_decision_table use_anthro eligible bern :
  (mix_choice_of use_anthro eligible bern = MixAnthropogenic <->
     use_anthro = true /\ eligible = true /\ bern = false) /\
  (mix_choice_of use_anthro eligible bern = MixNatural <->
     use_anthro = false \/ eligible = false \/ bern = true) /\
  (mix_draws_bernoulli use_anthro eligible = true <-> use_anthro = true /\ eligible = true).
Proof.
  destruct use_anthro, eligible, bern; cbv; intuition congruence.
Qed.

Lemma mix_streams :
  mix_bernoulli_stream = StreamAnthropogenic /\
  mix_kernel_stream MixNatural = StreamNatural /\
  mix_kernel_stream MixAnthropogenic = StreamAnthropogenic.
Proof. repeat split. Qed.

(* ---------- factories ---------- *)
Lemma factories_spec k stochastic :
  factory_natural k stochastic = factory_natural_spec k stochastic /\
  factory_anthropogenic k stochastic = factory_anthropogenic_spec k stochastic.
Proof. destruct k, stochastic; split; reflexivity. Qed.

Lemma factories_radial_args :
  factory_natural_radial_args = radial_args_spec "natural" "natural_kernel" /\
  factory_anthropogenic_radial_args = radial_args_spec "anthro" "anthro_kernel".
Proof. split; reflexivity. Qed.
