(* Model::run_step (include/pops/model.hpp): the fixed sequence of guarded
   actions, each with its schedule test and input index.  A step is first
   turned into a plan (the list of actions that will run, in order, with the
   index of the input each uses) and then executed action by action so that the
   state after each individual action is observable.  Definitions only. *)
From Coq Require Import ZArith QArith List Bool.
From Pops Require Import Err Rounding CellDefs LandDefs SchedDefs.
Import ListNotations.
Local Open Scope Z_scope.

Inductive action_tag : Set :=
| ASoil | ALethal | ASurvival | AGenerate | ADisperse | AStepForward
| AOverpop | AMovement | ATreatments | AMortality | ASpreadRate | AQuarantine.

Record model_cfg : Set := mkmodelcfg
  { m_g : config;
    m_use_lethal : bool; m_lethal_schedule : list bool;
    m_use_survival : bool; m_survival_schedule : list bool;
    m_spread_schedule : list bool;
    m_use_overpop : bool; m_use_movements : bool; m_use_treatments : bool;
    m_use_mortality : bool; m_mortality_schedule : list bool;
    m_use_spreadrates : bool; m_spread_rate_schedule : list bool;
    m_use_quarantine : bool; m_quarantine_schedule : list bool;
    m_rate_capacity : Z }.   (* number of steps the SpreadRateAction has room for *)

Record inputs : Set := mkinputs
  { in_temperatures : list (list Q);
    in_survival : list (list Q);
    in_totpop : list Z;                    (* total_populations raster of this step *)
    in_movements : list (list Z * Z);      (* movement rows with their scheduled step *)
    in_treatments : list treatment }.

(* vector<bool>::operator[] is unchecked *)
Definition sched_at (l : list bool) (step : Z) : result bool :=
  if step <? 0 then Err UB_OutOfBounds
  else match nth_error l (Z.to_nat step) with Some b => Ok b | None => Err UB_OutOfBounds end.

Definition guarded (use : bool) (sched : list bool) (step : Z) : result bool :=
  if use then sched_at sched step else Ok false.

(* The actions that run in [step], in order, each with its index argument
   (the input index for lethal/survival, the action index for the two
   measurements, the step otherwise). *)
Definition plan (m : model_cfg) (has_soil : bool) (step : Z) : result (list (action_tag * Z)) :=
  let soil := if has_soil then [(ASoil, step)] else [] in
  do lethal <- guarded (m_use_lethal m) (m_lethal_schedule m) step;
  do lethal_p <- (if lethal
                  then do k <- simulation_step_to_action_step (m_lethal_schedule m) step;
                       Ok [(ALethal, k)]
                  else Ok []);
  do surv <- guarded (m_use_survival m) (m_survival_schedule m) step;
  do surv_p <- (if surv
                then do k <- simulation_step_to_action_step (m_survival_schedule m) step;
                     Ok [(ASurvival, k)]
                else Ok []);
  do spread <- sched_at (m_spread_schedule m) step;
  let spread_p :=
    if spread then
      [(AGenerate, step); (ADisperse, step); (AStepForward, step)]
      ++ (if m_use_overpop m then [(AOverpop, step)] else [])
      ++ (if m_use_movements m then [(AMovement, step)] else [])
    else [] in
  let treat_p := if m_use_treatments m then [(ATreatments, step)] else [] in
  do mort <- guarded (m_use_mortality m) (m_mortality_schedule m) step;
  let mort_p := if mort then [(AMortality, step)] else [] in
  do rate <- guarded (m_use_spreadrates m) (m_spread_rate_schedule m) step;
  do rate_p <- (if rate
                then do k <- simulation_step_to_action_step (m_spread_rate_schedule m) step;
                     Ok [(ASpreadRate, k)]
                else Ok []);
  do quar <- guarded (m_use_quarantine m) (m_quarantine_schedule m) step;
  do quar_p <- (if quar
                then do k <- simulation_step_to_action_step (m_quarantine_schedule m) step;
                     Ok [(AQuarantine, k)]
                else Ok []);
  Ok (soil ++ lethal_p ++ surv_p ++ spread_p ++ treat_p ++ mort_p ++ rate_p ++ quar_p).

Definition set_temperature (r : list Q) : W unit :=
  let* w := get in
  put (mkworld (w_hosts w) (w_disp w) (w_estab w) (w_outside w) (w_soil w) (w_weather w)
               (w_totpop w) (w_other w) (Some r) (w_last_index w)).
Definition set_totpop (r : list Z) : W unit :=
  let* w := get in
  put (mkworld (w_hosts w) (w_disp w) (w_estab w) (w_outside w) (w_soil w) (w_weather w)
               (Some r) (w_other w) (w_temp w) (w_last_index w)).

(* vector::operator[] on the input series is unchecked *)
Definition input_at {A} (l : list A) (k : Z) : result A :=
  if k <? 0 then Err UB_OutOfBounds
  else match nth_error l (Z.to_nat k) with Some a => Ok a | None => Err UB_OutOfBounds end.

(* one action of the plan *)
Definition run_action (m : model_cfg) (inp : inputs) (step : Z) (a : action_tag * Z) : W unit :=
  let g := m_g m in
  match fst a with
  | ASoil => let* w := get in put (act_soil_next w)
  | ALethal =>
    let* t := lift (input_at (in_temperatures inp) (snd a)) in
    set_temperature t ;; act_lethal g
  | ASurvival =>
    let* r := lift (input_at (in_survival inp) (snd a)) in act_survival g r
  | AGenerate => set_totpop (in_totpop inp) ;; act_generate g
  | ADisperse => act_disperse g
  | AStepForward => act_step_forward g step
  | AOverpop => act_overpopulation g
  | AMovement => act_movement g step (in_movements inp)
  | ATreatments => act_treatments g (in_treatments inp) step
  | AMortality => act_mortality g
  | ASpreadRate =>
    (* the measurement does not touch host state (MetricsDefs models its value);
       it only needs room for rate number [snd a] *)
    if snd a >=? m_rate_capacity m then fail OutOfRange else ret tt
  | AQuarantine => ret tt
  end.

(* run the plan, recording the world after each action *)
Fixpoint run_plan (m : model_cfg) (inp : inputs) (step : Z) (p : list (action_tag * Z))
         (w : world) (t : tape) (acc : list (action_tag * Z * world))
  : result (list (action_tag * Z * world) * world * tape) * list (action_tag * Z * world) :=
  match p with
  | [] => (Ok (acc, w, t), acc)
  | a :: r =>
    match run_action m inp step a w t with
    | Ok (_, w', t') => run_plan m inp step r w' t' (acc ++ [(a, w')])
    | Err e => (Err e, acc)
    end
  end.

Definition has_soil (w : world) : bool := match w_soil w with Some _ => true | None => false end.

(* Model::run_step, pools entry point *)
Definition run_step (m : model_cfg) (inp : inputs) (step : Z) (w : world) (t : tape)
  : result (list (action_tag * Z * world) * world * tape) * list (action_tag * Z * world) :=
  match plan m (has_soil w) step with
  | Err e => (Err e, [])
  | Ok p => run_plan m inp step p w t []
  end.

(* Model::run_step, raster entry point: one host wrapped in fresh pools, no
   pest-host table, an empty treatment list and a spread-rate object with room
   for zero steps *)
Definition strip_pht (h : hostcfg) : hostcfg :=
  mkhostcfg (h_mt h) (h_latency h) (h_disp_stoch h) (h_rr h) (h_est_stoch h) (h_est_prob h) None.
Definition raster_entry_cfg (m : model_cfg) : model_cfg :=
  let g := m_g m in
  mkmodelcfg
    (mkconfig (g_rows g) (g_cols g) (map strip_pht (g_hosts g)) (g_arrival_land g)
              (g_est_stoch g) (g_est_prob g) None (g_weather g) (g_soil_pct g)
              (g_soil_gen_stoch g) (g_soil_est_stoch g) (g_soil_est_prob g)
              (g_overpop_pct g) (g_leaving_pct g) (g_lethal_temp g))
    (m_use_lethal m) (m_lethal_schedule m) (m_use_survival m) (m_survival_schedule m)
    (m_spread_schedule m) (m_use_overpop m) (m_use_movements m) (m_use_treatments m)
    (m_use_mortality m) (m_mortality_schedule m) (m_use_spreadrates m)
    (m_spread_rate_schedule m) (m_use_quarantine m) (m_quarantine_schedule m) 0.
Definition run_step_rasters (m : model_cfg) (inp : inputs) (step : Z) (w : world) (t : tape) :=
  run_step (raster_entry_cfg m)
           (mkinputs (in_temperatures inp) (in_survival inp) (in_totpop inp)
                     (in_movements inp) []) step w t.

(* a run: consecutive steps, each with its own inputs, weather raster (set by
   the caller through Environment::update_weather_coefficient before the step)
   and tape of random outcomes *)
Definition with_weather (w : world) (wc : option (list Q)) : world :=
  mkworld (w_hosts w) (w_disp w) (w_estab w) (w_outside w) (w_soil w) wc
          (w_totpop w) (w_other w) (w_temp w) (w_last_index w).

Fixpoint run_many (m : model_cfg) (inp : Z -> inputs) (weather : Z -> option (list Q))
         (tapes : list tape) (step : Z) (w : world) : result world :=
  match tapes with
  | [] => Ok w
  | t :: r =>
    match fst (run_step m (inp step) step (with_weather w (weather step)) t) with
    | Ok (_, w', _) => run_many m inp weather r (step + 1) w'
    | Err e => Err e
    end
  end.
