(* Properties of the ownership state machine of RasterDefs.v (heap of buffers,
   pool of raster objects; constructors, assignments, destructor of
   include/pops/raster.hpp).  Statements: see the sections A-F below. *)
From Coq Require Import ZArith QArith List Bool Lia ZifyBool.
From Pops Require Import Err RasterDefs.
Import ListNotations.
Local Open Scope Z_scope.

Definition slot_obj (st : state) (v : nat) (o : robj) : Prop :=
  nth_error (slots st) v = Some (Some o).
Definition buf_at (st : state) (b : nat) (bf : buffer) : Prop :=
  nth_error (heap st) b = Some bf.

(* The invariant: no object holds a dangling pointer; buffers allocated by the
   class have exactly rows*cols cells; a buffer allocated by the class is
   referenced by at most one object; owning objects never point to caller
   memory; caller memory is never freed. *)
Record Inv (st : state) : Prop := mkInv {
  inv_live : forall v o b, slot_obj st v o -> o_data o = Some b ->
      exists bf, buf_at st b bf /\ b_live bf = true;
  inv_shape : forall v o, slot_obj st v o -> 0 <= o_rows o /\ 0 <= o_cols o;
  inv_size : forall v o b bf, slot_obj st v o -> o_data o = Some b -> buf_at st b bf ->
      b_ext bf = false -> length (b_cells bf) = count o;
  inv_unshared : forall v w ov ow b bf, v <> w -> slot_obj st v ov -> slot_obj st w ow ->
      o_data ov = Some b -> o_data ow = Some b -> buf_at st b bf -> b_ext bf = true;
  inv_owner_internal : forall v o b bf, slot_obj st v o -> o_owns o = true ->
      o_data o = Some b -> buf_at st b bf -> b_ext bf = false;
  inv_ext_live : forall b bf, buf_at st b bf -> b_ext bf = true -> b_live bf = true;
  inv_exts : forall e b, nth_error (exts st) e = Some b ->
      exists bf, buf_at st b bf /\ b_ext bf = true
}.

(* errors that would be defects of the class itself *)
Definition class_error (e : merr) : Prop :=
  e = DoubleFree \/ e = FreeOfExternal \/ e = UseAfterFree.

(* the buffer of o was allocated by the class (any copy has such a buffer) *)
Definition private (st : state) (o : robj) : Prop :=
  forall b bf, o_data o = Some b -> buf_at st b bf -> b_ext bf = false.

(* the slots an operation names *)
Definition names (p : op) : list nat :=
  match p with
  | ODefault v | OSized v _ _ _ | OFillNew v _ _ _ | OList v _ | OWrap v _ _ _
  | ODestroy v | OWrite v _ _ _ => [v]
  | OLike v w _ | OCopy v w | OMove v w | OCopyAssign v w | OMoveAssign v w => [v; w]
  | OExt _ | OExtWrite _ _ _ => []
  end.

(* ------------------------------------------------------------------------- *)
(* Lists                                                                     *)
(* ------------------------------------------------------------------------- *)

Lemma upd_length : forall A (l : list A) k x, length (upd l k x) = length l.
Proof.
  induction l as [|h t IH]; intros [|k] x; cbn; auto.
Qed.

Lemma nth_error_upd_eq : forall A (l : list A) k x,
  (k < length l)%nat -> nth_error (upd l k x) k = Some x.
Proof.
  induction l as [|h t IH]; intros [|k] x H; cbn in *; try lia; auto.
  apply IH; lia.
Qed.

Lemma nth_error_upd_neq : forall A (l : list A) k j x,
  j <> k -> nth_error (upd l k x) j = nth_error l j.
Proof.
  induction l as [|h t IH]; intros [|k] [|j] x H; cbn; auto; try congruence.
Qed.

Lemma nth_error_upd_inv : forall A (l : list A) k j x y,
  nth_error (upd l k x) j = Some y ->
  (j = k /\ y = x /\ (k < length l)%nat) \/ (j <> k /\ nth_error l j = Some y).
Proof.
  intros A l k j x y H. destruct (Nat.eq_dec j k) as [E|E].
  - subst j. left.
    assert (L : (k < length (upd l k x))%nat) by (apply nth_error_Some; congruence).
    rewrite upd_length in L. rewrite nth_error_upd_eq in H by exact L.
    split; [reflexivity|]. split; [congruence|exact L].
  - right. rewrite nth_error_upd_neq in H by exact E. auto.
Qed.

Lemma upd_upd : forall A (l : list A) k x y, upd (upd l k x) k y = upd l k y.
Proof.
  induction l as [|h t IH]; intros [|k] x y; cbn; auto. rewrite IH. reflexivity.
Qed.

Lemma upd_comm : forall A (l : list A) j k x y,
  j <> k -> upd (upd l j x) k y = upd (upd l k y) j x.
Proof.
  induction l as [|h t IH]; intros [|j] [|k] x y H; cbn; auto; try congruence.
  rewrite IH by congruence. reflexivity.
Qed.

Lemma nth_error_app_last : forall A (l : list A) x, nth_error (l ++ [x]) (length l) = Some x.
Proof.
  intros. rewrite nth_error_app2 by lia. rewrite Nat.sub_diag. reflexivity.
Qed.

Lemma nth_error_app_old : forall A (l : list A) x j y,
  nth_error l j = Some y -> nth_error (l ++ [x]) j = Some y.
Proof.
  intros A l x j y H. rewrite nth_error_app1; auto.
  apply nth_error_Some. congruence.
Qed.

Lemma nth_error_app_inv : forall A (l : list A) x j y,
  nth_error (l ++ [x]) j = Some y ->
  ((j < length l)%nat /\ nth_error l j = Some y) \/ (j = length l /\ y = x).
Proof.
  intros A l x j y H.
  destruct (Nat.lt_ge_cases j (length l)) as [L|L].
  - left. rewrite nth_error_app1 in H by exact L. auto.
  - right. rewrite nth_error_app2 in H by exact L.
    destruct (j - length l)%nat as [|d] eqn:D.
    + cbn in H. split; [lia|congruence].
    + cbn in H. destruct d; discriminate.
Qed.

Lemma nth_error_len_none : forall A (l : list A) y, nth_error l (length l) = Some y -> False.
Proof.
  intros A l y H. assert (L : (length l < length l)%nat) by (apply nth_error_Some; congruence). lia.
Qed.

Lemma nth_error_repeat_inv : forall A (x : A) n k y, nth_error (repeat x n) k = Some y -> y = x.
Proof.
  induction n as [|n IH]; intros [|k] y H; cbn in H; try discriminate.
  - congruence.
  - eauto.
Qed.

Lemma rect_length : forall (rows : list (list num)) (n : nat),
  forallb (fun r => (length r =? n)%nat) rows = true ->
  length (concat rows) = (length rows * n)%nat.
Proof.
  induction rows as [|r t IH]; intros n H; cbn in *.
  - reflexivity.
  - apply andb_true_iff in H. destruct H as [H1 H2].
    apply Nat.eqb_eq in H1. rewrite app_length, (IH n H2). lia.
Qed.

(* ------------------------------------------------------------------------- *)
(* Primitives of the state machine                                           *)
(* ------------------------------------------------------------------------- *)

Lemma empty_slot_ok : forall st v u, empty_slot st v = MOk u -> nth_error (slots st) v = Some None.
Proof.
  unfold empty_slot. intros st v u H.
  destruct (nth_error (slots st) v) as [[o|]|]; try discriminate. reflexivity.
Qed.

Lemma get_obj_ok : forall st v o, get_obj st v = MOk o <-> slot_obj st v o.
Proof.
  unfold get_obj, slot_obj. intros st v o.
  destruct (nth_error (slots st) v) as [[o'|]|]; split; intro H; try discriminate; congruence.
Qed.

Lemma slot_set_inv : forall st v x u o,
  slot_obj (set_slot st v x) u o ->
  (u = v /\ x = Some o) \/ (u <> v /\ slot_obj st u o).
Proof.
  unfold slot_obj, set_slot. cbn. intros st v x u o H.
  apply nth_error_upd_inv in H. destruct H as [(A & B & _)|(A & B)]; auto.
Qed.

Lemma slot_set_eq : forall st v x,
  (v < length (slots st))%nat -> nth_error (slots (set_slot st v x)) v = Some x.
Proof.
  unfold set_slot. cbn. intros. apply nth_error_upd_eq. assumption.
Qed.

Lemma slot_set_neq : forall st v x u,
  u <> v -> nth_error (slots (set_slot st v x)) u = nth_error (slots st) u.
Proof.
  unfold set_slot. cbn. intros. apply nth_error_upd_neq. assumption.
Qed.

Lemma slot_bound : forall st v x, nth_error (slots st) v = Some x -> (v < length (slots st))%nat.
Proof.
  intros st v x H. apply nth_error_Some. congruence.
Qed.

Lemma set_slot_twice : forall st v x y, set_slot (set_slot st v x) v y = set_slot st v y.
Proof.
  intros. unfold set_slot. cbn. rewrite upd_upd. reflexivity.
Qed.

Lemma set_slot_comm : forall st v w x y,
  v <> w -> set_slot (set_slot st v x) w y = set_slot (set_slot st w y) v x.
Proof.
  intros. unfold set_slot. cbn. rewrite upd_comm by assumption. reflexivity.
Qed.

Lemma set_slot_heap_comm : forall st v x h,
  set_slot (set_heap st h) v x = set_heap (set_slot st v x) h.
Proof.
  intros. reflexivity.
Qed.

Lemma robj_eta : forall o, mkobj (o_rows o) (o_cols o) (o_data o) (o_owns o) = o.
Proof.
  intros [r c d w]. reflexivity.
Qed.

(* reading *)
Lemma read_ext : forall s1 s2 o,
  (forall b, o_data o = Some b -> nth_error (heap s1) b = nth_error (heap s2) b) ->
  read s1 o = read s2 o.
Proof.
  intros s1 s2 o H. unfold read. destruct (o_data o) as [b|]; [|reflexivity].
  rewrite (H b eq_refl). reflexivity.
Qed.

Lemma read_length : forall st o cs, read st o = MOk cs -> length cs = count o.
Proof.
  unfold read. intros st o cs H.
  destruct (o_data o) as [b|].
  - destruct (nth_error (heap st) b) as [bf|]; try discriminate.
    destruct (b_live bf); try discriminate.
    destruct (count o <=? length (b_cells bf))%nat eqn:L; try discriminate.
    apply Nat.leb_le in L. inversion H. apply firstn_length_le. exact L.
  - destruct (count o =? 0)%nat eqn:Z; try discriminate.
    apply Nat.eqb_eq in Z. inversion H. cbn. lia.
Qed.

Lemma read_ok_buf : forall st o cs b,
  read st o = MOk cs -> o_data o = Some b ->
  exists bf, buf_at st b bf /\ b_live bf = true /\
             (count o <= length (b_cells bf))%nat /\ cs = firstn (count o) (b_cells bf).
Proof.
  unfold read, buf_at. intros st o cs b H D. rewrite D in H.
  destruct (nth_error (heap st) b) as [bf|]; try discriminate.
  destruct (b_live bf) eqn:Lv; try discriminate.
  destruct (count o <=? length (b_cells bf))%nat eqn:L; try discriminate.
  apply Nat.leb_le in L. inversion H. exists bf. auto.
Qed.

Lemma read_live_ok : forall st o b bf,
  o_data o = Some b -> buf_at st b bf -> b_live bf = true ->
  (count o <= length (b_cells bf))%nat ->
  read st o = MOk (firstn (count o) (b_cells bf)).
Proof.
  unfold read, buf_at. intros st o b bf D B L C. rewrite D, B, L.
  apply Nat.leb_le in C. rewrite C. reflexivity.
Qed.

Lemma read_err_live : forall st o e,
  (forall b, o_data o = Some b -> exists bf, buf_at st b bf /\ b_live bf = true) ->
  read st o = MErr e -> ~ class_error e.
Proof.
  unfold read, buf_at, class_error. intros st o e HL H.
  destruct (o_data o) as [b|].
  - destruct (HL b eq_refl) as (bf & B & L). rewrite B, L in H.
    destruct (count o <=? length (b_cells bf))%nat; try discriminate.
    inversion H. intros [X|[X|X]]; discriminate.
  - destruct (count o =? 0)%nat; try discriminate.
    inversion H. intros [X|[X|X]]; discriminate.
Qed.

(* writing *)
Lemma write_buf_ok : forall st b k x st',
  write_buf st b k x = MOk st' ->
  exists bf, buf_at st b bf /\ b_live bf = true /\
    0 <= k < Z.of_nat (length (b_cells bf)) /\
    st' = set_heap st (upd (heap st) b (mkbuf true (b_ext bf) (upd (b_cells bf) (Z.to_nat k) x))).
Proof.
  unfold write_buf, buf_at. intros st b k x st' H.
  destruct (nth_error (heap st) b) as [bf|]; try discriminate.
  destruct (b_live bf) eqn:L; try discriminate.
  destruct ((0 <=? k) && (k <? Z.of_nat (length (b_cells bf)))) eqn:K; try discriminate.
  inversion H. exists bf. repeat split; auto; lia.
Qed.

Lemma write_buf_live : forall st b bf k x,
  buf_at st b bf -> b_live bf = true -> 0 <= k < Z.of_nat (length (b_cells bf)) ->
  exists st', write_buf st b k x = MOk st'.
Proof.
  unfold write_buf, buf_at. intros st b bf k x B L K. rewrite B, L.
  replace ((0 <=? k) && (k <? Z.of_nat (length (b_cells bf)))) with true by lia.
  eexists. reflexivity.
Qed.

Lemma write_buf_err_live : forall st b bf k x e,
  buf_at st b bf -> b_live bf = true -> write_buf st b k x = MErr e -> ~ class_error e.
Proof.
  unfold write_buf, buf_at, class_error. intros st b bf k x e B L H. rewrite B, L in H.
  destruct ((0 <=? k) && (k <? Z.of_nat (length (b_cells bf)))); try discriminate.
  inversion H. intros [X|[X|X]]; discriminate.
Qed.

(* ------------------------------------------------------------------------- *)
(* Preservation of the invariant by the primitives                           *)
(* ------------------------------------------------------------------------- *)

Lemma buf_inj : forall st b bf1 bf2, buf_at st b bf1 -> buf_at st b bf2 -> bf1 = bf2.
Proof.
  unfold buf_at. intros. congruence.
Qed.

(* removing an object never hurts *)
Lemma inv_clear : forall st v, Inv st -> Inv (set_slot st v None).
Proof.
  intros st v [IL ISH ISZ IU IO IE IX].
  constructor.
  - intros u o b S D. apply slot_set_inv in S. destruct S as [[_ X]|[_ S]]; [discriminate|].
    exact (IL u o b S D).
  - intros u o S. apply slot_set_inv in S. destruct S as [[_ X]|[_ S]]; [discriminate|].
    exact (ISH u o S).
  - intros u o b bf S D B E. apply slot_set_inv in S. destruct S as [[_ X]|[_ S]]; [discriminate|].
    exact (ISZ u o b bf S D B E).
  - intros u w ou ow b bf N S1 S2 D1 D2 B.
    apply slot_set_inv in S1. destruct S1 as [[_ X]|[_ S1]]; [discriminate|].
    apply slot_set_inv in S2. destruct S2 as [[_ X]|[_ S2]]; [discriminate|].
    exact (IU u w ou ow b bf N S1 S2 D1 D2 B).
  - intros u o b bf S W D B. apply slot_set_inv in S. destruct S as [[_ X]|[_ S]]; [discriminate|].
    exact (IO u o b bf S W D B).
  - exact IE.
  - exact IX.
Qed.

(* a fresh live buffer *)
Lemma inv_alloc : forall st ext cells,
  Inv st -> Inv (set_heap st (heap st ++ [mkbuf true ext cells])).
Proof.
  intros st ext cells [IL ISH ISZ IU IO IE IX].
  assert (OLD : forall u o b bf, slot_obj st u o -> o_data o = Some b ->
            nth_error (heap st ++ [mkbuf true ext cells]) b = Some bf -> buf_at st b bf).
  { intros u o b bf S D B. destruct (IL u o b S D) as (bf0 & B0 & _).
    unfold buf_at in *. rewrite (nth_error_app_old _ _ _ _ _ B0) in B. congruence. }
  constructor; unfold slot_obj, buf_at in *; cbn [set_heap heap slots exts].
  - intros u o b S D. destruct (IL u o b S D) as (bf & B & L).
    exists bf. split; [apply nth_error_app_old; exact B|exact L].
  - exact ISH.
  - intros u o b bf S D B E. exact (ISZ u o b bf S D (OLD u o b bf S D B) E).
  - intros u w ou ow b bf N S1 S2 D1 D2 B.
    exact (IU u w ou ow b bf N S1 S2 D1 D2 (OLD u ou b bf S1 D1 B)).
  - intros u o b bf S W D B. exact (IO u o b bf S W D (OLD u o b bf S D B)).
  - intros b bf B E. apply nth_error_app_inv in B. destruct B as [[_ B]|[_ B]].
    + exact (IE b bf B E).
    + subst bf. reflexivity.
  - intros e b X. destruct (IX e b X) as (bf & B & E).
    exists bf. split; [apply nth_error_app_old; exact B|exact E].
Qed.

(* putting an object into a slot (whatever the slot held) *)
Lemma inv_set : forall st v o,
  Inv st ->
  0 <= o_rows o -> 0 <= o_cols o ->
  (forall b, o_data o = Some b -> exists bf, buf_at st b bf /\ b_live bf = true /\
     (b_ext bf = false -> length (b_cells bf) = count o) /\
     (o_owns o = true -> b_ext bf = false) /\
     (forall u ou, u <> v -> slot_obj st u ou -> o_data ou = Some b -> b_ext bf = true)) ->
  Inv (set_slot st v (Some o)).
Proof.
  intros st v o [IL ISH ISZ IU IO IE IX] Hr Hc Hb.
  constructor.
  - intros u o' b S D. apply slot_set_inv in S. destruct S as [[_ X]|[_ S]].
    + inversion X. subst o'. destruct (Hb b D) as (bf & B & L & _). exists bf. split; assumption.
    + exact (IL u o' b S D).
  - intros u o' S. apply slot_set_inv in S. destruct S as [[_ X]|[_ S]].
    + inversion X. subst o'. split; assumption.
    + exact (ISH u o' S).
  - intros u o' b bf S D B E. apply slot_set_inv in S. destruct S as [[_ X]|[_ S]].
    + inversion X. subst o'. destruct (Hb b D) as (bf0 & B0 & _ & SZ & _).
      assert (bf0 = bf) by (eapply buf_inj; eassumption). subst bf0. exact (SZ E).
    + exact (ISZ u o' b bf S D B E).
  - intros u w ou ow b bf N S1 S2 D1 D2 B.
    apply slot_set_inv in S1. apply slot_set_inv in S2.
    destruct S1 as [[U1 X1]|[U1 S1]]; destruct S2 as [[U2 X2]|[U2 S2]].
    + congruence.
    + inversion X1. subst ou. destruct (Hb b D1) as (bf0 & B0 & _ & _ & _ & SH).
      assert (bf0 = bf) by (eapply buf_inj; eassumption). subst bf0.
      exact (SH w ow U2 S2 D2).
    + inversion X2. subst ow. destruct (Hb b D2) as (bf0 & B0 & _ & _ & _ & SH).
      assert (bf0 = bf) by (eapply buf_inj; eassumption). subst bf0.
      exact (SH u ou U1 S1 D1).
    + exact (IU u w ou ow b bf N S1 S2 D1 D2 B).
  - intros u o' b bf S W D B. apply slot_set_inv in S. destruct S as [[_ X]|[_ S]].
    + inversion X. subst o'. destruct (Hb b D) as (bf0 & B0 & _ & _ & OW & _).
      assert (bf0 = bf) by (eapply buf_inj; eassumption). subst bf0. exact (OW W).
    + exact (IO u o' b bf S W D B).
  - exact IE.
  - exact IX.
Qed.

(* a new object on a fresh buffer of the right size *)
Lemma inv_fresh : forall st v r c cells own,
  Inv st -> 0 <= r -> 0 <= c -> length cells = Z.to_nat (c * r) ->
  Inv (set_slot (set_heap st (heap st ++ [mkbuf true false cells])) v
                (Some (mkobj r c (Some (length (heap st))) own))).
Proof.
  intros st v r c cells own I Hr Hc HL.
  pose proof (inv_alloc st false cells I) as I1.
  apply inv_set; cbn [o_rows o_cols o_data o_owns]; try assumption.
  intros b D. inversion D. subst b.
  exists (mkbuf true false cells). unfold buf_at. cbn [set_heap heap b_live b_ext b_cells].
  split; [apply nth_error_app_last|]. split; [reflexivity|].
  split; [intros _; exact HL|]. split; [reflexivity|].
  intros u ou _ S D'. exfalso.
  destruct (inv_live _ I u ou _ S D') as (bf & B & _).
  exact (nth_error_len_none _ _ _ B).
Qed.

Lemma inv_construct : forall st v r c cells,
  Inv st -> 0 <= r -> 0 <= c -> length cells = Z.to_nat (c * r) ->
  Inv (construct st v r c cells).
Proof.
  intros. unfold construct, alloc. apply inv_fresh; assumption.
Qed.

(* handing the buffer of w over to v *)
Lemma inv_move : forall st v w ow,
  Inv st -> v <> w -> slot_obj st w ow ->
  Inv (set_slot (set_slot st v (Some (mkobj (o_rows ow) (o_cols ow) (o_data ow) (o_owns ow))))
                w (Some (mkobj (o_rows ow) (o_cols ow) None (o_owns ow)))).
Proof.
  intros st v w ow I N S.
  rewrite set_slot_comm by exact N. rewrite robj_eta.
  destruct (inv_shape _ I w ow S) as [Hr Hc].
  assert (I1 : Inv (set_slot st w (Some (mkobj (o_rows ow) (o_cols ow) None (o_owns ow))))).
  { apply inv_set; cbn [o_rows o_cols o_data o_owns]; try assumption. intros b D. discriminate. }
  apply inv_set; try assumption.
  intros b D. destruct (inv_live _ I w ow b S D) as (bf & B & L).
  exists bf. split; [exact B|]. split; [exact L|].
  split; [intros E; exact (inv_size _ I w ow b bf S D B E)|].
  split; [intros W; exact (inv_owner_internal _ I w ow b bf S W D B)|].
  intros u ou U S' D'. apply slot_set_inv in S'. destruct S' as [[_ X]|[U' S']].
  - inversion X. subst ou. discriminate.
  - exact (inv_unshared _ I u w ou ow b bf U' S' S D' D B).
Qed.

(* if (data_ && owns_) delete[] data_ *)
Lemma release_cases : forall st v ov,
  Inv st -> slot_obj st v ov ->
  (release st ov = MOk st /\ (o_data ov = None \/ o_owns ov = false)) \/
  (exists b bf, o_data ov = Some b /\ o_owns ov = true /\ buf_at st b bf /\
     b_ext bf = false /\ b_live bf = true /\
     release st ov = MOk (set_heap st (upd (heap st) b (mkbuf false false (b_cells bf))))).
Proof.
  intros st v ov I S. unfold release.
  destruct (o_data ov) as [b|] eqn:D; [|left; auto].
  destruct (o_owns ov) eqn:W; [|left; auto].
  right. destruct (inv_live _ I v ov b S D) as (bf & B & L).
  pose proof (inv_owner_internal _ I v ov b bf S W D B) as E.
  exists b, bf. repeat split; auto.
  unfold free. unfold buf_at in B. rewrite B, E, L. reflexivity.
Qed.

(* the buffer an object owns is referenced by nobody else *)
Lemma owned_elsewhere_absurd : forall st v ov u ou b,
  Inv st -> slot_obj st v ov -> o_data ov = Some b -> o_owns ov = true ->
  u <> v -> slot_obj st u ou -> o_data ou = Some b -> False.
Proof.
  intros st v ov u ou b I S D W N S' D'.
  destruct (inv_live _ I v ov b S D) as (bf & B & _).
  pose proof (inv_owner_internal _ I v ov b bf S W D B) as E1.
  pose proof (inv_unshared _ I u v ou ov b bf N S' S D' D B) as E2. congruence.
Qed.

Lemma inv_free_clear : forall st v ov b bf,
  Inv st -> slot_obj st v ov -> o_data ov = Some b -> o_owns ov = true -> buf_at st b bf ->
  Inv (set_slot (set_heap st (upd (heap st) b (mkbuf false false (b_cells bf)))) v None).
Proof.
  intros st v ov b bf I S D W B.
  pose proof (inv_owner_internal _ I v ov b bf S W D B) as EB.
  assert (NB : forall u o b', u <> v -> slot_obj st u o -> o_data o = Some b' -> b' <> b).
  { intros u o b' N S' D' X. subst b'.
    exact (owned_elsewhere_absurd st v ov u o b I S D W N S' D'). }
  assert (SL : forall u o, slot_obj (set_slot (set_heap st (upd (heap st) b (mkbuf false false (b_cells bf)))) v None) u o ->
                 u <> v /\ slot_obj st u o).
  { intros u o S'. apply slot_set_inv in S'. destruct S' as [[_ X]|S']; [discriminate|exact S']. }
  destruct I as [IL ISH ISZ IU IO IE IX].
  constructor.
  - intros u o b' S' D'. apply SL in S'. destruct S' as [N S'].
    destruct (IL u o b' S' D') as (bf' & B' & L'). exists bf'. split; [|exact L'].
    unfold buf_at in *. cbn. rewrite nth_error_upd_neq; [exact B'|]. exact (NB u o b' N S' D').
  - intros u o S'. apply SL in S'. destruct S' as [N S']. exact (ISH u o S').
  - intros u o b' bf' S' D' B' E'. apply SL in S'. destruct S' as [N S'].
    unfold buf_at in B'. cbn in B'. rewrite nth_error_upd_neq in B' by exact (NB u o b' N S' D').
    exact (ISZ u o b' bf' S' D' B' E').
  - intros u w ou ow b' bf' N S1 S2 D1 D2 B'.
    apply SL in S1. destruct S1 as [N1 S1]. apply SL in S2. destruct S2 as [N2 S2].
    unfold buf_at in B'. cbn in B'. rewrite nth_error_upd_neq in B' by exact (NB u ou b' N1 S1 D1).
    exact (IU u w ou ow b' bf' N S1 S2 D1 D2 B').
  - intros u o b' bf' S' W' D' B'. apply SL in S'. destruct S' as [N S'].
    unfold buf_at in B'. cbn in B'. rewrite nth_error_upd_neq in B' by exact (NB u o b' N S' D').
    exact (IO u o b' bf' S' W' D' B').
  - intros b' bf' B' E'. unfold buf_at in B'. cbn in B'.
    apply nth_error_upd_inv in B'. destruct B' as [(_ & X & _)|(_ & B')].
    + subst bf'. discriminate.
    + exact (IE b' bf' B' E').
  - intros e b' X. cbn in X. destruct (IX e b' X) as (bf' & B' & E').
    exists bf'. split; [|exact E']. unfold buf_at in *. cbn.
    rewrite nth_error_upd_neq; [exact B'|]. intro. subst b'. congruence.
Qed.

Lemma inv_release_clear : forall st v ov st1,
  Inv st -> slot_obj st v ov -> release st ov = MOk st1 -> Inv (set_slot st1 v None).
Proof.
  intros st v ov st1 I S R.
  destruct (release_cases st v ov I S) as [[R' _]|(b & bf & D & W & B & _ & _ & R')];
    rewrite R' in R; inversion R; subst st1.
  - apply inv_clear. exact I.
  - eapply inv_free_clear; eassumption.
Qed.

(* what release leaves alone *)
Lemma release_frame : forall st v ov st1,
  Inv st -> slot_obj st v ov -> release st ov = MOk st1 ->
  slots st1 = slots st /\ exts st1 = exts st /\ length (heap st1) = length (heap st) /\
  (forall u ou b, u <> v -> slot_obj st u ou -> o_data ou = Some b ->
      nth_error (heap st1) b = nth_error (heap st) b) /\
  (forall b bf, buf_at st b bf -> b_ext bf = true -> buf_at st1 b bf) /\
  (forall b, option_map b_cells (nth_error (heap st1) b) = option_map b_cells (nth_error (heap st) b)).
Proof.
  intros st v ov st1 I S R.
  destruct (release_cases st v ov I S) as [[R' _]|(b & bf & D & W & B & E & L & R')];
    rewrite R' in R; inversion R; subst st1.
  - repeat split; auto.
  - cbn [set_heap heap slots exts]. split; [reflexivity|]. split; [reflexivity|].
    split; [apply upd_length|]. split; [|split].
    + intros u ou b' N S' D'. apply nth_error_upd_neq. intro. subst b'.
      exact (owned_elsewhere_absurd st v ov u ou b I S D W N S' D').
    + intros b' bf' B' E'. unfold buf_at in *. cbn. rewrite nth_error_upd_neq; [exact B'|].
      intro. subst b'. congruence.
    + intros b'. destruct (Nat.eq_dec b' b) as [X|X].
      * subst b'. unfold buf_at in B. rewrite nth_error_upd_eq, B; [reflexivity|].
        apply nth_error_Some. congruence.
      * rewrite nth_error_upd_neq by exact X. reflexivity.
Qed.

(* a cell write keeps every buffer's liveness, kind and length *)
Lemma inv_write : forall st b bf k x,
  Inv st -> buf_at st b bf -> b_live bf = true ->
  Inv (set_heap st (upd (heap st) b (mkbuf true (b_ext bf) (upd (b_cells bf) k x)))).
Proof.
  intros st b bf k x [IL ISH ISZ IU IO IE IX] B L.
  assert (BK : forall b' bf', nth_error (upd (heap st) b (mkbuf true (b_ext bf) (upd (b_cells bf) k x))) b' = Some bf' ->
            exists bf0, buf_at st b' bf0 /\ b_live bf' = b_live bf0 /\ b_ext bf' = b_ext bf0 /\
                        length (b_cells bf') = length (b_cells bf0)).
  { intros b' bf' H. apply nth_error_upd_inv in H. destruct H as [(X & Y & _)|(_ & H)].
    - subst b' bf'. exists bf. cbn. rewrite upd_length. auto.
    - exists bf'. auto. }
  assert (FW : forall b' bf0, buf_at st b' bf0 ->
            exists bf', nth_error (upd (heap st) b (mkbuf true (b_ext bf) (upd (b_cells bf) k x))) b' = Some bf' /\
                        b_live bf' = b_live bf0 /\ b_ext bf' = b_ext bf0).
  { intros b' bf0 H. destruct (Nat.eq_dec b' b) as [X|X].
    - subst b'. assert (bf0 = bf) by (eapply buf_inj; eassumption). subst bf0.
      eexists. split; [apply nth_error_upd_eq; apply nth_error_Some; unfold buf_at in B; congruence|].
      cbn. auto.
    - exists bf0. rewrite nth_error_upd_neq by exact X. auto. }
  constructor; unfold slot_obj, buf_at in *; cbn [set_heap heap slots exts].
  - intros u o b' S D. destruct (IL u o b' S D) as (bf0 & B0 & L0).
    destruct (FW b' bf0 B0) as (bf' & B' & L' & _). exists bf'. split; [exact B'|congruence].
  - exact ISH.
  - intros u o b' bf' S D B' E. destruct (BK b' bf' B') as (bf0 & B0 & _ & E0 & Len).
    rewrite Len. apply (ISZ u o b' bf0 S D B0). congruence.
  - intros u w ou ow b' bf' N S1 S2 D1 D2 B'. destruct (BK b' bf' B') as (bf0 & B0 & _ & E0 & _).
    rewrite E0. exact (IU u w ou ow b' bf0 N S1 S2 D1 D2 B0).
  - intros u o b' bf' S W D B'. destruct (BK b' bf' B') as (bf0 & B0 & _ & E0 & _).
    rewrite E0. exact (IO u o b' bf0 S W D B0).
  - intros b' bf' B' E. destruct (BK b' bf' B') as (bf0 & B0 & L0 & E0 & _).
    rewrite L0. apply (IE b' bf0 B0). congruence.
  - intros e b' X. destruct (IX e b' X) as (bf0 & B0 & E0).
    destruct (FW b' bf0 B0) as (bf' & B' & _ & E'). exists bf'. split; [exact B'|congruence].
Qed.

(* ------------------------------------------------------------------------- *)
(* A. invariant over all sequences                                           *)
(* ------------------------------------------------------------------------- *)

Lemma init_inv : forall n, Inv (init n).
Proof.
  intros n. unfold init.
  assert (NS : forall v o, ~ slot_obj (mkst [] (repeat None n) []) v o).
  { unfold slot_obj. cbn. intros v o H. apply nth_error_repeat_inv in H. discriminate. }
  constructor.
  - intros v o b S. destruct (NS v o S).
  - intros v o S. destruct (NS v o S).
  - intros v o b bf S. destruct (NS v o S).
  - intros v w ov ow b bf _ S. destruct (NS v ov S).
  - intros v o b bf S. destruct (NS v o S).
  - unfold buf_at. cbn. intros b bf H. destruct b; discriminate.
  - cbn. intros e b H. destruct e; discriminate.
Qed.

Lemma shape_ok_true : forall r c, shape_ok r c = true -> 0 <= r /\ 0 <= c.
Proof.
  unfold shape_ok. intros r c H. apply andb_true_iff in H. destruct H as [A B].
  apply Z.leb_le in A. apply Z.leb_le in B. auto.
Qed.

Lemma rect_count : forall rows, rectangular rows = true ->
  length (concat rows) = Z.to_nat (Z.of_nat (length (hd [] rows)) * Z.of_nat (length rows)).
Proof.
  intros rows H. destruct rows as [|r0 t]; [discriminate|].
  unfold rectangular in H. rewrite (rect_length _ _ H).
  cbn [hd]. rewrite <- Nat2Z.inj_mul, Nat2Z.id. lia.
Qed.

Lemma count_mk : forall r c d w, count (mkobj r c d w) = Z.to_nat (c * r).
Proof.
  reflexivity.
Qed.

Lemma empty_get_neq : forall st v w u o,
  empty_slot st v = MOk u -> slot_obj st w o -> v <> w.
Proof.
  intros st v w u o E S X. subst w. apply empty_slot_ok in E. unfold slot_obj in S. congruence.
Qed.

Lemma step_inv : forall st p st', Inv st -> step st p = MOk st' -> Inv st'.
Proof.
  intros st p st' I H. destruct p; cbn [step] in H.
  - (* ODefault *)
    destruct (empty_slot st v) as [u|] eqn:E; cbn [mbind] in H; [|discriminate].
    inversion H. apply inv_set; cbn; try lia; try assumption. intros b D. discriminate.
  - (* OSized *)
    destruct (empty_slot st v) as [u|] eqn:E; cbn [mbind] in H; [|discriminate].
    destruct (shape_ok r c && (length init =? Z.to_nat (c * r))%nat) eqn:G; [|discriminate].
    inversion H. apply andb_true_iff in G. destruct G as [G1 G2].
    apply shape_ok_true in G1. apply Nat.eqb_eq in G2. apply inv_construct; tauto.
  - (* OFillNew *)
    destruct (empty_slot st v) as [u|] eqn:E; cbn [mbind] in H; [|discriminate].
    destruct (shape_ok r c) eqn:G; [|discriminate].
    inversion H. apply shape_ok_true in G. apply inv_construct; try tauto. apply repeat_length.
  - (* OList *)
    destruct (empty_slot st v) as [u|] eqn:E; cbn [mbind] in H; [|discriminate].
    destruct (rectangular rows) eqn:G; [|discriminate].
    inversion H. apply inv_construct; try lia; try assumption. apply rect_count. exact G.
  - (* OLike *)
    destruct (empty_slot st v) as [u|] eqn:E; cbn [mbind] in H; [|discriminate].
    destruct (get_obj st w) as [o|] eqn:G; cbn [mbind] in H; [|discriminate].
    inversion H. apply get_obj_ok in G. destruct (inv_shape _ I w o G).
    apply inv_construct; try assumption. rewrite repeat_length. reflexivity.
  - (* OExt *)
    unfold alloc in H. cbn in H. inversion H.
    destruct (inv_alloc st true cells I) as [IL ISH ISZ IU IO IE IX].
    constructor; try assumption.
    cbn [exts]. intros e b X. unfold buf_at. cbn [heap].
    apply nth_error_app_inv in X. destruct X as [[_ X]|[_ X]].
    + exact (IX e b X).
    + subst b. eexists. split; [apply nth_error_app_last|reflexivity].
  - (* OWrap *)
    destruct (empty_slot st v) as [u|] eqn:E0; cbn [mbind] in H; [|discriminate].
    destruct (nth_error (exts st) e) as [b|] eqn:X; [|discriminate].
    destruct (shape_ok r c) eqn:G; [|discriminate].
    inversion H. apply shape_ok_true in G.
    apply inv_set; cbn [o_rows o_cols o_data o_owns]; try tauto.
    intros b' D. inversion D. subst b'.
    destruct (inv_exts _ I e b X) as (bf & B & EX).
    exists bf. split; [exact B|]. split; [exact (inv_ext_live _ I b bf B EX)|].
    split; [congruence|]. split; [discriminate|]. intros. exact EX.
  - (* OCopy *)
    destruct (empty_slot st v) as [u|] eqn:E; cbn [mbind] in H; [|discriminate].
    destruct (get_obj st w) as [o|] eqn:G; cbn [mbind] in H; [|discriminate].
    destruct (read st o) as [cs|] eqn:R; cbn [mbind] in H; [|discriminate].
    inversion H. apply get_obj_ok in G. destruct (inv_shape _ I w o G).
    apply inv_construct; try assumption. apply read_length in R. exact R.
  - (* OMove *)
    destruct (empty_slot st v) as [u|] eqn:E; cbn [mbind] in H; [|discriminate].
    destruct (get_obj st w) as [o|] eqn:G; cbn [mbind] in H; [|discriminate].
    inversion H. apply get_obj_ok in G.
    apply inv_move; try assumption. exact (empty_get_neq st v w u o E G).
  - (* OCopyAssign *)
    destruct (get_obj st v) as [ov|] eqn:GV; cbn [mbind] in H; [|discriminate].
    destruct (get_obj st w) as [ow|] eqn:GW; cbn [mbind] in H; [|discriminate].
    destruct (v =? w)%nat eqn:N; [inversion H; subst st'; exact I|].
    apply Nat.eqb_neq in N.
    destruct (release st ov) as [st1|] eqn:RL; cbn [mbind] in H; [|discriminate].
    destruct (read st1 ow) as [cs|] eqn:R; cbn [mbind] in H; [|discriminate].
    unfold alloc in H. cbn in H. inversion H.
    apply get_obj_ok in GV. apply get_obj_ok in GW.
    pose proof (inv_release_clear st v ov st1 I GV RL) as I1.
    destruct (inv_shape _ I w ow GW) as [Hr Hc].
    pose proof (inv_fresh (set_slot st1 v None) v (o_rows ow) (o_cols ow) cs (o_owns ov)
                  I1 Hr Hc (read_length _ _ _ R)) as I2.
    unfold set_slot, set_heap in I2. cbn in I2. rewrite upd_upd in I2. exact I2.
  - (* OMoveAssign *)
    destruct (get_obj st v) as [ov|] eqn:GV; cbn [mbind] in H; [|discriminate].
    destruct (get_obj st w) as [ow|] eqn:GW; cbn [mbind] in H; [|discriminate].
    destruct (v =? w)%nat eqn:N; [inversion H; subst st'; exact I|].
    apply Nat.eqb_neq in N.
    destruct (release st ov) as [st1|] eqn:RL; cbn [mbind] in H; [|discriminate].
    inversion H.
    apply get_obj_ok in GV. apply get_obj_ok in GW.
    pose proof (inv_release_clear st v ov st1 I GV RL) as I1.
    destruct (release_frame st v ov st1 I GV RL) as (SL & _).
    assert (S1 : slot_obj (set_slot st1 v None) w ow).
    { unfold slot_obj. rewrite slot_set_neq by congruence. rewrite SL. exact GW. }
    pose proof (inv_move (set_slot st1 v None) v w ow I1 N S1) as I2.
    rewrite set_slot_twice in I2. exact I2.
  - (* ODestroy *)
    destruct (get_obj st v) as [o|] eqn:G; cbn [mbind] in H; [|discriminate].
    destruct (release st o) as [st1|] eqn:RL; cbn [mbind] in H; [|discriminate].
    inversion H. apply get_obj_ok in G. exact (inv_release_clear st v o st1 I G RL).
  - (* OWrite *)
    destruct (get_obj st v) as [o|] eqn:G; cbn [mbind] in H; [|discriminate].
    destruct (o_data o) as [b|] eqn:D; [|discriminate].
    apply write_buf_ok in H. destruct H as (bf & B & L & _ & ->).
    apply inv_write; assumption.
  - (* OExtWrite *)
    destruct (nth_error (exts st) e) as [b|] eqn:X; [|discriminate].
    apply write_buf_ok in H. destruct H as (bf & B & L & _ & ->).
    apply inv_write; assumption.
Qed.

Lemma run_inv : forall ops st st', Inv st -> run st ops = MOk st' -> Inv st'.
Proof.
  induction ops as [|p t IH]; intros st st' I H; cbn [run] in H.
  - inversion H. subst st'. exact I.
  - destruct (step st p) as [st1|] eqn:S; cbn [mbind] in H; [|discriminate].
    exact (IH st1 st' (step_inv st p st1 I S) H).
Qed.

Lemma reachable_inv : forall n ops st, run (init n) ops = MOk st -> Inv st.
Proof.
  intros n ops st H. exact (run_inv ops (init n) st (init_inv n) H).
Qed.

(* ------------------------------------------------------------------------- *)
(* B. no double free, no free of caller memory, no use after free            *)
(* ------------------------------------------------------------------------- *)

Ltac nce := unfold class_error; let X := fresh "X" in intros [X|[X|X]]; discriminate.

Lemma empty_slot_err : forall st v e, empty_slot st v = MErr e -> ~ class_error e.
Proof.
  unfold empty_slot. intros st v e H.
  destruct (nth_error (slots st) v) as [[o|]|]; try discriminate; inversion H; nce.
Qed.

Lemma get_obj_err : forall st v e, get_obj st v = MErr e -> ~ class_error e.
Proof.
  unfold get_obj. intros st v e H.
  destruct (nth_error (slots st) v) as [[o|]|]; try discriminate; inversion H; nce.
Qed.

Lemma release_ok : forall st v ov, Inv st -> slot_obj st v ov -> exists st1, release st ov = MOk st1.
Proof.
  intros st v ov I S.
  destruct (release_cases st v ov I S) as [[R _]|(b & bf & _ & _ & _ & _ & _ & R)]; eauto.
Qed.

Lemma step_no_class_error : forall st p e, Inv st -> step st p = MErr e -> ~ class_error e.
Proof.
  intros st p err I H. destruct p; cbn [step] in H.
  - destruct (empty_slot st v) as [u|e0] eqn:E; cbn [mbind] in H;
      [discriminate|inversion H; subst; eapply empty_slot_err; eassumption].
  - destruct (empty_slot st v) as [u|e0] eqn:E; cbn [mbind] in H;
      [|inversion H; subst; eapply empty_slot_err; eassumption].
    destruct (shape_ok r c && (length init =? Z.to_nat (c * r))%nat); [discriminate|].
    inversion H. nce.
  - destruct (empty_slot st v) as [u|e0] eqn:E; cbn [mbind] in H;
      [|inversion H; subst; eapply empty_slot_err; eassumption].
    destruct (shape_ok r c); [discriminate|]. inversion H. nce.
  - destruct (empty_slot st v) as [u|e0] eqn:E; cbn [mbind] in H;
      [|inversion H; subst; eapply empty_slot_err; eassumption].
    destruct (rectangular rows); [discriminate|]. inversion H. nce.
  - destruct (empty_slot st v) as [u|e0] eqn:E; cbn [mbind] in H;
      [|inversion H; subst; eapply empty_slot_err; eassumption].
    destruct (get_obj st w) as [o|e0] eqn:G; cbn [mbind] in H;
      [discriminate|inversion H; subst; eapply get_obj_err; eassumption].
  - unfold alloc in H. cbn in H. discriminate.
  - destruct (empty_slot st v) as [u|e0] eqn:E; cbn [mbind] in H;
      [|inversion H; subst; eapply empty_slot_err; eassumption].
    destruct (nth_error (exts st) e) as [b|]; [|inversion H; nce].
    destruct (shape_ok r c); [discriminate|]. inversion H. nce.
  - destruct (empty_slot st v) as [u|e0] eqn:E; cbn [mbind] in H;
      [|inversion H; subst; eapply empty_slot_err; eassumption].
    destruct (get_obj st w) as [o|e0] eqn:G; cbn [mbind] in H;
      [|inversion H; subst; eapply get_obj_err; eassumption].
    apply get_obj_ok in G.
    destruct (read st o) as [cs|e0] eqn:R; cbn [mbind] in H; [discriminate|].
    inversion H. subst e0. eapply read_err_live; [|exact R].
    intros b D. exact (inv_live _ I w o b G D).
  - destruct (empty_slot st v) as [u|e0] eqn:E; cbn [mbind] in H;
      [|inversion H; subst; eapply empty_slot_err; eassumption].
    destruct (get_obj st w) as [o|e0] eqn:G; cbn [mbind] in H;
      [discriminate|inversion H; subst; eapply get_obj_err; eassumption].
  - destruct (get_obj st v) as [ov|e0] eqn:GV; cbn [mbind] in H;
      [|inversion H; subst; eapply get_obj_err; eassumption].
    destruct (get_obj st w) as [ow|e0] eqn:GW; cbn [mbind] in H;
      [|inversion H; subst; eapply get_obj_err; eassumption].
    destruct (v =? w)%nat eqn:N; [discriminate|]. apply Nat.eqb_neq in N.
    apply get_obj_ok in GV. apply get_obj_ok in GW.
    destruct (release_ok st v ov I GV) as [st1 RL]. rewrite RL in H. cbn [mbind] in H.
    destruct (release_frame st v ov st1 I GV RL) as (_ & _ & _ & FR & _).
    destruct (read st1 ow) as [cs|e0] eqn:R; cbn [mbind] in H;
      [unfold alloc in H; cbn in H; discriminate|].
    inversion H. subst e0. eapply read_err_live; [|exact R].
    intros b D. destruct (inv_live _ I w ow b GW D) as (bf & B & L).
    exists bf. split; [|exact L]. unfold buf_at in *.
    rewrite (FR w ow b) by (try assumption; congruence). exact B.
  - destruct (get_obj st v) as [ov|e0] eqn:GV; cbn [mbind] in H;
      [|inversion H; subst; eapply get_obj_err; eassumption].
    destruct (get_obj st w) as [ow|e0] eqn:GW; cbn [mbind] in H;
      [|inversion H; subst; eapply get_obj_err; eassumption].
    destruct (v =? w)%nat eqn:N; [discriminate|].
    apply get_obj_ok in GV.
    destruct (release_ok st v ov I GV) as [st1 RL]. rewrite RL in H. cbn [mbind] in H. discriminate.
  - destruct (get_obj st v) as [o|e0] eqn:G; cbn [mbind] in H;
      [|inversion H; subst; eapply get_obj_err; eassumption].
    apply get_obj_ok in G.
    destruct (release_ok st v o I G) as [st1 RL]. rewrite RL in H. cbn [mbind] in H. discriminate.
  - destruct (get_obj st v) as [o|e0] eqn:G; cbn [mbind] in H;
      [|inversion H; subst; eapply get_obj_err; eassumption].
    apply get_obj_ok in G.
    destruct (o_data o) as [b|] eqn:D; [|inversion H; nce].
    destruct (inv_live _ I v o b G D) as (bf & B & L).
    eapply write_buf_err_live; eassumption.
  - destruct (nth_error (exts st) e) as [b|] eqn:X; [|inversion H; nce].
    destruct (inv_exts _ I e b X) as (bf & B & EX).
    pose proof (inv_ext_live _ I b bf B EX) as L.
    eapply write_buf_err_live; eassumption.
Qed.

Lemma run_no_class_error_gen : forall ops st e, Inv st -> run st ops = MErr e -> ~ class_error e.
Proof.
  induction ops as [|p t IH]; intros st e I H; cbn [run] in H.
  - discriminate.
  - destruct (step st p) as [st1|e1] eqn:S; cbn [mbind] in H.
    + exact (IH st1 e (step_inv st p st1 I S) H).
    + inversion H. subst e1. exact (step_no_class_error st p e I S).
Qed.

Lemma run_no_class_error : forall n ops e, run (init n) ops = MErr e -> ~ class_error e.
Proof.
  intros n ops e H. exact (run_no_class_error_gen ops (init n) e (init_inv n) H).
Qed.

(* ------------------------------------------------------------------------- *)
(* C. caller memory                                                          *)
(* ------------------------------------------------------------------------- *)

(* release, without assuming the invariant *)
Lemma release_shape : forall st o st1,
  release st o = MOk st1 ->
  st1 = st \/
  exists b bf, o_data o = Some b /\ o_owns o = true /\ buf_at st b bf /\
     b_ext bf = false /\ b_live bf = true /\
     st1 = set_heap st (upd (heap st) b (mkbuf false false (b_cells bf))).
Proof.
  unfold release, free, buf_at. intros st o st1 H.
  destruct (o_data o) as [b|]; [|left; congruence].
  destruct (o_owns o); [|left; congruence].
  destruct (nth_error (heap st) b) as [bf|] eqn:B; [|discriminate].
  destruct (b_ext bf) eqn:E; [discriminate|].
  destruct (b_live bf) eqn:L; [|discriminate].
  right. exists b, bf. inversion H. auto 10.
Qed.

(* h' has every buffer of h, with the same cells *)
Definition cells_kept (h h' : list buffer) : Prop :=
  forall b bf, nth_error h b = Some bf ->
  exists bf', nth_error h' b = Some bf' /\ b_cells bf' = b_cells bf.

Lemma cells_kept_refl : forall h, cells_kept h h.
Proof.
  intros h b bf B. exists bf. auto.
Qed.

Lemma cells_kept_trans : forall h1 h2 h3, cells_kept h1 h2 -> cells_kept h2 h3 -> cells_kept h1 h3.
Proof.
  intros h1 h2 h3 A B b bf X. destruct (A b bf X) as (bf2 & X2 & C2).
  destruct (B b bf2 X2) as (bf3 & X3 & C3). exists bf3. split; [exact X3|congruence].
Qed.

Lemma cells_kept_app : forall h x, cells_kept h (h ++ [x]).
Proof.
  intros h x b bf B. exists bf. split; [apply nth_error_app_old; exact B|reflexivity].
Qed.

Lemma cells_kept_release : forall st o st1, release st o = MOk st1 -> cells_kept (heap st) (heap st1).
Proof.
  intros st o st1 R. apply release_shape in R.
  destruct R as [->|(b & bf & _ & _ & B & _ & _ & ->)]; [apply cells_kept_refl|].
  intros b' bf' B'. cbn [set_heap heap]. destruct (Nat.eq_dec b' b) as [X|X].
  - subst b'. unfold buf_at in B. assert (bf' = bf) by congruence. subst bf'.
    eexists. split; [apply nth_error_upd_eq; apply nth_error_Some; congruence|reflexivity].
  - exists bf'. rewrite nth_error_upd_neq by exact X. auto.
Qed.

Lemma release_slots_exts : forall st o st1,
  release st o = MOk st1 -> slots st1 = slots st /\ exts st1 = exts st.
Proof.
  intros st o st1 R. apply release_shape in R.
  destruct R as [->|(b & bf & _ & _ & _ & _ & _ & ->)]; auto.
Qed.

Lemma step_exts : forall st p st', step st p = MOk st' -> exists l, exts st' = exts st ++ l.
Proof.
  intros st p st' H.
  assert (SAME : forall s, exts s = exts st -> exists l, exts s = exts st ++ l).
  { intros s X. exists []. rewrite app_nil_r. exact X. }
  destruct p; cbn [step] in H.
  - destruct (empty_slot st v); cbn [mbind] in H; [|discriminate]. inversion H. apply SAME. reflexivity.
  - destruct (empty_slot st v); cbn [mbind] in H; [|discriminate].
    destruct (shape_ok r c && (length init =? Z.to_nat (c * r))%nat); [|discriminate].
    inversion H. apply SAME. reflexivity.
  - destruct (empty_slot st v); cbn [mbind] in H; [|discriminate].
    destruct (shape_ok r c); [|discriminate]. inversion H. apply SAME. reflexivity.
  - destruct (empty_slot st v); cbn [mbind] in H; [|discriminate].
    destruct (rectangular rows); [|discriminate]. inversion H. apply SAME. reflexivity.
  - destruct (empty_slot st v); cbn [mbind] in H; [|discriminate].
    destruct (get_obj st w); cbn [mbind] in H; [|discriminate]. inversion H. apply SAME. reflexivity.
  - unfold alloc in H. cbn in H. inversion H. cbn [exts]. eexists. reflexivity.
  - destruct (empty_slot st v); cbn [mbind] in H; [|discriminate].
    destruct (nth_error (exts st) e); [|discriminate].
    destruct (shape_ok r c); [|discriminate]. inversion H. apply SAME. reflexivity.
  - destruct (empty_slot st v); cbn [mbind] in H; [|discriminate].
    destruct (get_obj st w); cbn [mbind] in H; [|discriminate].
    destruct (read st r); cbn [mbind] in H; [|discriminate]. inversion H. apply SAME. reflexivity.
  - destruct (empty_slot st v); cbn [mbind] in H; [|discriminate].
    destruct (get_obj st w); cbn [mbind] in H; [|discriminate]. inversion H. apply SAME. reflexivity.
  - destruct (get_obj st v) as [ov|]; cbn [mbind] in H; [|discriminate].
    destruct (get_obj st w) as [ow|]; cbn [mbind] in H; [|discriminate].
    destruct (v =? w)%nat; [injection H as <-; apply SAME; reflexivity|].
    destruct (release st ov) as [st1|] eqn:RL; cbn [mbind] in H; [|discriminate].
    destruct (read st1 ow); cbn [mbind] in H; [|discriminate].
    unfold alloc in H. cbn in H. inversion H. apply SAME. cbn [exts set_slot set_heap].
    apply release_slots_exts in RL. tauto.
  - destruct (get_obj st v) as [ov|]; cbn [mbind] in H; [|discriminate].
    destruct (get_obj st w) as [ow|]; cbn [mbind] in H; [|discriminate].
    destruct (v =? w)%nat; [injection H as <-; apply SAME; reflexivity|].
    destruct (release st ov) as [st1|] eqn:RL; cbn [mbind] in H; [|discriminate].
    inversion H. apply SAME. cbn [exts set_slot].
    apply release_slots_exts in RL. tauto.
  - destruct (get_obj st v) as [o|]; cbn [mbind] in H; [|discriminate].
    destruct (release st o) as [st1|] eqn:RL; cbn [mbind] in H; [|discriminate].
    inversion H. apply SAME. cbn [exts set_slot].
    apply release_slots_exts in RL. tauto.
  - destruct (get_obj st v) as [o|]; cbn [mbind] in H; [|discriminate].
    destruct (o_data o) as [b|]; [|discriminate].
    apply write_buf_ok in H. destruct H as (bf & _ & _ & _ & ->). apply SAME. reflexivity.
  - destruct (nth_error (exts st) e) as [b|]; [|discriminate].
    apply write_buf_ok in H. destruct H as (bf & _ & _ & _ & ->). apply SAME. reflexivity.
Qed.

Lemma exts_persist : forall st p st' e b,
  step st p = MOk st' -> nth_error (exts st) e = Some b -> nth_error (exts st') e = Some b.
Proof.
  intros st p st' e b H X. destruct (step_exts st p st' H) as [l EQ]. rewrite EQ.
  rewrite nth_error_app1; [exact X|]. apply nth_error_Some. congruence.
Qed.

Lemma external_never_freed : forall n ops st e b,
  run (init n) ops = MOk st -> nth_error (exts st) e = Some b ->
  exists bf, buf_at st b bf /\ b_ext bf = true /\ b_live bf = true.
Proof.
  intros n ops st e b H X. pose proof (reachable_inv n ops st H) as I.
  destruct (inv_exts _ I e b X) as (bf & B & EX).
  exists bf. split; [exact B|]. split; [exact EX|]. exact (inv_ext_live _ I b bf B EX).
Qed.

(* no operation other than a cell write changes the cells of any buffer *)
Lemma step_cells_kept : forall st p st',
  step st p = MOk st' ->
  (forall v i j x, p <> OWrite v i j x) -> (forall e' k x, p <> OExtWrite e' k x) ->
  cells_kept (heap st) (heap st').
Proof.
  intros st p st' H NW NE. destruct p; cbn [step] in H.
  - destruct (empty_slot st v); cbn [mbind] in H; [|discriminate]. inversion H. apply cells_kept_refl.
  - destruct (empty_slot st v); cbn [mbind] in H; [|discriminate].
    destruct (shape_ok r c && (length init =? Z.to_nat (c * r))%nat); [|discriminate].
    inversion H. apply cells_kept_app.
  - destruct (empty_slot st v); cbn [mbind] in H; [|discriminate].
    destruct (shape_ok r c); [|discriminate]. inversion H. apply cells_kept_app.
  - destruct (empty_slot st v); cbn [mbind] in H; [|discriminate].
    destruct (rectangular rows); [|discriminate]. inversion H. apply cells_kept_app.
  - destruct (empty_slot st v); cbn [mbind] in H; [|discriminate].
    destruct (get_obj st w); cbn [mbind] in H; [|discriminate]. inversion H. apply cells_kept_app.
  - unfold alloc in H. cbn in H. inversion H. apply cells_kept_app.
  - destruct (empty_slot st v); cbn [mbind] in H; [|discriminate].
    destruct (nth_error (exts st) e); [|discriminate].
    destruct (shape_ok r c); [|discriminate]. inversion H. apply cells_kept_refl.
  - destruct (empty_slot st v); cbn [mbind] in H; [|discriminate].
    destruct (get_obj st w); cbn [mbind] in H; [|discriminate].
    destruct (read st r); cbn [mbind] in H; [|discriminate]. inversion H. apply cells_kept_app.
  - destruct (empty_slot st v); cbn [mbind] in H; [|discriminate].
    destruct (get_obj st w); cbn [mbind] in H; [|discriminate]. inversion H. apply cells_kept_refl.
  - destruct (get_obj st v) as [ov|]; cbn [mbind] in H; [|discriminate].
    destruct (get_obj st w) as [ow|]; cbn [mbind] in H; [|discriminate].
    destruct (v =? w)%nat; [inversion H; apply cells_kept_refl|].
    destruct (release st ov) as [st1|] eqn:RL; cbn [mbind] in H; [|discriminate].
    destruct (read st1 ow); cbn [mbind] in H; [|discriminate].
    unfold alloc in H. cbn in H. inversion H. cbn [heap set_slot set_heap].
    eapply cells_kept_trans; [exact (cells_kept_release _ _ _ RL)|apply cells_kept_app].
  - destruct (get_obj st v) as [ov|]; cbn [mbind] in H; [|discriminate].
    destruct (get_obj st w) as [ow|]; cbn [mbind] in H; [|discriminate].
    destruct (v =? w)%nat; [inversion H; apply cells_kept_refl|].
    destruct (release st ov) as [st1|] eqn:RL; cbn [mbind] in H; [|discriminate].
    inversion H. cbn [heap set_slot]. exact (cells_kept_release _ _ _ RL).
  - destruct (get_obj st v) as [o|]; cbn [mbind] in H; [|discriminate].
    destruct (release st o) as [st1|] eqn:RL; cbn [mbind] in H; [|discriminate].
    inversion H. cbn [heap set_slot]. exact (cells_kept_release _ _ _ RL).
  - exfalso. exact (NW v i j x eq_refl).
  - exfalso. exact (NE e k x eq_refl).
Qed.

Lemma ext_cells_stable : forall st p st' e cs,
  Inv st -> step st p = MOk st' -> ext_cells st e = Some cs ->
  (forall v i j x, p <> OWrite v i j x) -> (forall e' k x, p <> OExtWrite e' k x) ->
  ext_cells st' e = Some cs.
Proof.
  intros st p st' e cs _ H X NW NE. unfold ext_cells in *.
  destruct (nth_error (exts st) e) as [b|] eqn:XE; [|discriminate].
  rewrite (exts_persist st p st' e b H XE).
  destruct (nth_error (heap st) b) as [bf|] eqn:B; [|discriminate].
  destruct (step_cells_kept st p st' H NW NE b bf B) as (bf' & B' & C).
  rewrite B'. congruence.
Qed.

Lemma wrapper_writes_through : forall st v o e b i j x st',
  Inv st -> get_obj st v = MOk o -> nth_error (exts st) e = Some b -> o_data o = Some b ->
  step st (OWrite v i j x) = MOk st' ->
  exists cs, ext_cells st e = Some cs /\
             ext_cells st' e = Some (upd cs (Z.to_nat (i * o_cols o + j)) x) /\
             get_obj st' v = MOk o.
Proof.
  intros st v o e b i j x st' _ G X D H. cbn [step] in H. rewrite G in H. cbn [mbind] in H.
  rewrite D in H. apply write_buf_ok in H. destruct H as (bf & B & L & K & ->).
  exists (b_cells bf). unfold ext_cells, get_obj. cbn [set_heap heap slots exts].
  rewrite X. unfold buf_at in B. rewrite B.
  rewrite nth_error_upd_eq by (apply nth_error_Some; congruence).
  cbn [b_cells]. split; [reflexivity|]. split; [reflexivity|]. exact G.
Qed.

Lemma caller_write_visible : forall st v o e b k x st' cs,
  Inv st -> get_obj st v = MOk o -> nth_error (exts st) e = Some b -> o_data o = Some b ->
  ext_cells st e = Some cs -> (count o <= length cs)%nat ->
  step st (OExtWrite e k x) = MOk st' ->
  get_obj st' v = MOk o /\ read st' o = MOk (firstn (count o) (upd cs k x)).
Proof.
  intros st v o e b k x st' cs _ G X D EC C H. cbn [step] in H. rewrite X in H.
  apply write_buf_ok in H. destruct H as (bf & B & L & K & ->).
  unfold ext_cells in EC. rewrite X in EC. unfold buf_at in B. rewrite B in EC.
  inversion EC. subst cs. rewrite Nat2Z.id.
  split; [exact G|].
  pose proof (read_live_ok (set_heap st (upd (heap st) b (mkbuf true (b_ext bf) (upd (b_cells bf) k x))))
                o b (mkbuf true (b_ext bf) (upd (b_cells bf) k x)) D) as R.
  cbn [b_cells b_live] in R. apply R.
  - unfold buf_at. cbn [set_heap heap]. apply nth_error_upd_eq. apply nth_error_Some. congruence.
  - reflexivity.
  - rewrite upd_length. exact C.
Qed.

(* ------------------------------------------------------------------------- *)
(* D. copies                                                                 *)
(* ------------------------------------------------------------------------- *)

Lemma set_slot_len : forall st v x, length (slots (set_slot st v x)) = length (slots st).
Proof.
  intros. unfold set_slot. cbn. apply upd_length.
Qed.

(* a new object on a fresh buffer holding what was read from ow *)
Lemma fresh_copy_facts : forall s v w ow cs own,
  v <> w -> (v < length (slots s))%nat -> slot_obj s w ow -> read s ow = MOk cs ->
  let ov := mkobj (o_rows ow) (o_cols ow) (Some (length (heap s))) own in
  let s' := set_slot (set_heap s (heap s ++ [mkbuf true false cs])) v (Some ov) in
  get_obj s' v = MOk ov /\ read s' ov = MOk cs /\ get_obj s' w = MOk ow /\ read s' ow = MOk cs /\
  private s' ov /\ o_data ov <> o_data ow.
Proof.
  intros s v w ow cs own N LV SW R ov s'.
  split; [|split; [|split; [|split; [|split]]]].
  - apply get_obj_ok. unfold slot_obj, s'. apply slot_set_eq. exact LV.
  - pose proof (read_live_ok s' ov (length (heap s)) (mkbuf true false cs) eq_refl) as Q.
    cbn [b_cells b_live] in Q.
    assert (C : count ov = length cs).
    { apply read_length in R. rewrite R. reflexivity. }
    rewrite C, firstn_all in Q. apply Q.
    + unfold buf_at, s'. cbn [set_slot set_heap heap]. apply nth_error_app_last.
    + reflexivity.
    + lia.
  - apply get_obj_ok. unfold slot_obj, s'. rewrite slot_set_neq by congruence. exact SW.
  - rewrite <- R. apply read_ext. intros b D.
    destruct (read_ok_buf s ow cs b R D) as (bf & B & _).
    unfold s'. cbn [set_slot set_heap heap]. unfold buf_at in B.
    rewrite B. apply nth_error_app_old. exact B.
  - intros b bf D B. cbn [ov o_data] in D. inversion D. subst b.
    unfold buf_at, s' in B. cbn [set_slot set_heap heap] in B.
    rewrite nth_error_app_last in B. inversion B. reflexivity.
  - cbn [ov o_data]. intro X. symmetry in X.
    destruct (read_ok_buf s ow cs _ R X) as (bf & B & _).
    exact (nth_error_len_none _ _ _ B).
Qed.

Lemma copy_ctor_spec : forall st v w st' ow,
  Inv st -> get_obj st w = MOk ow -> step st (OCopy v w) = MOk st' ->
  exists ov cs, get_obj st' v = MOk ov /\ read st ow = MOk cs /\ read st' ov = MOk cs /\
    get_obj st' w = MOk ow /\ read st' ow = MOk cs /\
    o_rows ov = o_rows ow /\ o_cols ov = o_cols ow /\ o_owns ov = true /\
    private st' ov /\ o_data ov <> None /\ o_data ov <> o_data ow.
Proof.
  intros st v w st' ow I GW H. cbn [step] in H.
  destruct (empty_slot st v) as [u|] eqn:E; cbn [mbind] in H; [|discriminate].
  rewrite GW in H. cbn [mbind] in H.
  destruct (read st ow) as [cs|] eqn:R; cbn [mbind] in H; [|discriminate].
  injection H as <-. apply get_obj_ok in GW.
  pose proof (empty_get_neq st v w u ow E GW) as N.
  pose proof (slot_bound _ _ _ (empty_slot_ok _ _ _ E)) as LV.
  destruct (fresh_copy_facts st v w ow cs true N LV GW R) as (F1 & F2 & F3 & F4 & F5 & F6).
  exists (mkobj (o_rows ow) (o_cols ow) (Some (length (heap st))) true), cs.
  unfold construct, alloc.
  split; [exact F1|]. split; [reflexivity|]. split; [exact F2|]. split; [exact F3|].
  split; [exact F4|]. split; [reflexivity|]. split; [reflexivity|]. split; [reflexivity|].
  split; [exact F5|]. split; [discriminate|exact F6].
Qed.

Lemma copy_assign_spec : forall st v w st' ov0 ow,
  Inv st -> v <> w -> get_obj st v = MOk ov0 -> get_obj st w = MOk ow ->
  step st (OCopyAssign v w) = MOk st' ->
  exists ov cs, get_obj st' v = MOk ov /\ read st ow = MOk cs /\ read st' ov = MOk cs /\
    get_obj st' w = MOk ow /\ read st' ow = MOk cs /\
    o_rows ov = o_rows ow /\ o_cols ov = o_cols ow /\
    private st' ov /\ o_data ov <> None /\ o_data ov <> o_data ow.
Proof.
  intros st v w st' ov0 ow I N GV GW H. cbn [step] in H.
  rewrite GV, GW in H. cbn [mbind] in H.
  apply Nat.eqb_neq in N. rewrite N in H. apply Nat.eqb_neq in N.
  destruct (release st ov0) as [st1|] eqn:RL; cbn [mbind] in H; [|discriminate].
  destruct (read st1 ow) as [cs|] eqn:R; cbn [mbind] in H; [|discriminate].
  unfold alloc in H. injection H as <-.
  apply get_obj_ok in GV. apply get_obj_ok in GW.
  destruct (release_frame st v ov0 st1 I GV RL) as (SL & _ & _ & FR & _).
  assert (LV : (v < length (slots st1))%nat) by (rewrite SL; exact (slot_bound _ _ _ GV)).
  assert (SW : slot_obj st1 w ow) by (unfold slot_obj; rewrite SL; exact GW).
  destruct (fresh_copy_facts st1 v w ow cs (o_owns ov0) N LV SW R) as (F1 & F2 & F3 & F4 & F5 & F6).
  exists (mkobj (o_rows ow) (o_cols ow) (Some (length (heap st1))) (o_owns ov0)), cs.
  split; [exact F1|]. split.
  { rewrite <- R. apply read_ext. intros b D. symmetry. apply (FR w ow b); congruence. }
  split; [exact F2|]. split; [exact F3|].
  split; [exact F4|]. split; [reflexivity|]. split; [reflexivity|].
  split; [exact F5|]. split; [discriminate|exact F6].
Qed.

Lemma self_assign_noop : forall st v st',
  (step st (OCopyAssign v v) = MOk st' -> st' = st) /\
  (step st (OMoveAssign v v) = MOk st' -> st' = st).
Proof.
  intros st v st'. split; intro H; cbn [step] in H;
    destruct (get_obj st v) as [o|]; cbn [mbind] in H; try discriminate;
    rewrite Nat.eqb_refl in H; congruence.
Qed.

(* operations do not touch the slots they do not name *)
Lemma step_slots_frame : forall st p st' u,
  step st p = MOk st' -> ~ In u (names p) -> nth_error (slots st') u = nth_error (slots st) u.
Proof.
  intros st p st' u H NI. destruct p; cbn [step] in H; cbn [names In] in NI.
  - destruct (empty_slot st v); cbn [mbind] in H; [|discriminate]. injection H as <-.
    apply slot_set_neq. intuition congruence.
  - destruct (empty_slot st v); cbn [mbind] in H; [|discriminate].
    destruct (shape_ok r c && (length init =? Z.to_nat (c * r))%nat); [|discriminate].
    injection H as <-. unfold construct, alloc. rewrite slot_set_neq by (intuition congruence). reflexivity.
  - destruct (empty_slot st v); cbn [mbind] in H; [|discriminate].
    destruct (shape_ok r c); [|discriminate].
    injection H as <-. unfold construct, alloc. rewrite slot_set_neq by (intuition congruence). reflexivity.
  - destruct (empty_slot st v); cbn [mbind] in H; [|discriminate].
    destruct (rectangular rows); [|discriminate].
    injection H as <-. unfold construct, alloc. rewrite slot_set_neq by (intuition congruence). reflexivity.
  - destruct (empty_slot st v); cbn [mbind] in H; [|discriminate].
    destruct (get_obj st w); cbn [mbind] in H; [|discriminate].
    injection H as <-. unfold construct, alloc. rewrite slot_set_neq by (intuition congruence). reflexivity.
  - unfold alloc in H. injection H as <-. reflexivity.
  - destruct (empty_slot st v); cbn [mbind] in H; [|discriminate].
    destruct (nth_error (exts st) e); [|discriminate].
    destruct (shape_ok r c); [|discriminate]. injection H as <-. apply slot_set_neq. intuition congruence.
  - destruct (empty_slot st v); cbn [mbind] in H; [|discriminate].
    destruct (get_obj st w); cbn [mbind] in H; [|discriminate].
    destruct (read st r); cbn [mbind] in H; [|discriminate].
    injection H as <-. unfold construct, alloc. rewrite slot_set_neq by (intuition congruence). reflexivity.
  - destruct (empty_slot st v); cbn [mbind] in H; [|discriminate].
    destruct (get_obj st w); cbn [mbind] in H; [|discriminate].
    injection H as <-. rewrite !slot_set_neq by (intuition congruence). reflexivity.
  - destruct (get_obj st v) as [ov|]; cbn [mbind] in H; [|discriminate].
    destruct (get_obj st w) as [ow|]; cbn [mbind] in H; [|discriminate].
    destruct (v =? w)%nat; [injection H as <-; reflexivity|].
    destruct (release st ov) as [st1|] eqn:RL; cbn [mbind] in H; [|discriminate].
    destruct (read st1 ow); cbn [mbind] in H; [|discriminate].
    unfold alloc in H. injection H as <-. rewrite slot_set_neq by (intuition congruence).
    apply release_slots_exts in RL. destruct RL as [SL _]. cbn [set_heap slots]. rewrite SL. reflexivity.
  - destruct (get_obj st v) as [ov|]; cbn [mbind] in H; [|discriminate].
    destruct (get_obj st w) as [ow|]; cbn [mbind] in H; [|discriminate].
    destruct (v =? w)%nat; [injection H as <-; reflexivity|].
    destruct (release st ov) as [st1|] eqn:RL; cbn [mbind] in H; [|discriminate].
    injection H as <-. rewrite !slot_set_neq by (intuition congruence).
    apply release_slots_exts in RL. destruct RL as [SL _]. rewrite SL. reflexivity.
  - destruct (get_obj st v) as [o|]; cbn [mbind] in H; [|discriminate].
    destruct (release st o) as [st1|] eqn:RL; cbn [mbind] in H; [|discriminate].
    injection H as <-. rewrite slot_set_neq by (intuition congruence).
    apply release_slots_exts in RL. destruct RL as [SL _]. rewrite SL. reflexivity.
  - destruct (get_obj st v) as [o|]; cbn [mbind] in H; [|discriminate].
    destruct (o_data o) as [b|]; [|discriminate].
    apply write_buf_ok in H. destruct H as (bf & _ & _ & _ & ->). reflexivity.
  - destruct (nth_error (exts st) e) as [b|]; [|discriminate].
    apply write_buf_ok in H. destruct H as (bf & _ & _ & _ & ->). reflexivity.
Qed.

(* operations do not touch the private buffer of an object they do not name *)
Lemma step_heap_frame : forall st p st' w ow b,
  Inv st -> step st p = MOk st' -> ~ In w (names p) ->
  slot_obj st w ow -> o_data ow = Some b -> private st ow ->
  nth_error (heap st') b = nth_error (heap st) b.
Proof.
  intros st p st' w ow b I H NI SW D PR.
  destruct (inv_live _ I w ow b SW D) as (bf & B & L).
  pose proof (PR b bf D B) as EB.
  assert (LB : (b < length (heap st))%nat) by (apply nth_error_Some; unfold buf_at in B; congruence).
  assert (APP : forall x, nth_error (heap st ++ [x]) b = nth_error (heap st) b).
  { intros x. apply nth_error_app1. exact LB. }
  destruct p; cbn [step] in H; cbn [names In] in NI.
  - destruct (empty_slot st v); cbn [mbind] in H; [|discriminate]. injection H as <-. reflexivity.
  - destruct (empty_slot st v); cbn [mbind] in H; [|discriminate].
    destruct (shape_ok r c && (length init =? Z.to_nat (c * r))%nat); [|discriminate].
    injection H as <-. apply APP.
  - destruct (empty_slot st v); cbn [mbind] in H; [|discriminate].
    destruct (shape_ok r c); [|discriminate]. injection H as <-. apply APP.
  - destruct (empty_slot st v); cbn [mbind] in H; [|discriminate].
    destruct (rectangular rows); [|discriminate]. injection H as <-. apply APP.
  - destruct (empty_slot st v); cbn [mbind] in H; [|discriminate].
    destruct (get_obj st w0); cbn [mbind] in H; [|discriminate]. injection H as <-. apply APP.
  - unfold alloc in H. injection H as <-. apply APP.
  - destruct (empty_slot st v); cbn [mbind] in H; [|discriminate].
    destruct (nth_error (exts st) e); [|discriminate].
    destruct (shape_ok r c); [|discriminate]. injection H as <-. reflexivity.
  - destruct (empty_slot st v); cbn [mbind] in H; [|discriminate].
    destruct (get_obj st w0); cbn [mbind] in H; [|discriminate].
    destruct (read st r); cbn [mbind] in H; [|discriminate]. injection H as <-. apply APP.
  - destruct (empty_slot st v); cbn [mbind] in H; [|discriminate].
    destruct (get_obj st w0); cbn [mbind] in H; [|discriminate]. injection H as <-. reflexivity.
  - destruct (get_obj st v) as [ov|] eqn:GV; cbn [mbind] in H; [|discriminate].
    destruct (get_obj st w0) as [ow0|]; cbn [mbind] in H; [|discriminate].
    destruct (v =? w0)%nat; [injection H as <-; reflexivity|].
    destruct (release st ov) as [st1|] eqn:RL; cbn [mbind] in H; [|discriminate].
    destruct (read st1 ow0); cbn [mbind] in H; [|discriminate].
    unfold alloc in H. injection H as <-. apply get_obj_ok in GV.
    destruct (release_frame st v ov st1 I GV RL) as (_ & _ & LEN & FR & _).
    cbn [set_slot set_heap heap]. rewrite nth_error_app1 by (rewrite LEN; exact LB).
    apply (FR w ow b); try assumption. intuition congruence.
  - destruct (get_obj st v) as [ov|] eqn:GV; cbn [mbind] in H; [|discriminate].
    destruct (get_obj st w0) as [ow0|]; cbn [mbind] in H; [|discriminate].
    destruct (v =? w0)%nat; [injection H as <-; reflexivity|].
    destruct (release st ov) as [st1|] eqn:RL; cbn [mbind] in H; [|discriminate].
    injection H as <-. apply get_obj_ok in GV.
    destruct (release_frame st v ov st1 I GV RL) as (_ & _ & _ & FR & _).
    cbn [set_slot heap]. apply (FR w ow b); try assumption. intuition congruence.
  - destruct (get_obj st v) as [o|] eqn:GV; cbn [mbind] in H; [|discriminate].
    destruct (release st o) as [st1|] eqn:RL; cbn [mbind] in H; [|discriminate].
    injection H as <-. apply get_obj_ok in GV.
    destruct (release_frame st v o st1 I GV RL) as (_ & _ & _ & FR & _).
    cbn [set_slot heap]. apply (FR w ow b); try assumption. intuition congruence.
  - destruct (get_obj st v) as [o|] eqn:GV; cbn [mbind] in H; [|discriminate].
    destruct (o_data o) as [b0|] eqn:D0; [|discriminate].
    apply write_buf_ok in H. destruct H as (bf0 & B0 & _ & _ & ->).
    cbn [set_heap heap]. apply nth_error_upd_neq. intro. subst b0.
    apply get_obj_ok in GV.
    assert (N : w <> v) by (intuition congruence).
    pose proof (inv_unshared _ I w v ow o b bf N SW GV D D0 B). congruence.
  - destruct (nth_error (exts st) e) as [b0|] eqn:X; [|discriminate].
    apply write_buf_ok in H. destruct H as (bf0 & B0 & _ & _ & ->).
    cbn [set_heap heap]. apply nth_error_upd_neq. intro. subst b0.
    destruct (inv_exts _ I e b X) as (bf1 & B1 & E1).
    assert (bf1 = bf) by (eapply buf_inj; eassumption). congruence.
Qed.

Lemma untouched_private_unchanged : forall st p st' w ow,
  Inv st -> step st p = MOk st' -> ~ In w (names p) ->
  get_obj st w = MOk ow -> private st ow ->
  get_obj st' w = MOk ow /\ read st' ow = read st ow /\ private st' ow.
Proof.
  intros st p st' w ow I H NI G PR. apply get_obj_ok in G.
  split; [|split].
  - apply get_obj_ok. unfold slot_obj. rewrite (step_slots_frame st p st' w H NI). exact G.
  - apply read_ext. intros b D. exact (step_heap_frame st p st' w ow b I H NI G D PR).
  - intros b bf D B. unfold buf_at in B.
    rewrite (step_heap_frame st p st' w ow b I H NI G D PR) in B. exact (PR b bf D B).
Qed.

Lemma untouched_private_unchanged_run : forall ops st st' w ow,
  Inv st -> run st ops = MOk st' -> Forall (fun p => ~ In w (names p)) ops ->
  get_obj st w = MOk ow -> private st ow ->
  get_obj st' w = MOk ow /\ read st' ow = read st ow.
Proof.
  induction ops as [|p t IH]; intros st st' w ow I H F G PR; cbn [run] in H.
  - injection H as <-. auto.
  - destruct (step st p) as [st1|] eqn:S; cbn [mbind] in H; [|discriminate].
    inversion F as [|p' t' NI F']. subst p' t'.
    destruct (untouched_private_unchanged st p st1 w ow I S NI G PR) as (G1 & R1 & PR1).
    destruct (IH st1 st' w ow (step_inv st p st1 I S) H F' G1 PR1) as (G2 & R2).
    split; [exact G2|congruence].
Qed.

Lemma private_write_local : forall st v ov i j x st' w ow,
  Inv st -> get_obj st v = MOk ov -> private st ov -> step st (OWrite v i j x) = MOk st' ->
  v <> w -> get_obj st w = MOk ow ->
  get_obj st' w = MOk ow /\ read st' ow = read st ow /\ (forall e, ext_cells st' e = ext_cells st e).
Proof.
  intros st v ov i j x st' w ow I GV PR H N GW. cbn [step] in H.
  rewrite GV in H. cbn [mbind] in H.
  destruct (o_data ov) as [b|] eqn:D; [|discriminate].
  apply write_buf_ok in H. destruct H as (bf & B & L & _ & ->).
  pose proof (PR b bf D B) as EB.
  apply get_obj_ok in GV.
  split; [exact GW|]. apply get_obj_ok in GW. split.
  - apply read_ext. intros b' D'. cbn [set_heap heap]. apply nth_error_upd_neq. intro. subst b'.
    pose proof (inv_unshared _ I v w ov ow b bf N GV GW D D' B). congruence.
  - intros e. unfold ext_cells. cbn [set_heap heap exts].
    destruct (nth_error (exts st) e) as [be|] eqn:X; [|reflexivity].
    rewrite nth_error_upd_neq; [reflexivity|]. intro. subst be.
    destruct (inv_exts _ I e b X) as (bf1 & B1 & E1).
    assert (bf1 = bf) by (eapply buf_inj; eassumption). congruence.
Qed.

(* ------------------------------------------------------------------------- *)
(* E. moves                                                                  *)
(* ------------------------------------------------------------------------- *)

Lemma move_ctor_spec : forall st v w st' ow,
  Inv st -> get_obj st w = MOk ow -> step st (OMove v w) = MOk st' ->
  get_obj st' v = MOk ow /\
  get_obj st' w = MOk (mkobj (o_rows ow) (o_cols ow) None (o_owns ow)) /\
  heap st' = heap st /\ read st' ow = read st ow.
Proof.
  intros st v w st' ow I GW H. cbn [step] in H.
  destruct (empty_slot st v) as [u|] eqn:E; cbn [mbind] in H; [|discriminate].
  rewrite GW in H. cbn [mbind] in H. injection H as <-.
  apply get_obj_ok in GW.
  pose proof (empty_get_neq st v w u ow E GW) as N.
  pose proof (slot_bound _ _ _ (empty_slot_ok _ _ _ E)) as LV.
  pose proof (slot_bound _ _ _ GW) as LW.
  split; [|split; [|split]].
  - apply get_obj_ok. unfold slot_obj. rewrite slot_set_neq by exact N.
    rewrite slot_set_eq by exact LV. rewrite robj_eta. reflexivity.
  - apply get_obj_ok. unfold slot_obj. apply slot_set_eq. rewrite set_slot_len. exact LW.
  - reflexivity.
  - apply read_ext. intros. reflexivity.
Qed.

Lemma move_assign_spec : forall st v w st' ov0 ow,
  Inv st -> v <> w -> get_obj st v = MOk ov0 -> get_obj st w = MOk ow ->
  step st (OMoveAssign v w) = MOk st' ->
  get_obj st' v = MOk ow /\
  get_obj st' w = MOk (mkobj (o_rows ow) (o_cols ow) None (o_owns ow)) /\
  length (heap st') = length (heap st) /\ read st' ow = read st ow /\
  (forall e, ext_cells st' e = ext_cells st e).
Proof.
  intros st v w st' ov0 ow I N GV GW H. cbn [step] in H.
  rewrite GV, GW in H. cbn [mbind] in H.
  apply Nat.eqb_neq in N. rewrite N in H. apply Nat.eqb_neq in N.
  destruct (release st ov0) as [st1|] eqn:RL; cbn [mbind] in H; [|discriminate].
  injection H as <-.
  apply get_obj_ok in GV. apply get_obj_ok in GW.
  destruct (release_frame st v ov0 st1 I GV RL) as (SL & XL & LEN & FR & _ & CE).
  assert (LV : (v < length (slots st1))%nat) by (rewrite SL; exact (slot_bound _ _ _ GV)).
  assert (LW : (w < length (slots st1))%nat) by (rewrite SL; exact (slot_bound _ _ _ GW)).
  split; [|split; [|split; [|split]]].
  - apply get_obj_ok. unfold slot_obj. rewrite slot_set_neq by exact N.
    rewrite slot_set_eq by exact LV. rewrite robj_eta. reflexivity.
  - apply get_obj_ok. unfold slot_obj. apply slot_set_eq. rewrite set_slot_len. exact LW.
  - exact LEN.
  - apply read_ext. intros b D. cbn [set_slot heap]. apply (FR w ow b); congruence.
  - intros e. unfold ext_cells. cbn [set_slot heap exts]. rewrite XL.
    destruct (nth_error (exts st) e) as [be|]; [|reflexivity].
    pose proof (CE be) as Q.
    destruct (nth_error (heap st1) be), (nth_error (heap st) be); cbn in Q; congruence.
Qed.

(* ------------------------------------------------------------------------- *)
(* F. in-domain operations always succeed                                    *)
(* ------------------------------------------------------------------------- *)

Definition empty (st : state) (v : nat) : Prop := nth_error (slots st) v = Some None.
(* o can be read: not a moved-from object with cells, and (wrapper) it fits its array *)
Definition readable (st : state) (o : robj) : Prop :=
  (o_data o = None -> count o = 0%nat) /\
  (forall b bf, o_data o = Some b -> buf_at st b bf -> (count o <= length (b_cells bf))%nat).
Definition op_ok (st : state) (p : op) : Prop :=
  match p with
  | ODefault v => empty st v
  | OSized v r c init => empty st v /\ 0 <= r /\ 0 <= c /\ length init = Z.to_nat (c * r)
  | OFillNew v r c _ => empty st v /\ 0 <= r /\ 0 <= c
  | OList v rows => empty st v /\ rectangular rows = true
  | OLike v w _ => empty st v /\ exists o, get_obj st w = MOk o
  | OExt _ => True
  | OWrap v e r c => empty st v /\ 0 <= r /\ 0 <= c /\ exists b, nth_error (exts st) e = Some b
  | OCopy v w => empty st v /\ exists o, get_obj st w = MOk o /\ readable st o
  | OMove v w => empty st v /\ exists o, get_obj st w = MOk o
  | OCopyAssign v w => exists ov ow, get_obj st v = MOk ov /\ get_obj st w = MOk ow /\ readable st ow
  | OMoveAssign v w => exists ov ow, get_obj st v = MOk ov /\ get_obj st w = MOk ow
  | ODestroy v => exists o, get_obj st v = MOk o
  | OWrite v i j _ => exists o b bf, get_obj st v = MOk o /\ o_data o = Some b /\ buf_at st b bf /\
                        0 <= i * o_cols o + j < Z.of_nat (length (b_cells bf))
  | OExtWrite e k _ => exists cs, ext_cells st e = Some cs /\ (k < length cs)%nat
  end.

Lemma empty_ok : forall st v, empty st v -> empty_slot st v = MOk tt.
Proof.
  unfold empty, empty_slot. intros st v H. rewrite H. reflexivity.
Qed.

Lemma shape_ok_intro : forall r c, 0 <= r -> 0 <= c -> shape_ok r c = true.
Proof.
  unfold shape_ok. intros r c Hr Hc. apply andb_true_iff. split; apply Z.leb_le; assumption.
Qed.

Lemma read_ready : forall st v o,
  Inv st -> slot_obj st v o -> readable st o -> exists cs, read st o = MOk cs.
Proof.
  intros st v o I S [RN RB]. unfold read.
  destruct (o_data o) as [b|] eqn:D.
  - destruct (inv_live _ I v o b S D) as (bf & B & L).
    pose proof (RB b bf eq_refl B) as C.
    unfold buf_at in B. rewrite B, L. apply Nat.leb_le in C. rewrite C. eauto.
  - rewrite (RN eq_refl). cbn. eauto.
Qed.

Lemma step_progress : forall st p, Inv st -> op_ok st p -> exists st', step st p = MOk st'.
Proof.
  intros st p I OK. destruct p; cbn [op_ok] in OK; cbn [step].
  - rewrite (empty_ok _ _ OK). cbn [mbind]. eauto.
  - destruct OK as (E & Hr & Hc & HL). rewrite (empty_ok _ _ E). cbn [mbind].
    rewrite (shape_ok_intro r c Hr Hc). apply Nat.eqb_eq in HL. rewrite HL. cbn [andb]. eauto.
  - destruct OK as (E & Hr & Hc). rewrite (empty_ok _ _ E). cbn [mbind].
    rewrite (shape_ok_intro r c Hr Hc). eauto.
  - destruct OK as (E & R). rewrite (empty_ok _ _ E). cbn [mbind]. rewrite R. eauto.
  - destruct OK as (E & o & G). rewrite (empty_ok _ _ E), G. cbn [mbind]. eauto.
  - unfold alloc. eauto.
  - destruct OK as (E & Hr & Hc & b & X). rewrite (empty_ok _ _ E). cbn [mbind].
    rewrite X, (shape_ok_intro r c Hr Hc). eauto.
  - destruct OK as (E & o & G & RD). rewrite (empty_ok _ _ E), G. cbn [mbind].
    apply get_obj_ok in G. destruct (read_ready st w o I G RD) as [cs R]. rewrite R. cbn [mbind]. eauto.
  - destruct OK as (E & o & G). rewrite (empty_ok _ _ E), G. cbn [mbind]. eauto.
  - destruct OK as (ov & ow & GV & GW & RD). rewrite GV, GW. cbn [mbind].
    destruct (v =? w)%nat eqn:N; [eauto|]. apply Nat.eqb_neq in N.
    apply get_obj_ok in GV. apply get_obj_ok in GW.
    destruct (release_ok st v ov I GV) as [st1 RL]. rewrite RL. cbn [mbind].
    destruct (release_frame st v ov st1 I GV RL) as (_ & _ & _ & FR & _).
    assert (RE : read st1 ow = read st ow).
    { apply read_ext. intros b D. apply (FR w ow b); congruence. }
    destruct (read_ready st w ow I GW RD) as [cs R]. rewrite RE, R. cbn [mbind].
    unfold alloc. eauto.
  - destruct OK as (ov & ow & GV & GW). rewrite GV, GW. cbn [mbind].
    destruct (v =? w)%nat eqn:N; [eauto|].
    apply get_obj_ok in GV.
    destruct (release_ok st v ov I GV) as [st1 RL]. rewrite RL. cbn [mbind]. eauto.
  - destruct OK as (o & G). rewrite G. cbn [mbind]. apply get_obj_ok in G.
    destruct (release_ok st v o I G) as [st1 RL]. rewrite RL. cbn [mbind]. eauto.
  - destruct OK as (o & b & bf & G & D & B & K). rewrite G. cbn [mbind]. rewrite D.
    apply get_obj_ok in G. destruct (inv_live _ I v o b G D) as (bf' & B' & L).
    assert (bf' = bf) by (eapply buf_inj; eassumption). subst bf'.
    eapply write_buf_live; eassumption.
  - destruct OK as (cs & EC & K). unfold ext_cells in EC.
    destruct (nth_error (exts st) e) as [b|] eqn:X; [|discriminate].
    destruct (nth_error (heap st) b) as [bf|] eqn:B; [|discriminate].
    inversion EC. subst cs.
    destruct (inv_exts _ I e b X) as (bf1 & B1 & E1).
    assert (bf1 = bf) by (unfold buf_at in B1; congruence). subst bf1.
    pose proof (inv_ext_live _ I b bf B1 E1) as L.
    eapply write_buf_live; [exact B1|exact L|]. lia.
Qed.

(* ---- G. the invariant in the words of the property: in every reachable
        state the buffer of an owning object is live, was allocated by the
        class, has exactly rows*cols cells and is referenced by no other
        object ---- *)
Lemma owner_buffer_exclusive : forall n ops st v o b,
  run (init n) ops = MOk st -> slot_obj st v o -> o_owns o = true -> o_data o = Some b ->
  exists bf, buf_at st b bf /\ b_live bf = true /\ b_ext bf = false /\
    length (b_cells bf) = count o /\
    forall w ow, w <> v -> slot_obj st w ow -> o_data ow <> Some b.
Proof.
  intros n ops st v o b R S O D. pose proof (reachable_inv _ _ _ R) as I.
  destruct (inv_live _ I v o b S D) as (bf & B & L).
  pose proof (inv_owner_internal _ I v o b bf S O D B) as E.
  exists bf. split; [exact B|]. split; [exact L|]. split; [exact E|].
  split; [exact (inv_size _ I v o b bf S D B E)|].
  intros w ow NE Sw Dw.
  pose proof (inv_unshared _ I v w o ow b bf (fun H => NE (eq_sym H)) S Sw D Dw B) as X.
  congruence.
Qed.

(* every pointer held by any object (owning or not) is to a live buffer *)
Lemma no_dangling_pointer : forall n ops st v o b,
  run (init n) ops = MOk st -> slot_obj st v o -> o_data o = Some b ->
  exists bf, buf_at st b bf /\ b_live bf = true.
Proof.
  intros n ops st v o b R S D. exact (inv_live _ (reachable_inv _ _ _ R) v o b S D).
Qed.

Lemma run_never_class_error : forall n ops e,
  run (init n) ops = MErr e -> e <> DoubleFree /\ e <> FreeOfExternal /\ e <> UseAfterFree.
Proof.
  intros n ops e H. pose proof (run_no_class_error n ops e H) as N. unfold class_error in N.
  repeat split; intros X; apply N; auto.
Qed.
