(* Proofs about the scheduling model (SchedDefs.v). *)
From Coq Require Import ZArith List Bool Lia ZifyBool String.
From Pops Require Import Err DateDefs DateProps SchedDefs.
Import ListNotations.
Local Open Scope Z_scope.
Ltac Zify.zify_post_hook ::= Z.div_mod_to_equations.

(* Domain of C07: n days with n <= 28, n weeks, or n months from a first. *)
Definition unit_ok (u : step_unit) (n : positive) (d : date) : Prop :=
  match u with Day => Zpos n <= 28 | Week => True | Month => dy d = 1 end.

Lemma iter_inc (f : date -> date) (P : date -> Prop) :
  (forall x, valid x -> P x -> valid (f x) /\ dn x < dn (f x) /\ P (f x)) ->
  forall n d, valid d -> P d ->
    valid (Pos.iter f d n) /\ dn d < dn (Pos.iter f d n) /\ P (Pos.iter f d n).
Proof.
  intros Hf n. induction n as [|n IH] using Pos.peano_ind; intros d Hv Hp.
  - cbn. apply Hf; assumption.
  - rewrite Pos.iter_succ. destruct (IH d Hv Hp) as (V & L & Q).
    destruct (Hf _ V Q) as (V' & L' & Q'). split; [assumption|]. split; [lia|assumption].
Qed.

Lemma merged_next_later n d r : valid d -> 1 <= n -> merged_next n d r -> dn d < dn r.
Proof.
  unfold merged_next. intros Hv Hn (Vr & [(A & B & C)|(A & B & C & D)]); [lia|].
  pose proof (dn_in_year d Hv).
  assert (dn r = dby (yr d + 1) + 1) as -> by (unfold dn; rewrite B, C, D; cbn [cum]; lia). lia.
Qed.

Lemma increase_date_spec u n d : valid d -> unit_ok u n d ->
  let r := increase_date u n d in valid r /\ dn d < dn r /\ unit_ok u n r.
Proof.
  intros Hv Hok. destruct u; cbn [increase_date unit_ok] in *.
  - pose proof (inc_days_spec (Zpos n) d Hv ltac:(lia)) as H.
    split; [apply H|]. split; [|assumption]. eapply merged_next_later; eauto; lia.
  - apply (iter_inc inc_week (fun _ => True)); auto.
    intros x Vx _. pose proof (inc_week_spec x Vx) as H. split; [apply H|]. split; [|exact I].
    eapply merged_next_later; eauto; lia.
  - apply (iter_inc inc_month (fun x => dy x = 1)); auto.
    intros x Vx Dx. destruct (inc_month_spec x Vx Dx) as (A & B & C & _).
    repeat split; try assumption; try apply A.
    pose proof (dim_bounds (is_leap (yr x)) (mo x) ltac:(apply Vx)). lia.
Qed.

(* a unit that is not in the documented domain still moves forward; needed
   only for the constructor's first test *)
Lemma increase_date_valid_month n d : valid d ->
  valid (increase_date Month n d) /\ dn d < dn (increase_date Month n d).
Proof.
  intros Hv. cbn [increase_date].
  destruct (iter_inc inc_month (fun _ => True)) with (n := n) (d := d) as (A & B & _); auto.
  intros x Vx _. destruct (inc_month_valid x Vx). auto.
Qed.

(* ---- tiling ---- *)
Fixpoint tiles_from (x : Z) (l : list step) : Prop :=
  match l with
  | [] => True
  | st :: r => dn (s_start st) = x /\ valid (s_start st) /\ valid (s_end st)
               /\ x <= dn (s_end st) /\ tiles_from (dn (s_end st) + 1) r
  end.

(* day number following the last step (x itself when there is none) *)
Fixpoint after (x : Z) (l : list step) : Z :=
  match l with [] => x | st :: r => after (dn (s_end st) + 1) r end.

(* every step ends the day before the successor of its start *)
Definition step_rule (u : step_unit) (n : positive) (st : step) : Prop :=
  unit_ok u n (s_start st) /\
  valid (increase_date u n (s_start st)) /\
  dn (s_end st) + 1 = dn (increase_date u n (s_start st)).

Lemma gen_steps_spec u n end_ : valid end_ ->
  forall fuel d, valid d -> unit_ok u n d ->
    Z.of_nat fuel >= dn end_ - dn d + 2 -> (fuel >= 1)%nat ->
    exists l, gen_steps fuel u n end_ d = Ok l /\
      tiles_from (dn d) l /\
      Forall (fun st => dn (s_start st) <= dn end_ /\ step_rule u n st) l /\
      after (dn d) l > dn end_ /\
      (dn d <= dn end_ -> l <> []) /\
      (forall st, hd_error l = Some st -> s_start st = d).
Proof.
  intros Ve fuel. induction fuel as [|f IH]; intros d Vd Hok Hf H1; [lia|].
  cbn [gen_steps]. pose proof (dle_spec d end_ Vd Ve) as Hle.
  destruct (dle d end_) eqn:E.
  - assert (Hde : dn d <= dn end_) by (apply Hle; reflexivity).
    destruct (increase_date_spec u n d Vd Hok) as (Vr & Lr & Okr).
    set (nd := increase_date u n d) in *.
    destruct (subtract_day_spec nd Vr) as (Vs & Ds).
    destruct (IH nd Vr Okr ltac:(lia) ltac:(lia)) as (rest & -> & T & F & A & NE & HD).
    cbn [bind]. eexists; split; [reflexivity|].
    cbn [tiles_from after s_start s_end]. rewrite Ds. replace (dn nd - 1 + 1) with (dn nd) by lia.
    split; [split; [reflexivity|]; split; [assumption|]; split; [assumption|]; split; [lia|assumption]|].
    split; [constructor; [|assumption]|].
    { cbn [s_start s_end]. split; [lia|].
      unfold step_rule; cbn [s_start s_end]. fold nd. split; [assumption|]. split; [assumption|]. lia. }
    split; [assumption|]. split; [discriminate|].
    cbn [hd_error]. intros st [= <-]. reflexivity.
  - assert (Hde : ~ dn d <= dn end_) by (intros C; apply Hle in C; congruence).
    exists []. cbn [tiles_from after hd_error]. split; [reflexivity|]. split; [exact I|]. split; [constructor|].
    split; [lia|]. split; [lia|]. discriminate.
Qed.

(* ownership of a date *)
Definition owns (d : date) (st : step) : Prop := dn (s_start st) <= dn d <= dn (s_end st).

Lemma in_step_spec d st : valid d -> valid (s_start st) -> valid (s_end st) ->
  (in_step d st = true <-> owns d st).
Proof.
  intros Vd Vs Ve. unfold in_step, owns.
  pose proof (dge_spec d (s_start st) Vd Vs). pose proof (dle_spec d (s_end st) Vd Ve).
  destruct (dge d (s_start st)), (dle d (s_end st)); cbn [andb]; intuition (try discriminate; try lia).
Qed.

Lemma tiles_after_ge x l : tiles_from x l -> x <= after x l.
Proof.
  revert x; induction l as [|st r IH]; intros x; cbn [tiles_from after]; [lia|].
  intros (A & B & C & D & E). specialize (IH _ E). lia.
Qed.

(* Lookup: a date inside [x, after) is found in the unique step that owns it;
   a date outside is rejected with invalid_argument. *)
Lemma find_step_spec d : valid d -> forall l x i, tiles_from x l ->
  (x <= dn d < after x l ->
     exists k st, find_step d l i = Ok (i + Z.of_nat k) /\ nth_error l k = Some st /\ owns d st /\
       forall k' st', nth_error l k' = Some st' -> owns d st' -> k' = k) /\
  (dn d < x \/ after x l <= dn d -> find_step d l i = Err InvalidArgument /\
     forall st, In st l -> ~ owns d st).
Proof.
  intros Vd l. induction l as [|st r IH]; intros x i T; cbn [tiles_from after find_step] in *.
  - split; [lia|]. intros _. split; [reflexivity|]. intros st [].
  - destruct T as (A & Vs & Ve & D & T).
    pose proof (in_step_spec d st Vd Vs Ve) as Hin. unfold owns in Hin.
    pose proof (tiles_after_ge _ _ T) as Hge.
    destruct (IH (dn (s_end st) + 1) (i + 1) T) as (IH1 & IH2).
    split.
    + intros Hr. destruct (in_step d st) eqn:E.
      * exists 0%nat, st. cbn [nth_error]. replace (i + Z.of_nat 0) with i by lia.
        assert (O : owns d st) by (apply Hin; reflexivity).
        repeat split; try apply O.
        intros k' st' Hn O'. destruct k' as [|k']; [reflexivity|]. cbn [nth_error] in Hn.
        exfalso. unfold owns in O.
        assert (dn d < dn (s_end st) + 1 \/ after (dn (s_end st) + 1) r <= dn d) as Hout by lia.
        destruct (IH2 Hout) as (_ & NO). apply (NO st'); [eapply nth_error_In; eauto|assumption].
      * assert (~ (dn (s_start st) <= dn d <= dn (s_end st))) as NO by (intros C; apply Hin in C; congruence).
        destruct IH1 as (k & st' & F & N & O & U); [lia|].
        exists (S k), st'. cbn [nth_error]. rewrite F. split; [f_equal; lia|]. repeat split; try apply O; try assumption.
        intros k' st'' Hn O'. destruct k' as [|k']; cbn [nth_error] in Hn.
        -- injection Hn as <-. contradiction.
        -- f_equal. eapply U; eauto.
    + intros Hout. destruct (in_step d st) eqn:E.
      * assert (O : dn (s_start st) <= dn d <= dn (s_end st)) by (apply Hin; reflexivity). lia.
      * destruct IH2 as (F & NO); [lia|]. split; [assumption|].
        intros st' [<-|I'] O'; [|eapply NO; eauto]. apply Hin in O'. congruence.
Qed.

(* ---- the constructor ---- *)
Definition month_unit (u : step_unit) : bool := match u with Month => true | _ => false end.

(* The documented reasons for rejecting a scheduler. *)
Definition rejected (start end_ : date) (u : step_unit) (nz : Z) : Prop :=
  dn start >= dn end_ \/ nz <= 0 \/
  (exists n, nz = Zpos n /\ dn (increase_date u n start) > dn end_) \/
  (u = Month /\ dy start <> 1).

Lemma increase_valid_any u n d : valid d -> (u = Day -> Zpos n <= 28) ->
  valid (increase_date u n d) /\ dn d < dn (increase_date u n d).
Proof.
  intros Vd Hn. destruct u.
  - destruct (increase_date_spec Day n d Vd) as (A & B & _); [cbn; auto|auto].
  - destruct (increase_date_spec Week n d Vd) as (A & B & _); [cbn; auto|auto].
  - apply increase_date_valid_month; assumption.
Qed.

Lemma sched_fuel_ok start end_ : Z.of_nat (sched_fuel start end_) >= dn end_ - dn start + 2.
Proof. unfold sched_fuel. lia. Qed.

Theorem mk_scheduler_spec start end_ u nz :
  valid start -> valid end_ -> (u = Day -> nz <= 28) ->
  (rejected start end_ u nz /\ mk_scheduler start end_ u nz = Err InvalidArgument)
  \/
  (~ rejected start end_ u nz /\
   exists n l, nz = Zpos n /\ mk_scheduler start end_ u nz = Ok (mksched u n l) /\
     tiles_from (dn start) l /\
     Forall (fun st => dn (s_start st) <= dn end_ /\ step_rule u n st) l /\
     after (dn start) l > dn end_ /\ l <> [] /\
     (forall st, hd_error l = Some st -> s_start st = start)).
Proof.
  intros Vs Ve Hn. unfold mk_scheduler, rejected.
  pose proof (dge_spec start end_ Vs Ve) as Hge.
  destruct (dge start end_) eqn:E1.
  { left. split; [left; apply Hge; reflexivity|reflexivity]. }
  assert (L1 : dn start < dn end_).
  { destruct (Z_lt_ge_dec (dn start) (dn end_)); [assumption|]. apply Hge in g. congruence. }
  destruct nz as [|n|n]; try (left; split; [right; left; lia|reflexivity]).
  destruct (increase_valid_any u n start Vs ltac:(intros; subst; apply Hn; reflexivity)) as (Vi & Li).
  pose proof (dgt_spec (increase_date u n start) end_ Vi Ve) as Hgt.
  destruct (dgt (increase_date u n start) end_) eqn:E2.
  { left. split; [|reflexivity]. right; right; left. exists n. split; [reflexivity|]. apply Hgt; reflexivity. }
  assert (L2 : ~ dn (increase_date u n start) > dn end_) by (intros C; apply Hgt in C; congruence).
  destruct (month_unit u && negb (dy start =? 1)) eqn:E3.
  { left. split; [|destruct u; cbn [month_unit andb] in E3; try discriminate; cbn; rewrite E3; reflexivity].
    right; right; right. destruct u; cbn [month_unit andb] in E3; try discriminate. split; [reflexivity|lia]. }
  right. split.
  { intros [C|[C|[(n' & [= <-] & C)|(-> & C)]]]; try lia. cbn [month_unit andb] in E3. lia. }
  assert (Hok : unit_ok u n start).
  { destruct u; cbn [unit_ok month_unit andb] in *; [apply Hn; reflexivity|exact I|lia]. }
  destruct (gen_steps_spec u n end_ Ve (sched_fuel start end_) start Vs Hok (sched_fuel_ok _ _))
    as (l & G & T & F & A & NE & HD).
  { unfold sched_fuel. lia. }
  exists n, l. split; [reflexivity|].
  replace (match u with Month => true | _ => false end) with (month_unit u) by reflexivity.
  rewrite E3, G. cbn [bind]. repeat (split; [first [reflexivity|assumption]|]).
  split; [apply NE; lia|assumption].
Qed.

(* Date lookup over a constructed scheduler. *)
Theorem lookup_spec start u n l d :
  tiles_from (dn start) l -> valid d ->
  let sc := mksched u n l in
  (dn start <= dn d < after (dn start) l ->
     exists k st, schedule_action_date sc d = Ok (Z.of_nat k) /\ nth_error l k = Some st /\ owns d st /\
       forall k' st', nth_error l k' = Some st' -> owns d st' -> k' = k) /\
  (dn d < dn start \/ after (dn start) l <= dn d ->
     schedule_action_date sc d = Err InvalidArgument /\ forall st, In st l -> ~ owns d st).
Proof.
  intros T Vd sc. unfold schedule_action_date, sc; cbn [sc_steps].
  destruct (find_step_spec d Vd l (dn start) 0 T) as (A & B). split; [|exact B].
  intros H. destruct (A H) as (k & st & F & R). exists k, st. rewrite F. split; [reflexivity|exact R].
Qed.

(* ---- day steps and one-week steps respect calendar years ---- *)
Definition step_days (u : step_unit) (n : positive) : option Z :=
  match u with
  | Day => Some (Zpos n)
  | Week => if (n =? 1)%positive then Some 7 else None
  | Month => None
  end.

Definition leap1 (y : Z) : Z := if is_leap y then 1 else 0.

(* [d] does not lie in the last N days of its year (N+1 in leap years) *)
Definition not_in_tail (N : Z) (d : date) : Prop :=
  dn d <= dby (yr d + 1) - (N + leap1 (yr d)).

Lemma year_of_dn a y : valid a -> dby y < dn a <= dby (y + 1) -> yr a = y.
Proof.
  intros Va H. pose proof (dn_in_year a Va) as Ha.
  destruct (Z.lt_trichotomy (yr a) y) as [C|[C|C]]; [|assumption|].
  - pose proof (dby_mono _ _ C). lia.
  - pose proof (dby_mono _ _ C). lia.
Qed.

Lemma step_rule_merged u n N st : step_days u n = Some N -> (u = Day -> N <= 28) ->
  valid (s_start st) -> step_rule u n st ->
  merged_next N (s_start st) (increase_date u n (s_start st)) /\ 1 <= N <= 28.
Proof.
  intros HN Hb Vs (Hok & Vn & Hd). destruct u; cbn [step_days] in HN.
  - injection HN as <-. cbn [increase_date]. specialize (Hb eq_refl).
    split; [apply inc_days_spec; [assumption|lia]|lia].
  - destruct (Pos.eqb_spec n 1) as [->|]; [|discriminate]. injection HN as <-.
    cbn [increase_date Pos.iter]. split; [apply inc_week_spec; assumption|lia].
  - discriminate.
Qed.

Lemma merged_next_not_in_tail N d r : valid d -> 1 <= N <= 28 -> merged_next N d r -> not_in_tail N r.
Proof.
  unfold merged_next, not_in_tail, leap1. intros Vd HN (Vr & [(A & B & C)|(A & B & C & D)]).
  - rewrite C, B. lia.
  - assert (dn r = dby (yr d + 1) + 1) as -> by (unfold dn; rewrite B, C, D; cbn [cum]; lia).
    rewrite B. pose proof (dby_succ (yr d + 1)) as Hy. pose proof (year_len_pos (yr d + 1)).
    destruct (is_leap (yr d + 1)); lia.
Qed.

(* what one step looks like, given the merge rule for the next start *)
Lemma step_in_year N st nxt : 1 <= N <= 28 ->
  valid (s_start st) -> valid (s_end st) -> dn (s_start st) <= dn (s_end st) ->
  merged_next N (s_start st) nxt -> dn (s_end st) + 1 = dn nxt ->
  let y := yr (s_start st) in
  let len := dn (s_end st) - dn (s_start st) + 1 in
  yr (s_end st) = y /\
  (len = N \/
   (mo (s_end st) = 12 /\ dy (s_end st) = 31 /\ len <= 2 * N + leap1 y /\
    (not_in_tail N (s_start st) -> N < len))).
Proof.
  intros HN Vs Ve Hle (Vn & M) Hd. cbv zeta. unfold not_in_tail, leap1.
  pose proof (dn_in_year _ Vs) as Hs. cbv zeta in M.
  destruct (is_leap (yr (s_start st))) eqn:L;
  (destruct M as [(A & B & C)|(A & B & C & D)];
  [ split; [|left; lia]; apply year_of_dn; [assumption|]; lia | ]).
  all: assert (Hn : dn nxt = dby (yr (s_start st) + 1) + 1) by (unfold dn; rewrite B, C, D; cbn [cum]; lia).
  all: assert (Hy : yr (s_end st) = yr (s_start st)) by (apply year_of_dn; [assumption|lia]).
  all: split; [assumption|]; right.
  (* the end is the last day of the year *)
  all: assert (He : dn (s_end st) = dby (yr (s_end st) + 1)) by (rewrite Hy; lia).
  all: assert (mo (s_end st) = 12 /\ dy (s_end st) = 31) as [Hm Hdd] by
    (clear - Ve He; destruct (s_end st) as [ye me de]; unfold valid, dn in *; cbn [yr mo dy] in *;
     destruct Ve as [Hm Hdd]; pose proof (dby_succ ye) as Hye; unfold year_len in Hye;
     months Hm; destruct (is_leap ye); cbn [dim cum] in *; lia).
  all: repeat split; try assumption; lia.
Qed.

Theorem day_week_steps_in_year start end_ u n N l :
  valid start -> step_days u n = Some N -> (u = Day -> N <= 28) ->
  tiles_from (dn start) l ->
  Forall (fun st => dn (s_start st) <= dn end_ /\ step_rule u n st) l ->
  (* every step lies in one year and is N days long, or ends on 31 December
     having absorbed a tail shorter than N days (N+1 in leap years) *)
  Forall (fun st =>
     let y := yr (s_start st) in
     let len := dn (s_end st) - dn (s_start st) + 1 in
     yr (s_end st) = y /\
     (len = N \/ (mo (s_end st) = 12 /\ dy (s_end st) = 31 /\ len <= 2 * N + leap1 y /\
                  (not_in_tail N (s_start st) -> N < len)))) l /\
  (* only the very first step can begin inside the tail of a year *)
  (forall k st, nth_error l (S k) = Some st -> not_in_tail N (s_start st)) /\
  (* each covered year starts a step on 1 January *)
  (forall y, yr start < y -> dby y + 1 < after (dn start) l ->
     exists st, In st l /\ s_start st = mkdate y 1 1).
Proof.
  intros Vstart HN Hb T F.
  assert (P1 : Forall (fun st =>
     let y := yr (s_start st) in
     let len := dn (s_end st) - dn (s_start st) + 1 in
     yr (s_end st) = y /\
     (len = N \/ (mo (s_end st) = 12 /\ dy (s_end st) = 31 /\ len <= 2 * N + leap1 y /\
                  (not_in_tail N (s_start st) -> N < len)))) l).
  { clear Vstart. revert T F. generalize (dn start). induction l as [|st r IH]; intros x T F; [constructor|].
    cbn [tiles_from] in T. destruct T as (A & Vs & Ve & D & T). inversion F as [|? ? (Hle & R) F']; subst.
    constructor; [|eapply IH; eauto].
    destruct (step_rule_merged u n N st HN Hb Vs R) as (M & HN').
    destruct R as (_ & _ & Hd). eapply step_in_year; eauto. }
  split; [exact P1|]. split.
  - (* non-first steps start at a merged_next result *)
    clear P1 Vstart. revert T F. generalize (dn start). induction l as [|st r IH]; intros x T F k st' Hk; [destruct k; discriminate|].
    cbn [tiles_from] in T. destruct T as (A & Vs & Ve & D & T). inversion F as [|? ? (Hle & R) F']; subst.
    destruct k as [|k].
    + cbn [nth_error] in Hk. destruct r as [|st2 r2]; [discriminate|]. injection Hk as <-.
      cbn [tiles_from] in T. destruct T as (A2 & Vs2 & _).
      destruct (step_rule_merged u n N st HN Hb Vs R) as (M & HN').
      destruct R as (_ & Vn & Hd).
      assert (s_start st2 = increase_date u n (s_start st)) as -> by (apply dn_inj; [assumption|assumption|lia]).
      apply (merged_next_not_in_tail N (s_start st)); assumption.
    + cbn [nth_error] in Hk. eapply IH; eauto.
  - intros y Hy Ha.
    assert (Vj : valid (mkdate y 1 1)) by (unfold valid; cbn; lia).
    assert (Dj : dn (mkdate y 1 1) = dby y + 1) by (unfold dn; cbn; lia).
    pose proof (dn_in_year start Vstart) as Hs. pose proof (dby_mono _ _ Hy).
    destruct (find_step_spec (mkdate y 1 1) Vj l (dn start) 0 T) as (A & _).
    destruct A as (k & st & _ & Hn & O & _); [lia|].
    exists st. split; [eapply nth_error_In; eauto|].
    assert (Hin : In st l) by (eapply nth_error_In; eauto).
    rewrite Forall_forall in P1. destruct (P1 st Hin) as (Hyr & _).
    assert (Vs : valid (s_start st) /\ valid (s_end st)).
    { clear - T Hin. revert T Hin. generalize (dn start). induction l as [|a r IH]; intros x T []; cbn [tiles_from] in T.
      - subst. tauto. - eapply IH; [apply T|assumption]. }
    destruct Vs as (Vs & Ve). unfold owns in O. rewrite Dj in O.
    pose proof (dn_in_year _ Vs) as H1. pose proof (dn_in_year _ Ve) as H2. rewrite Hyr in H2.
    assert (Hys : yr (s_start st) = y).
    { destruct (Z.lt_trichotomy (yr (s_start st)) y) as [C|[C|C]]; [|assumption|].
      - pose proof (dby_mono _ _ C). lia.
      - pose proof (dby_mono _ _ C). pose proof (dby_succ y). pose proof (year_len_pos y). lia. }
    apply dn_inj; [assumption|assumption|]. rewrite Dj. rewrite Hys in H1. lia.
Qed.

(* ======================= C08: schedules ======================= *)

(* well-formed step: valid dates in order *)
Definition wf_step (st : step) : Prop :=
  valid (s_start st) /\ valid (s_end st) /\ dn (s_start st) <= dn (s_end st).

Lemma tiles_wf x l : tiles_from x l -> Forall wf_step l.
Proof.
  revert x; induction l as [|st r IH]; intros x T; [constructor|].
  cbn [tiles_from] in T. destruct T as (A & Vs & Ve & D & T).
  constructor; [unfold wf_step; repeat split; try apply Vs; try apply Ve; lia|eapply IH; eauto].
Qed.

Lemma valid_md y m d : 1 <= m <= 12 -> 1 <= d <= 28 -> valid (mkdate y m d).
Proof. intros Hm Hd. unfold valid; cbn [yr mo dy]. pose proof (dim_bounds (is_leap y) m Hm). lia. Qed.

Lemma year_between a b c : valid a -> valid b -> valid c -> dn a <= dn b <= dn c -> yr a <= yr b <= yr c.
Proof.
  intros Va Vb Vc H. split.
  - destruct (Z_le_gt_dec (yr a) (yr b)); [assumption|]. pose proof (dn_lt_years b a Vb Va ltac:(lia)). lia.
  - destruct (Z_le_gt_dec (yr b) (yr c)); [assumption|]. pose proof (dn_lt_years c b Vc Vb ltac:(lia)). lia.
Qed.

(* a step shorter than a year spans at most two calendar years *)
Lemma short_step_years st : wf_step st -> dn (s_end st) - dn (s_start st) + 1 <= 365 ->
  yr (s_start st) <= yr (s_end st) <= yr (s_start st) + 1.
Proof.
  intros (Vs & Ve & Hle) Hlen.
  pose proof (year_between _ _ _ Vs Vs Ve ltac:(lia)) as [_ H1]. split; [assumption|].
  destruct (Z_le_gt_dec (yr (s_end st)) (yr (s_start st) + 1)); [assumption|].
  pose proof (dn_in_year _ Vs). pose proof (dn_in_year _ Ve).
  pose proof (dby_mono (yr (s_start st) + 1) (yr (s_end st)) ltac:(lia)).
  pose proof (dby_succ (yr (s_start st) + 1)). pose proof (year_len_pos (yr (s_start st) + 1)). lia.
Qed.

Definition yearly_fires (month day : Z) (st : step) : bool :=
  in_step (mkdate (yr (s_start st)) month day) st
  || in_step (mkdate (yr (s_end st)) month day) st.

(* a yearly action fires in a step exactly when the step contains its date *)
Lemma yearly_iff month day st : wf_step st -> 1 <= month <= 12 -> 1 <= day <= 28 ->
  dn (s_end st) - dn (s_start st) + 1 <= 365 ->
  (yearly_fires month day st = true <-> exists y, owns (mkdate y month day) st).
Proof.
  intros W Hm Hd Hlen. pose proof W as (Vs & Ve & Hle). unfold yearly_fires.
  pose proof (in_step_spec _ st (valid_md (yr (s_start st)) _ _ Hm Hd) Vs Ve) as H1.
  pose proof (in_step_spec _ st (valid_md (yr (s_end st)) _ _ Hm Hd) Vs Ve) as H2.
  split.
  - intros H. apply orb_true_iff in H as [H|H]; eexists; [apply H1|apply H2]; exact H.
  - intros (y & O). pose proof (valid_md y _ _ Hm Hd) as Vy.
    pose proof (short_step_years st W Hlen) as Hy.
    unfold owns in O.
    pose proof (year_between _ _ _ Vs Vy Ve O) as Hb. cbn [yr] in Hb.
    apply orb_true_iff.
    assert (y = yr (s_start st) \/ y = yr (s_end st)) as [->| ->] by lia;
      [left; apply H1|right; apply H2]; exact O.
Qed.

Definition eoy_fires (st : step) : bool :=
  negb (yr (s_start st) =? yr (s_end st)) || is_last_day_of_year (s_end st).

Lemma valid_dec31 y : valid (mkdate y 12 31) /\ dn (mkdate y 12 31) = dby (y + 1).
Proof.
  split; [unfold valid; cbn; lia|]. unfold dn; cbn [yr mo dy].
  pose proof (dby_succ y) as H. unfold year_len in H. destruct (is_leap y); cbn [cum]; lia.
Qed.

(* the end-of-year schedule fires exactly in steps containing a 31 December *)
Lemma end_of_year_iff st : wf_step st ->
  (eoy_fires st = true <-> exists y, owns (mkdate y 12 31) st).
Proof.
  intros (Vs & Ve & Hle). unfold eoy_fires, is_last_day_of_year, owns. split.
  - intros H. apply orb_true_iff in H as [H|H].
    + exists (yr (s_start st)). destruct (valid_dec31 (yr (s_start st))) as (V & ->).
      pose proof (dn_in_year _ Vs). pose proof (dn_in_year _ Ve).
      pose proof (year_between _ _ _ Vs Vs Ve ltac:(lia)) as [_ Hy].
      assert (yr (s_start st) < yr (s_end st)) as Hlt by lia.
      pose proof (dby_mono _ _ Hlt). lia.
    + exists (yr (s_end st)). assert (s_end st = mkdate (yr (s_end st)) 12 31) as <-; [|lia].
      destruct (s_end st) as [y m d]; cbn [yr mo dy] in *. f_equal; lia.
  - intros (y & O). destruct (valid_dec31 y) as (V & D). rewrite D in O.
    apply orb_true_iff.
    destruct (Z.eqb_spec (yr (s_start st)) (yr (s_end st))) as [E|E]; [right|left; reflexivity].
    pose proof (dn_in_year _ Vs) as Hs. pose proof (dn_in_year _ Ve) as He. rewrite <- E in He.
    assert (yr (s_start st) = y) as Hy.
    { destruct (Z.lt_trichotomy (yr (s_start st)) y) as [C|[C|C]]; [|assumption|].
      - pose proof (dby_mono _ _ C). pose proof (dby_succ y). pose proof (year_len_pos y). lia.
      - pose proof (dby_mono _ _ C). lia. }
    rewrite Hy in *.
    assert (dn (s_end st) = dby (y + 1)) as Hend by lia.
    assert (s_end st = mkdate y 12 31) as ->; [|cbn; reflexivity].
    apply dn_inj; [assumption|assumption|]. rewrite D. lia.
Qed.

Definition monthly_fires (st : step) : bool :=
  negb (mo (s_start st) =? mo (s_end st)) || negb (yr (s_start st) =? yr (s_end st))
  || is_last_day_of_month (s_end st).

Definition month_end (e : date) : Prop := valid e /\ dy e = dim (is_leap (yr e)) (mo e).

(* the monthly schedule fires exactly in steps containing the last day of a month *)
Lemma monthly_iff st : wf_step st ->
  (monthly_fires st = true <-> exists e, month_end e /\ owns e st).
Proof.
  intros (Vs & Ve & Hle). unfold monthly_fires, is_last_day_of_month, owns, month_end.
  set (a := s_start st) in *. set (b := s_end st) in *. split.
  - intros H.
    destruct (Z.eqb_spec (yr a) (yr b)) as [Ey|Ey].
    + destruct (Z.eqb_spec (mo a) (mo b)) as [Em|Em].
      * cbn [negb orb] in H. exists b. split; [split; [assumption|lia]|lia].
      * (* same year, different month: the last day of the start month *)
        exists (mkdate (yr a) (mo a) (dim (is_leap (yr a)) (mo a))).
        assert (Va : valid (mkdate (yr a) (mo a) (dim (is_leap (yr a)) (mo a)))).
        { unfold valid; cbn [yr mo dy]. destruct Vs as [Hm Hd]. pose proof (dim_bounds (is_leap (yr a)) (mo a) Hm). lia. }
        split; [split; [assumption|reflexivity]|].
        pose proof (dn_lt_same_year a b Vs Ve Ey) as Hab.
        assert (mo a < mo b) as Hlt.
        { destruct (Z.lt_trichotomy (mo a) (mo b)) as [C|[C|C]]; [assumption|contradiction|].
          pose proof (dn_lt_same_year b a Ve Vs (eq_sym Ey)) as Hba. lia. }
        split.
        -- destruct a as [y m d]; unfold valid, dn in *; cbn [yr mo dy] in *. lia.
        -- pose proof (dn_lt_same_year (mkdate (yr a) (mo a) (dim (is_leap (yr a)) (mo a))) b Va Ve Ey) as Hx.
           cbn [yr mo dy] in Hx. lia.
    + (* different years: 31 December of the start year *)
      exists (mkdate (yr a) 12 31). destruct (valid_dec31 (yr a)) as (V & D).
      split; [split; [assumption|reflexivity]|]. rewrite D.
      pose proof (dn_in_year _ Vs). pose proof (dn_in_year _ Ve).
      pose proof (year_between _ _ _ Vs Vs Ve ltac:(lia)) as [_ Hy].
      assert (yr a < yr b) as Hlt by lia. pose proof (dby_mono _ _ Hlt). lia.
  - intros (e & (Vx & Hlast) & O).
    destruct (Z.eqb_spec (yr a) (yr b)) as [Ey|Ey]; [|cbn [negb orb]; rewrite orb_true_r; reflexivity].
    destruct (Z.eqb_spec (mo a) (mo b)) as [Em|Em]; [|reflexivity].
    cbn [negb orb].
    pose proof (year_between _ _ _ Vs Vx Ve O) as Hy.
    assert (yr e = yr a) as Eya by lia. assert (yr e = yr b) as Eyb by lia.
    pose proof (dn_lt_same_year e a Vx Vs Eya) as H1.
    pose proof (dn_lt_same_year b e Ve Vx (eq_sym Eyb)) as H2.
    pose proof (dn_lt_same_year a e Vs Vx (eq_sym Eya)) as H3.
    pose proof (dn_lt_same_year e b Vx Ve Eyb) as H4.
    assert (mo e = mo b) as Emo by lia.
    destruct Ve as [Hmb Hdb]. rewrite <- Eyb, <- Emo in *.
    assert (dy b = dy e \/ dy b <> dy e) as [Hd|Hd] by lia; lia.
Qed.

(* ---- schedules as lists ---- *)
Lemma schedule_yearly_nth sc month day i st :
  nth_error (sc_steps sc) i = Some st ->
  nth_error (schedule_action_yearly sc month day) i = Some (yearly_fires month day st).
Proof. intros H. unfold schedule_action_yearly. rewrite nth_error_map, H. reflexivity. Qed.

Lemma schedule_eoy_nth sc i st :
  nth_error (sc_steps sc) i = Some st ->
  nth_error (schedule_action_end_of_year sc) i = Some (eoy_fires st).
Proof. intros H. unfold schedule_action_end_of_year. rewrite nth_error_map, H. reflexivity. Qed.

Lemma schedule_monthly_nth sc i st :
  nth_error (sc_steps sc) i = Some st ->
  nth_error (schedule_action_monthly sc) i = Some (monthly_fires st).
Proof. intros H. unfold schedule_action_monthly. rewrite nth_error_map, H. reflexivity. Qed.

Lemma schedule_spread_nth sc s e i st :
  nth_error (sc_steps sc) i = Some st ->
  nth_error (schedule_spread sc s e) i =
    Some (month_in_season s e (mo (s_start st)) || month_in_season s e (mo (s_end st))).
Proof. intros H. unfold schedule_spread. rewrite nth_error_map, H. reflexivity. Qed.

Lemma month_in_season_iff s e m : month_in_season s e m = true <-> s <= m <= e.
Proof. unfold month_in_season. lia. Qed.

Lemma schedule_nsteps_nth sc n i : (i < List.length (sc_steps sc))%nat ->
  nth_error (schedule_action_nsteps sc n) i = Some ((Z.of_nat i + 1) mod n =? 0).
Proof.
  intros H. unfold schedule_action_nsteps. rewrite nth_error_map.
  rewrite (nth_error_nth' _ 0%nat) by (rewrite seq_length; assumption).
  rewrite seq_nth by assumption. reflexivity.
Qed.

Lemma schedule_nsteps_length sc n :
  List.length (schedule_action_nsteps sc n) = List.length (sc_steps sc).
Proof. unfold schedule_action_nsteps. rewrite map_length, seq_length. reflexivity. Qed.

(* every-n-steps: fires exactly at the n-th, 2n-th, ... step *)
Lemma nsteps_iff sc n i : 0 < n -> (i < List.length (sc_steps sc))%nat ->
  exists b, nth_error (schedule_action_nsteps sc n) i = Some b /\
            (b = true <-> exists k, Z.of_nat i + 1 = k * n).
Proof.
  intros Hn Hi. eexists; split; [apply schedule_nsteps_nth; assumption|].
  split.
  - intros H. exists ((Z.of_nat i + 1) / n). apply Z.eqb_eq in H.
    pose proof (Z.div_mod (Z.of_nat i + 1) n ltac:(lia)). lia.
  - intros (k & Hk). apply Z.eqb_eq. rewrite Hk. apply Z.mod_mul. lia.
Qed.

Lemma last_true_nth n i : (i < n)%nat ->
  nth_error (last_true n) i = Some (Nat.eqb i (n - 1)).
Proof.
  revert i; induction n as [|n IH]; intros i Hi; [lia|].
  destruct n as [|n].
  - destruct i; [reflexivity|lia].
  - change (last_true (S (S n))) with (false :: last_true (S n)).
    destruct i as [|i]; [reflexivity|]. cbn [nth_error]. rewrite IH by lia.
    f_equal. cbn [Nat.sub]. replace (S n - 0)%nat with (S n) by lia.
    destruct (Nat.eqb_spec i (S n - 1)); destruct (Nat.eqb_spec (S i) (S n)); lia || reflexivity.
Qed.

Lemma last_true_length n : List.length (last_true n) = n.
Proof.
  induction n as [|n IH]; [reflexivity|]. destruct n as [|n]; [reflexivity|].
  change (last_true (S (S n))) with (false :: last_true (S n)). cbn [List.length]. rewrite IH. reflexivity.
Qed.

(* final step: fires exactly in the last step *)
Lemma final_step_iff sc i : (i < List.length (sc_steps sc))%nat ->
  nth_error (schedule_action_end_of_simulation sc) i = Some (Nat.eqb i (List.length (sc_steps sc) - 1)).
Proof. intros H. unfold schedule_action_end_of_simulation. apply last_true_nth; assumption. Qed.

(* ---- action indices ---- *)
Fixpoint count_true (l : list bool) : Z :=
  match l with [] => 0 | b :: r => (if b then 1 else 0) + count_true r end.

Lemma action_indices_nth l : forall idx i, (i < List.length l)%nat ->
  nth_error (action_indices l idx) i = Some (idx + count_true (firstn i l)).
Proof.
  induction l as [|b r IH]; intros idx i Hi; cbn [List.length] in Hi; [lia|].
  cbn [action_indices]. destruct i as [|i]; cbn [nth_error firstn count_true]; [f_equal; lia|].
  rewrite IH by lia. f_equal. destruct b; lia.
Qed.

Lemma count_occ_count_true l : Z.of_nat (count_occ bool_dec l true) = count_true l.
Proof.
  induction l as [|b r IH]; [reflexivity|]. cbn [count_occ count_true].
  destruct b; destruct (bool_dec _ _); try congruence; lia.
Qed.

(* The k-th firing step maps to action index k-1, and the number of firings
   is the number of inputs the caller must supply. *)
Lemma action_index l i : (i < List.length l)%nat ->
  simulation_step_to_action_step l (Z.of_nat i) = Ok (count_true (firstn i l)) /\
  (nth_error l i = Some true -> count_true (firstn (S i) l) = count_true (firstn i l) + 1) /\
  get_number_of_scheduled_actions l = count_true l /\
  count_true (firstn i l) <= count_true l.
Proof.
  intros Hi. unfold simulation_step_to_action_step, get_number_of_scheduled_actions.
  split; [|split; [|split]].
  - destruct (Z.ltb_spec (Z.of_nat i) 0); [lia|]. rewrite Nat2Z.id, action_indices_nth by assumption. reflexivity.
  - clear Hi. revert i. induction l as [|b r IH]; intros i H; [destruct i; discriminate|].
    destruct i as [|i]; cbn [nth_error] in H.
    + injection H as ->. cbn. lia.
    + specialize (IH i H). cbn [firstn count_true] in *. lia.
  - apply count_occ_count_true.
  - clear Hi. revert i. induction l as [|b r IH]; intros i; [destruct i; cbn; lia|].
    destruct i as [|i]; cbn [firstn count_true]; [destruct b; specialize (IH 0%nat); cbn in IH; lia|].
    specialize (IH i). lia.
Qed.

Lemma action_index_out_of_range l i : (i >= List.length l)%nat ->
  simulation_step_to_action_step l (Z.of_nat i) = Err OutOfRange.
Proof.
  intros Hi. unfold simulation_step_to_action_step.
  destruct (Z.ltb_spec (Z.of_nat i) 0); [reflexivity|]. rewrite Nat2Z.id.
  assert (forall z, List.length (action_indices l z) = List.length l) as Hl.
  { clear. induction l as [|b r IH]; intros z; [reflexivity|]. cbn [action_indices List.length]. rewrite IH. reflexivity. }
  specialize (Hl 0).
  destruct (nth_error (action_indices l 0) i) eqn:E; [|reflexivity].
  assert (i < List.length (action_indices l 0))%nat by (apply nth_error_Some; congruence). lia.
Qed.

(* ---- weather index ---- *)
Lemma weather_loop_nth size : 0 < size -> forall k wi i, 0 <= wi < size -> (i < k)%nat ->
  nth_error (weather_loop k wi size) i = Some ((wi + Z.of_nat i) mod size).
Proof.
  intros Hs k. induction k as [|k IH]; intros wi i Hw Hi; [lia|].
  cbn [weather_loop]. destruct i as [|i]; cbn [nth_error].
  - f_equal. rewrite Z.add_0_r. symmetry. apply Z.mod_small. lia.
  - destruct (Z.eqb_spec (wi + 1) size) as [E|E].
    + rewrite IH by lia. f_equal.
      replace (wi + Z.of_nat (S i)) with (Z.of_nat i + 1 * size) by lia.
      rewrite Z.mod_add by lia. reflexivity.
    + rewrite IH by lia. f_equal. f_equal. lia.
Qed.

Lemma weather_index sc size i : 0 < size -> (i < List.length (sc_steps sc))%nat ->
  exists l, schedule_weather sc size = Ok l /\ nth_error l i = Some (Z.of_nat i mod size).
Proof.
  intros Hs Hi. unfold schedule_weather. destruct (Z.leb_spec size 0); [lia|].
  eexists; split; [reflexivity|]. rewrite weather_loop_nth by lia. reflexivity.
Qed.

Lemma weather_size_rejected sc size : size <= 0 -> schedule_weather sc size = Err InvalidArgument.
Proof. intros H. unfold schedule_weather. destruct (Z.leb_spec size 0); [reflexivity|lia]. Qed.

(* ---- frequency names ---- *)
Local Open Scope string_scope.

Definition known_frequencies : list string :=
  [""; "final_step"; "year"; "yearly"; "month"; "monthly"; "week"; "weekly";
   "day"; "daily"; "every_n_steps"; "every_step"; "time_step"].

Lemma from_string_names sc n :
  schedule_from_string sc "" n = Ok (map (fun _ => false) (sc_steps sc)) /\
  schedule_from_string sc "final_step" n = Ok (schedule_action_end_of_simulation sc) /\
  schedule_from_string sc "year" n = Ok (schedule_action_end_of_year sc) /\
  schedule_from_string sc "yearly" n = Ok (schedule_action_end_of_year sc) /\
  schedule_from_string sc "month" n = Ok (schedule_action_monthly sc) /\
  schedule_from_string sc "monthly" n = Ok (schedule_action_monthly sc) /\
  schedule_from_string sc "every_step" n = Ok (schedule_action_nsteps sc 1) /\
  schedule_from_string sc "time_step" n = Ok (schedule_action_nsteps sc 1) /\
  (n > 0 -> schedule_from_string sc "every_n_steps" n = Ok (schedule_action_nsteps sc n))%Z /\
  (n <= 0 -> schedule_from_string sc "every_n_steps" n = Err InvalidArgument)%Z.
Proof.
  repeat split; try reflexivity.
  - intros H. unfold schedule_from_string. cbn [seqb String.eqb Ascii.eqb Bool.eqb orb andb].
    destruct (Z.gtb_spec n 0); [reflexivity|lia].
  - intros H. unfold schedule_from_string. cbn [seqb String.eqb Ascii.eqb Bool.eqb orb andb].
    destruct (Z.gtb_spec n 0); [lia|reflexivity].
Qed.

(* weekly and daily output need a compatible simulation step *)
Lemma from_string_week_day sc n :
  let u := sc_unit sc in let k := Zpos (sc_n sc) in
  (forall f, f = "week" \/ f = "weekly" ->
     schedule_from_string sc f n =
       match u with
       | Day => if (k =? 1)%Z then Ok (schedule_action_nsteps sc 7)
                else if (k =? 7)%Z then Ok (schedule_action_nsteps sc 1)
                else Err InvalidArgument
       | Week => if (k =? 1)%Z then Ok (schedule_action_nsteps sc 1) else Err InvalidArgument
       | Month => Err InvalidArgument
       end) /\
  (forall f, f = "day" \/ f = "daily" ->
     schedule_from_string sc f n =
       match u with
       | Day => if (k =? 1)%Z then Ok (schedule_action_nsteps sc 1) else Err InvalidArgument
       | _ => Err InvalidArgument
       end).
Proof. cbv zeta. split; intros f [-> | ->]; reflexivity. Qed.

Lemma from_string_unknown sc f n : ~ In f known_frequencies ->
  schedule_from_string sc f n = Err InvalidArgument.
Proof.
  intros H. unfold known_frequencies in H. cbn [In] in H.
  unfold schedule_from_string, seqb.
  repeat match goal with
         | |- context [String.eqb f ?s] =>
           destruct (String.eqb_spec f s) as [->|?]; [exfalso; apply H; tauto|]
         end.
  reflexivity.
Qed.
Local Close Scope string_scope.

(* ---- Config::create_schedules wiring ---- *)
Lemma create_schedules_wiring c s : create_schedules c = Ok s ->
  mk_scheduler (c_start c) (c_end c) (c_unit c) (c_num_units c) = Ok (sch_scheduler s) /\
  let sc := sch_scheduler s in
  sch_spread s = schedule_spread sc (c_season_start c) (c_season_end c) /\
  schedule_from_string sc (c_output_freq c) (c_output_n c) = Ok (sch_output s) /\
  (c_use_mortality c = true ->
     schedule_from_string sc (c_mortality_freq c) (c_mortality_n c) = Ok (sch_mortality s)) /\
  (c_use_lethal c = true -> sch_lethal s = schedule_action_yearly sc (c_lethal_month c) 1) /\
  (c_use_survival c = true ->
     sch_survival s = schedule_action_yearly sc (c_survival_month c) (c_survival_day c)) /\
  (c_use_spreadrates c = true ->
     schedule_from_string sc (c_spreadrate_freq c) (c_spreadrate_n c) = Ok (sch_spread_rate s)) /\
  (c_use_quarantine c = true ->
     schedule_from_string sc (c_quarantine_freq c) (c_quarantine_n c) = Ok (sch_quarantine s)) /\
  (c_weather_size c <> 0 -> schedule_weather sc (c_weather_size c) = Ok (sch_weather s)).
Proof.
  unfold create_schedules, opt_sched.
  destruct (mk_scheduler _ _ _ _) as [sc|e]; [|discriminate]. cbn [bind].
  destruct (schedule_from_string sc (c_output_freq c) _) as [o|e] eqn:Eo; [|discriminate]. cbn [bind].
  destruct (if c_use_mortality c then _ else _) as [m|e] eqn:Em; [|discriminate]. cbn [bind].
  destruct (if c_use_spreadrates c then _ else _) as [r|e] eqn:Er; [|discriminate]. cbn [bind].
  destruct (if c_use_quarantine c then _ else _) as [q|e] eqn:Eq; [|discriminate]. cbn [bind].
  destruct (if c_weather_size c =? 0 then _ else _) as [w|e] eqn:Ew; [|discriminate]. cbn [bind].
  intros [= <-]. cbn [sch_scheduler sch_spread sch_output sch_mortality sch_lethal sch_survival
                      sch_spread_rate sch_quarantine sch_weather].
  split; [reflexivity|]. cbv zeta.
  split; [reflexivity|]. split; [assumption|].
  split; [intros U; rewrite U in Em; assumption|].
  split; [intros U; rewrite U; reflexivity|].
  split; [intros U; rewrite U; reflexivity|].
  split; [intros U; rewrite U in Er; assumption|].
  split; [intros U; rewrite U in Eq; assumption|].
  intros U. destruct (Z.eqb_spec (c_weather_size c) 0); [contradiction|assumption].
Qed.

Lemma spread_iff sc s e i st :
  nth_error (sc_steps sc) i = Some st ->
  exists b, nth_error (schedule_spread sc s e) i = Some b /\
    (b = true <-> (s <= mo (s_start st) <= e \/ s <= mo (s_end st) <= e)).
Proof.
  intros Hn. eexists; split; [apply schedule_spread_nth; eassumption|].
  rewrite orb_true_iff, !month_in_season_iff. tauto.
Qed.
