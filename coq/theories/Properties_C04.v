(* C04  Every disperser comes from infection and is accounted for exactly once.
   Statements only; proofs in PestProps.v.  All statements hold for every tape
   of random outcomes (every kernel result, inside or far outside the study
   area, every establishment outcome), any number of hosts, with and without
   soils.  S_total = susceptible hosts of all hosts and cells, estab_total = sum
   of the established-dispersers raster.  Tie: bin/check C04. *)
From Coq Require Import ZArith QArith List.
From Pops Require Import Err Rounding CellDefs LandDefs MonadProps LandProps LandProps2 PestProps.
Import ListNotations.
Local Open Scope Z_scope.

(* a cell without infected hosts produces no dispersers (and consumes no random outcome) *)
Theorem C04_no_infection_no_dispersers : forall g i w t d w' t',
  multi_dispersers_from g i w t = Ok (d, w', t') ->
  (forall k c, cell_at w k i = Some c -> cI c <= 0) ->
  d = 0 /\ w' = w /\ t' = t.
Proof. exact gen_zero. Qed.
Print Assumptions C04_no_infection_no_dispersers.

(* with stochastic generation off a host produces
   round(reproductive rate x weather x competency x infected) *)
Theorem C04_deterministic_generation : forall g k i w t d w' t',
  host_dispersers_from g k i w t = Ok (d, w', t') ->
  w' = w /\
  exists c hc wc comp row col lam,
    cell_at w k i = Some c /\ nth_error (g_hosts g) k = Some hc /\ 0 < cI c /\
    t = EvGenerate row col lam d :: t' /\
    (g_weather g = true -> weather_at i w t' = Ok (wc, w, t')) /\
    competency_at g k i w t' = Ok (comp, w, t') /\
    (h_disp_stoch hc = false -> d = qlround (gen_lambda g hc wc comp * zq (cI c))) /\
    (h_disp_stoch hc = true -> 0 <= d).
Proof. exact gen_det. Qed.
Print Assumptions C04_deterministic_generation.

(* with soils the produced dispersers split exactly into a soil share and a dispersing share *)
Theorem C04_soil_split : forall g i w t u w' t' d t1 s,
  multi_dispersers_from g i w t = Ok (d, w, t1) -> 0 < d -> w_soil w = Some s ->
  generate_body g i w t = Ok (u, w', t') ->
  let to_soil := qlround (g_soil_pct g * zq d) in
  nth_error (w_disp w') i = Some (d - to_soil) /\ nth_error (w_estab w') i = Some 0 /\
  to_soil + (d - to_soil) = d /\
  ((0 <= g_soil_pct g <= 1)%Q -> 0 <= to_soil <= d /\ 0 <= d - to_soil <= d).
Proof. exact soil_split. Qed.
Print Assumptions C04_soil_split.

(* soil-held dispersers age out after as many steps as there are soil cohorts *)
Theorem C04_soil_ages_out : forall cs, Nat.iter (length cs) soil_next cs = repeat 0 (length cs).
Proof. exact soil_ages_out. Qed.
Print Assumptions C04_soil_ages_out.

Theorem C04_soil_unit_tracked : forall cs cs' j, add_last cs 1 = Ok cs' -> (j < length cs)%nat ->
  nth (length cs - 1 - j) (Nat.iter j soil_next cs') 0 = nth (length cs - 1) cs 0 + 1 /\
  nth (length cs - 1 - j) (Nat.iter j soil_next cs') 0 =
    nth (length cs - 1 - j) (Nat.iter j soil_next cs) 0 + 1.
Proof. exact soil_unit_tracked. Qed.
Print Assumptions C04_soil_unit_tracked.

(* Each dispersing individual uses exactly one kernel result and then either
   leaves the study area (recorded with its real coordinates), is lost (nothing
   changes), or establishes: exactly one susceptible host of one host of the
   target cell is reclassified and the established count of the ORIGIN cell
   grows by one; the three cases exclude each other. *)
Theorem C04_each_disperser_once : forall g ri ci i w t u w' t',
  one_disperser g ri ci i w t = Ok (u, w', t') ->
  exists row col t1, t = EvKernel ri ci row col :: t1 /\
    w_disp w' = w_disp w /\ w_soil w' = w_soil w /\
    (od_outside g row col i w w' \/ od_lost g row col i w w' \/ od_established g row col i w w').
Proof. exact one_disperser_cases. Qed.
Print Assumptions C04_each_disperser_once.

Theorem C04_cases_exclusive : forall g row col i w w',
  ~ (od_outside g row col i w w' /\ od_lost g row col i w w') /\
  ~ (od_outside g row col i w w' /\ od_established g row col i w w') /\
  ~ (od_lost g row col i w w' /\ od_established g row col i w w').
Proof. exact one_disperser_exclusive. Qed.
Print Assumptions C04_cases_exclusive.

(* the susceptible hosts consumed by spread equal the established dispersers
   (without soils; with soils the difference is what established from the soil) *)
Theorem C04_balance : forall g w t u w' t',
  act_disperse g w t = Ok (u, w', t') -> w_soil w = None ->
  S_total w' + estab_total w' = S_total w + estab_total w /\ w_disp w' = w_disp w.
Proof. exact disperse_balance. Qed.
Print Assumptions C04_balance.

Theorem C04_balance_with_soil : forall g w t u w' t',
  act_disperse g w t = Ok (u, w', t') ->
  S_total w' + estab_total w' <= S_total w + estab_total w /\ w_disp w' = w_disp w.
Proof. exact disperse_balance_soil. Qed.
Print Assumptions C04_balance_with_soil.

(* established dispersers never exceed the dispersers generated in their cell *)
Theorem C04_established_le_dispersers : forall g w t u w' t' h0,
  act_disperse g w t = Ok (u, w', t') ->
  nth_error (w_hosts w) 0 = Some h0 -> NoDup (hp_suitable h0) -> rnonneg (w_disp w) ->
  (forall rc i, In rc (hp_suitable h0) -> idx_of g (fst rc) (snd rc) = Ok i -> nth i (w_estab w) 0 = 0) ->
  forall rc i, In rc (hp_suitable h0) -> idx_of g (fst rc) (snd rc) = Ok i ->
    nth i (w_estab w') 0 <= nth i (w_disp w) 0.
Proof. exact established_le_dispersers. Qed.
Print Assumptions C04_established_le_dispersers.

(* dispersers, established dispersers and soil cohorts stay non-negative (C02's clause for the pest and soil pools) *)
Theorem C04_pest_pool_nonneg : forall g, (0 <= g_soil_pct g <= 1)%Q ->
  hoare PP (act_generate g) (fun _ w => PP w) /\ hoare PP (act_disperse g) (fun _ w => PP w) /\
  hoare PP (act_generate g ;; act_disperse g) (fun _ w => PP w).
Proof. exact pest_pool_nonneg. Qed.
Print Assumptions C04_pest_pool_nonneg.

Example C04_nonvacuous : Nat.iter 3 soil_next [2; 0; 5] = [0; 0; 0] /\
  qlround ((1 # 4) * zq 10) = 3 /\ 3 + (10 - 3) = 10.
Proof. vm_compute. repeat split. Qed.
Print Assumptions C04_nonvacuous.
