(* Proofs about Model::run_step's sequencing (ModelDefs.v): which actions run
   in a step, in which order, with which input index; run_step is the
   sequential composition of those actions; inputs of disabled features do not
   matter. *)
From Coq Require Import ZArith QArith List Bool Lia Sorting.Sorted.
From Pops Require Import Err Rounding CellDefs LandDefs SchedDefs SchedProps ModelDefs.
Import ListNotations.
Local Open Scope Z_scope.

(* does the schedule mark [step]? (false outside the schedule) *)
Definition marks (sched : list bool) (step : Z) : bool :=
  (0 <=? step) && nth (Z.to_nat step) sched false.
Definition fires (use : bool) (sched : list bool) (step : Z) : bool := use && marks sched step.
(* number of firings strictly before [step] = index of the input to use *)
Definition firings_before (sched : list bool) (step : Z) : Z :=
  count_true (firstn (Z.to_nat step) sched).

Definition build (parts : list (bool * (action_tag * Z))) : list (action_tag * Z) :=
  concat (map (fun p : bool * (action_tag * Z) => if fst p then [snd p] else []) parts).

(* The documented list: every action with the condition under which it runs
   and the index it uses, in the documented order. *)
Definition documented (m : model_cfg) (hs : bool) (step : Z) : list (bool * (action_tag * Z)) :=
  let spread := marks (m_spread_schedule m) step in
  [ (hs, (ASoil, step));
    (fires (m_use_lethal m) (m_lethal_schedule m) step,
       (ALethal, firings_before (m_lethal_schedule m) step));
    (fires (m_use_survival m) (m_survival_schedule m) step,
       (ASurvival, firings_before (m_survival_schedule m) step));
    (spread, (AGenerate, step)); (spread, (ADisperse, step)); (spread, (AStepForward, step));
    (spread && m_use_overpop m, (AOverpop, step));
    (spread && m_use_movements m, (AMovement, step));
    (m_use_treatments m, (ATreatments, step));
    (fires (m_use_mortality m) (m_mortality_schedule m) step, (AMortality, step));
    (fires (m_use_spreadrates m) (m_spread_rate_schedule m) step,
       (ASpreadRate, firings_before (m_spread_rate_schedule m) step));
    (fires (m_use_quarantine m) (m_quarantine_schedule m) step,
       (AQuarantine, firings_before (m_quarantine_schedule m) step)) ].

Lemma sched_at_marks l step b : sched_at l step = Ok b ->
  b = marks l step /\ 0 <= step /\ (Z.to_nat step < length l)%nat.
Proof.
  unfold sched_at, marks. destruct (Z.ltb_spec step 0) as [H|H]; [discriminate|].
  destruct (nth_error l (Z.to_nat step)) as [x|] eqn:E; [|discriminate]. intros [= <-].
  assert (Hl : (Z.to_nat step < length l)%nat) by (apply nth_error_Some; congruence).
  destruct (Z.leb_spec 0 step); [|lia]. cbn [andb].
  split; [|split; assumption]. symmetry. apply nth_error_nth with (d := false) in E. exact E.
Qed.

Lemma guarded_fires use l step b : guarded use l step = Ok b -> b = fires use l step.
Proof.
  unfold guarded, fires. destruct use; cbn [andb]; [|intros [= <-]; reflexivity].
  intros H. apply sched_at_marks in H. tauto.
Qed.

Lemma index_part use l step (tag : action_tag) (p : list (action_tag * Z)) :
  (do b <- guarded use l step;
   if b then do k <- simulation_step_to_action_step l step; Ok [(tag, k)] else Ok []) = Ok p ->
  p = (if fires use l step then [(tag, firings_before l step)] else []).
Proof.
  destruct (guarded use l step) as [b|e] eqn:G; [|discriminate]. cbn [bind].
  pose proof (guarded_fires _ _ _ _ G) as ->. destruct (fires use l step) eqn:F.
  - unfold guarded in G. unfold fires in F. destruct use; [|discriminate]. cbn [andb] in F.
    apply sched_at_marks in G. destruct G as (_ & H0 & Hl).
    pose proof (action_index l (Z.to_nat step) Hl) as (A & _). rewrite Z2Nat.id in A by assumption.
    rewrite A. cbn [bind]. intros [= <-]. reflexivity.
  - intros [= <-]. reflexivity.
Qed.

(* The plan is exactly the documented list filtered by its conditions. *)
Theorem plan_is_documented m hs step p : plan m hs step = Ok p -> p = build (documented m hs step).
Proof.
  unfold plan. intros H.
  destruct (guarded (m_use_lethal m) (m_lethal_schedule m) step) as [b1|] eqn:G1; [|discriminate]. cbn [bind] in H.
  destruct (if b1 then _ else _) as [p1|] eqn:E1; [|discriminate]. cbn [bind] in H.
  destruct (guarded (m_use_survival m) (m_survival_schedule m) step) as [b2|] eqn:G2; [|discriminate]. cbn [bind] in H.
  destruct (if b2 then _ else _) as [p2|] eqn:E2; [|discriminate]. cbn [bind] in H.
  destruct (sched_at (m_spread_schedule m) step) as [sp|] eqn:G3; [|discriminate]. cbn [bind] in H.
  destruct (guarded (m_use_mortality m) (m_mortality_schedule m) step) as [b4|] eqn:G4; [|discriminate]. cbn [bind] in H.
  destruct (guarded (m_use_spreadrates m) (m_spread_rate_schedule m) step) as [b5|] eqn:G5; [|discriminate]. cbn [bind] in H.
  destruct (if b5 then _ else _) as [p5|] eqn:E5; [|discriminate]. cbn [bind] in H.
  destruct (guarded (m_use_quarantine m) (m_quarantine_schedule m) step) as [b6|] eqn:G6; [|discriminate]. cbn [bind] in H.
  destruct (if b6 then _ else _) as [p6|] eqn:E6; [|discriminate]. cbn [bind] in H.
  injection H as <-.
  assert (P1 : p1 = if fires (m_use_lethal m) (m_lethal_schedule m) step
                    then [(ALethal, firings_before (m_lethal_schedule m) step)] else []).
  { apply (index_part _ _ _ ALethal). rewrite G1. cbn [bind]. exact E1. }
  assert (P2 : p2 = if fires (m_use_survival m) (m_survival_schedule m) step
                    then [(ASurvival, firings_before (m_survival_schedule m) step)] else []).
  { apply (index_part _ _ _ ASurvival). rewrite G2. cbn [bind]. exact E2. }
  assert (P5 : p5 = if fires (m_use_spreadrates m) (m_spread_rate_schedule m) step
                    then [(ASpreadRate, firings_before (m_spread_rate_schedule m) step)] else []).
  { apply (index_part _ _ _ ASpreadRate). rewrite G5. cbn [bind]. exact E5. }
  assert (P6 : p6 = if fires (m_use_quarantine m) (m_quarantine_schedule m) step
                    then [(AQuarantine, firings_before (m_quarantine_schedule m) step)] else []).
  { apply (index_part _ _ _ AQuarantine). rewrite G6. cbn [bind]. exact E6. }
  apply guarded_fires in G4. apply sched_at_marks in G3. destruct G3 as (-> & _ & _).
  subst p1 p2 p5 p6 b4. unfold build, documented. cbn [map concat fst snd].
  destruct hs; destruct (fires (m_use_lethal m) _ step); destruct (fires (m_use_survival m) _ step);
    destruct (marks (m_spread_schedule m) step); destruct (m_use_overpop m); destruct (m_use_movements m);
    destruct (m_use_treatments m); destruct (fires (m_use_mortality m) _ step);
    destruct (fires (m_use_spreadrates m) _ step); destruct (fires (m_use_quarantine m) _ step);
    reflexivity.
Qed.

(* ---- order ---- *)
Definition rank (a : action_tag) : nat :=
  match a with
  | ASoil => 0 | ALethal => 1 | ASurvival => 2 | AGenerate => 3 | ADisperse => 4
  | AStepForward => 5 | AOverpop => 6 | AMovement => 7 | ATreatments => 8
  | AMortality => 9 | ASpreadRate => 10 | AQuarantine => 11
  end%nat.

Definition before (a b : action_tag * Z) : Prop := (rank (fst a) < rank (fst b))%nat.

Lemma build_sorted parts :
  StronglySorted (fun a b => before (snd a) (snd b)) parts -> StronglySorted before (build parts).
Proof.
  induction parts as [|[b x] r IH]; intros H; unfold build; cbn [map concat]; [constructor|].
  inversion H as [|? ? Hr Hall]; subst. specialize (IH Hr). fold (build r).
  destruct b; cbn [fst snd app]; [|exact IH].
  constructor; [exact IH|].
  clear - Hall. induction r as [|[b' y] r IHr]; unfold build; cbn [map concat]; [constructor|].
  inversion Hall as [|? ? Hy Hall']; subst. fold (build r). destruct b'; cbn [fst snd app]; auto.
Qed.

Theorem plan_order m hs step p : plan m hs step = Ok p -> StronglySorted before p.
Proof.
  intros H. rewrite (plan_is_documented _ _ _ _ H). apply build_sorted.
  unfold documented. repeat (constructor; [|repeat constructor; unfold before; cbn; lia]). constructor.
Qed.

(* ---- each action runs iff it is enabled and its schedule marks the step ---- *)
Lemma in_build parts x : In x (build parts) <-> In (true, x) parts.
Proof.
  induction parts as [|[b y] r IH]; unfold build; cbn [map concat]; [tauto|]. fold (build r).
  rewrite in_app_iff, IH. destruct b; cbn [fst snd In]; split.
  - intros [[<-|[]]|H]; auto.
  - intros [[= <-]|H]; auto.
  - intros [[]|H]; auto.
  - intros [[=]|H]; auto.
Qed.

Theorem runs_iff m hs step p : plan m hs step = Ok p ->
  let spread := marks (m_spread_schedule m) step in
  (forall k, In (ASoil, k) p <-> hs = true /\ k = step) /\
  (forall k, In (ALethal, k) p <->
     fires (m_use_lethal m) (m_lethal_schedule m) step = true /\ k = firings_before (m_lethal_schedule m) step) /\
  (forall k, In (ASurvival, k) p <->
     fires (m_use_survival m) (m_survival_schedule m) step = true /\ k = firings_before (m_survival_schedule m) step) /\
  (forall k, In (AGenerate, k) p <-> spread = true /\ k = step) /\
  (forall k, In (ADisperse, k) p <-> spread = true /\ k = step) /\
  (forall k, In (AStepForward, k) p <-> spread = true /\ k = step) /\
  (forall k, In (AOverpop, k) p <-> (spread && m_use_overpop m) = true /\ k = step) /\
  (forall k, In (AMovement, k) p <-> (spread && m_use_movements m) = true /\ k = step) /\
  (forall k, In (ATreatments, k) p <-> m_use_treatments m = true /\ k = step) /\
  (forall k, In (AMortality, k) p <->
     fires (m_use_mortality m) (m_mortality_schedule m) step = true /\ k = step) /\
  (forall k, In (ASpreadRate, k) p <->
     fires (m_use_spreadrates m) (m_spread_rate_schedule m) step = true /\ k = firings_before (m_spread_rate_schedule m) step) /\
  (forall k, In (AQuarantine, k) p <->
     fires (m_use_quarantine m) (m_quarantine_schedule m) step = true /\ k = firings_before (m_quarantine_schedule m) step).
Proof.
  intros H. rewrite (plan_is_documented _ _ _ _ H). cbv zeta.
  repeat match goal with |- _ /\ _ => split end.
  all: intros k; rewrite in_build; unfold documented; cbn [In]; split;
    [ intros Hin;
      repeat (destruct Hin as [Hin|Hin];
              [ try discriminate Hin;
                try (injection Hin as Hb Hk; split; [exact Hb|symmetry; exact Hk]) | ]);
      try contradiction
    | intros [Hc ->]; rewrite Hc; auto 20 ].
Qed.

(* ---- composition: a step is its actions applied one after the other ---- *)
Fixpoint compose (m : model_cfg) (inp : inputs) (step : Z) (p : list (action_tag * Z)) : W unit :=
  match p with
  | [] => ret tt
  | a :: r => run_action m inp step a ;; compose m inp step r
  end.

Lemma run_plan_compose m inp step p : forall w t acc,
  match fst (run_plan m inp step p w t acc) with
  | Ok (_, w', t') => compose m inp step p w t = Ok (tt, w', t')
  | Err e => compose m inp step p w t = Err e
  end.
Proof.
  induction p as [|a r IH]; intros w t acc; cbn [run_plan compose fst].
  - reflexivity.
  - unfold mbind. destruct (run_action m inp step a w t) as [[[u w1] t1]|e] eqn:E; cbn [fst]; [|reflexivity].
    apply IH.
Qed.

Theorem run_step_is_composition m inp step w t p : plan m (has_soil w) step = Ok p ->
  match fst (run_step m inp step w t) with
  | Ok (_, w', t') => compose m inp step p w t = Ok (tt, w', t')
  | Err e => compose m inp step p w t = Err e
  end.
Proof. intros H. unfold run_step. rewrite H. apply run_plan_compose. Qed.

(* the recorded trace lists exactly the plan's actions, in order *)
Lemma run_plan_trace m inp step p : forall w t acc tr w' t',
  run_plan m inp step p w t acc = (Ok (tr, w', t'), tr) ->
  map fst tr = map fst acc ++ p.
Proof.
  induction p as [|a r IH]; intros w t acc tr w' t'; cbn [run_plan].
  - intros [= <- _ _]. rewrite app_nil_r. reflexivity.
  - destruct (run_action m inp step a w t) as [[[u w1] t1]|e]; [|discriminate].
    intros H. apply IH in H. rewrite H, map_app, <- app_assoc. reflexivity.
Qed.

(* ---- inputs of disabled features have no influence ---- *)
Definition same_enabled_inputs (m : model_cfg) (a b : inputs) : Prop :=
  (m_use_lethal m = true -> in_temperatures a = in_temperatures b) /\
  (m_use_survival m = true -> in_survival a = in_survival b) /\
  in_totpop a = in_totpop b /\
  (m_use_movements m = true -> in_movements a = in_movements b) /\
  (m_use_treatments m = true -> in_treatments a = in_treatments b).

Lemma fires_use use l step : fires use l step = true -> use = true.
Proof. unfold fires. destruct use; [reflexivity|discriminate]. Qed.

Lemma run_action_same m a b step x p hs : plan m hs step = Ok p -> In x p ->
  same_enabled_inputs m a b -> run_action m a step x = run_action m b step x.
Proof.
  intros Hp Hin (H1 & H2 & H3 & H4 & H5). destruct x as [tag k].
  pose proof (runs_iff m hs step p Hp) as R. cbv zeta in R.
  destruct R as (_ & RL & RS & _ & _ & _ & _ & RM & RT & _).
  unfold run_action; cbn [fst snd]. destruct tag; try reflexivity.
  - apply RL in Hin. destruct Hin as [F _]. rewrite (H1 (fires_use _ _ _ F)). reflexivity.
  - apply RS in Hin. destruct Hin as [F _]. rewrite (H2 (fires_use _ _ _ F)). reflexivity.
  - rewrite H3. reflexivity.
  - apply RM in Hin. destruct Hin as [F _]. apply andb_true_iff in F. rewrite (H4 (proj2 F)). reflexivity.
  - apply RT in Hin. destruct Hin as [F _]. rewrite (H5 F). reflexivity.
Qed.

Lemma run_plan_same m a b step p0 : (forall x, In x p0 -> run_action m a step x = run_action m b step x) ->
  forall w t acc, run_plan m a step p0 w t acc = run_plan m b step p0 w t acc.
Proof.
  induction p0 as [|x r IH]; intros Hs w t acc; cbn [run_plan]; [reflexivity|].
  rewrite (Hs x (or_introl eq_refl)). destruct (run_action m b step x w t) as [[[u w1] t1]|e]; [|reflexivity].
  apply IH. intros y Hy. apply Hs. right; assumption.
Qed.

Theorem non_interference m a b step w t : same_enabled_inputs m a b ->
  run_step m a step w t = run_step m b step w t.
Proof.
  intros H. unfold run_step. destruct (plan m (has_soil w) step) as [p|e] eqn:Hp; [|reflexivity].
  apply run_plan_same. intros x Hx. eapply run_action_same; eauto.
Qed.

(* ---- the raster entry point cannot run mortality or spread rates ---- *)
Definition tiny_host : hostcfg := mkhostcfg SI 0 false 1 false 1 (Some (1%Q, (1 # 2)%Q, 0)).
Definition tiny_cfg : config :=
  mkconfig 1 1 [tiny_host] false false 1 None false 0 false false 0 0 0 0.
Definition tiny_world : world :=
  mkworld [mkhp [mkcell 5 [] 4 0 0 [4; 0] 0 9] [(0, 0)]] [0] [0] [] None None None None None 0.
Definition tiny_model (mort rates : bool) : model_cfg :=
  mkmodelcfg tiny_cfg false [] false [] [false] false false false mort [true] rates [true] false [] 1.
Definition tiny_inputs : inputs := mkinputs [] [] [9] [] [].

Lemma raster_entry_mortality_refuted :
  (exists tr w', fst (run_step (tiny_model true false) tiny_inputs 0 tiny_world []) = Ok (tr, w', [])) /\
  fst (run_step_rasters (tiny_model true false) tiny_inputs 0 tiny_world []) = Err InvalidArgument.
Proof. split; [eexists; eexists; vm_compute; reflexivity|vm_compute; reflexivity]. Qed.

Lemma raster_entry_spread_rate_refuted :
  (exists tr w', fst (run_step (tiny_model false true) tiny_inputs 0 tiny_world []) = Ok (tr, w', [])) /\
  fst (run_step_rasters (tiny_model false true) tiny_inputs 0 tiny_world []) = Err OutOfRange.
Proof. split; [eexists; eexists; vm_compute; reflexivity|vm_compute; reflexivity]. Qed.

(* with neither of the two features the entry points agree (one host, no
   pest-host table, no competency table, no treatments) *)
Definition raster_compatible (m : model_cfg) (inp : inputs) : Prop :=
  Forall (fun h => h_pht h = None) (g_hosts (m_g m)) /\ g_competency (m_g m) = None /\
  in_treatments inp = [] /\ m_rate_capacity m = 0.

Lemma strip_pht_id h : h_pht h = None -> strip_pht h = h.
Proof. destruct h; cbn. intros ->. reflexivity. Qed.

Theorem entry_points_agree m inp step w t : raster_compatible m inp ->
  run_step_rasters m inp step w t = run_step m inp step w t.
Proof.
  intros (Hp & Hc & Ht & Hr). unfold run_step_rasters, raster_entry_cfg.
  assert (Hh : map strip_pht (g_hosts (m_g m)) = g_hosts (m_g m)).
  { induction Hp as [|h r Hh _ IH]; cbn [map]; [reflexivity|]. rewrite strip_pht_id, IH by assumption. reflexivity. }
  rewrite Hh. clear Hh Hp.
  destruct m as [g ul ls us ss sp uo um ut umo ms usr srs uq qs rc]. cbn in Hc, Hr |- *. subst rc.
  destruct g as [gr gc gh gal ges gep gcomp gw gsp gsg gse gsep gop glp glt]. cbn in Hc |- *. subst gcomp.
  destruct inp as [it isv itp imv itr]. cbn in Ht |- *. subst itr. reflexivity.
Qed.
