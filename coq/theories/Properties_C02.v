(* C02  Counts never go negative and never exceed what the cell holds.
   Statements only.  Inv0 (CellProps.v) contains 0 <= S, every E_k, I, R, every
   M_k, died, and the two total identities; J (RunProps.v) asserts it for every
   cell of every host; PP (PestProps.v / PestRunProps.v) asserts non-negativity of
   the dispersers and established-dispersers rasters of the pest pool and of every
   soil cohort, and is carried through every action of every step of every run as
   well (theorems C02_pest_and_soil_...).  Tie: bin/check C02. *)
From Coq Require Import ZArith QArith List Reals Qreals.
From Flocq Require Import Core.
From Pops Require Import Err Rounding RoundingProps CellDefs CellProps LandDefs MonadProps LandProps ShapeProps LandProps2
     ModelDefs ModelProps RunProps PestProps PestRunProps FloatBridge.
Import ListNotations.
Local Open Scope Z_scope.

(* non-negativity and the totals, after every individual action of every step *)
Theorem C02_after_each_action : forall lv q ne nm m inp step w t,
  cfg_ok (m_g m) -> inputs_ok inp -> level_ok lv m inp -> J lv q ne nm w ->
  Forall (fun x => J lv q ne nm (snd x)) (snd (run_step m inp step w t)) /\
  (forall tr w' t', fst (run_step m inp step w t) = Ok (tr, w', t') -> J lv q ne nm w').
Proof. exact run_step_J. Qed.
Print Assumptions C02_after_each_action.

Theorem C02_every_prefix_of_every_run : forall lv q ne nm m inp weather,
  cfg_ok (m_g m) -> (forall s, inputs_ok (inp s)) -> (forall s, level_ok lv m (inp s)) ->
  forall tapes step w w', J lv q ne nm w -> run_many m inp weather tapes step w = Ok w' -> J lv q ne nm w'.
Proof. exact run_many_J. Qed.
Print Assumptions C02_every_prefix_of_every_run.

(* dispersers, established dispersers and soil cohorts: non-negative after every
   individual action of every step, for both entry points, and over whole runs *)
Theorem C02_pest_and_soil_after_each_action : forall m inp step w t,
  (0 <= g_soil_pct (m_g m) <= 1)%Q -> PP w ->
  Forall (fun x => PP (snd x)) (snd (run_step m inp step w t)) /\
  (forall tr w' t', fst (run_step m inp step w t) = Ok (tr, w', t') -> PP w').
Proof. exact run_step_PP. Qed.
Print Assumptions C02_pest_and_soil_after_each_action.

Theorem C02_pest_and_soil_raster_entry : forall m inp step w t,
  (0 <= g_soil_pct (m_g m) <= 1)%Q -> PP w ->
  Forall (fun x => PP (snd x)) (snd (run_step_rasters m inp step w t)) /\
  (forall tr w' t', fst (run_step_rasters m inp step w t) = Ok (tr, w', t') -> PP w').
Proof. exact run_step_rasters_PP. Qed.
Print Assumptions C02_pest_and_soil_raster_entry.

Theorem C02_pest_and_soil_every_run : forall m inp weather,
  (0 <= g_soil_pct (m_g m) <= 1)%Q ->
  forall tapes step w w', PP w -> run_many m inp weather tapes step w = Ok w' -> PP w'.
Proof. exact run_many_PP. Qed.
Print Assumptions C02_pest_and_soil_every_run.

(* host counts and pest/soil counts together, after each action of a step *)
Theorem C02_all_counts_after_each_action : forall lv q ne nm m inp step w t,
  cfg_ok (m_g m) -> (0 <= g_soil_pct (m_g m) <= 1)%Q -> inputs_ok inp -> level_ok lv m inp ->
  J lv q ne nm w -> PP w ->
  Forall (fun x => J lv q ne nm (snd x) /\ PP (snd x)) (snd (run_step m inp step w t)) /\
  (forall tr w' t', fst (run_step m inp step w t) = Ok (tr, w', t') -> J lv q ne nm w' /\ PP w').
Proof. exact run_step_J_PP. Qed.
Print Assumptions C02_all_counts_after_each_action.

(* what J gives for each cell: every count of the cell is non-negative ... *)
Theorem C02_cell_counts : forall P w k i h c, winv P w -> nth_error (w_hosts w) k = Some h ->
  nth_error (hp_cells h) i = Some c -> P c.
Proof. exact winv_cell. Qed.
Print Assumptions C02_cell_counts.

(* ... and infected never exceeds the cell's total hosts *)
Theorem C02_infected_le_total : forall c, Inv0 c -> cI c <= cTH c.
Proof. exact Inv0_infected_le_total. Qed.
Print Assumptions C02_infected_le_total.

(* hosts dying in a step never exceed the infected that were present *)
Theorem C02_deaths_le_infected : forall c rate lag c', Inv0 c -> (0 <= rate <= 1)%Q -> 0 <= lag ->
  apply_mortality c rate lag = Ok c' ->
  Inv0 c' /\ hq c' = hq c /\ cS c' = cS c /\ cE c' = cE c /\ cTE c' = cTE c /\ cR c' = cR c /\
  cD c' - cD c = cI c - cI c' /\ 0 <= cD c' - cD c <= cI c /\
  length (cM c') = length (cM c) /\ (InvM c -> InvM c').
Proof. exact apply_mortality_Inv0. Qed.
Print Assumptions C02_deaths_le_infected.

(* pests or hosts taken out of a cell never exceed what it contained *)
Theorem C02_pests_to_clamped : forall c count, Inv0 c -> 0 <= count ->
  let (c', k) := pests_to c count in
  Inv0 c' /\ hq c' = hq c /\ k = Z.min count (cS c) /\ cI c' = cI c + k /\ cS c' = cS c - k /\
  (InvLe c -> InvLe c').
Proof. exact pests_to_spec. Qed.
Print Assumptions C02_pests_to_clamped.

Theorem C02_draws_clamped : forall pop d n, valid_draw pop d n = true ->
  pointwise_le d pop /\ sumZ d = draw_total n pop /\ length d = length pop.
Proof. exact valid_draw_spec. Qed.
Print Assumptions C02_draws_clamped.

(* the three roundings of count x ratio stay within [0, count] for ratios in [0,1] *)
Theorem C02_rounding_bounds : forall n r, 0 <= n -> (0 <= r <= 1)%Q ->
  0 <= ratio_removed n r <= n.
Proof. exact ratio_removed_bounds. Qed.
Print Assumptions C02_rounding_bounds.

(* The model multiplies counts by ratios exactly (Q); the C++ does it in binary64.
   fl is round-to-nearest-even to binary64 (FloatBridge.v, Flocq).  For ANY real ratio
   in [0,1] and any count below 2^53 the floor / ceil / lround / cast of the binary64
   product is still between 0 and the count, so the bounds above do not depend on the
   arithmetic being exact ... *)
Theorem C02_binary64_bounds : forall (n : Z) (r : R),
  (0 <= n < 2^53)%Z -> (0 <= r <= 1)%R -> int_results_within (fl (IZR n * fl r)) n.
Proof. exact fl_count_flratio_int_bounds. Qed.
Print Assumptions C02_binary64_bounds.

(* ... on dyadic ratios (what the correspondence check generates) binary64 and Q agree
   exactly, including every rounding the cell functions use ... *)
Theorem C02_binary64_agrees_on_dyadic : forall (n : Z) (q : Q) (e : Z),
  (0 <= e <= 1074)%Z -> Z.pos (Qden q) = (2^e)%Z -> (Z.abs (n * Qnum q) < 2^53)%Z ->
  let x := fl (IZR n * fl (Q2R q)) in
  x = Q2R (zq n * q) /\
  Zceil x = qceil (zq n * q) /\
  Zfloor x = qfloor (zq n * q) /\
  lround x = qlround (zq n * q) /\
  (n - lround x)%Z = ratio_removed n q /\
  Zceil x = qceil (get_treated Ratio q n) /\
  Zfloor x = qfloor (get_treated Ratio q n).
Proof. exact double_agrees_with_Q_on_dyadic. Qed.
Print Assumptions C02_binary64_agrees_on_dyadic.

(* ... and for other ratios the rounded counts themselves can differ by one from the exact
   ones (7/100 of 100 hosts: ceil 8 in binary64, 7 exactly), which is why the tie uses
   dyadic parameters and the theorems are statements about exact arithmetic *)
Theorem C02_binary64_differs_refuted :
  (exists n q, (0 <= n < 2^53)%Z /\ (0 <= q <= 1)%Q /\
     Zceil (fl (IZR n * fl (Q2R q))) <> qceil (zq n * q)) /\
  (exists n q, (0 <= n < 2^53)%Z /\ (0 <= q <= 1)%Q /\
     lround (fl (IZR n * fl (Q2R q))) <> qlround (zq n * q)) /\
  (exists n q, (0 <= n < 2^53)%Z /\ (0 <= q <= 1)%Q /\
     Zfloor (fl (IZR n * fl (Q2R q))) <> qfloor (zq n * q)).
Proof. exact double_differs_from_Q_refuted. Qed.
Print Assumptions C02_binary64_differs_refuted.

Example C02_nonvacuous : J Eq 17 2 2 demo_world.
Proof. exact demo_world_J. Qed.
Print Assumptions C02_nonvacuous.
Example C02_nonvacuous_pest : PP demo_world /\ PP demo_soil_world.
Proof. exact (conj demo_world_PP demo_soil_world_PP). Qed.
Print Assumptions C02_nonvacuous_pest.
