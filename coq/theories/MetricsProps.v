(* Lemmas and proofs about the metrics model (MetricsDefs.v) for property C18.
   Everything is proved for rasters of any shape, suitable-cell lists of any
   length and order, any sequence of measurements and any set of runs, by
   induction over the cell lists / folds. *)
From Coq Require Import ZArith QArith Qround List Bool Lia ZifyBool Lqa.
From Pops Require Import Err MetricsDefs.
Import ListNotations.
Local Open Scope Z_scope.


(* ------------------------------------------------------------ specification *)
Definition is_min (P : cell -> Prop) (f : cell -> Z) (m : Z) : Prop :=
  (exists c, P c /\ f c = m) /\ forall c, P c -> m <= f c.
Definition is_max (P : cell -> Prop) (f : cell -> Z) (m : Z) : Prop :=
  (exists c, P c /\ f c = m) /\ forall c, P c -> f c <= m.

(* b is the bounding box of the cells satisfying P *)
Definition box_of (P : cell -> Prop) (b : bbox) : Prop :=
  is_min P fst (bn b) /\ is_max P fst (bs b) /\ is_max P snd (be b) /\ is_min P snd (bw b).

Definition in_raster (rows cols : Z) (c : cell) : Prop :=
  0 <= fst c < rows /\ 0 <= snd c < cols.

Lemma box_of_unique : forall P b b', box_of P b -> box_of P b' -> b = b'.
Proof.
  intros P [n s e w] [n' s' e' w'] (Hn & Hs & He & Hw) (Hn' & Hs' & He' & Hw'); cbn in *.
  destruct Hn as [[c1 [P1 E1]] L1], Hn' as [[c1' [P1' E1']] L1'].
  destruct Hs as [[c2 [P2 E2]] L2], Hs' as [[c2' [P2' E2']] L2'].
  destruct He as [[c3 [P3 E3]] L3], He' as [[c3' [P3' E3']] L3'].
  destruct Hw as [[c4 [P4 E4]] L4], Hw' as [[c4' [P4' E4']] L4'].
  pose proof (L1 _ P1'); pose proof (L1' _ P1); pose proof (L2 _ P2'); pose proof (L2' _ P2).
  pose proof (L3 _ P3'); pose proof (L3' _ P3); pose proof (L4 _ P4'); pose proof (L4' _ P4).
  f_equal; lia.
Qed.

Lemma box_of_ext : forall P Q b, (forall c, P c <-> Q c) -> box_of P b -> box_of Q b.
Proof.
  intros P Q b H (Hn & Hs & He & Hw).
  unfold box_of, is_min, is_max in *.
  repeat split.
  - destruct Hn as [[c [Pc E]] _]. exists c. split; [apply H; exact Pc | exact E].
  - intros c Qc. apply Hn. apply H. exact Qc.
  - destruct Hs as [[c [Pc E]] _]. exists c. split; [apply H; exact Pc | exact E].
  - intros c Qc. apply Hs. apply H. exact Qc.
  - destruct He as [[c [Pc E]] _]. exists c. split; [apply H; exact Pc | exact E].
  - intros c Qc. apply He. apply H. exact Qc.
  - destruct Hw as [[c [Pc E]] _]. exists c. split; [apply H; exact Pc | exact E].
  - intros c Qc. apply Hw. apply H. exact Qc.
Qed.

Lemma box_of_nonempty : forall P b, box_of P b -> exists c, P c.
Proof. intros P b [[[c [Pc _]] _] _]. exists c. exact Pc. Qed.

(* the box contains its cells *)
Lemma box_of_contains : forall P b c, box_of P b -> P c ->
  bn b <= fst c <= bs b /\ bw b <= snd c <= be b.
Proof.
  intros P b c (Hn & Hs & He & Hw) Pc.
  pose proof (proj2 Hn _ Pc). pose proof (proj2 Hs _ Pc).
  pose proof (proj2 He _ Pc). pose proof (proj2 Hw _ Pc). lia.
Qed.

(* growing the box of P by one cell gives the box of P + that cell *)
Lemma grow_box_of : forall P P' b i j,
  box_of P b -> (forall x, P' x <-> P x \/ x = (i, j)) -> box_of P' (grow b i j).
Proof.
  intros P P' b i j (Hn & Hs & He & Hw) HP.
  assert (Pij : P' (i, j)) by (apply HP; right; reflexivity).
  destruct Hn as [[c1 [P1 E1]] L1], Hs as [[c2 [P2 E2]] L2].
  destruct He as [[c3 [P3 E3]] L3], Hw as [[c4 [P4 E4]] L4].
  unfold box_of, is_min, is_max, grow; cbn [bn bs be bw].
  repeat split.
  - destruct (i <? bn b) eqn:C.
    + exists (i, j). split; [exact Pij | reflexivity].
    + exists c1. split; [apply HP; left; exact P1 | exact E1].
  - intros x Px. apply HP in Px. destruct Px as [Px | ->].
    + pose proof (L1 _ Px). destruct (i <? bn b) eqn:C; lia.
    + cbn. destruct (i <? bn b) eqn:C; lia.
  - destruct (i >? bs b) eqn:C.
    + exists (i, j). split; [exact Pij | reflexivity].
    + exists c2. split; [apply HP; left; exact P2 | exact E2].
  - intros x Px. apply HP in Px. destruct Px as [Px | ->].
    + pose proof (L2 _ Px). destruct (i >? bs b) eqn:C; lia.
    + cbn. destruct (i >? bs b) eqn:C; lia.
  - destruct (j >? be b) eqn:C.
    + exists (i, j). split; [exact Pij | reflexivity].
    + exists c3. split; [apply HP; left; exact P3 | exact E3].
  - intros x Px. apply HP in Px. destruct Px as [Px | ->].
    + pose proof (L3 _ Px). destruct (j >? be b) eqn:C; lia.
    + cbn. destruct (j >? be b) eqn:C; lia.
  - destruct (j <? bw b) eqn:C.
    + exists (i, j). split; [exact Pij | reflexivity].
    + exists c4. split; [apply HP; left; exact P4 | exact E4].
  - intros x Px. apply HP in Px. destruct Px as [Px | ->].
    + pose proof (L4 _ Px). destruct (j <? bw b) eqn:C; lia.
    + cbn. destruct (j <? bw b) eqn:C; lia.
Qed.

(* the first cell: the initial values are the opposite corners of the raster *)
Lemma grow_init_box_of : forall rows cols P' i j,
  in_raster rows cols (i, j) -> (forall x, P' x <-> x = (i, j)) ->
  box_of P' (grow (init_box rows cols) i j).
Proof.
  intros rows cols P' i j [Hi Hj] HP; cbn in Hi, Hj.
  assert (Pij : P' (i, j)) by (apply HP; reflexivity).
  unfold box_of, is_min, is_max, grow, init_box; cbn [bn bs be bw].
  repeat split.
  - exists (i, j). split; [exact Pij|]. cbn. destruct (i <? rows - 1) eqn:C; lia.
  - intros x Px. apply HP in Px. subst x. cbn. destruct (i <? rows - 1) eqn:C; lia.
  - exists (i, j). split; [exact Pij|]. cbn. destruct (i >? 0) eqn:C; lia.
  - intros x Px. apply HP in Px. subst x. cbn. destruct (i >? 0) eqn:C; lia.
  - exists (i, j). split; [exact Pij|]. cbn. destruct (j >? 0) eqn:C; lia.
  - intros x Px. apply HP in Px. subst x. cbn. destruct (j >? 0) eqn:C; lia.
  - exists (i, j). split; [exact Pij|]. cbn. destruct (j <? cols - 1) eqn:C; lia.
  - intros x Px. apply HP in Px. subst x. cbn. destruct (j <? cols - 1) eqn:C; lia.
Qed.

(* ------------------------------------------------- infection bounding box *)

(* infected suitable cells, as SpreadRateAction and the statistics see them *)
Definition infected_in (inf : Z -> Z -> Z) (suit : list cell) (c : cell) : Prop :=
  In c suit /\ inf (fst c) (snd c) > 0.

Definition bb_inv (rows cols : Z) (inf : Z -> Z -> Z) (l : list cell) (st : bool * bbox) : Prop :=
  (fst st = false /\ snd st = init_box rows cols /\ forall c, ~ infected_in inf l c)
  \/ (fst st = true /\ box_of (infected_in inf l) (snd st)).

Lemma infected_in_snoc : forall inf l c x,
  infected_in inf (l ++ [c]) x <-> infected_in inf l x \/ (x = c /\ inf (fst c) (snd c) > 0).
Proof.
  intros inf l c x. unfold infected_in. rewrite in_app_iff. cbn. split.
  - intros [[H | [H | []]] G]; [left; split; assumption | right; subst; split; [reflexivity | assumption]].
  - intros [[H G] | [-> G]]; split; auto.
Qed.

Lemma bb_fold_inv : forall rows cols inf l,
  (forall c, In c l -> in_raster rows cols c) ->
  bb_inv rows cols inf l (fold_left (bb_step inf) l (false, init_box rows cols)).
Proof.
  intros rows cols inf l. induction l as [| c l IH] using rev_ind; intros Hin.
  - left. cbn. repeat split. intros c [[] _].
  - rewrite fold_left_app. cbn [fold_left].
    assert (Hl : forall x, In x l -> in_raster rows cols x) by (intros x Hx; apply Hin, in_or_app; left; exact Hx).
    assert (Hc : in_raster rows cols c) by (apply Hin, in_or_app; right; left; reflexivity).
    specialize (IH Hl).
    set (st := fold_left (bb_step inf) l (false, init_box rows cols)) in *.
    destruct c as [i j].
    unfold bb_step. cbn [fst snd]. destruct (inf i j >? 0) eqn:C.
    + right. cbn [fst snd]. split; [reflexivity|].
      destruct IH as [(F & I & N) | (F & B)].
      * rewrite I. apply grow_init_box_of; [exact Hc|].
        intros x. rewrite infected_in_snoc. cbn [fst snd]. split.
        -- intros [H | [H _]]; [exfalso; exact (N _ H) | exact H].
        -- intros ->. right. split; [reflexivity | lia].
      * eapply grow_box_of; [exact B|].
        intros x. rewrite infected_in_snoc. cbn [fst snd]. split.
        -- intros [H | [H _]]; [left; exact H | right; exact H].
        -- intros [H | ->]; [left; exact H | right; split; [reflexivity | lia]].
    + destruct IH as [(F & I & N) | (F & B)].
      * left. repeat split; try assumption.
        intros x Hx. apply infected_in_snoc in Hx. destruct Hx as [H | [_ H]]; [exact (N _ H) | cbn [fst snd] in H; lia].
      * right. split; [exact F|]. eapply box_of_ext; [|exact B].
        intros x. rewrite infected_in_snoc. split; [intros H; left; exact H | intros [H | [_ H]]; [exact H | cbn [fst snd] in H; lia]].
Qed.

(* infection_boundary: the min/max row and column over the infected suitable
   cells, and (-1,-1,-1,-1) when there is none; any shape *)
Lemma infection_boundary_spec : forall rows cols inf suit,
  (forall c, In c suit -> in_raster rows cols c) ->
  let b := infection_boundary rows cols inf suit in
  ((forall c, ~ infected_in inf suit c) /\ b = no_box /\ is_boundary_valid b = false)
  \/ ((exists c, infected_in inf suit c) /\ box_of (infected_in inf suit) b /\ is_boundary_valid b = true).
Proof.
  intros rows cols inf suit Hin b. subst b. unfold infection_boundary.
  destruct (bb_fold_inv rows cols inf suit Hin) as [(F & I & N) | (F & B)]; rewrite F.
  - left. split; [exact N | split; reflexivity].
  - right. split; [eapply box_of_nonempty; exact B|]. split; [exact B|].
    destruct (box_of_nonempty _ _ B) as [c Pc].
    pose proof (box_of_contains _ _ _ B Pc) as [H1 _].
    destruct (proj1 B) as [[c1 [[I1 _] E1]] _]. pose proof (Hin _ I1) as [R1 _].
    unfold is_boundary_valid. lia.
Qed.


(* ------------------------------------------------------------ spread rates *)

(* The rate of one direction: undefined (NaN) exactly when the box touches
   that edge and did not move, otherwise displacement times resolution. *)
Definition rate_spec (res : Q) (disp : Z) (touches : bool) (r : option Q) : Prop :=
  (r = None <-> (touches = true /\ disp = 0)) /\
  (forall v, r = Some v -> (v == inject_Z disp * res)%Q).

Lemma inject_Z_eq0 : forall z, (inject_Z z == 0)%Q -> z = 0.
Proof. intros z H. unfold Qeq in H. cbn in H. lia. Qed.

Lemma rate_is_zero_iff : forall z res, ~ (res == 0)%Q ->
  (Qeq_bool (inject_Z z * res) 0 = true <-> z = 0).
Proof.
  intros z res Hres. rewrite Qeq_bool_iff. split.
  - intros H. apply Qmult_integral in H. destruct H as [H | H]; [apply inject_Z_eq0; exact H | contradiction].
  - intros ->. ring.
Qed.

Lemma nan_if_stuck_spec : forall res disp touches, ~ (res == 0)%Q ->
  rate_spec res disp touches (nan_if_stuck (inject_Z disp * res) touches).
Proof.
  intros res disp touches Hres. unfold rate_spec, nan_if_stuck.
  pose proof (rate_is_zero_iff disp res Hres) as Hz.
  destruct (Qeq_bool (inject_Z disp * res) 0) eqn:E; destruct touches; cbn.
  - split; [split; [intros _; split; [reflexivity | apply Hz; reflexivity] | reflexivity] | intros v H; discriminate].
  - split; [split; [discriminate | intros [H _]; discriminate] | intros v H; injection H as <-; reflexivity].
  - split; [split; [discriminate | intros [_ H]; apply Hz in H; discriminate] | intros v H; injection H as <-; reflexivity].
  - split; [split; [discriminate | intros [H _]; discriminate] | intros v H; injection H as <-; reflexivity].
Qed.

(* the four rates of one measurement, given the boxes of the previous and the
   current measurement (both with infection) *)
Definition rates_spec (rows cols : Z) (ew ns : Q) (prev cur : bbox) (rt : rates) : Prop :=
  rate_spec ns (bn prev - bn cur) (bn cur =? 0) (rt_n rt) /\
  rate_spec ns (bs cur - bs prev) (bs cur =? rows - 1) (rt_s rt) /\
  rate_spec ew (be cur - be prev) (be cur =? cols - 1) (rt_e rt) /\
  rate_spec ew (bw prev - bw cur) (bw cur =? 0) (rt_w rt).

Lemma step_rate_spec : forall rows cols ew ns prev cur,
  ~ (ew == 0)%Q -> ~ (ns == 0)%Q ->
  (is_boundary_valid cur = false -> step_rate rows cols ew ns prev cur = nan_rates) /\
  (is_boundary_valid cur = true -> rates_spec rows cols ew ns prev cur (step_rate rows cols ew ns prev cur)).
Proof.
  intros rows cols ew ns prev cur Hew Hns. unfold step_rate. split; intros V; rewrite V.
  - reflexivity.
  - unfold rates_spec; cbn [rt_n rt_s rt_e rt_w].
    split; [|split; [|split]]; apply nan_if_stuck_spec; assumption.
Qed.

(* sequences of measurements: step k compares raster k with raster k+1 *)
Lemma spread_steps_nth : forall rows cols ew ns suit rs r0 k rp rc,
  nth_error (r0 :: rs) k = Some rp -> nth_error (r0 :: rs) (S k) = Some rc ->
  let B r := infection_boundary rows cols (rget r) suit in
  nth_error (spread_steps rows cols ew ns suit (B r0) rs) k
  = Some (B rc, step_rate rows cols ew ns (B rp) (B rc)).
Proof.
  intros rows cols ew ns suit rs. induction rs as [| r1 t IH]; intros r0 k rp rc Hp Hc B.
  - cbn in Hc. destruct k; discriminate.
  - cbn [spread_steps]. destruct k as [| k'].
    + cbn in Hp, Hc. injection Hp as <-. injection Hc as <-. reflexivity.
    + cbn [nth_error] in Hp, Hc |- *. apply IH; assumption.
Qed.

(* The rate clause of C18 over a whole sequence of measurements. *)
Lemma spread_run_rates : forall rows cols ew ns suit r0 rs k rp rc,
  ~ (ew == 0)%Q -> ~ (ns == 0)%Q ->
  (forall c, In c suit -> in_raster rows cols c) ->
  nth_error (r0 :: rs) k = Some rp -> nth_error (r0 :: rs) (S k) = Some rc ->
  exists (b : bbox) (rt : rates),
    nth_error (snd (spread_run rows cols ew ns suit r0 rs)) k = Some (b, rt) /\
    ((forall c, ~ infected_in (rget rc) suit c) -> b = no_box /\ rt = nan_rates) /\
    (forall bc, box_of (infected_in (rget rc) suit) bc ->
       b = bc /\
       forall bp, box_of (infected_in (rget rp) suit) bp -> rates_spec rows cols ew ns bp bc rt).
Proof.
  intros rows cols ew ns suit r0 rs k rp rc Hew Hns Hin Hp Hc.
  pose proof (spread_steps_nth rows cols ew ns suit rs r0 k rp rc Hp Hc) as Hn. cbn zeta in Hn.
  exists (infection_boundary rows cols (rget rc) suit).
  exists (step_rate rows cols ew ns (infection_boundary rows cols (rget rp) suit)
                    (infection_boundary rows cols (rget rc) suit)).
  split; [exact Hn|].
  pose proof (infection_boundary_spec rows cols (rget rc) suit Hin) as Sc. cbn zeta in Sc.
  pose proof (infection_boundary_spec rows cols (rget rp) suit Hin) as Sp. cbn zeta in Sp.
  pose proof (step_rate_spec rows cols ew ns (infection_boundary rows cols (rget rp) suit)
                (infection_boundary rows cols (rget rc) suit) Hew Hns) as [Rinv Rval].
  split.
  - intros Hnone. destruct Sc as [(_ & E & V) | ([c Hc'] & _)]; [| exfalso; exact (Hnone _ Hc')].
    split; [exact E | apply Rinv; exact V].
  - intros bc Hbc. destruct Sc as [(N & _) | (_ & Bc & V)].
    + exfalso. destruct (box_of_nonempty _ _ Hbc) as [c Pc]. exact (N _ Pc).
    + pose proof (box_of_unique _ _ _ Bc Hbc) as Ec. split; [exact Ec|].
      intros bp Hbp. destruct Sp as [(N & _) | (_ & Bp & _)].
      * exfalso. destruct (box_of_nonempty _ _ Hbp) as [c Pc]. exact (N _ Pc).
      * pose proof (box_of_unique _ _ _ Bp Hbp) as Ep. rewrite <- Ec, <- Ep. apply Rval. exact V.
Qed.


(* --------------------------------------------------- aggregates over runs *)

(* the defined (non-NaN) values of a list of rates *)
Definition defined_values (l : list (option Q)) : list Q :=
  flat_map (fun o => match o with Some v => [v] | None => [] end) l.

Definition Qsum (l : list Q) : Q := fold_right Qplus 0%Q l.

Lemma acc_rate_fold : forall l a,
  (fst (fold_left acc_rate l a) == fst a + Qsum (defined_values l))%Q /\
  snd (fold_left acc_rate l a) = snd a + Z.of_nat (length (defined_values l)).
Proof.
  induction l as [| o t IH]; intros a.
  - cbn. split; [ring | lia].
  - cbn [fold_left]. destruct o as [v |]; cbn [acc_rate].
    + destruct (IH ((fst a + v)%Q, snd a + 1)) as [H1 H2]. cbn [fst snd] in H1, H2.
      change (defined_values (Some v :: t)) with (v :: defined_values t).
      cbn [length Qsum fold_right]. fold (Qsum (defined_values t)). split.
      * rewrite H1. ring.
      * rewrite H2. lia.
    + change (defined_values (None :: t)) with (defined_values t). apply IH.
Qed.

(* average of one direction over runs: the mean of the defined values, and
   undefined exactly when no run has a defined value *)
Lemma mean_defined_spec : forall l,
  match mean_defined l with
  | None => defined_values l = []
  | Some m => defined_values l <> [] /\
              (m == Qsum (defined_values l) / inject_Z (Z.of_nat (length (defined_values l))))%Q
  end.
Proof.
  intros l. unfold mean_defined.
  destruct (acc_rate_fold l (0%Q, 0)) as [H1 H2]. cbn [fst snd] in H1, H2.
  destruct (snd (fold_left acc_rate l (0%Q, 0)) =? 0) eqn:E.
  - destruct (defined_values l); [reflexivity | cbn [length] in H2; lia].
  - split.
    + intros N. rewrite N in H2. cbn in H2. lia.
    + rewrite H1, H2. rewrite Qplus_0_l. reflexivity.
Qed.

Lemma average_spread_rate_spec : forall l,
  let a := average_spread_rate l in
  rt_n a = mean_defined (map rt_n l) /\ rt_s a = mean_defined (map rt_s l) /\
  rt_e a = mean_defined (map rt_e l) /\ rt_w a = mean_defined (map rt_w l).
Proof. intros l. cbn. repeat split. Qed.

Lemma count_escapes_fold : forall l n,
  fold_left (fun n q => if q_escaped q then n + 1 else n) l n
  = n + Z.of_nat (length (filter q_escaped l)).
Proof.
  induction l as [| q t IH]; intros n.
  - cbn. lia.
  - cbn [fold_left filter]. rewrite IH. destruct (q_escaped q); cbn [length]; lia.
Qed.

(* escape probability: the plain fraction of runs that escaped *)
Lemma escape_probability_spec : forall infos, infos <> [] ->
  escape_probability infos
  = Some (inject_Z (Z.of_nat (length (filter q_escaped infos))) / inject_Z (Z.of_nat (length infos)))%Q.
Proof.
  intros infos H. unfold escape_probability, count_escapes. rewrite count_escapes_fold.
  destruct infos; [contradiction | reflexivity].
Qed.

Lemma escape_probability_empty : escape_probability [] = None.
Proof. reflexivity. Qed.

(* rows of the report: one per step, from the per-run records *)
Lemma write_quarantine_escape_rows : forall runs n k, (k < n)%nat ->
  nth_error (write_quarantine_escape runs n) k = Some (csv_row runs k).
Proof.
  intros runs n k H. unfold write_quarantine_escape.
  rewrite nth_error_map. rewrite nth_error_nth' with (d := O) by (rewrite seq_length; exact H).
  rewrite seq_nth by exact H. reflexivity.
Qed.

(* ---------------------------------------------------------- sum and area *)

Definition Zsum (f : cell -> Z) (l : list cell) : Z := fold_right (fun c acc => f c + acc) 0 l.

Lemma sum_fold_mod : forall (f : cell -> Z) l a,
  fold_left (fun acc c => (acc + f c) mod 4294967296) l (a mod 4294967296)
  = (a + Zsum f l) mod 4294967296.
Proof.
  intros f. induction l as [| c t IH]; intros a.
  - cbn. f_equal. lia.
  - cbn [fold_left Zsum fold_right]. rewrite Zplus_mod_idemp_l. rewrite IH. f_equal. fold (Zsum f t). lia.
Qed.

(* sum_of_infected: the sum over the suitable cells (unsigned arithmetic) *)
Lemma sum_of_infected_spec : forall inf suit,
  sum_of_infected inf suit = (Zsum (fun c => inf (fst c) (snd c)) suit) mod 4294967296.
Proof.
  intros inf suit. unfold sum_of_infected.
  change 0 with (0 mod 4294967296) at 1.
  rewrite (sum_fold_mod (fun c => inf (fst c) (snd c))). reflexivity.
Qed.

Lemma Zsum_nonneg : forall f l, (forall c, In c l -> 0 <= f c) -> 0 <= Zsum f l.
Proof.
  intros f. induction l as [| c t IH]; intros H; cbn.
  - lia.
  - assert (0 <= f c) by (apply H; left; reflexivity).
    assert (0 <= Zsum f t) by (apply IH; intros x Hx; apply H; right; exact Hx).
    unfold Zsum in *. lia.
Qed.

Lemma sum_of_infected_exact : forall inf suit,
  (forall c, In c suit -> 0 <= inf (fst c) (snd c)) ->
  Zsum (fun c => inf (fst c) (snd c)) suit < 4294967296 ->
  sum_of_infected inf suit = Zsum (fun c => inf (fst c) (snd c)) suit.
Proof.
  intros inf suit Hpos Hlt. rewrite sum_of_infected_spec.
  pose proof (Zsum_nonneg (fun c => inf (fst c) (snd c)) suit Hpos).
  apply Z.mod_small. lia.
Qed.

Lemma count_fold : forall (p : cell -> bool) l n,
  fold_left (fun acc c => if p c then acc + 1 else acc) l n = n + Z.of_nat (length (filter p l)).
Proof.
  intros p. induction l as [| c t IH]; intros n.
  - cbn. lia.
  - cbn [fold_left filter]. rewrite IH. destruct (p c); cbn [length]; lia.
Qed.

Definition infectedb (inf : Z -> Z -> Z) (c : cell) : bool := inf (fst c) (snd c) >? 0.

Lemma count_infected_spec : forall inf suit,
  count_infected inf suit = Z.of_nat (length (filter (infectedb inf) suit)).
Proof.
  intros inf suit. unfold count_infected.
  rewrite (count_fold (infectedb inf)). lia.
Qed.

(* area_of_infected: number of infected suitable cells times the cell area *)
Lemma area_of_infected_spec : forall inf ew ns suit,
  (area_of_infected inf ew ns suit
   == inject_Z (Z.of_nat (length (filter (infectedb inf) suit))) * (ew * ns))%Q.
Proof.
  intros inf ew ns suit. unfold area_of_infected. rewrite count_infected_spec. ring.
Qed.

Lemma filter_infectedb_iff : forall inf suit c,
  In c (filter (infectedb inf) suit) <-> infected_in inf suit c.
Proof.
  intros inf suit c. rewrite filter_In. unfold infected_in, infectedb. split; intros [H G]; split; try assumption; lia.
Qed.


(* ------------------------------------------------------------------ lround *)

Lemma Qfloor_unique : forall x z, (inject_Z z <= x)%Q -> (x < inject_Z (z + 1))%Q -> Qfloor x = z.
Proof.
  intros x z H1 H2.
  pose proof (Qfloor_le x) as F1. pose proof (Qlt_floor x) as F2.
  assert (A : (inject_Z (Qfloor x) < inject_Z (z + 1))%Q) by (eapply Qle_lt_trans; eassumption).
  assert (B : (inject_Z z < inject_Z (Qfloor x + 1))%Q) by (eapply Qle_lt_trans; eassumption).
  rewrite <- Zlt_Qlt in A, B. lia.
Qed.

Lemma lround_comp : forall a b, (a == b)%Q -> lround a = lround b.
Proof.
  intros a b H. unfold lround.
  assert (E1 : Qle_bool 0 a = Qle_bool 0 b) by (rewrite H; reflexivity).
  assert (E2 : Qfloor (a + (1 # 2)) = Qfloor (b + (1 # 2))) by (rewrite H; reflexivity).
  assert (E3 : Qfloor (- a + (1 # 2)) = Qfloor (- b + (1 # 2))) by (rewrite H; reflexivity).
  rewrite E1, E2, E3. reflexivity.
Qed.

Lemma lround_inject_Z : forall z, lround (inject_Z z) = z.
Proof.
  intros z. unfold lround. destruct (Qle_bool 0 (inject_Z z)) eqn:E.
  - apply Qfloor_unique.
    + lra.
    + rewrite inject_Z_plus. change (inject_Z 1) with 1%Q. lra.
  - assert (N : ~ (0 <= inject_Z z)%Q) by (intros H; apply Qle_bool_iff in H; congruence).
    apply Qnot_le_lt in N.
    assert (Qfloor (- inject_Z z + (1 # 2)) = - z); [| lia].
    apply Qfloor_unique.
    + rewrite inject_Z_opp. lra.
    + rewrite inject_Z_plus, inject_Z_opp. change (inject_Z 1) with 1%Q. lra.
Qed.

Lemma lround_nonneg : forall a, (0 <= a)%Q -> lround a = Qfloor (a + (1 # 2)) /\ 0 <= lround a.
Proof.
  intros a H. unfold lround. apply Qle_bool_iff in H. rewrite H. split; [reflexivity|].
  apply Qle_bool_iff in H.
  change 0 with (Qfloor 0). apply Qfloor_resp_le. lra.
Qed.

Lemma lround_neg : forall a, (a < 0)%Q -> lround a = - Qfloor (- a + (1 # 2)) /\ lround a <= 0.
Proof.
  intros a H. unfold lround. destruct (Qle_bool 0 a) eqn:E.
  - apply Qle_bool_iff in E. lra.
  - split; [reflexivity|].
    assert (0 <= Qfloor (- a + (1 # 2))); [| lia].
    change 0 with (Qfloor 0). apply Qfloor_resp_le. lra.
Qed.

Lemma lround_le : forall a b, (a <= b)%Q -> lround a <= lround b.
Proof.
  intros a b H.
  destruct (Qlt_le_dec a 0) as [Ha | Ha]; destruct (Qlt_le_dec b 0) as [Hb | Hb].
  - destruct (lround_neg a Ha) as [-> _]. destruct (lround_neg b Hb) as [-> _].
    assert (Qfloor (- b + (1 # 2)) <= Qfloor (- a + (1 # 2))); [| lia].
    apply Qfloor_resp_le. lra.
  - destruct (lround_neg a Ha) as [_ A]. destruct (lround_nonneg b Hb) as [_ B]. lia.
  - lra.
  - destruct (lround_nonneg a Ha) as [-> _]. destruct (lround_nonneg b Hb) as [-> _].
    apply Qfloor_resp_le. lra.
Qed.

Lemma Qltb_true : forall a b, Qltb a b = true <-> (a < b)%Q.
Proof.
  intros a b. unfold Qltb. rewrite negb_true_iff. split.
  - intros H. apply Qnot_le_lt. intros G. apply Qle_bool_iff in G. congruence.
  - intros H. destruct (Qle_bool b a) eqn:E; [| reflexivity].
    apply Qle_bool_iff in E. lra.
Qed.

Lemma Qltb_false : forall a b, Qltb a b = false <-> (b <= a)%Q.
Proof.
  intros a b. unfold Qltb. rewrite negb_false_iff. apply Qle_bool_iff.
Qed.

(* ------------------------------------------------------- closest_direction *)

Definition cd_init : cd_state := (int_max, (0, DirN)).

(* invariant of the four tests of closest_direction, over the candidates seen *)
Definition cd_inv (seen : list (bool * Q * dir)) (st : cd_state) : Prop :=
  fst st <= int_max /\
  (forall d tag, In (true, d, tag) seen -> fst st <= lround d) /\
  (((forall d tag, ~ In (true, d, tag) seen) /\ st = cd_init) \/
   (exists d tag, In (true, d, tag) seen /\ lround d = fst st /\ snd st = (fst st, tag))).

Lemma cd_step_inv : forall seen st on d tag,
  cd_inv seen st -> (on = true -> (d < inject_Z int_max)%Q) ->
  cd_inv (seen ++ [(on, d, tag)]) (cd_step st (on, d, tag)).
Proof.
  intros seen st on d tag (I1 & I2 & I3) Hd. unfold cd_step.
  assert (InS : forall d' t', In (true, d', t') (seen ++ [(on, d, tag)]) <->
                              In (true, d', t') seen \/ (on = true /\ d' = d /\ t' = tag)).
  { intros d' t'. rewrite in_app_iff. cbn. split.
    - intros [H | [H | []]]; [left; exact H | right]. injection H as -> -> ->. repeat split.
    - intros [H | (-> & -> & ->)]; [left; exact H | right; left; reflexivity]. }
  destruct on; cbn [andb].
  - specialize (Hd eq_refl). destruct (Qltb d (inject_Z (fst st))) eqn:C.
    + apply Qltb_true in C. unfold cd_inv. cbn [fst snd].
      assert (Lm : lround d <= fst st).
      { rewrite <- (lround_inject_Z (fst st)). apply lround_le. lra. }
      split; [lia|]. split.
      * intros d' t' H. apply InS in H. destruct H as [H | (_ & -> & _)]; [| lia].
        pose proof (I2 _ _ H). lia.
      * right. exists d, tag. split; [apply InS; right; repeat split | split; reflexivity].
    + apply Qltb_false in C.
      assert (Lm : fst st <= lround d).
      { rewrite <- (lround_inject_Z (fst st)). apply lround_le. exact C. }
      split; [exact I1|]. split.
      * intros d' t' H. apply InS in H. destruct H as [H | (_ & -> & _)]; [apply (I2 _ _ H) | exact Lm].
      * destruct I3 as [(_ & E) | (d0 & t0 & H0 & E0)].
        -- exfalso. rewrite E in C. cbn [fst cd_init] in C. lra.
        -- right. exists d0, t0. split; [apply InS; left; exact H0 | exact E0].
  - split; [exact I1|]. split.
    + intros d' t' H. apply InS in H. destruct H as [H | (F & _)]; [apply (I2 _ _ H) | discriminate].
    + destruct I3 as [(N & E) | (d0 & t0 & H0 & E0)].
      * left. split; [| exact E]. intros d' t' H. apply InS in H.
        destruct H as [H | (F & _)]; [exact (N _ _ H) | discriminate].
      * right. exists d0, t0. split; [apply InS; left; exact H0 | exact E0].
Qed.

Lemma cd_fold_inv : forall cands seen st,
  cd_inv seen st ->
  (forall d tag, In (true, d, tag) cands -> (d < inject_Z int_max)%Q) ->
  cd_inv (seen ++ cands) (fold_left cd_step cands st).
Proof.
  induction cands as [| [[on d] tag] t IH]; intros seen st I H.
  - rewrite app_nil_r. exact I.
  - cbn [fold_left].
    replace (seen ++ (on, d, tag) :: t) with ((seen ++ [(on, d, tag)]) ++ t)
      by (rewrite <- app_assoc; reflexivity).
    apply IH.
    + apply cd_step_inv; [exact I|]. intros ->. apply (H d tag). left. reflexivity.
    + intros d' t' G. apply (H d' t'). right. exact G.
Qed.

Lemma cd_inv_init : cd_inv [] cd_init.
Proof.
  split; [cbn; lia|]. split; [intros d tag []|]. left. split; [intros d tag []| reflexivity].
Qed.

Definition enabled (en : dirs) (k : dir) : bool :=
  match k with DirN => en_n en | DirS => en_s en | DirE => en_e en | DirW => en_w en | DirNone => false end.

(* distance (map units) from a cell to one side of a box *)
Definition side_dist (ew ns : Q) (b : bbox) (c : cell) (k : dir) : Q :=
  match k with
  | DirN => inject_Z (fst c - bn b) * ns
  | DirS => inject_Z (bs b - fst c) * ns
  | DirE => inject_Z (be b - snd c) * ew
  | DirW => inject_Z (snd c - bw b) * ew
  | DirNone => 0
  end%Q.

Lemma candidates_in : forall en ew ns i j b d k,
  In (true, d, k) (candidates en ew ns i j b) <->
  enabled en k = true /\ d = side_dist ew ns b (i, j) k.
Proof.
  intros en ew ns i j b d k. unfold candidates. cbn [In]. split.
  - intros [H | [H | [H | [H | []]]]]; injection H as E1 E2 E3; subst k; subst d; cbn; split; auto.
  - intros [E ->]. destruct k; cbn in E; cbn [side_dist fst snd].
    + left. rewrite E. reflexivity.
    + right. left. rewrite E. reflexivity.
    + right. right. left. rewrite E. reflexivity.
    + right. right. right. left. rewrite E. reflexivity.
    + discriminate.
Qed.

(* The pair returned for one cell: the least of the rounded distances to the
   enabled sides of the box, and an enabled side at that rounded distance. *)
Lemma closest_direction_spec : forall en ew ns i j b,
  (forall k, enabled en k = true -> (side_dist ew ns b (i, j) k < inject_Z int_max)%Q) ->
  (exists k, enabled en k = true) ->
  let r := closest_direction en ew ns i j b in
  enabled en (snd r) = true /\
  lround (side_dist ew ns b (i, j) (snd r)) = fst r /\
  forall k, enabled en k = true -> fst r <= lround (side_dist ew ns b (i, j) k).
Proof.
  intros en ew ns i j b Hlt [k0 Hk0] r. subst r. unfold closest_direction.
  pose proof (cd_fold_inv (candidates en ew ns i j b) [] cd_init cd_inv_init) as I.
  cbn [app] in I.
  assert (Hc : forall d tag, In (true, d, tag) (candidates en ew ns i j b) -> (d < inject_Z int_max)%Q).
  { intros d tag H. apply candidates_in in H. destruct H as [E ->]. apply Hlt. exact E. }
  specialize (I Hc). fold cd_init.
  set (st := fold_left cd_step (candidates en ew ns i j b) cd_init) in *.
  destruct I as (_ & I2 & I3).
  destruct I3 as [(N & _) | (d & tag & H & E1 & E2)].
  - exfalso. apply (N (side_dist ew ns b (i, j) k0) k0). apply candidates_in. split; [exact Hk0 | reflexivity].
  - rewrite E2. cbn [fst snd]. apply candidates_in in H. destruct H as [En ->].
    split; [exact En|]. split; [exact E1|].
    intros k Hk. apply (I2 (side_dist ew ns b (i, j) k) k). apply candidates_in. split; [exact Hk | reflexivity].
Qed.


(* ------------------------------------------------ quarantine area boxes *)

Lemma zrange_in : forall n x, In x (zrange n) <-> 0 <= x < n.
Proof.
  intros n x. unfold zrange. rewrite in_map_iff. split.
  - intros [k [<- H]]. apply in_seq in H. lia.
  - intros H. exists (Z.to_nat x). split; [lia|]. apply in_seq. lia.
Qed.

Lemma all_cells_in : forall rows cols c, In c (all_cells rows cols) <-> in_raster rows cols c.
Proof.
  intros rows cols [i j]. unfold all_cells, in_raster. rewrite in_flat_map. cbn [fst snd]. split.
  - intros [x [Hx H]]. apply in_map_iff in H. destruct H as [y [E Hy]]. injection E as -> ->.
    apply zrange_in in Hx. apply zrange_in in Hy. lia.
  - intros [Hi Hj]. exists i. split; [apply zrange_in; exact Hi|].
    apply in_map_iff. exists j. split; [reflexivity | apply zrange_in; exact Hj].
Qed.

Lemma find_box_upd : forall id v i j init l,
  find_box id (upd_box v i j init l)
  = if id =? v then Some (grow (match find_box v l with Some b => b | None => init end) i j)
    else find_box id l.
Proof.
  intros id v i j init. induction l as [| [k b] t IH].
  - cbn. destruct (id =? v) eqn:E; destruct (v =? id) eqn:E'; try reflexivity; lia.
  - cbn [upd_box find_box]. destruct (k =? v) eqn:Ekv.
    + cbn [find_box]. destruct (id =? v) eqn:E.
      * assert (k =? id = true) as -> by lia. reflexivity.
      * assert (k =? id = false) as -> by lia. reflexivity.
    + cbn [find_box]. destruct (k =? id) eqn:Eki.
      * assert (id =? v = false) as -> by lia. reflexivity.
      * exact IH.
Qed.

(* cells of the raster (seen so far) that carry a given area id *)
Definition area_cells (areas : Z -> Z -> Z) (l : list cell) (id : Z) (c : cell) : Prop :=
  In c l /\ areas (fst c) (snd c) = id.

Definition qb_inv (areas : Z -> Z -> Z) (l : list cell) (boxes : list (Z * bbox)) : Prop :=
  forall id,
    match find_box id boxes with
    | Some b => 0 < id /\ box_of (area_cells areas l id) b
    | None => id <= 0 \/ forall c, ~ area_cells areas l id c
    end.

Lemma area_cells_snoc : forall areas l c id x,
  area_cells areas (l ++ [c]) id x <-> area_cells areas l id x \/ (x = c /\ areas (fst c) (snd c) = id).
Proof.
  intros areas l c id x. unfold area_cells. rewrite in_app_iff. cbn. split.
  - intros [[H | [H | []]] G]; [left; split; assumption | right; subst x; split; [reflexivity | assumption]].
  - intros [[H G] | [-> G]]; split; auto.
Qed.

Lemma qb_fold_inv : forall rows cols areas l,
  (forall c, In c l -> in_raster rows cols c) ->
  qb_inv areas l (fold_left (qb_step rows cols areas) l []).
Proof.
  intros rows cols areas l. induction l as [| c l IH] using rev_ind; intros Hin.
  - intros id. cbn. right. intros c [[] _].
  - rewrite fold_left_app. cbn [fold_left].
    assert (Hl : forall x, In x l -> in_raster rows cols x) by (intros x Hx; apply Hin, in_or_app; left; exact Hx).
    assert (Hc : in_raster rows cols c) by (apply Hin, in_or_app; right; left; reflexivity).
    specialize (IH Hl).
    set (boxes := fold_left (qb_step rows cols areas) l []) in *.
    destruct c as [i j]. unfold qb_step. cbn [fst snd].
    destruct (areas i j >? 0) eqn:V; intros id.
    + rewrite find_box_upd. destruct (id =? areas i j) eqn:E.
      * assert (id = areas i j) as -> by lia. split; [lia|].
        pose proof (IH (areas i j)) as I. destruct (find_box (areas i j) boxes) as [b |].
        -- destruct I as [_ B]. eapply grow_box_of; [exact B|].
           intros x. rewrite area_cells_snoc. cbn [fst snd]. split.
           ++ intros [H | [H _]]; [left; exact H | right; exact H].
           ++ intros [H | ->]; [left; exact H | right; split; reflexivity].
        -- destruct I as [I | I]; [lia|]. apply grow_init_box_of; [exact Hc|].
           intros x. rewrite area_cells_snoc. cbn [fst snd]. split.
           ++ intros [H | [H _]]; [exfalso; exact (I _ H) | exact H].
           ++ intros ->. right. split; reflexivity.
      * pose proof (IH id) as I. destruct (find_box id boxes) as [b |].
        -- destruct I as [P B]. split; [exact P|]. eapply box_of_ext; [| exact B].
           intros x. rewrite area_cells_snoc. cbn [fst snd].
           split; [intros H; left; exact H | intros [H | [_ H]]; [exact H | lia]].
        -- destruct I as [I | I]; [left; exact I | right].
           intros x Hx. apply area_cells_snoc in Hx. cbn [fst snd] in Hx.
           destruct Hx as [H | [_ H]]; [exact (I _ H) | lia].
    + pose proof (IH id) as I. destruct (find_box id boxes) as [b |].
      * destruct I as [P B]. split; [exact P|]. eapply box_of_ext; [| exact B].
        intros x. rewrite area_cells_snoc. cbn [fst snd].
        split; [intros H; left; exact H | intros [H | [_ H]]; [exact H | lia]].
      * destruct I as [I | I]; [left; exact I|].
        destruct (Z_le_gt_dec id 0) as [L | G]; [left; exact L | right].
        intros x Hx. apply area_cells_snoc in Hx. cbn [fst snd] in Hx.
        destruct Hx as [H | [_ H]]; [exact (I _ H) | lia].
Qed.

(* cells of the whole raster with a given area id *)
Definition area_of (rows cols : Z) (areas : Z -> Z -> Z) (id : Z) (c : cell) : Prop :=
  in_raster rows cols c /\ areas (fst c) (snd c) = id.

(* quarantine_boundary: for every positive id present in the raster the
   bounding box of the cells with that id (any shape), nothing for the others *)
Lemma quarantine_boundary_spec : forall rows cols areas id,
  match find_box id (quarantine_boundary rows cols areas) with
  | Some b => 0 < id /\ box_of (area_of rows cols areas id) b
  | None => id <= 0 \/ forall c, ~ area_of rows cols areas id c
  end.
Proof.
  intros rows cols areas id. unfold quarantine_boundary.
  pose proof (qb_fold_inv rows cols areas (all_cells rows cols)
                (fun c H => proj1 (all_cells_in rows cols c) H) id) as I.
  assert (X : forall c, area_cells areas (all_cells rows cols) id c <-> area_of rows cols areas id c).
  { intros c. unfold area_cells, area_of. rewrite all_cells_in. reflexivity. }
  destruct (find_box id (fold_left (qb_step rows cols areas) (all_cells rows cols) [])) as [b |].
  - destruct I as [P B]. split; [exact P|]. eapply box_of_ext; [exact X | exact B].
  - destruct I as [I | I]; [left; exact I | right]. intros c H. apply X in H. exact (I _ H).
Qed.

Lemma lookup_box_own : forall rows cols areas c,
  in_raster rows cols c -> 0 < areas (fst c) (snd c) ->
  exists b, lookup_box (areas (fst c) (snd c)) (quarantine_boundary rows cols areas) = Ok b /\
            box_of (area_of rows cols areas (areas (fst c) (snd c))) b.
Proof.
  intros rows cols areas c Hc Hpos. unfold lookup_box.
  pose proof (quarantine_boundary_spec rows cols areas (areas (fst c) (snd c))) as S.
  destruct (find_box (areas (fst c) (snd c)) (quarantine_boundary rows cols areas)) as [b |].
  - exists b. split; [reflexivity | exact (proj2 S)].
  - exfalso. destruct S as [S | S]; [lia|]. apply (S c). split; [exact Hc | reflexivity].
Qed.

(* ------------------------------------------------------------ the scan *)

Definition qinfb (inf : Z -> Z -> Z) (c : cell) : bool := negb (inf (fst c) (snd c) =? 0).

Definition boxf (areas : Z -> Z -> Z) (boxes : list (Z * bbox)) (c : cell) : bbox :=
  match lookup_box (areas (fst c) (snd c)) boxes with Ok b => b | Err _ => no_box end.

Definition cell_value (en : dirs) (ew ns : Q) (areas : Z -> Z -> Z) (boxes : list (Z * bbox)) (c : cell)
  : Z * dir :=
  closest_direction en ew ns (fst c) (snd c) (boxf areas boxes c).

Lemma q_scan_cases : forall en ew ns inf areas boxes suit acc,
  (forall c, In c suit -> qinfb inf c = true -> areas (fst c) (snd c) <> 0 ->
             exists b, lookup_box (areas (fst c) (snd c)) boxes = Ok b) ->
  ((exists c, In c suit /\ qinfb inf c = true /\ areas (fst c) (snd c) = 0) /\
   q_scan en ew ns inf areas boxes suit acc = Ok QEscaped)
  \/
  ((forall c, In c suit -> qinfb inf c = true -> areas (fst c) (snd c) <> 0) /\
   q_scan en ew ns inf areas boxes suit acc
   = Ok (QInside (fold_left q_better
                            (map (cell_value en ew ns areas boxes) (filter (qinfb inf) suit)) acc))).
Proof.
  intros en ew ns inf areas boxes. induction suit as [| c t IH]; intros acc H.
  - right. split; [intros c [] | reflexivity].
  - cbn [q_scan filter].
    assert (E0' : (inf (fst c) (snd c) =? 0) = negb (qinfb inf c))
      by (unfold qinfb; rewrite negb_involutive; reflexivity).
    rewrite E0'. destruct (qinfb inf c) eqn:Ic0; cbn [negb];
      [assert (E0 : (inf (fst c) (snd c) =? 0) = false) by (rewrite E0'; reflexivity)
      |assert (E0 : (inf (fst c) (snd c) =? 0) = true) by (rewrite E0'; reflexivity)]; clear E0'.
    2: {
      assert (Ht : forall x, In x t -> qinfb inf x = true -> areas (fst x) (snd x) <> 0 ->
                             exists b, lookup_box (areas (fst x) (snd x)) boxes = Ok b)
        by (intros x Hx; apply H; right; exact Hx).
      destruct (IH acc Ht) as [([x (Hx & Ix & Ax)] & R) | (N & R)].
      * left. split; [exists x; split; [right; exact Hx | split; assumption] | exact R].
      * right. split; [| exact R]. intros x [<- | Hx] Ix; [| apply N; assumption].
        rewrite Ic0 in Ix. discriminate. }
    { destruct (areas (fst c) (snd c) =? 0) eqn:A0.
      * left. split; [| reflexivity]. exists c. split; [left; reflexivity|].
        split; [exact Ic0 | lia].
      * assert (Ic : qinfb inf c = true) by exact Ic0.
        destruct (H c (or_introl eq_refl) Ic) as [b Hb]; [lia|].
        assert (Ht : forall x, In x t -> qinfb inf x = true -> areas (fst x) (snd x) <> 0 ->
                               exists b, lookup_box (areas (fst x) (snd x)) boxes = Ok b)
          by (intros x Hx; apply H; right; exact Hx).
        rewrite Hb. cbn [map fold_left].
        assert (Ev : closest_direction en ew ns (fst c) (snd c) b = cell_value en ew ns areas boxes c)
          by (unfold cell_value, boxf; rewrite Hb; reflexivity).
        rewrite Ev.
        destruct (IH (q_better acc (cell_value en ew ns areas boxes c)) Ht) as [([x (Hx & Ix & Ax)] & R) | (N & R)].
        -- left. split; [exists x; split; [right; exact Hx | split; assumption] | exact R].
        -- right. split; [| exact R]. intros x [<- | Hx] Ix; [lia | apply N; assumption]. }
Qed.

(* the running minimum keeps the first least distance *)
Lemma q_better_fold : forall vals acc,
  match fold_left q_better vals acc with
  | None => acc = None /\ vals = []
  | Some r => (acc = Some r \/ In r vals) /\
              (forall r', acc = Some r' \/ In r' vals -> fst r <= fst r')
  end.
Proof.
  induction vals as [| v t IH]; intros acc.
  - cbn. destruct acc as [r |]; [| split; reflexivity].
    split; [left; reflexivity|]. intros r' [H | []]. injection H as <-. lia.
  - cbn [fold_left]. specialize (IH (q_better acc v)).
    destruct (fold_left q_better t (q_better acc v)) as [r |].
    + destruct IH as [I1 I2]. unfold q_better in I1, I2. destruct acc as [[d0 t0] |].
      * destruct (fst v <? d0) eqn:C.
        -- split.
           ++ destruct I1 as [I1 | I1]; [injection I1 as <-; right; left; reflexivity | right; right; exact I1].
           ++ intros r' [H | [<- | H]].
              ** injection H as <-. cbn [fst]. pose proof (I2 v (or_introl eq_refl)). lia.
              ** apply I2. left. reflexivity.
              ** apply I2. right. exact H.
        -- split.
           ++ destruct I1 as [I1 | I1]; [left; exact I1 | right; right; exact I1].
           ++ intros r' [H | [<- | H]].
              ** apply I2. left. exact H.
              ** pose proof (I2 (d0, t0) (or_introl eq_refl)). cbn [fst] in *. lia.
              ** apply I2. right. exact H.
      * split.
        -- destruct I1 as [I1 | I1]; [injection I1 as <-; right; left; reflexivity | right; right; exact I1].
        -- intros r' [H | [<- | H]]; [discriminate | apply I2; left; reflexivity | apply I2; right; exact H].
    + destruct IH as [I1 _]. unfold q_better in I1. destruct acc as [[d0 t0] |]; [| discriminate].
      destruct (fst v <? d0); discriminate.
Qed.


(* ------------------------------------------- quarantine escape and nearest *)

(* b is the bounding box of the quarantine area the cell c lies in *)
Definition own_box (rows cols : Z) (areas : Z -> Z -> Z) (c : cell) (b : bbox) : Prop :=
  box_of (area_of rows cols areas (areas (fst c) (snd c))) b.

Lemma qinfb_true : forall inf c, qinfb inf c = true <-> inf (fst c) (snd c) <> 0.
Proof. intros inf c. unfold qinfb. rewrite negb_true_iff. lia. Qed.

Section Quarantine.
  Variables (rows cols : Z) (en : dirs) (ew ns : Q) (inf areas : Z -> Z -> Z) (suit : list cell).
  Hypothesis suit_in : forall c, In c suit -> in_raster rows cols c.
  Hypothesis ids_nonneg : forall c, In c suit -> 0 <= areas (fst c) (snd c).

  Let boxes := quarantine_boundary rows cols areas.

  Lemma lookup_ok : forall c, In c suit -> areas (fst c) (snd c) <> 0 ->
    exists b, lookup_box (areas (fst c) (snd c)) boxes = Ok b /\ own_box rows cols areas c b.
  Proof.
    intros c Hc Ha. pose proof (ids_nonneg c Hc).
    apply lookup_box_own; [apply suit_in; exact Hc | lia].
  Qed.

  Lemma scan_hyp : forall c, In c suit -> qinfb inf c = true -> areas (fst c) (snd c) <> 0 ->
    exists b, lookup_box (areas (fst c) (snd c)) boxes = Ok b.
  Proof.
    intros c Hc _ Ha. destruct (lookup_ok c Hc Ha) as [b [Hb _]]. exists b. exact Hb.
  Qed.

  (* escape is reported exactly when an infected cell lies outside every area *)
  Lemma escape_iff :
    exists q, quarantine_action en ew ns inf areas boxes suit = Ok q /\
      (q = QEscaped <->
       exists c, In c suit /\ inf (fst c) (snd c) <> 0 /\ areas (fst c) (snd c) = 0).
  Proof.
    unfold quarantine_action.
    destruct (q_scan_cases en ew ns inf areas boxes suit None scan_hyp) as [([x (Hx & Ix & Ax)] & R) | (N & R)].
    - exists QEscaped. split; [exact R|]. split; [| reflexivity].
      intros _. exists x. split; [exact Hx|]. split; [apply qinfb_true; exact Ix | exact Ax].
    - eexists. split; [exact R|]. split; [discriminate|].
      intros [x (Hx & Ix & Ax)]. exfalso. apply (N x Hx); [apply qinfb_true; exact Ix | exact Ax].
  Qed.

  Hypothesis some_dir : exists k, enabled en k = true.
  Hypothesis dist_small : forall c b k, In c suit -> own_box rows cols areas c b -> enabled en k = true ->
    (side_dist ew ns b c k < inject_Z int_max)%Q.
  Hypothesis inside : forall c, In c suit -> inf (fst c) (snd c) <> 0 -> areas (fst c) (snd c) <> 0.

  Lemma cell_value_spec : forall c, In c suit -> inf (fst c) (snd c) <> 0 ->
    exists b, own_box rows cols areas c b /\
      let r := cell_value en ew ns areas boxes c in
      enabled en (snd r) = true /\
      lround (side_dist ew ns b c (snd r)) = fst r /\
      forall k, enabled en k = true -> fst r <= lround (side_dist ew ns b c k).
  Proof.
    intros c Hc Ic. destruct (lookup_ok c Hc (inside c Hc Ic)) as [b [Hb Ob]].
    exists b. split; [exact Ob|]. unfold cell_value, boxf. rewrite Hb.
    destruct c as [i j]. cbn [fst snd].
    apply closest_direction_spec; [| exact some_dir].
    intros k Hk. apply (dist_small (i, j) b k Hc Ob Hk).
  Qed.

  (* Any resolution: with no infected cell the record stays at its initial
     value; otherwise the reported distance is the least rounded distance
     (lround) from an infected cell to an enabled side of its own area's box,
     and the reported direction is an enabled side at that rounded distance. *)
  Lemma nearest_rounded :
    ((forall c, In c suit -> inf (fst c) (snd c) = 0) /\
     quarantine_action en ew ns inf areas boxes suit = Ok (QInside None))
    \/
    (exists m tag,
       quarantine_action en ew ns inf areas boxes suit = Ok (QInside (Some (m, tag))) /\
       enabled en tag = true /\
       (exists c b, In c suit /\ inf (fst c) (snd c) <> 0 /\ own_box rows cols areas c b /\
                    lround (side_dist ew ns b c tag) = m) /\
       (forall c b k, In c suit -> inf (fst c) (snd c) <> 0 -> own_box rows cols areas c b ->
                      enabled en k = true -> m <= lround (side_dist ew ns b c k))).
  Proof.
    unfold quarantine_action.
    destruct (q_scan_cases en ew ns inf areas boxes suit None scan_hyp) as [([x (Hx & Ix & Ax)] & _) | (_ & R)].
    { exfalso. apply (inside x Hx); [apply qinfb_true; exact Ix | exact Ax]. }
    rewrite R.
    pose proof (q_better_fold (map (cell_value en ew ns areas boxes) (filter (qinfb inf) suit)) None) as F.
    destruct (fold_left q_better (map (cell_value en ew ns areas boxes) (filter (qinfb inf) suit)) None)
      as [[m tag] |].
    - right. exists m, tag. split; [reflexivity|].
      destruct F as [[F1 | F1] F2]; [discriminate|].
      apply in_map_iff in F1. destruct F1 as [c [Ev Hcf]].
      apply filter_In in Hcf. destruct Hcf as [Hc Ic]. apply qinfb_true in Ic.
      destruct (cell_value_spec c Hc Ic) as [b [Ob S]]. cbn zeta in S. rewrite Ev in S.
      cbn [fst snd] in S. destruct S as (S1 & S2 & S3).
      split; [exact S1|]. split.
      + exists c, b. split; [exact Hc | split; [exact Ic | split; [exact Ob | exact S2]]].
      + intros c' b' k Hc' Ic' Ob' Hk.
        destruct (cell_value_spec c' Hc' Ic') as [b'' [Ob'' S']]. cbn zeta in S'.
        pose proof (box_of_unique _ _ _ Ob' Ob'') as <-.
        destruct S' as (_ & _ & S3').
        assert (Hin : In (cell_value en ew ns areas boxes c')
                         (map (cell_value en ew ns areas boxes) (filter (qinfb inf) suit))).
        { apply in_map. apply filter_In. split; [exact Hc' | apply qinfb_true; exact Ic']. }
        pose proof (F2 _ (or_intror Hin)) as L. cbn [fst] in L.
        pose proof (S3' k Hk). lia.
    - left. destruct F as [_ F]. split; [| reflexivity].
      intros c Hc. destruct (inf (fst c) (snd c) =? 0) eqn:E; [lia|]. exfalso.
      assert (Hin : In c (filter (qinfb inf) suit)).
      { apply filter_In. split; [exact Hc | apply qinfb_true; lia]. }
      apply (in_map (cell_value en ew ns areas boxes)) in Hin. rewrite F in Hin. exact Hin.
  Qed.

  (* integer resolutions: every side distance is an integer, lround changes nothing *)
  Lemma side_dist_integer : forall zew zns b c k,
    (ew == inject_Z zew)%Q -> (ns == inject_Z zns)%Q ->
    (side_dist ew ns b c k == inject_Z (lround (side_dist ew ns b c k)))%Q.
  Proof.
    intros zew zns b c k Hew Hns.
    assert (E : exists z, (side_dist ew ns b c k == inject_Z z)%Q).
    { destruct k; cbn [side_dist].
      - exists ((fst c - bn b) * zns). rewrite Hns, inject_Z_mult. reflexivity.
      - exists ((bs b - fst c) * zns). rewrite Hns, inject_Z_mult. reflexivity.
      - exists ((be b - snd c) * zew). rewrite Hew, inject_Z_mult. reflexivity.
      - exists ((snd c - bw b) * zew). rewrite Hew, inject_Z_mult. reflexivity.
      - exists 0. reflexivity. }
    destruct E as [z E]. rewrite (lround_comp _ _ E), lround_inject_Z. exact E.
  Qed.

  (* Integer resolutions: the reported distance and direction are those of the
     infected cell nearest to the bounding box of its own area among the
     enabled directions. *)
  Lemma nearest_integer : forall zew zns,
    (ew == inject_Z zew)%Q -> (ns == inject_Z zns)%Q ->
    ((forall c, In c suit -> inf (fst c) (snd c) = 0) /\
     quarantine_action en ew ns inf areas boxes suit = Ok (QInside None))
    \/
    (exists m tag,
       quarantine_action en ew ns inf areas boxes suit = Ok (QInside (Some (m, tag))) /\
       enabled en tag = true /\
       (exists c b, In c suit /\ inf (fst c) (snd c) <> 0 /\ own_box rows cols areas c b /\
                    (side_dist ew ns b c tag == inject_Z m)%Q) /\
       (forall c b k, In c suit -> inf (fst c) (snd c) <> 0 -> own_box rows cols areas c b ->
                      enabled en k = true -> (inject_Z m <= side_dist ew ns b c k)%Q)).
  Proof.
    intros zew zns Hew Hns.
    destruct nearest_rounded as [L | (m & tag & R & E & (c & b & Hc & Ic & Ob & Hm) & Hall)]; [left; exact L|].
    right. exists m, tag. split; [exact R|]. split; [exact E|]. split.
    - exists c, b. split; [exact Hc | split; [exact Ic | split; [exact Ob |]]].
      rewrite (side_dist_integer zew zns b c tag Hew Hns). rewrite Hm. reflexivity.
    - intros c' b' k Hc' Ic' Ob' Hk.
      rewrite (side_dist_integer zew zns b' c' k Hew Hns). rewrite <- Zle_Qle.
      apply (Hall c' b' k); assumption.
  Qed.
End Quarantine.

(* Fractional resolution: the reported distance can exceed the true distance of
   an infected cell to its area's box (5x3 raster, one area, resolution 1/2,
   infected cell one row below the north edge: reported 1, true 1/2). *)
Lemma nearest_refuted_witness :
  exists rows cols en ew ns inf areas suit m tag,
    (forall c, In c suit -> in_raster rows cols c) /\
    (forall c, In c suit -> 0 <= areas (fst c) (snd c)) /\
    (exists k, enabled en k = true) /\
    (forall c, In c suit -> inf (fst c) (snd c) <> 0 -> areas (fst c) (snd c) <> 0) /\
    quarantine_action en ew ns inf areas (quarantine_boundary rows cols areas) suit
    = Ok (QInside (Some (m, tag))) /\
    exists c b k, In c suit /\ inf (fst c) (snd c) <> 0 /\ own_box rows cols areas c b /\
                  enabled en k = true /\ (side_dist ew ns b c k < inject_Z m)%Q.
Proof.
  exists 5, 3, (mkdirs true true false false), (1 # 2)%Q, (1 # 2)%Q.
  exists (fun i j => if (i =? 1) && (j =? 1) then 1 else 0), (fun _ _ => 1), (all_cells 5 3), 1, DirN.
  split; [intros c H; apply all_cells_in; exact H|].
  split; [intros c _; lia|].
  split; [exists DirN; reflexivity|].
  split; [intros c _ _; lia|].
  split; [vm_compute; reflexivity|].
  destruct (lookup_box_own 5 3 (fun _ _ => 1) (1, 1)) as [b [Hb Ob]]; [unfold in_raster; cbn; lia | cbn; lia |].
  exists (1, 1), b, DirN.
  split; [apply all_cells_in; unfold in_raster; cbn; lia|].
  split; [cbn; lia|].
  split; [exact Ob|].
  split; [reflexivity|].
  vm_compute in Hb. injection Hb as <-. vm_compute. reflexivity.
Qed.

(* ---------------------------------------------- sequences of measurements *)

Lemma quarantine_steps_nth : forall en ew ns areas boxes suit rs l,
  quarantine_steps en ew ns areas boxes suit rs = Ok l ->
  length l = length rs /\
  forall k r, nth_error rs k = Some r ->
    exists q, nth_error l k = Some q /\ quarantine_action en ew ns (rget r) areas boxes suit = Ok q.
Proof.
  intros en ew ns areas boxes suit. induction rs as [| r t IH]; intros l H.
  - cbn in H. injection H as <-. split; [reflexivity|]. intros k r Hk. destruct k; discriminate.
  - cbn [quarantine_steps] in H.
    destruct (quarantine_action en ew ns (rget r) areas boxes suit) as [q | e] eqn:A; [| discriminate].
    destruct (quarantine_steps en ew ns areas boxes suit t) as [l' | e] eqn:S; [| discriminate].
    injection H as <-. destruct (IH l' eq_refl) as [L N]. split; [cbn; lia|].
    intros k r' Hk. destruct k as [| k'].
    + cbn in Hk. injection Hk as <-. exists q. split; [reflexivity | exact A].
    + cbn [nth_error] in Hk |- *. apply N. exact Hk.
Qed.

Lemma quarantine_steps_ok : forall en ew ns areas boxes suit rs,
  (forall r, In r rs -> exists q, quarantine_action en ew ns (rget r) areas boxes suit = Ok q) ->
  exists l, quarantine_steps en ew ns areas boxes suit rs = Ok l.
Proof.
  intros en ew ns areas boxes suit. induction rs as [| r t IH]; intros H.
  - exists []. reflexivity.
  - cbn [quarantine_steps]. destruct (H r (or_introl eq_refl)) as [q ->].
    destruct IH as [l ->]; [intros x Hx; apply H; right; exact Hx|].
    exists (q :: l). reflexivity.
Qed.


(* ----------------------- complete suitable-cell list = the whole raster *)

Lemma skipn_cons_nth : forall (A : Type) (d : A) k (l : list A), (k < length l)%nat ->
  skipn k l = nth k l d :: skipn (S k) l.
Proof.
  intros A d. induction k as [| k IH]; intros l H; destruct l as [| x t]; cbn in H; try lia.
  - reflexivity.
  - cbn [skipn nth]. apply IH. lia.
Qed.

Lemma firstn_plus : forall (A : Type) a b (l : list A),
  firstn (a + b) l = firstn a l ++ firstn b (skipn a l).
Proof.
  intros A. induction a as [| a IH]; intros b l.
  - reflexivity.
  - destruct l as [| x t]; cbn.
    + rewrite firstn_nil. reflexivity.
    + rewrite IH. reflexivity.
Qed.

Lemma skipn_plus : forall (A : Type) a b (l : list A), skipn (a + b) l = skipn b (skipn a l).
Proof.
  intros A. induction a as [| a IH]; intros b l.
  - reflexivity.
  - destruct l as [| x t]; cbn.
    + rewrite skipn_nil. reflexivity.
    + apply IH.
Qed.

Lemma row_chunk : forall (d : Z) (data : list Z) C k, (k + C <= length data)%nat ->
  map (fun b => nth (k + b) data d) (seq 0 C) = firstn C (skipn k data).
Proof.
  intros d data. induction C as [| C IH]; intros k H.
  - reflexivity.
  - rewrite <- cons_seq, <- seq_shift, map_cons, map_map.
    rewrite (skipn_cons_nth Z d k data) by lia. cbn [firstn].
    rewrite Nat.add_0_r. f_equal.
    rewrite <- IH by lia. apply map_ext. intros b. f_equal. lia.
Qed.

Lemma rows_chunks : forall (data : list Z) C R off, ((off + R) * C <= length data)%nat ->
  flat_map (fun a => map (fun b => nth (a * C + b) data 0) (seq 0 C)) (seq off R)
  = firstn (R * C) (skipn (off * C) data).
Proof.
  intros data C. induction R as [| R IH]; intros off H.
  - reflexivity.
  - cbn [seq flat_map]. rewrite row_chunk by nia. rewrite IH by nia.
    replace (S R * C)%nat with (C + R * C)%nat by lia. rewrite firstn_plus. f_equal. f_equal.
    rewrite <- skipn_plus. f_equal. lia.
Qed.

Lemma map_flat_map : forall (A B C : Type) (g : B -> C) (f : A -> list B) l,
  map g (flat_map f l) = flat_map (fun x => map g (f x)) l.
Proof.
  intros A B C g f. induction l as [| x t IH]; cbn.
  - reflexivity.
  - rewrite map_app, IH. reflexivity.
Qed.

Definition well_formed (r : raster) : Prop :=
  0 <= r_rows r /\ 0 <= r_cols r /\ length (r_data r) = Z.to_nat (r_rows r * r_cols r).

(* reading the raster at the cells of the complete list, in order, gives back
   its row-major contents: any shape *)
Lemma all_cells_read : forall r, well_formed r ->
  map (fun c => rget r (fst c) (snd c)) (all_cells (r_rows r) (r_cols r)) = r_data r.
Proof.
  intros [rows cols data] (Hr & Hc & Hl). cbn [r_rows r_cols r_data] in *.
  unfold all_cells, zrange, rget. cbn [r_cols r_data].
  rewrite map_flat_map. rewrite flat_map_concat_map, map_map, <- flat_map_concat_map.
  erewrite flat_map_ext.
  2: { intros a. rewrite map_map, map_map. cbn [fst snd].
       apply map_ext. intros b.
       replace (Z.to_nat (Z.of_nat a * cols + Z.of_nat b)) with (a * Z.to_nat cols + b)%nat by nia.
       reflexivity. }
  rewrite rows_chunks by nia. cbn [skipn Nat.mul].
  replace (Z.to_nat rows * Z.to_nat cols)%nat with (length data) by nia.
  apply firstn_all.
Qed.

Lemma Zsum_map : forall f l, Zsum f l = fold_right Z.add 0 (map f l).
Proof. intros f. induction l as [| c t IH]; cbn; [reflexivity | rewrite <- IH; reflexivity]. Qed.

Lemma filter_map_length : forall (A B : Type) (f : A -> B) (p : B -> bool) l,
  length (filter (fun x => p (f x)) l) = length (filter p (map f l)).
Proof.
  intros A B f p. induction l as [| x t IH]; cbn; [reflexivity|].
  destruct (p (f x)); cbn; rewrite IH; reflexivity.
Qed.

(* with the complete list of cells the sum and the count run over the whole
   raster *)
Lemma complete_list_sum_count : forall r, well_formed r ->
  let suit := all_cells (r_rows r) (r_cols r) in
  Zsum (fun c => rget r (fst c) (snd c)) suit = fold_right Z.add 0 (r_data r) /\
  length (filter (infectedb (rget r)) suit) = length (filter (fun v => v >? 0) (r_data r)).
Proof.
  intros r W suit. subst suit. split.
  - rewrite Zsum_map. f_equal. exact (all_cells_read r W).
  - unfold infectedb.
    rewrite (filter_map_length cell Z (fun c => rget r (fst c) (snd c)) (fun v => v >? 0)).
    f_equal. f_equal. exact (all_cells_read r W).
Qed.
