(* Operation-level wrappers: every public method of pops::HostPool
   (include/pops/host_pool.hpp) as one step of the state-and-tape monad of
   LandDefs.v on a world that holds ONE host pool (host 0).  The wrappers only
   locate the cell (bounds-checked), call the function of CellDefs.v /
   LandDefs.v the cell-level theorems are about, and store the result; they add
   no behaviour of their own.  Used by coq/extract/Extract_hostops.v and
   ocaml/drv_hostops.ml (engine part pylib/hostops.py).  Definitions only. *)
From Coq Require Import ZArith QArith List Bool.
From Pops Require Import Err Rounding CellDefs LandDefs.
Import ListNotations.
Local Open Scope Z_scope.

Inductive hop : Set :=
| HDisperserTo (r c : Z)
| HAddDisperserAt (r c : Z)
| HDispersersFrom (r c : Z)
| HPestsFrom (r c n : Z)
| HPestsTo (r c n : Z)
| HMoveHosts (rf cf rt ct n : Z)
| HCompletelyRemove (r c s : Z) (e : list Z) (i : Z) (m : list Z)
| HRemoveInfected (r c n : Z)
| HRemoveAllInfected (r c : Z)
| HRemoveByRatio (r c : Z) (ratio : Q)
| HRemoveExposed (r c n : Z)
| HMakeResistant (r c s : Z) (e : list Z) (i : Z) (m : list Z)
| HRemoveResistance (r c : Z)
| HApplyMortality (r c : Z) (rate : Q) (lag : Z)
| HApplyMortalityTable (r c : Z)
| HStepForwardMortality
| HStepForward (step : Z)
| HResetTotal (r c : Z)
| HRead (r c : Z)
| HIsOutside (r c : Z)
| HSuitability (r c : Z).

(* what the read accessors of one cell return *)
Record readout : Set := mkreadout
  { ro_infected : Z;            (* infected_at *)
    ro_susceptible : Z;         (* susceptible_at *)
    ro_exposed : Z;             (* exposed_at: the stored total *)
    ro_computed_exposed : Z;    (* computed_exposed_at: sum of the cohorts *)
    ro_exposed_groups : list Z; (* exposed_by_group_at *)
    ro_mortality_groups : list Z; (* mortality_by_group_at *)
    ro_resistant : Z;           (* resistant_at *)
    ro_total_hosts : Z }.       (* total_hosts_at = susceptible + infected *)

Definition read_cell (c : cell) : readout :=
  mkreadout (cI c) (cS c) (cTE c) (sumZ (cE c)) (cE c) (cM c) (cR c) (cS c + cI c).

Inductive hret : Set :=
| RNone | RInt (z : Z) | RBool (b : bool) | RRead (r : readout).

Definition at_cell (g : config) (r c : Z) : W nat := lift (idx_of g r c).

(* update of the cell (r, c) of host 0 by a pure cell function *)
Definition on_cell (g : config) (r c : Z) (f : cell -> result cell) : W hret :=
  let* i := at_cell g r c in
  let* cl := get_cell 0 i in
  let* cl' := lift (f cl) in
  set_cell 0 i cl' ;; ret RNone.

(* the same for the functions that also return a count *)
Definition on_cell_count (g : config) (r c : Z) (f : cell -> cell * Z) : W hret :=
  let* i := at_cell g r c in
  let* cl := get_cell 0 i in
  let res := f cl in
  set_cell 0 i (fst res) ;; ret (RInt (snd res)).

(* suitability_at is reported as round(value * 2^20) so that the text can be
   compared with the implementation's double *)
Definition suit_scale : Q := inject_Z 1048576.

Definition run_hop (g : config) (o : hop) : W hret :=
  match o with
  | HDisperserTo r c =>
    let* i := at_cell g r c in let* n := host_disperser_to g 0 i in ret (RInt n)
  | HAddDisperserAt r c =>
    let* i := at_cell g r c in let* n := host_add_disperser g 0 i in ret (RInt n)
  | HDispersersFrom r c =>
    let* i := at_cell g r c in
    let* cl := get_cell 0 i in
    if cI cl <=? 0 then ret (RInt 0)
    else let* n := host_dispersers_from g 0 i in ret (RInt n)
  | HPestsFrom r c n => on_cell_count g r c (fun cl => pests_from cl n)
  | HPestsTo r c n => on_cell_count g r c (fun cl => pests_to cl n)
  | HMoveHosts rf cf rt ct n =>
    let* k := move_hosts g rf cf rt ct n in ret (RInt k)
  | HCompletelyRemove r c s e i m => on_cell g r c (fun cl => completely_remove cl s e i m)
  | HRemoveInfected r c n =>
    let* i := at_cell g r c in host_remove_infected 0 i n ;; ret RNone
  | HRemoveAllInfected r c =>
    let* i := at_cell g r c in
    let* cl := get_cell 0 i in
    host_remove_infected 0 i (cI cl) ;; ret RNone
  | HRemoveByRatio r c ratio =>
    let* i := at_cell g r c in host_remove_by_ratio 0 i ratio ;; ret RNone
  | HRemoveExposed r c n =>
    let* i := at_cell g r c in host_remove_exposed 0 i n ;; ret RNone
  | HMakeResistant r c s e i m => on_cell g r c (fun cl => make_resistant cl s e i m)
  | HRemoveResistance r c => on_cell g r c (fun cl => Ok (remove_resistance cl))
  | HApplyMortality r c rate lag => on_cell g r c (fun cl => apply_mortality cl rate lag)
  | HApplyMortalityTable r c =>
    let* hc := host_cfg g 0 in
    match h_pht hc with
    | None => fail InvalidArgument   (* "Set pest-host table before calling apply_mortality_at" *)
    | Some (_, rate, lag) => on_cell g r c (fun cl => apply_mortality cl rate lag)
    end
  | HStepForwardMortality =>
    let* h := get_host 0 in
    set_host 0 (mkhp (map rotate_mortality (hp_cells h)) (hp_suitable h)) ;; ret RNone
  | HStepForward step => act_step_forward g step ;; ret RNone
  | HResetTotal r c => on_cell g r c (fun cl => Ok (reset_total cl))
  | HRead r c =>
    let* i := at_cell g r c in let* cl := get_cell 0 i in ret (RRead (read_cell cl))
  | HIsOutside r c => ret (RBool (is_outside g r c))
  | HSuitability r c =>
    let* i := at_cell g r c in
    let* s := suitability_at g 0 i in
    ret (RInt (qlround (s * suit_scale)))
  end.
