(* Remaining landscape-level invariants: treatments (hosts only leave),
   overpopulation movement of pests (level Basic) and host movement (all
   levels).  All statements hold for every tape of random outcomes. *)
From Coq Require Import ZArith QArith List Bool Lia ZifyBool.
From Pops Require Import Err Rounding RoundingProps CellDefs CellProps MoveProps LandDefs MonadProps
  LandProps ShapeProps.
Import ListNotations.
Local Open Scope Z_scope.

Definition WL (lv : level) (q : Z) (w : world) : Prop := winv (cinv lv) w /\ whq w <= q.

Lemma WI_WL {A} lv (m : W A) :
  (forall q, hoare (WI lv q) m (fun _ w => WI lv q w)) ->
  forall q, hoare (WL lv q) m (fun _ w => WL lv q w).
Proof.
  intros H q w t a w' t' [HI Hq] E.
  destruct (H (whq w) w t a w' t' (conj HI eq_refl) E) as [HI' Hq']. split; [assumption|lia].
Qed.

Definition treat_ok (t : treatment) : Prop := Forall (fun c => (0 <= c <= 1)%Q) (t_map t).

(* ---------- generic cell updates ---------- *)
Lemma update_cell_WL lv q k i c c' w t u w' t' h :
  WL lv q w -> nth_error (w_hosts w) k = Some h -> nth_error (hp_cells h) i = Some c ->
  cinv lv c' -> hq c' <= hq c -> set_cell k i c' w t = Ok (u, w', t') -> WL lv q w'.
Proof.
  intros [HI Hq] Hk Hi Pc Hd H.
  destruct (set_cell_inv _ _ _ _ _ _ _ _ _ _ _ HI Hk Hi Pc H) as (_ & A & B & _).
  split; [assumption|]. lia.
Qed.

Lemma lift_cell_WL lv q k i (F : cell -> result cell) :
  (forall c c', cinv lv c -> F c = Ok c' -> cinv lv c' /\ hq c' <= hq c) ->
  hoare (WL lv q) (let* c := get_cell k i in let* c' := lift (F c) in set_cell k i c')
        (fun _ w => WL lv q w).
Proof.
  intros HF w t a w' t' HW H. binv.
  match goal with Hc : F ?c = Ok ?c', Hs : set_cell _ _ _ _ _ = Ok _ |- _ =>
    destruct (HF _ _ (winv_cell _ _ _ _ _ _ (proj1 HW) Hk Hi) Hc) as (Pc' & Hle);
    exact (update_cell_WL _ _ _ _ _ _ _ _ _ _ _ _ HW Hk Hi Pc' Hle Hs) end.
Qed.

Lemma lift_cell_WI lv q k i (F : cell -> result cell) :
  (forall c c', cinv lv c -> F c = Ok c' -> cinv lv c' /\ hq c' = hq c) ->
  hoare (WI lv q) (let* c := get_cell k i in let* c' := lift (F c) in set_cell k i c')
        (fun _ w => WI lv q w).
Proof.
  intros HF w t a w' t' HW H. binv.
  match goal with Hc : F ?c = Ok ?c', Hs : set_cell _ _ _ _ _ = Ok _ |- _ =>
    destruct (HF _ _ (winv_cell _ _ _ _ _ _ (proj1 HW) Hk Hi) Hc) as (Pc' & Heq);
    destruct (update_cell_WI lv q k i c c' 0 _ _ _ _ _ _ HW Hk Hi Pc' ltac:(lia) Hs) as (A & _)
  end.
  replace (q - 0) with q in A by lia. exact A.
Qed.

Lemma pure_cell_WI lv q k i (F : cell -> cell) :
  (forall c, cinv lv c -> cinv lv (F c) /\ hq (F c) = hq c) ->
  hoare (WI lv q) (let* c := get_cell k i in set_cell k i (F c)) (fun _ w => WI lv q w).
Proof.
  intros HF w t a w' t' HW H. binv.
  match goal with Hs : set_cell _ _ (F ?c) _ _ = Ok _ |- _ =>
    destruct (HF _ (winv_cell _ _ _ _ _ _ (proj1 HW) Hk Hi)) as (Pc' & Heq);
    destruct (update_cell_WI lv q k i c (F c) 0 _ _ _ _ _ _ HW Hk Hi Pc' ltac:(lia) Hs) as (A & _)
  end.
  replace (q - 0) with q in A by lia. exact A.
Qed.

(* ---------- 1. treatments ---------- *)
Lemma treat_removal_hq_le app coef c c' : Inv0 c -> (0 <= coef <= 1)%Q ->
  treat_removal app coef c = Ok c' -> Inv0 c' /\ hq c' <= hq c.
Proof.
  intros HInv Hc H. destruct (treat_removal_spec app coef c c' HInv Hc H) as (I0 & Hq & _).
  split; [exact I0|]. unfold Inv0 in HInv. inv0_destruct HInv.
  pose proof (gt_ceil_bounds Ratio coef (cS c) Hc HS) as B1.
  pose proof (gt_ceil_bounds app coef (cI c) Hc HI) as B3.
  assert (B2 : pointwise_le (map (fun x => qceil (get_treated app coef x)) (cE c)) (cE c))
    by (apply pointwise_le_map; [intros x Hx; apply gt_ceil_bounds; assumption|exact HE]).
  apply pointwise_le_sum in B2. lia.
Qed.

Lemma treat_coef i t coef : treat_ok t -> rget (t_map t) i = Ok coef -> (0 <= coef <= 1)%Q.
Proof.
  intros Ht R. apply rget_Some in R. unfold treat_ok in Ht. rewrite Forall_forall in Ht.
  apply Ht. eapply nth_error_In; eauto.
Qed.

Definition treat_cell (t : treatment) (coef : Q) (c : cell) : result cell :=
  if t_pesticide t then treat_pesticide (t_app t) coef c else treat_removal (t_app t) coef c.

Lemma apply_treatment_WL lv q g k t : treat_ok t ->
  (forall coef c c', (0 <= coef <= 1)%Q -> cinv lv c -> treat_cell t coef c = Ok c' ->
                     cinv lv c' /\ hq c' <= hq c) ->
  hoare (WL lv q) (apply_treatment g k t) (fun _ w => WL lv q w).
Proof.
  intros Ht HF. unfold apply_treatment. eapply hoare_bind; [apply hoare_ro, ro_get_host|]. intros h.
  apply hoare_mfold. intros rc _.
  eapply hoare_bind; [apply hoare_ro, ro_lift|]. intros i.
  eapply hoare_bind; [apply hoare_lift|]. intros coef. apply hoare_pure. intros Hc.
  apply (lift_cell_WL lv q k i (treat_cell t coef)). intros c c'. apply HF. eapply treat_coef; eauto.
Qed.

Lemma apply_treatment_WI lv q g k t : treat_ok t ->
  (forall coef c c', (0 <= coef <= 1)%Q -> cinv lv c -> treat_cell t coef c = Ok c' ->
                     cinv lv c' /\ hq c' = hq c) ->
  hoare (WI lv q) (apply_treatment g k t) (fun _ w => WI lv q w).
Proof.
  intros Ht HF. unfold apply_treatment. eapply hoare_bind; [apply hoare_ro, ro_get_host|]. intros h.
  apply hoare_mfold. intros rc _.
  eapply hoare_bind; [apply hoare_ro, ro_lift|]. intros i.
  eapply hoare_bind; [apply hoare_lift|]. intros coef. apply hoare_pure. intros Hc.
  apply (lift_cell_WI lv q k i (treat_cell t coef)). intros c c'. apply HF. eapply treat_coef; eauto.
Qed.

(* the end of a pesticide treatment conserves everything, at every level *)
Lemma end_treatment_WI lv q g k t : hoare (WI lv q) (end_treatment g k t) (fun _ w => WI lv q w).
Proof.
  unfold end_treatment. destruct (t_pesticide t); [|apply hoare_ro, ro_ret].
  eapply hoare_bind; [apply hoare_ro, ro_get_host|]. intros h.
  apply hoare_mfold. intros rc _.
  eapply hoare_bind; [apply hoare_ro, ro_lift|]. intros i.
  eapply hoare_bind; [apply hoare_ro, ro_lift|]. intros coef.
  apply (pure_cell_WI lv q k i (treat_pesticide_end coef)). intros c Pc.
  destruct (treat_pesticide_end_spec coef c (cinv_Inv0 _ _ Pc)) as (I0 & Hq & _).
  destruct (treat_pesticide_end_inv coef c (cinv_Inv0 _ _ Pc)) as (IM & IL & _).
  split; [exact (cinv_intro _ _ _ Pc I0 IM IL)|exact Hq].
Qed.

Lemma treat_cell_basic t coef c c' : (0 <= coef <= 1)%Q -> cinv Basic c -> treat_cell t coef c = Ok c' ->
  cinv Basic c' /\ hq c' <= hq c.
Proof.
  intros Hc [I0 _] H. unfold treat_cell in H. destruct (t_pesticide t).
  - destruct (treat_pesticide_spec _ _ _ _ I0 Hc H) as (I0' & Hq & _).
    split; [split; [exact I0'|exact I]|lia].
  - destruct (treat_removal_hq_le _ _ _ _ I0 Hc H) as (I0' & Hq).
    split; [split; [exact I0'|exact I]|exact Hq].
Qed.

Lemma treat_cell_le t coef c c' : t_pesticide t = false -> (0 <= coef <= 1)%Q -> cinv Le c ->
  treat_cell t coef c = Ok c' -> cinv Le c' /\ hq c' <= hq c.
Proof.
  intros Hp Hc [I0 IL] H. unfold treat_cell in H. rewrite Hp in H.
  destruct (treat_removal_hq_le _ _ _ _ I0 Hc H) as (I0' & Hq).
  split; [split; [exact I0'|exact (treat_removal_InvLe _ _ _ _ I0 Hc H IL)]|exact Hq].
Qed.

Lemma treat_cell_pesticide t coef c c' : t_pesticide t = true -> (0 <= coef <= 1)%Q -> cinv Basic c ->
  treat_cell t coef c = Ok c' -> cinv Basic c' /\ hq c' = hq c.
Proof.
  intros Hp Hc [I0 _] H. unfold treat_cell in H. rewrite Hp in H.
  destruct (treat_pesticide_spec _ _ _ _ I0 Hc H) as (I0' & Hq & _).
  split; [split; [exact I0'|exact I]|exact Hq].
Qed.

Theorem act_treatments_WL_basic q g ts step : Forall treat_ok ts ->
  hoare (WL Basic q) (act_treatments g ts step) (fun _ w => WL Basic q w).
Proof.
  intros Hts. unfold act_treatments. apply all_hosts_inv. intros k. unfold manage.
  apply hoare_mfold. intros t Ht. rewrite Forall_forall in Hts. specialize (Hts t Ht).
  destruct (t_start t =? step).
  - apply apply_treatment_WL; [exact Hts|]. intros coef c c'. apply treat_cell_basic.
  - destruct (_ && _); [|apply hoare_ro, ro_ret].
    apply WI_WL. intros q'. apply end_treatment_WI.
Qed.

Theorem act_treatments_WL_le q g ts step : Forall treat_ok ts ->
  Forall (fun t => t_pesticide t = false) ts ->
  hoare (WL Le q) (act_treatments g ts step) (fun _ w => WL Le q w).
Proof.
  intros Hts Hps. unfold act_treatments. apply all_hosts_inv. intros k. unfold manage.
  apply hoare_mfold. intros t Ht. rewrite Forall_forall in Hts, Hps.
  specialize (Hts t Ht). specialize (Hps t Ht).
  destruct (t_start t =? step).
  - apply apply_treatment_WL; [exact Hts|]. intros coef c c'. apply treat_cell_le. exact Hps.
  - destruct (_ && _); [|apply hoare_ro, ro_ret].
    apply WI_WL. intros q'. apply end_treatment_WI.
Qed.

Theorem act_treatments_WI_pesticide q g ts step : Forall treat_ok ts ->
  Forall (fun t => t_pesticide t = true \/ t_start t <> step) ts ->
  hoare (WI Basic q) (act_treatments g ts step) (fun _ w => WI Basic q w).
Proof.
  intros Hts Hps. unfold act_treatments. apply all_hosts_WI. intros k. unfold manage.
  apply hoare_mfold. intros t Ht. rewrite Forall_forall in Hts, Hps.
  specialize (Hts t Ht). specialize (Hps t Ht).
  destruct (t_start t =? step) eqn:Es.
  - apply apply_treatment_WI; [exact Hts|]. intros coef c c'. apply treat_cell_pesticide.
    destruct Hps as [Hp|Hn]; [exact Hp|]. apply Z.eqb_eq in Es. contradiction.
  - destruct (_ && _); [|apply hoare_ro, ro_ret]. apply end_treatment_WI.
Qed.

(* ---------- looking cells up in a world ---------- *)
Definition cell_at (w : world) (k i : nat) : option cell :=
  match nth_error (w_hosts w) k with Some h => nth_error (hp_cells h) i | None => None end.

Lemma cell_at_inv w k i c : cell_at w k i = Some c ->
  exists h, nth_error (w_hosts w) k = Some h /\ nth_error (hp_cells h) i = Some c.
Proof. unfold cell_at. destruct (nth_error (w_hosts w) k) as [h|]; [|discriminate]. eauto. Qed.

Lemma get_cell_at k i w t c w' t' : get_cell k i w t = Ok (c, w', t') ->
  w' = w /\ t' = t /\ cell_at w k i = Some c.
Proof.
  intros H. apply get_cell_inv in H as (-> & -> & h & Hk & Hi). unfold cell_at. rewrite Hk. auto.
Qed.

Lemma winv_cell_at (P : cell -> Prop) w k i c : winv P w -> cell_at w k i = Some c -> P c.
Proof. intros HI H. apply cell_at_inv in H as (h & Hk & Hi). eapply winv_cell; eauto. Qed.

Lemma rset_nth {A} (l : list A) : forall i a l', rset l i a = Ok l' ->
  forall j, nth_error l' j = if Nat.eqb j i then Some a else nth_error l j.
Proof.
  induction l as [|x r IH]; intros i a l' H j; cbn [rset] in H; [discriminate|].
  destruct i as [|i].
  - injection H as <-. destruct j; reflexivity.
  - destruct (rset r i a) as [r'|] eqn:E; [|discriminate]. cbn [bind] in H. injection H as <-.
    destruct j as [|j]; [reflexivity|]. cbn [nth_error Nat.eqb]. apply (IH _ _ _ E).
Qed.

Lemma set_cell_at k i c' w t u w' t' : set_cell k i c' w t = Ok (u, w', t') ->
  forall k' j, cell_at w' k' j = if Nat.eqb k' k && Nat.eqb j i then Some c' else cell_at w k' j.
Proof.
  intros H k' j. unfold set_cell in H.
  apply bind_inv in H as (h & s1 & t1 & G & H). apply get_host_inv in G as (-> & -> & Hk).
  apply bind_inv in H as (cs & s2 & t2 & L & H). apply lift_inv in L as (R1 & -> & ->).
  apply set_host_inv in H as (_ & hs & R2 & ->).
  unfold cell_at. cbn [with_hosts w_hosts]. rewrite (rset_nth _ _ _ _ R2 k').
  destruct (Nat.eqb k' k) eqn:Ek; cbn [andb]; [|reflexivity].
  apply Nat.eqb_eq in Ek. subst k'. rewrite Hk. cbn [hp_cells]. apply (rset_nth _ _ _ _ R1).
Qed.

Lemma set_host_same_cells k h s' w t u w' t' : nth_error (w_hosts w) k = Some h ->
  set_host k (mkhp (hp_cells h) s') w t = Ok (u, w', t') ->
  forall k' j, cell_at w' k' j = cell_at w k' j.
Proof.
  intros Hk H k' j. apply set_host_inv in H as (_ & hs & R & ->).
  unfold cell_at. cbn [with_hosts w_hosts]. rewrite (rset_nth _ _ _ _ R k').
  destruct (Nat.eqb k' k) eqn:Ek; [|reflexivity].
  apply Nat.eqb_eq in Ek. subst k'. rewrite Hk. reflexivity.
Qed.

(* update of a cell found with cell_at *)
Lemma update_cell_at_WI lv q k i c c' delta w t u w' t' :
  WI lv q w -> cell_at w k i = Some c -> cinv lv c' -> hq c' = hq c - delta ->
  set_cell k i c' w t = Ok (u, w', t') -> WI lv (q - delta) w'.
Proof.
  intros HW Hc Pc Hd H. apply cell_at_inv in Hc as (h & Hk & Hi).
  exact (proj1 (update_cell_WI lv q k i c c' delta _ _ _ _ _ _ HW Hk Hi Pc Hd H)).
Qed.

(* ---------- 3. host movement ---------- *)
Lemma draw_phase_inv (n : Z) (l : list Z) w t ed w1 t1 u w2 t2 :
  (if n >? 0 then pop_draw (length l) else ret (map (fun _ => 0) l)) w t = Ok (ed, w1, t1) ->
  (if (n >? 0) && negb (valid_draw l ed n) then fail TapeMismatch else ret tt) w1 t1 = Ok (u, w2, t2) ->
  w1 = w /\ w2 = w /\ (if n >? 0 then valid_draw l ed n = true else ed = zeros_like l).
Proof.
  intros H1 H2. destruct (n >? 0); cbn [andb] in H2.
  - apply ro_pop_draw in H1. subst w1.
    destruct (valid_draw l ed n); cbn [negb] in H2; [|discriminate].
    apply ret_inv in H2 as (_ & -> & _). auto.
  - apply ret_inv in H1 as (-> & -> & _). apply ret_inv in H2 as (_ & -> & _). auto.
Qed.

(* the destination may be appended to the suitable cells: no cell changes *)
Lemma suitable_step_inv lv q (b : bool) rt ct w t u w' t' :
  WI lv q w ->
  (if b then
     let* h := get_host 0 in
     if existsb (fun rc => (fst rc =? rt) && (snd rc =? ct)) (hp_suitable h) then ret tt
     else set_host 0 (mkhp (hp_cells h) (hp_suitable h ++ [(rt, ct)]))
   else ret tt) w t = Ok (u, w', t') ->
  WI lv q w' /\ forall k j, cell_at w' k j = cell_at w k j.
Proof.
  intros HW H. destruct b; [|apply ret_inv in H as (_ & -> & _); auto].
  apply bind_inv in H as (h & s1 & t1 & G & H). apply get_host_inv in G as (-> & -> & Hk).
  destruct (existsb _ _); [apply ret_inv in H as (_ & -> & _); auto|].
  split; [|exact (set_host_same_cells _ _ _ _ _ _ _ _ Hk H)].
  replace q with (q - 0) by lia.
  eapply (set_host_WI lv q 0 h); [exact HW|exact Hk| | |exact H]; cbn [hp_cells]; [|lia].
  exact (winv_host _ _ _ _ (proj1 HW) Hk).
Qed.

Lemma Inv0_TH_nonneg c : Inv0 c -> 0 <= cTH c.
Proof.
  intros H. unfold Inv0 in H. inv0_destruct H. apply sumZ_nonneg in HE. lia.
Qed.

Theorem move_hosts_WI lv q ne nm g rf cf rt ct count : 0 <= count ->
  hoare (fun w => WI lv q w /\ WS ne nm w) (move_hosts g rf cf rt ct count) (fun _ w => WI lv q w).
Proof.
  intros Hcount w t a w' t' [HW HS] H. unfold move_hosts in H. cbv zeta in H.
  apply bind_inv in H as (ifrom & s0 & t0 & E & H). apply lift_inv in E as (_ & -> & ->).
  apply bind_inv in H as (ito & s0 & t0 & E & H). apply lift_inv in E as (_ & -> & ->).
  apply bind_inv in H as (c & s0 & t0 & E & H). apply get_cell_at in E as (-> & -> & Hc).
  apply bind_inv in H as (e & s0 & t0 & E & H). apply pop_inv in E as (-> & ->).
  destruct e as [labels| | | | | | | |]; try discriminate H.
  destruct (negb (labels_below labels 1 5)); [discriminate H|].
  match type of H with (if negb ?v then _ else _) _ _ = _ => destruct v eqn:V4; [|discriminate H] end.
  cbn [negb] in H.
  apply bind_inv in H as (ed & s1 & t1 & E1 & H).
  apply bind_inv in H as (u1 & s2 & t2 & E2 & H).
  destruct (draw_phase_inv _ _ _ _ _ _ _ _ _ _ E1 E2) as (-> & -> & Hed). clear E1 E2.
  apply bind_inv in H as (md & s1 & t3 & E1 & H).
  apply bind_inv in H as (u2 & s2 & t4 & E2 & H).
  destruct (draw_phase_inv _ _ _ _ _ _ _ _ _ _ E1 E2) as (-> & -> & Hmd). clear E1 E2.
  apply bind_inv in H as (cto0 & s0 & t5 & E & H). apply get_cell_at in E as (-> & -> & Hcto).
  apply bind_inv in H as (u3 & w1 & t6 & E & H).
  destruct (suitable_step_inv lv q _ _ _ _ _ _ _ _ HW E) as (HW1 & Hsame). clear E.
  apply bind_inv in H as (c1 & s0 & t7 & E & H). apply get_cell_at in E as (-> & -> & Hc1).
  rewrite Hsame, Hc in Hc1. injection Hc1 as <-.
  apply bind_inv in H as (u4 & w2 & t8 & Es1 & H).
  apply bind_inv in H as (c2 & s0 & t9 & E & H). apply get_cell_at in E as (-> & -> & Hc2).
  apply bind_inv in H as (u5 & w3 & t10 & Es2 & H). apply ret_inv in H as (-> & -> & ->).
  set (sm := count_label labels 2) in *. set (im := count_label labels 1) in *.
  set (em := count_label labels 3) in *. set (rm := count_label labels 4) in *.
  set (moved := if count >? cTH c then cTH c else count) in *.
  pose proof (winv_cell_at _ _ _ _ _ (proj1 HW) Hc) as Pc. pose proof (cinv_Inv0 _ _ Pc) as I0.
  assert (Hmoved : 0 <= moved <= cTH c).
  { pose proof (Inv0_TH_nonneg _ I0). subst moved. destruct (count >? cTH c) eqn:E; lia. }
  assert (Hok : move_draw_ok c sm ed im em rm md moved) by (split; [exact V4|split; assumption]).
  destruct (move_out_spec c sm ed im em rm md moved I0 Hmoved Hok)
    as (O0 & Ohq & OM & OLe & Hs & Hi & He & Hr & Hsum & Hned & Hnmd & Hsed & Hle & Hlm & Hsmd & HsmdM).
  assert (Pout : cinv lv (move_out c sm ed im em rm md moved)) by exact (cinv_intro _ _ _ Pc O0 OM OLe).
  pose proof (update_cell_at_WI lv q 0 ifrom c (move_out c sm ed im em rm md moved) moved _ _ _ _ _
                HW1 (eq_trans (Hsame _ _) Hc) Pout Ohq Es1) as HW2.
  pose proof Hc2 as Hc2w.
  rewrite (set_cell_at _ _ _ _ _ _ _ _ Es1) in Hc2. cbn [Nat.eqb andb] in Hc2.
  replace q with (q - moved - (- moved)) by lia.
  destruct (Nat.eqb ito ifrom) eqn:Eio.
  - injection Hc2 as <-.
    destruct (move_same_cell c sm ed im em rm md moved I0 Hmoved Hok) as (K0 & Khq & KM & KLe).
    eapply (update_cell_at_WI lv (q - moved) 0 ito (move_out c sm ed im em rm md moved)
              (move_in (move_out c sm ed im em rm md moved) sm ed im em rm md moved) (- moved));
      [exact HW2|exact Hc2w|exact (cinv_intro _ _ _ Pc K0 KM KLe)|lia|exact Es2].
  - rewrite Hsame in Hc2.
    pose proof (winv_cell_at _ _ _ _ _ (proj1 HW) Hc2) as Pc2.
    destruct (winv_cell_at _ _ _ _ _ HS Hc2) as [L2e L2m].
    destruct (winv_cell_at _ _ _ _ _ HS Hc) as [L1e L1m].
    destruct (move_in_spec c2 sm ed im em rm md moved (cinv_Inv0 _ _ Pc2) Hs Hi He Hr Hsum Hned Hnmd Hsed
                ltac:(congruence) ltac:(congruence) Hsmd) as (N0 & Nhq & NLe & NM).
    eapply (update_cell_at_WI lv (q - moved) 0 ito c2 (move_in c2 sm ed im em rm md moved) (- moved));
      [exact HW2|exact Hc2w| |lia|exact Es2].
    split; [exact N0|]. destruct Pc2 as [_ Pl2]. destruct Pc as [_ Pl]. destruct lv.
    + exact I.
    + apply NLe, Pl2.
    + apply NM; [exact Pl2|apply HsmdM, Pl].
Qed.

Definition row_ok (r : list Z * Z) : Prop :=
  match fst r with [_; _; _; _; count] => 0 <= count | _ => True end.

Lemma move_hosts_WI_WS lv q ne nm g rf cf rt ct count : 0 <= count ->
  hoare (fun w => WI lv q w /\ WS ne nm w) (move_hosts g rf cf rt ct count)
        (fun _ w => WI lv q w /\ WS ne nm w).
Proof.
  intros Hc w t a w' t' HP H. split.
  - exact (move_hosts_WI lv q ne nm g rf cf rt ct count Hc w t a w' t' HP H).
  - exact (move_hosts_WS ne nm g rf cf rt ct count w t a w' t' (proj2 HP) H).
Qed.

Lemma movement_loop_WI lv q ne nm g step : forall rows i, Forall row_ok rows ->
  hoare (fun w => WI lv q w /\ WS ne nm w) (movement_loop g step rows i)
        (fun _ w => WI lv q w /\ WS ne nm w).
Proof.
  induction rows as [|[mv sched] r IH]; intros i Hr; cbn [movement_loop]; [apply hoare_ro, ro_ret|].
  inversion Hr as [|? ? Hrow Hr']; subst.
  destruct (negb _); [apply hoare_ro, ro_ret|].
  destruct mv as [|rf [|cf [|rt [|ct [|count [|x mv]]]]]]; try apply hoare_fail.
  unfold row_ok in Hrow. cbn [fst] in Hrow.
  eapply hoare_bind; [apply move_hosts_WI_WS; exact Hrow|]. intros ?u. apply IH. exact Hr'.
Qed.

Lemma Forall_skipn_ {A} (P : A -> Prop) n : forall l, Forall P l -> Forall P (skipn n l).
Proof.
  induction n as [|n IH]; intros l H; [exact H|]. destruct l as [|x l]; [constructor|].
  inversion H; subst. cbn [skipn]. apply IH. assumption.
Qed.

Theorem act_movement_WI lv q ne nm g step moves :
  Forall (fun r => match fst r with [_; _; _; _; count] => 0 <= count | _ => True end) moves ->
  hoare (fun w => WI lv q w /\ WS ne nm w) (act_movement g step moves)
        (fun _ w => WI lv q w /\ WS ne nm w).
Proof.
  intros Hm. unfold act_movement.
  eapply hoare_bind; [apply hoare_ro, ro_get|]. intros w0.
  eapply hoare_bind; [apply movement_loop_WI, Forall_skipn_; exact Hm|]. intros k.
  eapply hoare_bind; [apply hoare_get|]. intros w1.
  intros w t a w' t' [-> HW] H. apply put_inv in H as (-> & _). exact HW.
Qed.

(* ---------- 2. overpopulation (level Basic) ---------- *)
Lemma host_field_at_spec (f : cell -> Z) i w t pops w' t' :
  host_field_at f i w t = Ok (pops, w', t') ->
  w' = w /\ Forall2 (fun hp p => exists c, nth_error (hp_cells hp) i = Some c /\ p = f c) (w_hosts w) pops.
Proof.
  intros H. unfold host_field_at in H. apply bind_inv in H as (w0 & s1 & t1 & G & H).
  apply get_inv in G as (-> & -> & ->). apply lift_inv in H as (H & -> & _). split; [reflexivity|].
  revert pops H. induction (w_hosts w) as [|h r IH]; intros pops H; cbn [fold_right] in H.
  - injection H as <-. constructor.
  - destruct (fold_right _ _ r) as [a|] eqn:E; [|discriminate]. cbn [bind] in H.
    destruct (rget (hp_cells h) i) as [c|] eqn:Ec; [|discriminate]. cbn [bind] in H. injection H as <-.
    constructor; [|apply IH; reflexivity]. apply rget_Some in Ec. eauto.
Qed.

Lemma skipn_nth {A} (l : list A) : forall k a, nth_error l k = Some a -> skipn k l = a :: skipn (S k) l.
Proof.
  induction l as [|x r IH]; intros [|k] a H; cbn in H; try discriminate.
  - injection H as ->. reflexivity.
  - cbn [skipn]. apply IH in H. exact H.
Qed.

Lemma rset_skipn {A} (l : list A) : forall k a l', rset l k a = Ok l' -> skipn (S k) l' = skipn (S k) l.
Proof.
  induction l as [|x r IH]; intros k a l' H; cbn [rset] in H; [discriminate|].
  destruct k as [|k].
  - injection H as <-. reflexivity.
  - destruct (rset r k a) as [r'|] eqn:E; [|discriminate]. cbn [bind] in H. injection H as <-.
    change (skipn (S k) r' = skipn (S k) r). apply (IH _ _ _ E).
Qed.

Lemma set_cell_skipn k i c' w t u w' t' : set_cell k i c' w t = Ok (u, w', t') ->
  skipn (S k) (w_hosts w') = skipn (S k) (w_hosts w).
Proof.
  intros H. unfold set_cell in H.
  apply bind_inv in H as (h & s1 & t1 & G & H). apply get_host_inv in G as (-> & -> & Hk).
  apply bind_inv in H as (cs & s2 & t2 & L & H). apply lift_inv in L as (R1 & -> & ->).
  apply set_host_inv in H as (_ & hs & R2 & ->). cbn [with_hosts w_hosts].
  apply (rset_skipn _ _ _ _ R2).
Qed.

Lemma Forall2_comp {A B C} (P : A -> C -> Prop) (Q : B -> C -> Prop) :
  forall l1 l3, Forall2 P l1 l3 -> forall l2, Forall2 Q l2 l3 ->
  Forall2 (fun x y => exists z, P x z /\ Q y z) l1 l2.
Proof.
  induction 1 as [|x z l1 l3 Hxz _ IH]; intros l2 H2; inversion H2; subst; constructor; eauto.
Qed.

Lemma Forall2_weaken {A B} (P Q : A -> B -> Prop) l1 l2 :
  (forall x y, P x y -> Q x y) -> Forall2 P l1 l2 -> Forall2 Q l1 l2.
Proof. intros HPQ H. induction H; constructor; auto. Qed.

(* the validated per-host draw stays within what each host holds at cell i *)
Definition draw_fits (f : cell -> Z) (i : nat) (x : Z) (hp : hostpool) : Prop :=
  exists c, nth_error (hp_cells hp) i = Some c /\ 0 <= x <= f c.

Lemma valid_draw_fits f i w t pops w' t' d count :
  host_field_at f i w t = Ok (pops, w', t') -> valid_draw pops d count = true ->
  w' = w /\ Forall2 (draw_fits f i) d (w_hosts w).
Proof.
  intros H V. apply host_field_at_spec in H as (-> & HF). split; [reflexivity|].
  apply valid_draw_spec in V as (Hpw & _). unfold pointwise_le in Hpw.
  pose proof (Forall2_comp _ _ _ _ Hpw _ HF) as HC. cbv beta in HC.
  eapply Forall2_weaken; [|exact HC]. intros x hp (p & Hx & c & Hc & ->). exists c. auto.
Qed.

Lemma multi_pests_from_WI q i count :
  hoare (WI Basic q) (multi_pests_from i count) (fun _ w => WI Basic q w).
Proof.
  intros w t a w' t' HW H. unfold multi_pests_from in H.
  apply bind_inv in H as (n & s0 & t0 & E & H). apply ro_num_hosts in E. subst s0.
  apply bind_inv in H as (d & s0 & t1 & E & H). apply ro_pop_draw in E. subst s0.
  apply bind_inv in H as (pops & s0 & t2 & Ef & H).
  apply bind_inv in H as (u & s1 & t3 & E & H).
  destruct (valid_draw pops d count) eqn:V; [|discriminate E].
  apply ret_inv in E as (_ & -> & _).
  destruct (valid_draw_fits _ _ _ _ _ _ _ _ _ Ef V) as (-> & Hfit). clear Ef V.
  change (w_hosts w) with (skipn 0 (w_hosts w)) in Hfit.
  revert H HW Hfit. generalize 0 as acc. generalize 0%nat as k. revert w t3 d.
  clear t t0 t1 t2.
  induction n as [|m IH]; intros w t d k acc H HW Hfit.
  - apply ret_inv in H as (_ & -> & _). exact HW.
  - destruct d as [|x r]; [apply ret_inv in H as (_ & -> & _); exact HW|].
    cbv zeta in H.
    apply bind_inv in H as (c & s0 & t4 & E & H). apply get_cell_inv in E as (-> & -> & h & Hk & Hi).
    apply bind_inv in H as (u1 & w1 & t5 & Es & H).
    rewrite (skipn_nth _ _ _ Hk) in Hfit. inversion Hfit as [|? ? ? ? (c0 & Hi0 & Hx) Hrest]; subst.
    rewrite Hi in Hi0. injection Hi0 as <-.
    pose proof (winv_cell _ _ _ _ _ _ (proj1 HW) Hk Hi) as Pc.
    pose proof (pests_from_spec c x (cinv_Inv0 _ _ Pc) Hx) as Sp. unfold pests_from in Sp, Es.
    cbn [fst] in Es. destruct Sp as (I0 & Hq & _).
    assert (HW1 : WI Basic q w1).
    { replace q with (q - 0) by lia.
      refine (proj1 (update_cell_WI Basic q k i c _ 0 _ _ _ _ _ _ HW Hk Hi _ _ Es)); [split; [exact I0|exact I]|lia]. }
    eapply IH; [exact H|exact HW1|]. rewrite (set_cell_skipn _ _ _ _ _ _ _ _ Es). exact Hrest.
Qed.

Lemma multi_pests_to_WI q i count :
  hoare (WI Basic q) (multi_pests_to i count) (fun _ w => WI Basic q w).
Proof.
  intros w t a w' t' HW H. unfold multi_pests_to in H.
  apply bind_inv in H as (n & s0 & t0 & E & H). apply ro_num_hosts in E. subst s0.
  apply bind_inv in H as (d & s0 & t1 & E & H). apply ro_pop_draw in E. subst s0.
  apply bind_inv in H as (pops & s0 & t2 & E & H). apply ro_host_field_at in E. subst s0.
  apply bind_inv in H as (u & s1 & t3 & E & H).
  destruct (valid_draw pops d count) eqn:V; [|discriminate E].
  apply ret_inv in E as (_ & -> & _).
  apply valid_draw_spec in V as (Hpw & _). apply pointwise_le_nonneg_l in Hpw.
  revert H HW Hpw. generalize 0 as acc. generalize 0%nat as k. revert w t3 d.
  clear t t0 t1 t2 pops.
  induction n as [|m IH]; intros w t d k acc H HW Hd.
  - apply ret_inv in H as (_ & -> & _). exact HW.
  - destruct d as [|x r]; [apply ret_inv in H as (_ & -> & _); exact HW|].
    cbv zeta in H.
    apply bind_inv in H as (c & s0 & t4 & E & H). apply get_cell_inv in E as (-> & -> & h & Hk & Hi).
    apply bind_inv in H as (u1 & w1 & t5 & Es & H).
    apply nonneg_cons in Hd as [Hx Hr].
    pose proof (winv_cell _ _ _ _ _ _ (proj1 HW) Hk Hi) as Pc.
    pose proof (pests_to_spec c x (cinv_Inv0 _ _ Pc) Hx) as Sp.
    destruct (pests_to c x) as [c' n'] eqn:Ep. cbn [fst snd] in *. destruct Sp as (I0 & Hq & _).
    assert (HW1 : WI Basic q w1).
    { replace q with (q - 0) by lia.
      refine (proj1 (update_cell_WI Basic q k i c _ 0 _ _ _ _ _ _ HW Hk Hi _ _ Es)); [split; [exact I0|exact I]|lia]. }
    eapply IH; [exact H|exact HW1|exact Hr].
Qed.

Lemma WI_hosts_only lv q : hosts_only (WI lv q).
Proof. intros w w' E H. unfold WI, winv, whq in *. rewrite E. exact H. Qed.

(* cfg_ok is not needed: the per-host draw is validated against the hosts'
   infected counts whatever the requested total is *)
Theorem act_overpopulation_WI_any q g :
  hoare (WI Basic q) (act_overpopulation g) (fun _ w => WI Basic q w).
Proof.
  unfold act_overpopulation.
  eapply hoare_bind;
    [apply overpop_departures_inv; [apply WI_hosts_only|intros i count; apply multi_pests_from_WI]|].
  intros moves. apply hoare_mfold. intros mv _.
  eapply hoare_bind; [apply multi_pests_to_WI|]. intros ?u. apply hoare_ro, ro_ret.
Qed.

Theorem act_overpopulation_WI q g : cfg_ok g ->
  hoare (WI Basic q) (act_overpopulation g) (fun _ w => WI Basic q w).
Proof. intros _. apply act_overpopulation_WI_any. Qed.

Print Assumptions WI_WL.
Print Assumptions act_treatments_WL_basic.
Print Assumptions act_treatments_WL_le.
Print Assumptions act_treatments_WI_pesticide.
Print Assumptions act_overpopulation_WI.
Print Assumptions move_hosts_WI.
Print Assumptions act_movement_WI.
