(* Proofs about CellDefs.v: one raster cell of a HostPool and its mutators.
   Invariants Inv0 / InvM / InvLe and the conserved quantity hq are the
   building blocks of properties C02/C03.  See notes/cellprops_spec.md. *)
From Coq Require Import ZArith QArith Qround List Bool Lia ZifyBool Lqa.
From Pops Require Import Err Rounding CellDefs RoundingProps.
Import ListNotations.
Local Open Scope Z_scope.
Ltac Zify.zify_post_hook ::= Z.div_mod_to_equations.

Definition nonneg (l : list Z) : Prop := Forall (fun x => 0 <= x) l.
Definition Inv0 (c : cell) : Prop :=
  0 <= cS c /\ nonneg (cE c) /\ 0 <= cI c /\ 0 <= cR c /\ nonneg (cM c) /\ 0 <= cD c /\
  cTH c = cS c + sumZ (cE c) + cI c + cR c /\ cTE c = sumZ (cE c).
Definition InvM (c : cell) : Prop := cI c = sumZ (cM c).     (* cohorts maintained *)
Definition InvLe (c : cell) : Prop := sumZ (cM c) <= cI c.   (* weaker: cohorts never exceed infected *)
Definition hq (c : cell) : Z := hosts c + cD c.              (* hosts alive + died: the conserved quantity *)
Definition pointwise_le (a b : list Z) : Prop := Forall2 (fun x y => 0 <= x <= y) a b.

Ltac cellsimpl := cbn [cS cE cI cTE cR cM cD cTH] in *.
Ltac inv0_destruct H := destruct H as (HS & HE & HI & HR & HM & HD & HTH & HTE).

Lemma InvM_InvLe c : InvM c -> InvLe c.
Proof. unfold InvM, InvLe. lia. Qed.

Lemma cell_eta c : c = mkcell (cS c) (cE c) (cI c) (cTE c) (cR c) (cM c) (cD c) (cTH c).
Proof. destruct c; reflexivity. Qed.

(* ------------------------------------------------------------------ *)
(* list helpers                                                        *)
(* ------------------------------------------------------------------ *)

Lemma nonneg_nil : nonneg [].
Proof. constructor. Qed.

Lemma nonneg_cons x l : nonneg (x :: l) <-> 0 <= x /\ nonneg l.
Proof. unfold nonneg. apply Forall_cons_iff. Qed.

Lemma nonneg_app a b : nonneg (a ++ b) <-> nonneg a /\ nonneg b.
Proof. unfold nonneg. apply Forall_app. Qed.

Lemma sumZ_app a b : sumZ (a ++ b) = sumZ a + sumZ b.
Proof. induction a as [|x a IH]; cbn [sumZ app]; lia. Qed.

Lemma sumZ_nonneg l : nonneg l -> 0 <= sumZ l.
Proof. induction 1 as [|x l Hx _ IH]; cbn [sumZ]; lia. Qed.

Lemma sumZ_sub_list a : forall b, length a = length b ->
  sumZ (sub_list a b) = sumZ a - sumZ b.
Proof.
  induction a as [|x a IH]; intros [|y b] HL; cbn [sumZ sub_list length] in *; try lia.
  rewrite IH by lia. lia.
Qed.

Lemma sumZ_add_list a : forall b, length a = length b ->
  sumZ (add_list a b) = sumZ a + sumZ b.
Proof.
  induction a as [|x a IH]; intros [|y b] HL; cbn [sumZ add_list length] in *; try lia.
  rewrite IH by lia. lia.
Qed.

Lemma sub_list_length a : forall b, length (sub_list a b) = length a.
Proof.
  induction a as [|x a IH]; intros [|y b]; cbn [sub_list length]; try reflexivity.
  rewrite IH. reflexivity.
Qed.

Lemma add_list_length a : forall b, length (add_list a b) = length a.
Proof.
  induction a as [|x a IH]; intros [|y b]; cbn [add_list length]; try reflexivity.
  rewrite IH. reflexivity.
Qed.

Lemma pointwise_le_length d a : pointwise_le d a -> length d = length a.
Proof. induction 1 as [|x y d a Hxy _ IH]; cbn [length]; [reflexivity | rewrite IH; reflexivity]. Qed.

Lemma pointwise_le_nonneg_l d a : pointwise_le d a -> nonneg d.
Proof.
  induction 1 as [|x y d a Hxy _ IH]; [constructor|]. apply nonneg_cons. split; [lia | exact IH].
Qed.

Lemma pointwise_le_nonneg_r d a : pointwise_le d a -> nonneg a.
Proof.
  induction 1 as [|x y d a Hxy _ IH]; [constructor|]. apply nonneg_cons. split; [lia | exact IH].
Qed.

Lemma pointwise_le_sum d a : pointwise_le d a -> 0 <= sumZ d <= sumZ a.
Proof. induction 1 as [|x y d a Hxy _ IH]; cbn [sumZ]; lia. Qed.

Lemma pointwise_le_le d a : pointwise_le d a -> Forall2 Z.le d a.
Proof. induction 1 as [|x y d a Hxy _ IH]; constructor; [lia | exact IH]. Qed.

Lemma sub_list_nonneg_le a : forall d, Forall2 Z.le d a -> nonneg (sub_list a d).
Proof.
  induction a as [|x a IH]; intros d H; inversion H as [|y x' d' a' Hyx Hrest]; subst.
  - constructor.
  - cbn [sub_list]. apply nonneg_cons. split; [lia | apply IH; exact Hrest].
Qed.

Lemma sub_list_nonneg d a : pointwise_le d a -> nonneg (sub_list a d).
Proof. intros H. apply sub_list_nonneg_le, pointwise_le_le, H. Qed.

Lemma sub_list_pointwise_le d a : pointwise_le d a -> pointwise_le (sub_list a d) a.
Proof.
  induction 1 as [|x y d a Hxy _ IH]; [constructor|].
  cbn [sub_list]. constructor; [lia | exact IH].
Qed.

Lemma sub_list_map (f : Z -> Z) l : sub_list l (map f l) = map (fun x => x - f x) l.
Proof. induction l as [|x l IH]; cbn [sub_list map]; [reflexivity | rewrite IH; reflexivity]. Qed.

Lemma pointwise_le_map (f : Z -> Z) l :
  (forall x, 0 <= x -> 0 <= f x <= x) -> nonneg l -> pointwise_le (map f l) l.
Proof.
  intros Hf. induction 1 as [|x l Hx _ IH]; cbn [map]; constructor; [apply Hf; exact Hx | exact IH].
Qed.

Lemma map_id_ext (f : Z -> Z) l : (forall x, f x = x) -> map f l = l.
Proof. intros Hf. induction l as [|x l IH]; cbn [map]; [reflexivity | rewrite Hf, IH; reflexivity]. Qed.

Lemma sumZ_map_zero (f : Z -> Z) l : (forall x, f x = 0) -> sumZ (map f l) = 0.
Proof. intros Hf. induction l as [|x l IH]; cbn [map sumZ]; [reflexivity | rewrite Hf, IH; reflexivity]. Qed.

(* add_last *)

Lemma add_last_err v : add_last [] v = Err UB_OutOfBounds.
Proof. reflexivity. Qed.

Lemma add_last_cons x y r v :
  add_last (x :: y :: r) v = bind (add_last (y :: r) v) (fun r' => Ok (x :: r')).
Proof. reflexivity. Qed.

Lemma add_last_app init y v : add_last (init ++ [y]) v = Ok (init ++ [y + v]).
Proof.
  induction init as [|x init IH]; [reflexivity|].
  cbn [app]. destruct (init ++ [y]) as [|z t] eqn:E.
  - destruct init; discriminate.
  - rewrite add_last_cons, IH. reflexivity.
Qed.

Lemma add_last_inv l v l' : add_last l v = Ok l' ->
  exists init y, l = init ++ [y] /\ l' = init ++ [y + v].
Proof.
  destruct l as [|x r]; [discriminate|].
  destruct (@exists_last Z (x :: r)) as (init & y & E); [discriminate|].
  rewrite E, add_last_app. intros H. injection H as <-. exists init, y. split; reflexivity.
Qed.

Lemma add_last_ok l v : l <> [] -> exists l', add_last l v = Ok l'.
Proof.
  intros Hl. destruct (@exists_last Z l Hl) as (init & y & E).
  rewrite E, add_last_app. eexists. reflexivity.
Qed.

Lemma add_last_sum l v l' : add_last l v = Ok l' ->
  sumZ l' = sumZ l + v /\ length l' = length l.
Proof.
  intros H. destruct (add_last_inv _ _ _ H) as (init & y & -> & ->).
  rewrite !sumZ_app, !app_length. cbn [sumZ length]. lia.
Qed.

Lemma add_last_nonneg l v l' : nonneg l -> 0 <= v -> add_last l v = Ok l' -> nonneg l'.
Proof.
  intros Hl Hv H. destruct (add_last_inv _ _ _ H) as (init & y & -> & ->).
  apply nonneg_app in Hl as [Hi Hy]. apply nonneg_cons in Hy as [Hy _].
  apply nonneg_app. split; [exact Hi|]. apply nonneg_cons. split; [lia | constructor].
Qed.

Lemma add_last_nonempty l v l' : add_last l v = Ok l' -> l <> [] /\ l' <> [].
Proof.
  intros H. destruct (add_last_inv _ _ _ H) as (init & y & -> & ->).
  split; destruct init; discriminate.
Qed.

(* rotate_left *)

Lemma rotate_left_sum l : sumZ (rotate_left l) = sumZ l.
Proof. destruct l as [|x r]; cbn [rotate_left sumZ]; [reflexivity|]. rewrite sumZ_app. cbn [sumZ]. lia. Qed.

Lemma rotate_left_nonneg l : nonneg l -> nonneg (rotate_left l).
Proof.
  destruct l as [|x r]; cbn [rotate_left]; intros H; [constructor|].
  apply nonneg_cons in H as [Hx Hr]. apply nonneg_app. split; [exact Hr|].
  apply nonneg_cons. split; [exact Hx | constructor].
Qed.

Lemma rotate_left_length l : length (rotate_left l) = length l.
Proof. destruct l as [|x r]; cbn [rotate_left length]; [reflexivity|]. rewrite app_length. cbn [length]. lia. Qed.

(* draws *)

Lemma draw_within_spec pop : forall d, draw_within pop d = true -> pointwise_le d pop.
Proof.
  induction pop as [|p rp IH]; intros [|x rd] H; cbn [draw_within] in H; try discriminate.
  - constructor.
  - apply andb_true_iff in H as [H Hr]. apply andb_true_iff in H as [H0 H1].
    constructor; [lia | apply IH; exact Hr].
Qed.

Lemma draw_within_complete pop d : pointwise_le d pop -> draw_within pop d = true.
Proof.
  induction 1 as [|x p rd rp Hxp _ IH]; cbn [draw_within]; [reflexivity|].
  rewrite IH. apply andb_true_iff. split; [|reflexivity]. apply andb_true_iff. split; lia.
Qed.

Lemma valid_draw_spec pop d n : valid_draw pop d n = true ->
  pointwise_le d pop /\ sumZ d = draw_total n pop /\ length d = length pop.
Proof.
  unfold valid_draw. intros H. apply andb_true_iff in H as [Hw Hs].
  apply draw_within_spec in Hw. split; [exact Hw|]. split; [lia|].
  apply pointwise_le_length. exact Hw.
Qed.

Lemma valid_draw_complete pop d n :
  pointwise_le d pop -> sumZ d = draw_total n pop -> valid_draw pop d n = true.
Proof.
  intros Hw Hs. unfold valid_draw. rewrite (draw_within_complete _ _ Hw). cbn [andb]. lia.
Qed.

Lemma draw_total_bounds n pop : nonneg pop -> 0 <= n ->
  0 <= draw_total n pop <= n /\ draw_total n pop <= sumZ pop.
Proof.
  intros Hp Hn. apply sumZ_nonneg in Hp. unfold draw_total.
  destruct (n <? 0) eqn:E; lia.
Qed.

Lemma draw_total_exact n pop : 0 <= n <= sumZ pop -> draw_total n pop = n.
Proof. intros H. unfold draw_total. destruct (n <? 0) eqn:E; lia. Qed.

(* all_leb *)

Lemma all_leb_spec m : forall M, length m = length M -> all_leb m M = true -> Forall2 Z.le m M.
Proof.
  induction m as [|x m IH]; intros [|y M] HL H; cbn [length all_leb] in *; try discriminate.
  - constructor.
  - apply andb_true_iff in H as [Hxy Hr]. constructor; [lia | apply IH; [lia | exact Hr]].
Qed.

Lemma all_leb_complete m M : Forall2 Z.le m M -> all_leb m M = true.
Proof.
  induction 1 as [|x y m M Hxy _ IH]; cbn [all_leb]; [reflexivity|].
  rewrite IH. apply andb_true_iff. split; [lia | reflexivity].
Qed.

(* ------------------------------------------------------------------ *)
(* 1. add_disperser                                                    *)
(* ------------------------------------------------------------------ *)

Lemma add_disperser_spec mt c c' n : Inv0 c -> add_disperser mt c = Ok (c', n) ->
  Inv0 c' /\ hq c' = hq c /\ (InvM c -> InvM c') /\ (InvLe c -> InvLe c') /\
  (n = if 0 <? cS c then 1 else 0) /\ cS c' = cS c - n /\
  (mt = SI -> cI c' = cI c + n /\ cE c' = cE c /\ cTE c' = cTE c) /\
  (mt = SEI -> cI c' = cI c /\ sumZ (cE c') = sumZ (cE c) + n /\ cM c' = cM c) /\
  cR c' = cR c /\ cD c' = cD c.
Proof.
  intros HInv H. unfold add_disperser in H.
  destruct (cS c <=? 0) eqn:ES.
  - injection H as <- <-. destruct (0 <? cS c) eqn:E0; [lia|].
    split; [exact HInv|]. split; [reflexivity|]. split; [tauto|]. split; [tauto|].
    split; [reflexivity|]. split; [lia|]. split; [intros _; split; [lia | split; reflexivity]|].
    split; [intros _; split; [lia | split; [lia | reflexivity]]|]. split; reflexivity.
  - destruct (0 <? cS c) eqn:E0; [|lia].
    unfold Inv0, InvM, InvLe, hq, hosts in *. inv0_destruct HInv.
    destruct mt.
    + destruct (add_last (cM c) 1) as [m'|e] eqn:EA; cbn [bind] in H; [|discriminate].
      injection H as <- <-. cellsimpl.
      destruct (add_last_sum _ _ _ EA) as [Hsum Hlen].
      assert (Hnn : nonneg m') by (apply (add_last_nonneg (cM c) 1 m' HM); [lia | exact EA]).
      split; [repeat (split; [first [assumption | lia]|]); lia|].
      split; [lia|]. split; [lia|]. split; [lia|]. split; [reflexivity|]. split; [reflexivity|].
      split; [intros _; split; [reflexivity | split; reflexivity]|].
      split; [intros Hmt; discriminate Hmt|]. split; reflexivity.
    + destruct (add_last (cE c) 1) as [e'|e] eqn:EA; cbn [bind] in H; [|discriminate].
      injection H as <- <-. cellsimpl.
      destruct (add_last_sum _ _ _ EA) as [Hsum Hlen].
      assert (Hnn : nonneg e') by (apply (add_last_nonneg (cE c) 1 e' HE); [lia | exact EA]).
      split; [repeat (split; [first [assumption | lia]|]); lia|].
      split; [lia|]. split; [lia|]. split; [lia|]. split; [reflexivity|]. split; [reflexivity|].
      split; [intros Hmt; discriminate Hmt|].
      split; [intros _; split; [reflexivity | split; [lia | reflexivity]]|]. split; reflexivity.
Qed.

Lemma add_disperser_youngest_SEI c c' n init y :
  cE c = init ++ [y] -> 0 < cS c -> add_disperser SEI c = Ok (c', n) ->
  cE c' = init ++ [y + 1].
Proof.
  intros HE HS H. unfold add_disperser in H.
  destruct (cS c <=? 0) eqn:ES; [lia|].
  rewrite HE, add_last_app in H. cbn [bind] in H. injection H as <- <-. reflexivity.
Qed.

Lemma add_disperser_youngest_SI c c' n init y :
  cM c = init ++ [y] -> 0 < cS c -> add_disperser SI c = Ok (c', n) ->
  cM c' = init ++ [y + 1].
Proof.
  intros HE HS H. unfold add_disperser in H.
  destruct (cS c <=? 0) eqn:ES; [lia|].
  rewrite HE, add_last_app in H. cbn [bind] in H. injection H as <- <-. reflexivity.
Qed.

Lemma add_disperser_youngest mt c c' n init y : 0 < cS c -> add_disperser mt c = Ok (c', n) ->
  (mt = SEI -> cE c = init ++ [y] -> cE c' = init ++ [y + 1]) /\
  (mt = SI -> cM c = init ++ [y] -> cM c' = init ++ [y + 1]).
Proof.
  intros HS H. split; intros -> HL.
  - exact (add_disperser_youngest_SEI _ _ _ _ _ HL HS H).
  - exact (add_disperser_youngest_SI _ _ _ _ _ HL HS H).
Qed.

Lemma add_disperser_ub mt c : 0 < cS c -> (mt = SI -> cM c = []) -> (mt = SEI -> cE c = []) ->
  add_disperser mt c = Err UB_OutOfBounds.
Proof.
  intros HS H1 H2. unfold add_disperser. destruct (cS c <=? 0) eqn:ES; [lia|].
  destruct mt; [rewrite (H1 eq_refl) | rewrite (H2 eq_refl)]; reflexivity.
Qed.

Lemma add_disperser_ok mt c : (mt = SI -> cM c <> []) -> (mt = SEI -> cE c <> []) ->
  exists r, add_disperser mt c = Ok r.
Proof.
  intros H1 H2. unfold add_disperser. destruct (cS c <=? 0) eqn:ES; [eexists; reflexivity|].
  destruct mt.
  - destruct (add_last_ok (cM c) 1 (H1 eq_refl)) as [m' ->]. cbn [bind]. eexists; reflexivity.
  - destruct (add_last_ok (cE c) 1 (H2 eq_refl)) as [e' ->]. cbn [bind]. eexists; reflexivity.
Qed.

(* ------------------------------------------------------------------ *)
(* 2./3. remove_infected, remove_exposed                               *)
(* ------------------------------------------------------------------ *)

Lemma remove_infected_spec c count d c' : Inv0 c -> 0 <= count <= cI c ->
  remove_infected c count d = Ok c' ->
  Inv0 c' /\ hq c' = hq c /\ (InvM c -> InvM c') /\ (InvLe c -> InvLe c') /\
  cI c' = cI c - count /\ cS c' = cS c + count /\ cE c' = cE c /\ cR c' = cR c /\ cD c' = cD c.
Proof.
  intros HInv Hc H. unfold remove_infected in H.
  unfold Inv0, InvM, InvLe, hq, hosts in *. inv0_destruct HInv.
  destruct (count >? 0) eqn:EC.
  - destruct (valid_draw (cM c) d count) eqn:EV; [|discriminate].
    injection H as <-. cellsimpl.
    destruct (valid_draw_spec _ _ _ EV) as (Hpw & Hsum & Hlen).
    pose proof (sub_list_nonneg _ _ Hpw) as Hnn.
    pose proof (sumZ_sub_list (cM c) d (eq_sym Hlen)) as Hss.
    assert (Hdt : draw_total count (cM c) = Z.min count (sumZ (cM c))).
    { unfold draw_total. destruct (count <? 0) eqn:E; [lia | reflexivity]. }
    split; [repeat (split; [first [assumption | lia]|]); lia|].
    split; [lia|]. split; [lia|]. split; [lia|].
    split; [reflexivity|]. split; [reflexivity|]. split; [reflexivity|]. split; reflexivity.
  - injection H as <-. cellsimpl.
    split; [repeat (split; [first [assumption | lia]|]); lia|].
    split; [lia|]. split; [lia|]. split; [lia|].
    split; [reflexivity|]. split; [reflexivity|]. split; [reflexivity|]. split; reflexivity.
Qed.

Lemma remove_infected_ok c count d : valid_draw (cM c) d count = true \/ count <= 0 ->
  exists c', remove_infected c count d = Ok c'.
Proof.
  intros H. unfold remove_infected. destruct (count >? 0) eqn:EC.
  - destruct H as [-> | H]; [eexists; reflexivity | lia].
  - eexists; reflexivity.
Qed.

Lemma remove_exposed_spec c count d c' : Inv0 c -> 0 <= count <= cTE c ->
  remove_exposed c count d = Ok c' ->
  Inv0 c' /\ hq c' = hq c /\ (InvM c -> InvM c') /\ (InvLe c -> InvLe c') /\
  cTE c' = cTE c - count /\ cS c' = cS c + count /\ cI c' = cI c /\ cM c' = cM c /\
  cR c' = cR c /\ cD c' = cD c /\ sumZ (cE c') = sumZ (cE c) - count /\
  length (cE c') = length (cE c).
Proof.
  intros HInv Hc H. unfold remove_exposed in H.
  unfold Inv0, InvM, InvLe, hq, hosts in *. inv0_destruct HInv.
  destruct (count >? 0) eqn:EC.
  - destruct (valid_draw (cE c) d count) eqn:EV; [|discriminate].
    injection H as <-. cellsimpl.
    destruct (valid_draw_spec _ _ _ EV) as (Hpw & Hsum & Hlen).
    pose proof (sub_list_nonneg _ _ Hpw) as Hnn.
    pose proof (sumZ_sub_list (cE c) d (eq_sym Hlen)) as Hss.
    pose proof (sub_list_length (cE c) d) as Hsl.
    assert (Hdt : draw_total count (cE c) = count) by (apply draw_total_exact; lia).
    split; [repeat (split; [first [assumption | lia]|]); lia|].
    split; [lia|]. split; [lia|]. split; [lia|].
    split; [reflexivity|]. split; [reflexivity|]. split; [reflexivity|]. split; [reflexivity|].
    split; [reflexivity|]. split; [reflexivity|]. split; [lia | exact Hsl].
  - injection H as <-. cellsimpl.
    split; [repeat (split; [first [assumption | lia]|]); lia|].
    split; [lia|]. split; [lia|]. split; [lia|].
    split; [reflexivity|]. split; [reflexivity|]. split; [reflexivity|]. split; [reflexivity|].
    split; [reflexivity|]. split; [reflexivity|]. split; [lia | reflexivity].
Qed.

(* ------------------------------------------------------------------ *)
(* 4. pests_from / pests_to                                            *)
(* ------------------------------------------------------------------ *)

Lemma pests_from_spec c count : Inv0 c -> 0 <= count <= cI c ->
  let (c', k) := pests_from c count in
  Inv0 c' /\ hq c' = hq c /\ k = count /\ cI c' = cI c - count /\ cS c' = cS c + count /\
  cM c' = cM c.
Proof.
  intros HInv Hc. unfold pests_from.
  unfold Inv0, hq, hosts in *. inv0_destruct HInv. cellsimpl.
  split; [repeat (split; [first [assumption | lia]|]); lia|].
  split; [lia|]. split; [reflexivity|]. split; [reflexivity|]. split; reflexivity.
Qed.

Lemma pests_to_spec c count : Inv0 c -> 0 <= count ->
  let (c', k) := pests_to c count in
  Inv0 c' /\ hq c' = hq c /\ k = Z.min count (cS c) /\ cI c' = cI c + k /\ cS c' = cS c - k /\
  (InvLe c -> InvLe c').
Proof.
  intros HInv Hc. unfold pests_to.
  unfold Inv0, InvLe, hq, hosts in *. inv0_destruct HInv. cellsimpl.
  destruct (cS c >=? count) eqn:E.
  - split; [repeat (split; [first [assumption | lia]|]); lia|].
    split; [lia|]. split; [lia|]. split; [reflexivity|]. split; [reflexivity | lia].
  - split; [repeat (split; [first [assumption | lia]|]); lia|].
    split; [lia|]. split; [lia|]. split; [reflexivity|]. split; [reflexivity | lia].
Qed.

(* ------------------------------------------------------------------ *)
(* 7. remove_resistance                                                *)
(* ------------------------------------------------------------------ *)

Lemma remove_resistance_spec c : Inv0 c ->
  Inv0 (remove_resistance c) /\ hq (remove_resistance c) = hq c /\
  cR (remove_resistance c) = 0 /\ cS (remove_resistance c) = cS c + cR c /\
  (InvM c -> InvM (remove_resistance c)) /\ (InvLe c -> InvLe (remove_resistance c)) /\
  cE (remove_resistance c) = cE c /\ cI (remove_resistance c) = cI c /\
  cTE (remove_resistance c) = cTE c /\ cM (remove_resistance c) = cM c /\
  cD (remove_resistance c) = cD c /\ cTH (remove_resistance c) = cTH c.
Proof.
  intros HInv. unfold remove_resistance.
  unfold Inv0, InvM, InvLe, hq, hosts in *. inv0_destruct HInv. cellsimpl.
  split; [repeat (split; [first [assumption | lia]|]); lia|].
  split; [lia|]. split; [reflexivity|]. split; [reflexivity|]. split; [tauto|]. split; [tauto|].
  split; [reflexivity|]. split; [reflexivity|]. split; [reflexivity|]. split; [reflexivity|].
  split; reflexivity.
Qed.

(* ------------------------------------------------------------------ *)
(* 10. step_forward                                                    *)
(* ------------------------------------------------------------------ *)

Lemma step_forward_spec mt latency step c c' : Inv0 c -> step_forward mt latency step c = Ok c' ->
  Inv0 c' /\ hq c' = hq c /\ (InvM c -> InvM c') /\ (InvLe c -> InvLe c') /\
  cS c' = cS c /\ cR c' = cR c /\ cD c' = cD c /\ length (cE c') = length (cE c).
Proof.
  intros HInv H. unfold step_forward in H. destruct mt.
  - injection H as <-. split; [exact HInv|]. split; [reflexivity|]. split; [tauto|]. split; [tauto|].
    split; [reflexivity|]. split; [reflexivity|]. split; reflexivity.
  - unfold Inv0, InvM, InvLe, hq, hosts in *. inv0_destruct HInv.
    destruct (cE c) as [|oldest rest] eqn:EE; [discriminate|].
    apply nonneg_cons in HE as [Ho Hrest]. cbn [sumZ] in *.
    destruct (step >=? latency) eqn:ES.
    + destruct (add_last (cM c) oldest) as [m'|e] eqn:EA; cbn [bind] in H; [|discriminate].
      injection H as <-. cellsimpl.
      destruct (add_last_sum _ _ _ EA) as [Hsum Hlen].
      assert (Hnn : nonneg m') by (apply (add_last_nonneg _ _ _ HM Ho EA)).
      assert (Hnr : nonneg (rest ++ [0])).
      { apply nonneg_app. split; [exact Hrest|]. apply nonneg_cons. split; [lia | constructor]. }
      assert (Hsr : sumZ (rest ++ [0]) = sumZ rest) by (rewrite sumZ_app; cbn [sumZ]; lia).
      assert (Hlr : length (rest ++ [0]) = length (oldest :: rest))
        by (rewrite app_length; cbn [length]; lia).
      split; [repeat (split; [first [assumption | lia]|]); lia|].
      split; [lia|]. split; [lia|]. split; [lia|].
      split; [reflexivity|]. split; [reflexivity|]. split; [reflexivity | exact Hlr].
    + injection H as <-. cellsimpl.
      assert (Hnr : nonneg (rest ++ [oldest])).
      { apply nonneg_app. split; [exact Hrest|]. apply nonneg_cons. split; [lia | constructor]. }
      assert (Hsr : sumZ (rest ++ [oldest]) = sumZ rest + oldest) by (rewrite sumZ_app; cbn [sumZ]; lia).
      assert (Hlr : length (rest ++ [oldest]) = length (oldest :: rest))
        by (rewrite app_length; cbn [length]; lia).
      split; [repeat (split; [first [assumption | lia]|]); lia|].
      split; [lia|]. split; [lia|]. split; [lia|].
      split; [reflexivity|]. split; [reflexivity|]. split; [reflexivity | exact Hlr].
Qed.

Lemma step_forward_SI latency step c : step_forward SI latency step c = Ok c.
Proof. reflexivity. Qed.

Lemma step_forward_SI_eq latency step c c' : step_forward SI latency step c = Ok c' -> c' = c.
Proof. cbn [step_forward]. intros H. injection H as <-. reflexivity. Qed.

Lemma step_forward_SEI_infect latency step c c' oldest rest :
  cE c = oldest :: rest -> latency <= step -> step_forward SEI latency step c = Ok c' ->
  cE c' = rest ++ [0] /\ cI c' = cI c + oldest /\ sumZ (cM c') = sumZ (cM c) + oldest /\
  cTE c' = cTE c - oldest /\
  (forall init y, cM c = init ++ [y] -> cM c' = init ++ [y + oldest]).
Proof.
  intros HE HL H. unfold step_forward in H. rewrite HE in H.
  destruct (step >=? latency) eqn:ES; [|lia].
  destruct (add_last (cM c) oldest) as [m'|e] eqn:EA; cbn [bind] in H; [|discriminate].
  injection H as <-. cellsimpl.
  destruct (add_last_sum _ _ _ EA) as [Hsum _].
  split; [reflexivity|]. split; [reflexivity|]. split; [exact Hsum|]. split; [reflexivity|].
  intros init y HM. rewrite HM, add_last_app in EA. injection EA as <-. reflexivity.
Qed.

Lemma step_forward_SEI_wait latency step c c' oldest rest :
  cE c = oldest :: rest -> step < latency -> step_forward SEI latency step c = Ok c' ->
  cE c' = rest ++ [oldest] /\ cI c' = cI c /\ cM c' = cM c /\ cTE c' = cTE c.
Proof.
  intros HE HL H. unfold step_forward in H. rewrite HE in H.
  destruct (step >=? latency) eqn:ES; [lia|].
  injection H as <-. cellsimpl.
  split; [reflexivity|]. split; [reflexivity|]. split; reflexivity.
Qed.

Lemma step_forward_ok mt latency step c : mt = SI \/ (cE c <> [] /\ cM c <> []) ->
  exists c', step_forward mt latency step c = Ok c'.
Proof.
  intros H. unfold step_forward. destruct mt; [eexists; reflexivity|].
  destruct H as [H | [HE HM]]; [discriminate|].
  destruct (cE c) as [|oldest rest]; [contradiction|].
  destruct (step >=? latency); [|eexists; reflexivity].
  destruct (add_last_ok (cM c) oldest HM) as [m' ->]. cbn [bind]. eexists; reflexivity.
Qed.

Lemma step_forward_ub latency step c : cE c = [] ->
  step_forward SEI latency step c = Err UB_OutOfBounds.
Proof. intros H. unfold step_forward. rewrite H. reflexivity. Qed.

(* ------------------------------------------------------------------ *)
(* 9. mortality                                                        *)
(* ------------------------------------------------------------------ *)

Lemma rate_share_bounds rate x : (0 <= rate <= 1)%Q -> 0 <= x ->
  0 <= qfloor (rate * zq x) <= x.
Proof.
  intros Hr Hx. rewrite (qfloor_comp _ (zq x * rate)) by ring.
  apply qfloor_scale_bounds; assumption.
Qed.

Lemma rate_share_zero rate : qfloor (rate * zq 0) = 0.
Proof. rewrite (qfloor_comp _ (zq 0)); [apply qfloor_zq | rewrite zq_0; ring]. Qed.

(* The loop invariant: tracker cohorts are non-negative and sum to at most the
   infected count, which is at most the total-hosts count.  Under it the loop
   never throws, and whatever leaves the cohorts leaves infected and total
   hosts and enters died. *)
Lemma mortality_loop_spec rate : (0 <= rate <= 1)%Q ->
  forall k index m i th d,
  nonneg m -> sumZ m <= i -> i <= th ->
  exists m' i' th' d',
    mortality_loop k index rate m i th d = Ok (m', i', th', d') /\
    nonneg m' /\ sumZ m' <= i' /\
    i - i' = d' - d /\ i - i' = sumZ m - sumZ m' /\ th - th' = i - i' /\
    0 <= i - i' /\ length m' = length m /\ pointwise_le m' m.
Proof.
  intros Hrate. induction k as [|k IH]; intros index m i th d Hm Hsum Hth.
  - exists m, i, th, d. cbn [mortality_loop].
    split; [reflexivity|]. split; [exact Hm|]. split; [exact Hsum|].
    split; [lia|]. split; [lia|]. split; [lia|]. split; [lia|]. split; [reflexivity|].
    apply pointwise_le_map with (f := fun x => x) in Hm; [|intros; lia].
    rewrite map_id in Hm. exact Hm.
  - destruct m as [|x r].
    + exists [], i, th, d. cbn [mortality_loop].
      split; [reflexivity|]. split; [exact Hm|]. split; [exact Hsum|].
      split; [lia|]. split; [lia|]. split; [lia|]. split; [lia|]. split; [reflexivity|]. constructor.
    + apply nonneg_cons in Hm as [Hx Hr]. cbn [sumZ] in Hsum.
      pose proof (sumZ_nonneg _ Hr) as Hr0.
      cbn [mortality_loop]. destruct (x >? 0) eqn:EX.
      * remember (if index =? 0 then x else qfloor (rate * zq x)) as dead eqn:Edead.
        assert (Hdead : 0 <= dead <= x).
        { subst dead. destruct (index =? 0); [lia | apply rate_share_bounds; [exact Hrate | exact Hx]]. }
        destruct (dead >? i) eqn:E1; [lia|].
        destruct (dead >? th) eqn:E2; [lia|].
        destruct (i >? 0) eqn:E3; [|lia].
        destruct (th >? 0) eqn:E4; [|lia].
        destruct (IH (index + 1) r (i - dead) (th - dead) (d + dead) Hr ltac:(lia) ltac:(lia))
          as (m' & i' & th' & d' & Heq & Hnn & Hle & Hd & Hs & Ht & Hpos & Hlen & Hpw).
        exists ((x - dead) :: m'), i', th', d'. rewrite Heq. cbn [bind sumZ length].
        split; [reflexivity|].
        split; [apply nonneg_cons; split; [lia | exact Hnn]|].
        split; [lia|]. split; [lia|]. split; [lia|]. split; [lia|]. split; [lia|]. split; [lia|].
        constructor; [lia | exact Hpw].
      * destruct (IH (index + 1) r i th d Hr ltac:(lia) Hth)
          as (m' & i' & th' & d' & Heq & Hnn & Hle & Hd & Hs & Ht & Hpos & Hlen & Hpw).
        exists (x :: m'), i', th', d'. rewrite Heq. cbn [bind sumZ length].
        split; [reflexivity|].
        split; [apply nonneg_cons; split; [lia | exact Hnn]|].
        split; [lia|]. split; [lia|]. split; [lia|]. split; [lia|]. split; [lia|]. split; [lia|].
        constructor; [lia | exact Hpw].
Qed.

Lemma apply_mortality_rate0 c rate lag : (rate <= 0)%Q -> apply_mortality c rate lag = Ok c.
Proof. intros H. unfold apply_mortality. apply Qle_bool_iff in H. rewrite H. reflexivity. Qed.

Lemma apply_mortality_full c rate lag : Inv0 c -> InvLe c -> (0 <= rate <= 1)%Q -> 0 <= lag ->
  exists c', apply_mortality c rate lag = Ok c' /\
  Inv0 c' /\ hq c' = hq c /\ InvLe c' /\ (InvM c -> InvM c') /\
  cS c' = cS c /\ cE c' = cE c /\ cR c' = cR c /\
  cD c' - cD c = cI c - cI c' /\ 0 <= cD c' - cD c <= cI c /\
  length (cM c') = length (cM c) /\ cTE c' = cTE c /\ pointwise_le (cM c') (cM c).
Proof.
  intros HInv HLe Hrate Hlag. unfold apply_mortality.
  destruct (Qle_bool rate 0) eqn:ER.
  - exists c. split; [reflexivity|]. split; [exact HInv|]. split; [reflexivity|].
    split; [exact HLe|]. split; [tauto|]. split; [reflexivity|]. split; [reflexivity|].
    split; [reflexivity|]. unfold Inv0 in HInv. inv0_destruct HInv.
    split; [lia|]. split; [lia|]. split; [reflexivity|]. split; [reflexivity|].
    apply pointwise_le_map with (f := fun x => x) in HM; [|intros; lia].
    rewrite map_id in HM. exact HM.
  - destruct (lag <? 0) eqn:EL; [lia|].
    unfold Inv0, InvM, InvLe, hq, hosts in *. inv0_destruct HInv.
    pose proof (sumZ_nonneg _ HE) as HE0.
    destruct (mortality_loop_spec rate Hrate
                (Z.to_nat (Z.of_nat (length (cM c)) - lag)) 0 (cM c) (cI c) (cTH c) (cD c)
                HM HLe ltac:(lia))
      as (m' & i' & th' & d' & Heq & Hnn & Hle & Hd & Hs & Ht & Hpos & Hlen & Hpw).
    rewrite Heq. cbn [bind].
    eexists. split; [reflexivity|]. cellsimpl.
    pose proof (sumZ_nonneg _ Hnn) as Hm0.
    split; [repeat (split; [first [assumption | lia]|]); lia|].
    split; [lia|]. split; [lia|]. split; [lia|].
    split; [reflexivity|]. split; [reflexivity|]. split; [reflexivity|].
    split; [lia|]. split; [lia|]. split; [exact Hlen|]. split; [reflexivity | exact Hpw].
Qed.

Lemma apply_mortality_ok c rate lag : Inv0 c -> InvLe c -> (0 <= rate <= 1)%Q -> 0 <= lag ->
  exists c', apply_mortality c rate lag = Ok c'.
Proof.
  intros HInv HLe Hrate Hlag.
  destruct (apply_mortality_full c rate lag HInv HLe Hrate Hlag) as (c' & H & _).
  exists c'. exact H.
Qed.

Lemma apply_mortality_spec c rate lag c' : Inv0 c -> InvLe c -> (0 <= rate <= 1)%Q -> 0 <= lag ->
  apply_mortality c rate lag = Ok c' ->
  Inv0 c' /\ hq c' = hq c /\ InvLe c' /\ (InvM c -> InvM c') /\
  cS c' = cS c /\ cE c' = cE c /\ cR c' = cR c /\
  cD c' - cD c = cI c - cI c' /\ 0 <= cD c' - cD c <= cI c /\
  length (cM c') = length (cM c).
Proof.
  intros HInv HLe Hrate Hlag H.
  destruct (apply_mortality_full c rate lag HInv HLe Hrate Hlag)
    as (c'' & H' & G1 & G2 & G3 & G4 & G5 & G6 & G7 & G8 & G9 & G10 & _).
  rewrite H in H'. injection H' as <-.
  split; [exact G1|]. split; [exact G2|]. split; [exact G3|]. split; [exact G4|].
  split; [exact G5|]. split; [exact G6|]. split; [exact G7|]. split; [exact G8|].
  split; [exact G9 | exact G10].
Qed.

(* further facts about apply_mortality: total_exposed untouched, cohorts only shrink *)
Lemma apply_mortality_extra c rate lag c' : Inv0 c -> InvLe c -> (0 <= rate <= 1)%Q -> 0 <= lag ->
  apply_mortality c rate lag = Ok c' ->
  cTE c' = cTE c /\ pointwise_le (cM c') (cM c) /\ cTH c - cTH c' = cI c - cI c'.
Proof.
  intros HInv HLe Hrate Hlag H.
  destruct (apply_mortality_full c rate lag HInv HLe Hrate Hlag)
    as (c'' & H' & G1 & G2 & G3 & G4 & G5 & G6 & G7 & G8 & G9 & G10 & G11 & G12).
  rewrite H in H'. injection H' as <-.
  split; [exact G11|]. split; [exact G12|].
  unfold Inv0 in HInv, G1. destruct HInv as (_ & _ & _ & _ & _ & _ & T & _).
  destruct G1 as (_ & _ & _ & _ & _ & _ & T' & _). rewrite T, T', G5, G6, G7. lia.
Qed.

(* what each cohort loses *)
Lemma mortality_loop_nth rate : forall k index m i th d m' i' th' d',
  nonneg m -> 0 <= index ->
  mortality_loop k index rate m i th d = Ok (m', i', th', d') ->
  forall j,
    ((k <= j)%nat -> nth j m' 0 = nth j m 0) /\
    ((j < k)%nat -> nth j m' 0 =
       if index + Z.of_nat j =? 0 then 0
       else nth j m 0 - qfloor (rate * zq (nth j m 0))).
Proof.
  induction k as [|k IH]; intros index m i th d m' i' th' d' Hm Hidx H j.
  - cbn [mortality_loop] in H. injection H as <- <- <- <-. split; [reflexivity | lia].
  - destruct m as [|x r].
    + cbn [mortality_loop] in H. injection H as <- <- <- <-.
      split; [reflexivity|]. intros _. destruct j; cbn [nth];
        rewrite rate_share_zero; destruct (_ =? 0); reflexivity.
    + apply nonneg_cons in Hm as [Hx Hr]. cbn [mortality_loop] in H.
      destruct (x >? 0) eqn:EX.
      * remember (if index =? 0 then x else qfloor (rate * zq x)) as dead eqn:Edead.
        destruct (dead >? i) eqn:E1; [discriminate|].
        destruct (dead >? th) eqn:E2; [discriminate|].
        destruct (mortality_loop k (index + 1) rate r
                    (if i >? 0 then i - dead else i) (if th >? 0 then th - dead else th)
                    (d + dead)) as [[[[r' i''] th''] d'']|e] eqn:EL;
          cbn [bind] in H; [|discriminate].
        injection H as <- <- <- <-.
        destruct j as [|j]; cbn [nth].
        -- split; [lia|]. intros _. replace (index + Z.of_nat 0) with index by lia.
           subst dead. destruct (index =? 0); [lia | reflexivity].
        -- assert (Hi1 : 0 <= index + 1) by lia.
           destruct (IH _ _ _ _ _ _ _ _ _ Hr Hi1 EL j) as [A B].
           split; [intros; apply A; lia|]. intros Hj.
           rewrite B by lia.
           replace (index + 1 + Z.of_nat j) with (index + Z.of_nat (S j)) by lia. reflexivity.
      * assert (x = 0) by lia. subst x.
        destruct (mortality_loop k (index + 1) rate r i th d)
          as [[[[r' i''] th''] d'']|e] eqn:EL; cbn [bind] in H; [|discriminate].
        injection H as <- <- <- <-.
        destruct j as [|j]; cbn [nth].
        -- split; [lia|]. intros _. rewrite rate_share_zero.
           destruct (_ =? 0); reflexivity.
        -- assert (Hi1 : 0 <= index + 1) by lia.
           destruct (IH _ _ _ _ _ _ _ _ _ Hr Hi1 EL j) as [A B].
           split; [intros; apply A; lia|]. intros Hj.
           rewrite B by lia.
           replace (index + 1 + Z.of_nat j) with (index + Z.of_nat (S j)) by lia. reflexivity.
Qed.

Lemma apply_mortality_cohorts c rate lag c' : Inv0 c -> (0 < rate)%Q ->
  apply_mortality c rate lag = Ok c' ->
  forall k,
    ((Z.to_nat (Z.of_nat (length (cM c)) - lag) <= k)%nat -> nth k (cM c') 0 = nth k (cM c) 0) /\
    (k = 0%nat -> (0 < Z.to_nat (Z.of_nat (length (cM c)) - lag))%nat -> nth 0 (cM c') 0 = 0) /\
    ((0 < k < Z.to_nat (Z.of_nat (length (cM c)) - lag))%nat ->
       nth k (cM c') 0 = nth k (cM c) 0 - qfloor (rate * zq (nth k (cM c) 0))).
Proof.
  intros HInv Hrate H k. unfold apply_mortality in H.
  destruct (Qle_bool rate 0) eqn:ER; [apply Qle_bool_iff in ER; lra|].
  destruct (lag <? 0) eqn:EL; [discriminate|].
  unfold Inv0 in HInv. inv0_destruct HInv.
  destruct (mortality_loop _ 0 rate (cM c) (cI c) (cTH c) (cD c))
    as [[[[m' i'] th'] d']|e] eqn:EM; cbn [bind] in H; [|discriminate].
  injection H as <-. cellsimpl.
  split; [|split].
  - intros Hk. destruct (mortality_loop_nth rate _ _ _ _ _ _ _ _ _ _ HM (Z.le_refl 0) EM k) as [A _].
    apply A. exact Hk.
  - intros -> Hn. destruct (mortality_loop_nth rate _ _ _ _ _ _ _ _ _ _ HM (Z.le_refl 0) EM 0%nat) as [_ B].
    rewrite B by exact Hn. reflexivity.
  - intros Hk. destruct (mortality_loop_nth rate _ _ _ _ _ _ _ _ _ _ HM (Z.le_refl 0) EM k) as [_ B].
    rewrite B by lia. destruct (0 + Z.of_nat k =? 0) eqn:E; [lia | reflexivity].
Qed.

Example apply_mortality_refuted_without_InvLe :
  let c := mkcell 0 [] 2 0 0 [1; 1; 1] 0 2 in
  Inv0 c /\ sumZ (cM c) > cI c /\ apply_mortality c 1 0 = Err RuntimeError.
Proof.
  split; [|split; [reflexivity | vm_compute; reflexivity]].
  unfold Inv0, nonneg. cbn.
  repeat split; try lia; repeat constructor; lia.
Qed.

Lemma rotate_mortality_spec c : Inv0 c ->
  Inv0 (rotate_mortality c) /\ hq (rotate_mortality c) = hq c /\
  (InvM c -> InvM (rotate_mortality c)) /\ (InvLe c -> InvLe (rotate_mortality c)) /\
  cM (rotate_mortality c) = rotate_left (cM c).
Proof.
  intros HInv. unfold rotate_mortality.
  unfold Inv0, InvM, InvLe, hq, hosts in *. inv0_destruct HInv. cellsimpl.
  pose proof (rotate_left_sum (cM c)) as Hrs. pose proof (rotate_left_nonneg _ HM) as Hrn.
  split; [repeat (split; [first [assumption | lia]|]); lia|].
  split; [lia|]. split; [lia|]. split; [lia | reflexivity].
Qed.

(* ------------------------------------------------------------------ *)
(* 5. completely_remove                                                *)
(* ------------------------------------------------------------------ *)

Lemma cell_ext c c' :
  cS c' = cS c -> cE c' = cE c -> cI c' = cI c -> cTE c' = cTE c -> cR c' = cR c ->
  cM c' = cM c -> cD c' = cD c -> cTH c' = cTH c -> c' = c.
Proof.
  destruct c as [s0 e0 i0 te0 r0 m0 d0 th0]. destruct c' as [s1 e1 i1 te1 r1 m1 d1 th1].
  cbn [cS cE cI cTE cR cM cD cTH]. intros -> -> -> -> -> -> -> ->. reflexivity.
Qed.

Lemma completely_remove_spec c s e i m c' : Inv0 c -> 0 <= s <= cS c ->
  pointwise_le e (cE c) -> 0 <= i <= cI c -> nonneg m ->
  completely_remove c s e i m = Ok c' ->
  Inv0 c' /\ hq c' = hq c - (s + sumZ e + i) /\ cD c' = cD c /\ cR c' = cR c /\
  cS c' = cS c - s /\ cE c' = sub_list (cE c) e /\ cI c' = cI c - i /\
  (0 < i -> cM c' = sub_list (cM c) m) /\ (i = 0 -> cM c' = cM c).
Proof.
  intros HInv Hs Hpe Hi Hm H. unfold completely_remove in H. cbv zeta in H.
  rewrite (pointwise_le_length _ _ Hpe), Nat.eqb_refl in H. cbn [negb] in H.
  assert (Hs1 : (if s >? 0 then cS c - s else cS c) = cS c - s)
    by (destruct (s >? 0) eqn:E; lia).
  rewrite Hs1 in H. clear Hs1.
  pose proof (sub_list_nonneg _ _ Hpe) as Hne.
  pose proof (sumZ_sub_list (cE c) e (eq_sym (pointwise_le_length _ _ Hpe))) as Hse.
  pose proof (pointwise_le_sum _ _ Hpe) as Hsum.
  unfold Inv0, hq, hosts in *. inv0_destruct HInv.
  destruct (i <=? 0) eqn:EI.
  - injection H as <-. unfold reset_total. cellsimpl.
    split; [repeat (split; [first [assumption | lia]|]); lia|].
    split; [lia|]. split; [reflexivity|]. split; [reflexivity|]. split; [reflexivity|].
    split; [reflexivity|]. split; [lia|]. split; [intros; lia | intros; reflexivity].
  - destruct (negb (Nat.eqb (length (cM c)) (length m))) eqn:EL; [discriminate|].
    destruct (negb (all_leb m (cM c))) eqn:EA; [discriminate|].
    apply negb_false_iff in EL, EA. apply Nat.eqb_eq in EL.
    pose proof (sub_list_nonneg_le _ _ (all_leb_spec _ _ (eq_sym EL) EA)) as Hnm.
    injection H as <-. unfold reset_total. cellsimpl.
    split; [repeat (split; [first [assumption | lia]|]); lia|].
    split; [lia|]. split; [reflexivity|]. split; [reflexivity|]. split; [reflexivity|].
    split; [reflexivity|]. split; [reflexivity|]. split; [intros; reflexivity | intros; lia].
Qed.

Lemma completely_remove_ok c s e i m : Inv0 c -> 0 <= s <= cS c ->
  pointwise_le e (cE c) -> 0 <= i <= cI c -> nonneg m ->
  length m = length (cM c) -> pointwise_le m (cM c) ->
  exists c', completely_remove c s e i m = Ok c'.
Proof.
  intros _ _ Hpe _ _ Hlen Hpm. unfold completely_remove. cbv zeta.
  rewrite (pointwise_le_length _ _ Hpe), Nat.eqb_refl. cbn [negb].
  destruct (i <=? 0); [eexists; reflexivity|].
  rewrite Hlen, Nat.eqb_refl. cbn [negb].
  rewrite (all_leb_complete _ _ (pointwise_le_le _ _ Hpm)). cbn [negb].
  eexists; reflexivity.
Qed.

(* the documented exceptions of completely_remove_hosts_at *)
Lemma completely_remove_err_exposed c s e i m : length e <> length (cE c) ->
  completely_remove c s e i m = Err InvalidArgument.
Proof.
  intros H. unfold completely_remove. cbv zeta.
  apply Nat.eqb_neq in H. rewrite H. reflexivity.
Qed.

(* ------------------------------------------------------------------ *)
(* 6. make_resistant                                                   *)
(* ------------------------------------------------------------------ *)

Lemma make_resistant_spec c s e i m c' : Inv0 c -> 0 <= s -> pointwise_le e (cE c) ->
  0 <= i <= cI c -> pointwise_le m (cM c) -> make_resistant c s e i m = Ok c' ->
  Inv0 c' /\ hq c' = hq c /\ hosts c' = hosts c /\ cR c' = cR c + s + sumZ e + i /\
  cS c' = cS c - s /\ s <= cS c /\ cI c' = cI c - i /\ cE c' = sub_list (cE c) e /\
  cM c' = sub_list (cM c) m /\ cD c' = cD c.
Proof.
  intros HInv Hs Hpe Hi Hpm H. unfold make_resistant in H.
  destruct (cS c <? s) eqn:ES; [discriminate|].
  destruct (negb (Nat.eqb (length e) (length (cE c)))) eqn:EE; [discriminate|].
  destruct (negb (Nat.eqb (length (cM c)) (length m))) eqn:EM; [discriminate|].
  injection H as <-.
  pose proof (sub_list_nonneg _ _ Hpe) as Hne.
  pose proof (sub_list_nonneg _ _ Hpm) as Hnm.
  pose proof (sumZ_sub_list (cE c) e (eq_sym (pointwise_le_length _ _ Hpe))) as Hse.
  pose proof (pointwise_le_sum _ _ Hpe) as Hsum.
  unfold Inv0, hq, hosts in *. inv0_destruct HInv. cellsimpl.
  split; [repeat (split; [first [assumption | lia]|]); lia|].
  split; [lia|]. split; [lia|]. split; [lia|]. split; [reflexivity|]. split; [lia|].
  split; [reflexivity|]. split; [reflexivity|]. split; reflexivity.
Qed.

Lemma make_resistant_ok c s e i m : s <= cS c -> length e = length (cE c) ->
  length m = length (cM c) -> exists c', make_resistant c s e i m = Ok c'.
Proof.
  intros Hs He Hm. unfold make_resistant.
  destruct (cS c <? s) eqn:ES; [lia|].
  rewrite He, Hm, !Nat.eqb_refl. cbn [negb]. eexists; reflexivity.
Qed.

Lemma make_resistant_err_susceptible c s e i m : cS c < s ->
  make_resistant c s e i m = Err InvalidArgument.
Proof. intros H. unfold make_resistant. destruct (cS c <? s) eqn:ES; [reflexivity | lia]. Qed.

(* ------------------------------------------------------------------ *)
(* 8. treatments                                                       *)
(* ------------------------------------------------------------------ *)

Lemma qceil_0 : qceil 0 = 0.
Proof. change 0%Q with (zq 0). apply qceil_zq. Qed.

Lemma qfloor_0 : qfloor 0 = 0.
Proof. change 0%Q with (zq 0). apply qfloor_zq. Qed.

Lemma gt_ceil_bounds app coef x : (0 <= coef <= 1)%Q -> 0 <= x ->
  0 <= qceil (get_treated app coef x) <= x.
Proof.
  intros Hc Hx. destruct app; cbn [get_treated].
  - apply qceil_scale_bounds; assumption.
  - destruct (Qeq_bool coef 0); [rewrite qceil_0 | rewrite qceil_zq]; lia.
Qed.

Lemma gt_floor_bounds app coef x : (0 <= coef <= 1)%Q -> 0 <= x ->
  0 <= qfloor (get_treated app coef x) <= x.
Proof.
  intros Hc Hx. destruct app; cbn [get_treated].
  - apply qfloor_scale_bounds; assumption.
  - destruct (Qeq_bool coef 0); [rewrite qfloor_0 | rewrite qfloor_zq]; lia.
Qed.

Lemma gt_coef0 app coef x : (coef == 0)%Q -> (get_treated app coef x == 0)%Q.
Proof.
  intros Hc. destruct app; cbn [get_treated].
  - rewrite Hc. ring.
  - apply Qeq_bool_iff in Hc. rewrite Hc. reflexivity.
Qed.

Lemma gt_coef1 app coef x : (coef == 1)%Q -> (get_treated app coef x == zq x)%Q.
Proof.
  intros Hc. destruct app; cbn [get_treated].
  - rewrite Hc. ring.
  - destruct (Qeq_bool coef 0) eqn:E; [|reflexivity].
    apply Qeq_bool_iff in E. lra.
Qed.

Lemma gt_ceil_coef0 app coef x : (coef == 0)%Q -> qceil (get_treated app coef x) = 0.
Proof. intros Hc. rewrite (qceil_comp _ 0%Q (gt_coef0 app coef x Hc)). apply qceil_0. Qed.

Lemma gt_floor_coef0 app coef x : (coef == 0)%Q -> qfloor (get_treated app coef x) = 0.
Proof. intros Hc. rewrite (qfloor_comp _ 0%Q (gt_coef0 app coef x Hc)). apply qfloor_0. Qed.

Lemma gt_ceil_coef1 app coef x : (coef == 1)%Q -> qceil (get_treated app coef x) = x.
Proof. intros Hc. rewrite (qceil_comp _ _ (gt_coef1 app coef x Hc)). apply qceil_zq. Qed.

Lemma gt_floor_coef1 app coef x : (coef == 1)%Q -> qfloor (get_treated app coef x) = x.
Proof. intros Hc. rewrite (qfloor_comp _ _ (gt_coef1 app coef x Hc)). apply qfloor_zq. Qed.

Lemma sumZ_map_sub (f : Z -> Z) l :
  sumZ (map (fun x => x - f x) l) = sumZ l - sumZ (map f l).
Proof. induction l as [|x l IH]; cbn [map sumZ]; lia. Qed.

Lemma Forall_map_zero (f : Z -> Z) l : (forall x, f x = 0) ->
  Forall (fun x => x = 0) (map f l).
Proof. intros Hf. induction l as [|x l IH]; cbn [map]; constructor; [apply Hf | exact IH]. Qed.

Lemma treat_removal_spec app coef c c' : Inv0 c -> (0 <= coef <= 1)%Q ->
  treat_removal app coef c = Ok c' ->
  Inv0 c' /\
  hq c' = hq c - (qceil (get_treated Ratio coef (cS c))
                  + sumZ (map (fun x => qceil (get_treated app coef x)) (cE c))
                  + qceil (get_treated app coef (cI c))) /\
  cD c' = cD c /\ cR c' = cR c /\
  cS c' = cS c - qceil (zq (cS c) * coef) /\
  cE c' = map (fun x => x - qceil (get_treated app coef x)) (cE c) /\
  cI c' = cI c - qceil (get_treated app coef (cI c)) /\
  (0 < qceil (get_treated app coef (cI c)) ->
     cM c' = map (fun x => x - qceil (get_treated app coef x)) (cM c)) /\
  (qceil (get_treated app coef (cI c)) = 0 -> cM c' = cM c).
Proof.
  intros HInv Hc H. unfold treat_removal in H.
  pose proof HInv as HInv'. unfold Inv0 in HInv'. inv0_destruct HInv'.
  assert (Hf : forall x, 0 <= x -> 0 <= qceil (get_treated app coef x) <= x)
    by (intros x Hx; apply gt_ceil_bounds; assumption).
  apply completely_remove_spec in H;
    [ | exact HInv | apply gt_ceil_bounds; assumption
      | apply pointwise_le_map; assumption | apply Hf; exact HI
      | apply (pointwise_le_nonneg_l _ (cM c)); apply pointwise_le_map; assumption ].
  destruct H as (G1 & G2 & G3 & G4 & G5 & G6 & G7 & G8 & G9).
  rewrite sub_list_map in G6, G8.
  split; [exact G1|]. split; [exact G2|]. split; [exact G3|]. split; [exact G4|].
  split; [exact G5|]. split; [exact G6|]. split; [exact G7|]. split; [exact G8 | exact G9].
Qed.

Lemma treat_removal_ok app coef c : Inv0 c -> (0 <= coef <= 1)%Q ->
  exists c', treat_removal app coef c = Ok c'.
Proof.
  intros HInv Hc. unfold treat_removal.
  pose proof HInv as HInv'. unfold Inv0 in HInv'. inv0_destruct HInv'.
  assert (Hf : forall x, 0 <= x -> 0 <= qceil (get_treated app coef x) <= x)
    by (intros x Hx; apply gt_ceil_bounds; assumption).
  apply completely_remove_ok;
    [ exact HInv | apply gt_ceil_bounds; assumption
      | apply pointwise_le_map; assumption | apply Hf; exact HI
      | apply (pointwise_le_nonneg_l _ (cM c)); apply pointwise_le_map; assumption
      | apply map_length | apply pointwise_le_map; assumption ].
Qed.

Lemma treat_removal_InvLe app coef c c' : Inv0 c -> (0 <= coef <= 1)%Q ->
  treat_removal app coef c = Ok c' -> InvLe c -> InvLe c'.
Proof.
  intros HInv Hc H HLe.
  destruct (treat_removal_spec app coef c c' HInv Hc H)
    as (_ & _ & _ & _ & _ & _ & GI & GM1 & GM0).
  unfold Inv0 in HInv. inv0_destruct HInv. unfold InvLe in *.
  pose proof (gt_ceil_bounds app coef (cI c) Hc HI) as Hb.
  assert (Hcase : qceil (get_treated app coef (cI c)) = 0 \/ 0 < qceil (get_treated app coef (cI c)))
    by lia.
  destruct Hcase as [Hz | Hp].
  - rewrite (GM0 Hz), GI. lia.
  - rewrite (GM1 Hp), GI, sumZ_map_sub. clear GM0 GM1 GI.
    destruct app; cbn [get_treated] in *.
    + pose proof (sum_ceil_ge_ceil_sum coef (cM c) (proj1 Hc) HM) as H1.
      pose proof (sumZ_nonneg _ HM) as H0.
      pose proof (ceil_complement_mono coef (sumZ (cM c)) (cI c) Hc (conj H0 HLe)) as H2.
      lia.
    + destruct (Qeq_bool coef 0) eqn:EQ.
      * rewrite qceil_0 in Hp. lia.
      * rewrite qceil_zq.
        rewrite (map_id_ext (fun x => qceil (zq x)) (cM c)) by (intros; apply qceil_zq). lia.
Qed.

Lemma treat_removal_InvM_AllInfected coef c c' : Inv0 c -> (0 <= coef <= 1)%Q ->
  treat_removal AllInfectedInCell coef c = Ok c' -> InvM c -> InvM c'.
Proof.
  intros HInv Hc H HMm.
  destruct (treat_removal_spec _ coef c c' HInv Hc H)
    as (_ & _ & _ & _ & _ & _ & GI & GM1 & GM0).
  unfold Inv0 in HInv. inv0_destruct HInv. unfold InvM in *.
  cbn [get_treated] in *. destruct (Qeq_bool coef 0) eqn:EQ.
  - rewrite qceil_0 in *. rewrite (GM0 eq_refl), GI. lia.
  - rewrite qceil_zq in *.
    assert (Hcase : cI c = 0 \/ 0 < cI c) by lia. destruct Hcase as [Hz | Hp].
    + rewrite (GM0 Hz), GI. lia.
    + rewrite (GM1 Hp), GI, sumZ_map_sub.
      rewrite (map_id_ext (fun x => qceil (zq x)) (cM c)) by (intros; apply qceil_zq). lia.
Qed.

Lemma treat_removal_coef1 app coef c c' : Inv0 c -> (coef == 1)%Q ->
  treat_removal app coef c = Ok c' ->
  cS c' = 0 /\ cI c' = 0 /\ Forall (fun x => x = 0) (cE c') /\
  (0 < cI c -> Forall (fun x => x = 0) (cM c')).
Proof.
  intros HInv Hc1 H.
  assert (Hc : (0 <= coef <= 1)%Q) by lra.
  destruct (treat_removal_spec app coef c c' HInv Hc H)
    as (_ & _ & _ & _ & GS & GE & GI & GM1 & _).
  rewrite (gt_ceil_coef1 app coef (cI c) Hc1) in GI, GM1.
  pose proof (gt_ceil_coef1 Ratio coef (cS c) Hc1) as HS1. cbn [get_treated] in HS1.
  rewrite HS1 in GS.
  split; [lia|]. split; [lia|]. split.
  - rewrite GE. apply Forall_map_zero. intros x. rewrite gt_ceil_coef1 by exact Hc1. lia.
  - intros Hp. rewrite (GM1 Hp). apply Forall_map_zero. intros x.
    rewrite gt_ceil_coef1 by exact Hc1. lia.
Qed.

Lemma treat_removal_coef0 app coef c c' : Inv0 c -> (coef == 0)%Q ->
  treat_removal app coef c = Ok c' -> c' = c.
Proof.
  intros HInv Hc0 H.
  assert (Hc : (0 <= coef <= 1)%Q) by lra.
  destruct (treat_removal_spec app coef c c' HInv Hc H)
    as (G1 & _ & GD & GR & GS & GE & GI & _ & GM0).
  rewrite (gt_ceil_coef0 app coef (cI c) Hc0) in GI, GM0.
  pose proof (gt_ceil_coef0 Ratio coef (cS c) Hc0) as HS0. cbn [get_treated] in HS0.
  rewrite HS0 in GS.
  assert (GE' : cE c' = cE c).
  { rewrite GE. apply map_id_ext. intros x. rewrite gt_ceil_coef0 by exact Hc0. lia. }
  unfold Inv0 in HInv, G1.
  destruct HInv as (_ & _ & _ & _ & _ & _ & T & TE).
  destruct G1 as (_ & _ & _ & _ & _ & _ & T' & TE').
  apply cell_ext.
  - lia.
  - exact GE'.
  - lia.
  - rewrite TE', TE, GE'. reflexivity.
  - exact GR.
  - exact (GM0 eq_refl).
  - exact GD.
  - rewrite T', T, GE'. lia.
Qed.

(* pesticide treatment *)

Lemma treat_pesticide_spec app coef c c' : Inv0 c -> (0 <= coef <= 1)%Q ->
  treat_pesticide app coef c = Ok c' ->
  Inv0 c' /\ hq c' = hq c /\ hosts c' = hosts c /\
  cR c' = cR c + qfloor (get_treated Ratio coef (cS c))
               + sumZ (map (fun x => qfloor (get_treated app coef x)) (cE c))
               + qfloor (get_treated app coef (cI c)) /\
  cS c' = cS c - qfloor (zq (cS c) * coef) /\
  cE c' = map (fun x => x - qfloor (get_treated app coef x)) (cE c) /\
  cI c' = cI c - qfloor (get_treated app coef (cI c)) /\
  cM c' = map (fun x => x - qfloor (get_treated app coef x)) (cM c) /\
  cD c' = cD c.
Proof.
  intros HInv Hc H. unfold treat_pesticide in H.
  pose proof HInv as HInv'. unfold Inv0 in HInv'. inv0_destruct HInv'.
  assert (Hf : forall x, 0 <= x -> 0 <= qfloor (get_treated app coef x) <= x)
    by (intros x Hx; apply gt_floor_bounds; assumption).
  apply make_resistant_spec in H;
    [ | exact HInv | apply gt_floor_bounds; assumption
      | apply pointwise_le_map; assumption | apply Hf; exact HI
      | apply pointwise_le_map; assumption ].
  destruct H as (G1 & G2 & G3 & G4 & G5 & _ & G7 & G8 & G9 & G10).
  rewrite sub_list_map in G8, G9.
  split; [exact G1|]. split; [exact G2|]. split; [exact G3|]. split; [exact G4|].
  split; [exact G5|]. split; [exact G8|]. split; [exact G7|]. split; [exact G9 | exact G10].
Qed.

Lemma treat_pesticide_ok app coef c : Inv0 c -> (0 <= coef <= 1)%Q ->
  exists c', treat_pesticide app coef c = Ok c'.
Proof.
  intros HInv Hc. unfold treat_pesticide.
  unfold Inv0 in HInv. inv0_destruct HInv.
  apply make_resistant_ok; [ | apply map_length | apply map_length ].
  apply (gt_floor_bounds Ratio coef (cS c) Hc HS).
Qed.

Lemma treat_pesticide_coef0 app coef c c' : Inv0 c -> (coef == 0)%Q ->
  treat_pesticide app coef c = Ok c' -> c' = c.
Proof.
  intros HInv Hc0 H.
  assert (Hc : (0 <= coef <= 1)%Q) by lra.
  destruct (treat_pesticide_spec app coef c c' HInv Hc H)
    as (G1 & _ & _ & GR & GS & GE & GI & GM & GD).
  rewrite (gt_floor_coef0 app coef (cI c) Hc0) in GI, GR.
  rewrite (gt_floor_coef0 Ratio coef (cS c) Hc0) in GR.
  pose proof (gt_floor_coef0 Ratio coef (cS c) Hc0) as HS0. cbn [get_treated] in HS0.
  rewrite HS0 in GS.
  rewrite (sumZ_map_zero (fun x => qfloor (get_treated app coef x)) (cE c)) in GR
    by (intros x; apply gt_floor_coef0; exact Hc0).
  assert (GE' : cE c' = cE c).
  { rewrite GE. apply map_id_ext. intros x. rewrite gt_floor_coef0 by exact Hc0. lia. }
  assert (GM' : cM c' = cM c).
  { rewrite GM. apply map_id_ext. intros x. rewrite gt_floor_coef0 by exact Hc0. lia. }
  unfold Inv0 in HInv, G1.
  destruct HInv as (_ & _ & _ & _ & _ & _ & T & TE).
  destruct G1 as (_ & _ & _ & _ & _ & _ & T' & TE').
  apply cell_ext.
  - lia.
  - exact GE'.
  - lia.
  - rewrite TE', TE, GE'. reflexivity.
  - lia.
  - exact GM'.
  - exact GD.
  - rewrite T', T, GE'. lia.
Qed.

Lemma treat_pesticide_coef1 app coef c c' : Inv0 c -> (coef == 1)%Q ->
  treat_pesticide app coef c = Ok c' ->
  cS c' = 0 /\ cI c' = 0 /\ Forall (fun x => x = 0) (cE c') /\
  Forall (fun x => x = 0) (cM c') /\ cR c' = hosts c.
Proof.
  intros HInv Hc1 H.
  assert (Hc : (0 <= coef <= 1)%Q) by lra.
  destruct (treat_pesticide_spec app coef c c' HInv Hc H)
    as (_ & _ & _ & GR & GS & GE & GI & GM & _).
  rewrite (gt_floor_coef1 app coef (cI c) Hc1) in GI, GR.
  rewrite (gt_floor_coef1 Ratio coef (cS c) Hc1) in GR.
  pose proof (gt_floor_coef1 Ratio coef (cS c) Hc1) as HS1. cbn [get_treated] in HS1.
  rewrite HS1 in GS.
  rewrite (map_id_ext (fun x => qfloor (get_treated app coef x)) (cE c)) in GR
    by (intros x; apply gt_floor_coef1; exact Hc1).
  split; [lia|]. split; [lia|]. split; [|split].
  - rewrite GE. apply Forall_map_zero. intros x. rewrite gt_floor_coef1 by exact Hc1. lia.
  - rewrite GM. apply Forall_map_zero. intros x. rewrite gt_floor_coef1 by exact Hc1. lia.
  - unfold hosts. lia.
Qed.

(* Rounding the shares down does NOT keep the tracker cohorts below the infected
   count: two cohorts of 1 lose floor(1/2) = 0 each, infected loses floor(2/2) = 1. *)
Example treat_pesticide_breaks_InvLe :
  let c := mkcell 0 [] 2 0 0 [1; 1] 0 2 in
  exists c', treat_pesticide Ratio (1 # 2) c = Ok c' /\ Inv0 c /\ InvM c /\
             sumZ (cM c') = 2 /\ cI c' = 1.
Proof.
  eexists. split; [vm_compute; reflexivity|].
  split; [|split; [reflexivity | split; reflexivity]].
  unfold Inv0, nonneg. cbn.
  repeat split; try lia; repeat constructor; lia.
Qed.

Lemma treat_pesticide_end_spec coef c : Inv0 c ->
  Inv0 (treat_pesticide_end coef c) /\ hq (treat_pesticide_end coef c) = hq c /\
  ((0 < coef)%Q -> cR (treat_pesticide_end coef c) = 0 /\
                   cS (treat_pesticide_end coef c) = cS c + cR c) /\
  ((coef <= 0)%Q -> treat_pesticide_end coef c = c).
Proof.
  intros HInv. unfold treat_pesticide_end, qltb.
  destruct (Qle_bool coef 0) eqn:E; cbn [negb].
  - apply Qle_bool_iff in E. split; [exact HInv|]. split; [reflexivity|].
    split; [intros Hp; lra | intros _; reflexivity].
  - destruct (remove_resistance_spec c HInv) as (G1 & G2 & G3 & G4 & _).
    split; [exact G1|]. split; [exact G2|]. split; [intros _; split; assumption|].
    intros Hle. apply Qle_bool_iff in Hle. congruence.
Qed.

Lemma treat_pesticide_end_inv coef c : Inv0 c ->
  (InvM c -> InvM (treat_pesticide_end coef c)) /\
  (InvLe c -> InvLe (treat_pesticide_end coef c)) /\
  cI (treat_pesticide_end coef c) = cI c /\ cE (treat_pesticide_end coef c) = cE c /\
  cM (treat_pesticide_end coef c) = cM c /\ cD (treat_pesticide_end coef c) = cD c.
Proof.
  intros HInv. unfold treat_pesticide_end. destruct (qltb 0 coef).
  - destruct (remove_resistance_spec c HInv) as (_ & _ & _ & _ & G5 & G6 & G7 & G8 & _ & G10 & G11 & _).
    split; [exact G5|]. split; [exact G6|]. split; [exact G8|]. split; [exact G7|].
    split; [exact G10 | exact G11].
  - split; [tauto|]. split; [tauto|]. split; [reflexivity|]. split; [reflexivity|].
    split; reflexivity.
Qed.

(* Rounding the shares up does NOT keep the exact equality InvM (it keeps only
   InvLe, see treat_removal_InvLe): two cohorts of 1 lose ceil(1/2) = 1 each,
   infected loses ceil(2/2) = 1. *)
Example treat_removal_breaks_InvM :
  let c := mkcell 0 [] 2 0 0 [1; 1] 0 2 in
  exists c', treat_removal Ratio (1 # 2) c = Ok c' /\ Inv0 c /\ InvM c /\
             sumZ (cM c') = 0 /\ cI c' = 1.
Proof.
  eexists. split; [vm_compute; reflexivity|].
  split; [|split; [reflexivity | split; reflexivity]].
  unfold Inv0, nonneg. cbn.
  repeat split; try lia; repeat constructor; lia.
Qed.

(* ------------------------------------------------------------------ *)
(* 9b. mortality without InvLe: an Ok result already says the checks    *)
(*     dead <= infected and dead <= total_hosts passed                  *)
(* ------------------------------------------------------------------ *)

Lemma mortality_loop_ok_spec rate : (0 <= rate <= 1)%Q ->
  forall k index m i th d m' i' th' d',
  nonneg m -> 0 <= i <= th ->
  mortality_loop k index rate m i th d = Ok (m', i', th', d') ->
  nonneg m' /\ 0 <= i' /\ i - i' = d' - d /\ th - th' = d' - d /\
  sumZ m - sumZ m' = d' - d /\ 0 <= d' - d /\ length m' = length m /\ pointwise_le m' m.
Proof.
  intros Hrate. induction k as [|k IH]; intros index m i th d m' i' th' d' Hm Hi H.
  - cbn [mortality_loop] in H. injection H as <- <- <- <-.
    split; [exact Hm|]. split; [lia|]. split; [lia|]. split; [lia|]. split; [lia|].
    split; [lia|]. split; [reflexivity|].
    apply pointwise_le_map with (f := fun x => x) in Hm; [|intros; lia].
    rewrite map_id in Hm. exact Hm.
  - destruct m as [|x r].
    + cbn [mortality_loop] in H. injection H as <- <- <- <-.
      split; [exact Hm|]. split; [lia|]. split; [lia|]. split; [lia|]. split; [lia|].
      split; [lia|]. split; [reflexivity | constructor].
    + apply nonneg_cons in Hm as [Hx Hr]. cbn [mortality_loop] in H.
      destruct (x >? 0) eqn:EX.
      * remember (if index =? 0 then x else qfloor (rate * zq x)) as dead eqn:Edead.
        assert (Hdead : 0 <= dead <= x).
        { subst dead. destruct (index =? 0); [lia | apply rate_share_bounds; [exact Hrate | exact Hx]]. }
        destruct (dead >? i) eqn:E1; [discriminate|].
        destruct (dead >? th) eqn:E2; [discriminate|].
        assert (Hi' : (if i >? 0 then i - dead else i) = i - dead)
          by (destruct (i >? 0) eqn:E3; lia).
        assert (Hth' : (if th >? 0 then th - dead else th) = th - dead)
          by (destruct (th >? 0) eqn:E4; lia).
        rewrite Hi', Hth' in H. clear Hi' Hth'.
        destruct (mortality_loop k (index + 1) rate r (i - dead) (th - dead) (d + dead))
          as [[[[r' i''] th''] d'']|e] eqn:EL; cbn [bind] in H; [|discriminate].
        injection H as <- <- <- <-.
        assert (Hi2 : 0 <= i - dead <= th - dead) by lia.
        destruct (IH _ _ _ _ _ _ _ _ _ Hr Hi2 EL)
          as (Hnn & Hi0 & Hd & Ht & Hs & Hpos & Hlen & Hpw).
        cbn [sumZ length].
        split; [apply nonneg_cons; split; [lia | exact Hnn]|].
        split; [lia|]. split; [lia|]. split; [lia|]. split; [lia|]. split; [lia|].
        split; [lia|]. constructor; [lia | exact Hpw].
      * destruct (mortality_loop k (index + 1) rate r i th d)
          as [[[[r' i''] th''] d'']|e] eqn:EL; cbn [bind] in H; [|discriminate].
        injection H as <- <- <- <-.
        destruct (IH _ _ _ _ _ _ _ _ _ Hr Hi EL)
          as (Hnn & Hi0 & Hd & Ht & Hs & Hpos & Hlen & Hpw).
        cbn [sumZ length].
        split; [apply nonneg_cons; split; [lia | exact Hnn]|].
        split; [lia|]. split; [lia|]. split; [lia|]. split; [lia|]. split; [lia|].
        split; [lia|]. constructor; [lia | exact Hpw].
Qed.

Lemma apply_mortality_Inv0 c rate lag c' : Inv0 c -> (0 <= rate <= 1)%Q -> 0 <= lag ->
  apply_mortality c rate lag = Ok c' ->
  Inv0 c' /\ hq c' = hq c /\ cS c' = cS c /\ cE c' = cE c /\ cTE c' = cTE c /\ cR c' = cR c /\
  cD c' - cD c = cI c - cI c' /\ 0 <= cD c' - cD c <= cI c /\
  length (cM c') = length (cM c) /\ (InvM c -> InvM c').
Proof.
  intros HInv Hrate Hlag H. unfold apply_mortality in H.
  destruct (Qle_bool rate 0) eqn:ER.
  - injection H as <-. unfold Inv0 in HInv. pose proof HInv as HInv'. inv0_destruct HInv'.
    split; [exact HInv|]. split; [reflexivity|]. split; [reflexivity|]. split; [reflexivity|].
    split; [reflexivity|]. split; [reflexivity|]. split; [lia|]. split; [lia|].
    split; [reflexivity | tauto].
  - destruct (lag <? 0) eqn:EL; [discriminate|].
    unfold Inv0, InvM, hq, hosts in *. inv0_destruct HInv.
    pose proof (sumZ_nonneg _ HE) as HE0.
    destruct (mortality_loop _ 0 rate (cM c) (cI c) (cTH c) (cD c))
      as [[[[m' i'] th'] d']|e] eqn:EM; cbn [bind] in H; [|discriminate].
    injection H as <-. cellsimpl.
    assert (Hith : 0 <= cI c <= cTH c) by lia.
    destruct (mortality_loop_ok_spec rate Hrate _ _ _ _ _ _ _ _ _ _ HM Hith EM)
      as (Hnn & Hi0 & Hd & Ht & Hs & Hpos & Hlen & Hpw).
    split; [repeat (split; [first [assumption | lia]|]); lia|].
    split; [lia|]. split; [reflexivity|]. split; [reflexivity|]. split; [reflexivity|].
    split; [reflexivity|]. split; [lia|]. split; [lia|]. split; [exact Hlen | lia].
Qed.

(* with the same hypotheses: cohorts only shrink, total_hosts drops by the deaths *)
Lemma apply_mortality_Inv0_extra c rate lag c' : Inv0 c -> (0 <= rate <= 1)%Q -> 0 <= lag ->
  apply_mortality c rate lag = Ok c' ->
  pointwise_le (cM c') (cM c) /\ sumZ (cM c) - sumZ (cM c') = cD c' - cD c /\
  cTH c - cTH c' = cD c' - cD c.
Proof.
  intros HInv Hrate Hlag H. unfold apply_mortality in H.
  unfold Inv0 in HInv. inv0_destruct HInv.
  destruct (Qle_bool rate 0) eqn:ER.
  - injection H as <-. split; [|lia].
    apply pointwise_le_map with (f := fun x => x) in HM; [|intros; lia].
    rewrite map_id in HM. exact HM.
  - destruct (lag <? 0) eqn:EL; [discriminate|].
    pose proof (sumZ_nonneg _ HE) as HE0.
    destruct (mortality_loop _ 0 rate (cM c) (cI c) (cTH c) (cD c))
      as [[[[m' i'] th'] d']|e] eqn:EM; cbn [bind] in H; [|discriminate].
    injection H as <-. cellsimpl.
    assert (Hith : 0 <= cI c <= cTH c) by lia.
    destruct (mortality_loop_ok_spec rate Hrate _ _ _ _ _ _ _ _ _ _ HM Hith EM)
      as (Hnn & Hi0 & Hd & Ht & Hs & Hpos & Hlen & Hpw).
    split; [exact Hpw | lia].
Qed.
