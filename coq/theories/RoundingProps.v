(* Proofs about Rounding.v (qfloor / qceil / qlround on Q) and the derived
   count helpers of CellDefs.v (ratio_removed, sums of rounded shares).
   See notes/cellprops_spec.md. *)
From Coq Require Import ZArith QArith Qround List Bool Lia ZifyBool Lqa.
From Pops Require Import Err Rounding CellDefs.
Import ListNotations.
Local Open Scope Z_scope.
Ltac Zify.zify_post_hook ::= Z.div_mod_to_equations.

(* ---- Z <-> Q transport ---- *)

Lemma zq_le a b : a <= b <-> (zq a <= zq b)%Q.
Proof. unfold zq. rewrite <- Zle_Qle. tauto. Qed.

Lemma zq_lt a b : a < b <-> (zq a < zq b)%Q.
Proof. unfold zq. rewrite <- Zlt_Qlt. tauto. Qed.

Lemma zq_plus a b : (zq (a + b) == zq a + zq b)%Q.
Proof. unfold zq. rewrite inject_Z_plus. reflexivity. Qed.

Lemma zq_minus a b : (zq (a - b) == zq a - zq b)%Q.
Proof. unfold zq, Z.sub. rewrite inject_Z_plus, inject_Z_opp. reflexivity. Qed.

Lemma zq_mult a b : (zq (a * b) == zq a * zq b)%Q.
Proof. unfold zq. rewrite inject_Z_mult. reflexivity. Qed.

Lemma zq_0 : zq 0 = 0%Q.
Proof. reflexivity. Qed.

Lemma zq_1 : zq 1 = 1%Q.
Proof. reflexivity. Qed.

Lemma zq_nonneg n : 0 <= n <-> (0 <= zq n)%Q.
Proof. rewrite <- zq_0. apply zq_le. Qed.

(* ---- characterisation of floor and ceiling ---- *)

Lemma qfloor_spec q : (zq (qfloor q) <= q)%Q /\ (q < zq (qfloor q + 1))%Q.
Proof. unfold qfloor, zq. split; [apply Qfloor_le | apply Qlt_floor]. Qed.

Lemma qceil_spec q : (zq (qceil q - 1) < q)%Q /\ (q <= zq (qceil q))%Q.
Proof. unfold qceil, zq. split; [apply Qceiling_lt | apply Qle_ceiling]. Qed.

Lemma qfloor_unique q n : (zq n <= q)%Q -> (q < zq (n + 1))%Q -> qfloor q = n.
Proof.
  intros H1 H2. destruct (qfloor_spec q) as [F1 F2].
  assert (A : qfloor q < n + 1) by (apply zq_lt; lra).
  assert (B : n < qfloor q + 1) by (apply zq_lt; lra).
  lia.
Qed.

Lemma qceil_unique q n : (zq (n - 1) < q)%Q -> (q <= zq n)%Q -> qceil q = n.
Proof.
  intros H1 H2. destruct (qceil_spec q) as [F1 F2].
  assert (A : n - 1 < qceil q) by (apply zq_lt; lra).
  assert (B : qceil q - 1 < n) by (apply zq_lt; lra).
  lia.
Qed.

Lemma qfloor_comp q1 q2 : (q1 == q2)%Q -> qfloor q1 = qfloor q2.
Proof. unfold qfloor. intros H. apply Qfloor_comp. exact H. Qed.

Lemma qceil_comp q1 q2 : (q1 == q2)%Q -> qceil q1 = qceil q2.
Proof. unfold qceil. intros H. apply Qceiling_comp. exact H. Qed.

Lemma qlround_comp q1 q2 : (q1 == q2)%Q -> qlround q1 = qlround q2.
Proof.
  intros H. unfold qlround.
  destruct (Qle_bool 0 q1) eqn:E1; destruct (Qle_bool 0 q2) eqn:E2.
  - apply Qfloor_comp. rewrite H. reflexivity.
  - apply Qle_bool_iff in E1. rewrite H in E1. apply Qle_bool_iff in E1. congruence.
  - apply Qle_bool_iff in E2. rewrite <- H in E2. apply Qle_bool_iff in E2. congruence.
  - f_equal. apply Qfloor_comp. rewrite H. reflexivity.
Qed.

(* ---- monotonicity ---- *)

Lemma qfloor_mono q1 q2 : (q1 <= q2)%Q -> qfloor q1 <= qfloor q2.
Proof. unfold qfloor. apply Qfloor_resp_le. Qed.

Lemma qceil_mono q1 q2 : (q1 <= q2)%Q -> qceil q1 <= qceil q2.
Proof. unfold qceil. apply Qceiling_resp_le. Qed.

Lemma qfloor_le_qceil q : qfloor q <= qceil q.
Proof.
  destruct (qfloor_spec q) as [F1 _]. destruct (qceil_spec q) as [_ C2].
  apply zq_le. lra.
Qed.

(* ---- integers are fixed points ---- *)

Lemma qfloor_zq n : qfloor (zq n) = n.
Proof. unfold qfloor, zq. apply Qfloor_Z. Qed.

Lemma qceil_zq n : qceil (zq n) = n.
Proof. unfold qceil, zq. apply Qceiling_Z. Qed.

Lemma qhalf_val : (qhalf == 1 # 2)%Q.
Proof. reflexivity. Qed.

Lemma qlround_zq n : qlround (zq n) = n.
Proof.
  unfold qlround. pose proof qhalf_val as Hh. pose proof (zq_plus n 1) as P1.
  pose proof (zq_plus (- n) 1) as P2. rewrite zq_1 in P1, P2.
  assert (N : (zq (- n) == - zq n)%Q) by (unfold zq; rewrite inject_Z_opp; reflexivity).
  destruct (Qle_bool 0 (zq n)) eqn:E.
  - apply (qfloor_unique (zq n + qhalf) n); lra.
  - enough (Hf : qfloor (- zq n + qhalf) = - n) by (unfold qfloor in Hf; lia).
    apply qfloor_unique; lra.
Qed.

(* ---- bounds ---- *)

Lemma qfloor_bounds q n : (0 <= q)%Q -> (q <= zq n)%Q -> 0 <= qfloor q <= n.
Proof.
  intros H0 Hn. split.
  - rewrite <- (qfloor_zq 0). apply qfloor_mono. rewrite zq_0. exact H0.
  - pose proof (qfloor_mono _ _ Hn) as H. rewrite qfloor_zq in H. exact H.
Qed.

Lemma qceil_bounds q n : (0 <= q)%Q -> (q <= zq n)%Q -> 0 <= qceil q <= n.
Proof.
  intros H0 Hn. split.
  - rewrite <- (qceil_zq 0). apply qceil_mono. rewrite zq_0. exact H0.
  - pose proof (qceil_mono _ _ Hn) as H. rewrite qceil_zq in H. exact H.
Qed.

Lemma qlround_nonneg q : (0 <= q)%Q -> 0 <= qlround q.
Proof.
  intros H0. unfold qlround. apply Qle_bool_iff in H0. rewrite H0.
  apply Qle_bool_iff in H0. pose proof qhalf_val as Hh.
  change (0 <= qfloor (q + qhalf)). rewrite <- (qfloor_zq 0).
  apply qfloor_mono. rewrite zq_0. lra.
Qed.

Lemma qlround_bounds q n : (0 <= q)%Q -> (q <= zq n)%Q -> 0 <= qlround q <= n.
Proof.
  intros H0 Hn. split; [apply qlround_nonneg; exact H0|].
  unfold qlround. apply Qle_bool_iff in H0. rewrite H0.
  pose proof qhalf_val as Hh. change (qfloor (q + qhalf) <= n).
  destruct (qfloor_spec (q + qhalf)) as [F1 _].
  pose proof (zq_plus n 1) as P1. rewrite zq_1 in P1.
  enough (A : qfloor (q + qhalf) < n + 1) by lia.
  apply zq_lt. lra.
Qed.

Lemma scale_bounds n r : 0 <= n -> (0 <= r <= 1)%Q ->
  (0 <= zq n * r)%Q /\ (zq n * r <= zq n)%Q.
Proof.
  intros Hn [Hr0 Hr1]. apply zq_nonneg in Hn. split.
  - apply Qmult_le_0_compat; assumption.
  - rewrite <- (Qmult_1_r (zq n)) at 2.
    rewrite (Qmult_comm (zq n) r), (Qmult_comm (zq n) 1).
    apply Qmult_le_compat_r; assumption.
Qed.

Lemma qceil_zero_iff q : (0 <= q)%Q -> (qceil q = 0 <-> (q == 0)%Q).
Proof.
  intros H0. split.
  - intros Hc. destruct (qceil_spec q) as [_ C2]. rewrite Hc, zq_0 in C2. lra.
  - intros Hq. rewrite (qceil_comp q (zq 0)); [apply qceil_zq | rewrite zq_0; exact Hq].
Qed.

Lemma qceil_mul_one n : qceil (zq n * 1) = n.
Proof. rewrite (qceil_comp _ (zq n)); [apply qceil_zq | ring]. Qed.

Lemma qceil_mul_zero n : qceil (zq n * 0) = 0.
Proof. rewrite (qceil_comp _ (zq 0)); [apply qceil_zq | rewrite zq_0; ring]. Qed.

Lemma qfloor_mul_one n : qfloor (zq n * 1) = n.
Proof. rewrite (qfloor_comp _ (zq n)); [apply qfloor_zq | ring]. Qed.

Lemma qfloor_mul_zero n : qfloor (zq n * 0) = 0.
Proof. rewrite (qfloor_comp _ (zq 0)); [apply qfloor_zq | rewrite zq_0; ring]. Qed.

(* the share rounded up / down of a non-negative count stays within the count *)
Lemma qceil_scale_bounds n r : 0 <= n -> (0 <= r <= 1)%Q -> 0 <= qceil (zq n * r) <= n.
Proof. intros Hn Hr. destruct (scale_bounds n r Hn Hr). apply qceil_bounds; assumption. Qed.

Lemma qfloor_scale_bounds n r : 0 <= n -> (0 <= r <= 1)%Q -> 0 <= qfloor (zq n * r) <= n.
Proof. intros Hn Hr. destruct (scale_bounds n r Hn Hr). apply qfloor_bounds; assumption. Qed.

(* ---- ceil of shares: x - ceil (x r) is monotone in the integer x ---- *)

Lemma ceil_complement_mono r a b : (0 <= r <= 1)%Q -> 0 <= a <= b ->
  a - qceil (zq a * r) <= b - qceil (zq b * r).
Proof.
  intros [Hr0 Hr1] [Ha Hab].
  destruct (qceil_spec (zq a * r)) as [_ CA].
  assert (Hd : 0 <= b - a) by lia.
  destruct (scale_bounds (b - a) r Hd (conj Hr0 Hr1)) as [_ SD].
  pose proof (zq_minus b a) as M.
  assert (E : (zq b * r == zq a * r + zq (b - a) * r)%Q) by (rewrite M; ring).
  assert (L : (zq b * r <= zq (qceil (zq a * r) + (b - a)))%Q).
  { rewrite zq_plus. lra. }
  apply qceil_mono in L. rewrite qceil_zq in L. lia.
Qed.

Lemma floor_complement_mono r a b : (0 <= r <= 1)%Q -> 0 <= a <= b ->
  a - qfloor (zq a * r) <= b - qfloor (zq b * r).
Proof.
  intros [Hr0 Hr1] [Ha Hab].
  destruct (qfloor_spec (zq a * r)) as [_ FA].
  destruct (qfloor_spec (zq b * r)) as [FB _].
  assert (Hd : 0 <= b - a) by lia.
  destruct (scale_bounds (b - a) r Hd (conj Hr0 Hr1)) as [_ SD].
  pose proof (zq_minus b a) as M.
  assert (E : (zq b * r == zq a * r + zq (b - a) * r)%Q) by (rewrite M; ring).
  pose proof (zq_plus (qfloor (zq a * r)) 1) as P1. rewrite zq_1 in P1.
  assert (L : qfloor (zq b * r) < qfloor (zq a * r) + 1 + (b - a)).
  { apply zq_lt. rewrite zq_plus. lra. }
  lia.
Qed.

(* ---- sums of rounded shares ---- *)

Lemma zq_sumZ_scale l r :
  (zq (sumZ l) * r <= zq (sumZ (map (fun x => qceil (zq x * r)) l)))%Q.
Proof.
  induction l as [|x l IH]; cbn [sumZ map].
  - rewrite zq_0. lra.
  - destruct (qceil_spec (zq x * r)) as [_ C]. rewrite !zq_plus.
    assert (E : ((zq x + zq (sumZ l)) * r == zq x * r + zq (sumZ l) * r)%Q) by ring.
    lra.
Qed.

Lemma sum_ceil_ge_ceil_sum r l : (0 <= r)%Q -> Forall (fun x => 0 <= x) l ->
  qceil (zq (sumZ l) * r) <= sumZ (map (fun x => qceil (zq x * r)) l).
Proof.
  intros _ _. rewrite <- (qceil_zq (sumZ (map _ l))).
  apply qceil_mono. apply zq_sumZ_scale.
Qed.

Lemma zq_sumZ_scale_floor l r :
  (zq (sumZ (map (fun x => qfloor (zq x * r)) l)) <= zq (sumZ l) * r)%Q.
Proof.
  induction l as [|x l IH]; cbn [sumZ map].
  - rewrite zq_0. lra.
  - destruct (qfloor_spec (zq x * r)) as [C _]. rewrite !zq_plus.
    assert (E : ((zq x + zq (sumZ l)) * r == zq x * r + zq (sumZ l) * r)%Q) by ring.
    lra.
Qed.

Lemma sum_floor_le_floor_sum r l :
  sumZ (map (fun x => qfloor (zq x * r)) l) <= qfloor (zq (sumZ l) * r).
Proof.
  rewrite <- (qfloor_zq (sumZ (map _ l))).
  apply qfloor_mono. apply zq_sumZ_scale_floor.
Qed.

(* ---- remove_infection_by_ratio counts ---- *)

Lemma ratio_removed_bounds n r : 0 <= n -> (0 <= r <= 1)%Q -> 0 <= ratio_removed n r <= n.
Proof.
  intros Hn Hr. unfold ratio_removed.
  destruct (scale_bounds n r Hn Hr) as [S0 S1].
  pose proof (qlround_bounds _ _ S0 S1). lia.
Qed.

Lemma ratio_removed_one n : ratio_removed n 1 = 0.
Proof.
  unfold ratio_removed. rewrite (qlround_comp _ (zq n)); [|ring].
  rewrite qlround_zq. lia.
Qed.

Lemma ratio_removed_zero n : ratio_removed n 0 = n.
Proof.
  unfold ratio_removed. rewrite (qlround_comp _ (zq 0)); [|rewrite zq_0; ring].
  rewrite qlround_zq. lia.
Qed.
