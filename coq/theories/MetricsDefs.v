(* Model of include/pops/spread_rate.hpp (SpreadRateAction, average_spread_rate),
   include/pops/quarantine.hpp (QuarantineEscapeAction, quarantine_escape_probability,
   distance_direction_to_quarantine, write_quarantine_escape) and
   include/pops/statistics.hpp (sum_of_infected, area_of_infected).
   Definitions only.  The code is modelled as it computes: its loops over the
   suitable cells in list order, its initial values, lround into int, the
   N,S,E,W order of closest_direction and its strict comparisons.

   Rasters are (rows, cols, row-major cells); counts and indices are Z; the two
   cell resolutions are Q; a NaN rate is None.
   SpreadRateAction is modelled with width_ = cols and height_ = rows (the
   repaired constructor, see notes/findings/C18_spread_rate_rows_cols.md). *)
From Coq Require Import ZArith QArith Qround List Bool.
From Pops Require Import Err.
Import ListNotations.
Local Open Scope Z_scope.

(* ---------------------------------------------------------------- rasters *)

Definition cell := (Z * Z)%type.

Record raster : Set := mkraster { r_rows : Z; r_cols : Z; r_data : list Z }.

(* Raster::operator()(row, col) = data_[row * cols_ + col] *)
Definition rget (r : raster) (i j : Z) : Z :=
  nth (Z.to_nat (i * r_cols r + j)) (r_data r) 0.

Definition zrange (n : Z) : list Z := map Z.of_nat (seq 0 (Z.to_nat n)).

(* for i in [0,rows) for j in [0,cols) *)
Definition all_cells (rows cols : Z) : list cell :=
  flat_map (fun i => map (fun j => (i, j)) (zrange cols)) (zrange rows).

(* BBoxInt = (north, south, east, west) *)
Record bbox : Set := mkbox { bn : Z; bs : Z; be : Z; bw : Z }.

(* if (i < n) n = i; if (i > s) s = i; if (j > e) e = j; if (j < w) w = j; *)
Definition grow (b : bbox) (i j : Z) : bbox :=
  mkbox (if i <? bn b then i else bn b) (if i >? bs b then i else bs b)
        (if j >? be b then j else be b) (if j <? bw b then j else bw b).

(* n = height_ - 1, s = 0, e = 0, w = width_ - 1 *)
Definition init_box (rows cols : Z) : bbox := mkbox (rows - 1) 0 0 (cols - 1).

Definition no_box : bbox := mkbox (-1) (-1) (-1) (-1).

(* ------------------------------------------------------- SpreadRateAction *)

(* one iteration of the loop of infection_boundary; state = (found, box) *)
Definition bb_step (inf : Z -> Z -> Z) (st : bool * bbox) (c : cell) : bool * bbox :=
  if inf (fst c) (snd c) >? 0 then (true, grow (snd st) (fst c) (snd c)) else st.

Definition infection_boundary (rows cols : Z) (inf : Z -> Z -> Z) (suit : list cell) : bbox :=
  let st := fold_left (bb_step inf) suit (false, init_box rows cols) in
  if fst st then snd st else no_box.

Definition is_boundary_valid (b : bbox) : bool := negb (bn b =? -1).

(* NaN is None *)
Record rates : Set := mkrates { rt_n : option Q; rt_s : option Q; rt_e : option Q; rt_w : option Q }.

Definition nan_rates : rates := mkrates None None None None.

(* if (rate == 0 && touches) rate = nan *)
Definition nan_if_stuck (rate : Q) (touches : bool) : option Q :=
  if Qeq_bool rate 0 && touches then None else Some rate.

(* SpreadRateAction::action for one step, given the previous boundary.
   is_out_of_bounds: n == 0, s == height_ - 1, e == width_ - 1, w == 0. *)
Definition step_rate (rows cols : Z) (ew ns : Q) (prev cur : bbox) : rates :=
  if is_boundary_valid cur then
    mkrates (nan_if_stuck (inject_Z (bn prev - bn cur) * ns)%Q (bn cur =? 0))
            (nan_if_stuck (inject_Z (bs cur - bs prev) * ns)%Q (bs cur =? rows - 1))
            (nan_if_stuck (inject_Z (be cur - be prev) * ew)%Q (be cur =? cols - 1))
            (nan_if_stuck (inject_Z (bw prev - bw cur) * ew)%Q (bw cur =? 0))
  else nan_rates.

(* action(hosts, 0), action(hosts, 1), ... on successive infected rasters;
   prev is boundaries_.at(step).  Result: boundaries_.at(step + 1) and
   rates_.at(step) for each step. *)
Fixpoint spread_steps (rows cols : Z) (ew ns : Q) (suit : list cell) (prev : bbox)
         (rs : list raster) : list (bbox * rates) :=
  match rs with
  | [] => []
  | r :: t =>
    let b := infection_boundary rows cols (rget r) suit in
    (b, step_rate rows cols ew ns prev b) :: spread_steps rows cols ew ns suit b t
  end.

(* constructor (boundaries_.at(0)) followed by the steps *)
Definition spread_run (rows cols : Z) (ew ns : Q) (suit : list cell) (r0 : raster)
           (rs : list raster) : bbox * list (bbox * rates) :=
  let b0 := infection_boundary rows cols (rget r0) suit in
  (b0, spread_steps rows cols ew ns suit b0 rs).

(* average_spread_rate, one direction: (sum, size) over the non-NaN values *)
Definition acc_rate (a : Q * Z) (r : option Q) : Q * Z :=
  match r with Some v => ((fst a + v)%Q, snd a + 1) | None => a end.

Definition mean_defined (l : list (option Q)) : option Q :=
  let a := fold_left acc_rate l (0%Q, 0) in
  if snd a =? 0 then None else Some (fst a / inject_Z (snd a))%Q.

Definition average_spread_rate (l : list rates) : rates :=
  mkrates (mean_defined (map rt_n l)) (mean_defined (map rt_s l))
          (mean_defined (map rt_e l)) (mean_defined (map rt_w l)).

(* ------------------------------------------------- QuarantineEscapeAction *)

Inductive dir : Set := DirN | DirS | DirE | DirW | DirNone.

(* the enum values printed by operator<< *)
Definition dir_degrees (d : dir) : Z :=
  match d with DirN => 0 | DirS => 180 | DirE => 90 | DirW => 270 | DirNone => 316 end.

Record dirs : Set := mkdirs { en_n : bool; en_s : bool; en_e : bool; en_w : bool }.

(* boundaries (vector) + boundary_id_idx_map: association list in order of
   first appearance; the index of the map is the position in the list *)
Fixpoint upd_box (id i j : Z) (init : bbox) (l : list (Z * bbox)) : list (Z * bbox) :=
  match l with
  | [] => [(id, grow init i j)]
  | (k, b) :: t => if k =? id then (k, grow b i j) :: t else (k, b) :: upd_box id i j init t
  end.

Definition qb_step (rows cols : Z) (areas : Z -> Z -> Z) (l : list (Z * bbox)) (c : cell)
  : list (Z * bbox) :=
  let v := areas (fst c) (snd c) in
  if v >? 0 then upd_box v (fst c) (snd c) (init_box rows cols) l else l.

Definition quarantine_boundary (rows cols : Z) (areas : Z -> Z -> Z) : list (Z * bbox) :=
  fold_left (qb_step rows cols areas) (all_cells rows cols) [].

Fixpoint find_box (id : Z) (l : list (Z * bbox)) : option bbox :=
  match l with
  | [] => None
  | (k, b) :: t => if k =? id then Some b else find_box id t
  end.

(* boundaries.at(boundary_id_idx_map[area]): operator[] yields index 0 for an
   unknown id; at() throws when there is no boundary at all *)
Definition lookup_box (id : Z) (l : list (Z * bbox)) : result bbox :=
  match find_box id l with
  | Some b => Ok b
  | None => match l with (_, b) :: _ => Ok b | [] => Err OutOfRange end
  end.

(* std::lround: nearest integer, halves away from zero *)
Definition lround (q : Q) : Z :=
  if Qle_bool 0 q then Qfloor (q + (1 # 2)) else - Qfloor (- q + (1 # 2)).

Definition Qltb (a b : Q) : bool := negb (Qle_bool b a).

Definition int_max : Z := 2147483647.

(* closest_direction: state = (mindist, closest); one `if` per direction *)
Definition cd_state := (Z * (Z * dir))%type.

Definition cd_step (st : cd_state) (cand : bool * Q * dir) : cd_state :=
  let '(on, d, tag) := cand in
  if on && Qltb d (inject_Z (fst st)) then (lround d, (lround d, tag)) else st.

(* the four tests in the order N, S, E, W *)
Definition candidates (en : dirs) (ew ns : Q) (i j : Z) (b : bbox) : list (bool * Q * dir) :=
  [ (en_n en, (inject_Z (i - bn b) * ns)%Q, DirN);
    (en_s en, (inject_Z (bs b - i) * ns)%Q, DirS);
    (en_e en, (inject_Z (be b - j) * ew)%Q, DirE);
    (en_w en, (inject_Z (j - bw b) * ew)%Q, DirW) ].

(* `DistDir closest;` is value-initialised: (0.0, Direction(0)) *)
Definition closest_direction (en : dirs) (ew ns : Q) (i j : Z) (b : bbox) : Z * dir :=
  snd (fold_left cd_step (candidates en ew ns i j b) (int_max, (0, DirN))).

(* result of action(): escaped (distance NaN, direction None) or the running
   minimum; None is the initial (DBL_MAX, Direction::None) *)
Inductive qinfo : Set := QEscaped | QInside (m : option (Z * dir)).

(* if (dist < std::get<0>(min_dist_dir)) min_dist_dir = (dist, dir) *)
Definition q_better (acc : option (Z * dir)) (dd : Z * dir) : option (Z * dir) :=
  match acc with
  | None => Some dd
  | Some (d0, _) => if fst dd <? d0 then Some dd else acc
  end.

Fixpoint q_scan (en : dirs) (ew ns : Q) (inf areas : Z -> Z -> Z) (boxes : list (Z * bbox))
         (suit : list cell) (acc : option (Z * dir)) : result qinfo :=
  match suit with
  | [] => Ok (QInside acc)
  | c :: t =>
    if inf (fst c) (snd c) =? 0 then q_scan en ew ns inf areas boxes t acc
    else
      let area := areas (fst c) (snd c) in
      if area =? 0 then Ok QEscaped
      else
        match lookup_box area boxes with
        | Err e => Err e
        | Ok b =>
          q_scan en ew ns inf areas boxes t
                 (q_better acc (closest_direction en ew ns (fst c) (snd c) b))
        end
  end.

Definition quarantine_action (en : dirs) (ew ns : Q) (inf areas : Z -> Z -> Z)
           (boxes : list (Z * bbox)) (suit : list cell) : result qinfo :=
  q_scan en ew ns inf areas boxes suit None.

(* constructor on the area raster, then action(hosts, areas, step) for
   step = 0, 1, ... on successive infected rasters *)
Fixpoint quarantine_steps (en : dirs) (ew ns : Q) (areas : Z -> Z -> Z) (boxes : list (Z * bbox))
         (suit : list cell) (rs : list raster) : result (list qinfo) :=
  match rs with
  | [] => Ok []
  | r :: t =>
    match quarantine_action en ew ns (rget r) areas boxes suit with
    | Err e => Err e
    | Ok q =>
      match quarantine_steps en ew ns areas boxes suit t with
      | Err e => Err e
      | Ok l => Ok (q :: l)
      end
    end
  end.

Definition quarantine_run (en : dirs) (ew ns : Q) (areas : raster) (suit : list cell)
           (rs : list raster) : result (list qinfo) :=
  quarantine_steps en ew ns (rget areas)
    (quarantine_boundary (r_rows areas) (r_cols areas) (rget areas)) suit rs.

Definition q_escaped (q : qinfo) : bool := match q with QEscaped => true | _ => false end.

(* escape_info(step) of one run; steps never acted on keep the initial value *)
Definition info_at (run : list qinfo) (step : nat) : qinfo := nth step run (QInside None).

(* quarantine_escape_probability: (double)escapes / size; 0/0 is NaN *)
Definition count_escapes (infos : list qinfo) : Z :=
  fold_left (fun n q => if q_escaped q then n + 1 else n) infos 0.

Definition escape_probability (infos : list qinfo) : option Q :=
  match infos with
  | [] => None
  | _ => Some (inject_Z (count_escapes infos) / inject_Z (Z.of_nat (length infos)))%Q
  end.

(* write_quarantine_escape.  A row is (step, escape probability rounded to one
   decimal as tenths, per run: None for ",," or (distance, degrees); the
   distance None stands for DBL_MAX).  "%.1f" of the double nearest to
   escapes/size is the half-even rounding of the exact quotient unless the
   number of runs is a multiple of 20 (only then can a tie k/20 be a
   non-representable number). *)
Definition round_half_even (q : Q) : Z :=
  let f := Qfloor q in
  let r := (q - inject_Z f)%Q in
  if Qltb r (1 # 2) then f
  else if Qltb (1 # 2) r then f + 1
  else if Z.even f then f else f + 1.

Definition csv_cell (q : qinfo) : option (option Z * Z) :=
  match q with
  | QEscaped => None
  | QInside None => Some (None, dir_degrees DirNone)
  | QInside (Some (d, dr)) => Some (Some d, dir_degrees dr)
  end.

Definition csv_row (runs : list (list qinfo)) (step : nat)
  : Z * option Z * list (option (option Z * Z)) :=
  let infos := map (fun run => info_at run step) runs in
  (Z.of_nat step,
   match escape_probability infos with
   | Some p => Some (round_half_even (10 * p)%Q)
   | None => None
   end,
   map csv_cell infos).

Definition write_quarantine_escape (runs : list (list qinfo)) (num_steps : nat) :=
  map (csv_row runs) (seq 0 num_steps).

(* ------------------------------------------------------------- statistics *)

(* unsigned sum; sum += infected(i, j) *)
Definition sum_of_infected (inf : Z -> Z -> Z) (suit : list cell) : Z :=
  fold_left (fun acc c => (acc + inf (fst c) (snd c)) mod 4294967296) suit 0.

Definition count_infected (inf : Z -> Z -> Z) (suit : list cell) : Z :=
  fold_left (fun acc c => if inf (fst c) (snd c) >? 0 then acc + 1 else acc) suit 0.

(* cells * ew_res * ns_res *)
Definition area_of_infected (inf : Z -> Z -> Z) (ew ns : Q) (suit : list cell) : Q :=
  (inject_Z (count_infected inf suit) * ew * ns)%Q.
