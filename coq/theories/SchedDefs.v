(* Model of include/pops/scheduling.hpp (Step, Scheduler, schedule_from_string,
   simulation_step_to_action_step, get_number_of_scheduled_actions) and of
   Config::create_schedules in include/pops/config.hpp.  Definitions only. *)
From Coq Require Import ZArith List Bool String.
From Pops Require Import Err DateDefs.
Import ListNotations.
Local Open Scope Z_scope.

Record step : Set := mkstep { s_start : date; s_end : date }.

Inductive step_unit : Set := Day | Week | Month.

(* step_unit_enum_from_string *)
Definition step_unit_from_string (s : string) : result step_unit :=
  if String.eqb s "day" then Ok Day
  else if String.eqb s "week" then Ok Week
  else if String.eqb s "month" then Ok Month
  else Err InvalidArgument.

(* Scheduler::increase_date; n is simulation_num_units (> 0 here) *)
Definition increase_date (u : step_unit) (n : positive) (d : date) : date :=
  match u with
  | Day => inc_days (Zpos n) d
  | Week => Pos.iter inc_week d n
  | Month => Pos.iter inc_month d n
  end.

(* The while loop of the constructor, on explicit fuel. *)
Fixpoint gen_steps (fuel : nat) (u : step_unit) (n : positive) (end_ : date) (d : date)
  : result (list step) :=
  match fuel with
  | O => Err OutOfFuel
  | S f =>
    if dle d end_ then
      let nd := increase_date u n d in
      do rest <- gen_steps f u n end_ nd;
      Ok (mkstep d (subtract_day nd) :: rest)
    else Ok []
  end.

(* Enough fuel: every iteration advances by at least one day. *)
Definition sched_fuel (start end_ : date) : nat :=
  Z.to_nat (dn end_ - dn start + 2).

Record scheduler : Set := mksched
  { sc_unit : step_unit; sc_n : positive; sc_steps : list step }.

(* Scheduler::Scheduler.  num_units is unsigned in C++: 0 is rejected. *)
Definition mk_scheduler (start end_ : date) (u : step_unit) (num_units : Z)
  : result scheduler :=
  if dge start end_ then Err InvalidArgument
  else match num_units with
  | Zpos n =>
    if dgt (increase_date u n start) end_ then Err InvalidArgument
    else if (match u with Month => true | _ => false end) && negb (dy start =? 1)
    then Err InvalidArgument
    else
      do steps <- gen_steps (sched_fuel start end_) u n end_ start;
      Ok (mksched u n steps)
  | _ => Err InvalidArgument
  end.

Definition num_steps (sc : scheduler) : Z := Z.of_nat (List.length (sc_steps sc)).

(* Scheduler::get_step uses vector::at *)
Definition get_step (sc : scheduler) (i : Z) : result step :=
  if (i <? 0) || (i >=? num_steps sc) then Err OutOfRange
  else match nth_error (sc_steps sc) (Z.to_nat i) with
       | Some s => Ok s | None => Err OutOfRange end.

Definition schedule_spread (sc : scheduler) (s e : Z) : list bool :=
  map (fun st => month_in_season s e (mo (s_start st))
              || month_in_season s e (mo (s_end st))) (sc_steps sc).

Definition in_step (d : date) (st : step) : bool :=
  dge d (s_start st) && dle d (s_end st).

Definition schedule_action_yearly (sc : scheduler) (month day : Z) : list bool :=
  map (fun st =>
         in_step (mkdate (yr (s_start st)) month day) st
      || in_step (mkdate (yr (s_end st)) month day) st) (sc_steps sc).

Definition schedule_action_end_of_year (sc : scheduler) : list bool :=
  map (fun st => negb (yr (s_start st) =? yr (s_end st))
              || is_last_day_of_year (s_end st)) (sc_steps sc).

Fixpoint last_true (n : nat) : list bool :=
  match n with O => [] | S O => [true] | S m => false :: last_true m end.
Definition schedule_action_end_of_simulation (sc : scheduler) : list bool :=
  last_true (List.length (sc_steps sc)).

(* (i + 1) % n_steps == 0 for i = 0 .. num_steps-1 ; n_steps > 0 *)
Definition schedule_action_nsteps (sc : scheduler) (n : Z) : list bool :=
  map (fun i => (Z.of_nat i + 1) mod n =? 0) (seq 0 (List.length (sc_steps sc))).

Definition schedule_action_monthly (sc : scheduler) : list bool :=
  map (fun st => negb (mo (s_start st) =? mo (s_end st))
              || negb (yr (s_start st) =? yr (s_end st))
              || is_last_day_of_month (s_end st)) (sc_steps sc).

Fixpoint find_step (d : date) (l : list step) (i : Z) : result Z :=
  match l with
  | [] => Err InvalidArgument
  | st :: r => if in_step d st then Ok i else find_step d r (i + 1)
  end.
Definition schedule_action_date (sc : scheduler) (d : date) : result Z :=
  find_step d (sc_steps sc) 0.

(* Scheduler::schedule_weather: the running index with wrap-around *)
Fixpoint weather_loop (k : nat) (wi size : Z) : list Z :=
  match k with
  | O => []
  | S k' => wi :: weather_loop k' (if wi + 1 =? size then 0 else wi + 1) size
  end.
Definition schedule_weather (sc : scheduler) (size : Z) : result (list Z) :=
  if size <=? 0 then Err InvalidArgument
  else Ok (weather_loop (List.length (sc_steps sc)) 0 size).

(* simulation_step_to_action_step: indices[i] = number of true before i *)
Fixpoint action_indices (l : list bool) (idx : Z) : list Z :=
  match l with
  | [] => []
  | b :: r => idx :: action_indices r (if b then idx + 1 else idx)
  end.
Definition simulation_step_to_action_step (l : list bool) (stepi : Z) : result Z :=
  if stepi <? 0 then Err OutOfRange
  else match nth_error (action_indices l 0) (Z.to_nat stepi) with
       | Some v => Ok v | None => Err OutOfRange end.
Definition get_number_of_scheduled_actions (l : list bool) : Z :=
  Z.of_nat (count_occ bool_dec l true).

(* schedule_from_string *)
Definition seqb (a b : string) := String.eqb a b.
Definition schedule_from_string (sc : scheduler) (freq : string) (n : Z)
  : result (list bool) :=
  let u := sc_unit sc in
  let sim_n := Zpos (sc_n sc) in
  if seqb freq "" then Ok (map (fun _ => false) (sc_steps sc))
  else if seqb freq "final_step" then Ok (schedule_action_end_of_simulation sc)
  else if seqb freq "year" || seqb freq "yearly" then Ok (schedule_action_end_of_year sc)
  else if seqb freq "month" || seqb freq "monthly" then Ok (schedule_action_monthly sc)
  else if seqb freq "week" || seqb freq "weekly" then
    match u with
    | Day => if sim_n =? 1 then Ok (schedule_action_nsteps sc 7)
             else if sim_n =? 7 then Ok (schedule_action_nsteps sc 1)
             else Err InvalidArgument
    | Week => if sim_n =? 1 then Ok (schedule_action_nsteps sc 1) else Err InvalidArgument
    | Month => Err InvalidArgument
    end
  else if seqb freq "day" || seqb freq "daily" then
    match u with
    | Day => if sim_n =? 1 then Ok (schedule_action_nsteps sc 1) else Err InvalidArgument
    | _ => Err InvalidArgument
    end
  else if seqb freq "every_n_steps" && (n >? 0) then Ok (schedule_action_nsteps sc n)
  else if seqb freq "every_step" || seqb freq "time_step" then Ok (schedule_action_nsteps sc 1)
  else Err InvalidArgument.

(* Config::create_schedules: which builder feeds which schedule. *)
Record sched_config : Set := mkschedcfg
  { c_start : date; c_end : date; c_unit : step_unit; c_num_units : Z;
    c_season_start : Z; c_season_end : Z;
    c_output_freq : string; c_output_n : Z;
    c_use_mortality : bool; c_mortality_freq : string; c_mortality_n : Z;
    c_use_lethal : bool; c_lethal_month : Z;
    c_use_survival : bool; c_survival_month : Z; c_survival_day : Z;
    c_use_spreadrates : bool; c_spreadrate_freq : string; c_spreadrate_n : Z;
    c_use_quarantine : bool; c_quarantine_freq : string; c_quarantine_n : Z;
    c_weather_size : Z }.

Record schedules : Set := mkschedules
  { sch_scheduler : scheduler;
    sch_spread : list bool; sch_output : list bool; sch_mortality : list bool;
    sch_lethal : list bool; sch_survival : list bool; sch_spread_rate : list bool;
    sch_quarantine : list bool; sch_weather : list Z }.

Definition opt_sched (use : bool) (r : result (list bool)) : result (list bool) :=
  if use then r else Ok [].

Definition create_schedules (c : sched_config) : result schedules :=
  do sc <- mk_scheduler (c_start c) (c_end c) (c_unit c) (c_num_units c);
  let spread := schedule_spread sc (c_season_start c) (c_season_end c) in
  do output <- schedule_from_string sc (c_output_freq c) (c_output_n c);
  do mort <- opt_sched (c_use_mortality c)
               (schedule_from_string sc (c_mortality_freq c) (c_mortality_n c));
  let lethal := if c_use_lethal c
                then schedule_action_yearly sc (c_lethal_month c) 1 else [] in
  let surv := if c_use_survival c
              then schedule_action_yearly sc (c_survival_month c) (c_survival_day c)
              else [] in
  do sr <- opt_sched (c_use_spreadrates c)
             (schedule_from_string sc (c_spreadrate_freq c) (c_spreadrate_n c));
  do qu <- opt_sched (c_use_quarantine c)
             (schedule_from_string sc (c_quarantine_freq c) (c_quarantine_n c));
  do we <- (if c_weather_size c =? 0 then Ok [] else schedule_weather sc (c_weather_size c));
  Ok (mkschedules sc spread output mort lethal surv sr qu we).
