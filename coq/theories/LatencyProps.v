(* Property C05: in the SEI model exposed hosts become infectious exactly after
   the latency period.  A cell has L + 1 exposed cohorts (oldest first); in a
   spread step new exposure enters the youngest cohort and then step_forward
   SEI L s runs, s being the simulation step index (spread steps are a
   subsequence of the simulation steps). *)
From Coq Require Import ZArith QArith Qround List Bool Lia ZifyBool.
From Pops Require Import Err Rounding RoundingProps CellDefs CellProps.
Import ListNotations.
Local Open Scope Z_scope.
Ltac Zify.zify_post_hook ::= Z.div_mod_to_equations.

(* k dispersers establishing in the cell during one spread step *)
Definition expose (k : Z) (c : cell) : result cell :=
  do e' <- add_last (cE c) k;
  Ok (mkcell (cS c - k) e' (cI c) (cTE c + k) (cR c) (cM c) (cD c) (cTH c)).

(* each element: simulation step index s, number exposed a *)
Fixpoint run_sei (L : Z) (steps : list (Z * Z)) (c : cell) : result cell :=
  match steps with
  | [] => Ok c
  | (s, a) :: r => do c1 <- expose a c; do c2 <- step_forward SEI L s c1; run_sei L r c2
  end.

Fixpoint increasing_from (lo : Z) (l : list (Z * Z)) : Prop :=
  match l with
  | [] => True
  | (s, _) :: r => lo <= s /\ increasing_from (s + 1) r
  end.

(* the last m elements of l, padded on the left with zeros when l is shorter:
   put m zeros in front of l and drop as many elements as l has *)
Definition lastn_padded (m : nat) (l : list Z) : list Z :=
  skipn (length l) (repeat 0 m ++ l).

(* k-fold add_disperser *)
Fixpoint add_disperser_iter (mt : model_type) (k : nat) (c : cell) : result cell :=
  match k with
  | O => Ok c
  | S k' => do r <- add_disperser mt c; add_disperser_iter mt k' (fst r)
  end.

Definition cohorts_le (c1 c2 : cell) : Prop := Forall2 Z.le (cE c1) (cE c2).

(* ------------------------------------------------------------------ *)
(* list facts                                                          *)
(* ------------------------------------------------------------------ *)

Lemma lastn_padded_length m l : length (lastn_padded m l) = m.
Proof. unfold lastn_padded. rewrite skipn_length, app_length, repeat_length. lia. Qed.

Lemma skipn_repeat (a : Z) : forall n m, skipn n (repeat a m) = repeat a (m - n).
Proof.
  induction n as [|n IH]; intros m.
  - cbn [skipn]. rewrite Nat.sub_0_r. reflexivity.
  - destruct m as [|m]; cbn [repeat skipn Nat.sub]; [reflexivity | apply IH].
Qed.

(* the more explicit description of lastn_padded *)
Lemma lastn_padded_alt m l :
  lastn_padded m l = repeat 0 (m - length l) ++ skipn (length l - m) l.
Proof. unfold lastn_padded. rewrite skipn_app, skipn_repeat, repeat_length. reflexivity. Qed.

Lemma lastn_padded_nil m : lastn_padded m [] = repeat 0 m.
Proof. unfold lastn_padded. cbn [length skipn]. apply app_nil_r. Qed.

Lemma lastn_padded_long m l : (m <= length l)%nat -> lastn_padded m l = skipn (length l - m) l.
Proof.
  intros H. rewrite lastn_padded_alt. replace (m - length l)%nat with 0%nat by lia. reflexivity.
Qed.

Lemma lastn_padded_short m l : (length l <= m)%nat ->
  lastn_padded m l = repeat 0 (m - length l) ++ l.
Proof.
  intros H. rewrite lastn_padded_alt. replace (length l - m)%nat with 0%nat by lia. reflexivity.
Qed.

Lemma sumZ_repeat0 n : sumZ (repeat 0 n) = 0.
Proof. induction n as [|n IH]; cbn [repeat sumZ]; lia. Qed.

Lemma repeat_plus1 (a : Z) n : repeat a (n + 1) = repeat a n ++ [a].
Proof. rewrite repeat_app. reflexivity. Qed.

Lemma sumZ_lastn_padded m l :
  sumZ (lastn_padded m l) = sumZ l - sumZ (firstn (length l - m) l).
Proof.
  rewrite lastn_padded_alt, sumZ_app, sumZ_repeat0.
  pose proof (f_equal sumZ (firstn_skipn (length l - m) l)) as E. rewrite sumZ_app in E. lia.
Qed.

Lemma skipn_S_tl : forall n (Y : list Z), skipn (S n) Y = tl (skipn n Y).
Proof.
  induction n as [|n IH]; intros Y.
  - destruct Y; reflexivity.
  - destruct Y as [|y Y]; [reflexivity|]. cbn [skipn] in *. apply IH.
Qed.

Lemma hd_skipn : forall j (X : list Z), hd 0 (skipn j X) = nth j X 0.
Proof.
  induction j as [|j IH]; intros [|x X]; cbn [skipn hd nth]; try reflexivity. apply IH.
Qed.

Lemma sumZ_hd_tl (X : list Z) : sumZ X = hd 0 X + sumZ (tl X).
Proof. destruct X; cbn [sumZ hd tl]; lia. Qed.

(* one more spread step: the window moves by one *)
Lemma lastn_padded_snoc m l a : lastn_padded m (l ++ [a]) = tl (lastn_padded m l ++ [a]).
Proof.
  unfold lastn_padded. rewrite app_length. cbn [length].
  replace (length l + 1)%nat with (S (length l)) by lia.
  rewrite app_assoc, skipn_S_tl. f_equal.
  rewrite skipn_app, app_length, repeat_length.
  replace (length l - (m + length l))%nat with 0%nat by lia. reflexivity.
Qed.

(* ... and the element leaving it at the old end is the one that the longer
   prefix sum gains *)
Lemma firstn_sum_snoc m l a :
  sumZ (firstn (S (length l) - m) (l ++ [a])) =
  sumZ (firstn (length l - m) l) + hd 0 (lastn_padded m l ++ [a]).
Proof.
  pose proof (sumZ_lastn_padded m (l ++ [a])) as A. rewrite lastn_padded_snoc in A.
  rewrite app_length in A. cbn [length] in A.
  replace (length l + 1 - m)%nat with (S (length l) - m)%nat in A by lia.
  pose proof (sumZ_lastn_padded m l) as B.
  pose proof (sumZ_hd_tl (lastn_padded m l ++ [a])) as C.
  rewrite !sumZ_app in *. cbn [sumZ] in *. lia.
Qed.

Lemma hd_lastn_padded_zero m l a : (length l < m)%nat -> hd 0 (lastn_padded m l ++ [a]) = 0.
Proof.
  intros H. rewrite lastn_padded_alt.
  destruct (m - length l)%nat as [|k] eqn:E; [lia | reflexivity].
Qed.

Lemma hd_lastn_padded_nth m l a : (m <= length l)%nat ->
  hd 0 (lastn_padded m l ++ [a]) = nth (length l - m) (l ++ [a]) 0.
Proof.
  intros H. rewrite lastn_padded_long by exact H.
  rewrite <- hd_skipn. f_equal. rewrite skipn_app.
  replace (length l - m - length l)%nat with 0%nat by lia. reflexivity.
Qed.

Lemma Forall2_le_refl (l : list Z) : Forall2 Z.le l l.
Proof. induction l as [|x l IH]; constructor; [lia | exact IH]. Qed.

(* ------------------------------------------------------------------ *)
(* step indices                                                        *)
(* ------------------------------------------------------------------ *)

Lemma increasing_from_snoc : forall p lo s a,
  increasing_from lo (p ++ [(s, a)]) ->
  increasing_from lo p /\ lo + Z.of_nat (length p) <= s.
Proof.
  induction p as [|[s0 a0] p IH]; intros lo s a H; cbn [app increasing_from length] in *.
  - split; [exact I | lia].
  - destruct H as [H0 H1]. destruct (IH _ _ _ H1) as [G1 G2]. split; [split; assumption | lia].
Qed.

Lemma increasing_from_weaken : forall p lo lo', lo' <= lo ->
  increasing_from lo p -> increasing_from lo' p.
Proof.
  intros [|[s0 a0] p] lo lo' Hle H; cbn [increasing_from] in *; [exact I|].
  destruct H as [H0 H1]. split; [lia | exact H1].
Qed.

(* the j-th spread step has simulation index at least j *)
Lemma increasing_from_nth : forall p lo j, increasing_from lo p -> (j < length p)%nat ->
  lo + Z.of_nat j <= fst (nth j p (0, 0)).
Proof.
  induction p as [|[s0 a0] p IH]; intros lo j H Hj; cbn [length] in Hj; [lia|].
  cbn [increasing_from] in H. destruct H as [H0 H1].
  destruct j as [|j]; cbn [nth fst]; [lia|].
  pose proof (IH (s0 + 1) j H1 ltac:(lia)). lia.
Qed.

(* ------------------------------------------------------------------ *)
(* 1. expose                                                           *)
(* ------------------------------------------------------------------ *)

Lemma expose_spec k c c' init y : expose k c = Ok c' -> cE c = init ++ [y] ->
  cE c' = init ++ [y + k] /\ cI c' = cI c /\ cM c' = cM c /\ cTE c' = cTE c + k /\
  cS c' = cS c - k /\ cR c' = cR c /\ cD c' = cD c /\ cTH c' = cTH c.
Proof.
  intros H HE. unfold expose in H. rewrite HE, add_last_app in H. cbn [bind] in H.
  injection H as <-. cellsimpl.
  split; [reflexivity|]. split; [reflexivity|]. split; [reflexivity|]. split; [reflexivity|].
  split; [reflexivity|]. split; [reflexivity|]. split; reflexivity.
Qed.

Lemma expose_ok k c : cE c <> [] -> exists c', expose k c = Ok c'.
Proof.
  intros H. unfold expose. destruct (add_last_ok (cE c) k H) as [e' ->]. cbn [bind].
  eexists; reflexivity.
Qed.

Lemma expose_inv k c c' : Inv0 c -> 0 <= k <= cS c -> expose k c = Ok c' ->
  Inv0 c' /\ hq c' = hq c /\ (InvM c -> InvM c') /\ (InvLe c -> InvLe c') /\
  length (cE c') = length (cE c).
Proof.
  intros HInv Hk H. unfold expose in H.
  destruct (add_last (cE c) k) as [e'|e] eqn:EA; cbn [bind] in H; [|discriminate].
  injection H as <-.
  destruct (add_last_sum _ _ _ EA) as [Hsum Hlen].
  unfold Inv0, InvM, InvLe, hq, hosts in *. inv0_destruct HInv. cellsimpl.
  assert (Hnn : nonneg e') by (apply (add_last_nonneg (cE c) k e' HE); [lia | exact EA]).
  split; [repeat (split; [first [assumption | lia]|]); lia|].
  split; [lia|]. split; [tauto|]. split; [tauto | exact Hlen].
Qed.

(* k single dispersers = one exposure of k *)
Lemma add_disperser_iter_expose : forall k c init y, cE c = init ++ [y] ->
  Z.of_nat k <= cS c -> add_disperser_iter SEI k c = expose (Z.of_nat k) c.
Proof.
  induction k as [|k IH]; intros c init y HE HS.
  - cbn [add_disperser_iter]. unfold expose. rewrite HE, add_last_app. cbn [bind Z.of_nat].
    rewrite Z.sub_0_r, !Z.add_0_r, <- HE, <- cell_eta. reflexivity.
  - cbn [add_disperser_iter]. unfold add_disperser.
    destruct (cS c <=? 0) eqn:ES; [lia|].
    rewrite HE, add_last_app. cbn [bind fst].
    rewrite (IH _ init (y + 1)); [|reflexivity | cellsimpl; lia].
    unfold expose. cellsimpl. rewrite HE, !add_last_app. cbn [bind].
    rewrite Nat2Z.inj_succ.
    replace (cS c - 1 - Z.of_nat k) with (cS c - Z.succ (Z.of_nat k)) by lia.
    replace (y + 1 + Z.of_nat k) with (y + Z.succ (Z.of_nat k)) by lia.
    replace (cTE c + 1 + Z.of_nat k) with (cTE c + Z.succ (Z.of_nat k)) by lia.
    reflexivity.
Qed.

Lemma add_disperser_iter_SI : forall k c init y, cM c = init ++ [y] ->
  Z.of_nat k <= cS c ->
  add_disperser_iter SI k c =
  Ok (mkcell (cS c - Z.of_nat k) (cE c) (cI c + Z.of_nat k) (cTE c) (cR c)
             (init ++ [y + Z.of_nat k]) (cD c) (cTH c)).
Proof.
  induction k as [|k IH]; intros c init y HM HS.
  - cbn [add_disperser_iter Z.of_nat]. rewrite Z.sub_0_r, !Z.add_0_r, <- HM.
    rewrite <- cell_eta. reflexivity.
  - cbn [add_disperser_iter]. unfold add_disperser.
    destruct (cS c <=? 0) eqn:ES; [lia|].
    rewrite HM, add_last_app. cbn [bind fst].
    rewrite (IH _ init (y + 1)); [|reflexivity | cellsimpl; lia].
    cellsimpl. rewrite Nat2Z.inj_succ.
    replace (cS c - 1 - Z.of_nat k) with (cS c - Z.succ (Z.of_nat k)) by lia.
    replace (y + 1 + Z.of_nat k) with (y + Z.succ (Z.of_nat k)) by lia.
    replace (cI c + 1 + Z.of_nat k) with (cI c + Z.succ (Z.of_nat k)) by lia.
    reflexivity.
Qed.

(* ------------------------------------------------------------------ *)
(* one spread step on a window W ++ [0]                                *)
(* ------------------------------------------------------------------ *)

Lemma run_sei_app L : forall p q c,
  run_sei L (p ++ q) c = bind (run_sei L p c) (run_sei L q).
Proof.
  induction p as [|[s a] p IH]; intros q c; cbn [app run_sei]; [reflexivity|].
  destruct (expose a c) as [c1|e]; cbn [bind]; [|reflexivity].
  destruct (step_forward SEI L s c1) as [c2|e]; cbn [bind]; [apply IH | reflexivity].
Qed.

Lemma run_sei_single L s a c :
  run_sei L [(s, a)] c = (do c1 <- expose a c; step_forward SEI L s c1).
Proof.
  cbn [run_sei]. destruct (expose a c) as [c1|e]; cbn [bind]; [|reflexivity].
  destruct (step_forward SEI L s c1); reflexivity.
Qed.

(* If the guard of step_forward is false only while the oldest cohort is
   empty, a spread step moves the window by one and the oldest cohort becomes
   infected (and enters the youngest mortality cohort). *)
Lemma sei_step_window L s a c W c' : cE c = W ++ [0] ->
  (s < L -> hd 0 (W ++ [a]) = 0) ->
  (do c1 <- expose a c; step_forward SEI L s c1) = Ok c' ->
  cE c' = tl (W ++ [a]) ++ [0] /\ cI c' = cI c + hd 0 (W ++ [a]) /\
  sumZ (cM c') = sumZ (cM c) + hd 0 (W ++ [a]) /\
  cS c' = cS c - a /\ cR c' = cR c /\ cD c' = cD c /\ cTH c' = cTH c /\
  length (cM c') = length (cM c).
Proof.
  intros HE Hg H. unfold expose in H. rewrite HE, add_last_app in H. cbn [bind] in H.
  rewrite Z.add_0_l in H. unfold step_forward in H. cellsimpl.
  remember (W ++ [a]) as X eqn:EX in *.
  destruct X as [|oldest rest]; [destruct W; discriminate|].
  cbn [hd tl] in *.
  destruct (s >=? L) eqn:ES.
  - destruct (add_last (cM c) oldest) as [m'|e] eqn:EA; cbn [bind] in H; [|discriminate].
    injection H as <-. cellsimpl. destruct (add_last_sum _ _ _ EA) as [Hsum Hlen].
    split; [reflexivity|]. split; [reflexivity|]. split; [exact Hsum|]. split; [reflexivity|].
    split; [reflexivity|]. split; [reflexivity|]. split; [reflexivity | exact Hlen].
  - injection H as <-. cellsimpl. rewrite (Hg ltac:(lia)).
    split; [reflexivity|]. split; [lia|]. split; [lia|]. split; [reflexivity|].
    split; [reflexivity|]. split; [reflexivity|]. split; reflexivity.
Qed.

(* the same on the characterised state after n spread steps *)
Lemma latency_snoc L s a c l c' : 0 <= L ->
  cE c = lastn_padded (Z.to_nat L) l ++ [0] -> Z.of_nat (length l) <= s ->
  (do c1 <- expose a c; step_forward SEI L s c1) = Ok c' ->
  cE c' = lastn_padded (Z.to_nat L) (l ++ [a]) ++ [0] /\
  cI c' = cI c + hd 0 (lastn_padded (Z.to_nat L) l ++ [a]) /\
  sumZ (cM c') = sumZ (cM c) + hd 0 (lastn_padded (Z.to_nat L) l ++ [a]) /\
  cS c' = cS c - a /\ cR c' = cR c /\ cD c' = cD c /\ cTH c' = cTH c /\
  length (cM c') = length (cM c).
Proof.
  intros HL HE Hs H.
  assert (Hg : s < L -> hd 0 (lastn_padded (Z.to_nat L) l ++ [a]) = 0)
    by (intros Hlt; apply hd_lastn_padded_zero; lia).
  destruct (sei_step_window L s a c _ c' HE Hg H) as (G1 & G2).
  rewrite lastn_padded_snoc. split; [exact G1 | exact G2].
Qed.

(* ------------------------------------------------------------------ *)
(* 2. latency is exact                                                 *)
(* ------------------------------------------------------------------ *)

Theorem latency_exact L steps c c' : 0 <= L ->
  cE c = repeat 0 (Z.to_nat L + 1) -> cM c <> [] ->
  increasing_from 0 steps -> run_sei L steps c = Ok c' ->
  let adds := map snd steps in
  let n := length steps in
  cE c' = lastn_padded (Z.to_nat L) adds ++ [0] /\
  cI c' = cI c + sumZ (firstn (n - Z.to_nat L) adds) /\
  sumZ (cM c') = sumZ (cM c) + sumZ (firstn (n - Z.to_nat L) adds).
Proof.
  intros HL HE HM. revert c'.
  induction steps as [|[s a] pre IH] using rev_ind; intros c' Hinc H adds n; subst adds n.
  - cbn [run_sei] in H. injection H as <-. cbn [map length].
    rewrite lastn_padded_nil, firstn_nil, <- repeat_plus1. cbn [sumZ].
    split; [exact HE|]. split; lia.
  - rewrite run_sei_app in H.
    destruct (run_sei L pre c) as [cm|e] eqn:Epre; cbn [bind] in H; [|discriminate].
    rewrite run_sei_single in H.
    destruct (increasing_from_snoc _ _ _ _ Hinc) as [Hpre Hs].
    destruct (IH cm Hpre eq_refl) as (GE & GI & GM).
    assert (Hs' : Z.of_nat (length (map snd pre)) <= s) by (rewrite map_length; lia).
    destruct (latency_snoc L s a cm (map snd pre) c' HL GE Hs' H) as (KE & KI & KM & _).
    rewrite map_app, app_length. cbn [map snd length].
    replace (length pre + 1 - Z.to_nat L)%nat with (S (length (map snd pre)) - Z.to_nat L)%nat
      by (rewrite map_length; lia).
    rewrite firstn_sum_snoc. rewrite map_length in *.
    split; [exact KE|]. split; lia.
Qed.

(* the guard never strands or duplicates hosts: while s < L the cohort that
   is rotated to the young end is empty *)
Lemma guard_never_blocks L steps s a c c' c1 : 0 <= L ->
  cE c = repeat 0 (Z.to_nat L + 1) -> cM c <> [] ->
  increasing_from 0 (steps ++ [(s, a)]) -> run_sei L steps c = Ok c' ->
  expose a c' = Ok c1 -> s < L -> hd 0 (cE c1) = 0.
Proof.
  intros HL HE HM Hinc H Hex Hlt.
  destruct (increasing_from_snoc _ _ _ _ Hinc) as [Hpre Hs].
  destruct (latency_exact L steps c c' HL HE HM Hpre H) as (GE & _).
  destruct (expose_spec a c' c1 _ _ Hex GE) as (KE & _).
  rewrite KE, Z.add_0_l. apply hd_lastn_padded_zero. rewrite map_length. lia.
Qed.

(* ------------------------------------------------------------------ *)
(* 3. nothing before L steps; what the n-th step adds                  *)
(* ------------------------------------------------------------------ *)

Lemma no_transition_before_L L steps c c' : 0 <= L ->
  cE c = repeat 0 (Z.to_nat L + 1) -> cM c <> [] ->
  increasing_from 0 steps -> run_sei L steps c = Ok c' ->
  (length steps <= Z.to_nat L)%nat -> cI c' = cI c /\ sumZ (cM c') = sumZ (cM c).
Proof.
  intros HL HE HM Hinc H Hlen.
  destruct (latency_exact L steps c c' HL HE HM Hinc H) as (_ & GI & GM).
  replace (length steps - Z.to_nat L)%nat with 0%nat in * by lia.
  cbn [firstn sumZ] in *. lia.
Qed.

(* the spread step with index n = length steps (0-based) makes exactly the
   hosts exposed at spread step n - L infected, and nobody when n < L *)
Lemma latency_step L steps s a c c' : 0 <= L ->
  cE c = repeat 0 (Z.to_nat L + 1) -> cM c <> [] ->
  increasing_from 0 (steps ++ [(s, a)]) -> run_sei L (steps ++ [(s, a)]) c = Ok c' ->
  exists cm, run_sei L steps c = Ok cm /\
    cI c' - cI cm =
      (if (Z.to_nat L <=? length steps)%nat
       then nth (length steps - Z.to_nat L) (map snd steps ++ [a]) 0 else 0) /\
    sumZ (cM c') - sumZ (cM cm) = cI c' - cI cm.
Proof.
  intros HL HE HM Hinc H.
  rewrite run_sei_app in H.
  destruct (run_sei L steps c) as [cm|e] eqn:Epre; cbn [bind] in H; [|discriminate].
  rewrite run_sei_single in H.
  destruct (increasing_from_snoc _ _ _ _ Hinc) as [Hpre Hs].
  destruct (latency_exact L steps c cm HL HE HM Hpre Epre) as (GE & _).
  assert (Hs' : Z.of_nat (length (map snd steps)) <= s) by (rewrite map_length; lia).
  destruct (latency_snoc L s a cm (map snd steps) c' HL GE Hs' H) as (_ & KI & KM & _).
  exists cm. split; [reflexivity|].
  destruct (Z.to_nat L <=? length steps)%nat eqn:E.
  - rewrite hd_lastn_padded_nth in KI, KM by (rewrite map_length; lia).
    rewrite map_length in *. split; lia.
  - rewrite hd_lastn_padded_zero in KI, KM by (rewrite map_length; lia). split; lia.
Qed.

(* ------------------------------------------------------------------ *)
(* 4. removals between spread steps cannot create early infection       *)
(* ------------------------------------------------------------------ *)

Lemma removals_only_decrease L s c1 c2 c1' c2' : cohorts_le c1 c2 ->
  step_forward SEI L s c1 = Ok c1' -> step_forward SEI L s c2 = Ok c2' ->
  cohorts_le c1' c2' /\ cI c1' - cI c1 <= cI c2' - cI c2.
Proof.
  unfold cohorts_le. intros Hle H1 H2. unfold step_forward in H1, H2.
  destruct (cE c1) as [|o1 r1]; [discriminate|].
  destruct (cE c2) as [|o2 r2]; [discriminate|].
  inversion Hle as [|x y l l' Ho Hr]; subst.
  destruct (s >=? L).
  - destruct (add_last (cM c1) o1) as [m1|e] eqn:E1; cbn [bind] in H1; [|discriminate].
    destruct (add_last (cM c2) o2) as [m2|e] eqn:E2; cbn [bind] in H2; [|discriminate].
    injection H1 as <-. injection H2 as <-. cellsimpl.
    split; [|lia]. apply Forall2_app; [exact Hr|]. constructor; [lia | constructor].
  - injection H1 as <-. injection H2 as <-. cellsimpl.
    split; [|lia]. apply Forall2_app; [exact Hr|]. constructor; [exact Ho | constructor].
Qed.

Lemma add_last_le l1 l2 k l1' l2' : Forall2 Z.le l1 l2 ->
  add_last l1 k = Ok l1' -> add_last l2 k = Ok l2' -> Forall2 Z.le l1' l2'.
Proof.
  intros Hle H1 H2.
  destruct (add_last_inv _ _ _ H1) as (i1 & y1 & -> & ->).
  destruct (add_last_inv _ _ _ H2) as (i2 & y2 & -> & ->).
  apply Forall2_app_inv_l in Hle as (j & t & Hi & Ht & Heq).
  inversion Ht as [|x z l l' Hxz Hnil]; subst. inversion Hnil; subst.
  apply app_inj_tail in Heq as [-> ->].
  apply Forall2_app; [exact Hi|]. constructor; [lia | constructor].
Qed.

Lemma expose_le k c1 c2 c1' c2' : cohorts_le c1 c2 ->
  expose k c1 = Ok c1' -> expose k c2 = Ok c2' ->
  cohorts_le c1' c2' /\ cI c1' = cI c1 /\ cI c2' = cI c2.
Proof.
  unfold cohorts_le, expose. intros Hle H1 H2.
  destruct (add_last (cE c1) k) as [e1|e] eqn:E1; cbn [bind] in H1; [|discriminate].
  destruct (add_last (cE c2) k) as [e2|e] eqn:E2; cbn [bind] in H2; [|discriminate].
  injection H1 as <-. injection H2 as <-. cellsimpl.
  split; [exact (add_last_le _ _ _ _ _ Hle E1 E2)|]. split; reflexivity.
Qed.

Lemma remove_exposed_cohorts_le c count d c' : remove_exposed c count d = Ok c' ->
  cohorts_le c' c /\ cI c' = cI c.
Proof.
  unfold cohorts_le, remove_exposed. intros H.
  destruct (count >? 0).
  - destruct (valid_draw (cE c) d count) eqn:EV; [|discriminate].
    injection H as <-. cellsimpl. split; [|reflexivity].
    destruct (valid_draw_spec _ _ _ EV) as (Hpw & _).
    apply pointwise_le_le, sub_list_pointwise_le, Hpw.
  - injection H as <-. cellsimpl. split; [apply Forall2_le_refl | reflexivity].
Qed.

(* whole runs: a cell whose exposed cohorts are pointwise smaller gains at
   most as many infected over the same spread steps *)
Lemma run_sei_monotone L : forall steps c1 c2 c1' c2', cohorts_le c1 c2 ->
  run_sei L steps c1 = Ok c1' -> run_sei L steps c2 = Ok c2' ->
  cohorts_le c1' c2' /\ cI c1' - cI c1 <= cI c2' - cI c2.
Proof.
  induction steps as [|[s a] r IH]; intros c1 c2 c1' c2' Hle H1 H2; cbn [run_sei] in H1, H2.
  - injection H1 as <-. injection H2 as <-. split; [exact Hle | lia].
  - destruct (expose a c1) as [x1|e] eqn:X1; cbn [bind] in H1; [|discriminate].
    destruct (expose a c2) as [x2|e] eqn:X2; cbn [bind] in H2; [|discriminate].
    destruct (step_forward SEI L s x1) as [y1|e] eqn:Y1; cbn [bind] in H1; [|discriminate].
    destruct (step_forward SEI L s x2) as [y2|e] eqn:Y2; cbn [bind] in H2; [|discriminate].
    destruct (expose_le a c1 c2 x1 x2 Hle X1 X2) as (Hx & Hi1 & Hi2).
    destruct (removals_only_decrease L s x1 x2 y1 y2 Hx Y1 Y2) as (Hy & Hd).
    destruct (IH y1 y2 c1' c2' Hy H1 H2) as (Hz & Hd'). split; [exact Hz | lia].
Qed.

(* ------------------------------------------------------------------ *)
(* 5. latency 0 is the SI model                                        *)
(* ------------------------------------------------------------------ *)

Lemma sei_L0_step k s c init y : 0 <= s -> cE c = [0] -> cM c = init ++ [y] ->
  (do c1 <- expose k c; step_forward SEI 0 s c1) =
  Ok (mkcell (cS c - k) [0] (cI c + k) (cTE c) (cR c) (init ++ [y + k]) (cD c) (cTH c)).
Proof.
  intros Hs HE HM. unfold expose. rewrite HE. cbn [add_last bind].
  unfold step_forward. cellsimpl.
  destruct (s >=? 0) eqn:ES; [|lia].
  rewrite HM, add_last_app. cbn [bind app]. rewrite Z.add_0_l.
  replace (cTE c + k - k) with (cTE c) by lia. reflexivity.
Qed.

Lemma sei_L0_is_si k s c init y : 0 <= s -> cE c = [0] -> cM c = init ++ [y] ->
  Z.of_nat k <= cS c ->
  exists c_sei c_si,
    (do c1 <- expose (Z.of_nat k) c; step_forward SEI 0 s c1) = Ok c_sei /\
    add_disperser_iter SI k c = Ok c_si /\
    cS c_sei = cS c - Z.of_nat k /\ cE c_sei = [0] /\ cI c_sei = cI c + Z.of_nat k /\
    cTE c_sei = cTE c /\ cM c_sei = init ++ [y + Z.of_nat k] /\
    cS c_si = cS c_sei /\ cI c_si = cI c_sei /\ cM c_si = cM c_sei /\
    cR c_si = cR c_sei /\ cD c_si = cD c_sei /\ cTH c_si = cTH c_sei /\
    cE c_si = cE c /\ cTE c_si = cTE c /\ c_si = c_sei.
Proof.
  intros Hs HE HM HS. eexists. eexists.
  split; [apply (sei_L0_step _ s c init y Hs HE HM)|].
  split; [apply (add_disperser_iter_SI k c init y HM HS)|]. cellsimpl.
  split; [reflexivity|]. split; [reflexivity|]. split; [reflexivity|]. split; [reflexivity|].
  split; [reflexivity|]. split; [reflexivity|]. split; [reflexivity|]. split; [reflexivity|].
  split; [reflexivity|]. split; [reflexivity|]. split; [reflexivity|]. split; [reflexivity|].
  split; [reflexivity|]. rewrite HE. reflexivity.
Qed.

(* ------------------------------------------------------------------ *)
(* 6. the numbers on an example                                        *)
(* ------------------------------------------------------------------ *)

(* L = 2, exposures 3, 0, 2, 1, 4 at simulation steps 0, 1, 4, 5, 9:
   [0;0;3] -> rotate (s=0<2)      -> [0;3;0]
   [0;3;0] -> rotate (s=1<2)      -> [3;0;0]
   [3;0;2] -> 3 become infected   -> [0;2;0]
   [0;2;1] -> 0 become infected   -> [2;1;0]
   [2;1;4] -> 2 become infected   -> [1;4;0]
   infected 1 + 3 + 0 + 2 = 6: exactly those exposed in the first 5 - 2 steps *)
Example latency_example :
  let c := mkcell 50 [0; 0; 0] 1 0 0 [0] 0 51 in
  run_sei 2 [(0, 3); (1, 0); (4, 2); (5, 1); (9, 4)] c =
  Ok (mkcell 40 [1; 4; 0] 6 5 0 [5] 0 51) /\
  lastn_padded 2 [3; 0; 2; 1; 4] = [1; 4] /\ sumZ (firstn (5 - 2) [3; 0; 2; 1; 4]) = 5 /\
  increasing_from 0 [(0, 3); (1, 0); (4, 2); (5, 1); (9, 4)].
Proof.
  split; [vm_compute; reflexivity|]. split; [reflexivity|]. split; [reflexivity|].
  cbn [increasing_from]. lia.
Qed.
