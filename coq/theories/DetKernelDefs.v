(* Model of pops::DeterministicDispersalKernel (include/pops/deterministic_kernel.hpp).
   Definitions only.

   * window dimensions from the maximum distance and the two resolutions, as the
     constructor computes them (`static_cast<int>(ceil(max_distance / res)) * 2 + 1`,
     centre = dimension / 2 with C integer division);
   * squared distance of window cell (i, j) from the centre: the row offset is
     scaled by the north-south and the column offset by the east-west resolution
     (this is the REPAIRED code, see notes/findings/C14_axis_swap.md; the
     statement is tied to the header by GeneratedKernels.det_distance_sq);
   * weights: density at that distance, divided by the sum over the window;
   * `operator()`: the greedy allotment.  The working copy of the weights is
     reset (and 1/n re-read from the dispersers raster) exactly when the row or
     the column differs from those of the previous call; the first strict
     maximum in row-major order above the start value -INT_MAX is picked and 1/n
     subtracted from it; when nothing exceeds the start value the source cell
     itself is returned and element (0,0) is decremented (what the C++ does with
     its initial values of max_prob_row/col and row/col_movement).

   The allotment is generic over the carrier F of the weights (subtraction, a
   strict comparison, n |-> 1/n and the start value are parameters) and is
   instantiated with Q, where it runs exactly; every binary64 number is a
   rational, so a window of doubles is a window over Q. *)
From Coq Require Import ZArith QArith Qround List Bool.
Import ListNotations.

Section Generic.
Variable F : Type.
Variable fsub : F -> F -> F.
Variable fgtb : F -> F -> bool.      (* a > b *)
Variable finv : Z -> F.              (* 1.0 / (double) n *)
Variable fmax0 : F.                  (* (double) -std::numeric_limits<int>::max() *)

(* number_of_rows, number_of_columns, probability (row-major) *)
Record window : Type := mkwindow { w_rows : Z; w_cols : Z; w_prob : list F }.

(* prev_row, prev_col, proportion_of_dispersers, probability_copy *)
Record kstate : Type := mkkstate { ks_prow : Z; ks_pcol : Z; ks_prop : F; ks_work : list F }.

(* the double loop `if (probability_copy(i, j) > max) { max = ...; remember (i, j) }`
   over a row-major list; k is the linear index of the head of l *)
Fixpoint argmax_from (best : F) (bi : option nat) (k : nat) (l : list F) : option nat * F :=
  match l with
  | [] => (bi, best)
  | x :: t => if fgtb x best then argmax_from x (Some k) (S k) t
              else argmax_from best bi (S k) t
  end.

Fixpoint upd (k : nat) (f : F -> F) (l : list F) : list F :=
  match l, k with
  | [], _ => []
  | x :: t, O => f x :: t
  | x :: t, S k' => x :: upd k' f t
  end.

(* mid_row = number_of_rows / 2 (C division truncates) *)
Definition mid (n : Z) : Z := Z.quot n 2.

(* the loops run only when both dimensions are positive *)
Definition pick (w : window) (work : list F) : option nat :=
  if (0 <? w_rows w)%Z && (0 <? w_cols w)%Z
  then fst (argmax_from fmax0 None 0 work) else None.

(* linear index -> (row_movement, col_movement) *)
Definition movement (w : window) (k : nat) : Z * Z :=
  ((Z.of_nat k / w_cols w - mid (w_rows w))%Z, (Z.of_nat k mod w_cols w - mid (w_cols w))%Z).

Definition cell_of (w : window) (row col : Z) (k : nat) : Z * Z :=
  ((row + fst (movement w k))%Z, (col + snd (movement w k))%Z).

(* one call of operator()(generator, row, col); n = dispersers_(row, col) at the
   time of the call *)
Definition kcall (w : window) (row col n : Z) (s : kstate) : (Z * Z) * kstate :=
  let reset := negb (row =? ks_prow s)%Z || negb (col =? ks_pcol s)%Z in
  let prop := if reset then finv n else ks_prop s in
  let work := if reset then w_prob w else ks_work s in
  match pick w work with
  | Some k => (cell_of w row col k, mkkstate row col prop (upd k (fun x => fsub x prop) work))
  | None => ((row, col), mkkstate row col prop (upd 0 (fun x => fsub x prop) work))
  end.

(* a sequence of calls (row, col, n) *)
Fixpoint krun (w : window) (calls : list (Z * Z * Z)) (s : kstate) : list (Z * Z) * kstate :=
  match calls with
  | [] => ([], s)
  | (row, col, n) :: t =>
      let r1 := kcall w row col n s in
      let r2 := krun w t (snd r1) in
      (fst r1 :: fst r2, snd r2)
  end.

(* state after construction: prev_row = prev_col = -1; the working copy and
   1/n are assigned by the first call (which always resets for row, col >= 0) *)
Definition kinit (w : window) : kstate := mkkstate (-1) (-1) (finv 1) (w_prob w).

End Generic.

Arguments mkwindow {F} _ _ _.
Arguments w_rows {F} _.
Arguments w_cols {F} _.
Arguments w_prob {F} _.
Arguments mkkstate {F} _ _ _ _.
Arguments ks_prow {F} _.
Arguments ks_pcol {F} _.
Arguments ks_prop {F} _.
Arguments ks_work {F} _.
Arguments upd {F} _ _ _.
Arguments movement {F} _ _.
Arguments cell_of {F} _ _ _ _.

(* ---- instance: Q ---- *)
Local Open Scope Q_scope.

Definition Qgtb (a b : Q) : bool := negb (Qle_bool a b).
Definition Qinv_n (n : Z) : Q := 1 / inject_Z n.
Definition Qmax0 : Q := inject_Z (-2147483647).
(* the value of a - b; reduced to lowest terms so that the extracted model stays fast *)
Definition Qsubr (a b : Q) : Q := Qred (a - b).

Definition qpick := pick Q Qgtb Qmax0.
Definition qcall := kcall Q Qsubr Qgtb Qinv_n Qmax0.
Definition qrun := krun Q Qsubr Qgtb Qinv_n Qmax0.
Definition qinit := kinit Q Qinv_n.

(* ---- the window ---- *)
(* static_cast<int>(ceil(max_distance / resolution)) *)
Definition win_half (maxd res : Q) : Z := Qceiling (maxd / res).
Definition win_cols (maxd ew ns : Q) : Z := (win_half maxd ew * 2 + 1)%Z.
Definition win_rows (maxd ew ns : Q) : Z := (win_half maxd ns * 2 + 1)%Z.

(* squared distance of cell (i, j) of a rows x cols window from its centre *)
Definition dist2 (rows cols : Z) (ew ns : Q) (i j : Z) : Q :=
  (inject_Z (Z.abs (mid rows - i)) * ns) ^ 2 + (inject_Z (Z.abs (mid cols - j)) * ew) ^ 2.

Definition zrange (n : Z) : list Z := map Z.of_nat (seq 0 (Z.to_nat n)).

(* the cells in the order of the two nested loops *)
Definition cells (rows cols : Z) : list (Z * Z) :=
  flat_map (fun i => map (fun j => (i, j)) (zrange cols)) (zrange rows).

Definition qsum (l : list Q) : Q := fold_right Qplus 0 l.

Section Window.
(* |pdf(sqrt d2)| as a function of the squared distance d2 *)
Variable dens : Q -> Q.

Definition raw_weights (rows cols : Z) (ew ns : Q) : list Q :=
  map (fun c => dens (dist2 rows cols ew ns (fst c) (snd c))) (cells rows cols).

(* probability /= sum *)
Definition normalise (l : list Q) : list Q := let s := qsum l in map (fun x => x / s) l.

Definition make_window (maxd ew ns : Q) : window Q :=
  let rows := win_rows maxd ew ns in
  let cols := win_cols maxd ew ns in
  mkwindow rows cols (normalise (raw_weights rows cols ew ns)).
End Window.

(* linear index of window cell (i, j) *)
Definition lin (cols i j : Z) : nat := Z.to_nat (i * cols + j).

(* counting returned cells *)
Definition cell_eqb (a b : Z * Z) : bool := (fst a =? fst b)%Z && (snd a =? snd b)%Z.
Definition count_cell (c : Z * Z) (l : list (Z * Z)) : nat := length (filter (cell_eqb c) l).
