(* Kernels engine (C13), geometry: hand-written definitions composed from the
   translated pieces of GeneratedKernelTables.v.  No proofs here. *)
From Coq Require Import ZArith Reals String List Bool.
From Pops Require Import Err KernelTypesDefs GeneratedKernelTables.
Import ListNotations.

(* The compass: one cell in the named direction, rows grow southwards and
   columns eastwards (specification side, written by hand). *)
Definition compass (d : direction) : option (Z * Z) :=
  match d with
  | DirN => Some (-1, 0) | DirNE => Some (-1, 1) | DirE => Some (0, 1)
  | DirSE => Some (1, 1) | DirS => Some (1, 0) | DirSW => Some (1, -1)
  | DirW => Some (0, -1) | DirNW => Some (-1, -1) | DirNone => None
  end%Z.

(* Degrees clockwise from north (specification side). *)
Definition compass_degrees (d : direction) : option Z :=
  match d with
  | DirN => Some 0 | DirNE => Some 45 | DirE => Some 90 | DirSE => Some 135
  | DirS => Some 180 | DirSW => Some 225 | DirW => Some 270 | DirNW => Some 315
  | DirNone => None
  end%Z.

(* Executable form of "the neighbour table is the compass". *)
Definition neighbor_is_compass_b : bool :=
  forallb (fun d =>
    match neighbor_offset d, compass d with
    | Ok (a, b), Some (c, e) => Z.eqb a c && Z.eqb b e
    | Err InvalidArgument, None => true
    | _, _ => false
    end) [DirN; DirNE; DirE; DirSE; DirS; DirSW; DirW; DirNW; DirNone].

(* Neighbour kernel call: new position or the exception. *)
Definition neighbor_call (d : direction) (row col : Z) : result (Z * Z) :=
  match neighbor_offset d with
  | Ok (dr, dc) => Ok (row + dr, col + dc)%Z
  | Err e => Err e
  end.

(* Uniform kernel as the library constructs it from a landscape of
   rows x cols cells (the three call sites are translated). *)
Definition uniform_bounds (args : Z * Z) : (Z * Z) * (Z * Z) :=
  ((uniform_row_lo (fst args) (snd args), uniform_row_hi (fst args) (snd args)),
   (uniform_col_lo (fst args) (snd args), uniform_col_hi (fst args) (snd args))).

Definition in_range (b : Z * Z) (k : Z) : Prop := (fst b <= k <= snd b)%Z.

(* "lands anywhere in the landscape": exactly the cell indices are reachable. *)
Definition covers_landscape (b : (Z * Z) * (Z * Z)) (rows cols : Z) : Prop :=
  (forall k, in_range (fst b) k <-> (0 <= k < rows)%Z) /\
  (forall k, in_range (snd b) k <-> (0 <= k < cols)%Z).

Definition covers_landscape_b (b : (Z * Z) * (Z * Z)) (rows cols : Z) : bool :=
  (Z.eqb (fst (fst b)) 0 && Z.eqb (snd (fst b)) (rows - 1) &&
   Z.eqb (fst (snd b)) 0 && Z.eqb (snd (snd b)) (cols - 1))%Z.

Local Open Scope R_scope.

(* cos and sin of the eight compass angles (specification side). *)
Definition compass_cos_sin (d : direction) : R * R :=
  match d with
  | DirN => (1, 0) | DirNE => (/ sqrt 2, / sqrt 2) | DirE => (0, 1)
  | DirSE => (- / sqrt 2, / sqrt 2) | DirS => (-1, 0)
  | DirSW => (- / sqrt 2, - / sqrt 2) | DirW => (0, -1)
  | DirNW => (/ sqrt 2, - / sqrt 2) | DirNone => (0, 0)
  end.

(* The whole offset computation of RadialDispersalKernel::operator() for a
   drawn distance and angle, including how the constructor stores the two
   resolutions. *)
Definition radial_offset (ew_res ns_res : R) (row col : Z) (distance theta : R) : Z * Z :=
  (radial_row row col distance theta
     (radial_north_south_resolution ew_res ns_res) (radial_east_west_resolution ew_res ns_res),
   radial_col row col distance theta
     (radial_north_south_resolution ew_res ns_res) (radial_east_west_resolution ew_res ns_res)).

(* The von Mises sampler, with the uniform variates as explicit inputs:
   u0 (only draw of the uniform branch), u1 of the ACCEPTED iteration of the
   rejection loop, u3 (side).  Which u1 is accepted (and hence the law of the
   angle) is not modelled. *)
Definition vm_f_of (kappa u1 : R) : R :=
  let a := vm_a kappa in let b := vm_b kappa a in let r := vm_r kappa a b in
  vm_f r (vm_z u1).

Definition vm_c_of (kappa u1 : R) : R :=
  let a := vm_a kappa in let b := vm_b kappa a in let r := vm_r kappa a b in
  vm_c kappa r (vm_f r (vm_z u1)).

Definition vm_angle (mu kappa u0 u1 u3 : R) : R :=
  if vm_is_uniform kappa then vm_uniform_angle u0
  else if vm_upper_branch u3 then vm_theta_upper mu (vm_f_of kappa u1)
  else vm_theta_lower mu (vm_f_of kappa u1).

(* Angle drawn by a RadialDispersalKernel configured with a direction and a
   concentration. *)
Definition radial_angle (dir : direction) (kappa_cfg u0 u1 u3 : R) : R :=
  vm_angle (radial_vm_mu dir) (radial_vm_kappa dir kappa_cfg) u0 u1 u3.
