(* Kernels engine (C13): specification-side definitions for the name tables,
   the factories and the natural/anthropogenic mix.  No proofs here. *)
From Coq Require Import ZArith NArith String Ascii List Bool.
From Pops Require Import Err KernelTypesDefs GeneratedKernelTables.
Import ListNotations.
Local Open Scope string_scope.

(* The name a kernel type is known by (lower case, words separated by a blank). *)
Definition canonical_kernel_name (k : kernel_type) : string :=
  match k with
  | KCauchy => "cauchy" | KExponential => "exponential" | KUniform => "uniform"
  | KDeterministicNeighbor => "deterministic neighbor" | KPowerLaw => "power law"
  | KHyperbolicSecant => "hyperbolic secant" | KGamma => "gamma"
  | KExponentialPower => "exponential power" | KWeibull => "weibull" | KNormal => "normal"
  | KLogNormal => "log normal" | KLogistic => "logistic" | KNetwork => "network"
  | KNone => "none"
  end.

Definition direction_name (d : direction) : string :=
  match d with
  | DirN => "N" | DirNE => "NE" | DirE => "E" | DirSE => "SE" | DirS => "S"
  | DirSW => "SW" | DirW => "W" | DirNW => "NW" | DirNone => "none"
  end.

(* Spelling variants: case is ignored and '-' stands for a blank. *)
Definition normalize_char (c : ascii) : ascii :=
  let n := N_of_ascii c in
  if (N.leb 65 n && N.leb n 90)%bool then ascii_of_N (n + 32)
  else if N.eqb n 45 then " "%char else c.

Fixpoint normalize (s : string) : string :=
  match s with
  | EmptyString => EmptyString
  | String c tl => String (normalize_char c) (normalize tl)
  end.

Definition all_kernel_types : list kernel_type :=
  [KCauchy; KExponential; KUniform; KDeterministicNeighbor; KPowerLaw; KHyperbolicSecant;
   KGamma; KExponentialPower; KWeibull; KNormal; KLogNormal; KLogistic; KNetwork; KNone].
Definition all_directions : list direction :=
  [DirN; DirNE; DirE; DirSE; DirS; DirSW; DirW; DirNW; DirNone].

(* every accepted spelling names the kernel it is mapped to *)
Definition kernel_entry_ok (e : string * kernel_type) : bool :=
  (String.eqb (fst e) "" && kernel_type_eqb (snd e) KNone)
  || String.eqb (normalize (fst e)) (canonical_kernel_name (snd e)).

Definition direction_entry_ok (e : string * direction) : bool :=
  match snd e with
  | DirNone => String.eqb (fst e) "" || String.eqb (normalize (fst e)) "none"
  | d => String.eqb (fst e) (direction_name d)
  end.

(* the factories as documented: named kernels first, then deterministic vs radial *)
Definition factory_natural_spec (k : kernel_type) (stochastic : bool) : kernel_class :=
  match k with
  | KUniform => CUniform | KDeterministicNeighbor => CNeighbor
  | _ => if stochastic then CRadial else CDeterministic
  end.
Definition factory_anthropogenic_spec (k : kernel_type) (stochastic : bool) : kernel_class :=
  match k with
  | KUniform => CUniform | KDeterministicNeighbor => CNeighbor | KNetwork => CNetwork
  | _ => if stochastic then CRadial else CDeterministic
  end.
Definition radial_args_spec (prefix : string) (kvar : string) : list string :=
  [ "config.ew_res"; "config.ns_res"; kvar; "config." ++ prefix ++ "_scale";
    "direction_from_string(config." ++ prefix ++ "_direction)"; "config." ++ prefix ++ "_kappa";
    "config.shape" ].
