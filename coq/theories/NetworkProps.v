(* Lemmas about the network model (NetworkDefs.v) used by Properties_C15.v. *)
From Coq Require Import ZArith QArith Qround Qreduction List Bool String Lia Lqa.
From Pops Require Import Err NetworkDefs.
Import ListNotations.
Local Open Scope Z_scope.

(* ------------------------------------------------------------------ helpers *)

Lemma cell_cmp_eq : forall a b : Z * Z, cell_cmp a b = Eq <-> a = b.
Proof.
  intros [a1 a2] [b1 b2]. unfold cell_cmp. simpl.
  destruct (a1 ?= b1) eqn:E1.
  - apply Z.compare_eq_iff in E1. subst. rewrite Z.compare_eq_iff.
    split; intro H; [subst; reflexivity | inversion H; reflexivity].
  - split; intro H; [discriminate | inversion H; subst; rewrite Z.compare_refl in E1; discriminate].
  - split; intro H; [discriminate | inversion H; subst; rewrite Z.compare_refl in E1; discriminate].
Qed.

Lemma zcmp_eq : forall a b : Z, (a ?= b) = Eq <-> a = b.
Proof. intros. apply Z.compare_eq_iff. Qed.

Lemma cell_eqb_eq : forall a b : cell, cell_eqb a b = true <-> a = b.
Proof.
  intros [a1 a2] [b1 b2]. unfold cell_eqb. simpl. rewrite andb_true_iff, !Z.eqb_eq.
  split; [intros [-> ->]; reflexivity | intro H; inversion H; auto].
Qed.

Lemma zmem_In : forall x l, zmem x l = true <-> In x l.
Proof.
  intros x l. unfold zmem. rewrite existsb_exists. split.
  - intros [y [Hy E]]. apply Z.eqb_eq in E. subst. exact Hy.
  - intro H. exists x. split; [exact H | apply Z.eqb_refl].
Qed.

Lemma zmem_false : forall x l, zmem x l = false <-> ~ In x l.
Proof.
  intros x l. rewrite <- zmem_In. destruct (zmem x l).
  - split; [discriminate | intro H; exfalso; apply H; reflexivity].
  - split; [intros _ H; discriminate | reflexivity].
Qed.

Lemma zset_place_In : forall x y l, In y (zset_place x l) <-> y = x \/ In y l.
Proof.
  intros x y l. induction l as [|z t IH]; simpl.
  - intuition.
  - destruct (x <? z); simpl; [intuition | rewrite IH; intuition].
Qed.

Lemma zset_insert_In : forall x y l, In y (zset_insert x l) <-> y = x \/ In y l.
Proof.
  intros x y l. unfold zset_insert. destruct (zmem x l) eqn:E.
  - apply zmem_In in E. split; [auto | intros [-> | H]; assumption].
  - apply zset_place_In.
Qed.

Lemma Qlt_bool_iff : forall a b, Qlt_bool a b = true <-> (a < b)%Q.
Proof.
  intros a b. unfold Qlt_bool. rewrite negb_true_iff.
  destruct (Qle_bool b a) eqn:E.
  - apply Qle_bool_iff in E. split; [discriminate | intro H; exfalso; apply (Qlt_not_le _ _ H E)].
  - split; [intros _ | reflexivity]. apply Qnot_le_lt. intro H. apply Qle_bool_iff in H. congruence.
Qed.

Lemma Qlt_bool_false : forall a b, Qlt_bool a b = false <-> (b <= a)%Q.
Proof.
  intros a b. unfold Qlt_bool. rewrite negb_false_iff. apply Qle_bool_iff.
Qed.

(* ------------------------------------------------------- association lists *)

Section MapLemmas.
  Variables (K V : Type) (cmp : K -> K -> comparison).
  Hypothesis cmp_eq : forall a b, cmp a b = Eq <-> a = b.

  Lemma cmp_refl : forall a, cmp a a = Eq.
  Proof. intro a. apply cmp_eq. reflexivity. Qed.

  Lemma m_find_In : forall k (v : V) m, m_find cmp k m = Some v -> In (k, v) m.
  Proof.
    intros k v m. induction m as [|[k' v'] t IH]; simpl; [discriminate|].
    destruct (cmp k k') eqn:E; intro H.
    - apply cmp_eq in E. inversion H. subst. left. reflexivity.
    - right. apply IH. exact H.
    - right. apply IH. exact H.
  Qed.

  Lemma m_find_none_notin : forall k m, m_find cmp k m = None -> forall v : V, ~ In (k, v) m.
  Proof.
    intros k m. induction m as [|[k' v'] t IH]; simpl; intros H v; [tauto|].
    destruct (cmp k k') eqn:E; [discriminate|..]; intros [H1 | H1].
    - inversion H1. subst. rewrite cmp_refl in E. discriminate.
    - exact (IH H v H1).
    - inversion H1. subst. rewrite cmp_refl in E. discriminate.
    - exact (IH H v H1).
  Qed.

  Lemma In_m_find_some : forall k (v : V) m, In (k, v) m -> exists v', m_find cmp k m = Some v'.
  Proof.
    intros k v m H. destruct (m_find cmp k m) eqn:E; [eauto|].
    exfalso. exact (m_find_none_notin _ _ E v H).
  Qed.

  Lemma m_find_place_same : forall k (v : V) m, m_find cmp k m = None -> m_find cmp k (m_place cmp k v m) = Some v.
  Proof.
    intros k v m. induction m as [|[k' v'] t IH]; simpl; intro H.
    - rewrite cmp_refl. reflexivity.
    - destruct (cmp k k') eqn:E; [discriminate|..]; simpl.
      + rewrite cmp_refl. reflexivity.
      + rewrite E. apply IH. exact H.
  Qed.

  Lemma m_find_place_other : forall k k' (v : V) m, k' <> k ->
    m_find cmp k' (m_place cmp k v m) = m_find cmp k' m.
  Proof.
    intros k k' v m Hne. induction m as [|[k2 v2] t IH]; simpl.
    - destruct (cmp k' k) eqn:E; [apply cmp_eq in E; contradiction | reflexivity | reflexivity].
    - destruct (cmp k k2) eqn:E; simpl.
      + rewrite IH. reflexivity.
      + destruct (cmp k' k) eqn:E2; [apply cmp_eq in E2; contradiction | reflexivity | reflexivity].
      + rewrite IH. reflexivity.
  Qed.

  Lemma m_find_replace_same : forall k (v v0 : V) m, m_find cmp k m = Some v0 ->
    m_find cmp k (m_replace cmp k v m) = Some v.
  Proof.
    intros k v v0 m. induction m as [|[k' v'] t IH]; simpl; [discriminate|].
    destruct (cmp k k') eqn:E; simpl; rewrite E; auto.
  Qed.

  Lemma m_find_replace_other : forall k k' (v : V) m, k' <> k ->
    m_find cmp k' (m_replace cmp k v m) = m_find cmp k' m.
  Proof.
    intros k k' v m Hne. induction m as [|[k2 v2] t IH]; simpl; [reflexivity|].
    destruct (cmp k k2) eqn:E; simpl.
    - apply cmp_eq in E. subst k2.
      destruct (cmp k' k) eqn:E2; [apply cmp_eq in E2; contradiction | reflexivity | reflexivity].
    - rewrite IH. reflexivity.
    - rewrite IH. reflexivity.
  Qed.

  Lemma m_find_update_same : forall k f m,
    m_find cmp k (m_update cmp k f m) = Some (f (m_find cmp k m : option V)).
  Proof.
    intros k f m. unfold m_update. destruct (m_find cmp k m) eqn:E.
    - eapply m_find_replace_same. exact E.
    - apply m_find_place_same. exact E.
  Qed.

  Lemma m_find_update_other : forall k k' f m, k' <> k ->
    m_find cmp k' (m_update cmp k f m) = (m_find cmp k' m : option V).
  Proof.
    intros k k' f m Hne. unfold m_update. destruct (m_find cmp k m).
    - apply m_find_replace_other. exact Hne.
    - apply m_find_place_other. exact Hne.
  Qed.

  Lemma m_find_emplace_same : forall k (v : V) m,
    m_find cmp k (m_emplace cmp k v m) = Some (match m_find cmp k m with Some v' => v' | None => v end).
  Proof.
    intros k v m. unfold m_emplace. destruct (m_find cmp k m) eqn:E.
    - exact E.
    - apply m_find_place_same. exact E.
  Qed.

  Lemma m_find_emplace_other : forall k k' (v : V) m, k' <> k ->
    m_find cmp k' (m_emplace cmp k v m) = m_find cmp k' m.
  Proof.
    intros k k' v m Hne. unfold m_emplace. destruct (m_find cmp k m); [reflexivity|].
    apply m_find_place_other. exact Hne.
  Qed.

  Lemma m_place_In : forall k (v : V) m x, In x (m_place cmp k v m) <-> x = (k, v) \/ In x m.
  Proof.
    intros k v m x. induction m as [|[k' v'] t IH]; simpl.
    - intuition.
    - destruct (cmp k k'); simpl; try rewrite IH; intuition.
  Qed.

  Lemma m_place_not_nil : forall k (v : V) m, m_place cmp k v m <> [].
  Proof. intros k v m. destruct m as [|[k' v'] t]; simpl; [discriminate|]. destruct (cmp k k'); discriminate. Qed.

  Lemma m_update_not_nil : forall k f (m : list (K * V)), m_update cmp k f m <> [].
  Proof.
    intros k f m. unfold m_update. destruct (m_find cmp k m) eqn:E.
    - destruct m as [|[k' v'] t]; simpl in *; [discriminate|]. destruct (cmp k k'); discriminate.
    - apply m_place_not_nil.
  Qed.

  (* every entry of an updated map is an old entry or the updated one *)
  Lemma m_replace_In : forall k (v : V) m x, In x (m_replace cmp k v m) ->
    In x m \/ (exists k', x = (k', v) /\ cmp k k' = Eq).
  Proof.
    intros k v m x. induction m as [|[k' v'] t IH]; simpl; [tauto|].
    destruct (cmp k k') eqn:E; simpl; intros [H | H].
    - right. exists k'. split; [symmetry; exact H | exact E].
    - left. right. exact H.
    - left. left. exact H.
    - destruct (IH H) as [H1 | H1]; [left; right; exact H1 | right; exact H1].
    - left. left. exact H.
    - destruct (IH H) as [H1 | H1]; [left; right; exact H1 | right; exact H1].
  Qed.

  Lemma m_update_In : forall k f (m : list (K * V)) x, In x (m_update cmp k f m) ->
    In x m \/ x = (k, f (m_find cmp k m)).
  Proof.
    intros k f m x. unfold m_update. destruct (m_find cmp k m) eqn:E; intro H.
    - apply m_replace_In in H. destruct H as [H | [k' [H1 H2]]]; [left; exact H|].
      apply cmp_eq in H2. subst k'. right. exact H1.
    - apply m_place_In in H. destruct H as [H | H]; [right; exact H | left; exact H].
  Qed.
End MapLemmas.

Arguments m_find_In {K V cmp} cmp_eq k v m.
Arguments m_find_update_same {K V cmp} cmp_eq k f m.
Arguments m_find_update_other {K V cmp} cmp_eq k k' f m.
Arguments m_find_emplace_same {K V cmp} cmp_eq k v m.
Arguments m_find_emplace_other {K V cmp} cmp_eq k k' v m.

(* ----------------------------------------------------- choices and the tape *)

Lemma pick_In : forall A (l : list A) tp a tp', pick l tp = Ok (a, tp') -> In a l.
Proof.
  intros A l tp a tp'. unfold pick. destruct tp as [|i t]; [discriminate|].
  destruct (nth_error l i) eqn:E; [|discriminate].
  intro H. inversion H. subst. eapply nth_error_In. exact E.
Qed.

Lemma choose_In : forall A w (l : list A) tp a tp', l <> [] -> choose w l tp = Ok (a, tp') -> In a l.
Proof.
  intros A w l tp a tp' Hne. unfold choose. destruct l as [|x [|y t]].
  - contradiction.
  - intro H. inversion H. left. reflexivity.
  - apply pick_In.
Qed.

(* ------------------------------------------------------------ segment views *)

Definition on_network (net : network) (c : cell) : Prop :=
  exists k s, In (k, s) (nw_segs net) /\ In c (sg_cells s).

(* a view is a stored segment seen forwards or backwards *)
Definition view_of (net : network) (a b : node) (v : view) : Prop :=
  (m_find cell_cmp (a, b) (nw_segs net) = Some (v_seg v) /\ v_cells v = sg_cells (v_seg v)) \/
  (m_find cell_cmp (a, b) (nw_segs net) = None /\
   m_find cell_cmp (b, a) (nw_segs net) = Some (v_seg v) /\ v_cells v = rev (sg_cells (v_seg v))).

Lemma get_segment_view_of : forall net a b v, get_segment net a b = Ok v -> view_of net a b v.
Proof.
  intros net a b v. unfold get_segment, view_of.
  destruct (m_find cell_cmp (a, b) (nw_segs net)) eqn:E1.
  - intro H. inversion H. subst. simpl. left. split; reflexivity.
  - destruct (m_find cell_cmp (b, a) (nw_segs net)) eqn:E2; [|discriminate].
    intro H. inversion H. subst. simpl. right. repeat split; reflexivity.
Qed.

Lemma view_of_cells_on_network : forall net a b v c,
  view_of net a b v -> In c (v_cells v) -> on_network net c.
Proof.
  intros net a b v c [[Hf Hc] | [_ [Hf Hc]]] Hin.
  - exists (a, b), (v_seg v). split; [apply (m_find_In cell_cmp_eq); exact Hf | rewrite <- Hc; exact Hin].
  - exists (b, a), (v_seg v). split; [apply (m_find_In cell_cmp_eq); exact Hf |].
    rewrite Hc in Hin. apply in_rev in Hin. exact Hin.
Qed.

Lemma nth_cell_In : forall l i c, nth_cell l i = Ok c -> In c l.
Proof.
  intros l i c. unfold nth_cell. destruct (i <? 0); [discriminate|].
  destruct (nth_error l (Z.to_nat i)) eqn:E; [|discriminate].
  intro H. inversion H. subst. eapply nth_error_In. exact E.
Qed.

Lemma stop_cell_In : forall v d jump c, stop_cell v d jump = Ok c -> In c (v_cells v).
Proof.
  intros v d jump c. unfold stop_cell, view_front, view_back, view_cell_by_cost.
  destruct jump.
  - destruct (Qlt_bool d (v_cost v / 2)); apply nth_cell_In.
  - destruct (index_from_cost (v_seg v) d); simpl; [apply nth_cell_In | discriminate].
Qed.

(* ------------------------------------------------------------- walk: basics *)

Lemma walk_needs_node : forall net fuel start d jump tp,
  nodes_at net start = [] -> walk net fuel start d jump tp = Err InvalidArgument.
Proof.
  intros net fuel start d jump tp H. unfold walk, walk_tr, random_node_at. rewrite H. reflexivity.
Qed.

Lemma walk_loop_negative : forall net fuel start jump nd visited d tp,
  (d < 0)%Q -> fuel <> O -> walk_loop fuel net start jump nd visited d tp = Err InvalidArgument.
Proof.
  intros net fuel start jump nd visited d tp Hd Hf. destruct fuel as [|f]; [contradiction|]. simpl.
  destruct (Qle_bool 0 d) eqn:E; [|reflexivity].
  apply Qle_bool_iff in E. exfalso. exact (Qlt_not_le _ _ Hd E).
Qed.

Lemma walk_loop_S : forall f net start jump nd visited d tp,
  walk_loop (S f) net start jump nd visited d tp =
  if Qle_bool 0%Q d then
    match next_node net nd visited tp with
    | Err e => Err e
    | Ok (nx, tp') =>
      if nx =? nd then Ok (mkwres start [] [nd] false)
      else
        do v <- get_segment net nd nx;
        if Qlt_bool (v_cost v) d then
          do r <- walk_loop f net start jump nx (zset_insert nd visited) (Qred (d - v_cost v)%Q) tp';
          Ok (mkwres (w_cell r) (v :: w_views r) (nd :: w_path r) (w_on_segment r))
        else
          do c <- stop_cell v d jump;
          Ok (mkwres c [v] [nd; nx] true)
    end
  else Err InvalidArgument.
Proof. reflexivity. Qed.

Lemma walk_loop_on_network : forall fuel net start jump nd visited d tp r,
  walk_loop fuel net start jump nd visited d tp = Ok r ->
  w_cell r = start \/ on_network net (w_cell r).
Proof.
  induction fuel as [|f IH]; intros net start jump nd visited d tp r; [simpl; discriminate|].
  rewrite walk_loop_S.
  destruct (Qle_bool 0 d); [|discriminate].
  destruct (next_node net nd visited tp) as [[nx tp']|e]; [|discriminate].
  destruct (nx =? nd).
  - intro H. inversion H. left. reflexivity.
  - destruct (get_segment net nd nx) as [v|e] eqn:Eg; cbn [bind]; [|discriminate].
    destruct (Qlt_bool (v_cost v) d).
    + destruct (walk_loop f net start jump nx (zset_insert nd visited) (Qred (d - v_cost v)) tp') as [r'|e] eqn:Er;
        cbn [bind]; [|discriminate].
      intro H. inversion H. cbn [w_cell]. eapply IH. exact Er.
    + destruct (stop_cell v d jump) as [c|e] eqn:Es; cbn [bind]; [|discriminate].
      intro H. inversion H. cbn [w_cell]. right.
      eapply view_of_cells_on_network; [apply get_segment_view_of; exact Eg | eapply stop_cell_In; exact Es].
Qed.

Lemma walk_on_network : forall net fuel start d jump tp c,
  walk net fuel start d jump tp = Ok c -> c = start \/ on_network net c.
Proof.
  intros net fuel start d jump tp c. unfold walk, walk_tr.
  destruct (random_node_at net start tp) as [[n0 tp']|e]; simpl; [|discriminate].
  destruct (walk_loop fuel net start jump n0 [] d tp') as [r|e] eqn:E; simpl; [|discriminate].
  intro H. inversion H. subst. eapply walk_loop_on_network. exact E.
Qed.

(* ------------------------------------------------- next node: unvisited first *)

Lemma next_node_cands_spec : forall net n ignore cands,
  next_node_cands net n ignore = Ok cands ->
  exists all, connected net n = Ok all /\ cands <> [] /\
    (all = [] -> cands = [n]) /\
    (all <> [] -> forall m, In m cands -> In m all) /\
    ((exists u, In u all /\ ~ In u ignore) -> forall m, In m cands -> ~ In m ignore).
Proof.
  intros net n ignore cands. unfold next_node_cands.
  destruct (connected net n) as [all|e]; simpl; [|discriminate].
  intro H. exists all. split; [reflexivity|].
  destruct all as [|a [|b t]].
  - inversion H. subst. repeat split; try discriminate; try tauto.
    intros [u [[] _]].
  - inversion H. subst. repeat split; try discriminate; try tauto.
    intros [u [[Hu | []] Hn]] m [Hm | []]. subst. exact Hn.
  - remember (a :: b :: t) as all eqn:Eall.
    destruct (filter (fun id => negb (zmem id ignore)) all) as [|c ct] eqn:Ef.
    + inversion H. subst cands. repeat split.
      * subst all. discriminate.
      * intro H0. subst all. discriminate.
      * intros _ m Hm. exact Hm.
      * intros [u [Hu Hn]]. exfalso.
        assert (Hin : In u (filter (fun id => negb (zmem id ignore)) all)).
        { apply filter_In. split; [exact Hu|]. apply negb_true_iff. apply zmem_false. exact Hn. }
        rewrite Ef in Hin. exact Hin.
    + inversion H. subst cands. repeat split.
      * discriminate.
      * intro H0. subst all. discriminate.
      * intros _ m Hm. rewrite <- Ef in Hm. apply filter_In in Hm. tauto.
      * intros _ m Hm. rewrite <- Ef in Hm. apply filter_In in Hm. destruct Hm as [_ Hm].
        apply negb_true_iff in Hm. apply zmem_false. exact Hm.
Qed.

Lemma next_node_spec : forall net n ignore tp m tp',
  next_node net n ignore tp = Ok (m, tp') ->
  exists all, connected net n = Ok all /\
    (all = [] -> m = n) /\ (all <> [] -> In m all) /\
    ((exists u, In u all /\ ~ In u ignore) -> ~ In m ignore).
Proof.
  intros net n ignore tp m tp'. unfold next_node.
  destruct (next_node_cands net n ignore) as [cands|e] eqn:Ec; simpl; [|discriminate].
  intro H. destruct (next_node_cands_spec _ _ _ _ Ec) as [all [Hc [Hne [H0 [H1 H2]]]]].
  apply choose_In in H; [|exact Hne].
  exists all. split; [exact Hc|]. repeat split.
  - intro Ha. rewrite (H0 Ha) in H. destruct H as [H | []]. symmetry. exact H.
  - intro Ha. exact (H1 Ha m H).
  - intro Hu. exact (H2 Hu m H).
Qed.

(* ------------------------------------------- walk: path, order, accounting *)

Definition sum_costs (vs : list view) : Q := fold_right (fun v a => (v_cost v + a)%Q) 0%Q vs.

(* consecutive nodes of the path are joined by the views, each a stored
   segment between them, and each next node is a neighbour *)
Fixpoint chain (net : network) (path : list node) (views : list view) {struct path} : Prop :=
  match path with
  | [] => False
  | n :: t =>
    match t, views with
    | [], [] => True
    | m :: _, v :: vs =>
      get_segment net n m = Ok v /\ m <> n /\
      (exists all, connected net n = Ok all /\ In m all) /\ chain net t vs
    | _, _ => False
    end
  end.

(* whenever the node being left has a neighbour outside the visited set, the
   node gone to is outside it *)
Fixpoint fresh_pref (net : network) (visited : list node) (path : list node) {struct path} : Prop :=
  match path with
  | [] => True
  | n :: t =>
    match t with
    | [] => True
    | m :: _ =>
      ((exists all u, connected net n = Ok all /\ In u all /\ ~ In u visited) -> ~ In m visited) /\
      fresh_pref net (zset_insert n visited) t
    end
  end.

Lemma walk_loop_path : forall fuel net start jump nd visited d tp r,
  walk_loop fuel net start jump nd visited d tp = Ok r ->
  (exists t, w_path r = nd :: t) /\ chain net (w_path r) (w_views r) /\
  fresh_pref net visited (w_path r).
Proof.
  induction fuel as [|f IH]; intros net start jump nd visited d tp r; [simpl; discriminate|].
  rewrite walk_loop_S.
  destruct (Qle_bool 0 d); [|discriminate].
  destruct (next_node net nd visited tp) as [[nx tp']|e] eqn:En; [|discriminate].
  destruct (nx =? nd) eqn:Enx.
  - intro H. inversion H. cbn. split; [eexists; reflexivity | split; exact I].
  - apply Z.eqb_neq in Enx.
    destruct (next_node_spec _ _ _ _ _ _ En) as [all [Hc [H0 [H1 H2]]]].
    assert (Hall : all <> []). { intro Ha. apply Enx. exact (H0 Ha). }
    specialize (H1 Hall).
    destruct (get_segment net nd nx) as [v|e] eqn:Eg; cbn [bind]; [|discriminate].
    destruct (Qlt_bool (v_cost v) d).
    + destruct (walk_loop f net start jump nx (zset_insert nd visited) (Qred (d - v_cost v)) tp') as [r'|e] eqn:Er;
        cbn [bind]; [|discriminate].
      intro H. inversion H. cbn [w_path w_views].
      destruct (IH _ _ _ _ _ _ _ _ Er) as [[t Ht] [Hch Hfr]].
      split; [eexists; reflexivity|].
      rewrite Ht in *. split.
      * cbn [chain]. split; [exact Eg|]. split; [exact Enx|]. split; [exists all; split; assumption | exact Hch].
      * cbn [fresh_pref]. split; [|exact Hfr].
        intros [all' [u [Hc' [Hu Hn]]]]. rewrite Hc in Hc'. inversion Hc'. subst all'.
        apply H2. exists u. split; assumption.
    + destruct (stop_cell v d jump) as [c|e]; cbn [bind]; [|discriminate].
      intro H. inversion H. cbn [w_path w_views].
      split; [eexists; reflexivity|]. split.
      * cbn [chain]. split; [exact Eg|]. split; [exact Enx|]. split; [exists all; split; assumption | exact I].
      * cbn [fresh_pref]. split; [|exact I].
        intros [all' [u [Hc' [Hu Hn]]]]. rewrite Hc in Hc'. inversion Hc'. subst all'.
        apply H2. exists u. split; assumption.
Qed.

Lemma sum_costs_cons : forall v vs, sum_costs (v :: vs) = (v_cost v + sum_costs vs)%Q.
Proof. reflexivity. Qed.

Lemma walk_loop_accounting : forall fuel net start jump nd visited d tp r,
  walk_loop fuel net start jump nd visited d tp = Ok r ->
  if w_on_segment r then
    exists pre last rem, w_views r = pre ++ [last] /\
      (forall i v, nth_error pre i = Some v -> (v_cost v < d - sum_costs (firstn i pre))%Q) /\
      (rem == d - sum_costs pre)%Q /\ (0 <= rem)%Q /\ (rem <= v_cost last)%Q /\
      stop_cell last rem jump = Ok (w_cell r)
  else
    w_cell r = start /\
    (forall i v, nth_error (w_views r) i = Some v -> (v_cost v < d - sum_costs (firstn i (w_views r)))%Q).
Proof.
  induction fuel as [|f IH]; intros net start jump nd visited d tp r; [simpl; discriminate|].
  rewrite walk_loop_S.
  destruct (Qle_bool 0 d) eqn:Ed; [|discriminate]. apply Qle_bool_iff in Ed.
  destruct (next_node net nd visited tp) as [[nx tp']|e]; [|discriminate].
  destruct (nx =? nd).
  - intro H. inversion H. cbn. split; [reflexivity|]. intros i v Hi. destruct i; discriminate.
  - destruct (get_segment net nd nx) as [v|e]; cbn [bind]; [|discriminate].
    destruct (Qlt_bool (v_cost v) d) eqn:Ec.
    + apply Qlt_bool_iff in Ec.
      destruct (walk_loop f net start jump nx (zset_insert nd visited) (Qred (d - v_cost v)) tp') as [r'|e] eqn:Er;
        cbn [bind]; [|discriminate].
      intro H. inversion H. cbn [w_on_segment w_views w_cell].
      pose proof (IH _ _ _ _ _ _ _ _ Er) as Hr.
      pose proof (Qred_correct (d - v_cost v)) as Hred.
      destruct (w_on_segment r').
      * destruct Hr as [pre [last [rem [Hv [Hp [Hrem [H0 [Hle Hs]]]]]]]].
        exists (v :: pre), last, rem. rewrite Hv. split; [reflexivity|]. split.
        { intros i w Hi. destruct i as [|j].
          - simpl in Hi. inversion Hi. subst w. simpl. lra.
          - simpl in Hi. specialize (Hp j w Hi). cbn [firstn]. rewrite sum_costs_cons. lra. }
        split; [rewrite sum_costs_cons; lra|]. split; [exact H0|]. split; [exact Hle | exact Hs].
      * destruct Hr as [Hc Hp]. split; [exact Hc|].
        intros i w Hi. destruct i as [|j].
        { simpl in Hi. inversion Hi. subst w. simpl. lra. }
        { simpl in Hi. specialize (Hp j w Hi). cbn [firstn]. rewrite sum_costs_cons. lra. }
    + apply Qlt_bool_false in Ec.
      destruct (stop_cell v d jump) as [c|e] eqn:Es; cbn [bind]; [|discriminate].
      intro H. inversion H. cbn [w_on_segment w_views w_cell].
      exists [], v, d. split; [reflexivity|]. split; [intros i w Hi; destruct i; discriminate|].
      split; [simpl; lra|]. split; [exact Ed|]. split; [exact Ec | exact Es].
Qed.

(* ----------------------------------------------------------- index in bounds *)

Definition wf_seg (s : segment) : Prop := (2 <= List.length (sg_cells s))%nat.

Lemma sg_n1_pos : forall s, wf_seg s -> 1 <= sg_n1 s.
Proof. intros s H. unfold wf_seg in H. unfold sg_n1. lia. Qed.

Lemma inject_Z_pos : forall n, 1 <= n -> (0 < inject_Z n)%Q.
Proof. intros n H. unfold Qlt, inject_Z. simpl. lia. Qed.

Lemma seg_cost_cpc : forall s, wf_seg s -> (seg_cost s == inject_Z (sg_n1 s) * seg_cpc s)%Q.
Proof.
  intros s H. unfold seg_cost, seg_cpc. destruct (has_total s); [|reflexivity].
  pose proof (inject_Z_pos _ (sg_n1_pos _ H)) as Hp. field. intro H0. rewrite H0 in Hp. apply (Qlt_irrefl 0). exact Hp.
Qed.

Lemma seg_cpc_pos : forall s, wf_seg s -> (0 < seg_cost s)%Q -> (0 < seg_cpc s)%Q.
Proof.
  intros s H Hc. pose proof (seg_cost_cpc s H) as He.
  pose proof (inject_Z_pos _ (sg_n1_pos _ H)) as Hp.
  rewrite He in Hc. destruct (Qlt_le_dec 0 (seg_cpc s)) as [Hl | Hl]; [exact Hl|].
  exfalso. revert Hc Hp Hl. generalize (inject_Z (sg_n1 s)) (seg_cpc s). intros a b Hc Hp Hl. nra.
Qed.

Lemma q_lround_bounds : forall x n, (0 <= x)%Q -> (x <= inject_Z n)%Q -> 0 <= q_lround x <= n.
Proof.
  intros x n H0 Hn. unfold q_lround.
  assert (E : Qle_bool 0 x = true) by (apply Qle_bool_iff; exact H0). rewrite E.
  pose proof (Qfloor_le (x + (1 # 2))) as Hf.
  pose proof (Qlt_floor (x + (1 # 2))) as Hg.
  split.
  - assert (H : (inject_Z 0 < inject_Z (Qfloor (x + (1 # 2)) + 1))%Q).
    { eapply Qle_lt_trans; [|exact Hg]. change (inject_Z 0) with 0%Q. lra. }
    rewrite <- Zlt_Qlt in H. lia.
  - assert (H : (inject_Z (Qfloor (x + (1 # 2))) < inject_Z (n + 1))%Q).
    { eapply Qle_lt_trans; [exact Hf|]. rewrite inject_Z_plus. change (inject_Z 1) with 1%Q. lra. }
    rewrite <- Zlt_Qlt in H. lia.
Qed.

Lemma index_in_bounds : forall s rem, wf_seg s -> (0 < seg_cost s)%Q ->
  (0 <= rem)%Q -> (rem <= seg_cost s)%Q ->
  exists i, index_from_cost s rem = Ok i /\ 0 <= i <= sg_n1 s.
Proof.
  intros s rem Hw Hc H0 Hle. unfold index_from_cost.
  pose proof (seg_cpc_pos s Hw Hc) as Hp.
  destruct (Qeq_bool (seg_cpc s) 0) eqn:E.
  - apply Qeq_bool_iff in E. rewrite E in Hp. exfalso. exact (Qlt_irrefl 0 Hp).
  - eexists. split; [reflexivity|]. apply q_lround_bounds.
    + apply Qle_shift_div_l; [exact Hp | lra].
    + apply Qle_shift_div_r; [exact Hp|]. rewrite <- (seg_cost_cpc s Hw). exact Hle.
Qed.

Lemma nth_cell_ok : forall l i, 0 <= i < Z.of_nat (List.length l) -> exists c, nth_cell l i = Ok c.
Proof.
  intros l i H. unfold nth_cell. destruct (i <? 0) eqn:E; [lia|].
  destruct (nth_error l (Z.to_nat i)) eqn:En; [eauto|].
  apply nth_error_None in En. lia.
Qed.

(* a view of a well-formed positive-cost segment: every stop is defined *)
Lemma stop_cell_defined : forall v rem jump, wf_seg (v_seg v) ->
  List.length (v_cells v) = List.length (sg_cells (v_seg v)) ->
  (0 < v_cost v)%Q -> (0 <= rem)%Q -> (rem <= v_cost v)%Q ->
  exists c, stop_cell v rem jump = Ok c.
Proof.
  intros v rem jump Hw Hl Hc H0 Hle. unfold stop_cell.
  pose proof Hw as Hw'. unfold wf_seg in Hw'.
  destruct jump.
  - destruct (Qlt_bool rem (v_cost v / 2)); [unfold view_front | unfold view_back]; apply nth_cell_ok; lia.
  - unfold view_cell_by_cost.
    destruct (index_in_bounds (v_seg v) rem Hw Hc H0 Hle) as [i [Hi Hb]]. rewrite Hi. cbn [bind].
    apply nth_cell_ok. unfold sg_n1 in Hb. lia.
Qed.

(* --------------------------------------------------------------- termination *)

Lemma min_cost_le : forall net m, min_cost net = Some m ->
  forall k s, In (k, s) (nw_segs net) -> (m <= seg_cost s)%Q.
Proof.
  intros net. unfold min_cost. induction (nw_segs net) as [|[k0 s0] t IH]; intros m Hm k s Hin; [destruct Hin|].
  simpl in Hm.
  destruct (fold_right
              (fun ks acc => match acc with
                 | None => Some (seg_cost (snd ks))
                 | Some m0 => Some (if Qle_bool (seg_cost (snd ks)) m0 then seg_cost (snd ks) else m0)
                 end) None t) as [m0|] eqn:E.
  - inversion Hm as [Hm']. clear Hm. destruct Hin as [Hin | Hin].
    + inversion Hin. subst. simpl. destruct (Qle_bool (seg_cost s) m0) eqn:El; [apply Qle_refl|].
      apply Qlt_le_weak. apply Qlt_bool_iff. unfold Qlt_bool. rewrite El. reflexivity.
    + specialize (IH m0 eq_refl k s Hin). simpl. destruct (Qle_bool (seg_cost s0) m0) eqn:El; [|exact IH].
      apply Qle_bool_iff in El. eapply Qle_trans; eassumption.
  - inversion Hm as [Hm']. clear Hm. destruct Hin as [Hin | Hin].
    + inversion Hin. subst. simpl. apply Qle_refl.
    + destruct t as [|[k1 s1] t']; [destruct Hin|]. simpl in E.
      destruct (fold_right
              (fun ks acc => match acc with
                 | None => Some (seg_cost (snd ks))
                 | Some m0 => Some (if Qle_bool (seg_cost (snd ks)) m0 then seg_cost (snd ks) else m0)
                 end) None t'); discriminate.
Qed.

Lemma min_cost_none : forall net, min_cost net = None -> nw_segs net = [].
Proof.
  intros net. unfold min_cost. destruct (nw_segs net) as [|[k s] t]; [reflexivity|]. simpl.
  destruct (fold_right
              (fun ks acc => match acc with
                 | None => Some (seg_cost (snd ks))
                 | Some m0 => Some (if Qle_bool (seg_cost (snd ks)) m0 then seg_cost (snd ks) else m0)
                 end) None t); discriminate.
Qed.

Lemma get_segment_cost_ge : forall net a b v m, min_cost net = Some m ->
  get_segment net a b = Ok v -> (m <= v_cost v)%Q.
Proof.
  intros net a b v m Hm Hg. apply get_segment_view_of in Hg. unfold v_cost.
  destruct Hg as [[Hf _] | [_ [Hf _]]]; apply (m_find_In cell_cmp_eq) in Hf; eapply min_cost_le; eassumption.
Qed.

Lemma ceil_step : forall d c m, (0 < m)%Q -> (m <= c)%Q -> (c < d)%Q ->
  (S (Z.to_nat (Qceiling (Qred (d - c) / m))) <= Z.to_nat (Qceiling (d / m)))%nat.
Proof.
  intros d c m Hm Hmc Hcd.
  pose proof (Qred_correct (d - c)) as Hred.
  assert (Hne : ~ (m == 0)%Q) by (intro H0; rewrite H0 in Hm; exact (Qlt_irrefl 0 Hm)).
  assert (Hx : (0 < d / m)%Q) by (apply Qlt_shift_div_l; [exact Hm | lra]).
  pose proof (Qle_ceiling (d / m)) as Hc1.
  assert (Hpos : 0 < Qceiling (d / m)).
  { rewrite Zlt_Qlt. change (inject_Z 0) with 0%Q. lra. }
  assert (Hle : Qceiling (Qred (d - c) / m) <= Qceiling (d / m) - 1).
  { rewrite <- (Qceiling_Z (Qceiling (d / m) - 1)). apply Qceiling_resp_le.
    apply Qle_shift_div_r; [exact Hm|].
    unfold Zminus. rewrite inject_Z_plus. change (inject_Z (-1)) with (-1 # 1)%Q.
    assert (Hd : (d == (d / m) * m)%Q) by (field; exact Hne).
    assert (Hxm : ((d / m) * m <= inject_Z (Qceiling (d / m)) * m)%Q) by (apply Qmult_le_compat_r; lra).
    assert (Hg : ((inject_Z (Qceiling (d / m)) + (-1 # 1)) * m == inject_Z (Qceiling (d / m)) * m - m)%Q) by ring.
    rewrite Hg. revert Hd Hxm. generalize ((d / m) * m)%Q (inject_Z (Qceiling (d / m)) * m)%Q.
    intros xm Xm Hd Hxm. lra. }
  lia.
Qed.

Lemma bind_not_fuel : forall A B (x : result A) (f : A -> result B),
  x <> Err OutOfFuel -> (forall a, f a <> Err OutOfFuel) -> bind x f <> Err OutOfFuel.
Proof.
  intros A B x f Hx Hf. destruct x as [a|e]; simpl; [apply Hf|].
  intro H. apply Hx. inversion H. reflexivity.
Qed.

(* only the walk loop itself can run out of fuel *)
Lemma nth_cell_nf : forall l i, nth_cell l i <> Err OutOfFuel.
Proof. intros l i. unfold nth_cell. destruct (i <? 0); [discriminate|]. destruct (nth_error l (Z.to_nat i)); discriminate. Qed.

Lemma index_from_cost_nf : forall s c, index_from_cost s c <> Err OutOfFuel.
Proof. intros s c. unfold index_from_cost. destruct (Qeq_bool (seg_cpc s) 0); discriminate. Qed.

Lemma stop_cell_nf : forall v d jump, stop_cell v d jump <> Err OutOfFuel.
Proof.
  intros v d jump. unfold stop_cell, view_front, view_back, view_cell_by_cost. destruct jump.
  - destruct (Qlt_bool d (v_cost v / 2)); apply nth_cell_nf.
  - apply bind_not_fuel; [apply index_from_cost_nf | intro; apply nth_cell_nf].
Qed.

Lemma pick_nf : forall A (l : list A) tp, pick l tp <> Err OutOfFuel.
Proof. intros A l tp. unfold pick. destruct tp as [|i t]; [discriminate|]. destruct (nth_error l i); discriminate. Qed.

Lemma choose_nf : forall A w (l : list A) tp, w <> Err OutOfFuel -> choose w l tp <> Err OutOfFuel.
Proof. intros A w l tp Hw. unfold choose. destruct l as [|x [|y t]]; [exact Hw | discriminate | apply pick_nf]. Qed.

Lemma connected_nf : forall net n, connected net n <> Err OutOfFuel.
Proof.
  intros net n. unfold connected. apply bind_not_fuel; [|intros; discriminate].
  unfold adj_at. destruct (m_find Z.compare n (nw_adj net)); discriminate.
Qed.

Lemma next_node_nf : forall net n ignore tp, next_node net n ignore tp <> Err OutOfFuel.
Proof.
  intros net n ignore tp. unfold next_node. apply bind_not_fuel.
  - unfold next_node_cands. apply bind_not_fuel; [apply connected_nf|].
    intros all. destruct all as [|a [|b t]]; try discriminate.
    destruct (filter (fun id => negb (zmem id ignore)) (a :: b :: t)); discriminate.
  - intro cands. apply choose_nf. discriminate.
Qed.

Lemma get_segment_nf : forall net a b, get_segment net a b <> Err OutOfFuel.
Proof.
  intros net a b. unfold get_segment. destruct (m_find cell_cmp (a, b) (nw_segs net)); [discriminate|].
  destruct (m_find cell_cmp (b, a) (nw_segs net)); discriminate.
Qed.

Lemma random_node_at_nf : forall net c tp, random_node_at net c tp <> Err OutOfFuel.
Proof. intros net c tp. unfold random_node_at. apply choose_nf. discriminate. Qed.

Lemma walk_loop_terminates : forall fuel net start jump nd visited d tp m,
  min_cost net = Some m -> (0 < m)%Q ->
  (S (Z.to_nat (Qceiling (d / m))) <= fuel)%nat ->
  walk_loop fuel net start jump nd visited d tp <> Err OutOfFuel.
Proof.
  induction fuel as [|f IH]; intros net start jump nd visited d tp m Hm Hp Hf; [lia|].
  rewrite walk_loop_S.
  destruct (Qle_bool 0 d); [|discriminate].
  destruct (next_node net nd visited tp) as [[nx tp']|e] eqn:En.
  - destruct (nx =? nd); [discriminate|].
    destruct (get_segment net nd nx) as [v|e] eqn:Eg; cbn [bind].
    + destruct (Qlt_bool (v_cost v) d) eqn:Ec.
      * apply Qlt_bool_iff in Ec. apply bind_not_fuel; [|intros; discriminate].
        eapply IH; [exact Hm | exact Hp |].
        pose proof (get_segment_cost_ge _ _ _ _ _ Hm Eg) as Hge.
        pose proof (ceil_step d (v_cost v) m Hp Hge Ec). lia.
      * apply bind_not_fuel; [apply stop_cell_nf | intros; discriminate].
    + intro H. apply (get_segment_nf net nd nx). rewrite Eg. inversion H. reflexivity.
  - intro H. apply (next_node_nf net nd visited tp). rewrite En. inversion H. reflexivity.
Qed.

Lemma walk_loop_no_segments : forall fuel net start jump nd visited d tp,
  nw_segs net = [] -> fuel <> O -> walk_loop fuel net start jump nd visited d tp <> Err OutOfFuel.
Proof.
  intros fuel net start jump nd visited d tp Hs Hf. destruct fuel as [|f]; [contradiction|].
  rewrite walk_loop_S.
  destruct (Qle_bool 0 d); [|discriminate].
  destruct (next_node net nd visited tp) as [[nx tp']|e] eqn:En.
  - destruct (nx =? nd); [discriminate|]. unfold get_segment. rewrite Hs. simpl. discriminate.
  - intro H. apply (next_node_nf net nd visited tp). rewrite En. inversion H. reflexivity.
Qed.

(* fuel ceil(d / min cost) + 1 suffices when every segment cost is positive *)
Lemma walk_terminates : forall net fuel start d jump tp,
  costs_positive net = true -> (walk_fuel net d <= fuel)%nat ->
  walk net fuel start d jump tp <> Err OutOfFuel.
Proof.
  intros net fuel start d jump tp Hpos Hf. unfold walk, walk_tr.
  destruct (random_node_at net start tp) as [[n0 tp']|e] eqn:Er.
  - apply bind_not_fuel; [|intros; discriminate].
    unfold walk_fuel in Hf. destruct (min_cost net) as [m|] eqn:Em.
    + eapply walk_loop_terminates; [exact Em | | exact Hf].
      (* the minimum is the cost of some segment, all of which are positive *)
      unfold costs_positive in Hpos. rewrite forallb_forall in Hpos.
      clear - Em Hpos. unfold min_cost in Em.
      revert m Em. induction (nw_segs net) as [|[k s] t IH]; intros m Em; [discriminate|].
      simpl in Em.
      destruct (fold_right
              (fun ks acc => match acc with
                 | None => Some (seg_cost (snd ks))
                 | Some m0 => Some (if Qle_bool (seg_cost (snd ks)) m0 then seg_cost (snd ks) else m0)
                 end) None t) as [m0|] eqn:E.
      * inversion Em. simpl.
        assert (Hs : (0 < seg_cost s)%Q) by (apply Qlt_bool_iff; apply (Hpos (k, s)); left; reflexivity).
        destruct (Qle_bool (seg_cost s) m0); [exact Hs|].
        apply IH; [|reflexivity]. intros x Hx. apply Hpos. right. exact Hx.
      * inversion Em. simpl. apply Qlt_bool_iff. apply (Hpos (k, s)). left. reflexivity.
    + apply walk_loop_no_segments; [apply min_cost_none; exact Em | lia].
  - intro H. apply (random_node_at_nf net start tp). rewrite Er. inversion H. reflexivity.
Qed.

(* ------------------------------------- non-termination on a stated cost of 0 *)

(* "node_1,node_2,cost,geometry\n1,2,0,0.5;9.5;4.5;9.5\n" on a 10 x 10 grid of
   unit cells: load accepts it *)
Definition zero_cost_grid : grid := mkgrid 10 0 10 0 1 1.
Definition zero_cost_header : list label := [L_node1; L_other; L_cost; L_other].
Definition zero_cost_lines : list rawrec :=
  [ mkraw (Err InvalidArgument) (Err InvalidArgument) (Err InvalidArgument) (Err InvalidArgument) [];
    mkraw (Ok 1) (Ok 2) (Err InvalidArgument) (Ok 0%Q) [Ok (1 # 2, 19 # 2)%Q; Ok (9 # 2, 19 # 2)%Q] ].
Definition zero_cost_net : network :=
  mknet zero_cost_grid [((0, 0), [1]); ((0, 4), [2])] [(1, ([], [2])); (2, ([], [1]))]
        [((1, 2), mkseg [(0, 0); (0, 4)] 0 0 0)].

Lemma zero_cost_loads : load zero_cost_grid zero_cost_header zero_cost_lines false = Ok zero_cost_net.
Proof. vm_compute. reflexivity. Qed.

Lemma zero_cost_spins : forall fuel nd visited, nd = 1 \/ nd = 2 ->
  walk_loop fuel zero_cost_net (0, 0) false nd visited 1 [] = Err OutOfFuel.
Proof.
  induction fuel as [|f IH]; intros nd visited H; [reflexivity|].
  rewrite walk_loop_S. destruct H as [-> | ->].
  - change (Qle_bool 0 1) with true. cbv iota.
    change (next_node zero_cost_net 1 visited []) with (@Ok (node * tape) (2, [])). cbv iota beta.
    change (2 =? 1) with false. cbv iota.
    change (get_segment zero_cost_net 1 2) with (Ok (mkview [(0, 0); (0, 4)] (mkseg [(0, 0); (0, 4)] 0 0 0))).
    cbn [bind].
    change (Qlt_bool (v_cost (mkview [(0, 0); (0, 4)] (mkseg [(0, 0); (0, 4)] 0 0 0))) 1) with true. cbv iota.
    change (Qred (1 - v_cost (mkview [(0, 0); (0, 4)] (mkseg [(0, 0); (0, 4)] 0 0 0)))) with 1%Q.
    rewrite IH; [reflexivity | right; reflexivity].
  - change (Qle_bool 0 1) with true. cbv iota.
    change (next_node zero_cost_net 2 visited []) with (@Ok (node * tape) (1, [])). cbv iota beta.
    change (1 =? 2) with false. cbv iota.
    change (get_segment zero_cost_net 2 1) with (Ok (mkview [(0, 4); (0, 0)] (mkseg [(0, 0); (0, 4)] 0 0 0))).
    cbn [bind].
    change (Qlt_bool (v_cost (mkview [(0, 4); (0, 0)] (mkseg [(0, 0); (0, 4)] 0 0 0))) 1) with true. cbv iota.
    change (Qred (1 - v_cost (mkview [(0, 4); (0, 0)] (mkseg [(0, 0); (0, 4)] 0 0 0)))) with 1%Q.
    rewrite IH; [reflexivity | left; reflexivity].
Qed.

Lemma walk_nontermination : exists g hdr lines net,
  load g hdr lines false = Ok net /\
  forall fuel, walk net fuel (0, 0) 1 false [] = Err OutOfFuel.
Proof.
  exists zero_cost_grid, zero_cost_header, zero_cost_lines, zero_cost_net.
  split; [exact zero_cost_loads|].
  intro fuel. unfold walk, walk_tr.
  change (random_node_at zero_cost_net (0, 0) []) with (@Ok (node * tape) (1, [])). cbv iota beta.
  rewrite zero_cost_spins; [reflexivity | left; reflexivity].
Qed.

(* with distance 0 on that network the index computation is undefined *)
Lemma zero_cost_index_undefined :
  walk zero_cost_net 5 (0, 0) 0 false [] = Err UB_OutOfBounds.
Proof. vm_compute. reflexivity. Qed.

(* ------------------------------------------------------- kernel forwards mode *)

Lemma Qle_bool_refl : forall q, Qle_bool q q = true.
Proof. intro q. apply Qle_bool_iff. apply Qle_refl. Qed.

Lemma Qeq_bool_refl' : forall q, Qeq_bool q q = true.
Proof. intro q. apply Qeq_bool_iff. reflexivity. Qed.

Lemma kernel_walk_forwards : forall net k fuel dist start tp,
  k_teleport k = false ->
  (k_min k <= dist)%Q -> ((dist < k_max k)%Q \/ (k_min k == k_max k)%Q) ->
  kernel_call net k fuel dist start tp = walk net fuel start dist (k_jump k) tp.
Proof.
  intros net k fuel dist start tp Ht Hmin Hmax. unfold kernel_call. rewrite Ht.
  assert (E1 : Qle_bool (k_min k) dist = true) by (apply Qle_bool_iff; exact Hmin).
  assert (E2 : Qlt_bool dist (k_max k) || Qeq_bool (k_min k) (k_max k) = true).
  { apply orb_true_iff. destruct Hmax as [H | H]; [left; apply Qlt_bool_iff; exact H | right; apply Qeq_bool_iff; exact H]. }
  rewrite E1, E2. reflexivity.
Qed.

Lemma kernel_teleport_forwards : forall net k fuel dist start tp,
  k_teleport k = true -> kernel_call net k fuel dist start tp = teleport net start 1 tp.
Proof. intros net k fuel dist start tp Ht. unfold kernel_call. rewrite Ht. reflexivity. Qed.

Lemma kernel_of_movement_modes : forall movement dmin dmax,
  (movement = "teleport"%string -> kernel_of_movement movement dmin dmax = teleporting_kernel) /\
  (movement = "jump"%string -> kernel_of_movement movement dmin dmax = walking_kernel dmin dmax true) /\
  (movement <> "teleport"%string -> movement <> "jump"%string ->
     kernel_of_movement movement dmin dmax = walking_kernel dmin dmax false).
Proof.
  intros movement dmin dmax. unfold kernel_of_movement. repeat split.
  - intros ->. reflexivity.
  - intros ->. reflexivity.
  - intros H1 H2. apply String.eqb_neq in H1. apply String.eqb_neq in H2. rewrite H1, H2. reflexivity.
Qed.

Lemma kernel_forwards_mode : forall net movement d fuel start tp,
  kernel_call net (kernel_of_movement movement d d) fuel d start tp =
  if String.eqb movement "teleport" then teleport net start 1 tp
  else walk net fuel start d (String.eqb movement "jump") tp.
Proof.
  intros net movement d fuel start tp. unfold kernel_of_movement.
  destruct (String.eqb movement "teleport").
  - reflexivity.
  - apply kernel_walk_forwards; simpl; [reflexivity | apply Qle_refl | right; reflexivity].
Qed.

(* ------------------------------------------------------------------ teleport *)

Lemma find_node_cell_spec : forall n m c, find_node_cell n m = Ok c ->
  exists ns, In (c, ns) m /\ In n ns.
Proof.
  intros n m c. induction m as [|[c' ns] t IH]; simpl; [discriminate|].
  destruct (zmem n ns) eqn:E.
  - intro H. inversion H. subst. exists ns. split; [left; reflexivity | apply zmem_In; exact E].
  - intro H. destruct (IH H) as [ns' [H1 H2]]. exists ns'. split; [right; exact H1 | exact H2].
Qed.

(* one teleport step goes to a neighbour (to the node itself only when it has
   none); with probabilities on a node of two or more neighbours, over an edge
   of positive probability *)
Lemma next_probable_node_spec : forall net n tp m tp',
  next_probable_node net n tp = Ok (m, tp') ->
  exists ps ms, adj_at net n = Ok (ps, ms) /\
    ((ms = [] /\ m = n) \/ In m ms) /\
    (forall a b t, ms = a :: b :: t -> ps <> [] ->
       exists i p, nth_error ps i = Some p /\ (0 < p)%Q /\ nth_error ms i = Some m).
Proof.
  intros net n tp m tp'. unfold next_probable_node.
  destruct (adj_at net n) as [[ps ms]|e]; cbn [bind fst snd]; [|discriminate].
  intro H. exists ps, ms. split; [reflexivity|].
  destruct ms as [|a [|b t]].
  - inversion H. subst. split; [left; split; reflexivity | intros; discriminate].
  - inversion H. subst. split; [right; left; reflexivity | intros; discriminate].
  - destruct ps as [|p0 pt].
    + split; [right; eapply pick_In; exact H | intros a0 b0 t0 _ Hn; contradiction].
    + destruct (Qle_bool (qsum (p0 :: pt)) 0); [discriminate|].
      destruct tp as [|i tt]; [discriminate|].
      destruct (nth_error (p0 :: pt) i) as [p|] eqn:Ep; [|discriminate].
      destruct (Qlt_bool 0 p) eqn:El; [|discriminate].
      destruct (nth_error (a :: b :: t) i) as [m'|] eqn:Em; [|discriminate].
      inversion H. subst m' tp'. split.
      * right. eapply nth_error_In. exact Em.
      * intros a0 b0 t0 _ _. exists i, p. split; [exact Ep|]. split; [apply Qlt_bool_iff; exact El | exact Em].
Qed.

Lemma teleport_adjacent : forall net start tp m c,
  teleport_tr net start 1 tp = Ok (m, c) ->
  exists n0 ps ms, In n0 (nodes_at net start) /\ adj_at net n0 = Ok (ps, ms) /\
    ((ms = [] /\ m = n0) \/ In m ms) /\
    (forall a b t, ms = a :: b :: t -> ps <> [] ->
       exists i p, nth_error ps i = Some p /\ (0 < p)%Q /\ nth_error ms i = Some m) /\
    (exists ns, In (c, ns) (nw_nodes net) /\ In m ns).
Proof.
  intros net start tp m c. unfold teleport_tr.
  destruct (random_node_at net start tp) as [[n0 tp0]|e] eqn:Er; [|discriminate].
  change (Z.to_nat 1) with 1%nat. cbn [teleport_steps].
  destruct (next_probable_node net n0 tp0) as [[m' tp1]|e] eqn:En; [|discriminate].
  destruct (node_cell net m') as [c'|e] eqn:Ec; cbn [bind]; [|discriminate].
  intro H. inversion H. subst m' c'.
  destruct (next_probable_node_spec _ _ _ _ _ En) as [ps [ms [Ha [Hm Hp]]]].
  exists n0, ps, ms. split.
  - unfold random_node_at in Er. destruct (nodes_at net start) as [|x l] eqn:Enodes; [discriminate|].
    eapply choose_In; [|exact Er]. discriminate.
  - split; [exact Ha|]. split; [exact Hm|]. split; [exact Hp|]. apply find_node_cell_spec. exact Ec.
Qed.

Lemma teleport_needs_node : forall net start k tp,
  nodes_at net start = [] -> teleport net start k tp = Err InvalidArgument.
Proof. intros net start k tp H. unfold teleport, teleport_tr, random_node_at. rewrite H. reflexivity. Qed.

(* ------------------------- the enumeration covers exactly the tape outcomes *)

Definition cell_of (r : result wres) : result cell := do w <- r; Ok (w_cell w).

Lemma walk_all_loop_S : forall f net start jump nd visited d,
  walk_all_loop (S f) net start jump nd visited d =
  if Qle_bool 0%Q d then
    match next_node_cands net nd visited with
    | Err e => [Err e]
    | Ok [] => [Err UB_OutOfBounds]
    | Ok cands =>
      flat_map (fun nx =>
        if nx =? nd then [Ok start]
        else match get_segment net nd nx with
        | Err e => [Err e]
        | Ok v =>
          if Qlt_bool (v_cost v) d then
            walk_all_loop f net start jump nx (zset_insert nd visited) (Qred (d - v_cost v)%Q)
          else [stop_cell v d jump]
        end) (nodup Z.eq_dec cands)
    end
  else [Err InvalidArgument].
Proof. reflexivity. Qed.

Lemma pick_cases : forall A (l : list A) tp,
  (exists a tp', pick l tp = Ok (a, tp') /\ In a l) \/ pick l tp = Err TapeMismatch.
Proof.
  intros A l tp. unfold pick. destruct tp as [|i t]; [right; reflexivity|].
  destruct (nth_error l i) eqn:E; [|right; reflexivity].
  left. exists a, t. split; [reflexivity | eapply nth_error_In; exact E].
Qed.

Lemma choose_cases : forall A w (l : list A) tp, l <> [] ->
  (exists a tp', choose w l tp = Ok (a, tp') /\ In a l) \/ choose w l tp = Err TapeMismatch.
Proof.
  intros A w l tp Hne. unfold choose. destruct l as [|x [|y t]]; [contradiction | |apply pick_cases].
  left. exists x, tp. split; [reflexivity | left; reflexivity].
Qed.

Lemma choose_realise : forall A w (l : list A) a tp', In a l ->
  exists tp, choose w l tp = Ok (a, tp').
Proof.
  intros A w l a tp' Hin. destruct l as [|x [|y t]]; [destruct Hin | |].
  - destruct Hin as [-> | []]. exists tp'. reflexivity.
  - destruct (In_nth_error _ _ Hin) as [i Hi]. exists (i :: tp'). unfold choose, pick. rewrite Hi. reflexivity.
Qed.

Lemma cell_of_pass : forall (x : result wres) v nd,
  cell_of (do r <- x; Ok (mkwres (w_cell r) (v :: w_views r) (nd :: w_path r) (w_on_segment r))) = cell_of x.
Proof. intros x v nd. destruct x; reflexivity. Qed.

Lemma cell_of_stop : forall (x : result cell) v nd nx,
  cell_of (do c <- x; Ok (mkwres c [v] [nd; nx] true)) = x.
Proof. intros x v nd nx. destruct x; reflexivity. Qed.

Lemma walk_all_loop_complete : forall fuel net start jump nd visited d tp,
  cell_of (walk_loop fuel net start jump nd visited d tp) <> Err TapeMismatch ->
  In (cell_of (walk_loop fuel net start jump nd visited d tp))
     (walk_all_loop fuel net start jump nd visited d).
Proof.
  induction fuel as [|f IH]; intros net start jump nd visited d tp; [intros _; left; reflexivity|].
  rewrite walk_loop_S, walk_all_loop_S.
  destruct (Qle_bool 0 d); [|intros _; left; reflexivity].
  unfold next_node.
  destruct (next_node_cands net nd visited) as [cands|e]; cbn [bind]; [|intros _; left; reflexivity].
  destruct cands as [|c0 ct]; [intros _; left; reflexivity|].
  destruct (choose_cases _ (@Err (node * tape) UB_OutOfBounds) (c0 :: ct) tp) as [[nx [tp' [Hc Hin]]] | Hc];
    [discriminate | | rewrite Hc; intro H; exfalso; apply H; reflexivity].
  rewrite Hc. intro Hne. apply in_flat_map. exists nx. split; [apply nodup_In; exact Hin|]. revert Hne.
  destruct (nx =? nd); [intros _; left; reflexivity|].
  destruct (get_segment net nd nx) as [v|e]; cbn [bind]; [|intros _; left; reflexivity].
  destruct (Qlt_bool (v_cost v) d).
  - rewrite cell_of_pass. apply IH.
  - rewrite cell_of_stop. intros _. left. reflexivity.
Qed.

Lemma walk_all_loop_sound : forall fuel net start jump nd visited d r,
  In r (walk_all_loop fuel net start jump nd visited d) ->
  exists tp, cell_of (walk_loop fuel net start jump nd visited d tp) = r.
Proof.
  induction fuel as [|f IH]; intros net start jump nd visited d r.
  - intros [<- | []]. exists []. reflexivity.
  - rewrite walk_all_loop_S.
    destruct (Qle_bool 0 d) eqn:Ed.
    2:{ intros [<- | []]. exists []. rewrite walk_loop_S, Ed. reflexivity. }
    destruct (next_node_cands net nd visited) as [cands|e] eqn:Ec.
    2:{ intros [<- | []]. exists []. rewrite walk_loop_S, Ed. unfold next_node. rewrite Ec. reflexivity. }
    destruct cands as [|c0 ct].
    { intros [<- | []]. exists []. rewrite walk_loop_S, Ed. unfold next_node. rewrite Ec. reflexivity. }
    intro Hin. apply in_flat_map in Hin. destruct Hin as [nx [Hnx Hr]]. apply nodup_In in Hnx.
    assert (Hstep : forall tp', exists tp, next_node net nd visited tp = Ok (nx, tp')).
    { intro tp'. unfold next_node. rewrite Ec. cbn [bind]. apply choose_realise. exact Hnx. }
    destruct (nx =? nd) eqn:Enx.
    { destruct Hr as [<- | []]. destruct (Hstep []) as [tp Htp]. exists tp.
      rewrite walk_loop_S, Ed, Htp, Enx. reflexivity. }
    destruct (get_segment net nd nx) as [v|e] eqn:Eg.
    2:{ destruct Hr as [<- | []]. destruct (Hstep []) as [tp Htp]. exists tp.
        rewrite walk_loop_S, Ed, Htp, Enx, Eg. reflexivity. }
    destruct (Qlt_bool (v_cost v) d) eqn:El.
    + destruct (IH _ _ _ _ _ _ _ Hr) as [tp' Htp']. destruct (Hstep tp') as [tp Htp]. exists tp.
      rewrite walk_loop_S, Ed, Htp, Enx, Eg. cbn [bind]. rewrite El, cell_of_pass. exact Htp'.
    + destruct Hr as [<- | []]. destruct (Hstep []) as [tp Htp]. exists tp.
      rewrite walk_loop_S, Ed, Htp, Enx, Eg. cbn [bind]. rewrite El, cell_of_stop. reflexivity.
Qed.

Lemma walk_is_cell_of : forall net fuel start d jump tp,
  walk net fuel start d jump tp = cell_of (walk_tr net fuel start d jump tp).
Proof. reflexivity. Qed.

Lemma walk_all_complete : forall net fuel start d jump tp,
  walk net fuel start d jump tp <> Err TapeMismatch ->
  In (walk net fuel start d jump tp) (walk_all net fuel start d jump).
Proof.
  intros net fuel start d jump tp. rewrite walk_is_cell_of. unfold walk_tr, walk_all, random_node_at.
  destruct (nodes_at net start) as [|n l] eqn:En; [intros _; left; reflexivity|].
  destruct (choose_cases _ (@Err (node * tape) InvalidArgument) (n :: l) tp) as [[n0 [tp' [Hc Hin]]] | Hc];
    [discriminate | | rewrite Hc; intro H; exfalso; apply H; reflexivity].
  rewrite Hc. intro Hne. apply in_flat_map. exists n0. split; [exact Hin|].
  apply walk_all_loop_complete. exact Hne.
Qed.

Lemma walk_all_sound : forall net fuel start d jump r,
  In r (walk_all net fuel start d jump) -> exists tp, walk net fuel start d jump tp = r.
Proof.
  intros net fuel start d jump r. unfold walk_all.
  destruct (nodes_at net start) as [|n l] eqn:En.
  - intros [<- | []]. exists []. apply walk_needs_node. exact En.
  - intro Hin. apply in_flat_map in Hin. destruct Hin as [n0 [Hn0 Hr]].
    destruct (walk_all_loop_sound _ _ _ _ _ _ _ _ Hr) as [tp' Htp'].
    destruct (choose_realise _ (@Err (node * tape) InvalidArgument) (n :: l) n0 tp' Hn0) as [tp Htp].
    exists tp. rewrite walk_is_cell_of. unfold walk_tr, random_node_at. rewrite En, Htp. exact Htp'.
Qed.

(* ------------------------------------------------- loading: points -> cells *)

(* first error, or all values *)
Fixpoint sequence {A} (l : list (result A)) : result (list A) :=
  match l with
  | [] => Ok []
  | x :: t => do a <- x; do r <- sequence t; Ok (a :: r)
  end.

(* drop every cell equal to the one kept before it *)
Fixpoint dedup (prev : option cell) (l : list cell) : list cell :=
  match l with
  | [] => []
  | c :: t =>
    match prev with
    | Some p => if cell_eqb p c then dedup prev t else c :: dedup (Some c) t
    | None => c :: dedup (Some c) t
    end
  end.

Definition pt_cell (g : grid) (xy : Q * Q) : cell := xy_to_cell g (fst xy) (snd xy).

Lemma read_points_spec : forall g pts acc n,
  read_points g pts acc n =
  match sequence pts with
  | Err e => Err e
  | Ok xs => Ok (rev acc ++ dedup (hd_error acc) (map (pt_cell g) xs), n + Z.of_nat (List.length xs))
  end.
Proof.
  intros g pts. induction pts as [|p t IH]; intros acc n.
  - simpl. rewrite app_nil_r, Z.add_0_r. reflexivity.
  - cbn [read_points sequence]. destruct p as [xy|e]; cbn [bind]; [|reflexivity].
    fold (pt_cell g xy).
    destruct acc as [|lastc acc'].
    + rewrite IH. destruct (sequence t) as [xs|e]; cbn [bind]; [|reflexivity].
      cbn [map dedup hd_error rev app List.length]. f_equal. f_equal. lia.
    + destruct (cell_eqb lastc (pt_cell g xy)) eqn:E; rewrite IH;
        (destruct (sequence t) as [xs|e]; cbn [bind]; [|reflexivity]);
        cbn [map dedup hd_error List.length]; rewrite E.
      * f_equal. f_equal. lia.
      * cbn [rev]. rewrite <- app_assoc. cbn [app]. f_equal. f_equal. lia.
Qed.

(* `short` is `long` with every run of repetitions of a cell shortened *)
Inductive stutter : list cell -> list cell -> Prop :=
| st_nil : stutter [] []
| st_new : forall c r l, stutter r l -> stutter (c :: r) (c :: l)
| st_rep : forall c r l, stutter (c :: r) (c :: l) -> stutter (c :: r) (c :: c :: l).

Fixpoint no_adj_dup (l : list cell) : Prop :=
  match l with
  | a :: t => match t with b :: _ => a <> b /\ no_adj_dup t | [] => True end
  | [] => True
  end.

Lemma dedup_stutter : forall l p,
  match p with
  | None => stutter (dedup None l) l
  | Some q => stutter (q :: dedup (Some q) l) (q :: l)
  end.
Proof.
  induction l as [|c t IH]; intros [q|]; cbn [dedup].
  - apply st_new. apply st_nil.
  - apply st_nil.
  - destruct (cell_eqb q c) eqn:E.
    + apply cell_eqb_eq in E. subst c. apply st_rep. exact (IH (Some q)).
    + apply st_new. exact (IH (Some c)).
  - exact (IH (Some c)).
Qed.

Lemma dedup_no_adj_dup : forall l p,
  no_adj_dup (dedup p l) /\ (forall q, p = Some q -> hd_error (dedup p l) <> Some q).
Proof.
  induction l as [|c t IH]; intros p; cbn [dedup].
  - split; [exact I | intros q _; discriminate].
  - assert (Hc : no_adj_dup (c :: dedup (Some c) t)).
    { destruct (IH (Some c)) as [H1 H2]. cbn [no_adj_dup].
      destruct (dedup (Some c) t) as [|b r] eqn:E; [exact I|].
      split; [|exact H1]. intro Hb. subst b. exact (H2 c eq_refl eq_refl). }
    destruct p as [q|].
    + destruct (cell_eqb q c) eqn:E.
      * exact (IH (Some q)).
      * split; [exact Hc|]. intros q' Hq'. inversion Hq'. subst q'. simpl. intro H. inversion H. subst c.
        assert (cell_eqb q q = true) by (apply cell_eqb_eq; reflexivity). congruence.
    + split; [exact Hc | intros q Hq; discriminate].
Qed.

Lemma dedup_hd : forall l, hd_error (dedup None l) = hd_error l.
Proof. intros [|c t]; reflexivity. Qed.

Lemma dedup_last : forall l p d,
  last (match p with Some q => q :: dedup p l | None => dedup p l end) d =
  last (match p with Some q => q :: l | None => l end) d.
Proof.
  induction l as [|c t IH]; intros p d.
  - destruct p; reflexivity.
  - destruct p as [q|]; cbn [dedup].
    + destruct (cell_eqb q c) eqn:E.
      * apply cell_eqb_eq in E. subst c. rewrite (IH (Some q) d).
        destruct t; reflexivity.
      * specialize (IH (Some c) d). cbn [last] in *.
        change (last (q :: c :: dedup (Some c) t) d) with (last (c :: dedup (Some c) t) d).
        rewrite IH. reflexivity.
    + exact (IH (Some c) d).
Qed.

Lemma dedup_not_nil : forall l, l <> [] -> dedup None l <> [].
Proof. intros [|c t] H; [contradiction | discriminate]. Qed.

(* ------------------------------------------------ loading: one record *)

(* cells a record's points give, as stored: merged, and padded to two cells
   when everything fell into one *)
Definition merged_cells (g : grid) (xs : list (Q * Q)) : list cell :=
  match dedup None (map (pt_cell g) xs) with
  | [c] => [c; c]
  | l => l
  end.

Definition inside (g : grid) (c : cell) : Prop := cell_out_of_bbox g c = false.

Lemma merged_cells_wf : forall g xs, xs <> [] -> (2 <= List.length (merged_cells g xs))%nat.
Proof.
  intros g xs H. unfold merged_cells.
  assert (Hn : dedup None (map (pt_cell g) xs) <> []) by (apply dedup_not_nil; destruct xs; [contradiction | discriminate]).
  destruct (dedup None (map (pt_cell g) xs)) as [|a [|b t]]; [contradiction | simpl; lia | simpl; lia].
Qed.

Lemma merged_cells_ends : forall g xs d, xs <> [] ->
  hd d (merged_cells g xs) = pt_cell g (hd (0, 0)%Q xs) /\
  last (merged_cells g xs) d = pt_cell g (last xs (0, 0)%Q).
Proof.
  intros g xs d H. unfold merged_cells.
  pose proof (dedup_hd (map (pt_cell g) xs)) as Hh.
  pose proof (dedup_last (map (pt_cell g) xs) None d) as Hl. cbn beta iota in Hl.
  destruct xs as [|x t]; [contradiction|].
  assert (Hlast : last (map (pt_cell g) (x :: t)) d = pt_cell g (last (x :: t) (0, 0)%Q)).
  { clear. revert x. induction t as [|y t IH]; intro x; [reflexivity|].
    change (last (map (pt_cell g) (x :: y :: t)) d) with (last (map (pt_cell g) (y :: t)) d).
    change (last (x :: y :: t) (0, 0)%Q) with (last (y :: t) (0, 0)%Q). apply IH. }
  destruct (dedup None (map (pt_cell g) (x :: t))) as [|a [|b r]] eqn:E.
  - discriminate.
  - simpl in Hh. inversion Hh. split; [reflexivity|]. rewrite <- Hlast, <- Hl. subst a. reflexivity.
  - simpl in Hh. inversion Hh. split; [reflexivity|]. rewrite <- Hlast, <- Hl. reflexivity.
Qed.

(* the segment a well-formed record describes *)
Definition record_seg (g : grid) (hc hp : bool) (cost prob : Q) (xs : list (Q * Q)) : segment :=
  mkseg (merged_cells g xs) (if hc then 0%Q else distance_per_cell g) (if hc then cost else 0%Q)
        (if hp then prob else 0%Q).

(* record_segment succeeds exactly on well-formed records, and then keeps the
   edge iff the cells of its first and last coordinate pair are inside *)
Lemma record_segment_ok : forall g hc hp r o,
  record_segment g hc hp r = Ok o ->
  exists n1 n2 cost prob xs,
    rr_n1 r = Ok n1 /\ rr_n2 r = Ok n2 /\ 1 <= n1 /\ 1 <= n2 /\
    (hp = true -> rr_prob r = Ok prob /\ (0 <= prob)%Q) /\
    (hc = true -> rr_cost r = Ok cost) /\
    sequence (rr_pts r) = Ok xs /\ (2 <= List.length xs)%nat /\
    o = if cell_out_of_bbox g (pt_cell g (hd (0, 0)%Q xs)) || cell_out_of_bbox g (pt_cell g (last xs (0, 0)%Q))
        then None else Some ((n1, n2), record_seg g hc hp cost prob xs).
Proof.
  intros g hc hp r o. unfold record_segment.
  destruct (rr_n1 r) as [n1|e]; cbn [bind]; [|discriminate].
  destruct (rr_n2 r) as [n2|e]; cbn [bind]; [|discriminate].
  destruct ((n1 <? 1) || (n2 <? 1)) eqn:Eid; [discriminate|].
  apply orb_false_iff in Eid. destruct Eid as [E1 E2]. apply Z.ltb_ge in E1. apply Z.ltb_ge in E2.
  assert (Hprob : forall (k : Q -> result (option (node * node * segment))),
    bind (if hp then do p <- rr_prob r; if Qlt_bool p 0 then Err InvalidArgument else Ok p else Ok 0%Q) k = Ok o ->
    exists prob, (hp = true -> rr_prob r = Ok prob /\ (0 <= prob)%Q) /\ k (if hp then prob else 0%Q) = Ok o).
  { intros k. destruct hp.
    - destruct (rr_prob r) as [p|e]; cbn [bind]; [|discriminate].
      destruct (Qlt_bool p 0) eqn:Ep; cbn [bind]; [discriminate|]. apply Qlt_bool_false in Ep.
      intro H. exists p. split; [intros _; split; [reflexivity | exact Ep] | exact H].
    - cbn [bind]. intro H. exists 0%Q. split; [discriminate | exact H]. }
  intro H. apply Hprob in H. destruct H as [prob [Hp H]].
  assert (Hcost : forall (k : Q -> result (option (node * node * segment))),
    bind (if hc then rr_cost r else Ok 0%Q) k = Ok o ->
    exists cost, (hc = true -> rr_cost r = Ok cost) /\ k (if hc then cost else 0%Q) = Ok o).
  { intros k. destruct hc.
    - destruct (rr_cost r) as [c|e]; cbn [bind]; [|discriminate].
      intro H'. exists c. split; [intros _; reflexivity | exact H'].
    - cbn [bind]. intro H'. exists 0%Q. split; [discriminate | exact H']. }
  apply Hcost in H. destruct H as [cost [Hc H]].
  rewrite read_points_spec in H.
  destruct (sequence (rr_pts r)) as [xs|e] eqn:Es; cbn [bind] in H; [|discriminate].
  cbn [rev app hd_error fst snd] in H.
  destruct (dedup None (map (pt_cell g) xs)) as [|c0 rest] eqn:Ed; [discriminate|].
  destruct (0 + Z.of_nat (List.length xs) <? 2) eqn:El; [discriminate|]. apply Z.ltb_ge in El.
  assert (Hxs : xs <> []) by (intro Hx; subst xs; simpl in El; lia).
  exists n1, n2, cost, prob, xs.
  repeat (split; [first [reflexivity | assumption | lia]|]).
  destruct (merged_cells_ends g xs c0 Hxs) as [Hhd Hlast].
  assert (Hm : merged_cells g xs = match rest with [] => [c0; c0] | _ :: _ => c0 :: rest end).
  { unfold merged_cells. rewrite Ed. destruct rest; reflexivity. }
  rewrite Hm in Hhd, Hlast.
  assert (Hhd' : c0 = pt_cell g (hd (0, 0)%Q xs)) by (destruct rest; exact Hhd).
  rewrite <- Hhd', <- Hlast.
  destruct (cell_out_of_bbox g c0 || cell_out_of_bbox g (last (match rest with [] => [c0; c0] | _ :: _ => c0 :: rest end) c0));
    inversion H; [reflexivity|].
  unfold record_seg. rewrite Hm. destruct hc, hp; reflexivity.
Qed.

(* the malformed records and the exception kinds they are rejected with *)
Lemma record_segment_rejects : forall g hc hp r,
  (forall e, rr_n1 r = Err e -> record_segment g hc hp r = Err e) /\
  (forall n1 e, rr_n1 r = Ok n1 -> rr_n2 r = Err e -> record_segment g hc hp r = Err e) /\
  (forall n1 n2, rr_n1 r = Ok n1 -> rr_n2 r = Ok n2 -> (n1 < 1 \/ n2 < 1) ->
     record_segment g hc hp r = Err RuntimeError) /\
  (forall n1 n2, rr_n1 r = Ok n1 -> rr_n2 r = Ok n2 -> 1 <= n1 -> 1 <= n2 ->
     (hp = true -> forall e, rr_prob r = Err e -> record_segment g hc hp r = Err e) /\
     (hp = true -> forall p, rr_prob r = Ok p -> (p < 0)%Q -> record_segment g hc hp r = Err InvalidArgument) /\
     ((hp = true -> exists p, rr_prob r = Ok p /\ (0 <= p)%Q) ->
        (hc = true -> forall e, rr_cost r = Err e -> record_segment g hc hp r = Err e) /\
        ((hc = true -> exists c, rr_cost r = Ok c) ->
           (forall e, sequence (rr_pts r) = Err e -> record_segment g hc hp r = Err e) /\
           (forall xs, sequence (rr_pts r) = Ok xs -> (List.length xs < 2)%nat ->
              record_segment g hc hp r = Err RuntimeError)))).
Proof.
  intros g hc hp r. unfold record_segment. split; [|split; [|split]].
  - intros e H. rewrite H. reflexivity.
  - intros n1 e H1 H2. rewrite H1, H2. reflexivity.
  - intros n1 n2 H1 H2 Hlt. rewrite H1, H2. cbn [bind].
    assert (E : (n1 <? 1) || (n2 <? 1) = true).
    { apply orb_true_iff. destruct Hlt; [left | right]; apply Z.ltb_lt; assumption. }
    rewrite E. reflexivity.
  - intros n1 n2 H1 H2 G1 G2. rewrite H1, H2. cbn [bind].
    assert (E : (n1 <? 1) || (n2 <? 1) = false).
    { apply orb_false_iff. split; apply Z.ltb_ge; assumption. }
    rewrite E. split; [|split].
    + intros -> e He. rewrite He. reflexivity.
    + intros -> p Hp Hneg. rewrite Hp. cbn [bind].
      assert (El : Qlt_bool p 0 = true) by (apply Qlt_bool_iff; exact Hneg). rewrite El. reflexivity.
    + intro Hpok.
      assert (Hpb : exists p, (if hp then do p <- rr_prob r; if Qlt_bool p 0 then Err InvalidArgument else Ok p else Ok 0%Q) = Ok p).
      { destruct hp; [|eexists; reflexivity]. destruct (Hpok eq_refl) as [p [Hp Hge]]. rewrite Hp. cbn [bind].
        assert (El : Qlt_bool p 0 = false) by (apply Qlt_bool_false; exact Hge). rewrite El. eexists; reflexivity. }
      destruct Hpb as [p Hp]. rewrite Hp. cbn [bind]. split.
      * intros -> e He. rewrite He. reflexivity.
      * intro Hcok.
        assert (Hcb : exists c, (if hc then rr_cost r else Ok 0%Q) = Ok c).
        { destruct hc; [|eexists; reflexivity]. destruct (Hcok eq_refl) as [c Hc]. rewrite Hc. eexists; reflexivity. }
        destruct Hcb as [c Hc]. rewrite Hc. cbn [bind]. rewrite read_points_spec. split.
        { intros e He. rewrite He. reflexivity. }
        { intros xs Hxs Hlen. rewrite Hxs. cbn [bind rev app hd_error fst snd].
          destruct (dedup None (map (pt_cell g) xs)) as [|c0 rest]; [reflexivity|].
          assert (El : 0 + Z.of_nat (List.length xs) <? 2 = true) by (apply Z.ltb_lt; lia).
          rewrite El. reflexivity. }
Qed.

(* ------------------------------------------------- loading: the three tables *)

Definition kept (outs : list (option ((node * node) * segment))) : list ((node * node) * segment) :=
  flat_map (fun o => match o with Some ks => [ks] | None => [] end) outs.

Definition emplace_all (l segs : list ((node * node) * segment)) : list ((node * node) * segment) :=
  fold_left (fun m ks => m_emplace cell_cmp (fst ks) (snd ks) m) l segs.

Lemma load_records_spec : forall g hc hp rs segs,
  load_records g hc hp rs segs =
  match sequence (map (record_segment g hc hp) rs) with
  | Err e => Err e
  | Ok outs => Ok (emplace_all (kept outs) segs)
  end.
Proof.
  intros g hc hp rs. induction rs as [|r t IH]; intros segs; [reflexivity|].
  cbn [load_records map sequence].
  destruct (record_segment g hc hp r) as [[[k s]|]|e]; cbn [bind]; [| |reflexivity].
  - rewrite IH. destruct (sequence (map (record_segment g hc hp) t)); reflexivity.
  - rewrite IH. destruct (sequence (map (record_segment g hc hp) t)); reflexivity.
Qed.

Lemma cell_cmp_neq : forall a b : Z * Z, a <> b -> cell_cmp a b <> Eq.
Proof. intros a b H E. apply cell_cmp_eq in E. contradiction. Qed.

(* the first kept record of a node pair is the one stored *)
Lemma emplace_all_find : forall l segs k,
  m_find cell_cmp k (emplace_all l segs) =
  match m_find cell_cmp k segs with Some s => Some s | None => m_find cell_cmp k l end.
Proof.
  induction l as [|[k0 s0] t IH]; intros segs k.
  - simpl. destruct (m_find cell_cmp k segs); reflexivity.
  - cbn [emplace_all fold_left fst snd]. fold (emplace_all t (m_emplace cell_cmp k0 s0 segs)). rewrite IH.
    destruct (cell_cmp k k0) eqn:E.
    + apply cell_cmp_eq in E. subst k0. rewrite (m_find_emplace_same cell_cmp_eq).
      cbn [m_find]. rewrite (proj2 (cell_cmp_eq k k) eq_refl).
      destruct (m_find cell_cmp k segs); reflexivity.
    + rewrite (m_find_emplace_other cell_cmp_eq); [|intro H; subst; rewrite (proj2 (cell_cmp_eq k0 k0) eq_refl) in E; discriminate].
      cbn [m_find]. rewrite E. reflexivity.
    + rewrite (m_find_emplace_other cell_cmp_eq); [|intro H; subst; rewrite (proj2 (cell_cmp_eq k0 k0) eq_refl) in E; discriminate].
      cbn [m_find]. rewrite E. reflexivity.
Qed.

Lemma emplace_all_In : forall l segs x, In x (emplace_all l segs) -> In x segs \/ In x l.
Proof.
  induction l as [|[k0 s0] t IH]; intros segs x H; [left; exact H|].
  cbn [emplace_all fold_left fst snd] in H. fold (emplace_all t (m_emplace cell_cmp k0 s0 segs)) in H.
  destruct (IH _ _ H) as [H1 | H1]; [|right; right; exact H1].
  unfold m_emplace in H1. destruct (m_find cell_cmp k0 segs); [left; exact H1|].
  apply m_place_In in H1. destruct H1 as [H1 | H1]; [right; left; symmetry; exact H1 | left; exact H1].
Qed.

Definition adj_get (adj : list (node * (list Q * list node))) (n : node) : list Q * list node :=
  match m_find Z.compare n adj with Some r => r | None => ([], []) end.

Definition nodes_get (nodes : list (cell * list node)) (c : cell) : list node :=
  match m_find cell_cmp c nodes with Some l => l | None => [] end.

Definition seg_hd (s : segment) : cell := hd (0, 0) (sg_cells s).
Definition seg_last (s : segment) : cell := last (sg_cells s) (0, 0).

(* the (neighbour, edge probability) pairs node n receives, in the order of
   the segment table *)
Definition links_of (n : node) (segs : list ((node * node) * segment)) : list (node * Q) :=
  flat_map (fun ks =>
     (if fst (fst ks) =? n then [(snd (fst ks), sg_prob (snd ks))] else []) ++
     (if snd (fst ks) =? n then [(fst (fst ks), sg_prob (snd ks))] else [])) segs.

Lemma add_neighbour_get : forall hp x p y adj n,
  adj_get (add_neighbour hp x p y adj) n =
  if x =? n then (fst (adj_get adj n) ++ (if hp then [p] else []), snd (adj_get adj n) ++ [y])
  else adj_get adj n.
Proof.
  intros hp x p y adj n. unfold adj_get, add_neighbour.
  destruct (x =? n) eqn:E.
  - apply Z.eqb_eq in E. subst x. rewrite (m_find_update_same zcmp_eq).
    destruct (m_find Z.compare n adj) as [[ps ms]|]; destruct hp; cbn [fst snd]; try rewrite app_nil_r; reflexivity.
  - apply Z.eqb_neq in E. rewrite (m_find_update_other zcmp_eq); [reflexivity | intro H; apply E; symmetry; exact H].
Qed.

Lemma add_neighbour_key : forall hp x p y adj n,
  m_find Z.compare n (add_neighbour hp x p y adj) = None -> m_find Z.compare n adj = None /\ x <> n.
Proof.
  intros hp x p y adj n H. unfold add_neighbour in H. destruct (Z.eq_dec n x) as [-> | Hne].
  - rewrite (m_find_update_same zcmp_eq) in H. discriminate.
  - rewrite (m_find_update_other zcmp_eq) in H; [|exact Hne]. split; [exact H | intro E; apply Hne; symmetry; exact E].
Qed.

Lemma index_segments_adj : forall hp segs nodes adj n,
  adj_get (snd (index_segments hp segs nodes adj)) n =
  (fst (adj_get adj n) ++ (if hp then map snd (links_of n segs) else []),
   snd (adj_get adj n) ++ map fst (links_of n segs)).
Proof.
  intros hp segs. induction segs as [|[[a b] s] t IH]; intros nodes adj n.
  - simpl. destruct hp; rewrite !app_nil_r; destruct (adj_get adj n); reflexivity.
  - cbn [index_segments]. rewrite IH. rewrite !add_neighbour_get.
    cbn [links_of flat_map fst snd]. fold (links_of n t).
    destruct (a =? n), (b =? n), hp; cbn [fst snd app map];
      repeat rewrite <- app_assoc; cbn [app]; try rewrite app_nil_r; reflexivity.
Qed.

Lemma index_segments_adj_key : forall hp segs nodes adj n,
  m_find Z.compare n (snd (index_segments hp segs nodes adj)) = None ->
  m_find Z.compare n adj = None /\ links_of n segs = [].
Proof.
  intros hp segs. induction segs as [|[[a b] s] t IH]; intros nodes adj n H.
  - split; [exact H | reflexivity].
  - cbn [index_segments] in H. apply IH in H. destruct H as [H1 H2].
    apply add_neighbour_key in H1. destruct H1 as [H1 Hb]. apply add_neighbour_key in H1. destruct H1 as [H1 Ha].
    split; [exact H1|]. cbn [links_of flat_map fst snd]. fold (links_of n t).
    apply Z.eqb_neq in Ha. apply Z.eqb_neq in Hb. rewrite Ha, Hb. exact H2.
Qed.

Lemma add_node_at_get : forall c' x m c n,
  In n (nodes_get (add_node_at c' x m) c) <-> In n (nodes_get m c) \/ (n = x /\ c = c').
Proof.
  intros c' x m c n. unfold nodes_get, add_node_at.
  destruct (cell_cmp c c') eqn:E.
  - apply cell_cmp_eq in E. subst c'. rewrite (m_find_update_same cell_cmp_eq). rewrite zset_insert_In.
    destruct (m_find cell_cmp c m); intuition.
  - rewrite (m_find_update_other cell_cmp_eq); [|intro H; subst; rewrite (proj2 (cell_cmp_eq c' c') eq_refl) in E; discriminate].
    split; [auto | intros [H | [_ H]]; [exact H | subst; rewrite (proj2 (cell_cmp_eq c' c') eq_refl) in E; discriminate]].
  - rewrite (m_find_update_other cell_cmp_eq); [|intro H; subst; rewrite (proj2 (cell_cmp_eq c' c') eq_refl) in E; discriminate].
    split; [auto | intros [H | [_ H]]; [exact H | subst; rewrite (proj2 (cell_cmp_eq c' c') eq_refl) in E; discriminate]].
Qed.

Lemma index_segments_nodes : forall hp segs nodes adj c n,
  In n (nodes_get (fst (index_segments hp segs nodes adj)) c) <->
  In n (nodes_get nodes c) \/
  exists a b s, In ((a, b), s) segs /\ ((n = a /\ c = seg_hd s) \/ (n = b /\ c = seg_last s)).
Proof.
  intros hp segs. induction segs as [|[[a b] s] t IH]; intros nodes adj c n.
  - simpl. split; [auto | intros [H | [a [b [s [[] _]]]]]; exact H].
  - cbn [index_segments]. rewrite IH. rewrite !add_node_at_get. fold (seg_hd s). fold (seg_last s). split.
    + intros [[[H | H] | H] | [a' [b' [s' [Hin H]]]]].
      * left. exact H.
      * right. exists a, b, s. split; [left; reflexivity | left; exact H].
      * right. exists a, b, s. split; [left; reflexivity | right; exact H].
      * right. exists a', b', s'. split; [right; exact Hin | exact H].
    + intros [H | [a' [b' [s' [[Hin | Hin] H]]]]].
      * left. left. left. exact H.
      * inversion Hin. subst a' b' s'. destruct H as [H | H]; [left; left; right; exact H | left; right; exact H].
      * right. exists a', b', s'. split; [exact Hin | exact H].
Qed.

Lemma index_segments_adj_nil : forall hp segs nodes adj,
  snd (index_segments hp segs nodes adj) = [] -> segs = [] /\ adj = [].
Proof.
  intros hp segs. induction segs as [|[[a b] s] t IH]; intros nodes adj H; [split; [reflexivity | exact H]|].
  cbn [index_segments] in H. apply IH in H. destruct H as [_ H]. exfalso.
  unfold add_neighbour in H. exact (m_update_not_nil _ _ _ _ _ _ H).
Qed.

Lemma links_of_In : forall n segs m p,
  In (m, p) (links_of n segs) <->
  exists s, sg_prob s = p /\ (In ((n, m), s) segs \/ In ((m, n), s) segs).
Proof.
  intros n segs m p. unfold links_of. rewrite in_flat_map. split.
  - intros [[[a b] s] [Hin H]]. cbn [fst snd] in H. apply in_app_or in H. destruct H as [H | H].
    + destruct (a =? n) eqn:E; [|destruct H]. apply Z.eqb_eq in E. destruct H as [H | []]. inversion H. subst.
      exists s. split; [reflexivity | left; exact Hin].
    + destruct (b =? n) eqn:E; [|destruct H]. apply Z.eqb_eq in E. destruct H as [H | []]. inversion H. subst.
      exists s. split; [reflexivity | right; exact Hin].
  - intros [s [Hp [Hin | Hin]]]; eexists; (split; [exact Hin|]); cbn [fst snd]; apply in_or_app.
    + left. rewrite Z.eqb_refl. left. rewrite Hp. reflexivity.
    + right. rewrite Z.eqb_refl. left. rewrite Hp. reflexivity.
Qed.

(* ------------------------------------------------------------ loading: load *)

Lemma load_spec : forall g fl lines ae net, load g fl lines ae = Ok net ->
  exists hc hp consumed outs,
    stream_has_columns fl = Ok (hc, hp, consumed) /\
    sequence (map (record_segment g hc hp) (if consumed then tl lines else lines)) = Ok outs /\
    nw_grid net = g /\
    nw_segs net = emplace_all (kept outs) [] /\
    (nw_nodes net, nw_adj net) = index_segments hp (nw_segs net) [] [] /\
    (ae = false -> nw_segs net <> []).
Proof.
  intros g fl lines ae net. unfold load.
  destruct (stream_has_columns fl) as [[[hc hp] consumed]|e]; cbn [bind fst snd]; [|discriminate].
  rewrite load_records_spec.
  destruct (sequence (map (record_segment g hc hp) (if consumed then tl lines else lines))) as [outs|e] eqn:Eseq;
    cbn [bind]; [|discriminate].
  intro H. exists hc, hp, consumed, outs. split; [reflexivity|]. split; [exact Eseq|].
  remember (emplace_all (kept outs) []) as segs eqn:Es.
  destruct (index_segments hp segs [] []) as [nodes adj] eqn:Ei. cbn [fst snd] in H.
  destruct adj as [|x adj'].
  - destruct ae; [|discriminate]. inversion H. cbn [nw_grid nw_segs nw_nodes nw_adj].
    split; [reflexivity|]. split; [reflexivity|]. split; [symmetry; exact Ei | intro Hf; discriminate].
  - inversion H. cbn [nw_grid nw_segs nw_nodes nw_adj].
    split; [reflexivity|]. split; [reflexivity|]. split; [symmetry; exact Ei|].
    intros _ Hs. rewrite Hs in Ei. simpl in Ei. inversion Ei.
Qed.

(* load fails exactly as follows *)
Lemma load_rejects : forall g fl lines ae,
  (forall e, stream_has_columns fl = Err e -> load g fl lines ae = Err e) /\
  (forall hc hp consumed, stream_has_columns fl = Ok (hc, hp, consumed) ->
     (forall e, sequence (map (record_segment g hc hp) (if consumed then tl lines else lines)) = Err e ->
        load g fl lines ae = Err e) /\
     (forall outs, sequence (map (record_segment g hc hp) (if consumed then tl lines else lines)) = Ok outs ->
        kept outs = [] -> ae = false -> load g fl lines ae = Err RuntimeError)).
Proof.
  intros g fl lines ae. unfold load. split.
  - intros e H. rewrite H. reflexivity.
  - intros hc hp consumed H. rewrite H. cbn [bind fst snd]. rewrite load_records_spec. split.
    + intros e He. rewrite He. reflexivity.
    + intros outs Ho Hk Hae. rewrite Ho, Hk, Hae. reflexivity.
Qed.

(* --------------------------------------------- facts about loaded networks *)

Definition loaded (net : network) : Prop := exists g fl lines ae, load g fl lines ae = Ok net.

Lemma sequence_In : forall A (l : list (result A)) xs x,
  sequence l = Ok xs -> In x xs -> In (Ok x) l.
Proof.
  intros A l. induction l as [|r t IH]; intros xs x H Hin.
  - inversion H. subst. destruct Hin.
  - cbn [sequence] in H. destruct r as [a|e]; cbn [bind] in H; [|discriminate].
    destruct (sequence t) as [ys|e]; cbn [bind] in H; [|discriminate].
    inversion H. subst xs. destruct Hin as [-> | Hin]; [left; reflexivity | right; eapply IH; [reflexivity | exact Hin]].
Qed.

Lemma kept_In : forall outs ks, In ks (kept outs) <-> In (Some ks) outs.
Proof.
  intros outs ks. unfold kept. rewrite in_flat_map. split.
  - intros [[x|] [H1 H2]]; [destruct H2 as [-> | []]; exact H1 | destruct H2].
  - intro H. exists (Some ks). split; [exact H | left; reflexivity].
Qed.

Lemma loaded_tables : forall net, loaded net ->
  exists hp, (nw_nodes net, nw_adj net) = index_segments hp (nw_segs net) [] [] /\
             (forall k s, In (k, s) (nw_segs net) -> wf_seg s).
Proof.
  intros net [g [fl [lines [ae H]]]]. apply load_spec in H.
  destruct H as [hc [hp [consumed [outs [_ [Hseq [_ [Hsegs [Hidx _]]]]]]]]].
  exists hp. split; [exact Hidx|].
  intros k s Hin. rewrite Hsegs in Hin. apply emplace_all_In in Hin. destruct Hin as [Hin | Hin]; [destruct Hin|].
  apply kept_In in Hin. pose proof (sequence_In _ _ _ _ Hseq Hin) as Hr.
  apply in_map_iff in Hr. destruct Hr as [r [Hr _]]. apply record_segment_ok in Hr.
  destruct Hr as [n1 [n2 [cost [prob [xs [_ [_ [_ [_ [_ [_ [_ [Hlen Ho]]]]]]]]]]]]].
  destruct (cell_out_of_bbox g (pt_cell g (hd (0, 0)%Q xs)) || cell_out_of_bbox g (pt_cell g (last xs (0, 0)%Q)));
    [discriminate|].
  inversion Ho. unfold wf_seg, record_seg. cbn [sg_cells]. apply merged_cells_wf.
  intro Hx. subst xs. simpl in Hlen. lia.
Qed.

Lemma adj_get_nil : forall n, adj_get [] n = ([], []).
Proof. reflexivity. Qed.

Lemma index_segments_no_key : forall hp segs nodes adj n,
  m_find Z.compare n adj = None -> links_of n segs = [] ->
  m_find Z.compare n (snd (index_segments hp segs nodes adj)) = None.
Proof.
  intros hp segs. induction segs as [|[[a b] s] t IH]; intros nodes adj n H0 Hn; [exact H0|].
  cbn [index_segments]. cbn [links_of flat_map fst snd] in Hn. fold (links_of n t) in Hn.
  destruct (a =? n) eqn:Ea; [discriminate|]. destruct (b =? n) eqn:Eb; [discriminate|].
  apply IH; [|exact Hn]. unfold add_neighbour.
  apply Z.eqb_neq in Ea. apply Z.eqb_neq in Eb.
  rewrite (m_find_update_other zcmp_eq); [|intro; subst; contradiction].
  rewrite (m_find_update_other zcmp_eq); [exact H0 | intro; subst; contradiction].
Qed.

Lemma loaded_adj : forall net, loaded net -> exists hp : bool, forall n,
  (links_of n (nw_segs net) = [] -> adj_at net n = Err OutOfRange) /\
  (links_of n (nw_segs net) <> [] ->
     adj_at net n = Ok (if hp then map snd (links_of n (nw_segs net)) else @nil Q,
                        map fst (links_of n (nw_segs net)))).
Proof.
  intros net Hl. destruct (loaded_tables net Hl) as [hp [Hidx _]]. exists hp. intro n.
  assert (Hadj : nw_adj net = snd (index_segments hp (nw_segs net) [] [])) by (rewrite <- Hidx; reflexivity).
  pose proof (index_segments_adj hp (nw_segs net) [] [] n) as Ha.
  pose proof (index_segments_adj_key hp (nw_segs net) [] [] n) as Hk.
  pose proof (index_segments_no_key hp (nw_segs net) [] [] n eq_refl) as Hz.
  rewrite adj_get_nil in Ha. cbn [fst snd app] in Ha.
  unfold adj_at. rewrite Hadj. unfold adj_get in Ha. split.
  - intro Hnil. pose proof (Hz Hnil) as Hz'. unfold node in *. rewrite Hz'. reflexivity.
  - intro Hne. destruct (m_find Z.compare n (snd (index_segments hp (nw_segs net) [] []))) as [r|] eqn:E.
    + rewrite Ha. reflexivity.
    + exfalso. apply Hne. apply Hk. reflexivity.
Qed.

Lemma loaded_nodes : forall net, loaded net -> forall c n,
  In n (nodes_at net c) <->
  exists a b s, In ((a, b), s) (nw_segs net) /\ ((n = a /\ c = seg_hd s) \/ (n = b /\ c = seg_last s)).
Proof.
  intros net Hl c n. destruct (loaded_tables net Hl) as [hp [Hidx _]].
  pose proof (index_segments_nodes hp (nw_segs net) [] [] c n) as H.
  rewrite <- Hidx in H. cbn [fst] in H. unfold nodes_at. unfold nodes_get in H. cbn [m_find] in H.
  rewrite H. split; [intros [[] | H1]; exact H1 | intro H1; right; exact H1].
Qed.

Lemma endpoint_has_links : forall segs a b s,
  In ((a, b), s) segs -> links_of a segs <> [] /\ links_of b segs <> [].
Proof.
  intros segs a b s Hin. split; intro H.
  - assert (Hl : In (b, sg_prob s) (links_of a segs)) by (apply links_of_In; exists s; split; [reflexivity | left; exact Hin]).
    rewrite H in Hl. exact Hl.
  - assert (Hl : In (a, sg_prob s) (links_of b segs)) by (apply links_of_In; exists s; split; [reflexivity | right; exact Hin]).
    rewrite H in Hl. exact Hl.
Qed.

(* a node with an entry: its neighbour list is not empty *)
Definition good_node (net : network) (n : node) : Prop :=
  exists l, connected net n = Ok l /\ l <> [].

Lemma loaded_connected : forall net, loaded net -> forall n,
  links_of n (nw_segs net) <> [] ->
  connected net n = Ok (map fst (links_of n (nw_segs net))) /\ good_node net n.
Proof.
  intros net Hl n Hne. destruct (loaded_adj net Hl) as [hp Ha]. destruct (Ha n) as [_ H]. specialize (H Hne).
  assert (Hc : connected net n = Ok (map fst (links_of n (nw_segs net)))) by (unfold connected; rewrite H; reflexivity).
  split; [exact Hc|]. exists (map fst (links_of n (nw_segs net))). split; [exact Hc|].
  destruct (links_of n (nw_segs net)); [contradiction | discriminate].
Qed.

Lemma loaded_node_good : forall net, loaded net -> forall c n, In n (nodes_at net c) -> good_node net n.
Proof.
  intros net Hl c n Hin. apply (loaded_nodes net Hl) in Hin. destruct Hin as [a [b [s [Hin H]]]].
  destruct (endpoint_has_links _ _ _ _ Hin) as [Ha Hb].
  destruct H as [[-> _] | [-> _]]; apply (loaded_connected net Hl); assumption.
Qed.

(* every neighbour is joined by a stored segment, over which the walk can go
   either way, and is itself a node with neighbours; the edge has the
   probability listed for it *)
Lemma loaded_neighbour : forall net, loaded net -> forall n l m,
  connected net n = Ok l -> In m l ->
  (exists s, In ((n, m), s) (nw_segs net) \/ In ((m, n), s) (nw_segs net)) /\
  (exists v, get_segment net n m = Ok v) /\ good_node net m.
Proof.
  intros net Hl n l m Hc Hin. destruct (loaded_adj net Hl) as [hp Ha]. destruct (Ha n) as [H0 H1].
  assert (Hne : links_of n (nw_segs net) <> []).
  { intro Hnil. unfold connected in Hc. rewrite (H0 Hnil) in Hc. discriminate. }
  specialize (H1 Hne).
  unfold connected in Hc. rewrite H1 in Hc. cbn [bind snd] in Hc. inversion Hc. subst l.
  apply in_map_iff in Hin. destruct Hin as [[m' p] [Hm Hin]]. cbn [fst] in Hm. subst m'.
  apply links_of_In in Hin. destruct Hin as [s [_ Hs]].
  split; [exists s; exact Hs|]. split.
  - unfold get_segment. destruct Hs as [Hs | Hs].
    + destruct (In_m_find_some _ _ _ cell_cmp_eq _ _ _ Hs) as [s' Hf]. rewrite Hf. eexists; reflexivity.
    + destruct (m_find cell_cmp (n, m) (nw_segs net)); [eexists; reflexivity|].
      destruct (In_m_find_some _ _ _ cell_cmp_eq _ _ _ Hs) as [s' Hf]. rewrite Hf. eexists; reflexivity.
  - destruct Hs as [Hs | Hs]; destruct (endpoint_has_links _ _ _ _ Hs) as [Hx Hy];
      apply (loaded_connected net Hl); assumption.
Qed.

(* both directions: a stored segment is found from either end, reversed from
   the far end, with the same cost; each end lists the other as a neighbour;
   the end cells hold the end nodes *)
Lemma both_directions : forall net (a b : node) s, loaded net ->
  m_find cell_cmp (a, b) (nw_segs net) = Some s ->
  get_segment net a b = Ok (mkview (sg_cells s) s) /\
  (m_find cell_cmp (b, a) (nw_segs net) = None -> get_segment net b a = Ok (mkview (rev (sg_cells s)) s)) /\
  (exists la lb, connected net a = Ok la /\ In b la /\ connected net b = Ok lb /\ In a lb) /\
  In a (nodes_at net (seg_hd s)) /\ In b (nodes_at net (seg_last s)).
Proof.
  intros net a b s Hl Hf. split; [|split; [|split]].
  - unfold get_segment. rewrite Hf. reflexivity.
  - intro Hn. unfold get_segment. rewrite Hn, Hf. reflexivity.
  - pose proof (m_find_In cell_cmp_eq _ _ _ Hf) as Hin.
    destruct (endpoint_has_links _ _ _ _ Hin) as [Ha Hb].
    destruct (loaded_connected net Hl a Ha) as [Hca _]. destruct (loaded_connected net Hl b Hb) as [Hcb _].
    eexists. eexists. split; [exact Hca|]. split.
    + apply in_map_iff. exists (b, sg_prob s). split; [reflexivity|]. apply links_of_In. exists s. split; [reflexivity | left; exact Hin].
    + split; [exact Hcb|]. apply in_map_iff. exists (a, sg_prob s). split; [reflexivity|]. apply links_of_In. exists s. split; [reflexivity | right; exact Hin].
  - pose proof (m_find_In cell_cmp_eq _ _ _ Hf) as Hin. split; apply (loaded_nodes net Hl); exists a, b, s; (split; [exact Hin|]).
    + left. split; reflexivity.
    + right. split; reflexivity.
Qed.

(* ------------------------------------------------ snapping ends on a node *)

Lemma nth_cell_0 : forall l c d, nth_cell l 0 = Ok c -> hd d l = c.
Proof.
  intros l c d. unfold nth_cell. simpl. destruct l as [|x t]; simpl; [discriminate|].
  intro H. inversion H. reflexivity.
Qed.

Lemma nth_error_last : forall (l : list cell) c d,
  nth_error l (List.length l - 1) = Some c -> l <> [] -> last l d = c.
Proof.
  induction l as [|x t IH]; intros c d H Hne; [contradiction|].
  destruct t as [|y t'].
  - simpl in H. inversion H. reflexivity.
  - change (last (x :: y :: t') d) with (last (y :: t') d). apply IH; [|discriminate].
    simpl in H. simpl. rewrite Nat.sub_0_r. exact H.
Qed.

Lemma nth_cell_last : forall l c d, nth_cell l (Z.of_nat (List.length l) - 1) = Ok c -> last l d = c.
Proof.
  intros l c d. unfold nth_cell. destruct l as [|x t].
  - simpl. discriminate.
  - destruct (Z.of_nat (List.length (x :: t)) - 1 <? 0) eqn:E; [discriminate|].
    replace (Z.to_nat (Z.of_nat (List.length (x :: t)) - 1)) with (List.length (x :: t) - 1)%nat by lia.
    destruct (nth_error (x :: t) (List.length (x :: t) - 1)) eqn:En; [|discriminate].
    intro H. inversion H. subst. apply nth_error_last; [exact En | discriminate].
Qed.

Lemma hd_rev : forall (l : list cell) d, hd d (rev l) = last l d.
Proof.
  induction l as [|x t IH]; intro d; [reflexivity|].
  simpl rev. destruct t as [|y t'].
  - reflexivity.
  - change (last (x :: y :: t') d) with (last (y :: t') d). rewrite <- IH.
    destruct (rev (y :: t')) as [|z r] eqn:E; [|reflexivity].
    exfalso. apply (f_equal (@List.length cell)) in E. rewrite rev_length in E. discriminate.
Qed.

Lemma last_rev : forall (l : list cell) d, last (rev l) d = hd d l.
Proof. intros l d. rewrite <- (rev_involutive l) at 2. rewrite hd_rev. reflexivity. Qed.

Lemma view_ends_hold_nodes : forall net (a b : node) v, loaded net -> get_segment net a b = Ok v ->
  (forall c, view_front v = Ok c -> In a (nodes_at net c)) /\
  (forall c, view_back v = Ok c -> In b (nodes_at net c)).
Proof.
  intros net a b v Hl Hg. apply get_segment_view_of in Hg. unfold view_front, view_back.
  destruct Hg as [[Hf Hc] | [_ [Hf Hc]]]; rewrite Hc.
  - destruct (both_directions net a b (v_seg v) Hl Hf) as [_ [_ [_ [Ha Hb]]]]. split; intros c H.
    + apply (nth_cell_0 _ _ (0, 0)) in H. subst c. exact Ha.
    + apply (nth_cell_last _ _ (0, 0)) in H. subst c. exact Hb.
  - destruct (both_directions net b a (v_seg v) Hl Hf) as [_ [_ [_ [Hb Ha]]]]. split; intros c H.
    + apply (nth_cell_0 _ _ (0, 0)) in H. rewrite hd_rev in H. subst c. exact Ha.
    + apply (nth_cell_last _ _ (0, 0)) in H. rewrite last_rev in H. subst c. exact Hb.
Qed.

Lemma chain_cons2 : forall net n m t v vs,
  chain net (n :: m :: t) (v :: vs) =
  (get_segment net n m = Ok v /\ m <> n /\
   (exists all, connected net n = Ok all /\ In m all) /\ chain net (m :: t) vs).
Proof. reflexivity. Qed.

Lemma chain_last : forall net pre path last0,
  chain net path (pre ++ [last0]) ->
  exists a b, In a path /\ In b path /\ get_segment net a b = Ok last0.
Proof.
  intros net pre. induction pre as [|p pre' IH]; intros path last0 H.
  - change ([] ++ [last0]) with [last0] in H.
    destruct path as [|n [|m t]]; [destruct H | destruct H |].
    rewrite chain_cons2 in H.
    destruct H as [Hg _]. exists n, m. split; [left; reflexivity|]. split; [right; left; reflexivity | exact Hg].
  - rewrite <- app_comm_cons in H.
    destruct path as [|n [|m t]]; [destruct H | destruct H |].
    rewrite chain_cons2 in H.
    destruct H as [_ [_ [_ Hc]]]. destruct (IH _ _ Hc) as [a [b [Ha [Hb Hg]]]].
    exists a, b. split; [right; exact Ha|]. split; [right; exact Hb | exact Hg].
Qed.

Lemma jump_ends_on_node : forall net fuel start d tp r, loaded net ->
  walk_tr net fuel start d true tp = Ok r -> w_on_segment r = true ->
  exists n, In n (w_path r) /\ In n (nodes_at net (w_cell r)).
Proof.
  intros net fuel start d tp r Hl. unfold walk_tr.
  destruct (random_node_at net start tp) as [[n0 tp']|e]; [|discriminate].
  intros Hw Hon. pose proof (walk_loop_accounting _ _ _ _ _ _ _ _ _ Hw) as Ha.
  destruct (walk_loop_path _ _ _ _ _ _ _ _ _ Hw) as [_ [Hch _]].
  rewrite Hon in Ha. destruct Ha as [pre [last0 [rem [Hv [_ [_ [_ [_ Hs]]]]]]]].
  rewrite Hv in Hch. destruct (chain_last _ _ _ _ Hch) as [a [b [Hia [Hib Hg]]]].
  destruct (view_ends_hold_nodes net a b last0 Hl Hg) as [Hf Hb].
  unfold stop_cell in Hs. destruct (Qlt_bool rem (v_cost last0 / 2)).
  - exists a. split; [exact Hia | apply Hf; exact Hs].
  - exists b. split; [exact Hib | apply Hb; exact Hs].
Qed.

(* ---------------------- on a loaded network a walk meets no other error *)

Definition walk_error (e : err) : Prop := e = InvalidArgument \/ e = TapeMismatch \/ e = OutOfFuel.

Lemma costs_positive_In : forall net k s, costs_positive net = true -> In (k, s) (nw_segs net) -> (0 < seg_cost s)%Q.
Proof.
  intros net k s H Hin. unfold costs_positive in H. rewrite forallb_forall in H.
  apply Qlt_bool_iff. exact (H (k, s) Hin).
Qed.

Lemma walk_loop_loaded : forall fuel net start jump nd visited d tp e,
  loaded net -> costs_positive net = true -> good_node net nd ->
  walk_loop fuel net start jump nd visited d tp = Err e ->
  walk_error e /\ (e = InvalidArgument -> (d < 0)%Q).
Proof.
  induction fuel as [|f IH]; intros net start jump nd visited d tp e Hl Hpos Hgood.
  - simpl. intro H. inversion H. split; [right; right; reflexivity | discriminate].
  - rewrite walk_loop_S.
    destruct (Qle_bool 0 d) eqn:Ed.
    2:{ intro H. inversion H. split; [left; reflexivity|]. intros _. apply Qlt_bool_iff. unfold Qlt_bool. rewrite Ed. reflexivity. }
    apply Qle_bool_iff in Ed.
    destruct Hgood as [l [Hc Hne]].
    unfold next_node.
    destruct (next_node_cands net nd visited) as [cands|e0] eqn:Ec.
    2:{ unfold next_node_cands in Ec. rewrite Hc in Ec. cbn [bind] in Ec.
        destruct l as [|a [|b t]]; try discriminate.
        destruct (filter (fun id => negb (zmem id visited)) (a :: b :: t)); discriminate. }
    cbn [bind].
    destruct (next_node_cands_spec _ _ _ _ Ec) as [all [Hc' [Hcne [_ [Hsub _]]]]].
    rewrite Hc in Hc'. inversion Hc'. subst all. specialize (Hsub Hne).
    destruct (choose_cases _ (@Err (node * tape) UB_OutOfBounds) cands tp Hcne) as [[nx [tp' [Hch Hin]]] | Hch]; rewrite Hch.
    2:{ intro H. inversion H. split; [right; left; reflexivity | discriminate]. }
    destruct (nx =? nd); [discriminate|].
    destruct (loaded_neighbour net Hl nd l nx Hc (Hsub nx Hin)) as [_ [[v Hg] Hgx]].
    rewrite Hg. cbn [bind].
    destruct (Qlt_bool (v_cost v) d) eqn:El.
    + destruct (walk_loop f net start jump nx (zset_insert nd visited) (Qred (d - v_cost v)) tp') as [r|e1] eqn:Er;
        cbn [bind]; [discriminate|].
      intro H. inversion H. subst e1.
      destruct (IH _ _ _ _ _ _ _ _ Hl Hpos Hgx Er) as [H1 H2]. split; [exact H1|].
      intro He. specialize (H2 He). exfalso.
      apply Qlt_bool_iff in El. pose proof (Qred_correct (d - v_cost v)) as Hred. lra.
    + apply Qlt_bool_false in El.
      pose proof (get_segment_view_of _ _ _ _ Hg) as Hv.
      assert (Hin' : exists k, In (k, v_seg v) (nw_segs net) /\
                     List.length (v_cells v) = List.length (sg_cells (v_seg v))).
      { destruct Hv as [[Hf Hcl] | [_ [Hf Hcl]]]; eexists; (split; [apply (m_find_In cell_cmp_eq); exact Hf|]); rewrite Hcl;
          [reflexivity | apply rev_length]. }
      destruct Hin' as [k [Hk Hlen]].
      destruct (loaded_tables net Hl) as [_ [_ Hwf]].
      destruct (stop_cell_defined v d jump (Hwf _ _ Hk) Hlen (costs_positive_In _ _ _ Hpos Hk) Ed El) as [c Hs].
      rewrite Hs. cbn [bind]. discriminate.
Qed.

Lemma walk_loaded_errors : forall net fuel start d jump tp e,
  loaded net -> costs_positive net = true ->
  walk net fuel start d jump tp = Err e ->
  (e = InvalidArgument /\ (nodes_at net start = [] \/ (d < 0)%Q)) \/ e = TapeMismatch \/ e = OutOfFuel.
Proof.
  intros net fuel start d jump tp e Hl Hpos. unfold walk, walk_tr, random_node_at.
  destruct (nodes_at net start) as [|n l] eqn:En.
  - simpl. intro H. inversion H. left. split; [reflexivity | left; reflexivity].
  - destruct (choose_cases _ (@Err (node * tape) InvalidArgument) (n :: l) tp) as [[n0 [tp' [Hc Hin]]] | Hc];
      [discriminate | | rewrite Hc; simpl; intro H; inversion H; right; left; reflexivity].
    rewrite Hc.
    destruct (walk_loop fuel net start jump n0 [] d tp') as [r|e1] eqn:Ew; cbn [bind]; [discriminate|].
    intro H. inversion H. subst e1.
    assert (Hg : good_node net n0) by (apply (loaded_node_good net Hl start); rewrite En; exact Hin).
    destruct (walk_loop_loaded _ _ _ _ _ _ _ _ _ Hl Hpos Hg Ew) as [[H1 | [H1 | H1]] H2].
    + left. split; [exact H1 | right; exact (H2 H1)].
    + right. left. exact H1.
    + right. right. exact H1.
Qed.

(* --------------------------- teleport on a loaded network: edge probabilities *)

Lemma nth_error_map_pair : forall (l : list (node * Q)) i m p,
  nth_error (map fst l) i = Some m -> nth_error (map snd l) i = Some p -> nth_error l i = Some (m, p).
Proof.
  induction l as [|[m0 p0] t IH]; intros i m p H1 H2; destruct i; simpl in *; try discriminate.
  - inversion H1. inversion H2. reflexivity.
  - apply IH; assumption.
Qed.

Lemma teleport_loaded : forall net start tp m c, loaded net ->
  teleport_tr net start 1 tp = Ok (m, c) ->
  exists n0, In n0 (nodes_at net start) /\
    (exists s, In ((n0, m), s) (nw_segs net) \/ In ((m, n0), s) (nw_segs net)) /\
    (forall ps a b t, adj_at net n0 = Ok (ps, a :: b :: t) -> ps <> [] ->
       exists s, (0 < sg_prob s)%Q /\ (In ((n0, m), s) (nw_segs net) \/ In ((m, n0), s) (nw_segs net))) /\
    (exists ns, In (c, ns) (nw_nodes net) /\ In m ns).
Proof.
  intros net start tp m c Hl H. apply teleport_adjacent in H.
  destruct H as [n0 [ps [ms [Hn0 [Ha [Hm [Hp Hc]]]]]]].
  exists n0. split; [exact Hn0|].
  destruct (loaded_node_good net Hl start n0 Hn0) as [l [Hcon Hne]].
  assert (Hl' : l = ms) by (unfold connected in Hcon; rewrite Ha in Hcon; inversion Hcon; reflexivity). subst l.
  assert (Hin : In m ms) by (destruct Hm as [[Hnil _] | Hm]; [contradiction | exact Hm]).
  destruct (loaded_neighbour net Hl n0 ms m Hcon Hin) as [Hs _].
  split; [exact Hs|]. split; [|exact Hc].
  intros ps' a b t Ha' Hps. rewrite Ha in Ha'. inversion Ha'. subst ps' ms.
  destruct (Hp a b t eq_refl Hps) as [i [p [Hi [Hpos Hmi]]]].
  destruct (loaded_adj net Hl) as [hp Hadj]. destruct (Hadj n0) as [H0 H1].
  assert (Hne' : links_of n0 (nw_segs net) <> []).
  { intro Hnil. rewrite (H0 Hnil) in Ha. discriminate. }
  rewrite (H1 Hne') in Ha. injection Ha as Hps' Hms'.
  destruct hp; [|exfalso; apply Hps; symmetry; exact Hps'].
  rewrite <- Hps' in Hi. rewrite <- Hms' in Hmi.
  pose proof (nth_error_map_pair _ _ _ _ Hmi Hi) as Hpair. apply nth_error_In in Hpair.
  apply links_of_In in Hpair. destruct Hpair as [s [Hsp Hs']].
  exists s. split; [rewrite Hsp; exact Hpos | exact Hs'].
Qed.

(* ------------------------------- a node pair given by more than one record *)

Lemma m_find_nodup : forall (l : list ((node * node) * segment)) k s,
  NoDup (map fst l) -> In (k, s) l -> m_find cell_cmp k l = Some s.
Proof.
  induction l as [|[k0 s0] t IH]; intros k s Hnd Hin; [destruct Hin|].
  cbn [map fst] in Hnd. inversion Hnd as [|x xs Hnot Hnd']. subst.
  cbn [m_find]. destruct Hin as [Hin | Hin].
  - inversion Hin. subst. rewrite (proj2 (cell_cmp_eq k k) eq_refl). reflexivity.
  - destruct (cell_cmp k k0) eqn:E.
    + apply cell_cmp_eq in E. subst k0. exfalso. apply Hnot. apply in_map_iff. exists (k, s). split; [reflexivity | exact Hin].
    + apply IH; assumption.
    + apply IH; assumption.
Qed.

(* when no node pair is repeated among the kept records, every kept record is
   in the network *)
Lemma load_keeps_all_when_distinct : forall g fl lines ae net hc hp consumed outs,
  load g fl lines ae = Ok net ->
  stream_has_columns fl = Ok (hc, hp, consumed) ->
  sequence (map (record_segment g hc hp) (if consumed then tl lines else lines)) = Ok outs ->
  NoDup (map fst (kept outs)) ->
  forall k s, In (k, s) (kept outs) <-> m_find cell_cmp k (nw_segs net) = Some s.
Proof.
  intros g fl lines ae net hc hp consumed outs Hload Hh Hs Hnd k s.
  apply load_spec in Hload. destruct Hload as [hc' [hp' [consumed' [outs' [Hh' [Hs' [_ [Hsegs _]]]]]]]].
  rewrite Hh in Hh'. inversion Hh'. subst hc' hp' consumed'. rewrite Hs in Hs'. inversion Hs'. subst outs'.
  rewrite Hsegs, emplace_all_find. cbn [m_find]. split.
  - apply m_find_nodup. exact Hnd.
  - apply (m_find_In cell_cmp_eq).
Qed.

(* witness: the same node pair twice, both records with their end nodes
   inside; the second record's geometry is not in the loaded network *)
Definition dup_lines : list rawrec :=
  [ mkraw (Ok 1) (Ok 2) (Err InvalidArgument) (Err InvalidArgument) [Ok (1 # 2, 19 # 2)%Q; Ok (9 # 2, 19 # 2)%Q];
    mkraw (Ok 1) (Ok 2) (Err InvalidArgument) (Err InvalidArgument)
          [Ok (1 # 2, 19 # 2)%Q; Ok (1 # 2, 15 # 2)%Q; Ok (9 # 2, 15 # 2)%Q; Ok (9 # 2, 19 # 2)%Q] ].

Definition dup_net : network :=
  Eval vm_compute in
    match load zero_cost_grid [L_other; L_other; L_other] dup_lines false with Ok n => n | Err _ => zero_cost_net end.

Definition dup_second : segment :=
  Eval vm_compute in
    match record_segment zero_cost_grid false false (nth 1 dup_lines (mkraw (Ok 0) (Ok 0) (Ok 0%Q) (Ok 0%Q) [])) with
    | Ok (Some ks) => snd ks
    | _ => mkseg [] 0 0 0
    end.

Lemma parallel_edge_dropped : exists g lines net k s,
  load g [L_other; L_other; L_other] lines false = Ok net /\
  (exists r, In r lines /\ record_segment g false false r = Ok (Some (k, s))) /\
  ~ In (k, s) (nw_segs net).
Proof.
  exists zero_cost_grid, dup_lines, dup_net, (1, 2), dup_second.
  split; [vm_compute; reflexivity|]. split.
  - exists (nth 1 dup_lines (mkraw (Ok 0) (Ok 0) (Ok 0%Q) (Ok 0%Q) [])).
    split; [right; left; reflexivity | vm_compute; reflexivity].
  - intro H. vm_compute in H. destruct H as [H | H]; [discriminate H | exact H].
Qed.

(* ----------------------------------------------- statements at walk level *)

Lemma walk_tr_path : forall net fuel start d jump tp r,
  walk_tr net fuel start d jump tp = Ok r ->
  (exists n0 t, In n0 (nodes_at net start) /\ w_path r = n0 :: t) /\
  chain net (w_path r) (w_views r) /\ fresh_pref net [] (w_path r).
Proof.
  intros net fuel start d jump tp r. unfold walk_tr.
  destruct (random_node_at net start tp) as [[n0 tp']|e] eqn:Er; [|discriminate].
  intro H. destruct (walk_loop_path _ _ _ _ _ _ _ _ _ H) as [[t Ht] [Hc Hf]].
  split; [|split; assumption].
  exists n0, t. split; [|exact Ht].
  unfold random_node_at in Er. destruct (nodes_at net start) as [|x l] eqn:En; [discriminate|].
  eapply choose_In; [|exact Er]. discriminate.
Qed.

Lemma walk_tr_accounting : forall net fuel start d jump tp r,
  walk_tr net fuel start d jump tp = Ok r ->
  if w_on_segment r then
    exists pre last rem, w_views r = pre ++ [last] /\
      (forall i v, nth_error pre i = Some v -> (v_cost v < d - sum_costs (firstn i pre))%Q) /\
      (rem == d - sum_costs pre)%Q /\ (0 <= rem)%Q /\ (rem <= v_cost last)%Q /\
      stop_cell last rem jump = Ok (w_cell r)
  else
    w_cell r = start /\
    (forall i v, nth_error (w_views r) i = Some v -> (v_cost v < d - sum_costs (firstn i (w_views r)))%Q).
Proof.
  intros net fuel start d jump tp r. unfold walk_tr.
  destruct (random_node_at net start tp) as [[n0 tp']|e]; [|discriminate].
  apply walk_loop_accounting.
Qed.

Lemma jump_snaps : forall v rem c, stop_cell v rem true = Ok c ->
  ((rem < v_cost v / 2)%Q -> view_front v = Ok c) /\
  ((v_cost v / 2 <= rem)%Q -> view_back v = Ok c).
Proof.
  intros v rem c. unfold stop_cell. destruct (Qlt_bool rem (v_cost v / 2)) eqn:E; intro H; split; intro Hc.
  - exact H.
  - apply Qlt_bool_iff in E. exfalso. exact (Qlt_not_le _ _ E Hc).
  - apply Qlt_bool_false in E. exfalso. exact (Qlt_not_le _ _ Hc E).
  - exact H.
Qed.

Lemma no_jump_stops_by_cost : forall v rem c, stop_cell v rem false = Ok c ->
  exists i, index_from_cost (v_seg v) rem = Ok i /\ nth_cell (v_cells v) i = Ok c.
Proof.
  intros v rem c. unfold stop_cell, view_cell_by_cost.
  destruct (index_from_cost (v_seg v) rem) as [i|e]; cbn [bind]; [|discriminate].
  intro H. exists i. split; [reflexivity | exact H].
Qed.

(* stated cost, or length-derived cost *)
Lemma record_seg_cost : forall g hp cost prob xs,
  (seg_cost (record_seg g true hp cost prob xs) == cost)%Q /\
  seg_cost (record_seg g false hp cost prob xs) =
    (inject_Z (Z.of_nat (List.length (merged_cells g xs)) - 1) * distance_per_cell g)%Q.
Proof.
  intros g hp cost prob xs. split.
  - unfold seg_cost, has_total, record_seg. cbn [sg_total sg_cpc].
    destruct (Qeq_bool cost 0) eqn:E; cbn [negb]; [|reflexivity].
    apply Qeq_bool_iff in E. rewrite Qmult_0_r. symmetry. exact E.
  - reflexivity.
Qed.

Lemma merged_cells_spec : forall g xs,
  let m := dedup None (map (pt_cell g) xs) in
  stutter m (map (pt_cell g) xs) /\ no_adj_dup m /\
  merged_cells g xs = (match m with [c] => [c; c] | _ => m end).
Proof.
  intros g xs m. split; [exact (dedup_stutter (map (pt_cell g) xs) None)|].
  split; [exact (proj1 (dedup_no_adj_dup (map (pt_cell g) xs) None))|].
  unfold merged_cells. subst m. destruct (dedup None (map (pt_cell g) xs)) as [|a [|b t]]; reflexivity.
Qed.

Lemma load_first_record_of_pair : forall g fl lines ae net hc hp consumed outs,
  load g fl lines ae = Ok net ->
  stream_has_columns fl = Ok (hc, hp, consumed) ->
  sequence (map (record_segment g hc hp) (if consumed then tl lines else lines)) = Ok outs ->
  forall k, m_find cell_cmp k (nw_segs net) = m_find cell_cmp k (kept outs).
Proof.
  intros g fl lines ae net hc hp consumed outs Hload Hh Hs k.
  apply load_spec in Hload. destruct Hload as [hc' [hp' [consumed' [outs' [Hh' [Hs' [_ [Hsegs _]]]]]]]].
  rewrite Hh in Hh'. inversion Hh'. subst hc' hp' consumed'. rewrite Hs in Hs'. inversion Hs'. subst outs'.
  rewrite Hsegs, emplace_all_find. reflexivity.
Qed.
