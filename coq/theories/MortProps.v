(* The "eventual death" clause of property C11: with a positive mortality rate,
   every infected host is dead at the latest tracker-length mortality actions
   after it was infected, for any interleaving with new infection. *)
From Coq Require Import ZArith QArith Qround List Bool Lia ZifyBool Lqa.
From Pops Require Import Err Rounding RoundingProps CellDefs CellProps.
Import ListNotations.
Local Open Scope Z_scope.
Ltac Zify.zify_post_hook ::= Z.div_mod_to_equations.

(* one Mortality::action at one cell: deaths, then ageing of the cohorts *)
Definition mort_action (rate : Q) (lag : Z) (c : cell) : result cell :=
  do c' <- apply_mortality c rate lag; Ok (rotate_mortality c').

(* k new infections entering the youngest cohort, as add_disperser (SI) and
   step_forward (SEI) do *)
Definition infect (k : Z) (c : cell) : result cell :=
  do m' <- add_last (cM c) k;
  Ok (mkcell (cS c - k) (cE c) (cI c + k) (cTE c) (cR c) m' (cD c) (cTH c)).

Fixpoint run_mort (rate : Q) (lag : Z) (ks : list Z) (c : cell) : result cell :=
  match ks with
  | [] => Ok c
  | k :: r => do c1 <- infect k c; do c2 <- mort_action rate lag c1; run_mort rate lag r c2
  end.

(* closed form of what the mortality loop does to the cohorts: the first [k]
   cohorts are reduced, the very first one (index 0) dies completely *)
Fixpoint mort_list (rate : Q) (k : nat) (first : bool) (m : list Z) : list Z :=
  match k, m with
  | S k', x :: r =>
    (if first then 0 else x - qfloor (rate * zq x)) :: mort_list rate k' false r
  | _, _ => m
  end.

(* sum of the cohorts from position n on *)
Definition tailsum (n : nat) (l : list Z) : Z := sumZ (skipn n l).

(* ------------------------------------------------------------------ *)
(* helpers                                                             *)
(* ------------------------------------------------------------------ *)

Lemma pointwise_le_refl l : nonneg l -> pointwise_le l l.
Proof.
  intros H. apply pointwise_le_map with (f := fun x => x) in H; [|intros; lia].
  rewrite map_id in H. exact H.
Qed.

Lemma tailsum_pointwise l' l : pointwise_le l' l -> forall n, tailsum n l' <= tailsum n l.
Proof.
  unfold tailsum. induction 1 as [|x y l' l Hxy Hpw IH]; intros n.
  - rewrite skipn_nil. cbn [sumZ]. lia.
  - destruct n as [|n]; cbn [skipn].
    + pose proof (pointwise_le_sum _ _ Hpw). cbn [sumZ]. lia.
    + apply IH.
Qed.

Lemma tailsum_snoc0 t : forall n, tailsum n (t ++ [0]) = tailsum n t.
Proof.
  unfold tailsum. induction t as [|a t IH]; intros n.
  - destruct n as [|n]; cbn [app skipn sumZ]; [reflexivity|]. rewrite skipn_nil. reflexivity.
  - destruct n as [|n]; cbn [app skipn].
    + cbn [sumZ]. rewrite sumZ_app. cbn [sumZ]. lia.
    + apply IH.
Qed.

Lemma tailsum_cons x t n : tailsum (S n) (x :: t) = tailsum n t.
Proof. reflexivity. Qed.

Lemma tailsum_all l n : (length l <= n)%nat -> tailsum n l = 0.
Proof. intros H. unfold tailsum. rewrite skipn_all2 by exact H. reflexivity. Qed.

Lemma tailsum_0 l : tailsum 0 l = sumZ l.
Proof. reflexivity. Qed.

Lemma tailsum_snoc_add init y k : 0 <= k -> forall n,
  tailsum n (init ++ [y + k]) <= tailsum n (init ++ [y]) + k.
Proof.
  intros Hk. unfold tailsum. induction init as [|a init IH]; intros n.
  - destruct n as [|n]; cbn [app skipn sumZ]; [lia|]. rewrite !skipn_nil. cbn [sumZ]. lia.
  - destruct n as [|n]; cbn [app skipn].
    + cbn [sumZ]. rewrite !sumZ_app. cbn [sumZ]. lia.
    + apply IH.
Qed.

Lemma tailsum_add_last l k l' : 0 <= k -> add_last l k = Ok l' ->
  forall n, tailsum n l' <= tailsum n l + k.
Proof.
  intros Hk H n. destruct (add_last_inv _ _ _ H) as (init & y & -> & ->).
  apply tailsum_snoc_add. exact Hk.
Qed.

Lemma mort_list_length rate : forall k first m, length (mort_list rate k first m) = length m.
Proof.
  induction k as [|k IH]; intros first [|x r]; cbn [mort_list length]; try reflexivity.
  rewrite IH. reflexivity.
Qed.

Lemma mort_list_pointwise rate : (0 <= rate <= 1)%Q -> forall k first m,
  nonneg m -> pointwise_le (mort_list rate k first m) m.
Proof.
  intros Hrate. induction k as [|k IH]; intros first m Hm.
  - cbn [mort_list]. apply pointwise_le_refl. exact Hm.
  - destruct m as [|x r]; cbn [mort_list]; [constructor|].
    apply nonneg_cons in Hm as [Hx Hr].
    pose proof (rate_share_bounds rate x Hrate Hx) as Hb.
    constructor; [destruct first; lia | apply IH; exact Hr].
Qed.

Lemma mort_list_nth rate : forall k first m j,
  nth j (mort_list rate k first m) 0 =
  if (j <? k)%nat then
    (if first && (j =? 0)%nat then 0 else nth j m 0 - qfloor (rate * zq (nth j m 0)))
  else nth j m 0.
Proof.
  induction k as [|k IH]; intros first m j.
  - cbn [mort_list]. destruct (j <? 0)%nat eqn:E; [lia | reflexivity].
  - destruct m as [|x r].
    + cbn [mort_list]. assert (Hn : nth j (@nil Z) 0 = 0) by (destruct j; reflexivity).
      rewrite Hn, rate_share_zero.
      destruct (j <? S k)%nat; [destruct (first && (j =? 0)%nat)|]; reflexivity.
    + cbn [mort_list]. destruct j as [|j]; cbn [nth].
      * destruct (0 <? S k)%nat eqn:E; [|lia]. destruct first; reflexivity.
      * rewrite IH. rewrite andb_false_r.
        replace (S j <? S k)%nat with (j <? k)%nat
          by (destruct (j <? k)%nat eqn:A; destruct (S j <? S k)%nat eqn:B; lia).
        cbn [andb]. reflexivity.
Qed.

(* ------------------------------------------------------------------ *)
(* the loop in closed form, assuming only non-negative cohorts          *)
(* ------------------------------------------------------------------ *)

Lemma mortality_loop_closed rate : (0 <= rate <= 1)%Q ->
  forall k index m i th d m' i' th' d',
  nonneg m -> 0 <= i -> 0 <= index ->
  mortality_loop k index rate m i th d = Ok (m', i', th', d') ->
  m' = mort_list rate k (index =? 0) m /\ 0 <= i' /\ i - i' = d' - d /\
  sumZ m - sumZ m' = d' - d.
Proof.
  intros Hrate. induction k as [|k IH]; intros index m i th d m' i' th' d' Hm Hi Hidx H.
  - cbn [mortality_loop] in H. injection H as <- <- <- <-. cbn [mort_list].
    split; [reflexivity|]. split; [lia|]. split; lia.
  - destruct m as [|x r].
    + cbn [mortality_loop] in H. injection H as <- <- <- <-. cbn [mort_list].
      split; [reflexivity|]. split; [lia|]. split; lia.
    + apply nonneg_cons in Hm as [Hx Hr]. cbn [mortality_loop] in H.
      assert (Hidx1 : 0 <= index + 1) by lia.
      assert (Hne : (index + 1 =? 0) = false) by lia.
      destruct (x >? 0) eqn:EX.
      * remember (if index =? 0 then x else qfloor (rate * zq x)) as dead eqn:Edead.
        assert (Hdead : 0 <= dead <= x).
        { subst dead. destruct (index =? 0); [lia | apply rate_share_bounds; [exact Hrate | exact Hx]]. }
        destruct (dead >? i) eqn:E1; [discriminate|].
        destruct (dead >? th) eqn:E2; [discriminate|].
        assert (Hi' : (if i >? 0 then i - dead else i) = i - dead)
          by (destruct (i >? 0) eqn:E3; lia).
        rewrite Hi' in H. clear Hi'.
        remember (if th >? 0 then th - dead else th) as th1 eqn:Eth1.
        destruct (mortality_loop k (index + 1) rate r (i - dead) th1 (d + dead))
          as [[[[r' i''] th''] d'']|e] eqn:EL; cbn [bind] in H; [|discriminate].
        injection H as <- <- <- <-.
        assert (Hi2 : 0 <= i - dead) by lia.
        destruct (IH _ _ _ _ _ _ _ _ _ Hr Hi2 Hidx1 EL) as (Hm' & Hi0 & Hd & Hs).
        rewrite Hne in Hm'. cbn [mort_list sumZ].
        split; [|split; [lia | split; lia]].
        rewrite Hm'. subst dead. destruct (index =? 0); f_equal; lia.
      * assert (x = 0) by lia. subst x.
        destruct (mortality_loop k (index + 1) rate r i th d)
          as [[[[r' i''] th''] d'']|e] eqn:EL; cbn [bind] in H; [|discriminate].
        injection H as <- <- <- <-.
        destruct (IH _ _ _ _ _ _ _ _ _ Hr Hi Hidx1 EL) as (Hm' & Hi0 & Hd & Hs).
        rewrite Hne in Hm'. cbn [mort_list sumZ].
        split; [|split; [lia | split; lia]].
        rewrite Hm'. rewrite rate_share_zero. destruct (index =? 0); reflexivity.
Qed.

Lemma apply_mortality_closed c rate lag c' : nonneg (cM c) -> 0 <= cI c ->
  (0 < rate <= 1)%Q -> apply_mortality c rate lag = Ok c' ->
  cM c' = mort_list rate (Z.to_nat (Z.of_nat (length (cM c)) - lag)) true (cM c) /\
  0 <= cI c' /\ cI c - cI c' = cD c' - cD c /\ sumZ (cM c) - sumZ (cM c') = cD c' - cD c /\
  cS c' = cS c /\ cE c' = cE c /\ cR c' = cR c /\ cTE c' = cTE c.
Proof.
  intros HM HI [Hr0 Hr1] H. unfold apply_mortality in H.
  destruct (Qle_bool rate 0) eqn:ER; [apply Qle_bool_iff in ER; lra|].
  destruct (lag <? 0) eqn:EL; [discriminate|].
  destruct (mortality_loop _ 0 rate (cM c) (cI c) (cTH c) (cD c))
    as [[[[m' i'] th'] d']|e] eqn:EM; cbn [bind] in H; [|discriminate].
  injection H as <-. cellsimpl.
  assert (Hrate : (0 <= rate <= 1)%Q) by (split; lra).
  destruct (mortality_loop_closed rate Hrate _ _ _ _ _ _ _ _ _ _ HM HI (Z.le_refl 0) EM)
    as (Hm' & Hi0 & Hd & Hs).
  change (0 =? 0) with true in Hm'.
  split; [exact Hm'|]. split; [exact Hi0|]. split; [exact Hd|]. split; [exact Hs|].
  split; [reflexivity|]. split; [reflexivity|]. split; reflexivity.
Qed.

(* ------------------------------------------------------------------ *)
(* 1. infect                                                           *)
(* ------------------------------------------------------------------ *)

Lemma infect_spec k c c' : Inv0 c -> InvM c -> 0 <= k <= cS c -> infect k c = Ok c' ->
  Inv0 c' /\ InvM c' /\ hq c' = hq c /\ cI c' = cI c + k /\ length (cM c') = length (cM c).
Proof.
  intros HInv HMm Hk H. unfold infect in H.
  destruct (add_last (cM c) k) as [m'|e] eqn:EA; cbn [bind] in H; [|discriminate].
  injection H as <-.
  destruct (add_last_sum _ _ _ EA) as [Hsum Hlen].
  unfold Inv0, InvM, hq, hosts in *. inv0_destruct HInv. cellsimpl.
  assert (Hnn : nonneg m') by (apply (add_last_nonneg (cM c) k m' HM); [lia | exact EA]).
  split; [repeat (split; [first [assumption | lia]|]); lia|].
  split; [lia|]. split; [lia|]. split; [reflexivity | exact Hlen].
Qed.

Lemma infect_ok k c : cM c <> [] -> exists c', infect k c = Ok c'.
Proof.
  intros H. unfold infect. destruct (add_last_ok (cM c) k H) as [m' ->]. cbn [bind].
  eexists; reflexivity.
Qed.

(* the same with the weak invariant only (no bound tying k to susceptible) *)
Lemma infect_weak k c c' : nonneg (cM c) -> cI c = sumZ (cM c) -> 0 <= k ->
  infect k c = Ok c' ->
  nonneg (cM c') /\ cI c' = sumZ (cM c') /\ length (cM c') = length (cM c) /\
  cI c' = cI c + k /\ cD c' = cD c /\
  (forall n, tailsum n (cM c') <= tailsum n (cM c) + k).
Proof.
  intros HM HI Hk H. unfold infect in H.
  destruct (add_last (cM c) k) as [m'|e] eqn:EA; cbn [bind] in H; [|discriminate].
  injection H as <-. cellsimpl.
  destruct (add_last_sum _ _ _ EA) as [Hsum Hlen].
  split; [apply (add_last_nonneg (cM c) k m' HM Hk EA)|].
  split; [lia|]. split; [exact Hlen|]. split; [reflexivity|]. split; [reflexivity|].
  apply tailsum_add_last; assumption.
Qed.

(* ------------------------------------------------------------------ *)
(* 2. one mortality action                                             *)
(* ------------------------------------------------------------------ *)

Lemma mort_action_spec rate lag c : Inv0 c -> InvM c -> (0 < rate <= 1)%Q ->
  0 <= lag < Z.of_nat (length (cM c)) ->
  exists c', mort_action rate lag c = Ok c' /\ Inv0 c' /\ InvM c' /\ hq c' = hq c /\
    length (cM c') = length (cM c) /\
    cM c' = rotate_left (mort_list rate (Z.to_nat (Z.of_nat (length (cM c)) - lag)) true (cM c)).
Proof.
  intros HInv HMm Hrate Hlag.
  assert (Hrate' : (0 <= rate <= 1)%Q) by (destruct Hrate; split; lra).
  destruct (apply_mortality_full c rate lag HInv (InvM_InvLe _ HMm) Hrate' ltac:(lia))
    as (c2 & H2 & G1 & Ghq & _ & GM & _ & _ & _ & _ & _ & Glen & _).
  unfold mort_action. rewrite H2. cbn [bind]. exists (rotate_mortality c2).
  destruct (rotate_mortality_spec c2 G1) as (K1 & Khq & KM & _ & KcM).
  assert (HM : nonneg (cM c)) by (unfold Inv0 in HInv; tauto).
  assert (HI : 0 <= cI c) by (unfold Inv0 in HInv; tauto).
  destruct (apply_mortality_closed c rate lag c2 HM HI Hrate H2) as (Hcl & _).
  split; [reflexivity|]. split; [exact K1|]. split; [apply KM, GM, HMm|].
  split; [lia|]. split; [rewrite KcM, rotate_left_length; exact Glen|].
  rewrite KcM, Hcl. reflexivity.
Qed.

(* cohort by cohort: position 0 of the list before ageing is emptied, positions
   0 < j < length - lag lose floor (rate * x), the last lag positions are untouched *)
Lemma mort_action_cohorts rate lag c c' : Inv0 c -> InvM c -> (0 < rate <= 1)%Q ->
  0 <= lag < Z.of_nat (length (cM c)) -> mort_action rate lag c = Ok c' ->
  exists m2, cM c' = rotate_left m2 /\ length m2 = length (cM c) /\
    nth 0 m2 0 = 0 /\
    (forall j, (0 < j < Z.to_nat (Z.of_nat (length (cM c)) - lag))%nat ->
       nth j m2 0 = nth j (cM c) 0 - qfloor (rate * zq (nth j (cM c) 0))) /\
    (forall j, (Z.to_nat (Z.of_nat (length (cM c)) - lag) <= j)%nat ->
       nth j m2 0 = nth j (cM c) 0).
Proof.
  intros HInv HMm Hrate Hlag H.
  destruct (mort_action_spec rate lag c HInv HMm Hrate Hlag) as (c'' & H' & _ & _ & _ & _ & Hcl).
  rewrite H in H'. injection H' as <-.
  eexists. split; [exact Hcl|]. split; [apply mort_list_length|].
  split; [|split].
  - rewrite mort_list_nth.
    destruct (0 <? Z.to_nat (Z.of_nat (length (cM c)) - lag))%nat eqn:E; [reflexivity | lia].
  - intros j Hj. rewrite mort_list_nth.
    destruct (j <? Z.to_nat (Z.of_nat (length (cM c)) - lag))%nat eqn:E; [|lia].
    destruct (j =? 0)%nat eqn:E0; [lia|]. reflexivity.
  - intros j Hj. rewrite mort_list_nth.
    destruct (j <? Z.to_nat (Z.of_nat (length (cM c)) - lag))%nat eqn:E; [lia | reflexivity].
Qed.

Lemma mort_action_weak rate lag c c' : nonneg (cM c) -> cI c = sumZ (cM c) ->
  (0 < rate <= 1)%Q -> 0 <= lag < Z.of_nat (length (cM c)) ->
  mort_action rate lag c = Ok c' ->
  nonneg (cM c') /\ cI c' = sumZ (cM c') /\ length (cM c') = length (cM c) /\
  cD c' - cD c = cI c - cI c' /\ 0 <= cD c' - cD c /\
  (forall n, tailsum n (cM c') <= tailsum (S n) (cM c)).
Proof.
  intros HM HI Hrate Hlag H. unfold mort_action in H.
  destruct (apply_mortality c rate lag) as [c2|e] eqn:E2; cbn [bind] in H; [|discriminate].
  injection H as <-.
  assert (HI0 : 0 <= cI c) by (pose proof (sumZ_nonneg _ HM); lia).
  destruct (apply_mortality_closed c rate lag c2 HM HI0 Hrate E2)
    as (Hcl & Hi0 & Hd & Hs & _).
  assert (Hrate' : (0 <= rate <= 1)%Q) by (destruct Hrate; split; lra).
  unfold rotate_mortality. cellsimpl. rewrite Hcl in *.
  pose proof (mort_list_pointwise rate Hrate' (Z.to_nat (Z.of_nat (length (cM c)) - lag)) true
                (cM c) HM) as Hpw.
  pose proof (pointwise_le_nonneg_l _ _ Hpw) as Hnn.
  split; [apply rotate_left_nonneg; exact Hnn|].
  split; [rewrite rotate_left_sum; lia|].
  split; [rewrite rotate_left_length; apply mort_list_length|].
  split; [lia|].
  split; [pose proof (pointwise_le_sum _ _ Hpw); lia|].
  intros n.
  destruct (cM c) as [|x t] eqn:EM; [cbn [length] in Hlag; lia|].
  destruct (Z.to_nat (Z.of_nat (length (x :: t)) - lag)) as [|n'] eqn:En; [lia|].
  cbn [mort_list] in *. cbn [rotate_left]. rewrite tailsum_snoc0, tailsum_cons.
  apply tailsum_pointwise.
  inversion Hpw as [|a b l1 l2 Hab Hrest]; subst. exact Hrest.
Qed.

(* ------------------------------------------------------------------ *)
(* 3. eventual death                                                   *)
(* ------------------------------------------------------------------ *)

(* General form: after the actions ks, what is still infected sits in the
   cohorts that were beyond position (length ks) at the start or entered
   later; everything else died.  Only the weak invariant (cohorts non-negative
   and summing to infected) is assumed - nothing ties the new infections to
   the susceptible count, and Inv0 is not needed. *)
Lemma run_mort_gen rate lag : (0 < rate <= 1)%Q -> forall ks c c',
  nonneg (cM c) -> cI c = sumZ (cM c) -> 0 <= lag < Z.of_nat (length (cM c)) ->
  Forall (fun k => 0 <= k) ks -> run_mort rate lag ks c = Ok c' ->
  nonneg (cM c') /\ cI c' = sumZ (cM c') /\ length (cM c') = length (cM c) /\
  cI c' <= tailsum (length ks) (cM c) + sumZ ks /\
  cD c' - cD c = cI c + sumZ ks - cI c'.
Proof.
  intros Hrate. induction ks as [|k r IH]; intros c c' HM HI Hlag Hks H.
  - cbn [run_mort] in H. injection H as <-. cbn [length sumZ]. unfold tailsum. cbn [skipn].
    split; [exact HM|]. split; [exact HI|]. split; [reflexivity|]. split; lia.
  - apply Forall_cons_iff in Hks as [Hk Hr]. cbn [run_mort] in H.
    destruct (infect k c) as [c1|e] eqn:E1; cbn [bind] in H; [|discriminate].
    destruct (mort_action rate lag c1) as [c3|e] eqn:E3; cbn [bind] in H; [|discriminate].
    destruct (infect_weak k c c1 HM HI Hk E1) as (HM1 & HI1 & Hl1 & Hi1 & Hd1 & Ht1).
    assert (Hlag1 : 0 <= lag < Z.of_nat (length (cM c1))) by (rewrite Hl1; exact Hlag).
    destruct (mort_action_weak rate lag c1 c3 HM1 HI1 Hrate Hlag1 E3)
      as (HM3 & HI3 & Hl3 & Hd3 & Hpos3 & Ht3).
    assert (Hlag3 : 0 <= lag < Z.of_nat (length (cM c3))) by (rewrite Hl3; exact Hlag1).
    destruct (IH c3 c' HM3 HI3 Hlag3 Hr H) as (HM' & HI' & Hl' & Hle' & Hd').
    cbn [length sumZ].
    pose proof (Ht3 (length r)) as A. pose proof (Ht1 (S (length r))) as B.
    split; [exact HM'|]. split; [exact HI'|]. split; [lia|]. split; lia.
Qed.

Theorem eventual_death_weak rate lag ks c c' :
  nonneg (cM c) -> cI c = sumZ (cM c) -> (0 < rate <= 1)%Q ->
  0 <= lag < Z.of_nat (length (cM c)) -> length ks = length (cM c) ->
  Forall (fun k => 0 <= k) ks -> run_mort rate lag ks c = Ok c' ->
  cI c' <= sumZ ks /\ cI c <= cD c' - cD c.
Proof.
  intros HM HI Hrate Hlag Hlen Hks H.
  destruct (run_mort_gen rate lag Hrate ks c c' HM HI Hlag Hks H) as (_ & _ & _ & Hle & Hd).
  rewrite tailsum_all in Hle by lia. lia.
Qed.

Theorem eventual_death rate lag ks c c' : Inv0 c -> InvM c -> (0 < rate <= 1)%Q ->
  0 <= lag < Z.of_nat (length (cM c)) -> length ks = length (cM c) ->
  Forall (fun k => 0 <= k) ks -> run_mort rate lag ks c = Ok c' ->
  cI c' <= sumZ ks /\ cI c <= cD c' - cD c.
Proof.
  intros HInv HMm. apply eventual_death_weak.
  - unfold Inv0 in HInv. tauto.
  - exact HMm.
Qed.

(* the run does not get stuck when every batch of new infections fits into
   the susceptible hosts present at that moment *)
Lemma run_mort_step_ok rate lag k c : Inv0 c -> InvM c -> (0 < rate <= 1)%Q ->
  0 <= lag < Z.of_nat (length (cM c)) -> 0 <= k <= cS c ->
  exists c1 c2, infect k c = Ok c1 /\ mort_action rate lag c1 = Ok c2 /\
    Inv0 c2 /\ InvM c2 /\ hq c2 = hq c /\ length (cM c2) = length (cM c) /\ cS c2 = cS c - k.
Proof.
  intros HInv HMm Hrate Hlag Hk.
  assert (Hne : cM c <> []) by (destruct (cM c); [cbn [length] in Hlag; lia | discriminate]).
  destruct (infect_ok k c Hne) as [c1 E1].
  destruct (infect_spec k c c1 HInv HMm Hk E1) as (G1 & GM1 & Ghq1 & _ & Gl1).
  assert (Hlag1 : 0 <= lag < Z.of_nat (length (cM c1))) by (rewrite Gl1; exact Hlag).
  destruct (mort_action_spec rate lag c1 G1 GM1 Hrate Hlag1) as (c2 & E2 & G2 & GM2 & Ghq2 & Gl2 & _).
  exists c1, c2. split; [exact E1|]. split; [exact E2|]. split; [exact G2|]. split; [exact GM2|].
  split; [lia|]. split; [lia|].
  unfold mort_action in E2.
  destruct (apply_mortality c1 rate lag) as [c1'|e] eqn:EA; cbn [bind] in E2; [|discriminate].
  injection E2 as <-.
  assert (Hrate' : (0 <= rate <= 1)%Q) by (destruct Hrate; split; lra).
  destruct (apply_mortality_Inv0 c1 rate lag c1' G1 Hrate' ltac:(lia) EA) as (_ & _ & HS & _).
  unfold rotate_mortality. cellsimpl. rewrite HS.
  unfold infect in E1.
  destruct (add_last (cM c) k) as [m'|e] eqn:EL; cbn [bind] in E1; [|discriminate].
  injection E1 as <-. reflexivity.
Qed.

(* ------------------------------------------------------------------ *)
(* 4. rate 0: nobody dies                                              *)
(* ------------------------------------------------------------------ *)

Lemma no_death_rate0 rate lag c : (rate <= 0)%Q ->
  mort_action rate lag c = Ok (rotate_mortality c).
Proof.
  intros H. unfold mort_action. rewrite (apply_mortality_rate0 c rate lag H). reflexivity.
Qed.

Lemma no_death_rate0_unchanged rate lag c c' : (rate <= 0)%Q ->
  mort_action rate lag c = Ok c' ->
  cD c' = cD c /\ cI c' = cI c /\ cM c' = rotate_left (cM c) /\ cTH c' = cTH c.
Proof.
  intros H E. rewrite (no_death_rate0 rate lag c H) in E. injection E as <-.
  split; [reflexivity|]. split; [reflexivity|]. split; reflexivity.
Qed.

(* ------------------------------------------------------------------ *)
(* 5. the numbers on an example                                        *)
(* ------------------------------------------------------------------ *)

(* rate 1/2, lag 1, cohorts [3;2;4] (9 infected), new infections 1, 0, 2:
   round 1: [3;2;5] -> deaths 3+1 -> [0;1;5] -> aged [1;5;0]
   round 2: [1;5;0] -> deaths 1+2 -> [0;3;0] -> aged [3;0;0]
   round 3: [3;0;2] -> deaths 3   -> [0;0;2] -> aged [0;2;0]
   10 died (>= the 9 initially infected), 2 still infected (<= 3 infected later) *)
Example eventual_death_example :
  let c := mkcell 10 [] 9 0 0 [3; 2; 4] 0 19 in
  Inv0 c /\ InvM c /\
  run_mort (1 # 2) 1 [1; 0; 2] c = Ok (mkcell 7 [] 2 0 0 [0; 2; 0] 10 9).
Proof.
  split; [|split; [reflexivity | vm_compute; reflexivity]].
  unfold Inv0, nonneg. cbn.
  repeat split; try lia; repeat constructor; lia.
Qed.
