(* C09  A model step runs exactly the enabled, scheduled actions in the
   documented order.  Statements only; proofs in ModelProps.v.  The model of
   Model::run_step is ModelDefs.v; it is tied to model.hpp by comparing, for
   generated configurations, the trace of actions and the state after every
   single action with the implementation (bin/check C09). *)
From Coq Require Import ZArith QArith List Sorting.Sorted.
From Pops Require Import Err Rounding CellDefs LandDefs SchedDefs SchedProps ModelDefs ModelProps.
Import ListNotations.
Local Open Scope Z_scope.

(* The actions of a step are exactly the documented list - soil ageing,
   lethal temperature, survival rate, generation, dispersal, latency
   progression, overpopulation movement, host movement, treatments, mortality,
   spread rate, quarantine - filtered by "enabled and scheduled", each with the
   index of the firing it corresponds to. *)
Theorem C09_plan_is_documented : forall m hs step p,
  plan m hs step = Ok p -> p = build (documented m hs step).
Proof. exact plan_is_documented. Qed.
Print Assumptions C09_plan_is_documented.

Theorem C09_order : forall m hs step p, plan m hs step = Ok p -> StronglySorted before p.
Proof. exact plan_order. Qed.
Print Assumptions C09_order.

(* each action runs iff it is enabled and its schedule marks the step, and uses
   the input whose index is the number of earlier firings *)
Theorem C09_runs_iff : forall m hs step p, plan m hs step = Ok p ->
  let spread := marks (m_spread_schedule m) step in
  (forall k, In (ASoil, k) p <-> hs = true /\ k = step) /\
  (forall k, In (ALethal, k) p <->
     fires (m_use_lethal m) (m_lethal_schedule m) step = true /\ k = firings_before (m_lethal_schedule m) step) /\
  (forall k, In (ASurvival, k) p <->
     fires (m_use_survival m) (m_survival_schedule m) step = true /\ k = firings_before (m_survival_schedule m) step) /\
  (forall k, In (AGenerate, k) p <-> spread = true /\ k = step) /\
  (forall k, In (ADisperse, k) p <-> spread = true /\ k = step) /\
  (forall k, In (AStepForward, k) p <-> spread = true /\ k = step) /\
  (forall k, In (AOverpop, k) p <-> (spread && m_use_overpop m)%bool = true /\ k = step) /\
  (forall k, In (AMovement, k) p <-> (spread && m_use_movements m)%bool = true /\ k = step) /\
  (forall k, In (ATreatments, k) p <-> m_use_treatments m = true /\ k = step) /\
  (forall k, In (AMortality, k) p <->
     fires (m_use_mortality m) (m_mortality_schedule m) step = true /\ k = step) /\
  (forall k, In (ASpreadRate, k) p <->
     fires (m_use_spreadrates m) (m_spread_rate_schedule m) step = true /\ k = firings_before (m_spread_rate_schedule m) step) /\
  (forall k, In (AQuarantine, k) p <->
     fires (m_use_quarantine m) (m_quarantine_schedule m) step = true /\ k = firings_before (m_quarantine_schedule m) step).
Proof. exact runs_iff. Qed.
Print Assumptions C09_runs_iff.

(* The state a step produces is the state produced by applying its actions
   one by one (same tape of random outcomes), including the error case. *)
Theorem C09_step_is_composition : forall m inp step w t p, plan m (has_soil w) step = Ok p ->
  match fst (run_step m inp step w t) with
  | Ok (_, w', t') => compose m inp step p w t = Ok (tt, w', t')
  | Err e => compose m inp step p w t = Err e
  end.
Proof. exact run_step_is_composition. Qed.
Print Assumptions C09_step_is_composition.

(* inputs of disabled features have no influence on the result *)
Theorem C09_non_interference : forall m a b step w t, same_enabled_inputs m a b ->
  run_step m a step w t = run_step m b step w t.
Proof. exact non_interference. Qed.
Print Assumptions C09_non_interference.

(* Both entry points agree when the scenario has no pest-host table, no
   competency table, no treatments and no room for spread rates... *)
Theorem C09_entry_points_agree : forall m inp step w t, raster_compatible m inp ->
  run_step_rasters m inp step w t = run_step m inp step w t.
Proof. exact entry_points_agree. Qed.
Print Assumptions C09_entry_points_agree.

(* ...and the clause is refuted for the raster entry point in general: a
   scheduled mortality step ends in invalid_argument and a scheduled spread-rate
   step in out_of_range although the pools entry point runs them (known
   findings C09-raster-entry-*; witnesses evaluated by the kernel). *)
Theorem C09_entry_points_agree_refuted_mortality :
  (exists tr w', fst (run_step (tiny_model true false) tiny_inputs 0 tiny_world []) = Ok (tr, w', [])) /\
  fst (run_step_rasters (tiny_model true false) tiny_inputs 0 tiny_world []) = Err InvalidArgument.
Proof. exact raster_entry_mortality_refuted. Qed.
Print Assumptions C09_entry_points_agree_refuted_mortality.

Theorem C09_entry_points_agree_refuted_spread_rate :
  (exists tr w', fst (run_step (tiny_model false true) tiny_inputs 0 tiny_world []) = Ok (tr, w', [])) /\
  fst (run_step_rasters (tiny_model false true) tiny_inputs 0 tiny_world []) = Err OutOfRange.
Proof. exact raster_entry_spread_rate_refuted. Qed.
Print Assumptions C09_entry_points_agree_refuted_spread_rate.

(* Non-vacuity: a plan with every kind of action. *)
Example C09_nonvacuous :
  plan (mkmodelcfg tiny_cfg true [false; true] true [true; true] [true; true] true true true
                   true [false; true] true [true; true] true [false; true] 2) true 1
  = Ok [(ASoil, 1); (ALethal, 0); (ASurvival, 1); (AGenerate, 1); (ADisperse, 1); (AStepForward, 1);
        (AOverpop, 1); (AMovement, 1); (ATreatments, 1); (AMortality, 1); (ASpreadRate, 1); (AQuarantine, 0)].
Proof. vm_compute. reflexivity. Qed.
Print Assumptions C09_nonvacuous.
