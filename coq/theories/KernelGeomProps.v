(* Kernels engine (C13), geometry: lemmas about rounding, the offset
   statements, the direction table and the von Mises sampler as translated. *)
From Coq Require Import ZArith Reals String List Bool Lra Lia.
From Pops Require Import Err KernelTypesDefs GeneratedKernelTables KernelGeomDefs.
Import ListNotations.
Local Open Scope R_scope.

(* ---------- floor, lround ---------- *)
Lemma Rfloor_spec x : IZR (Rfloor x) <= x < IZR (Rfloor x) + 1.
Proof.
  unfold Rfloor. rewrite minus_IZR. destruct (archimed x) as [Ha Hb]. simpl. lra.
Qed.

Lemma Rfloor_unique n x : IZR n <= x < IZR n + 1 -> Rfloor x = n.
Proof.
  intros Hn. destruct (Rfloor_spec x) as [Ha Hb].
  assert (H1 : (Rfloor x < n + 1)%Z) by (apply lt_IZR; rewrite plus_IZR; simpl; lra).
  assert (H2 : (n < Rfloor x + 1)%Z) by (apply lt_IZR; rewrite plus_IZR; simpl; lra).
  lia.
Qed.

Lemma Rfloor_IZR n : Rfloor (IZR n) = n.
Proof. apply Rfloor_unique. lra. Qed.

Lemma Rlround_0 : Rlround 0 = 0%Z.
Proof.
  unfold Rlround. destruct (Rle_dec 0 0) as [_|N]; [|lra].
  apply Rfloor_unique. simpl. lra.
Qed.

Lemma Rlround_opp x : Rlround (- x) = (- Rlround x)%Z.
Proof.
  unfold Rlround.
  destruct (Rle_dec 0 x) as [Hx|Hx]; destruct (Rle_dec 0 (- x)) as [Hy|Hy].
  - assert (x = 0) by lra. subst x. rewrite Ropp_0.
    replace (0 + / 2) with (/ 2) by lra.
    rewrite (Rfloor_unique 0 (/ 2)) by (simpl; lra). reflexivity.
  - rewrite Ropp_involutive. reflexivity.
  - rewrite Z.opp_involutive. reflexivity.
  - lra.
Qed.

Lemma Rlround_err x : Rabs (IZR (Rlround x) - x) <= / 2.
Proof.
  unfold Rlround. destruct (Rle_dec 0 x) as [Hx|Hx].
  - destruct (Rfloor_spec (x + / 2)). apply Rabs_le. lra.
  - destruct (Rfloor_spec (- x + / 2)). rewrite opp_IZR. apply Rabs_le. lra.
Qed.

Lemma Rlround_nonneg x : 0 <= x -> (0 <= Rlround x)%Z.
Proof.
  intros Hx. unfold Rlround. destruct (Rle_dec 0 x) as [_|N]; [|lra].
  destruct (Rfloor_spec (x + / 2)) as [_ Hb].
  apply le_IZR. simpl.
  assert (H : (-1 < Rfloor (x + / 2))%Z) by (apply lt_IZR; simpl; lra).
  apply IZR_le. lia.
Qed.

Lemma Rlround_nonpos x : x <= 0 -> (Rlround x <= 0)%Z.
Proof.
  intros Hx. replace x with (- - x) by lra. rewrite Rlround_opp.
  assert (0 <= Rlround (- x))%Z by (apply Rlround_nonneg; lra). lia.
Qed.

Lemma Rlround_IZR n : Rlround (IZR n) = n.
Proof.
  unfold Rlround. destruct (Rle_dec 0 (IZR n)) as [Hx|Hx].
  - apply Rfloor_unique. lra.
  - rewrite (Rfloor_unique (- n) (- IZR n + / 2)); [lia|]. rewrite opp_IZR. lra.
Qed.

(* lround is monotone *)
Lemma Rfloor_mono x y : x <= y -> (Rfloor x <= Rfloor y)%Z.
Proof.
  intros H. destruct (Rfloor_spec x), (Rfloor_spec y).
  assert (Rfloor x < Rfloor y + 1)%Z by (apply lt_IZR; rewrite plus_IZR; simpl; lra). lia.
Qed.

Lemma Rlround_mono x y : x <= y -> (Rlround x <= Rlround y)%Z.
Proof.
  intros H. destruct (Rle_dec 0 x) as [Hx|Hx].
  - unfold Rlround. destruct (Rle_dec 0 x); [|lra]. destruct (Rle_dec 0 y); [|lra].
    apply Rfloor_mono. lra.
  - destruct (Rle_dec 0 y) as [Hy|Hy].
    + assert (Rlround x <= 0)%Z by (apply Rlround_nonpos; lra).
      assert (0 <= Rlround y)%Z by (apply Rlround_nonneg; lra). lia.
    + unfold Rlround. destruct (Rle_dec 0 x); [lra|]. destruct (Rle_dec 0 y); [lra|].
      assert (Rfloor (- y + / 2) <= Rfloor (- x + / 2))%Z by (apply Rfloor_mono; lra). lia.
Qed.

(* ---------- the direction table ---------- *)
Lemma sqrt2_pos : 0 < sqrt 2.
Proof. apply sqrt_lt_R0. lra. Qed.

Lemma mu_is_degrees d : radial_vm_mu d = IZR (direction_value d) * PI / 180.
Proof. reflexivity. Qed.

Lemma direction_value_compass d deg : compass_degrees d = Some deg -> direction_value d = deg.
Proof. destruct d; simpl; intros H; inversion H; reflexivity. Qed.

Lemma cos_sin_7PI4 : cos (7 * (PI / 4)) = / sqrt 2 /\ sin (7 * (PI / 4)) = - / sqrt 2.
Proof.
  replace (7 * (PI / 4)) with (2 * PI - PI / 4) by lra.
  rewrite cos_minus, sin_minus, cos_2PI, sin_2PI, cos_PI4, sin_PI4.
  pose proof sqrt2_pos. split; field; lra.
Qed.

Lemma direction_cos_sin d : d <> DirNone ->
  cos (radial_vm_mu d) = fst (compass_cos_sin d) /\ sin (radial_vm_mu d) = snd (compass_cos_sin d).
Proof.
  intros Hd. pose proof sqrt2_pos as Hs. unfold radial_vm_mu.
  destruct d; simpl direction_value; simpl compass_cos_sin; simpl fst; simpl snd.
  - replace (0 * PI / 180) with 0 by lra. rewrite cos_0, sin_0. split; reflexivity.
  - replace (45 * PI / 180) with (PI / 4) by lra. rewrite cos_PI4, sin_PI4. split; field; lra.
  - replace (90 * PI / 180) with (PI / 2) by lra. rewrite cos_PI2, sin_PI2. split; reflexivity.
  - replace (135 * PI / 180) with (3 * (PI / 4)) by lra. rewrite cos3PI4, sin3PI4. split; field; lra.
  - replace (180 * PI / 180) with PI by lra. rewrite cos_PI, sin_PI. split; reflexivity.
  - replace (225 * PI / 180) with (5 * (PI / 4)) by lra. rewrite cos_5PI4, sin_5PI4. split; field; lra.
  - replace (270 * PI / 180) with (3 * (PI / 2)) by lra. rewrite cos_3PI2, sin_3PI2. split; reflexivity.
  - replace (315 * PI / 180) with (7 * (PI / 4)) by lra. destruct cos_sin_7PI4 as [Hc Hn]. rewrite Hc, Hn. split; reflexivity.
  - congruence.
Qed.

Lemma kappa_of_direction d k :
  (d = DirNone -> radial_vm_kappa d k = 0) /\ (d <> DirNone -> radial_vm_kappa d k = k).
Proof. split; intros H; destruct d; try reflexivity; congruence. Qed.

(* ---------- the offset statements ---------- *)
Lemma Rabs_le_between' x y : Rabs x <= y -> - y <= x <= y.
Proof. unfold Rabs. destruct (Rcase_abs x); lra. Qed.

Lemma offset_formula ew ns row col d theta :
  radial_offset ew ns row col d theta =
  ((row - Rlround (d * cos theta / ns))%Z, (col + Rlround (d * sin theta / ew))%Z).
Proof. reflexivity. Qed.

(* Rows are scaled by the north-south, columns by the east-west resolution: the
   offset times the resolution is the map displacement up to half a cell. *)
Lemma offset_resolution ew ns row col d theta : 0 < ns -> 0 < ew ->
  let p := radial_offset ew ns row col d theta in
  Rabs (IZR (row - fst p) * ns - d * cos theta) <= ns / 2 /\
  Rabs (IZR (snd p - col) * ew - d * sin theta) <= ew / 2.
Proof.
  intros Hns Hew p. subst p. rewrite offset_formula. simpl fst; simpl snd.
  replace (row - (row - Rlround (d * cos theta / ns)))%Z with (Rlround (d * cos theta / ns)) by lia.
  replace (col + Rlround (d * sin theta / ew) - col)%Z with (Rlround (d * sin theta / ew)) by lia.
  assert (E1 : d * cos theta = d * cos theta / ns * ns) by (field; lra).
  assert (E2 : d * sin theta = d * sin theta / ew * ew) by (field; lra).
  pose proof (Rlround_err (d * cos theta / ns)) as H1.
  pose proof (Rlround_err (d * sin theta / ew)) as H2.
  apply Rabs_le_between' in H1. apply Rabs_le_between' in H2.
  set (t1 := d * cos theta / ns) in *. set (t2 := d * sin theta / ew) in *.
  set (l1 := IZR (Rlround t1)) in *. set (l2 := IZR (Rlround t2)) in *.
  split; apply Rabs_le.
  - rewrite E1. split; nra.
  - rewrite E2. split; nra.
Qed.

Lemma div_sign_nonneg a b : 0 <= a -> 0 < b -> 0 <= a / b.
Proof. intros. apply Rmult_le_pos; [lra|]. left. apply Rinv_0_lt_compat. lra. Qed.

Lemma div_sign_nonpos a b : a <= 0 -> 0 < b -> a / b <= 0.
Proof.
  intros. replace (a / b) with (- ((- a) / b)) by (field; lra).
  pose proof (div_sign_nonneg (- a) b). lra.
Qed.

(* Sign pattern: north (cos > 0) decreases the row, east (sin > 0) increases the column. *)
Lemma offset_signs ew ns row col d theta : 0 <= d -> 0 < ns -> 0 < ew ->
  let p := radial_offset ew ns row col d theta in
  (0 <= cos theta -> (fst p <= row)%Z) /\ (cos theta <= 0 -> (row <= fst p)%Z) /\
  (0 <= sin theta -> (col <= snd p)%Z) /\ (sin theta <= 0 -> (snd p <= col)%Z).
Proof.
  intros Hd Hns Hew p. subst p. rewrite offset_formula. simpl fst; simpl snd.
  repeat split; intros H.
  - assert (0 <= Rlround (d * cos theta / ns))%Z by (apply Rlround_nonneg, div_sign_nonneg; nra). lia.
  - assert (Rlround (d * cos theta / ns) <= 0)%Z by (apply Rlround_nonpos, div_sign_nonpos; nra). lia.
  - assert (0 <= Rlround (d * sin theta / ew))%Z by (apply Rlround_nonneg, div_sign_nonneg; nra). lia.
  - assert (Rlround (d * sin theta / ew) <= 0)%Z by (apply Rlround_nonpos, div_sign_nonpos; nra). lia.
Qed.

(* Offset along a named direction (angle exactly mu). *)
Lemma offset_direction ew ns row col d dir : dir <> DirNone ->
  radial_offset ew ns row col d (radial_vm_mu dir) =
  ((row - Rlround (d * fst (compass_cos_sin dir) / ns))%Z,
   (col + Rlround (d * snd (compass_cos_sin dir) / ew))%Z).
Proof.
  intros Hd. rewrite offset_formula. destruct (direction_cos_sin dir Hd) as [Hc Hs].
  rewrite Hc, Hs. reflexivity.
Qed.

Lemma offset_cardinal ew ns row col d :
  radial_offset ew ns row col d (radial_vm_mu DirN) = ((row - Rlround (d / ns))%Z, col) /\
  radial_offset ew ns row col d (radial_vm_mu DirE) = (row, (col + Rlround (d / ew))%Z) /\
  radial_offset ew ns row col d (radial_vm_mu DirS) = ((row + Rlround (d / ns))%Z, col) /\
  radial_offset ew ns row col d (radial_vm_mu DirW) = (row, (col - Rlround (d / ew))%Z).
Proof.
  repeat split; (rewrite offset_direction by discriminate); simpl fst; simpl snd.
  - replace (d * 1 / ns) with (d / ns) by (unfold Rdiv; ring).
    replace (d * 0 / ew) with 0 by (unfold Rdiv; ring). rewrite Rlround_0. f_equal. lia.
  - replace (d * 0 / ns) with 0 by (unfold Rdiv; ring).
    replace (d * 1 / ew) with (d / ew) by (unfold Rdiv; ring). rewrite Rlround_0. f_equal. lia.
  - replace (d * -1 / ns) with (- (d / ns)) by (unfold Rdiv; ring).
    replace (d * 0 / ew) with 0 by (unfold Rdiv; ring). rewrite Rlround_opp, Rlround_0. f_equal; lia.
  - replace (d * 0 / ns) with 0 by (unfold Rdiv; ring).
    replace (d * -1 / ew) with (- (d / ew)) by (unfold Rdiv; ring). rewrite Rlround_opp, Rlround_0. f_equal; lia.
Qed.

(* Diagonal directions: both components move by lround of d/sqrt 2 over the
   respective resolution, with the compass signs. *)
Lemma offset_diagonal ew ns row col d :
  let a := Rlround (d / sqrt 2 / ns) in let b := Rlround (d / sqrt 2 / ew) in
  radial_offset ew ns row col d (radial_vm_mu DirNE) = ((row - a)%Z, (col + b)%Z) /\
  radial_offset ew ns row col d (radial_vm_mu DirSE) = ((row + a)%Z, (col + b)%Z) /\
  radial_offset ew ns row col d (radial_vm_mu DirSW) = ((row + a)%Z, (col - b)%Z) /\
  radial_offset ew ns row col d (radial_vm_mu DirNW) = ((row - a)%Z, (col - b)%Z).
Proof.
  intros a b. subst a b.
  repeat split; (rewrite offset_direction by discriminate); simpl fst; simpl snd;
    repeat (replace (d * / sqrt 2 / ns) with (d / sqrt 2 / ns) by (unfold Rdiv; ring));
    repeat (replace (d * / sqrt 2 / ew) with (d / sqrt 2 / ew) by (unfold Rdiv; ring));
    repeat (replace (d * - / sqrt 2 / ns) with (- (d / sqrt 2 / ns)) by (unfold Rdiv; ring));
    repeat (replace (d * - / sqrt 2 / ew) with (- (d / sqrt 2 / ew)) by (unfold Rdiv; ring));
    rewrite ?Rlround_opp; f_equal; lia.
Qed.

(* The neighbour table agrees in sign with the radial geometry of the same direction. *)
Lemma neighbor_matches_radial_signs dir dr dc : compass dir = Some (dr, dc) ->
  (0 < cos (radial_vm_mu dir) <-> (dr < 0)%Z) /\ (cos (radial_vm_mu dir) < 0 <-> (0 < dr)%Z) /\
  (0 < sin (radial_vm_mu dir) <-> (0 < dc)%Z) /\ (sin (radial_vm_mu dir) < 0 <-> (dc < 0)%Z).
Proof.
  intros Hc. pose proof sqrt2_pos as Hs.
  assert (Hi : 0 < / sqrt 2) by (apply Rinv_0_lt_compat; lra).
  assert (Hd : dir <> DirNone) by (intros ->; discriminate).
  destruct (direction_cos_sin dir Hd) as [H1 H2]. rewrite H1, H2.
  destruct dir; simpl in Hc; inversion Hc; subst; simpl fst; simpl snd;
    repeat split; intros; try lra; try lia.
Qed.

(* ---------- von Mises sampler ---------- *)
Lemma Rb_le_true x y : Rb_le x y = true <-> x <= y.
Proof. unfold Rb_le. destruct (Rle_dec x y); split; intros; try lra; congruence. Qed.
Lemma Rb_lt_true x y : Rb_lt x y = true <-> x < y.
Proof. unfold Rb_lt. destruct (Rlt_dec x y); split; intros; try lra; congruence. Qed.
Lemma Rb_eq_true x y : Rb_eq x y = true <-> x = y.
Proof. unfold Rb_eq. destruct (Req_EM_T x y); split; intros; try lra; congruence. Qed.

Lemma vm_uniform_iff kappa : vm_is_uniform kappa = true <-> kappa <= 1 / 1000000.
Proof. unfold vm_is_uniform. apply Rb_le_true. Qed.

Lemma vm_angle_uniform mu kappa u0 u1 u3 : kappa <= 1 / 1000000 ->
  vm_angle mu kappa u0 u1 u3 = 2 * PI * u0.
Proof.
  intros H. unfold vm_angle. apply vm_uniform_iff in H. rewrite H. reflexivity.
Qed.

Lemma radial_angle_no_direction kappa_cfg u0 u1 u3 :
  radial_angle DirNone kappa_cfg u0 u1 u3 = 2 * PI * u0 /\
  (0 <= u0 < 1 -> 0 <= radial_angle DirNone kappa_cfg u0 u1 u3 < 2 * PI).
Proof.
  assert (E : radial_angle DirNone kappa_cfg u0 u1 u3 = 2 * PI * u0).
  { unfold radial_angle. apply vm_angle_uniform. unfold radial_vm_kappa, direction_is_none. lra. }
  split; [exact E|]. intros Hu. rewrite E. pose proof PI_RGT_0. nra.
Qed.

Lemma radial_angle_zero_kappa dir u0 u1 u3 :
  radial_angle dir 0 u0 u1 u3 = 2 * PI * u0.
Proof.
  unfold radial_angle. apply vm_angle_uniform.
  unfold radial_vm_kappa. destruct (direction_is_none dir); lra.
Qed.

Lemma vm_r_gt_1 kappa : 0 < kappa ->
  let a := vm_a kappa in let b := vm_b kappa a in 0 < b < 1 /\ 1 < vm_r kappa a b.
Proof.
  intros Hk a b.
  assert (Hs0 : 0 <= 1 + 4 * kappa * kappa) by nra.
  pose proof (sqrt_pos (1 + 4 * kappa * kappa)) as Hsp.
  pose proof (sqrt_sqrt _ Hs0) as Hss.
  set (s := sqrt (1 + 4 * kappa * kappa)) in *.
  assert (Hs1 : 1 < s) by nra.
  assert (Ha : a = 1 + s) by reflexivity.
  assert (Ha2 : 2 < a) by lra.
  assert (Hk2 : 4 * kappa * kappa = a * a - 2 * a) by (rewrite Ha; nra).
  assert (Ht0 : 0 <= 2 * a) by lra.
  pose proof (sqrt_pos (2 * a)) as Htp.
  pose proof (sqrt_sqrt _ Ht0) as Htt.
  assert (Hb : b = (a - sqrt (2 * a)) / (2 * kappa)) by reflexivity.
  set (t := sqrt (2 * a)) in *.
  assert (Hta : t < a) by nra.
  assert (Hak : a - 2 < 2 * kappa) by nra.
  assert (Hlt : a - t < 2 * kappa).
  { destruct (Rle_dec (a - 2 * kappa) 0) as [Hn|Hn]; [nra|].
    assert (Hp : 0 < a - 2 * kappa) by lra.
    assert (Hsq : (a - 2 * kappa) * (a - 2 * kappa) < t * t).
    { rewrite Htt. replace ((a - 2 * kappa) * (a - 2 * kappa))
        with (a * a - 4 * a * kappa + 4 * kappa * kappa) by ring.
      rewrite Hk2. nra. }
    nra. }
  assert (Hb01 : 0 < b < 1).
  { rewrite Hb. split.
    - apply Rdiv_lt_0_compat; lra.
    - apply Rmult_lt_reg_r with (2 * kappa); [lra|].
      unfold Rdiv. rewrite Rmult_assoc, Rinv_l by lra. lra. }
  split; [exact Hb01|].
  unfold vm_r. fold a b.
  apply Rmult_lt_reg_r with (2 * b); [lra|].
  unfold Rdiv. rewrite Rmult_assoc, Rinv_l by lra. nra.
Qed.

Lemma vm_f_bound_gen r z : 1 < r -> -1 <= z <= 1 -> -1 <= vm_f r z <= 1.
Proof.
  intros Hr Hz. unfold vm_f.
  assert (Hp : 0 < r + z) by lra.
  split.
  - apply Rmult_le_reg_r with (r + z); [lra|].
    unfold Rdiv. rewrite Rmult_assoc, Rinv_l by lra. nra.
  - apply Rmult_le_reg_r with (r + z); [lra|].
    unfold Rdiv. rewrite Rmult_assoc, Rinv_l by lra. nra.
Qed.

(* The argument of acos lies in [-1, 1] and the acceptance constant c is >= 0,
   for every concentration that reaches the rejection loop and every u1. *)
Lemma vm_acos_argument_bounded kappa u1 : 0 < kappa ->
  -1 <= vm_f_of kappa u1 <= 1 /\ 0 <= vm_c_of kappa u1.
Proof.
  intros Hk. destruct (vm_r_gt_1 kappa Hk) as [_ Hr].
  assert (Hz : -1 <= vm_z u1 <= 1) by (unfold vm_z; apply COS_bound).
  pose proof (vm_f_bound_gen _ _ Hr Hz) as Hf.
  split; [exact Hf|].
  unfold vm_c_of, vm_c. unfold vm_f_of in Hf. simpl in Hf |- *. nra.
Qed.

Lemma vm_not_uniform_positive kappa : vm_is_uniform kappa = false -> 0 < kappa.
Proof.
  intros H. destruct (Rle_dec kappa (1 / 1000000)) as [Hl|Hl].
  - apply vm_uniform_iff in Hl. congruence.
  - lra.
Qed.

Lemma cos_sin_period_Z x k :
  cos (x + 2 * IZR k * PI) = cos x /\ sin (x + 2 * IZR k * PI) = sin x.
Proof.
  destruct (Z_le_gt_dec 0 k) as [Hk|Hk].
  - rewrite <- (Z2Nat.id k Hk), <- INR_IZR_INZ. split; [apply cos_period|apply sin_period].
  - assert (Hn : (0 <= - k)%Z) by lia.
    set (y := x + 2 * IZR k * PI).
    assert (E : x = y + 2 * INR (Z.to_nat (- k)) * PI).
    { subst y. rewrite INR_IZR_INZ, Z2Nat.id by lia. rewrite opp_IZR. ring. }
    clearbody y. rewrite E. rewrite cos_period, sin_period. split; reflexivity.
Qed.

Lemma Rfmod_2PI x : cos (Rfmod x (2 * PI)) = cos x /\ sin (Rfmod x (2 * PI)) = sin x.
Proof.
  unfold Rfmod.
  replace (x - IZR (Rtrunc (x / (2 * PI))) * (2 * PI))
    with (x + 2 * IZR (- Rtrunc (x / (2 * PI))) * PI) by (rewrite opp_IZR; ring).
  apply cos_sin_period_Z.
Qed.

(* The result of the acceptance step is mu + acos f or mu - acos f (modulo a
   full turn): the two candidates are mirror images about mu. *)
Lemma vm_result_symmetric mu f : -1 <= f <= 1 ->
  let up := vm_theta_upper mu f in let lo := vm_theta_lower mu f in
  cos up = cos (mu + acos f) /\ sin up = sin (mu + acos f) /\
  cos lo = cos (mu - acos f) /\ sin lo = sin (mu - acos f) /\
  cos (up - mu) = f /\ cos (lo - mu) = f /\
  sin (up - mu) = sqrt (1 - f²) /\ sin (lo - mu) = - sqrt (1 - f²).
Proof.
  intros Hf up lo. subst up lo. unfold vm_theta_upper, vm_theta_lower.
  destruct (Rfmod_2PI (mu + acos f)) as [C1 S1].
  destruct (Rfmod_2PI (mu - acos f)) as [C2 S2].
  repeat split; try assumption.
  - rewrite cos_minus, C1, S1, cos_plus, sin_plus, (cos_acos f Hf).
    pose proof (sin2_cos2 mu) as H. unfold Rsqr in H. nra.
  - rewrite cos_minus, C2, S2, cos_minus, sin_minus, (cos_acos f Hf).
    pose proof (sin2_cos2 mu) as H. unfold Rsqr in H. nra.
  - rewrite sin_minus, C1, S1, cos_plus, sin_plus, (cos_acos f Hf), (sin_acos f Hf).
    pose proof (sin2_cos2 mu) as H. unfold Rsqr in H.
    transitivity (sqrt (1 - f²) * (sin mu * sin mu + cos mu * cos mu)); [ring | rewrite H; ring].
  - rewrite sin_minus, C2, S2, cos_minus, sin_minus, (cos_acos f Hf), (sin_acos f Hf).
    pose proof (sin2_cos2 mu) as H. unfold Rsqr in H.
    transitivity (- sqrt (1 - f²) * (sin mu * sin mu + cos mu * cos mu)); [ring | rewrite H; ring].
Qed.

Lemma vm_angle_concentrated mu kappa u0 u1 u3 : vm_is_uniform kappa = false ->
  let f := vm_f_of kappa u1 in
  -1 <= f <= 1 /\
  (vm_angle mu kappa u0 u1 u3 = vm_theta_upper mu f \/ vm_angle mu kappa u0 u1 u3 = vm_theta_lower mu f) /\
  cos (vm_angle mu kappa u0 u1 u3 - mu) = f.
Proof.
  intros Hu f. subst f.
  pose proof (vm_not_uniform_positive _ Hu) as Hk.
  destruct (vm_acos_argument_bounded kappa u1 Hk) as [Hf _].
  split; [exact Hf|].
  destruct (vm_result_symmetric mu _ Hf) as (_ & _ & _ & _ & Cu & Cl & _).
  unfold vm_angle. rewrite Hu. destruct (vm_upper_branch u3); split; auto.
Qed.

Lemma direction_degrees_mu d deg : compass_degrees d = Some deg ->
  direction_value d = deg /\ radial_vm_mu d = IZR deg * PI / 180.
Proof.
  intros H. pose proof (direction_value_compass d deg H) as E. split; [exact E|].
  rewrite mu_is_degrees, E. reflexivity.
Qed.

Lemma east_example : radial_offset 10 30 4 4 90 (radial_vm_mu DirE) = (4, 13)%Z.
Proof.
  destruct (offset_cardinal 10 30 4 4 90) as (_ & HE & _). rewrite HE.
  replace (90 / 10) with (IZR 9) by (simpl; lra). rewrite Rlround_IZR. reflexivity.
Qed.
