(* Model of include/pops/date.hpp (class Date, class Season).
   Definitions only; proofs are in DateProps.v. *)
From Coq Require Import ZArith List Bool.
Import ListNotations.
Local Open Scope Z_scope.

Record date : Set := mkdate { yr : Z; mo : Z; dy : Z }.

(* Date::is_leap_year.  C++ % truncates, but "== 0" is insensitive to that. *)
Definition is_leap (y : Z) : bool :=
  (y mod 4 =? 0) && (negb (y mod 100 =? 0) || (y mod 400 =? 0)).

(* Date::day_in_month[leap][m]; entry 0 is 0 as in the C++ table.
   Indices outside 0..12 are outside the C++ array: the theorems never go there. *)
Definition dim (l : bool) (m : Z) : Z :=
  match m with
  | 1 => 31 | 2 => if l then 29 else 28 | 3 => 31 | 4 => 30 | 5 => 31 | 6 => 30
  | 7 => 31 | 8 => 31 | 9 => 30 | 10 => 31 | 11 => 30 | 12 => 31 | _ => 0
  end.

(* operator>, operator<, and the derived ones *)
Definition dgt (a b : date) : bool :=
  if yr a <? yr b then false else if yr a >? yr b then true
  else if mo a <? mo b then false else if mo a >? mo b then true
  else negb (dy a <=? dy b).
Definition dlt (a b : date) : bool :=
  if yr a >? yr b then false else if yr a <? yr b then true
  else if mo a >? mo b then false else if mo a <? mo b then true
  else negb (dy a >=? dy b).
Definition dle (a b : date) : bool := negb (dgt a b).
Definition dge (a b : date) : bool := negb (dlt a b).
Definition deq (a b : date) : bool :=
  (yr a =? yr b) && (mo a =? mo b) && (dy a =? dy b).

(* Date::add_day *)
Definition add_day (d : date) : date :=
  let d1 := dy d + 1 in
  if d1 >? dim (is_leap (yr d)) (mo d) then
    if mo d + 1 >? 12 then mkdate (yr d + 1) 1 1 else mkdate (yr d) (mo d + 1) 1
  else mkdate (yr d) (mo d) d1.

(* Date::subtract_day; is_leap_year() is evaluated after the year changed *)
Definition subtract_day (d : date) : date :=
  let d1 := dy d - 1 in
  if d1 =? 0 then
    let m1 := mo d - 1 in
    if m1 =? 0 then mkdate (yr d - 1) 12 (dim (is_leap (yr d - 1)) 12)
    else mkdate (yr d) m1 (dim (is_leap (yr d)) m1)
  else mkdate (yr d) (mo d) d1.

(* The common tail of increased_by_days / increased_by_week: [lim] is the
   December day above which the next start is merged into the year end;
   [again] says whether the merge test is repeated after a month roll-over
   (increased_by_days does, increased_by_week does not). *)
Definition inc_with_merge (again : bool) (lim : Z) (l : bool) (y m day : Z) : date :=
  let '(y1, m1, d1) :=
    if (m =? 12) && (day >? lim) then (y + 1, 1, 1) else (y, m, day) in
  if d1 >? dim l m1 then
    let d2 := d1 - dim l m1 in
    let m2 := m1 + 1 in
    if m2 >? 12 then mkdate (y1 + 1) 1 d2
    else if again && (m2 =? 12) && (d2 >? lim) then mkdate (y1 + 1) 1 1
    else mkdate y1 m2 d2
  else mkdate y1 m1 d1.

(* Date::increased_by_days(num_days) *)
Definition inc_days (n : Z) (d : date) : date :=
  let l := is_leap (yr d) in
  let lim := if l then 31 - (n + 1) else 31 - n in
  inc_with_merge true lim l (yr d) (mo d) (dy d + n).

(* Date::increased_by_week *)
Definition inc_week (d : date) : date :=
  let l := is_leap (yr d) in
  let lim := if l then 23 else 24 in
  inc_with_merge false lim l (yr d) (mo d) (dy d + 7).

(* Date::increased_by_month *)
Definition inc_month (d : date) : date :=
  let m1 := mo d + 1 in
  let '(y, m) := if m1 >? 12 then (yr d + 1, 1) else (yr d, m1) in
  let lim := dim (is_leap y) m in
  mkdate y m (if dy d >? lim then lim else dy d).

Definition is_last_day_of_year (d : date) : bool := (mo d =? 12) && (dy d =? 31).
Definition is_last_day_of_month (d : date) : bool := dy d =? dim (is_leap (yr d)) (mo d).

(* Season::month_in_season *)
Definition month_in_season (s e m : Z) : bool := (m >=? s) && (m <=? e).

(* ---- specification side: validity and the linear day number ---- *)
Definition valid (d : date) : Prop :=
  1 <= mo d <= 12 /\ 1 <= dy d <= dim (is_leap (yr d)) (mo d).
Definition validb (d : date) : bool :=
  (1 <=? mo d) && (mo d <=? 12) && (1 <=? dy d) && (dy d <=? dim (is_leap (yr d)) (mo d)).

(* days before month m in a year *)
Definition cum (l : bool) (m : Z) : Z :=
  let f := if l then 1 else 0 in
  match m with
  | 1 => 0 | 2 => 31 | 3 => 59 + f | 4 => 90 + f | 5 => 120 + f | 6 => 151 + f
  | 7 => 181 + f | 8 => 212 + f | 9 => 243 + f | 10 => 273 + f | 11 => 304 + f
  | 12 => 334 + f | _ => 0
  end.
(* days before 1 January of year y (proleptic Gregorian, any y in Z) *)
Definition dby (y : Z) : Z := 365 * y + (y - 1) / 4 - (y - 1) / 100 + (y - 1) / 400.
Definition dn (d : date) : Z := dby (yr d) + cum (is_leap (yr d)) (mo d) + dy d.
Definition year_len (y : Z) : Z := if is_leap y then 366 else 365.
