(* Proofs about the name tables of SafetyDefs.v: accepted spellings map to what
   they name, everything else is rejected with invalid_argument. *)
From Coq Require Import List String Bool.
From Pops Require Import Err CellDefs SafetyDefs.
Import ListNotations.
Local Open Scope string_scope.

Lemma existsb_eqb_in s l : existsb (String.eqb s) l = true <-> In s l.
Proof.
  rewrite existsb_exists. split.
  - intros (x & Hx & E). apply String.eqb_eq in E. subst. assumption.
  - intros H. exists s. split; [assumption|apply String.eqb_refl].
Qed.

Lemma model_type_names s :
  (In s ["SI"; "SusceptibleInfected"; "susceptible-infected"; "susceptible_infected"] -> model_type_from_string s = Ok SI) /\
  (In s ["SEI"; "SusceptibleExposedInfected"; "susceptible-exposed-infected"; "susceptible_exposed_infected"] ->
     model_type_from_string s = Ok SEI) /\
  (~ In s ["SI"; "SusceptibleInfected"; "susceptible-infected"; "susceptible_infected";
           "SEI"; "SusceptibleExposedInfected"; "susceptible-exposed-infected"; "susceptible_exposed_infected"] ->
     model_type_from_string s = Err InvalidArgument).
Proof.
  unfold model_type_from_string. repeat split.
  - intros H. apply existsb_eqb_in in H. rewrite H. reflexivity.
  - intros H. cbn in H. repeat (destruct H as [<-|H]; [reflexivity|]). destruct H.
  - intros H.
    destruct (existsb (String.eqb s) ["SI"; "SusceptibleInfected"; "susceptible-infected"; "susceptible_infected"]) eqn:E1.
    + exfalso. apply H. apply existsb_eqb_in in E1. cbn in *. tauto.
    + destruct (existsb (String.eqb s) ["SEI"; "SusceptibleExposedInfected"; "susceptible-exposed-infected"; "susceptible_exposed_infected"]) eqn:E2; [|reflexivity].
      exfalso. apply H. apply existsb_eqb_in in E2. cbn in *. tauto.
Qed.

Lemma weather_type_unknown_rejected s :
  ~ In s ["deterministic"; "Deterministic"; "probabilistic"; "Probabilistic"; ""; "none"; "None"; "NONE"] ->
  weather_type_from_string s = Err InvalidArgument.
Proof.
  intros H. unfold weather_type_from_string.
  destruct (existsb (String.eqb s) ["deterministic"; "Deterministic"]) eqn:E1;
    [exfalso; apply H; apply existsb_eqb_in in E1; cbn in *; tauto|].
  destruct (existsb (String.eqb s) ["probabilistic"; "Probabilistic"]) eqn:E2;
    [exfalso; apply H; apply existsb_eqb_in in E2; cbn in *; tauto|].
  destruct (existsb (String.eqb s) [""; "none"; "None"; "NONE"]) eqn:E3;
    [exfalso; apply H; apply existsb_eqb_in in E3; cbn in *; tauto|reflexivity].
Qed.

Lemma treatment_app_unknown_rejected s :
  ~ In s ["ratio_to_all"; "ratio"; "all_infected_in_cell"; "all infected"] ->
  treatment_app_from_string s = Err InvalidArgument.
Proof.
  intros H. unfold treatment_app_from_string.
  destruct (existsb (String.eqb s) ["ratio_to_all"; "ratio"]) eqn:E1;
    [exfalso; apply H; apply existsb_eqb_in in E1; cbn in *; tauto|].
  destruct (existsb (String.eqb s) ["all_infected_in_cell"; "all infected"]) eqn:E2;
    [exfalso; apply H; apply existsb_eqb_in in E2; cbn in *; tauto|reflexivity].
Qed.

Lemma arrival_behavior_unknown_rejected s : s <> "infect" -> s <> "land" ->
  set_arrival_behavior s = Err InvalidArgument.
Proof.
  intros H1 H2. unfold set_arrival_behavior.
  destruct (String.eqb_spec s "infect"); [contradiction|]. destruct (String.eqb_spec s "land"); [contradiction|reflexivity].
Qed.

Lemma quarantine_direction_unknown_rejected l : (exists s, In s l /\ ~ In s ["N"; "S"; "E"; "W"]) ->
  directions_from_list l = Err InvalidArgument.
Proof.
  intros (s & Hs & Hn). unfold directions_from_list.
  destruct (forallb quarantine_direction_ok l) eqn:E; [|reflexivity].
  rewrite forallb_forall in E. specialize (E s Hs). unfold quarantine_direction_ok in E.
  apply existsb_eqb_in in E. contradiction.
Qed.
