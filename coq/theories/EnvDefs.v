(* Model of Environment::update_weather_from_distribution (environment.hpp) and
   NormalDistributionWithUniformFallback.  The normal and uniform variates are
   explicit inputs (logged by the guarded hook).  Definitions only. *)
From Coq Require Import ZArith QArith List Bool.
From Pops Require Import Err Rounding.
Import ListNotations.
Local Open Scope Z_scope.

(* NormalDistributionWithUniformFallback::operator(): the normal value, or the
   uniform one when the normal value leaves [low, high] = [0, 1] *)
Definition weather_draw (normal uniform : Q) : Q :=
  if qltb normal 0 || qltb 1 normal then uniform else normal.

(* the loop over cells (row-major): a mean outside [0, 1] is rejected at the
   cell where it is met; [draws] holds one (normal, uniform) pair per cell *)
Fixpoint weather_cells (means : list Q) (draws : list (Q * Q)) : result (list Q) :=
  match means with
  | [] => Ok []
  | m :: rm =>
    if qltb m 0 || qltb 1 m then Err InvalidArgument
    else match draws with
         | [] => Err TapeMismatch
         | (nv, uv) :: rd => do rest <- weather_cells rm rd; Ok (weather_draw nv uv :: rest)
         end
  end.

Definition update_weather_from_distribution
  (mrows mcols srows scols : Z) (means : list Q) (draws : list (Q * Q)) : result (list Q) :=
  if negb (mrows =? srows) then Err InvalidArgument
  else if negb (mcols =? scols) then Err InvalidArgument
  else weather_cells means draws.
