(* Model of RandomNumberGeneratorProvider (generator_provider.hpp) and of which
   random stream each process of the model draws from.  The seeding order, the
   key table, the accessor tables and the per-action accessor use come from
   GeneratedRng.v, which translate/rng_tables.py regenerates from the headers on
   every run.  Definitions only. *)
From Coq Require Import ZArith List String Bool.
From Pops Require Import Err GeneratedRng ModelDefs.
Import ListNotations.
Local Open Scope string_scope.
Local Open Scope Z_scope.

(* the ten named streams in the documented order *)
Definition documented_streams : list string :=
  ["disperser_generation"; "natural_dispersal"; "anthropogenic_dispersal"; "establishment";
   "weather"; "lethal_temperature"; "movement"; "overpopulation"; "survival_rate"; "soil"].

(* a provider: which generator object each stream accessor returns and what it
   was seeded with; in single mode every accessor returns the one generator *)
Inductive provider : Set :=
| Single (seed : Z)
| Multi (seeds : list (string * Z)).   (* stream accessor -> seed of its own generator *)

Fixpoint lookup (k : string) (m : list (string * Z)) : option Z :=
  match m with
  | [] => None
  | (k', v) :: r => if String.eqb k k' then Some v else lookup k r
  end.

(* MultiRandomNumberGeneratorProvider::seed(unsigned) *)
Definition seed_multi (s : Z) : list (string * Z) :=
  map (fun p => (fst p, s + snd p)) gen_multi_seed_order.

(* MultiRandomNumberGeneratorProvider::seed(map): every key is required *)
Fixpoint seed_named_loop (keys : list (string * string)) (seeds : list (string * Z))
  : result (list (string * Z)) :=
  match keys with
  | [] => Ok []
  | (key, accessor) :: r =>
    match lookup key seeds with
    | None => Err InvalidArgument
    | Some v => do rest <- seed_named_loop r seeds; Ok ((accessor, v) :: rest)
    end
  end.
Definition seed_named (seeds : list (string * Z)) : result (list (string * Z)) :=
  seed_named_loop gen_named_seed_keys seeds.

(* RandomNumberGeneratorProvider(const Config&) *)
Definition make_provider (multiple : bool) (random_seed : Z) (random_seeds : list (string * Z))
  : result provider :=
  if multiple then
    match random_seeds with
    | [] => Ok (Multi (seed_multi random_seed))
    | _ => do m <- seed_named random_seeds; Ok (Multi m)
    end
  else Ok (Single random_seed).

(* the generator object behind a stream accessor: its identity and its seed *)
Definition stream_generator (p : provider) (accessor : string) : option (string * Z) :=
  match p with
  | Single s => match lookup accessor (map (fun a => (fst a, 0)) gen_single_accessors) with
                | Some _ => Some ("general", s) | None => None end
  | Multi m => match lookup accessor m with Some s => Some (accessor, s) | None => None end
  end.

(* using the provider itself as one generator: operator() / discard() *)
Definition use_as_generator (p : provider) : result unit :=
  match p with
  | Single _ => Ok tt
  | Multi _ => if gen_call_throws_in_multi then Err RuntimeError else Ok tt
  end.
Definition discard_on (p : provider) : result unit :=
  match p with
  | Single _ => Ok tt
  | Multi _ => if gen_discard_throws_in_multi then Err RuntimeError else Ok tt
  end.

(* ---- which streams an action of Model::run_step draws from ---- *)
Definition class_streams (cls : string) : list string :=
  match find (fun p => String.eqb (fst p) cls) gen_action_streams with
  | Some p => snd p | None => [] end.

Definition action_streams (tag : action_tag) : list string :=
  match tag with
  | ALethal => class_streams "RemoveByTemperature"
  | ASurvival => class_streams "SurvivalRateAction"
  | AGenerate => filter (fun s => String.eqb s "disperser_generation" || String.eqb s "soil")
                        (class_streams "SpreadAction")
  | ADisperse => filter (fun s => negb (String.eqb s "disperser_generation")) (class_streams "SpreadAction")
                 ++ ["natural_dispersal"; "anthropogenic_dispersal"]    (* inside the kernels *)
  | AOverpop => class_streams "MoveOverpopulatedPests"
  | AMovement => class_streams "HostMovement"
  | AMortality => class_streams "Mortality"
  | ASoil | AStepForward | ATreatments | ASpreadRate | AQuarantine => []
  end.

(* streams a whole step may draw from: those of the actions in its plan *)
Definition plan_streams (p : list (action_tag * Z)) : list string :=
  flat_map (fun a => action_streams (fst a)) p.
