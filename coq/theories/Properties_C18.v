(* C18  Reported metrics equal their definitions computed from the infected raster.
   Statements only; each is closed by `exact` of a lemma proved in MetricsProps.v.
   The model is MetricsDefs.v (tied to spread_rate.hpp, quarantine.hpp and
   statistics.hpp by the correspondence check of bin/check C18).

   Vocabulary (MetricsProps.v): `box_of P b` - b holds the least/greatest row and
   column over the cells satisfying P, each attained by such a cell;
   `infected_in inf suit c` - c is a suitable cell with a positive count;
   `in_raster rows cols c` - 0 <= row < rows, 0 <= col < cols;
   `own_box rows cols areas c b` - b is the bounding box of all raster cells that
   carry the same area id as c; `side_dist ew ns b c k` - distance in map units
   from c to side k of b; `rate_spec res disp touches r` - r is undefined iff
   (touches and disp = 0), and otherwise equals disp * res.
   QuarantineEscapeAction tests `!infected_at`, so there an infected cell is one
   with a non-zero count (the same cells for the non-negative counts of pops). *)
From Coq Require Import ZArith QArith List.
From Pops Require Import Err MetricsDefs MetricsProps.
Import ListNotations.
Local Open Scope Z_scope.

(* Bounding box of the infection, any shape (rows <> cols included) and any
   contents: the min/max row and column over the infected suitable cells, and
   the "no infection" value (-1,-1,-1,-1) when there is none. *)
Theorem C18_bbox_is_min_max : forall rows cols inf suit,
  (forall c, In c suit -> in_raster rows cols c) ->
  let b := infection_boundary rows cols inf suit in
  ((forall c, ~ infected_in inf suit c) /\ b = no_box /\ is_boundary_valid b = false)
  \/ ((exists c, infected_in inf suit c) /\ box_of (infected_in inf suit) b /\ is_boundary_valid b = true).
Proof. exact infection_boundary_spec. Qed.
Print Assumptions C18_bbox_is_min_max.

(* Rates over any sequence of measurements r0, r1, ...: measurement k reports
   the box of raster k+1 and its rates; with no infection in raster k+1 every
   rate is undefined; when raster k and raster k+1 both have infection (boxes bp
   and bc) each rate is the displacement of the box times the cell resolution,
   and is undefined exactly when the box touches that edge of the study area
   (row 0, row rows-1, column cols-1, column 0) and did not move. *)
Theorem C18_rate_def_and_undefined_iff : forall rows cols ew ns suit r0 rs k rp rc,
  ~ (ew == 0)%Q -> ~ (ns == 0)%Q ->
  (forall c, In c suit -> in_raster rows cols c) ->
  nth_error (r0 :: rs) k = Some rp -> nth_error (r0 :: rs) (S k) = Some rc ->
  exists (b : bbox) (rt : rates),
    nth_error (snd (spread_run rows cols ew ns suit r0 rs)) k = Some (b, rt) /\
    ((forall c, ~ infected_in (rget rc) suit c) -> b = no_box /\ rt = nan_rates) /\
    (forall bc, box_of (infected_in (rget rc) suit) bc ->
       b = bc /\
       forall bp, box_of (infected_in (rget rp) suit) bp ->
         rate_spec ns (bn bp - bn bc) (bn bc =? 0) (rt_n rt) /\
         rate_spec ns (bs bc - bs bp) (bs bc =? rows - 1) (rt_s rt) /\
         rate_spec ew (be bc - be bp) (be bc =? cols - 1) (rt_e rt) /\
         rate_spec ew (bw bp - bw bc) (bw bc =? 0) (rt_w rt)).
Proof. exact spread_run_rates. Qed.
Print Assumptions C18_rate_def_and_undefined_iff.

(* Average rate over runs, per direction: the mean over the defined values,
   undefined exactly when no run has a defined value. *)
Theorem C18_average_rates_mean_of_defined : forall l,
  let a := average_spread_rate l in
  (rt_n a = mean_defined (map rt_n l) /\ rt_s a = mean_defined (map rt_s l) /\
   rt_e a = mean_defined (map rt_e l) /\ rt_w a = mean_defined (map rt_w l)) /\
  forall vals,
    match mean_defined vals with
    | None => defined_values vals = []
    | Some m => defined_values vals <> [] /\
                (m == Qsum (defined_values vals) / inject_Z (Z.of_nat (length (defined_values vals))))%Q
    end.
Proof. exact (fun l => conj (average_spread_rate_spec l) mean_defined_spec). Qed.
Print Assumptions C18_average_rates_mean_of_defined.

(* Quarantine areas, any shape: for every positive id present in the raster the
   recorded box is the bounding box of the cells with that id. *)
Theorem C18_area_boxes : forall rows cols areas id,
  match find_box id (quarantine_boundary rows cols areas) with
  | Some b => 0 < id /\ box_of (area_of rows cols areas id) b
  | None => id <= 0 \/ forall c, ~ area_of rows cols areas id c
  end.
Proof. exact quarantine_boundary_spec. Qed.
Print Assumptions C18_area_boxes.

(* Escape is reported exactly when an infected cell lies outside every
   quarantine area (area id 0). *)
Theorem C18_escape_iff : forall rows cols en ew ns inf areas suit,
  (forall c, In c suit -> in_raster rows cols c) ->
  (forall c, In c suit -> 0 <= areas (fst c) (snd c)) ->
  exists q, quarantine_action en ew ns inf areas (quarantine_boundary rows cols areas) suit = Ok q /\
    (q = QEscaped <->
     exists c, In c suit /\ inf (fst c) (snd c) <> 0 /\ areas (fst c) (snd c) = 0).
Proof. exact escape_iff. Qed.
Print Assumptions C18_escape_iff.

(* Not escaped, integer resolutions: the reported distance and direction are
   those of the infected cell nearest to the bounding box of its own area among
   the enabled directions - the distance is attained by an infected cell in the
   reported (enabled) direction and no infected cell is nearer to any enabled
   side of its own area's box.  With no infected cell the record keeps its
   initial value. *)
Theorem C18_nearest_holds_when_integer_resolution : forall rows cols en ew ns inf areas suit,
  (forall c, In c suit -> in_raster rows cols c) ->
  (forall c, In c suit -> 0 <= areas (fst c) (snd c)) ->
  (exists k, enabled en k = true) ->
  (forall c b k, In c suit -> own_box rows cols areas c b -> enabled en k = true ->
                 (side_dist ew ns b c k < inject_Z int_max)%Q) ->
  (forall c, In c suit -> inf (fst c) (snd c) <> 0 -> areas (fst c) (snd c) <> 0) ->
  forall zew zns, (ew == inject_Z zew)%Q -> (ns == inject_Z zns)%Q ->
  ((forall c, In c suit -> inf (fst c) (snd c) = 0) /\
   quarantine_action en ew ns inf areas (quarantine_boundary rows cols areas) suit = Ok (QInside None))
  \/
  (exists m tag,
     quarantine_action en ew ns inf areas (quarantine_boundary rows cols areas) suit
     = Ok (QInside (Some (m, tag))) /\
     enabled en tag = true /\
     (exists c b, In c suit /\ inf (fst c) (snd c) <> 0 /\ own_box rows cols areas c b /\
                  (side_dist ew ns b c tag == inject_Z m)%Q) /\
     (forall c b k, In c suit -> inf (fst c) (snd c) <> 0 -> own_box rows cols areas c b ->
                    enabled en k = true -> (inject_Z m <= side_dist ew ns b c k)%Q)).
Proof. exact nearest_integer. Qed.
Print Assumptions C18_nearest_holds_when_integer_resolution.

(* Any resolution: what the code reports is the least *rounded* distance
   (lround, halves away from zero) and an enabled direction at that rounded
   distance. *)
Theorem C18_nearest_rounded_any_resolution : forall rows cols en ew ns inf areas suit,
  (forall c, In c suit -> in_raster rows cols c) ->
  (forall c, In c suit -> 0 <= areas (fst c) (snd c)) ->
  (exists k, enabled en k = true) ->
  (forall c b k, In c suit -> own_box rows cols areas c b -> enabled en k = true ->
                 (side_dist ew ns b c k < inject_Z int_max)%Q) ->
  (forall c, In c suit -> inf (fst c) (snd c) <> 0 -> areas (fst c) (snd c) <> 0) ->
  ((forall c, In c suit -> inf (fst c) (snd c) = 0) /\
   quarantine_action en ew ns inf areas (quarantine_boundary rows cols areas) suit = Ok (QInside None))
  \/
  (exists m tag,
     quarantine_action en ew ns inf areas (quarantine_boundary rows cols areas) suit
     = Ok (QInside (Some (m, tag))) /\
     enabled en tag = true /\
     (exists c b, In c suit /\ inf (fst c) (snd c) <> 0 /\ own_box rows cols areas c b /\
                  lround (side_dist ew ns b c tag) = m) /\
     (forall c b k, In c suit -> inf (fst c) (snd c) <> 0 -> own_box rows cols areas c b ->
                    enabled en k = true -> m <= lround (side_dist ew ns b c k))).
Proof. exact nearest_rounded. Qed.
Print Assumptions C18_nearest_rounded_any_resolution.

(* The nearest-cell clause is violated with a fractional resolution: in the
   domain of the property (cells in the raster, one area, a direction enabled,
   nothing escaped) the reported distance is strictly greater than the distance
   of an infected cell to an enabled side of its own area's box (5x3 raster,
   resolution 1/2, infected cell one row below the north edge: 1 instead of 1/2). *)
Theorem C18_nearest_refuted : exists rows cols en ew ns inf areas suit m tag,
  (forall c, In c suit -> in_raster rows cols c) /\
  (forall c, In c suit -> 0 <= areas (fst c) (snd c)) /\
  (exists k, enabled en k = true) /\
  (forall c, In c suit -> inf (fst c) (snd c) <> 0 -> areas (fst c) (snd c) <> 0) /\
  quarantine_action en ew ns inf areas (quarantine_boundary rows cols areas) suit
  = Ok (QInside (Some (m, tag))) /\
  exists c b k, In c suit /\ inf (fst c) (snd c) <> 0 /\ own_box rows cols areas c b /\
                enabled en k = true /\ (side_dist ew ns b c k < inject_Z m)%Q.
Proof. exact nearest_refuted_witness. Qed.
Print Assumptions C18_nearest_refuted.

(* Sequences of measurements of one run: record k is the action on raster k. *)
Theorem C18_quarantine_measurement_sequence : forall en ew ns areas boxes suit rs l,
  quarantine_steps en ew ns areas boxes suit rs = Ok l ->
  length l = length rs /\
  forall k r, nth_error rs k = Some r ->
    exists q, nth_error l k = Some q /\ quarantine_action en ew ns (rget r) areas boxes suit = Ok q.
Proof. exact quarantine_steps_nth. Qed.
Print Assumptions C18_quarantine_measurement_sequence.

(* Escape probability over a non-empty set of runs: the plain fraction. *)
Theorem C18_escape_probability_is_fraction : forall infos, infos <> [] ->
  escape_probability infos
  = Some (inject_Z (Z.of_nat (length (filter q_escaped infos))) / inject_Z (Z.of_nat (length infos)))%Q.
Proof. exact escape_probability_spec. Qed.
Print Assumptions C18_escape_probability_is_fraction.

(* The report has one row per step, built from the per-run records of that step. *)
Theorem C18_report_rows : forall runs n k, (k < n)%nat ->
  nth_error (write_quarantine_escape runs n) k = Some (csv_row runs k).
Proof. exact write_quarantine_escape_rows. Qed.
Print Assumptions C18_report_rows.

(* Infected sum: the sum over the suitable cells (for non-negative counts whose
   sum fits the unsigned accumulator). *)
Theorem C18_sum_def : forall inf suit,
  (forall c, In c suit -> 0 <= inf (fst c) (snd c)) ->
  Zsum (fun c => inf (fst c) (snd c)) suit < 4294967296 ->
  sum_of_infected inf suit = Zsum (fun c => inf (fst c) (snd c)) suit.
Proof. exact sum_of_infected_exact. Qed.
Print Assumptions C18_sum_def.

(* Infected area: the count of infected suitable cells times the cell area. *)
Theorem C18_area_def : forall inf ew ns suit,
  (area_of_infected inf ew ns suit
   == inject_Z (Z.of_nat (length (filter (infectedb inf) suit))) * (ew * ns))%Q /\
  forall c, In c (filter (infectedb inf) suit) <-> infected_in inf suit c.
Proof. exact (fun inf ew ns suit => conj (area_of_infected_spec inf ew ns suit) (filter_infectedb_iff inf suit)). Qed.
Print Assumptions C18_area_def.

(* With the complete suitable-cell list the sum and the count run over the whole
   raster, for every shape. *)
Theorem C18_complete_list_is_whole_raster : forall r, well_formed r ->
  let suit := all_cells (r_rows r) (r_cols r) in
  Zsum (fun c => rget r (fst c) (snd c)) suit = fold_right Z.add 0 (r_data r) /\
  length (filter (infectedb (rget r)) suit) = length (filter (fun v => v >? 0) (r_data r)).
Proof. exact complete_list_sum_count. Qed.
Print Assumptions C18_complete_list_is_whole_raster.

(* Non-vacuity: a 5x2 raster (rows > cols) whose infection moves one row north;
   the model reports the box (3,4,0,0), a north rate of 10, south and west
   undefined (on the edge, unmoved), east 0; and a quarantine record of
   distance 10, direction south (one row above the south edge of its area),
   on a 5x3 raster with ns resolution 10. *)
Example C18_nonvacuous :
  let suit := all_cells 5 2 in
  let r0 := mkraster 5 2 [0;0; 0;0; 0;0; 0;0; 1;0] in
  let r1 := mkraster 5 2 [0;0; 0;0; 0;0; 1;0; 1;0] in
  snd (spread_run 5 2 10 10 suit r0 [r1])
  = [(mkbox 3 4 0 0, mkrates (Some (1 * 10)%Q) None (Some (0 * 10)%Q) None)]
  /\ quarantine_action (mkdirs true true false false) 20 10
       (fun i j => if (i =? 3) && (j =? 1) then 2 else 0) (fun _ _ => 7)
       (quarantine_boundary 5 3 (fun _ _ => 7)) (all_cells 5 3)
     = Ok (QInside (Some (10, DirS))).
Proof. vm_compute. split; reflexivity. Qed.
Print Assumptions C18_nonvacuous.
